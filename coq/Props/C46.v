(* C46 — Index range operations preserve the set of keys they denote.
   Only statements, each closed by [exact], each followed by Print Assumptions.
   Keys: [option Z] (None = NULL, its own lowest point); a tuple is a list of keys; [contains r v] and
   [rcontains rg t] are the denotations of a column expression and of a multi-column range;
   [ucontains rs t] is the union of a list of ranges.  All statements hold for ALL cuts / ranges / keys. *)
From Coq Require Import List ZArith Bool.
Import ListNotations.
From Coq Require Import Sorted.
From GMS Require Import Range.Cut Range.CutProofs Range.MRange Range.MRangeProofs Range.MRangeMore Range.RorNoError
  Range.RorSorted Range.SimplifyProofs Range.RorTerm Range.C03IndexBuilderProofs.
Open Scope nat_scope.

(* the cut order of range_cut.go is a total order ... *)
Theorem C46_cut_order_total : forall a b c,
  cut_cmp a a = Eq /\ (cut_cmp a b = Eq <-> a = b) /\ cut_cmp b a = CompOpp (cut_cmp a b) /\
  (cut_cmp a b = Lt -> cut_cmp b c = Lt -> cut_cmp a c = Lt).
Proof. intros a b c. exact (conj (cut_cmp_refl a) (conj (cut_cmp_Eq_eq a b) (conj (cut_cmp_antisym a b) (cut_cmp_trans a b c)))). Qed.
Print Assumptions C46_cut_order_total.

(* ... with BelowNull < AboveNull < Below k < Above k < AboveAll (and Above k < Below k' for k < k') ... *)
Theorem C46_cut_chain : forall k k', cut_cmp BelowNull AboveNull = Lt /\ cut_cmp AboveNull (Below k) = Lt /\
  cut_cmp (Below k) (Above k) = Lt /\ cut_cmp (Above k) AboveAll = Lt /\ (k < k' -> cut_cmp (Above k) (Below k') = Lt)%Z.
Proof. exact cut_chain. Qed.
Print Assumptions C46_cut_chain.

(* ... compatible with the denotation: a lower cut is below at least the same keys; NULL is only above BelowNull *)
Theorem C46_below_antitone : forall a b v, cut_cmp a b <> Gt -> below b v = true -> below a v = true.
Proof. exact below_mono. Qed.
Print Assumptions C46_below_antitone.
Theorem C46_null_is_lowest_point : forall c, below c None = true <-> c = BelowNull.
Proof. exact null_lowest. Qed.
Print Assumptions C46_null_is_lowest_point.

(* single column: intersection, overlap, union, subtraction are exact over the denotation *)
Theorem C46_col_try_intersect_exact : forall r o v, contains (fst (try_intersect r o)) v = contains r v && contains o v.
Proof. exact try_intersect_exact. Qed.
Print Assumptions C46_col_try_intersect_exact.
Theorem C46_col_overlaps_exact : forall r o v,
  (snd (overlaps r o) = true -> contains (fst (overlaps r o)) v = contains r v && contains o v) /\
  (snd (overlaps r o) = false -> contains r v && contains o v = false).
Proof. intros r o v. exact (conj (overlaps_true r o v) (overlaps_false r o v)). Qed.
Print Assumptions C46_col_overlaps_exact.
Theorem C46_col_try_union_exact_when_connected : forall r o,
  ((exists m, try_union r o = Some m) <-> (is_empty o = true \/ is_empty r = true \/ is_connected r o = true)) /\
  forall m v, try_union r o = Some m -> contains m v = contains r v || contains o v.
Proof. intros r o. exact (conj (try_union_some_iff r o) (fun m v => try_union_exact r o m v)). Qed.
Print Assumptions C46_col_try_union_exact_when_connected.
Theorem C46_col_subtract_exact : forall r o v,
  existsb (fun p => contains p v) (subtract r o) = contains r v && negb (contains o v).
Proof. exact subtract_exact. Qed.
Print Assumptions C46_col_subtract_exact.
Theorem C46_col_subtract_pieces_disjoint : forall r o p q v,
  is_empty o = false -> subtract r o = [p; q] -> contains p v && contains q v = false.
Proof. exact subtract_disjoint. Qed.
Print Assumptions C46_col_subtract_pieces_disjoint.
(* without the guard the pieces overlap: [0,10] minus the inverted (5,3) yields [0,5] and [3,10], both holding 4 *)
Theorem C46_col_subtract_pieces_disjoint_unguarded_refuted : exists r o p q v,
  subtract r o = [p; q] /\ contains p v && contains q v = true.
Proof. exists (closed_rce 0 10), (open_rce 5 3), (mkR (Below 0) (Above 5)), (mkR (Below 3) (Above 10)), (Some 4%Z). split; reflexivity. Qed.
Print Assumptions C46_col_subtract_pieces_disjoint_unguarded_refuted.
Theorem C46_col_is_empty_and_subset_sound : forall r o v,
  (is_empty r = true -> contains r v = false) /\
  (is_subset_of r o = true -> contains r v = true -> contains o v = true).
Proof. intros r o v. exact (conj (is_empty_sound r v) (is_subset_sound r o v)). Qed.
Print Assumptions C46_col_is_empty_and_subset_sound.

(* multi-column ranges *)
Theorem C46_range_intersect_exact : forall a b t, length a = length b ->
  rcontains (r_intersect a b) t = rcontains a t && rcontains b t.
Proof. exact r_intersect_exact. Qed.
Print Assumptions C46_range_intersect_exact.
Theorem C46_range_try_merge_exact : forall a b m t, try_merge a b = Some m -> rcontains m t = rcontains a t || rcontains b t.
Proof. exact try_merge_exact. Qed.
Print Assumptions C46_range_try_merge_exact.
Theorem C46_range_merge_error_unreachable : forall a b, length a = length b -> first_diff a b = None -> try_merge a b = Some a.
Proof. exact merge_error_unreachable. Qed.
Print Assumptions C46_range_merge_error_unreachable.
Theorem C46_range_remove_overlap_exact : forall fuel a b out ok t,
  remove_overlap fuel a b = Some (out, ok) -> ucontains out t = rcontains a t || rcontains b t.
Proof. exact remove_overlap_exact. Qed.
Print Assumptions C46_range_remove_overlap_exact.

(* the recursion of MySQLRange.RemoveOverlap always finishes within (columns + 1) levels *)
Theorem C46_range_remove_overlap_terminates : forall a b, exists out ok, remove_overlap_top a b = Some (out, ok).
Proof. exact remove_overlap_terminates. Qed.
Print Assumptions C46_range_remove_overlap_terminates.

(* the ranges RemoveOverlap returns are pairwise disjoint when no column of a or b is empty at the cut level
   (without that guard Subtract's pieces can overlap, see C46_col_subtract_pieces_disjoint_unguarded_refuted) *)
Theorem C46_range_remove_overlap_disjoint : forall fuel a b out ok, no_empty_col a = true -> no_empty_col b = true ->
  remove_overlap fuel a b = Some (out, ok) -> pairwise_disjoint out.
Proof. exact remove_overlap_disjoint. Qed.
Print Assumptions C46_range_remove_overlap_disjoint.

(* SimplifyRangeColumn: same union; the output ranges are non-empty, ascending, and each lies strictly above the
   previous one with a gap (upper bound < next lower bound), hence pairwise disconnected and disjoint *)
Theorem C46_simplify_range_column : forall l,
  (forall v, existsb (fun r => contains r v) (simplify_range_column l) = existsb (fun r => contains r v) l) /\
  StronglySorted gap (simplify_range_column l) /\ Forall (fun b => is_empty b = false) (simplify_range_column l).
Proof. intros l. exact (conj (simplify_range_column_exact l) (simplify_range_column_sorted l)). Qed.
Print Assumptions C46_simplify_range_column.
Theorem C46_gap_means_disconnected_and_disjoint : forall x y, is_empty x = false -> is_empty y = false -> gap x y ->
  is_connected x y = false /\ snd (overlaps x y) = false /\ forall v, contains x v && contains y v = false.
Proof. exact gap_disconnected. Qed.
Print Assumptions C46_gap_means_disconnected_and_disjoint.

(* RemoveOverlappingRanges, for every input list, every step bound and every admissible sequence of
   FindConnections observations: a returned collection denotes exactly the union of the inputs and is pairwise
   disjoint.  (Named _partial for continuity: sortedness, absence of the error and termination are the three theorems
   that follow it, each under the guard that no input column is empty at the cut level.) *)
Theorem C46_remove_overlapping_ranges_exact_disjoint_partial : forall fuel finds rs out c t, t <> [] ->
  remove_overlapping_ranges fuel finds rs = (ROk out, c) ->
  ucontains out t = ucontains rs t /\ pairwise_disjoint out.
Proof. exact remove_overlapping_ranges_exact. Qed.
Print Assumptions C46_remove_overlapping_ranges_exact_disjoint_partial.

(* ... and, when every input range has the same number n of columns (empty columns allowed), it is strictly sorted by
   MySQLRange.Compare ... *)
Theorem C46_remove_overlapping_ranges_sorted : forall n fuel finds rs out c,
  Forall (fun r => length r = n) rs -> remove_overlapping_ranges fuel finds rs = (ROk out, c) -> StronglySorted rlt out.
Proof. exact remove_overlapping_ranges_sorted_len. Qed.
Print Assumptions C46_remove_overlapping_ranges_sorted.
(* ... and, when moreover no input column is empty at the cut level (lower < upper), the "overlapping ranges" error
   cannot occur when every FindConnections observation was complete
   (the flag returned by the model is true); the finding below is exactly an incomplete observation of the real tree *)
Theorem C46_remove_overlapping_ranges_no_error_when_finds_complete : forall n fuel finds rs res,
  Forall (wf n) rs -> remove_overlapping_ranges fuel finds rs = (res, true) -> res <> RErrOverlap.
Proof. exact remove_overlapping_ranges_no_error. Qed.
Print Assumptions C46_remove_overlapping_ranges_no_error_when_finds_complete.

(* ... and the worklist loop terminates: with more steps than the explicit bound ror_bound (computed from the number of
   grid cells the input covers, counted on the grid of its own cuts) the step bound is never the reason to stop,
   whatever the FindConnections observations are.  The guard is essential: see the non-termination finding. *)
Theorem C46_remove_overlapping_ranges_terminates : forall n rs finds fuel,
  Forall (wf n) rs -> ror_bound rs < fuel -> fst (remove_overlapping_ranges fuel finds rs) <> RFuel.
Proof. exact remove_overlapping_ranges_terminates. Qed.
Print Assumptions C46_remove_overlapping_ranges_terminates.

(* IntersectRanges: when the arguments of non-zero length all have n columns and there is at least one, the
   result is a range of n columns denoting exactly the intersection of those arguments (an empty intersection is
   returned as the range of empty columns, which denotes nothing); nil when every argument has length 0. *)
Theorem C46_intersect_ranges_exact : forall n rs, n <> 0 -> lens_ok n rs -> Exists (fun x => length x = n) rs ->
  exists r, intersect_ranges rs = Some r /\ length r = n /\ forall t, rcontains r t = all_contain rs t.
Proof. exact intersect_ranges_exact. Qed.
Print Assumptions C46_intersect_ranges_exact.
Theorem C46_intersect_ranges_nil_when_no_argument : forall rs, Forall (fun x => length x = 0) rs -> intersect_ranges rs = None.
Proof. exact intersect_ranges_none_when_all_zero. Qed.
Print Assumptions C46_intersect_ranges_nil_when_no_argument.

(* with the FindConnections observations the real tree produced on this well-formed 3-column input (one of them
   misses a stored overlapping range: the completeness flag is false) the result is the "overlapping ranges" error *)
Definition c46_err_input : list range :=
  [[mkR (Above 3) AboveAll; mkR (Above 2) (Above 3); mkR (Above 2) (Below 4)];
   [mkR (Above 4) AboveAll; mkR AboveNull (Above 3); mkR (Above 0) (Above 1)];
   [mkR BelowNull AboveAll; mkR (Below 3) AboveAll; mkR (Above 1) (Above 2)];
   [mkR (Above 2) (Below 4); mkR (Below 0) (Below 3); mkR (Below 0) (Below 2)];
   [mkR (Below 0) (Below 3); mkR (Below 1) (Above 1); mkR (Above 3) AboveAll];
   [mkR (Below 4) (Above 4); mkR BelowNull (Above 4); mkR (Below 2) (Above 4)]]%Z.
Definition c46_err_finds : list (list range) :=
  [[]; [[mkR (Above 3) AboveAll; mkR (Above 2) (Above 3); mkR (Above 2) (Below 4)]; [mkR (Above 4) AboveAll; mkR AboveNull (Above 3); mkR (Above 0) (Above 1)]];
   [[mkR BelowNull AboveAll; mkR (Below 3) AboveAll; mkR (Above 1) (Above 2)]]; [];
   [[mkR (Above 3) AboveAll; mkR (Above 2) (Above 3); mkR (Above 2) (Below 4)]; [mkR BelowNull AboveAll; mkR (Below 3) AboveAll; mkR (Above 1) (Above 2)]; [mkR (Above 2) (Below 4); mkR (Below 0) (Below 3); mkR (Below 0) (Below 2)]];
   []; [];
   [[mkR (Above 2) (Below 4); mkR (Below 0) (Below 3); mkR (Below 0) (Below 2)]; [mkR (Above 4) AboveAll; mkR (Above 2) (Above 3); mkR (Above 2) (Below 4)]; [mkR (Above 3) (Below 4); mkR (Above 2) (Above 3); mkR (Above 2) (Below 4)]]]%Z.
Theorem C46_remove_overlapping_error_reachable :
  remove_overlapping_ranges 300 c46_err_finds c46_err_input = (RErrOverlap, false).
Proof. vm_compute. reflexivity. Qed.
Print Assumptions C46_remove_overlapping_error_reachable.

(* non-vacuity: three 1-column ranges, two of them overlapping, come out as two disjoint sorted ranges *)
Example C46_nonvacuous :
  remove_overlapping_ranges 10 [[[closed_rce 0 2]]; []; []] [[closed_rce 0 2]; [closed_rce 1 4]; [closed_rce 6 7]]
  = (ROk [[closed_rce 0 4]; [closed_rce 6 7]], true)%Z.
Proof. vm_compute. reflexivity. Qed.
