(* C21 -- Schema changes preserve existing data.
   Only statements, each closed by [exact], each followed by Print Assumptions.
   Model: Store/C21Alter.v (tables as ordered column definitions + primary key + rows binding every column name). *)
From Coq Require Import List NArith ZArith Bool.
Import ListNotations.
From GMS Require Import Store.C21Alter Store.C21AlterProofs.
Open Scope N_scope.

(* every ALTER statement of the modelled fragment (ADD / DROP / MODIFY / CHANGE / RENAME COLUMN with FIRST / AFTER,
   RENAME TO, ADD / DROP INDEX, ADD / DROP PRIMARY KEY), every table, every number of rows: a column that is retained
   (under its possibly new name n') has, row by row, its old value, converted to the new definition when the
   statement re-types it *)
Theorem C21_alter_preserves_retained_partial :
  forall o t t' n n', inv t -> alter o t = Some t' -> In n (names t) -> retained o n = Some n' ->
    Forall2 (fun r r' => exists v v', lookup n r = Some v /\ lookup n' r' = Some v' /\ convd o t n v = Some v')
            (rows t) (rows t').
Proof. exact alter_preserves_retained. Qed.
Print Assumptions C21_alter_preserves_retained_partial.
(* _partial: rows are name-indexed (the positional layout of memory.Table is abstracted); conversions cover integer
   ranges, VARCHAR length / collation, ENUM redefinition, DECIMAL <-> DECIMAL / integer, DATE <-> DATETIME(0);
   number <-> text, FLOAT, TIME, YEAR, TIMESTAMP and fractional seconds are not modelled. *)

(* a MODIFY succeeds only if every existing value is representable in the new definition *)
Theorem C21_modify_succeeds_only_if_representable :
  forall n c' p t t', inv t -> alter (OModify n c' p) t = Some t' -> In n (names t) ->
    Forall (fun r => exists v v', lookup n r = Some v /\ conv (eff t n c') v = Some v') (rows t).
Proof. exact modify_representable. Qed.
Print Assumptions C21_modify_succeeds_only_if_representable.

(* otherwise (a value is not representable, the column does not exist, the name is taken, the key has duplicates ...)
   the statement fails and the table is what it was -- for every statement except an ENUM redefinition *)
Theorem C21_failed_alter_has_no_effect :
  forall o t, not_enum_modify o t = true -> alter o t = None -> exec o t = t.
Proof. exact failed_alter_no_effect. Qed.
Print Assumptions C21_failed_alter_has_no_effect.

(* the faithful model of modifyColumnIter.rewriteTable violates "fails without effect": a failing ENUM redefinition on
   the rewrite path leaves the rows visited before the failure re-indexed.  Witness: c2 enum('Z','m'), rows 'm','Z',NULL,'m';
   MODIFY c2 enum('m') NOT NULL FIRST fails, row 1 then reads 'Z'. *)
Definition enum_witness : table :=
  mkt 1 [mkc 0 (TInt (-2147483648) 2147483647) false; mkc 2 (TEnum [[90]; [109]]) true] [0]
      [[(0, VInt 1); (2, VStr [109])]; [(0, VInt 2); (2, VStr [90])]; [(0, VInt 3); (2, VNull)]; [(0, VInt 4); (2, VStr [109])]].

Theorem C21_failed_enum_redefinition_has_effect_refuted :
  exists o t, alter o t = None /\ column (exec o t) 2 <> column t 2.
Proof.
  exists (OModify 2 (mkc 2 (TEnum [[109]]) false) PFirst), enum_witness. split; [vm_compute; reflexivity|].
  vm_compute. discriminate.
Qed.
Print Assumptions C21_failed_enum_redefinition_has_effect_refuted.

(* ... but even that failure keeps every row, every key of every row, and every other column: the invariant and the
   number of rows survive every statement, hence every ALTER sequence of any length *)
Theorem C21_sequences_keep_rows_and_invariant :
  forall os t, inv t -> inv (exec_seq os t) /\ length (rows (exec_seq os t)) = length (rows t).
Proof. exact exec_seq_inv_rows. Qed.
Print Assumptions C21_sequences_keep_rows_and_invariant.

(* over any ALTER sequence (failed statements included) a column that no statement names keeps all its values *)
Theorem C21_untouched_column_unchanged_by_sequences :
  forall os t n, inv t -> In n (names t) -> forallb (fun o => negb (touches o n)) os = true ->
    column (exec_seq os t) n = column t n.
Proof. exact untouched_column_unchanged. Qed.
Print Assumptions C21_untouched_column_unchanged_by_sequences.

(* ADD PRIMARY KEY succeeds only on a keyless table whose key tuples are non-NULL and pairwise distinct, and then keeps
   every row; DROP PRIMARY KEY keeps rows and columns (failure of either: C21_failed_alter_has_no_effect) *)
Theorem C21_add_primary_key :
  forall ks t t', alter (OAddPK ks) t = Some t' ->
    rows t' = rows t /\ pk t' = ks /\ pk t = [] /\
    distinct_keys (map (key_of ks) (rows t)) = true /\
    forallb (fun r => forallb (fun k => non_null (lookup k r)) ks) (rows t) = true.
Proof. exact add_pk_spec. Qed.
Print Assumptions C21_add_primary_key.

Theorem C21_drop_primary_key :
  forall t t', alter ODropPK t = Some t' -> rows t' = rows t /\ cols t' = cols t /\ pk t' = [].
Proof. exact drop_pk_spec. Qed.
Print Assumptions C21_drop_primary_key.

(* conversions are exact when the value is representable: integer -> DECIMAL, DECIMAL to a wider scale, DATE -> DATETIME,
   VARCHAR (any length / collation change), ENUM; a narrower scale rounds to a nearest value; DATETIME -> DATE keeps the day *)
Theorem C21_int_to_decimal_exact :
  forall c z u s, conv c (VInt z) = Some (VDec u s) -> u = (z * pow10 s)%Z.
Proof. exact conv_int_to_dec_exact. Qed.
Print Assumptions C21_int_to_decimal_exact.

Theorem C21_decimal_widen_exact :
  forall c u s0 u' s, conv c (VDec u s0) = Some (VDec u' s) -> s0 <= s -> (u' * pow10 s0 = u * pow10 s)%Z.
Proof. exact conv_dec_widen_exact. Qed.
Print Assumptions C21_decimal_widen_exact.

Theorem C21_decimal_narrow_nearest :
  forall c u s0 u' s, conv c (VDec u s0) = Some (VDec u' s) -> s < s0 ->
    (Z.abs (u' * pow10 (s0 - s) - u) * 2 <= pow10 (s0 - s))%Z.
Proof. exact conv_dec_narrow_nearest. Qed.
Print Assumptions C21_decimal_narrow_nearest.

Theorem C21_date_to_datetime_exact :
  forall c t v, cty c = TDatetime -> conv c (VTime t) = Some v -> v = VTime t.
Proof. exact conv_to_datetime_exact. Qed.
Print Assumptions C21_date_to_datetime_exact.

Theorem C21_datetime_to_date_keeps_day :
  forall c t v, cty c = TDate -> conv c (VTime t) = Some v ->
    exists d, v = VTime d /\ (d mod 86400 = 0 /\ d <= t < d + 86400)%Z /\ ((t mod 86400 = 0)%Z -> d = t).
Proof. exact conv_to_date_day. Qed.
Print Assumptions C21_datetime_to_date_keeps_day.

Theorem C21_collation_or_length_change_keeps_bytes :
  forall c s v n k, cty c = TStr n k -> conv c (VStr s) = Some v -> v = VStr s.
Proof. exact conv_to_varchar_keeps_bytes. Qed.
Print Assumptions C21_collation_or_length_change_keeps_bytes.

Theorem C21_enum_redefinition_keeps_member :
  forall c s v ms, cty c = TEnum ms -> conv c (VStr s) = Some v -> v = VStr s /\ existsb (bytes_eqb s) ms = true.
Proof. exact conv_to_enum_keeps_member. Qed.
Print Assumptions C21_enum_redefinition_keeps_member.

(* non-vacuity: widening succeeds and keeps values, narrowing fails without effect, renaming keeps the values under the
   new name, a duplicate key makes ADD PRIMARY KEY fail, a distinct one succeeds, 12.5 -> INT is 13 *)
Definition t0 : table :=
  mkt 1 [mkc 0 (TInt (-2147483648) 2147483647) false; mkc 1 (TInt (-32768) 32767) true] []
      [[(0, VInt 1); (1, VInt 300)]; [(0, VInt 2); (1, VNull)]; [(0, VInt 3); (1, VInt 300)]].

Example C21_nonvacuous :
  invb t0 = true /\
  column (exec (OModify 1 (mkc 1 (TInt (-2147483648) 2147483647) true) PFirst) t0) 1 = [Some (VInt 300); Some VNull; Some (VInt 300)] /\
  alter (OModify 1 (mkc 1 (TInt (-128) 127) true) PKeep) t0 = None /\
  column (exec_seq [ORename 1 7; OAdd (mkc 2 (TStr 5 0) false) (VStr []) (PAfter 0)] t0) 7 = [Some (VInt 300); Some VNull; Some (VInt 300)] /\
  alter (OAddPK [1]) t0 = None /\ pk (exec (OAddPK [0]) t0) = [0] /\
  conv (mkc 1 (TInt (-128) 127) true) (VDec 125 1) = Some (VInt 13).
Proof. repeat split; vm_compute; reflexivity. Qed.
