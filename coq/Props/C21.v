(* C21 -- Schema changes preserve existing data.
   Only statements, each closed by [exact], each followed by Print Assumptions.
   Model: Store/C21Alter.v (tables as ordered column definitions + rows binding every column name). *)
From Coq Require Import List NArith ZArith Bool.
Import ListNotations.
From GMS Require Import Store.C21Alter Store.C21AlterProofs.
Open Scope N_scope.

(* every ALTER statement of the modelled fragment (ADD / DROP / MODIFY / CHANGE / RENAME COLUMN with FIRST / AFTER,
   RENAME TO, ADD / DROP INDEX), every table, every number of rows: a column that is retained (under its possibly
   new name n') has, row by row, its old value, converted to the new definition when the statement re-types it *)
Theorem C21_alter_preserves_retained_partial :
  forall o t t' n n', inv t -> alter o t = Some t' -> In n (names t) -> retained o n = Some n' ->
    Forall2 (fun r r' => exists v v', lookup n r = Some v /\ lookup n' r' = Some v' /\ convd o n v = Some v')
            (rows t) (rows t').
Proof. exact alter_preserves_retained. Qed.
Print Assumptions C21_alter_preserves_retained_partial.
(* _partial: ADD / DROP PRIMARY KEY, collation changes and cross-family conversions (number <-> text, decimal,
   temporal) are not in the model; rows are name-indexed (the positional layout of memory.Table is abstracted). *)

(* otherwise (a value is not representable, the column does not exist, the name is taken ...) the statement
   fails and the table is what it was *)
Theorem C21_failed_alter_has_no_effect :
  forall o t, alter o t = None -> exec o t = t.
Proof. exact failed_alter_no_effect. Qed.
Print Assumptions C21_failed_alter_has_no_effect.

(* a MODIFY succeeds only if every existing value is representable in the new definition *)
Theorem C21_modify_succeeds_only_if_representable :
  forall n c' p t t' , inv t -> alter (OModify n c' p) t = Some t' -> In n (names t) ->
    Forall (fun r => exists v v', lookup n r = Some v /\ conv c' v = Some v') (rows t).
Proof. exact modify_representable. Qed.
Print Assumptions C21_modify_succeeds_only_if_representable.

(* the invariant "every row binds exactly the current column names" and the number of rows survive every
   statement, hence every ALTER sequence of any length *)
Theorem C21_sequences_keep_rows_and_invariant :
  forall os t, inv t -> inv (exec_seq os t) /\ length (rows (exec_seq os t)) = length (rows t).
Proof. exact exec_seq_inv_rows. Qed.
Print Assumptions C21_sequences_keep_rows_and_invariant.

(* over any ALTER sequence (failed statements included) a column that no statement names keeps all its values *)
Theorem C21_untouched_column_unchanged_by_sequences :
  forall os t n, inv t -> In n (names t) -> forallb (fun o => negb (touches o n)) os = true ->
    column (exec_seq os t) n = column t n.
Proof. exact untouched_column_unchanged. Qed.
Print Assumptions C21_untouched_column_unchanged_by_sequences.

(* non-vacuity: a table with two rows; widening succeeds and keeps values, narrowing fails without effect,
   renaming keeps the values under the new name *)
Definition t0 : table :=
  mkt 1 [mkc 0 (TInt (-2147483648) 2147483647) false; mkc 1 (TInt (-32768) 32767) true]
      [[(0, VInt 1); (1, VInt 300)]; [(0, VInt 2); (1, VNull)]].

Example C21_nonvacuous :
  invb t0 = true /\
  column (exec (OModify 1 (mkc 1 (TInt (-2147483648) 2147483647) true) PFirst) t0) 1 = [Some (VInt 300); Some VNull] /\
  alter (OModify 1 (mkc 1 (TInt (-128) 127) true) PKeep) t0 = None /\
  column (exec_seq [ORename 1 7; OAdd (mkc 2 (TStr 5) false) (VStr []) (PAfter 0)] t0) 7 = [Some (VInt 300); Some VNull].
Proof. repeat split; vm_compute; reflexivity. Qed.
