(* C01 — Query results do not depend on the physical plan chosen.
   Only statements, each closed by [exact], each followed by Print Assumptions. *)
From Coq Require Import List NArith ZArith Bool Permutation Sorted.
Import ListNotations.
From GMS Require Import gen.C01Tables Plan.C01Reorder Plan.C01ReorderProofs Phys.C01Joins Phys.C01JoinsProofs Phys.C01Merge Phys.C01MergeProofs.

(* (1) Sound table.  For every transformation (assoc, l-asscom, r-asscom), every pair of operators among
   {cross, inner, semi, anti, left, full}, ALL input bags e1 e2 e3 over ALL element types and ALL ON conditions
   reading the stated inputs: if the side condition of [sound_table] holds (Always, or the named filters reject
   NULLs on the named inputs) then both join trees denote the same bag. *)
Theorem C01_reorder_sound :
  forall (A1 A2 A3 : Type) (e1 : list A1) (e2 : list A2) (e3 : list A3)
         (q12 : option A1 -> option A2 -> bool) (q13 : option A1 -> option A3 -> bool)
         (q23 : option A2 -> option A3 -> bool) (x : xform) (A B : op),
    cond_sem q12 q13 q23 x (sound_table x A B) ->
    Permutation (lhs e1 e2 e3 q12 q13 q23 x A B) (rhs e1 e2 e3 q12 q13 q23 x A B).
Proof. exact (@reorder_sound). Qed.
Print Assumptions C01_reorder_sound.

(* commute is sound for the two operators the Go rule accepts *)
Theorem C01_commute_sound :
  forall (A1 A2 A3 : Type) (e1 : list A1) (e2 : list A2) (q12 : option A1 -> option A2 -> bool),
    Permutation (commute_lhs (A3:=A3) e1 e2 Inner q12) (commute_rhs e1 e2 Inner q12) /\
    Permutation (commute_lhs (A3:=A3) e1 e2 Cross q12) (commute_rhs e1 e2 Cross q12).
Proof. intros; split; [exact (commute_inner e1 e2 q12) | exact (commute_cross e1 e2 q12)]. Qed.
Print Assumptions C01_commute_sound.

Theorem C01_translated_commute_only_inner_cross :
  forall j, go_commute j = true -> op_of_jt j = Some Inner \/ op_of_jt j = Some Cross.
Proof. exact translated_commute_ok. Qed.
Print Assumptions C01_translated_commute_only_inner_cross.

(* (2) The tables translated from join_order_builder.go (all 4 call sites x 7 x 7 logical join types x every
   value the nullRejectedRels fields can take in the current source) are below the sound table. *)
Theorem C01_translated_table_le_sound : translated_tables_le_sound = true.
Proof. exact translated_tables_le_sound_holds. Qed.
Print Assumptions C01_translated_table_le_sound.

Theorem C01_translated_getOpIdx_consistent : op_idx_consistent = true.
Proof. exact op_idx_consistent_holds. Qed.
Print Assumptions C01_translated_getOpIdx_consistent.

(* (1)+(2): whenever the model of the Go decision procedure (translated tables, getOpIdx, checkProperty bit
   tests, hand-written pre-checks) permits a transformation between two logical edges whose nullRejectedRels are
   correct, the two trees denote the same bag, for all inputs and ON conditions. *)
Theorem C01_permitted_reorderings_preserve_bags :
  forall (A1 A2 A3 : Type) (e1 : list A1) (e2 : list A2) (e3 : list A3)
         (q12 : option A1 -> option A2 -> bool) (q13 : option A1 -> option A3 -> bool)
         (q23 : option A2 -> option A3 -> bool) s jA jB a b nrA nrB,
    op_of_jt jA = Some a -> op_of_jt jB = Some b ->
    In nrA (possible_nr (e_ses (fst (site_edges s jA jB 0%N 0%N)))) ->
    In nrB (possible_nr (e_ses (snd (site_edges s jA jB 0%N 0%N)))) ->
    nr_correct q12 q13 q23 (site_xform s) nrA nrB ->
    go_xform (site_xform s) (fst (site_edges s jA jB nrA nrB)) (snd (site_edges s jA jB nrA nrB)) = Some true ->
    Permutation (lhs e1 e2 e3 q12 q13 q23 (site_xform s) a b) (rhs e1 e2 e3 q12 q13 q23 (site_xform s) a b).
Proof. exact (@translated_reorder_sound). Qed.
Print Assumptions C01_permitted_reorderings_preserve_bags.

(* non-vacuity: the Go procedure does permit transformations (inner/inner assoc, left/semi l-asscom), and the
   trees of a permitted one are non-trivially equal on a concrete database *)
Example C01_nonvacuous :
  go_xform XAssoc (fst (site_edges AssocUp JoinTypeInner JoinTypeLeftOuter 0%N 0%N)) (snd (site_edges AssocUp JoinTypeInner JoinTypeLeftOuter 0%N 0%N)) = Some true
  /\ go_xform XLasscom (fst (site_edges LasscomUp JoinTypeLeftOuter JoinTypeSemi 0%N 0%N)) (snd (site_edges LasscomUp JoinTypeLeftOuter JoinTypeSemi 0%N 0%N)) = Some true
  /\ lhs [1;2]%N [1;1;3]%N [1;5]%N (fun _ _ => true) (fun _ _ => true)
         (fun y z => match y, z with Some y, Some z => N.eqb y z | _, _ => false end) XAssoc Inner LeftJ
     = [(Some 1, Some 1, Some 1); (Some 1, Some 1, Some 1); (Some 1, Some 3, None);
        (Some 2, Some 1, Some 1); (Some 2, Some 1, Some 1); (Some 2, Some 3, None)]%N.
Proof. exact nonvacuous_holds. Qed.
Print Assumptions C01_nonvacuous.

(* maximality witnesses: entries the sound table refuses really are unsound (a database where the trees differ) *)
Theorem C01_assoc_left_inner_refuted :
  exists (e1 e2 e3 : list N) q12 q23,
    ~ Permutation (assoc_lhs e1 e2 e3 LeftJ Inner q12 q23) (assoc_rhs e1 e2 e3 LeftJ Inner q12 q23).
Proof. exact assoc_left_inner_unsound. Qed.
Print Assumptions C01_assoc_left_inner_refuted.

(* (b) Physical operators, for all inputs (any sizes, duplicates, NULL keys): the nested-loop iterator with its
   foundMatch flag, the early-exit exists iterator, and the hash join that never stores / probes NULL keys produce
   the bag of the logical join they implement. *)
Theorem C01_nested_loop_join_is_logical_join :
  forall (L R : Type) (cond : L -> R -> bool) l r,
    Permutation (nlj cond false l r) (logical_inner cond l r) /\ Permutation (nlj cond true l r) (logical_left cond l r).
Proof. intros; split; apply Permutation_refl'; [exact (nlj_inner_correct cond l r) | exact (nlj_left_correct cond l r)]. Qed.
Print Assumptions C01_nested_loop_join_is_logical_join.

Theorem C01_exists_iter_is_semi_anti_join :
  forall (L R : Type) (cond : L -> R -> bool) l r,
    Permutation (exists_semi cond l r) (logical_semi cond l r) /\ Permutation (exists_anti cond l r) (logical_anti cond l r).
Proof. intros; split; apply Permutation_refl'; [exact (exists_semi_correct cond l r) | exact (exists_anti_correct cond l r)]. Qed.
Print Assumptions C01_exists_iter_is_semi_anti_join.

(* planner-side precondition of a hash join: the ON condition implies equal, non-NULL keys *)
Theorem C01_hash_join_is_logical_join :
  forall (L R K : Type) (cond : L -> R -> bool) (key_l : L -> option K) (key_r : R -> option K) (key_eqb : K -> K -> bool),
    (forall k, key_eqb k k = true) ->
    (forall x y, cond x y = true -> exists k, key_l x = Some k /\ key_r y = Some k) ->
    forall l r,
      Permutation (hash_join cond key_l key_r key_eqb false l r) (logical_inner cond l r) /\
      Permutation (hash_join cond key_l key_r key_eqb true l r) (logical_left cond l r) /\
      Permutation (hash_semi cond key_l key_r key_eqb l r) (logical_semi cond l r) /\
      Permutation (hash_anti cond key_l key_r key_eqb l r) (logical_anti cond l r).
Proof.
  intros L R K cond kl kr ke H1 H2 l r. repeat split; apply Permutation_refl'.
  - exact (hash_inner_correct cond kl kr ke H1 H2 l r).
  - exact (hash_left_correct cond kl kr ke H1 H2 l r).
  - exact (hash_semi_correct cond kl kr ke H1 H2 l r).
  - exact (hash_anti_correct cond kl kr ke H1 H2 l r).
Qed.
Print Assumptions C01_hash_join_is_logical_join.

(* NOT IN is the anti join on "not FALSE"; an anti join that skips NULL keys is a different operator
   (this is the shape of the engine-level NOT IN findings) *)
Theorem C01_anti_include_nulls_is_anti_on_not_false :
  forall (L R : Type) (c3 : L -> R -> tri) l r,
    anti_include_nulls c3 l r = logical_anti (fun x y => not_false (c3 x y)) l r.
Proof. exact (@anti_include_nulls_is_anti). Qed.
Print Assumptions C01_anti_include_nulls_is_anti_on_not_false.

Theorem C01_hash_anti_for_not_in_refuted :
  exists (c3 : option nat -> option nat -> tri) l r,
    hash_anti (fun x y => match c3 x y with TT => true | _ => false end) (fun x => x) (fun y => y) Nat.eqb l r
    <> anti_include_nulls c3 l r.
Proof.
  exists (fun x y => match x, y with Some a, Some b => if Nat.eqb a b then TT else TF | _, _ => TN end), [None], [Some 1%nat].
  discriminate.
Qed.
Print Assumptions C01_hash_anti_for_not_in_refuted.

(* merge join at the block-merge level (forward-only right cursor, buffered key block re-used by equal left keys,
   remaining ON filters on every pair of the block, left-outer padding): over inputs sorted by key with NULL keys
   first it yields exactly the SEQUENCE of the logical inner / left join on "keys equal and not NULL, and the other
   filters" — for all inputs, duplicate keys and NULL keys included *)
Theorem C01_merge_join_is_logical_join :
  forall (L R : Type) (key_l : L -> option Z) (key_r : R -> option Z) (sel : L -> R -> bool) l r,
    StronglySorted (fun a b => key_le (key_l a) (key_l b)) l ->
    StronglySorted (fun a b => key_le (key_r a) (key_r b)) r ->
    merge_join key_l key_r sel false l r = logical_inner (merge_cond key_l key_r sel) l r /\
    merge_join key_l key_r sel true l r = logical_left (merge_cond key_l key_r sel) l r.
Proof.
  intros L R kl kr sel l r HL HR. split;
    [exact (merge_inner_correct kl kr sel l r HL HR) | exact (merge_left_correct kl kr sel l r HL HR)].
Qed.
Print Assumptions C01_merge_join_is_logical_join.

(* the sortedness premise is needed: on an unsorted right input the forward-only cursor loses matches *)
Theorem C01_merge_join_unsorted_refuted :
  exists (l r : list (option Z)),
    merge_join (fun x => x) (fun y => y) (fun _ _ => true) false l r
    <> logical_inner (merge_cond (fun x => x) (fun y => y) (fun _ _ => true)) l r.
Proof. exists [Some 1%Z], [Some 2%Z; Some 1%Z]. discriminate. Qed.
Print Assumptions C01_merge_join_unsorted_refuted.
