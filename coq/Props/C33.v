(* C33 - Regular expression functions agree with each other.  Statements only.
   Model: Sys/C33Regex.v (wrapper logic of internal/regex + the calls made by regexp_like/instr/substr/replace.go).
   Every theorem is for ANY match oracle find_all whose result lists are ascending, non-overlapping and within the
   subject (that premise is the only thing assumed about ICU / Go regexp), any unit type, subject, position,
   occurrence and replacement. *)
From Coq Require Import List NArith Arith Bool.
Import ListNotations.
From GMS Require Import Sys.C33Regex Sys.C33RegexProofs Sys.C33Matcher Sys.C33MatcherProofs.

Theorem C33_like_iff_instr_pos :
  forall (U : Type) (find_all : list U -> list (nat * nat)) (s : list U),
  like U find_all s = true <-> 0 < instr U find_all s 1 1 false.
Proof. exact like_iff_instr_pos. Qed.
Print Assumptions C33_like_iff_instr_pos.

Theorem C33_like_iff_substr_some :
  forall (U : Type) (find_all : list U -> list (nat * nat)) (s : list U),
  like U find_all s = true <-> substr U find_all s 1 1 <> None.
Proof. exact like_iff_substr_some. Qed.
Print Assumptions C33_like_iff_substr_some.

Theorem C33_instr_pos_iff_substr_some :
  forall (U : Type) (find_all : list U -> list (nat * nat)) (s : list U) (pos occ : nat),
  0 < instr U find_all s pos occ false <-> substr U find_all s pos occ <> None.
Proof. exact instr_pos_iff_substr_some. Qed.
Print Assumptions C33_instr_pos_iff_substr_some.

(* the substring returned occurs at the reported position and ends where return_option 1 says *)
Theorem C33_substr_at_instr :
  forall (U : Type) (find_all : list U -> list (nat * nat)),
  (forall t, wf_locs 0 (length t) (find_all t)) ->
  forall (s : list U) (pos occ : nat) (m : list U), substr U find_all s pos occ = Some m ->
    m = sub U s (instr U find_all s pos occ false - 1) (instr U find_all s pos occ true - 1) /\
    length m = instr U find_all s pos occ true - instr U find_all s pos occ false /\
    firstn (length m) (skipn (instr U find_all s pos occ false - 1) s) = m.
Proof. exact substr_at_instr. Qed.
Print Assumptions C33_substr_at_instr.

(* REPLACE of the k-th occurrence rewrites exactly the span INSTR reports, and is the identity without a k-th match *)
Theorem C33_replace_kth_at_instr :
  forall (U : Type) (find_all : list U -> list (nat * nat)) (s repl : list U) (pos occ : nat), 1 <= occ ->
  replace U find_all s repl pos occ =
    if instr U find_all s pos occ false =? 0 then s
    else firstn (instr U find_all s pos occ false - 1) s ++ repl ++ skipn (instr U find_all s pos occ true - 1) s.
Proof. exact replace_kth_at_instr. Qed.
Print Assumptions C33_replace_kth_at_instr.

(* REPLACE of all occurrences: the searched part of the subject is tiled by gaps and reported matches
   (rebuild with the identity gives it back); REPLACE keeps the prefix and every gap verbatim and puts the
   replacement in place of every reported match and of nothing else *)
Theorem C33_replace_substitutes_exactly_the_matches :
  forall (U : Type) (find_all : list U -> list (nat * nat)),
  (forall t, wf_locs 0 (length t) (find_all t)) ->
  forall (s repl : list U) (pos : nat),
  let t := skipn (norm pos - 1) s in
  replace U find_all s repl pos 0 = firstn (norm pos - 1) s ++ rebuild U t 0 (find_all t) (fun _ => repl)
  /\ rebuild U t 0 (find_all t) (fun m => m) = t.
Proof. exact replace_all_substitutes_exactly_the_matches. Qed.
Print Assumptions C33_replace_substitutes_exactly_the_matches.

Theorem C33_replace_no_match_is_identity :
  forall (U : Type) (find_all : list U -> list (nat * nat)) (s repl : list U) (pos occ : nat),
  locs U find_all s pos = [] -> replace U find_all s repl pos occ = s.
Proof. exact replace_no_match. Qed.
Print Assumptions C33_replace_no_match_is_identity.

(* default cgo build: REGEXP_REPLACE goes through go-icu-regex's C helper, which returns an empty subject unchanged.
   On non-empty subjects it is the wrapper's replace (so the laws above apply); on the empty subject with a pattern
   that matches the empty string the REPLACE/INSTR law fails: INSTR = 1, SUBSTR = '', LIKE = 1, REPLACE = ''. *)
Theorem C33_replace_cgo_agrees_on_nonempty_subjects :
  forall (U : Type) (find_all : list U -> list (nat * nat)) (s repl : list U) (pos occ : nat),
  s <> [] -> replace_cgo U find_all s repl pos occ = replace U find_all s repl pos occ.
Proof. exact replace_cgo_nonempty. Qed.
Print Assumptions C33_replace_cgo_agrees_on_nonempty_subjects.

Theorem C33_replace_cgo_empty_subject_refuted :
  wf_locs 0 (length (@nil nat)) (empty_oracle []) /\ instr nat empty_oracle [] 1 1 false = 1 /\
  substr nat empty_oracle [] 1 1 = Some [] /\ like nat empty_oracle [] = true /\
  replace nat empty_oracle [] [88] 1 1 = [88] /\ replace_cgo nat empty_oracle [] [88] 1 1 = [].
Proof. exact replace_cgo_empty_subject_refuted. Qed.
Print Assumptions C33_replace_cgo_empty_subject_refuted.

(* non-vacuity: an oracle meeting the hypothesis, and the wrapper's answers with it *)
Example C33_nonvacuous :
  (forall t, wf_locs 0 (length t) (dot_oracle t)) /\
  like nat dot_oracle [7; 8; 9] = true /\ instr nat dot_oracle [7; 8; 9] 2 1 false = 2 /\
  instr nat dot_oracle [7; 8; 9] 2 1 true = 3 /\ substr nat dot_oracle [7; 8; 9] 2 1 = Some [8] /\
  replace nat dot_oracle [7; 8; 9] [0; 0] 2 1 = [7; 0; 0; 9] /\ replace nat dot_oracle [7; 8; 9] [0; 0] 2 0 = [7; 0; 0; 9] /\
  instr nat dot_oracle [7; 8; 9] 1 2 false = 0 /\ replace nat dot_oracle [7; 8; 9] [0] 1 2 = [7; 8; 9].
Proof. exact (conj dot_oracle_wf laws_nonvacuous). Qed.
Print Assumptions C33_nonvacuous.

(* ---------- layer 2: the reference matcher of the common subset (Sys/C33Matcher.v) ---------- *)

(* matcher_sound: for every pattern of the subset and every subject, a match reported by the reference matcher lies
   inside the subject and its text belongs to the language of the pattern (inductive semantics M, with the text before
   and after the match as context for ^ and $) *)
Theorem C33_matcher_sound :
  forall (r : re) (s : list N) (a b : nat), find r s = Some (a, b) ->
  a <= b /\ b <= length s /\ M r (rev (firstn a s)) (firstn (b - a) (skipn a s)) (skipn b s).
Proof. exact matcher_sound. Qed.
Print Assumptions C33_matcher_sound.

(* the reported match is the leftmost one the matcher accepts.  Partial: leftmost with respect to the matcher, not to
   M (completeness of the backtracking matcher w.r.t. M, and equality of its priority with ICU's, are not proved -
   the latter is compared by the correspondence on every generated case) *)
Theorem C33_matcher_leftmost_partial :
  forall (r : re) (s : list N) (a b : nat), find r s = Some (a, b) ->
  forall j, j < a -> match_at r (rev (firstn j s)) (skipn j s) = None.
Proof. exact matcher_leftmost. Qed.
Print Assumptions C33_matcher_leftmost_partial.

Example C33_matcher_nonvacuous :
  find (Seq (Alt (Chr 97) (Seq (Chr 97) (Chr 98))) (Opt (Alt (Chr 99) (Seq (Chr 98) (Seq (Chr 99) (Chr 100))))))
       [120; 97; 98; 99; 100; 121]%N = Some (1, 5)
  /\ find (Seq Bol (Plus (Cls false [(97, 99)]%N))) [97; 98; 122]%N = Some (0, 2)
  /\ find (Seq (Star Any) Eol) [97; 98]%N = Some (0, 2)
  /\ find (Chr 122) [97; 98]%N = None.
Proof. exact matcher_nonvacuous. Qed.
Print Assumptions C33_matcher_nonvacuous.
