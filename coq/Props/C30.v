(* C30 — Character set conversion round-trips and never crashes.
   Only statements, each closed by [exact], each followed by Print Assumptions.
   Model: Codec/Charset.v (sql/encodings/rangemap.go); tables: gen/C30Tables.v (translated from sql/encodings/*.go).
   Strings are lists of bytes; the Go side of every table ("output") is UTF-8, the "input" side the character set.
   [encode rm s hid] is RangeMap.Encode on a slice with content s and hidden capacity content hid (irrelevant
   since Encode checks the length before slicing). *)
From Coq Require Import List NArith.
Import ListNotations.
From GMS Require Import Codec.Charset Codec.CharsetProofs Codec.CharsetTables gen.C30Tables.
Open Scope N_scope.

(* Main statement, for EVERY table satisfying the boolean predicate wf_map: a string made of representable
   characters (UTF-8 forms rs that the character set has a code for) converts into the character set without
   failure or crash, and converting back yields the original string. *)
Theorem C30_roundtrip_when_representable :
  forall rm rs hid, wf_map rm = true -> Forall (representable rm) rs ->
    exists c, encode rm (concat rs) hid = Ok c /\ decode rm c = Ok (concat rs).
Proof. exact (fun rm rs hid => roundtrip_representable rm rs hid). Qed.
Print Assumptions C30_roundtrip_when_representable.

(* whatever Decode accepts, Encode maps back to the same bytes *)
Theorem C30_encode_after_decode :
  forall rm c s hid, wf_map rm = true -> decode rm c = Ok s -> encode rm s hid = Ok c.
Proof. exact encode_after_decode. Qed.
Print Assumptions C30_encode_after_decode.

(* and conversely on tables whose entries have equally many elements on both sides *)
Theorem C30_decode_after_encode_exact :
  forall rm s hid c, wf_exact rm = true -> encode rm s hid = Ok c -> decode rm c = Ok s.
Proof. exact decode_after_encode. Qed.
Print Assumptions C30_decode_after_encode_exact.

(* on such tables Encode succeeds only on strings of representable characters: the rest is reported *)
Theorem C30_encode_succeeds_only_on_representable_exact :
  forall rm s hid c, wf_exact rm = true -> encode rm s hid = Ok c ->
    exists rs, s = concat rs /\ Forall (representable rm) rs.
Proof. exact encode_ok_only_representable. Qed.
Print Assumptions C30_encode_succeeds_only_on_representable_exact.

(* rune level: DecodeRune and EncodeRune are inverse to each other (mixed-radix bijection per entry, first
   match unique because ranges are pairwise disjoint) *)
Theorem C30_decode_rune_encode_rune :
  forall rm c r, wf_map rm = true -> decode_rune rm c = Ok r -> encode_rune rm r = Ok c.
Proof. exact decode_rune_encode_rune. Qed.
Print Assumptions C30_decode_rune_encode_rune.

Theorem C30_encode_rune_decode_rune_exact :
  forall rm r c, wf_exact rm = true -> encode_rune rm r = Ok c -> decode_rune rm c = Ok r.
Proof. exact encode_rune_decode_rune. Qed.
Print Assumptions C30_encode_rune_decode_rune_exact.

(* no byte sequence makes Decode crash (no slice/index/division failure, the loop terminates) *)
Theorem C30_decode_never_panics : forall rm c, wf_map rm = true -> decode rm c <> Panic.
Proof. exact decode_never_panics. Qed.
Print Assumptions C30_decode_never_panics.

(* EncodeReplaceUnknown always returns a result: it neither fails nor crashes, on any byte sequence *)
Theorem C30_encode_replace_unknown_total :
  forall rm s, wf_map rm = true -> exists o, encode_replace_unknown rm s = Ok o.
Proof. exact encode_replace_unknown_total. Qed.
Print Assumptions C30_encode_replace_unknown_total.

(* where Encode succeeds, EncodeReplaceUnknown (= expression.ConvertUsing.Eval, CONVERT(x USING cs)) returns the same bytes *)
Theorem C30_replace_unknown_agrees_with_encode :
  forall rm s hid c, wf_map rm = true -> encode rm s hid = Ok c -> encode_replace_unknown rm s = Ok c.
Proof. exact replace_unknown_agrees_with_encode. Qed.
Print Assumptions C30_replace_unknown_agrees_with_encode.

(* the hypotheses hold of every table translated from /repo's current source (decided by vm_compute) *)
Theorem C30_translated_tables_wf : forall rm, In rm all_tables -> wf_map rm = true.
Proof. exact all_tables_wf. Qed.
Print Assumptions C30_translated_tables_wf.

Theorem C30_translated_tables_exact :
  exact_tables = [Armscii8; Ascii; Cp1256; Cp1257; Dec8; Geostd8; Latin1; Latin7; Swe7; Utf8mb3] /\
  forall rm, In rm exact_tables -> wf_exact rm = true.
Proof. exact (conj exact_tables_are exact_tables_wf). Qed.
Print Assumptions C30_translated_tables_exact.

(* no byte sequence, valid or not, makes Encode crash (true since commit 014a463e8 gave Encode the length guard
   that Decode has; before, an unencodable tail shorter than the longest code made it slice past the end) *)
Theorem C30_encode_never_panics : forall rm s hid, wf_map rm = true -> encode rm s hid <> Panic.
Proof. exact encode_never_panics. Qed.
Print Assumptions C30_encode_never_panics.

(* the former crash inputs are reported (ok = false): a truncated UTF-8 tail (C3), and the VALID UTF-8 string E6 97 A5
   (one character that latin1 lacks) alone or after 'a' *)
Theorem C30_encode_reports_short_unencodable_tail :
  exists rm, In rm all_tables /\ encode rm [195] [] = Fail /\ encode rm [230; 151; 165] [] = Fail /\
             encode rm [97; 230; 151; 165] [] = Fail /\ encode rm [195] [169] = Fail.
Proof. exact (ex_intro _ Latin1 encode_reports_short_tail). Qed.
Print Assumptions C30_encode_reports_short_unencodable_tail.

(* A fact, NOT a violation of the property (invalid UTF-8 holds no characters; only "no crash" is demanded there):
   Utf16/Utf32 Encode accept byte sequences that are no characters (UTF-8-encoded surrogate; value above U+10FFFF)
   and turn them into undecodable output.  This is why these two tables satisfy wf_map but not wf_exact. *)
Theorem C30_utf16_utf32_accept_invalid_utf8_fact :
  (exists rm s c, In rm all_tables /\ encode rm s [] = Ok c /\ decode rm c = Fail /\ s = [237; 160; 128]) /\
  (exists rm s c, In rm all_tables /\ encode rm s [] = Ok c /\ decode rm c = Fail /\ s = [244; 144; 128; 128]).
Proof.
  exact (conj
    (ex_intro _ Utf16 (ex_intro _ _ (ex_intro _ _
       (conj (proj1 utf16_accepts_unrepresentable) (conj (proj1 (proj2 utf16_accepts_unrepresentable))
             (conj (proj2 (proj2 utf16_accepts_unrepresentable)) eq_refl))))))
    (ex_intro _ Utf32 (ex_intro _ _ (ex_intro _ _
       (conj (proj1 utf32_accepts_unrepresentable) (conj (proj1 (proj2 utf32_accepts_unrepresentable))
             (conj (proj2 (proj2 utf32_accepts_unrepresentable)) eq_refl))))))).
Qed.
Print Assumptions C30_utf16_utf32_accept_invalid_utf8_fact.

(* "unrepresentable characters are replaced by '?'" -- and nothing else is lost -- is FALSE of EncodeReplaceUnknown
   near the end of the input: in ";" U+0179 "+" the representable '+' disappears together with U+0179 *)
Theorem C30_replace_unknown_keeps_representable_refuted :
  exists rm, In rm all_tables /\ encode_replace_unknown rm [59; 197; 185; 43] = Ok [59; 63] /\
             encode_rune rm [43] = Ok [43] /\
             encode_replace_unknown rm [59; 197; 185; 43; 43; 43] = Ok [59; 63; 43; 43; 43].
Proof. exact (ex_intro _ Swe7 eru_drops_tail_witness). Qed.
Print Assumptions C30_replace_unknown_keeps_representable_refuted.

(* non-vacuity: latin1 has a code for U+00E9, the round trip of "aé" is as expected, an unrepresentable
   character followed by another byte is reported by Encode and replaced by '?' by EncodeReplaceUnknown *)
Example C30_nonvacuous :
  representable Latin1 [195; 169] /\ encode Latin1 [97; 195; 169] [] = Ok [97; 233] /\
  decode Latin1 [97; 233] = Ok [97; 195; 169] /\
  encode Latin1 [230; 151; 165; 97] [] = Fail /\ encode_replace_unknown Latin1 [230; 151; 165; 97] = Ok [63; 97].
Proof. exact nonvacuous_latin1. Qed.
Print Assumptions C30_nonvacuous.
