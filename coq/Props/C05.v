(* C05 — A predicate partitions rows into TRUE, FALSE and NULL parts.
   Only statements, each closed by [exact], each followed by Print Assumptions. *)
From Coq Require Import List ZArith Bool Permutation.
Import ListNotations.
From GMS Require Import Expr.C05Expr Expr.C05ExprProofs.

(* the rows of Q are the disjoint union of Q filtered by p, by NOT p and by p IS NULL: for every relation and
   every expression of the modelled language *)
Theorem C05_tlp_partition :
  forall (q : list row) (p : expr), Permutation q (sigma p q ++ sigma (Not p) q ++ sigma (IsNull p) q).
Proof. exact tlp_perm. Qed.
Print Assumptions C05_tlp_partition.

(* pairwise disjoint: each row satisfies exactly one of the three filters *)
Theorem C05_tlp_exactly_one :
  forall (r : row) (p : expr),
    let a := is_true (eval r p) in
    let b := is_true (eval r (Not p)) in
    let c := is_true (eval r (IsNull p)) in
    (a = true /\ b = false /\ c = false) \/ (a = false /\ b = true /\ c = false) \/ (a = false /\ b = false /\ c = true).
Proof. exact three_way. Qed.
Print Assumptions C05_tlp_exactly_one.

(* WHERE keeps exactly the rows whose select-list value of p is TRUE *)
Theorem C05_where_keeps_true :
  forall p q r, List.In r (sigma p q) <-> List.In r q /\ is_true (eval r p) = true.
Proof. exact sigma_In. Qed.
Print Assumptions C05_where_keeps_true.

(* inner-join ON: the join loop that tests the condition on each merged row keeps exactly the TRUE rows of the
   cross product, in the same order *)
Theorem C05_on_inner_keeps_true : forall p A B, nlj p A B = sigma p (cross A B).
Proof. exact nlj_eq. Qed.
Print Assumptions C05_on_inner_keeps_true.

(* simplifyExpression preserves the value of every expression on every row whose Boolean-typed (TINYINT(1))
   columns and literals hold 0, 1 or NULL *)
Theorem C05_simplify_sound_guarded :
  forall r e, bool_ok r e = true -> eval r (simplify e) = eval r e.
Proof. intros r e H. exact (proj1 (simplify_sound_ok r e H)). Qed.
Print Assumptions C05_simplify_sound_guarded.

(* pushNotFiltersHelper (De Morgan, comparison inversion, NOT BETWEEN, NOT NOT) preserves the value, same guard *)
Theorem C05_push_not_sound_guarded :
  forall r e, bool_ok r e = true -> eval r (push_not e) = eval r e.
Proof. intros r e H. exact (proj1 (push_sound_ok r e H)). Qed.
Print Assumptions C05_push_not_sound_guarded.

(* the two rules in the order the analyzer applies them leave every filter's result unchanged *)
Theorem C05_rewritten_filter_same_rows_guarded :
  forall p q, Forall (fun r => bool_ok r p = true) q -> sigma (push_not (simplify p)) q = sigma p q.
Proof. exact rewrite_sigma. Qed.
Print Assumptions C05_rewritten_filter_same_rows_guarded.

(* without the guard both rules are unsound in the faithful model: a TINYINT(1) column holding 5 is trusted to be
   0/1 by  (FALSE OR f) => f  and  NOT NOT f => f  *)
Theorem C05_simplify_sound_refuted :
  exists r e, is_true (eval r e) = true /\ is_true (eval r (simplify e)) = false.
Proof. exact simplify_unsound. Qed.
Print Assumptions C05_simplify_sound_refuted.

Theorem C05_push_not_sound_refuted :
  exists r e, is_true (eval r e) = true /\ is_true (eval r (push_not e)) = false.
Proof. exact push_not_unsound. Qed.
Print Assumptions C05_push_not_sound_refuted.

(* non-vacuity: a guarded row/expression on which both rules really rewrite, and a three-row partition *)
Example C05_nonvacuous :
  let e := Not (Between (Col 0 TyInt) (Arith APlus (Lit (VInt 1) TyInt) (Lit (VInt 1) TyInt)) (Col 1 TyInt)) in
  bool_ok [VInt 5; VInt 3] e = true /\
  push_not (simplify e) = Or (Cmp CLt (Col 0 TyInt) (Lit (VInt 2) TyInt)) (Cmp CGt (Col 0 TyInt) (Col 1 TyInt)) /\
  sigma e [[VInt 5; VInt 3]; [VInt 2; VInt 3]; [VNull; VInt 3]] = [[VInt 5; VInt 3]] /\
  sigma (Not e) [[VInt 5; VInt 3]; [VInt 2; VInt 3]; [VNull; VInt 3]] = [[VInt 2; VInt 3]] /\
  sigma (IsNull e) [[VInt 5; VInt 3]; [VInt 2; VInt 3]; [VNull; VInt 3]] = [[VNull; VInt 3]].
Proof. vm_compute. repeat split; reflexivity. Qed.
