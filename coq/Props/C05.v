(* C05 — A predicate partitions rows into TRUE, FALSE and NULL parts.
   Only statements, each closed by [exact], each followed by Print Assumptions. *)
From Coq Require Import List ZArith Bool Permutation.
Import ListNotations.
From GMS Require Import Expr.C05Expr Expr.C05ExprProofs Expr.C05Like Plan.C05Pushdown Plan.C05PushdownProofs Rel.C05Having.

(* the rows of Q are the disjoint union of Q filtered by p, by NOT p and by p IS NULL: for every relation and
   every expression of the modelled language *)
Theorem C05_tlp_partition :
  forall (q : list row) (p : expr), Permutation q (sigma p q ++ sigma (Not p) q ++ sigma (IsNull p) q).
Proof. exact tlp_perm. Qed.
Print Assumptions C05_tlp_partition.

(* pairwise disjoint: each row satisfies exactly one of the three filters *)
Theorem C05_tlp_exactly_one :
  forall (r : row) (p : expr),
    let a := is_true (eval r p) in
    let b := is_true (eval r (Not p)) in
    let c := is_true (eval r (IsNull p)) in
    (a = true /\ b = false /\ c = false) \/ (a = false /\ b = true /\ c = false) \/ (a = false /\ b = false /\ c = true).
Proof. exact three_way. Qed.
Print Assumptions C05_tlp_exactly_one.

(* WHERE keeps exactly the rows whose select-list value of p is TRUE *)
Theorem C05_where_keeps_true :
  forall p q r, List.In r (sigma p q) <-> List.In r q /\ is_true (eval r p) = true.
Proof. exact sigma_In. Qed.
Print Assumptions C05_where_keeps_true.

(* inner-join ON: the join loop that tests the condition on each merged row keeps exactly the TRUE rows of the
   cross product, in the same order *)
Theorem C05_on_inner_keeps_true : forall p A B, nlj p A B = sigma p (cross A B).
Proof. exact nlj_eq. Qed.
Print Assumptions C05_on_inner_keeps_true.

(* simplifyExpression preserves the value of every expression on every row whose Boolean-typed (TINYINT(1))
   columns and literals hold 0, 1 or NULL *)
Theorem C05_simplify_sound_guarded :
  forall r e, bool_ok r e = true -> eval r (simplify e) = eval r e.
Proof. intros r e H. exact (proj1 (simplify_sound_ok r e H)). Qed.
Print Assumptions C05_simplify_sound_guarded.

(* pushNotFiltersHelper (De Morgan, comparison inversion, NOT BETWEEN, NOT NOT) preserves the value, same guard *)
Theorem C05_push_not_sound_guarded :
  forall r e, bool_ok r e = true -> eval r (push_not e) = eval r e.
Proof. intros r e H. exact (proj1 (push_sound_ok r e H)). Qed.
Print Assumptions C05_push_not_sound_guarded.

(* the two rules in the order the analyzer applies them leave every filter's result unchanged *)
Theorem C05_rewritten_filter_same_rows_guarded :
  forall p q, Forall (fun r => bool_ok r p = true) q -> sigma (push_not (simplify p)) q = sigma p q.
Proof. exact rewrite_sigma. Qed.
Print Assumptions C05_rewritten_filter_same_rows_guarded.

(* without the guard both rules are unsound in the faithful model: a TINYINT(1) column holding 5 is trusted to be
   0/1 by  (FALSE OR f) => f  and  NOT NOT f => f  *)
Theorem C05_simplify_sound_refuted :
  exists r e, is_true (eval r e) = true /\ is_true (eval r (simplify e)) = false.
Proof. exact simplify_unsound. Qed.
Print Assumptions C05_simplify_sound_refuted.

Theorem C05_push_not_sound_refuted :
  exists r e, is_true (eval r e) = true /\ is_true (eval r (push_not e)) = false.
Proof. exact push_not_unsound. Qed.
Print Assumptions C05_push_not_sound_refuted.

(* HAVING keeps exactly the groups whose value of p is TRUE, and the groups split three ways like rows do *)
Theorem C05_having_keeps_true :
  forall p keys agg rows g,
    List.In g (having p keys agg rows) <-> List.In g (group_by keys agg rows) /\ is_true (eval g p) = true.
Proof. exact having_keeps_true. Qed.
Print Assumptions C05_having_keeps_true.

Theorem C05_having_partition :
  forall p keys agg rows,
    Permutation (group_by keys agg rows)
      (having p keys agg rows ++ having (Not p) keys agg rows ++ having (IsNull p) keys agg rows).
Proof. exact having_partition. Qed.
Print Assumptions C05_having_partition.

(* pushFilters (conjuncts mentioning one table move below inner joins and to the preserved side of left outer joins,
   never through LIMIT, handled conjuncts are removed from their Filter / join condition) returns the same rows in the
   same order, for every plan over pairwise distinct tables, every database and every slot ownership *)
Theorem C05_pushdown_sound :
  forall own db pl, NoDup (C05Pushdown.tabs pl) ->
    C05Pushdown.peval own db (C05Pushdown.push_filters own pl) = C05Pushdown.peval own db pl.
Proof. exact pushdown_sound. Qed.
Print Assumptions C05_pushdown_sound.

Theorem C05_pushdown_sound_permutation :
  forall own db pl, NoDup (C05Pushdown.tabs pl) ->
    Permutation (C05Pushdown.peval own db (C05Pushdown.push_filters own pl)) (C05Pushdown.peval own db pl).
Proof. intros own db pl H. rewrite (pushdown_sound own db pl H). apply Permutation_refl. Qed.
Print Assumptions C05_pushdown_sound_permutation.

(* the guard is needed: a conjunct over the null-supplying side pushed below a left outer join changes the result *)
Theorem C05_pushdown_right_of_left_join_refuted :
  exists own db f p a b,
    C05Pushdown.over own (C05Pushdown.tabs b) f = true /\
    C05Pushdown.peval own db (PFilter f (PJoin true p a b)) <>
    C05Pushdown.peval own db (C05Pushdown.push_right_of_left_join f p a b).
Proof. exact pushdown_unsound_right_of_left_join. Qed.
Print Assumptions C05_pushdown_right_of_left_join_refuted.

(* hoistOutOfScopeFilters: the conjuncts of an EXISTS subquery's filter that mention only outer columns move out
   (wrapped in IS TRUE); the subquery keeps the rest *)
Theorem C05_hoist_sound :
  forall n r S q, length r = n ->
    let '(hoisted, kept) := hoist n q in
    exists_sub r S q = (holds r hoisted && exists_sub r S (join_and kept))%bool.
Proof. exact hoist_sound. Qed.
Print Assumptions C05_hoist_sound.

(* the LIKE rewrite of simplifyExpression (no wildcard => '=', 'prefix%' => range with incrementLastRune, else residual
   lower bound AND LIKE) selects exactly the strings the LIKE matches (utf8mb4_0900_bin, valid code points) *)
Theorem C05_like_rewrite_sound :
  forall pat s, Forall valid_rune pat -> Forall valid_rune s -> eval_rewrite pat s = like pat s.
Proof. exact rewrite_like_sound. Qed.
Print Assumptions C05_like_rewrite_sound.

Theorem C05_like_prefix_range :
  forall q c hi s,
    no_wild (q ++ [c]) = true -> valid_rune c -> Forall valid_rune s -> incr_last (q ++ [c]) = Some hi ->
    like ((q ++ [c]) ++ [37%N]) s = (ge_str s (q ++ [c]) && lt_str s hi)%bool.
Proof. exact like_prefix_range. Qed.
Print Assumptions C05_like_prefix_range.

(* non-vacuity: a guarded row/expression on which both rules really rewrite, and a three-row partition *)
Example C05_nonvacuous :
  let e := Not (Between (Col 0 TyInt) (Arith APlus (Lit (VInt 1) TyInt) (Lit (VInt 1) TyInt)) (Col 1 TyInt)) in
  bool_ok [VInt 5; VInt 3] e = true /\
  push_not (simplify e) = Or (Cmp CLt (Col 0 TyInt) (Lit (VInt 2) TyInt)) (Cmp CGt (Col 0 TyInt) (Col 1 TyInt)) /\
  sigma e [[VInt 5; VInt 3]; [VInt 2; VInt 3]; [VNull; VInt 3]] = [[VInt 5; VInt 3]] /\
  sigma (Not e) [[VInt 5; VInt 3]; [VInt 2; VInt 3]; [VNull; VInt 3]] = [[VInt 2; VInt 3]] /\
  sigma (IsNull e) [[VInt 5; VInt 3]; [VInt 2; VInt 3]; [VNull; VInt 3]] = [[VNull; VInt 3]].
Proof. vm_compute. repeat split; reflexivity. Qed.
