(* C45 — Trace redaction never leaks identifiers or literals (sql/sqlredact: redactor.go, mapping.go).
   Only statements, each closed by [exact], each followed by Print Assumptions.
   The vitess parser, AST walk and tokenizer are ORACLES: [parse_ok], [ids] (the TableIdent/ColIdent strings the
   walk reports) and [toks] are inputs.  The theorems say what the redactor does with every possible answer of
   the oracles; C45_no_leak_refuted_when_walk_misses_keyword_name shows with the oracles' real answers that the
   property itself is false of the code (known findings). *)
From Coq Require Import List NArith Bool.
Import ListNotations.
From GMS Require Import Sys.Redact Sys.RedactProofs Sys.RedactConc.

(* output_shape + structure_preserved: the output is the marker, or one piece per non-comment token, in order,
   joined by single spaces; a sensitive token (ID / STRING / INTEGRAL / FLOAT / HEXNUM / HEX / BIT_LITERAL, or any
   token whose text the AST walk reported) contributes `n<k>` / `` / a dressed v<k>; a bind argument contributes
   its own text; any other token its keyword text, single character or symbol operator *)
Theorem C45_output_shape_partial :
  forall parse_ok ids toks m m' out, WFm m ->
    redact_into m parse_ok ids toks = (m', out) ->
    WFm m' /\
    (out = marker \/ exists ps, out = join_sp ps /\ Forall2 (piece_ok ids) (filter visible toks) ps).
Proof. exact output_shape. Qed.
Print Assumptions C45_output_shape_partial.

(* no_lexeme_copied: a sensitive token contributes only a placeholder piece, never its own text *)
Theorem C45_no_lexeme_copied_partial :
  forall m ids cls val, WFm m -> sensitive ids (cls, val) = true -> cls <> CComment -> cls <> CLexErr ->
    placeholder_piece (snd (emit_token m ids (cls, val))).
Proof. exact no_lexeme_copied. Qed.
Print Assumptions C45_no_lexeme_copied_partial.

(* over ALL call sequences on one Mapping (RedactIdent / RedactValue in any order, any lexemes):
   equal lexemes of the same namespace get equal placeholders and different ones different placeholders;
   an identifier and a value never share a placeholder *)
Theorem C45_mapping_functional_injective :
  forall cs i j ci cj ti tj,
    nth_error cs i = Some ci -> nth_error cs j = Some cj ->
    nth_error (snd (run_calls empty_mapping cs)) i = Some ti ->
    nth_error (snd (run_calls empty_mapping cs)) j = Some tj ->
    (ci = cj <-> ti = tj).
Proof. exact mapping_functional_injective. Qed.
Print Assumptions C45_mapping_functional_injective.

(* unparseable input — the parser rejects it, or the tokenizer reports LEX_ERROR anywhere — yields only the marker *)
Theorem C45_unparseable_yields_marker_only :
  forall m ids toks,
    snd (redact_into m false ids toks) = marker /\ fst (redact_into m false ids toks) = m /\
    (forall pre v rest, toks = pre ++ (CLexErr, v) :: rest -> Forall (fun tk => fst tk <> CLexErr) pre ->
       snd (redact_into m true ids toks) = marker).
Proof. exact unparseable_yields_marker_only. Qed.
Print Assumptions C45_unparseable_yields_marker_only.

(* the leak mechanism: a keyword-typed token whose text is NOT in the identifier set is copied verbatim ... *)
Theorem C45_keyword_outside_ident_set_is_copied :
  forall m ids val, val <> [] -> in_set ids val = false -> emit_token m ids (COther, val) = (m, val).
Proof. exact keyword_outside_ident_set_is_copied. Qed.
Print Assumptions C45_keyword_outside_ident_set_is_copied.

(* ... and the real parser does not report every name: for  CREATE TABLE zqi1a (password INT)  the AST walk yields
   only {zqi1a}; the column name "password" (a non-reserved keyword) survives in the redacted text
   "CREATE TABLE `n1` ( password INT )".  Oracle answers recorded from the real vitess at the pin. *)
Theorem C45_no_leak_refuted_when_walk_misses_keyword_name :
  exists ids toks,
    snd (redact_into empty_mapping true ids toks)
    = [67;82;69;65;84;69;32;84;65;66;76;69;32;96;110;49;96;32;40;32;112;97;115;115;119;111;114;100;32;73;78;84;32;41]%N.
Proof. eexists. eexists. exact leak_witness. Qed.
Print Assumptions C45_no_leak_refuted_when_walk_misses_keyword_name.

(* concurrency: the RLock/Lock double-checked protocol (read section, then write section with re-check; each section
   one atomic step) under EVERY schedule of ANY number of goroutines with ANY programs on one fresh Mapping: the
   Mapping stays well formed — keys distinct, placeholders exactly n1..nK / v1..vK (no gap, no repetition) — and over
   all results returned to all goroutines, equal (namespace, lexeme) <-> equal placeholder *)
Theorem C45_interleavings_functional_injective :
  forall progs sched,
    let r := run_sched true empty_mapping (map start progs) sched in
    WFm (fst r) /\
    forall th1 th2 c1 t1 c2 t2, In th1 (snd r) -> In th2 (snd r) -> In (c1, t1) (outs th1) -> In (c2, t2) (outs th2) ->
      (c1 = c2 <-> t1 = t2).
Proof. exact interleavings_functional_injective. Qed.
Print Assumptions C45_interleavings_functional_injective.

(* the cold-mint race: without the re-check under the write lock the schedule [0;1;0;1] gives one lexeme n1 AND n2 *)
Example C45_without_recheck_refuted :
  let r := run_sched false empty_mapping (map start [[CIdent [97%N]]; [CIdent [97%N]]]) [0; 1; 0; 1] in
  map outs (snd r) = [[(CIdent [97%N], ntok 1)]; [(CIdent [97%N], ntok 2)]] /\ ncount (fst r) = 2.
Proof. exact without_recheck_refuted. Qed.
Print Assumptions C45_without_recheck_refuted.

Example C45_nonvacuous :
  redact_seq empty_mapping
    [(true, [[116]; [97]]%N, [(COther, [83;69;76]); (CId, [97]); (CChar 44, []); (COther, [97]); (COther, [70;82;79;77]); (CId, [116]);
                            (CComment, [47;42]); (COther, [87]); (CId, [97]); (CChar 61, []); (CStr, [97]); (CSym SAND, []);
                            (CNum, [49]); (CSym SLE, []); (CArg, [58;118;49])]);
     (false, [], [(CId, [120])])]%N
  = ({| idents := [([97], ntok 1); ([116], ntok 2)]; values := [([97], vtok 1); ([49], vtok 2)]; ncount := 2; vcount := 2 |},
     [[83;69;76;32;96;110;49;96;32;44;32;96;110;49;96;32;70;82;79;77;32;96;110;50;96;32;87;32;96;110;49;96;32;61;32;39;118;49;39;32;38;38;32;58;118;50;32;60;61;32;58;118;49];
      marker])%N.
Proof. exact nonvacuous. Qed.
Print Assumptions C45_nonvacuous.
