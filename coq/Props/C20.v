(* C20 — AUTO_INCREMENT values are unique, increasing and reported correctly.
   Only statements, each closed by [exact], each followed by Print Assumptions.
   Model: Store/C20AutoInc.v (GetNextAutoIncrementValue, AutoIncrement.Eval, tableEditor.Insert's counter bump,
   SetAutoIncrementValue, statement discard, insertIter.updateLastInsertId, insertRowHandler).
   [guarded s h]: no ALTER TABLE ... AUTO_INCREMENT = n in the history lowers the counter (n >= counter at that time). *)
From Coq Require Import List ZArith Sorting.Sorted.
Import ListNotations.
From GMS Require Import Store.C20AutoInc Store.C20AutoIncProofs.
Open Scope Z_scope.

(* over all guarded histories of INSERT / INSERT IGNORE (explicit, generated, negative ids), DELETE and ALTER from the
   empty table: the counter exceeds every stored id ... *)
Theorem C20_counter_exceeds_every_stored_id :
  forall h, guarded init h = true -> Forall (fun x => x < ctr (run init h)) (ids (run init h)).
Proof. exact (fun h Hg => I_ids _ (run_inv h init init_inv Hg)). Qed.
Print Assumptions C20_counter_exceeds_every_stored_id.

(* ... and every id that was EVER stored (deleted ones included) and every id generated so far: the next generated id
   (= the counter, C20_generated_id_is_the_counter) is fresh and larger than any explicitly inserted one *)
Theorem C20_counter_exceeds_every_id_ever_used :
  forall h, guarded init h = true ->
    Forall (fun x => x < ctr (run init h)) (seen (run init h)) /\ Forall (fun x => x < ctr (run init h)) (gens (run init h)).
Proof. exact (fun h Hg => conj (I_seen _ (run_inv h init init_inv Hg)) (I_gens _ (run_inv h init init_inv Hg))). Qed.
Print Assumptions C20_counter_exceeds_every_id_ever_used.

Theorem C20_generated_id_is_the_counter :
  forall ign s s', row_step ign s None = Some s' ->
    s' = s \/ (gens s' = gens s ++ [ctr s] /\ ids s' = ids s ++ [ctr s] /\ ctr s' = ctr s + 1).
Proof. exact generated_is_counter. Qed.
Print Assumptions C20_generated_id_is_the_counter.

(* the generated ids of committed rows are strictly increasing over the table's lifetime *)
Theorem C20_generated_ids_strictly_increasing :
  forall h, guarded init h = true -> StronglySorted Z.lt (gens (run init h)).
Proof. exact (fun h Hg => I_sorted _ (run_inv h init init_inv Hg)). Qed.
Print Assumptions C20_generated_ids_strictly_increasing.

(* LAST_INSERT_ID() after a successful plain INSERT that generates a value is the first value it generated (any state) *)
Theorem C20_last_insert_id_is_first_generated :
  forall s specs s' iid, step s (EInsert false specs) = (s', (true, iid)) -> 0 <= first_gen_index specs ->
    exists g rest, gens s' = gens s ++ g :: rest /\ lid s' = g.
Proof. exact plain_insert_lid. Qed.
Print Assumptions C20_last_insert_id_is_first_generated.

(* false of the faithful model without the guard: after ids 1,2,3, ALTER TABLE t AUTO_INCREMENT = 2 is taken literally;
   the counter (2) is below the stored id 3 and the next INSERT of a generated id fails with a duplicate key *)
Theorem C20_counter_exceeds_every_stored_id_refuted :
  exists h, guarded init h = false /\ ctr (run init h) = 2 /\ In 3 (ids (run init h)) /\
            snd (step (run init h) (EInsert false [None])) = (false, 0).
Proof.
  exact (ex_intro _ [EInsert false [None; None; None]; EAlter 2]
           (conj (proj1 alter_below_max_stuck) (proj2 alter_below_max_stuck))).
Qed.
Print Assumptions C20_counter_exceeds_every_stored_id_refuted.

(* false for INSERT IGNORE: a skipped row does not count down firstGeneratedAutoIncRowIdx, so LAST_INSERT_ID() is taken from a
   later row: INSERT IGNORE (1 duplicate),(NULL -> 2),(20) leaves LAST_INSERT_ID() = 20 *)
Theorem C20_last_insert_id_ignore_refuted :
  exists s specs, snd (step s (EInsert true specs)) = (true, 2) /\
                  gens (fst (step s (EInsert true specs))) = [1; 2] /\ lid (fst (step s (EInsert true specs))) = 20.
Proof. exact (ex_intro _ (run init [EInsert false [None]]) (ex_intro _ [Some 1; None; Some 20] ignore_lid_shift)). Qed.
Print Assumptions C20_last_insert_id_ignore_refuted.

(* false for the OK packet: OkResult.InsertID is the id of the first inserted row, generated or not:
   INSERT (5),(NULL) reports 5 while the generated value (and LAST_INSERT_ID()) is 6 *)
Theorem C20_ok_insert_id_is_first_generated_refuted :
  exists specs, snd (step init (EInsert false specs)) = (true, 5) /\
                gens (fst (step init (EInsert false specs))) = [6] /\ lid (fst (step init (EInsert false specs))) = 6.
Proof. exact (ex_intro _ [Some 5; None] insert_id_explicit_first). Qed.
Print Assumptions C20_ok_insert_id_is_first_generated_refuted.

Example C20_nonvacuous :
  guarded init [EInsert false [None; Some 7; None]; EDelGe 7; EAlter 9; EInsert true [Some 1; None]] = true /\
  gens (run init [EInsert false [None; Some 7; None]; EDelGe 7; EAlter 9; EInsert true [Some 1; None]]) = [1; 8; 9].
Proof. split; vm_compute; reflexivity. Qed.
Print Assumptions C20_nonvacuous.
