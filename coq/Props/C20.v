(* C20 — AUTO_INCREMENT values are unique, increasing and reported correctly.
   Only statements, each closed by [exact], each followed by Print Assumptions.
   Model: Store/C20AutoInc.v (GetNextAutoIncrementValue, AutoIncrement.Eval, tableEditor.Insert's counter bump,
   SetAutoIncrementValue, statement discard, insertIter.updateLastInsertId, insertRowHandler).
   updateAutoIncrementSafe included (the counter pins at the column type's maximum). *)
From Coq Require Import List ZArith Sorting.Sorted.
Import ListNotations.
From GMS Require Import Store.C20AutoInc Store.C20AutoIncProofs.
Open Scope Z_scope.

(* [guarded tmax init h]: no ALTER lowers the counter and the counter stays below the column type's maximum tmax.
   Over all such histories of INSERT / INSERT IGNORE (explicit, generated, negative ids; rows may also be duplicates in a
   unique column), DELETE and ALTER from the empty table: the counter exceeds every stored id ... *)
Theorem C20_counter_exceeds_every_stored_id :
  forall tmax h, guarded tmax init h = true -> Forall (fun x => x < ctr (run tmax init h)) (ids (run tmax init h)).
Proof. exact (fun tmax h Hg => I_ids _ (run_inv tmax h init init_inv Hg)). Qed.
Print Assumptions C20_counter_exceeds_every_stored_id.

(* ... and every id that was EVER stored (deleted ones included) and every id generated so far: the next generated id
   (= the counter, C20_generated_id_is_the_counter) is fresh and larger than any explicitly inserted one *)
Theorem C20_counter_exceeds_every_id_ever_used :
  forall tmax h, guarded tmax init h = true ->
    Forall (fun x => x < ctr (run tmax init h)) (seen (run tmax init h)) /\
    Forall (fun x => x < ctr (run tmax init h)) (gens (run tmax init h)).
Proof. exact (fun tmax h Hg => conj (I_seen _ (run_inv tmax h init init_inv Hg)) (I_gens _ (run_inv tmax h init init_inv Hg))). Qed.
Print Assumptions C20_counter_exceeds_every_id_ever_used.

Theorem C20_generated_id_is_the_counter :
  forall tmax ign s ud s', row_step tmax ign s (None, ud) = Some s' ->
    s' = s \/ (gens s' = gens s ++ [ctr s] /\ ids s' = ids s ++ [ctr s] /\ ctr s' = bump tmax (ctr s)).
Proof. exact generated_is_counter. Qed.
Print Assumptions C20_generated_id_is_the_counter.

(* the generated ids of committed rows are strictly increasing over the table's lifetime *)
Theorem C20_generated_ids_strictly_increasing :
  forall tmax h, guarded tmax init h = true -> StronglySorted Z.lt (gens (run tmax init h)).
Proof. exact (fun tmax h Hg => I_sorted _ (run_inv tmax h init init_inv Hg)). Qed.
Print Assumptions C20_generated_ids_strictly_increasing.

(* saturation (updateAutoIncrementSafe): over ALL histories whose explicit ids and ALTER values fit the column type the
   counter never exceeds the type maximum - it pins there, it does not wrap ... *)
Theorem C20_counter_pins_at_type_maximum :
  forall tmax h, 1 <= tmax -> forallb (ev_fits tmax) h = true -> ctr (run tmax init h) <= tmax.
Proof. exact (fun tmax h Ht Hf => run_le tmax h init Ht Hf). Qed.
Print Assumptions C20_counter_pins_at_type_maximum.

(* ... and while the maximum is stored, a generated insert fails with a duplicate key and leaves the counter there *)
Theorem C20_generated_insert_at_maximum_fails :
  forall tmax s, ctr s = tmax -> In tmax (ids s) ->
    snd (step tmax s (EInsert false [(None, false)])) = (false, 0) /\
    ctr (fst (step tmax s (EInsert false [(None, false)]))) = tmax.
Proof. exact pinned_insert_fails. Qed.
Print Assumptions C20_generated_insert_at_maximum_fails.

(* at the maximum "not reused after deletes" is false of the faithful model: TINYINT, 127 generated, deleted, generated again *)
Theorem C20_maximum_reused_after_delete_refuted :
  exists h, gens (run 127 init h) = [127; 127] /\ ctr (run 127 init h) = 127.
Proof. exact (ex_intro _ [EAlter 127; EInsert false [g]; EDelEq 127; EInsert false [g]] max_id_reused_after_delete). Qed.
Print Assumptions C20_maximum_reused_after_delete_refuted.

(* LAST_INSERT_ID() after a successful plain INSERT that generates a value is the first value it generated (any state) *)
Theorem C20_last_insert_id_is_first_generated :
  forall tmax s specs s' iid, step tmax s (EInsert false specs) = (s', (true, iid)) -> 0 <= first_gen_index specs ->
    exists g rest, gens s' = gens s ++ g :: rest /\ lid s' = g.
Proof. exact plain_insert_lid. Qed.
Print Assumptions C20_last_insert_id_is_first_generated.

(* false of the faithful model without the guard: after ids 1,2,3, ALTER TABLE t AUTO_INCREMENT = 2 is taken literally;
   the counter (2) is below the stored id 3 and the next INSERT of a generated id fails with a duplicate key *)
Theorem C20_counter_exceeds_every_stored_id_refuted :
  exists h, guarded big init (h ++ [EInsert false [g]]) = false /\ ctr (run big init h) = 2 /\ In 3 (ids (run big init h)) /\
            snd (step big (run big init h) (EInsert false [g])) = (false, 0).
Proof. exact (ex_intro _ [EInsert false [g; g; g]; EAlter 2] alter_below_max_stuck). Qed.
Print Assumptions C20_counter_exceeds_every_stored_id_refuted.

(* false for INSERT IGNORE: a skipped row does not count down firstGeneratedAutoIncRowIdx, so LAST_INSERT_ID() is taken from a
   later row: INSERT IGNORE (1 duplicate),(NULL -> 2),(20) leaves LAST_INSERT_ID() = 20 *)
Theorem C20_last_insert_id_ignore_refuted :
  exists s specs, snd (step big s (EInsert true specs)) = (true, 2) /\
                  gens (fst (step big s (EInsert true specs))) = [1; 2] /\ lid (fst (step big s (EInsert true specs))) = 20.
Proof. exact (ex_intro _ (run big init [EInsert false [g]]) (ex_intro _ [x 1; g; x 20] ignore_lid_shift)). Qed.
Print Assumptions C20_last_insert_id_ignore_refuted.

(* false for the OK packet: OkResult.InsertID is the id of the first inserted row, generated or not:
   INSERT (5),(NULL) reports 5 while the generated value (and LAST_INSERT_ID()) is 6 *)
Theorem C20_ok_insert_id_is_first_generated_refuted :
  exists specs, snd (step big init (EInsert false specs)) = (true, 5) /\
                gens (fst (step big init (EInsert false specs))) = [6] /\ lid (fst (step big init (EInsert false specs))) = 6.
Proof. exact (ex_intro _ [x 5; g] insert_id_explicit_first). Qed.
Print Assumptions C20_ok_insert_id_is_first_generated_refuted.

Example C20_nonvacuous :
  guarded big init [EInsert false [g; x 7; g]; EDelGe 7; EAlter 9; EInsert true [x 1; g; (None, true)]] = true /\
  gens (run big init [EInsert false [g; x 7; g]; EDelGe 7; EAlter 9; EInsert true [x 1; g; (None, true)]]) = [1; 8; 9].
Proof. split; vm_compute; reflexivity. Qed.
Print Assumptions C20_nonvacuous.
