(* C41 — Persisted accounts and grants reload identically.
   Only statements, each closed by [exact], each followed by Print Assumptions.
   [reload m = load (serialize m)]; lookups use key = lower-cased requested name as the live code does. *)
From Coq Require Import List NArith Bool.
Import ListNotations.
From GMS Require Import Sys.Privs Sys.Serialize Sys.SerializeProofs.
Open Scope N_scope.

(* load (serialize s) = s is FALSE of the code as it is (witness: an account with a privilege on a database named "Db") ... *)
Theorem C41_load_serialize_id_refuted : exists m, reload m <> m.
Proof. exact reload_identity_refuted. Qed.
Print Assumptions C41_load_serialize_id_refuted.

(* ... observably: a database / table privilege granted on a name with upper-case letters is held before and not after
   (the maps are rebuilt with the stored name as key, lookups use the lower-cased name) *)
Theorem C41_database_privilege_survives_refuted :
  exists ps d p, ps_wf ps = true /\ e_has_d ps d p = true /\ e_has_d (load_ps (ser_ps ps)) d p = false.
Proof. exact reload_preserves_database_refuted. Qed.
Print Assumptions C41_database_privilege_survives_refuted.

Theorem C41_table_privilege_survives_refuted :
  exists ps d t p, ps_wf ps = true /\ e_has_t ps d t p = true /\ e_has_t (load_ps (ser_ps ps)) d t p = false.
Proof. exact reload_preserves_table_refuted. Qed.
Print Assumptions C41_table_privilege_survives_refuted.

(* what does hold, for every state: global privileges, account fields ... *)
Theorem C41_global_privileges_survive : forall ps p, e_has_g (load_ps (ser_ps ps)) p = e_has_g ps p.
Proof. exact reload_preserves_global. Qed.
Print Assumptions C41_global_privileges_survive.

Theorem C41_account_fields_survive :
  forall m,
    map (fun u => (us_name u, us_host u, us_plugin u, us_auth u, us_locked u, us_attrs u)) (m_users (reload m)) =
    map (fun u => (us_name u, us_host u, us_plugin u, us_auth u, us_locked u, us_attrs u)) (m_users m).
Proof. exact reload_preserves_account_fields. Qed.
Print Assumptions C41_account_fields_survive.

(* ... role edges, WITH ADMIN OPTION included (LoadRoleEdge reads the flag since e81e089bb) ... *)
Theorem C41_role_edges_survive : forall m, m_edges (reload m) = m_edges m.
Proof. exact reload_preserves_edges. Qed.
Print Assumptions C41_role_edges_survive.

(* ... and database-level privileges of every well-formed set whose object names are lower case *)
Theorem C41_database_privileges_survive_guarded_partial :
  forall ps d p, ps_wf ps = true -> ps_lc ps = true -> e_has_d (load_ps (ser_ps ps)) d p = e_has_d ps d p.
Proof. exact reload_preserves_database_guarded. Qed.
Print Assumptions C41_database_privileges_survive_guarded_partial.
(* missing: the same statement for e_has_t (table level; the map-rebuilding lemma rebuild_filtered applies once more
   inside each database entry) and the lifting to SHOW GRANTS text / allow-deny of whole accounts *)

Example C41_nonvacuous_edges :
  let m := mkM [] [mkE [37] [114] [37] [117] true; mkE [37] [114] [37] [118] false] in
  m_edges (reload m) = m_edges m /\ map e_admin (m_edges (reload m)) = [true; false].
Proof. vm_compute. auto. Qed.

Example C41_nonvacuous :
  let ps := mkPS [0] [([100;98], mkDB [100;98] [1;2] [([116], mkT [116] [3])])] in
  ps_wf ps = true /\ ps_lc ps = true /\ e_has_d ps [100;98] 2 = true /\
  e_has_d (load_ps (ser_ps ps)) [100;98] 2 = true /\ e_has_t (load_ps (ser_ps ps)) [100;98] [116] 3 = true.
Proof. vm_compute. auto. Qed.
