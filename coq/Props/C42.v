(* C42 -- Read-only modes block every write and nothing else.
   Only statements, each closed by [exact], each followed by Print Assumptions.
   [entries] is the table generated from every IsReadOnly() method of sql/plan/*.go (gen/C42Flags.v);
   [spec_of]/[node_writes]/[inert] are the hand-written specification (Plan/ReadOnly.v). *)
From Coq Require Import List String Bool.
Import ListNotations.
From GMS Require Import Plan.C42Base gen.C42Flags Plan.ReadOnly Plan.ReadOnlyProofs.
Open Scope string_scope.

(* every node kind present in the source is classified by the specification (a new node type breaks this) *)
Theorem C42_all_kinds_classified : forall e, In e entries -> exists w, spec_of (e_kind e) = Some w.
Proof. exact all_kinds_classified_forall. Qed.
Print Assumptions C42_all_kinds_classified.

(* no IsReadOnly body fell outside the shapes the translator understands *)
Theorem C42_every_flag_body_recognised : forall e, In e entries -> e_flag e <> ROther.
Proof. exact every_body_recognised. Qed.
Print Assumptions C42_every_flag_body_recognised.

(* flags_sound: whenever a kind's flag can answer true, the kind does not write by itself and every node field that
   executing it executes is nil or was asked (for every kind of the generated enumeration) *)
Theorem C42_flags_sound : forall e alt, In e entries -> In alt (implied (e_flag e)) -> alt_ok e alt = true.
Proof. exact flags_sound_forall. Qed.
Print Assumptions C42_flags_sound.

(* delegation_complete: a delegating flag mentions every field its Children() returns *)
Theorem C42_delegation_complete : forall e, In e entries -> delegation_complete_entry e = true.
Proof. exact delegation_complete_forall. Qed.
Print Assumptions C42_delegation_complete.

(* flags_complete ("nothing else"): a kind that never writes has a positive flag (no constant false, no panic) *)
Theorem C42_flags_complete : forall e, In e entries -> spec_of (e_kind e) = Some WNever -> positive (e_flag e) = true.
Proof. exact flags_complete_forall. Qed.
Print Assumptions C42_flags_complete.

(* tree_readonly_sound: plans of unbounded depth and width; IsReadOnly t = true => no node that executing t executes writes *)
Theorem C42_tree_readonly_sound :
  forall t n, exec_node t n -> forall fuel, is_ro fuel t = Ro true -> node_writes n = false.
Proof. exact tree_readonly_sound. Qed.
Print Assumptions C42_tree_readonly_sound.

(* engine.go readOnlyCheck: a read-only engine never lets a plan through that executes a writing node *)
Theorem C42_readonly_rejects_every_write :
  forall fuel t n, exec_node t n -> node_writes n = true -> engine_check true fuel t <> Ro true.
Proof. exact readonly_rejects_every_write. Qed.
Print Assumptions C42_readonly_rejects_every_write.

(* ... and lets every plan through that is built only from kinds that never write (with its dereferenced fields non-nil) *)
Theorem C42_readonly_allows_every_read :
  forall t, clean t -> exists fuel, is_ro fuel t = Ro true /\ engine_check true fuel t = Ro true.
Proof. exact readonly_allows_every_read_engine. Qed.
Print Assumptions C42_readonly_allows_every_read.

(* the read-write engine never consults the flag *)
Theorem C42_readwrite_engine_allows_all : forall fuel t, engine_check false fuel t = Ro true.
Proof. exact readwrite_allows_all. Qed.
Print Assumptions C42_readwrite_engine_allows_all.

(* "nothing else" fails for CALL: the flag of Call over a stored (non-external) procedure is false whatever the body
   does, so a read-only engine rejects CALL of a procedure that only reads (finding engine/read-rejected/call-read) *)
Theorem C42_call_always_rejected_refuted :
  exists t, kind_of t = "Call" /\ forall fuel, engine_check true (S (S fuel)) t = Ro false.
Proof. exact call_always_rejected. Qed.
Print Assumptions C42_call_always_rejected_refuted.

(* non-vacuity: a clean read plan that is allowed, and a plan whose flag is false because a writing node is executed *)
Example C42_nonvacuous :
  (let t := Node "Project" false [("Child", [Node "Filter" false [("Child", [Node "ResolvedTable" false []])]])] in
   clean t /\ is_ro 3 t = Ro true)
  /\ (let w := Node "InsertInto" false [("Destination", [Node "ResolvedTable" false []]); ("Source", [Node "Values" false []])] in
      let t := Node "Block" false [("statements", [Node "Project" false [("Child", [Node "ResolvedTable" false []])]; w])] in
      exec_node t w /\ node_writes w = true /\ is_ro 5 t = Ro false).
Proof. exact nonvacuous. Qed.
Print Assumptions C42_nonvacuous.
