(* C42 -- Read-only modes block every write and nothing else.
   Only statements, each closed by [exact], each followed by Print Assumptions.
   [entries] is the table generated from every IsReadOnly() method of sql/plan/*.go (gen/C42Flags.v);
   [spec_of]/[node_writes]/[inert] are the hand-written specification (Plan/ReadOnly.v). *)
From Coq Require Import List String Bool NArith.
Import ListNotations.
From GMS Require Import Plan.C42Base gen.C42Flags Plan.ReadOnly Plan.ReadOnlyProofs Plan.C42Validators.
Open Scope string_scope.

(* every node kind present in the source is classified by the specification (a new node type breaks this) *)
Theorem C42_all_kinds_classified : forall e, In e entries -> exists w, spec_of (e_kind e) = Some w.
Proof. exact all_kinds_classified_forall. Qed.
Print Assumptions C42_all_kinds_classified.

(* no IsReadOnly body fell outside the shapes the translator understands *)
Theorem C42_every_flag_body_recognised : forall e, In e entries -> e_flag e <> ROther.
Proof. exact every_body_recognised. Qed.
Print Assumptions C42_every_flag_body_recognised.

(* flags_sound: whenever a kind's flag can answer true, the kind does not write by itself and every node field that
   executing it executes is nil or was asked (for every kind of the generated enumeration) *)
Theorem C42_flags_sound : forall e alt, In e entries -> In alt (implied (e_flag e)) -> alt_ok e alt = true.
Proof. exact flags_sound_forall. Qed.
Print Assumptions C42_flags_sound.

(* delegation_complete: a delegating flag mentions every field its Children() returns *)
Theorem C42_delegation_complete : forall e, In e entries -> delegation_complete_entry e = true.
Proof. exact delegation_complete_forall. Qed.
Print Assumptions C42_delegation_complete.

(* flags_complete ("nothing else"): a kind that never writes has a positive flag (no constant false, no panic) *)
Theorem C42_flags_complete : forall e, In e entries -> spec_of (e_kind e) = Some WNever -> positive (e_flag e) = true.
Proof. exact flags_complete_forall. Qed.
Print Assumptions C42_flags_complete.

(* tree_readonly_sound: plans of unbounded depth and width; IsReadOnly t = true => no node that executing t executes writes *)
Theorem C42_tree_readonly_sound :
  forall t n, exec_node t n -> forall fuel, is_ro fuel t = Ro true -> node_writes n = false.
Proof. exact tree_readonly_sound. Qed.
Print Assumptions C42_tree_readonly_sound.

(* engine.go readOnlyCheck: a read-only engine never lets a plan through that executes a writing node *)
Theorem C42_readonly_rejects_every_write :
  forall fuel t n, exec_node t n -> node_writes n = true -> engine_check true fuel t <> Ro true.
Proof. exact readonly_rejects_every_write. Qed.
Print Assumptions C42_readonly_rejects_every_write.

(* ... and lets every plan through that is built only from kinds that never write (with its dereferenced fields non-nil) *)
Theorem C42_readonly_allows_every_read :
  forall t, clean t -> exists fuel, is_ro fuel t = Ro true /\ engine_check true fuel t = Ro true.
Proof. exact readonly_allows_every_read_engine. Qed.
Print Assumptions C42_readonly_allows_every_read.

(* the read-write engine never consults the flag *)
Theorem C42_readwrite_engine_allows_all : forall fuel t, engine_check false fuel t = Ro true.
Proof. exact readwrite_allows_all. Qed.
Print Assumptions C42_readwrite_engine_allows_all.

(* "nothing else" fails for CALL: the flag of Call over a stored (non-external) procedure is false whatever the body
   does, so a read-only engine rejects CALL of a procedure that only reads (finding engine/read-rejected/call-read) *)
Theorem C42_call_always_rejected_refuted :
  exists t, kind_of t = "Call" /\ forall fuel, engine_check true (S (S fuel)) t = Ro false.
Proof. exact call_always_rejected. Qed.
Print Assumptions C42_call_always_rejected_refuted.

(* non-vacuity: a clean read plan that is allowed, and a plan whose flag is false because a writing node is executed *)
Example C42_nonvacuous :
  (let t := Node "Project" false [("Child", [Node "Filter" false [("Child", [Node "ResolvedTable" false []])]])] in
   clean t /\ is_ro 3 t = Ro true)
  /\ (let w := Node "InsertInto" false [("Destination", [Node "ResolvedTable" false []]); ("Source", [Node "Values" false []])] in
      let t := Node "Block" false [("statements", [Node "Project" false [("Child", [Node "ResolvedTable" false []])]; w])] in
      exec_node t w /\ node_writes w = true /\ is_ro 5 t = Ro false).
Proof. exact nonvacuous. Qed.
Print Assumptions C42_nonvacuous.

(* ===== the analyzer rules behind START TRANSACTION READ ONLY and read-only databases (Plan/C42Validators.v) =====
   [vt] is the tree transform.InspectWithOpaque walks; [ro_txn_valid] / [ro_db_valid] mirror the two rules of
   sql/analyzer/validation_rules.go, callbacks and walks included; [ddl_kinds] is generated from plan.IsDDLNode. *)

(* validateReadOnlyTransaction, exactly: the verdict depends on the kind of the ROOT alone (the type switch inside the
   walk re-tests the root); below UPDATE / DELETE / UNLOCK TABLES and in the Destination of INSERT the table search
   decides, LOCK TABLES is refused, CREATE TABLE unless temporary is let through, everything else is let through *)
Theorem C42_txn_validator_characterised : forall t,
  ro_txn_valid t = true <->
  match txn_class (vkind t) with
  | TSearch => tsearch true t = true
  | TInsert => fold_left tsearch (vdest t) true = true
  | TLock => False
  | TCreateTable => vtemp t = false
  | TOther => True
  end.
Proof. exact ro_txn_valid_iff. Qed.
Print Assumptions C42_txn_validator_characterised.

(* the table search over trees of any shape: all tables permanent => accepted iff no table is walked *)
Theorem C42_txn_table_search_permanent : forall t v, all_perm t = true -> tsearch v t = v && no_rt t.
Proof. exact tsearch_perm. Qed.
Print Assumptions C42_txn_table_search_permanent.

(* every INSERT / UPDATE / DELETE at the root whose target holds a table, all of them permanent, is rejected with
   ErrReadOnlyTransaction inside a read-only transaction (trees of unbounded depth and width) *)
Theorem C42_txn_validator_rejects_root_dml : forall t,
  dml_root (vkind t) = true -> forallb all_perm (target t) = true -> forallb no_rt (target t) = false ->
  ro_txn_valid t = false /\ (forall e, txn_rule true true e t = 1%N).
Proof. exact txn_rejects_root_dml. Qed.
Print Assumptions C42_txn_validator_rejects_root_dml.

(* "and nothing else" for the exemption: DML that only touches temporary tables is let through *)
Theorem C42_txn_validator_allows_temporary_dml : forall t,
  dml_root (vkind t) = true -> forallb all_temp (target t) = true -> ro_txn_valid t = true.
Proof. exact txn_allows_temporary_dml. Qed.
Print Assumptions C42_txn_validator_allows_temporary_dml.

(* writes that are not at the root pass: CALL (finding txn/write-took-effect/Call; Children() of Call is empty, the
   stored body is not even walked), an INSERT into a permanent table nested under a non-DML root, and under a root that
   plan.IsDDLNode lists (Block); the same INSERT at the root is rejected *)
Theorem C42_txn_validator_rejects_every_write_refuted :
  (vkind w_call = "Call" /\ forall kids dest, ro_txn_valid (V "Call" false 0 dest kids) = true)
  /\ (has_write_below w_nested = true /\ ro_txn_valid w_nested = true)
  /\ (has_write_below w_ddl_nested = true /\ ro_txn_valid w_ddl_nested = true)
  /\ (ro_txn_valid w_insert = false).
Proof. exact txn_write_not_at_root. Qed.
Print Assumptions C42_txn_validator_rejects_every_write_refuted.

Theorem C42_txn_validator_other_roots_pass : forall t, txn_class (vkind t) = TOther -> ro_txn_valid t = true.
Proof. exact txn_other_root_valid. Qed.
Print Assumptions C42_txn_validator_other_roots_pass.

(* model only (the memory backend has no temporary tables): the search ASSIGNS the verdict at every table, so a
   temporary table walked after a permanent one resets it -- UPDATE over a join of a permanent and a temporary table *)
Theorem C42_txn_validator_later_temporary_table_resets_refuted :
  writes_permanent (V "Update" false 0 [] [perm_rt]) = true
  /\ allk (fun n => negb (is_rt n) || negb (vtemp n)) w_reset = false /\ no_rt w_reset = false /\ ro_txn_valid w_reset = true.
Proof. exact txn_later_temp_resets. Qed.
Print Assumptions C42_txn_validator_later_temporary_table_resets_refuted.

(* validateReadOnlyDatabase, exactly ([db_clean]: no ResolvedTable of a read-only database is walked) *)
Theorem C42_db_validator_characterised : forall e t,
  ro_db_valid e t =
  match db_class (vkind t) with
  | DSearch => db_clean e t
  | DInsert => forallb (db_clean e) (vdest t)
  | DCreateTable => negb (bad_class e (vro t))
  | DOther => if is_ddl (vkind t) then db_clean e t else true
  end.
Proof. exact ro_db_valid_char. Qed.
Print Assumptions C42_db_validator_characterised.

(* the statement kinds it covers are rejected (ErrReadOnlyDatabase, or ErrProcedureCallAsOfReadOnly under CALL ... AS OF) *)
Theorem C42_db_validator_rejects_covered_kinds : forall e t,
  (db_covered (vkind t) = true /\ db_clean e t = false)
  \/ (vkind t = "InsertInto" /\ forallb (db_clean e) (vdest t) = false)
  \/ (vkind t = "CreateTable" /\ bad_class e (vro t) = true) ->
  ro_db_valid e t = false /\ db_rule e t = (if e then 3%N else 2%N).
Proof. exact db_rejects_covered. Qed.
Print Assumptions C42_db_validator_rejects_covered_kinds.

(* ... and these are its two blind spots, for plans of any shape *)
Theorem C42_db_validator_unlisted_root_passes : forall e t,
  db_class (vkind t) = DOther -> is_ddl (vkind t) = false -> ro_db_valid e t = true.
Proof. exact db_other_root_valid. Qed.
Print Assumptions C42_db_validator_unlisted_root_passes.

Theorem C42_db_validator_plan_without_table_passes : forall e t,
  db_covered (vkind t) = true -> no_rt t = true -> ro_db_valid e t = true.
Proof. exact db_no_table_valid. Qed.
Print Assumptions C42_db_validator_plan_without_table_passes.

(* the generated case list of plan.IsDDLNode against the specification: every database-level DDL kind is a writer,
   every listed kind exists and writes (Block apart), and exactly these schema-changing kinds are NOT listed *)
Theorem C42_ddl_list_missing_kinds :
  forallb (fun k => mem k writers) db_ddl_writers = true
  /\ forallb (fun k => mem k (map e_kind entries)) ddl_kinds = true
  /\ forallb (fun k => mem k writers || String.eqb k "Block") ddl_kinds = true
  /\ missing_from_ddl_list =
       ["AlterAutoIncrement"; "AlterDefaultDrop"; "AlterDefaultSet"; "AlterEvent"; "AlterTableCollation";
        "AlterTableComment"; "DropConstraint"; "RenameForeignKey"; "SingleDropView"]
  /\ forallb (fun k => negb (is_ddl k) && match db_class k with DOther => true | _ => false end) missing_from_ddl_list = true.
Proof. exact ddl_list_facts. Qed.
Print Assumptions C42_ddl_list_missing_kinds.

(* finding rodb/write-took-effect/ddl-root-not-in-IsDDLNode: under each missing root a table of the read-only database
   is in the plan and the statement is accepted *)
Theorem C42_db_validator_ddl_root_not_listed_refuted :
  forallb (fun k => ro_db_valid false (V k false 0 [] [ro_rt]) && negb (db_clean false (V k false 0 [] [ro_rt])))
          missing_from_ddl_list = true.
Proof. exact db_missing_roots_accept. Qed.
Print Assumptions C42_db_validator_ddl_root_not_listed_refuted.

(* finding rodb/write-took-effect/ddl-plan-without-resolved-table: listed, schema-changing roots whose plan (as the
   engine builds it) holds no ResolvedTable are accepted *)
Theorem C42_db_validator_ddl_without_table_refuted :
  forallb (fun k => is_ddl k && mem k db_ddl_writers && db_covered k && ro_db_valid false (V k false 0 [] [])) ddl_without_table = true.
Proof. exact db_tableless_ddl_accept. Qed.
Print Assumptions C42_db_validator_ddl_without_table_refuted.

Example C42_db_validator_nonvacuous :
  ro_db_valid false (V "Update" false 0 [] [V "Filter" false 0 [] [ro_rt]]) = false
  /\ ro_db_valid false (V "InsertInto" false 0 [perm_rt] [perm_rt; V "Project" false 0 [] [ro_rt]]) = true
  /\ ro_db_valid false (V "InsertInto" false 0 [ro_rt] [ro_rt]) = false
  /\ ro_db_valid false (V "DropTable" false 0 [] [ro_rt]) = false
  /\ ro_db_valid false (V "CreateTable" false 2 [] []) = false
  /\ ro_db_valid false (V "CreateTable" false 0 [] [V "Project" false 0 [] [ro_rt]]) = true
  /\ ro_db_valid false (V "Project" false 0 [] [ro_rt]) = true
  /\ ro_db_valid true (V "Update" false 0 [] [V "ResolvedTable" false 1 [] []]) = false
  /\ db_rule true (V "Update" false 0 [] [V "ResolvedTable" false 1 [] []]) = 3%N.
Proof. exact db_nonvacuous. Qed.
Print Assumptions C42_db_validator_nonvacuous.
