(* C35 - Clients receive exactly the engine's results over the wire: the row-spooling pipeline of
   server/handler.go (resultForDefaultIter / resultForValueRowIter + doQuery's epilogue), model Phys/Pipeline.v.
   Only statements, each closed by [exact], each followed by Print Assumptions.
   Quantification: every row type, encoded-row type and encoder, every batch size B >= 1 (128 in the code), every
   channel capacity >= 1 (512 and 4 in the code), every row list, every schedule (any list / stream of actions of
   the three processes, actions that are not enabled being no-ops). *)
From Coq Require Import List Arith Bool.
Import ListNotations.
From GMS Require Import Phys.Pipeline Phys.PipelineProofs.

(* whatever the interleaving, once the three goroutines have returned the client has been sent exactly the encoded
   rows, in order, nothing lost or duplicated, in batches of B rows except a shorter last one (absent when the row
   count is a positive multiple of B; a single empty batch for an empty result) *)
Theorem C35_pipeline_deterministic :
  forall (Row Enc : Type) (encode : Row -> Enc) (B c1 c2 : nat) (rows : list Row) (sched : list action),
  1 <= B -> 1 <= c1 -> 1 <= c2 ->
  let s := exec Row Enc encode B c1 c2 sched (init Row Enc rows EOF) in
  terminal Row Enc s = true ->
  failed Row Enc s = false /\ concat (client Row Enc s) = map encode rows /\
  map (@length Enc) (client Row Enc s) = expected_sizes B (length rows).
Proof. exact pipeline_exact. Qed.
Print Assumptions C35_pipeline_deterministic.

(* an iterator error after the rows: the statement fails, the client has only been sent complete batches, and
   they are a prefix of the encoded rows produced before the error *)
Theorem C35_error_delivers_complete_batches_only :
  forall (Row Enc : Type) (encode : Row -> Enc) (B c1 c2 : nat) (rows : list Row) (sched : list action),
  1 <= B -> 1 <= c1 -> 1 <= c2 ->
  let s := exec Row Enc encode B c1 c2 sched (init Row Enc rows Fail) in
  terminal Row Enc s = true ->
  failed Row Enc s = true /\ client Row Enc s = delivered Row Enc s /\
  Forall (fun b => length b = B) (client Row Enc s) /\
  exists rest, concat (client Row Enc s) ++ rest = map encode rows.
Proof. exact pipeline_error. Qed.
Print Assumptions C35_error_delivers_complete_batches_only.

(* without having finished, some process can always move (no deadlock on the bounded channels) *)
Theorem C35_no_deadlock :
  forall (Row Enc : Type) (encode : Row -> Enc) (B c1 c2 : nat) (rows : list Row) (f : src_end) (sched : list action),
  1 <= B -> 1 <= c1 -> 1 <= c2 ->
  let s := exec Row Enc encode B c1 c2 sched (init Row Enc rows f) in
  terminal Row Enc s = false -> exists a s', step Row Enc encode B c1 c2 a s = Some s'.
Proof. exact pipeline_no_deadlock. Qed.
Print Assumptions C35_no_deadlock.

(* every enabled step strictly decreases a natural-number measure: no schedule can keep the pipeline busy for ever *)
Theorem C35_every_step_progresses :
  forall (Row Enc : Type) (encode : Row -> Enc) (B c1 c2 : nat), 1 <= B -> 1 <= c1 -> 1 <= c2 ->
  forall (a : action) (s s' : st Row Enc),
  step Row Enc encode B c1 c2 a s = Some s' -> measure Row Enc s' < measure Row Enc s.
Proof. exact step_decreases. Qed.
Print Assumptions C35_every_step_progresses.

(* every fair infinite schedule (each action scheduled again and again) reaches the finished state; together with
   C35_pipeline_deterministic: under every fair schedule the client receives exactly map encode rows *)
Theorem C35_fair_schedules_terminate :
  forall (Row Enc : Type) (encode : Row -> Enc) (B c1 c2 : nat), 1 <= B -> 1 <= c1 -> 1 <= c2 ->
  forall (rows : list Row) (f : src_end) (sched : nat -> action),
  fair sched -> exists k, terminal Row Enc (run Row Enc encode B c1 c2 rows f sched k) = true.
Proof. exact fair_terminates. Qed.
Print Assumptions C35_fair_schedules_terminate.

(* non-vacuity: 300 rows, B = 128, capacities 2 and 1, round-robin: batches 128,128,44; with a failing iterator
   the same schedule finishes with an error after the two complete batches *)
Example C35_nonvacuous :
  let s := exec nat nat S 128 2 1 (rr 700) (init nat nat (seq 0 300) EOF) in
  terminal nat nat s = true /\ map (@length nat) (client nat nat s) = [128; 128; 44] /\
  let s' := exec nat nat S 128 2 1 (rr 700) (init nat nat (seq 0 300) Fail) in
  terminal nat nat s' = true /\ failed nat nat s' = true /\ map (@length nat) (client nat nat s') = [128; 128].
Proof. exact pipeline_nonvacuous. Qed.
Print Assumptions C35_nonvacuous.
