(* C44 -- System and user variables store and scope values correctly.
   Only statements, each closed by [exact], each followed by Print Assumptions.
   [reg] is ANY registry; [vars] is the registry generated from sql/variables/system_variables.go.
   Histories are arbitrary lists of operations over any number of sessions. *)
From Coq Require Import String ZArith List Bool.
Import ListNotations.
From GMS Require Import Sys.C44SysVarsBase gen.C44Vars Sys.C44SysVars Sys.C44SysVarsProofs Sys.C44SysVarsStmt
  Sys.C44SysVarsRegistry.
Open Scope Z_scope.

(* every default of the generated registry that is a constant of the source (336 of 349; the other 13 are computed at
   start-up: host name, uuid, collation / character set names, tmpdir, time zone) is a valid value of its variable and
   converts to itself as SELECT @@x shows it -- all types: bool, int, uint, double, enum, SET, string, types.Uint32 --
   (as a number: 8 defaults are Go int / int64 where Convert yields int64 / uint64, see _exact_type_fact);
   _partial: the one entry of [default_known_bad] is excluded, see C44_default_outside_range_fact *)
Theorem C44_defaults_valid_partial :
  forall sv, In sv vars -> checkable sv = true -> ~ In (v_name sv) default_known_bad ->
    exists d, convert (v_type sv) (v_default sv) = Ok d /\
              gval_same_value (shown_t (v_type sv) d) (v_default sv) = true.
Proof. exact defaults_valid. Qed.
Print Assumptions C44_defaults_valid_partial.

(* a fact about the registry, not a refutation of the property (which makes no demand on defaults):
   ft_max_word_len has default 0 and range [10, 2^63-1] *)
Theorem C44_default_outside_range_fact :
  exists sv, In sv vars /\ checkable sv = true /\ convert (v_type sv) (v_default sv) = Err.
Proof. exact defaults_refuted. Qed.
Print Assumptions C44_default_outside_range_fact.

Theorem C44_defaults_exact_type_fact :
  exists sv d, In sv vars /\ convert (v_type sv) (v_default sv) = Ok d /\ d <> v_default sv /\
               gval_same_value d (v_default sv) = true.
Proof. exact defaults_exact_type_refuted. Qed.
Print Assumptions C44_defaults_exact_type_fact.

(* keys unique and equal to the Name field, bounds inside int64 / uint64, no enum with two names differing only in
   case, every enum name converts to itself *)
Theorem C44_registry_wellformed :
  keys_unique vars = true /\
  forall sv, In sv vars -> name_ok sv = true /\ bounds_ok (v_type sv) = true /\ enum_ok (v_type sv) = true /\
                            enum_names_fixed sv = true.
Proof. exact registry_wellformed. Qed.
Print Assumptions C44_registry_wellformed.

(* SET validates and converts: an accepted value is stored converted, and the stored value has the variable's type *)
Theorem C44_convert_yields_value_of_the_type : forall t v v', convert t v = Ok v' -> has_type t v'.
Proof. exact convert_has_type. Qed.
Print Assumptions C44_convert_yields_value_of_the_type.

(* validation is exact for integers that fit the machine type Convert funnels them through ... *)
Theorem C44_int_validation_exact : forall lo hi n1 k z, in_i64 z = true ->
  convert (TInt lo hi n1) (GI k z) = if int_valid lo hi n1 z then Ok (GI KInt64 z) else Err.
Proof. exact conv_int_exact. Qed.
Print Assumptions C44_int_validation_exact.

Theorem C44_uint_validation_exact : forall lo hi k z, in_u64 z = true ->
  convert (TUint lo hi) (GI k z) = if (lo <=? z) && (z <=? hi) then Ok (GI KUint64 z) else Err.
Proof. exact conv_uint_exact. Qed.
Print Assumptions C44_uint_validation_exact.

(* ... and not beyond: -1 is accepted by an unsigned variable as 2^64-1, 2^64-1 by a signed one as -1, and a
   decimal loses its sign on the unsigned path *)
Theorem C44_uint_rejects_negative_refuted :
  exists sv, lookup vars "group_concat_max_len" = Some sv /\
    convert (v_type sv) (GI KInt8 (-1)) = Ok (GI KUint64 18446744073709551615).
Proof. exact uint_negative_accepted. Qed.
Print Assumptions C44_uint_rejects_negative_refuted.

Theorem C44_int_rejects_above_int64_refuted :
  exists sv, lookup vars "immediate_server_version" = Some sv /\
    convert (v_type sv) (GI KUint64 18446744073709551615) = Ok (GI KInt64 (-1)).
Proof. exact int_wraps_uint64. Qed.
Print Assumptions C44_int_rejects_above_int64_refuted.

Theorem C44_uint_rejects_negative_decimal_refuted :
  exists sv, lookup vars "group_concat_max_len" = Some sv /\
    convert (v_type sv) (GD (-5) 1) = Ok (GI KUint64 5).
Proof. exact uint_decimal_sign_dropped. Qed.
Print Assumptions C44_uint_rejects_negative_decimal_refuted.

(* facts, not refutations: the unsigned type rounds a fractional decimal half up (4.5 -> 5), the signed type rejects
   every fractional float / decimal whatever its bounds (2.5, 7/2, 100.4 are rejected without effect) *)
Theorem C44_uint_rounds_fractional_decimal_fact :
  exists sv, lookup vars "group_concat_max_len" = Some sv /\
    convert (v_type sv) (GD 9 2) = Ok (GI KUint64 5).
Proof. exact uint_decimal_rounded. Qed.
Print Assumptions C44_uint_rounds_fractional_decimal_fact.

Theorem C44_int_rejects_fraction : forall lo hi n1 n d, Z.rem n (Zpos d) <> 0 ->
  convert (TInt lo hi n1) (GF n d) = Err /\ convert (TInt lo hi n1) (GD n d) = Err.
Proof. exact conv_int_rejects_fraction. Qed.
Print Assumptions C44_int_rejects_fraction.

(* Convert is the identity on values of the type: re-assigning what was read changes nothing *)
Theorem C44_convert_idempotent : forall t v,
  match t with TBool | TInt _ _ _ | TUint _ _ | TDouble _ _ | TString => True | _ => False end ->
  bounds_ok t = true -> has_type t v -> convert t v = Ok v.
Proof. exact convert_idempotent_num. Qed.
Print Assumptions C44_convert_idempotent.

(* a rejected statement has no effect at all; an invalid value or an unknown name is rejected with either keyword *)
Theorem C44_invalid_rejected_no_effect : forall reg,
  (forall st o st', step reg st o = (st', Rejected) -> st' = st) /\
  (forall st s x v sv, valid_session st s = true -> lookup reg x = Some sv -> convert (v_type sv) v = Err ->
     step reg st (SetSession s x v) = (st, Rejected) /\ step reg st (SetGlobal s x v) = (st, Rejected)) /\
  (forall st s x v, valid_session st s = true -> lookup reg x = None ->
     step reg st (SetSession s x v) = (st, Rejected) /\ step reg st (SetGlobal s x v) = (st, Rejected)).
Proof.
  intro reg. exact (conj (rejected_no_effect reg) (conj (invalid_rejected reg) (unknown_rejected reg))).
Qed.
Print Assumptions C44_invalid_rejected_no_effect.

(* non-dynamic (or computed) variables reject every SET; GLOBAL-only ones SET SESSION; SESSION-only ones SET GLOBAL *)
Theorem C44_scope_rules : forall reg st s x v sv,
  valid_session st s = true -> lookup reg x = Some sv ->
  (read_only sv = true ->
     step reg st (SetSession s x v) = (st, Rejected) /\ step reg st (SetGlobal s x v) = (st, Rejected)) /\
  (v_scope sv = ScGlobal -> step reg st (SetSession s x v) = (st, Rejected)) /\
  (v_scope sv = ScSession -> step reg st (SetGlobal s x v) = (st, Rejected)).
Proof. exact scope_rules. Qed.
Print Assumptions C44_scope_rules.

(* SELECT @@x / @@session.x after an accepted SET SESSION x = v returns convert(v), a value of the variable's type *)
Theorem C44_set_get_roundtrip_session : forall reg st s x v st',
  step reg st (SetSession s x v) = (st', Accepted) ->
  exists sv v', lookup reg x = Some sv /\ convert (v_type sv) v = Ok v' /\ has_type (v_type sv) v' /\
                read_bare st' s x = RVal v' /\ read_session reg st' s x = RVal v'.
Proof. exact set_session_roundtrip. Qed.
Print Assumptions C44_set_get_roundtrip_session.

(* SELECT @@global.x after an accepted SET GLOBAL x = v returns convert(v); no session map and no other global moves *)
Theorem C44_set_get_roundtrip_global : forall reg st s x v st',
  step reg st (SetGlobal s x v) = (st', Accepted) ->
  exists sv v', lookup reg x = Some sv /\ convert (v_type sv) v = Ok v' /\ has_type (v_type sv) v' /\
                get_global st' x = v' /\ sessions st' = sessions st /\
                (forall y, key y <> key x -> get_global st' y = get_global st y).
Proof. exact set_global_roundtrip. Qed.
Print Assumptions C44_set_get_roundtrip_global.

(* the unqualified @@x of a GLOBAL-only variable does not show the value SET GLOBAL assigned (it reads the snapshot
   the session took when it was opened): max_connections stays 151 after SET GLOBAL max_connections = 200 *)
Theorem C44_set_get_roundtrip_global_only_bare_refuted :
  let st := run vars (init vars) [NewSession; SetGlobal 0 "max_connections" (GI KUint8 200)] in
  (exists sv, lookup vars "max_connections" = Some sv /\ v_scope sv = ScGlobal) /\
  get_global st "max_connections" = GI KInt64 200 /\
  read_bare st 0 "max_connections" = RVal (GI KInt64 151).
Proof. exact bare_read_of_global_only_stale. Qed.
Print Assumptions C44_set_get_roundtrip_global_only_bare_refuted.

(* one SET SESSION in s (accepted or not): globals, all other sessions, the other variables and the user variables
   of s are untouched *)
Theorem C44_session_isolation : forall reg st s x v st' o,
  step reg st (SetSession s x v) = (st', o) ->
  (forall y, get_global st' y = get_global st y) /\
  (forall s', s' <> s -> nth_error (sessions st') s' = nth_error (sessions st) s') /\
  (forall y, key y <> key x -> read_bare st' s y = read_bare st s y) /\
  (forall u, get_user st' s u = get_user st s u).
Proof. exact set_session_isolation. Qed.
Print Assumptions C44_session_isolation.

(* over ALL histories and any number of sessions: the session values of s' are changed by nothing but the
   SET SESSION statements of s' itself *)
Theorem C44_session_value_changed_only_by_own_set : forall reg ops st s' y,
  (s' < length (sessions st))%nat -> forallb (fun o => negb (sets_session_of s' o)) ops = true ->
  read_bare (run reg st ops) s' y = read_bare st s' y.
Proof. exact session_value_changed_only_by_own_set. Qed.
Print Assumptions C44_session_value_changed_only_by_own_set.

(* an accepted SET GLOBAL x = v, followed by ANY history that does not assign the global x again, is what a session
   opened afterwards starts with *)
Theorem C44_global_seen_by_new_sessions : forall reg st s x v st1 ops,
  step reg st (SetGlobal s x v) = (st1, Accepted) ->
  forallb (fun o => negb (sets_global_key (key x) o)) ops = true ->
  exists sv v', lookup reg x = Some sv /\ convert (v_type sv) v = Ok v' /\
    let st2 := run reg st1 ops in
    get_global st2 x = v' /\
    read_bare (fst (step reg st2 NewSession)) (length (sessions st2)) x = RVal v'.
Proof. exact global_seen_by_new_sessions. Qed.
Print Assumptions C44_global_seen_by_new_sessions.

(* user variables: SELECT @u returns exactly the value assigned (any Go type), names are case-insensitive, other
   names, other sessions and all system variables are untouched *)
Theorem C44_user_variable_roundtrip : forall reg st s u v, valid_session st s = true ->
  let st' := fst (step reg st (SetUser s u v)) in
  snd (step reg st (SetUser s u v)) = Accepted /\
  get_user st' s u = RVal v /\
  (forall u', key u' <> key u -> get_user st' s u' = get_user st s u') /\
  (forall s' u', s' <> s -> get_user st' s' u' = get_user st s' u') /\
  (forall s' y, read_bare st' s' y = read_bare st s' y) /\
  (forall y, get_global st' y = get_global st y).
Proof. exact set_user_roundtrip. Qed.
Print Assumptions C44_user_variable_roundtrip.

(* ---------- SET-typed variables ---------- *)
(* every member name of every SET-typed variable of the registry converts to its bit and is shown back as itself *)
Theorem C44_set_member_names_roundtrip : forall sv, In sv vars -> set_names_fixed sv = true.
Proof. exact set_names_fixed_all. Qed.
Print Assumptions C44_set_member_names_roundtrip.

Example C44_sql_mode_roundtrip :
  let xs := xrun vars x1 [SSet 0 [(TgSession false "sql_mode", SrcVal (GS "ansi_quotes,,ANSI ,"));
                                  (TgUser "m", SrcBare "sql_mode")]] in
  shown vars "sql_mode" (match read_bare (base xs) 0 "sql_mode" with RVal v => v | _ => GNil end) = GS "ANSI_QUOTES,ANSI" /\
  get_user (base xs) 0 "m" = RVal (GS "ANSI_QUOTES,ANSI").
Proof. exact sql_mode_roundtrip. Qed.
Print Assumptions C44_sql_mode_roundtrip.

(* ---------- whole SET statements: several assignments, DEFAULT, @@y, PERSIST ---------- *)
(* one literal assignment is the single-assignment step, so all the theorems above apply to statements *)
Theorem C44_single_assignment_is_step : forall reg xs s x v,
  valid_session (base xs) s = true ->
  (forall sv, lookup reg x = Some sv -> convert (v_type sv) v <> Unm) ->
  exec_stmt reg xs (SSet s [(TgGlobal x, SrcVal v)]) = lift (pers xs) (step reg (base xs) (SetGlobal s x v)) /\
  exec_stmt reg xs (SSet s [(TgSession false x, SrcVal v)]) = lift (pers xs) (step reg (base xs) (SetSession s x v)).
Proof.
  intros reg xs s x v Hs Hu. split.
  - exact (single_literal_is_step_global reg xs s x v Hs Hu).
  - exact (single_literal_is_step_session reg xs s false x v Hs Hu).
Qed.
Print Assumptions C44_single_assignment_is_step.

(* a statement refused while planning (unknown name, invalid string literal, reading @@SESSION.y of a GLOBAL-only y,
   DEFAULT for a user variable) changes nothing, wherever the offending assignment stands *)
Theorem C44_statement_refused_while_planning_no_effect : forall reg xs s l o,
  build_all reg l = o -> o <> Accepted ->
  exec_stmt reg xs (SSet s l) = (xs, o) \/ exec_stmt reg xs (SSet s l) = (xs, Unmodelled).
Proof. exact build_failure_no_effect. Qed.
Print Assumptions C44_statement_refused_while_planning_no_effect.

(* the assignments of one SET run in order and the first one that fails while running stops the statement: the result
   is the state after the accepted prefix (plus the failing assignment's own effect, which is none -- next theorem) *)
Theorem C44_statement_runs_accepted_prefix : forall reg l1 xs s a l2 xs1 xs2 o,
  exec_list reg xs s l1 = (xs1, Accepted) -> exec_assign reg xs1 s a = (xs2, o) -> o <> Accepted ->
  exec_list reg xs s (l1 ++ a :: l2) = (xs2, o).
Proof. exact exec_list_app_fail. Qed.
Print Assumptions C44_statement_runs_accepted_prefix.

Theorem C44_failing_assignment_no_effect : forall reg xs s tg src xs',
  exec_assign reg xs s (tg, src) = (xs', Rejected) -> (forall x, tg <> TgPersist false x) -> xs' = xs.
Proof. exact failing_assign_no_effect. Qed.
Print Assumptions C44_failing_assignment_no_effect.

(* facts about the code as it is: SET a = 5, b = <out of range>, c = 1 fails, a keeps 5, b and c are untouched;
   with an invalid STRING literal instead the statement is refused while planning and a is untouched too *)
Theorem C44_multi_set_not_atomic_fact :
  let r := exec_stmt vars x1 (SSet 0 [(TgSession false "wait_timeout", SrcVal (GI KInt8 5));
                                      (TgSession false "auto_increment_increment", SrcVal (GI KInt8 0));
                                      (TgSession false "sql_log_bin", SrcVal (GI KInt8 1))]) in
  snd r = Rejected /\
  read_bare (base (fst r)) 0 "wait_timeout" = RVal (GI KInt64 5) /\
  read_bare (base (fst r)) 0 "auto_increment_increment" = RVal (GI KInt64 1) /\
  read_bare (base (fst r)) 0 "sql_log_bin" = RVal (GI KInt8 0).
Proof. exact multi_set_not_atomic. Qed.
Print Assumptions C44_multi_set_not_atomic_fact.

Theorem C44_multi_set_string_literal_atomic_fact :
  let r := exec_stmt vars x1 (SSet 0 [(TgSession false "wait_timeout", SrcVal (GI KInt8 5));
                                      (TgSession false "wait_timeout", SrcVal (GS "abc"))]) in
  snd r = Rejected /\ read_bare (base (fst r)) 0 "wait_timeout" = RVal (GI KInt64 28800).
Proof. exact multi_set_build_failure_atomic. Qed.
Print Assumptions C44_multi_set_string_literal_atomic_fact.

(* SET x = DEFAULT assigns the compiled default of x ... *)
Theorem C44_set_default_assigns_compiled_default : forall reg xs s x sv xs',
  lookup reg x = Some sv ->
  exec_assign reg xs s (TgSession false x, SrcDefault) = (xs', Accepted) ->
  exists v', convert (v_type sv) (v_default sv) = Ok v' /\ read_bare (base xs') s x = RVal v'.
Proof. exact set_default_assigns_compiled_default. Qed.
Print Assumptions C44_set_default_assigns_compiled_default.

(* ... which is not the current global value (MySQL's meaning of SET SESSION x = DEFAULT) *)
Theorem C44_session_default_is_not_current_global_fact :
  let xs := xrun vars x1 [SSet 0 [(TgGlobal "wait_timeout", SrcVal (GI KInt8 77))];
                          SSet 0 [(TgSession false "wait_timeout", SrcVal (GI KInt8 5))];
                          SSet 0 [(TgSession false "wait_timeout", SrcDefault)]] in
  read_bare (base xs) 0 "wait_timeout" = RVal (GI KInt64 28800) /\ get_global (base xs) "wait_timeout" = GI KInt64 77.
Proof. exact session_default_is_compiled_default. Qed.
Print Assumptions C44_session_default_is_not_current_global_fact.

(* SET @@SESSION.x = @@GLOBAL.x: the session value becomes convert(what @@GLOBAL.x shows), the globals do not move;
   for the numeric and string types that is the global value itself *)
Theorem C44_copy_global_to_session : forall reg xs s e x xs',
  exec_assign reg xs s (TgSession e x, SrcGlobal x) = (xs', Accepted) ->
  exists sv v', lookup reg x = Some sv /\
    convert (v_type sv) (shown reg x (get_global (base xs) x)) = Ok v' /\
    read_bare (base xs') s x = RVal v' /\
    (forall y, get_global (base xs') y = get_global (base xs) y).
Proof. exact copy_global_to_session. Qed.
Print Assumptions C44_copy_global_to_session.

Theorem C44_copy_global_to_session_same_value : forall reg xs s e x xs' sv,
  lookup reg x = Some sv ->
  match v_type sv with TBool | TInt _ _ _ | TUint _ _ | TDouble _ _ | TString => True | _ => False end ->
  bounds_ok (v_type sv) = true -> has_type (v_type sv) (get_global (base xs) x) ->
  exec_assign reg xs s (TgSession e x, SrcGlobal x) = (xs', Accepted) ->
  read_bare (base xs') s x = RVal (get_global (base xs) x).
Proof. exact copy_global_to_session_same. Qed.
Print Assumptions C44_copy_global_to_session_same_value.

(* user variables of every value type: SET @u = <literal | @@y | @@GLOBAL.y | @@SESSION.y | @v> always succeeds and
   SELECT @u returns exactly the value the right-hand side had (any integer kind, decimal, float, string, NULL) *)
Theorem C44_user_variable_any_value_any_source : forall reg xs s u src v,
  valid_session (base xs) s = true -> resolve reg (base xs) s (TgUser u) src = Ok v ->
  let r := exec_assign reg xs s (TgUser u, src) in
  snd r = Accepted /\ get_user (base (fst r)) s u = RVal v.
Proof. exact user_assign_returns_value. Qed.
Print Assumptions C44_user_variable_any_value_any_source.

(* PERSIST_ONLY never touches running values; PERSIST persists convert(v) and, when it succeeds, the global is convert(v) *)
Theorem C44_persist_only_keeps_values : forall reg xs s x src xs' o,
  exec_assign reg xs s (TgPersist true x, src) = (xs', o) -> base xs' = base xs.
Proof. exact persist_only_keeps_values. Qed.
Print Assumptions C44_persist_only_keeps_values.

Theorem C44_persist_semantics : forall reg xs s x v xs' o sv v',
  lookup reg x = Some sv -> convert (v_type sv) v = Ok v' ->
  exec_assign reg xs s (TgPersist false x, SrcVal v) = (xs', o) ->
  pers xs' s x = v' /\ (o = Accepted -> get_global (base xs') x = v').
Proof. exact persist_semantics. Qed.
Print Assumptions C44_persist_semantics.

(* "rejected without effect" fails for SET PERSIST of a read-only (or SESSION-only) variable: the statement fails
   after the value has been persisted *)
Theorem C44_persist_rejected_no_effect_refuted :
  let r := exec_stmt vars x1 (SSet 0 [(TgPersist false "version", SrcVal (GS "y"))]) in
  snd r = Rejected /\ pers (fst r) 0 "version" = GS "y" /\ get_global (base (fst r)) "version" = GS "8.0.31".
Proof. exact persist_rejected_but_persisted. Qed.
Print Assumptions C44_persist_rejected_no_effect_refuted.

(* non-vacuity: a three-session history over the generated registry where acceptance, conversion, isolation,
   inheritance by a new session, user variables and the four kinds of rejection all occur *)
Example C44_nonvacuous :
  let st := run vars (init vars) demo_ops in
  read_bare st 0 "wait_timeout" = RVal (GI KInt64 5) /\
  read_bare st 1 "wait_timeout" = RVal (GI KInt64 28800) /\
  read_bare st 2 "wait_timeout" = RVal (GI KInt64 77) /\
  get_global st "wait_timeout" = GI KInt64 77 /\
  get_user st 1 "U" = RVal (GS "x") /\ get_user st 0 "u" = RVal GNil /\
  snd (step vars st (SetSession 1 "wait_timeout" (GS "abc"))) = Rejected /\
  snd (step vars st (SetSession 1 "version" (GS "9"))) = Rejected /\
  snd (step vars st (SetSession 1 "max_connections" (GI KInt8 9))) = Rejected /\
  snd (step vars st (SetGlobal 1 "insert_id" (GI KInt8 9))) = Rejected.
Proof. exact demo. Qed.
Print Assumptions C44_nonvacuous.
