(* C12 — Prepared statements behave like the inlined statement text.
   Only statements, each closed by [exact], each followed by Print Assumptions. *)
From Coq Require Import List ZArith Bool.
Import ListNotations.
From GMS Require Import Lang.C12Prepared Lang.C12PreparedProofs.

(* substitution lemma: evaluating an expression with the bindings supplied at execution time equals evaluating
   the expression in which every bound hole has been replaced by the value as a literal — for all expressions,
   all binding lists (short ones included: an unbound hole fails the same way on both sides) and all rows *)
Theorem C12_eval_bound_eq_eval_subst :
  forall (bs : bindings) (r : row) (e : expr), eval bs r e = eval [] r (subst bs e).
Proof. exact eval_subst. Qed.
Print Assumptions C12_eval_bound_eq_eval_subst.

(* the same for whole statements: result rows AND the table afterwards (SELECT, INSERT, UPDATE, DELETE) *)
Theorem C12_exec_bound_eq_exec_inlined :
  forall (bs : bindings) (s : stmt) (d : db), exec bs s d = exec [] (subst_stmt bs s) d.
Proof. exact exec_subst. Qed.
Print Assumptions C12_exec_bound_eq_exec_inlined.

(* re-execution: over any history of executions with other values interleaved with arbitrary hole-free
   statements (data changes), every result and the final table equal those of the history of inlined texts *)
Theorem C12_history_prepared_eq_history_inlined :
  forall (q : stmt) (h : list step) (d : db), run_prepared q h d = run_text (map (inline_step q) h) d.
Proof. exact history_subst. Qed.
Print Assumptions C12_history_prepared_eq_history_inlined.

(* when every hole has a value, the inlined text has no holes left *)
Theorem C12_inlined_text_is_closed :
  forall (bs : bindings) (e : expr), holes_below (length bs) e = true -> closed (subst bs e) = true.
Proof. exact subst_closed. Qed.
Print Assumptions C12_inlined_text_is_closed.

Example C12_nonvacuous :
  let q := Select [Col 0; Add (Col 1) (Bind 1)] (Or (Eq (Col 1) (Bind 0)) (InList (Col 0) [ABind 1; ALit VNull])) in
  let d := [[VInt 1; VInt 5]; [VInt 2; VNull]; [VInt 3; VInt 7]]%Z in
  exec [VInt 5; VInt 3]%Z q d = Some ([[VInt 1; VInt 8]; [VInt 3; VInt 10]]%Z, d)
  /\ subst_stmt [VInt 5; VInt 3]%Z q =
     Select [Col 0; Add (Col 1) (Lit (VInt 3))] (Or (Eq (Col 1) (Lit (VInt 5))) (InList (Col 0) [ALit (VInt 3); ALit VNull])).
Proof. exact nonvacuous_example. Qed.
Print Assumptions C12_nonvacuous.
