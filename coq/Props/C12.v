(* C12 — Prepared statements behave like the inlined statement text.
   Only statements, each closed by [exact], each followed by Print Assumptions. *)
From Coq Require Import List ZArith NArith Bool String Decimal.
Import ListNotations.
From GMS Require Import Lang.C12Prepared Lang.C12PreparedProofs Lang.C12Binding Lang.C12BindingProofs.

(* substitution lemma: evaluating an expression with the bindings supplied at execution time equals evaluating
   the expression in which every bound hole has been replaced by the value as a literal — over NULL, integers
   (signed and unsigned 64-bit), exact decimals and strings, for all expressions,
   all binding lists (short ones included: an unbound hole fails the same way on both sides) and all rows *)
Theorem C12_eval_bound_eq_eval_subst :
  forall (bs : bindings) (r : row) (e : expr), eval bs r e = eval [] r (subst bs e).
Proof. exact eval_subst. Qed.
Print Assumptions C12_eval_bound_eq_eval_subst.

(* the same for whole statements: result rows AND the table afterwards (SELECT, INSERT, UPDATE, DELETE) *)
Theorem C12_exec_bound_eq_exec_inlined :
  forall (bs : bindings) (s : stmt) (d : db), exec bs s d = exec [] (subst_stmt bs s) d.
Proof. exact exec_subst. Qed.
Print Assumptions C12_exec_bound_eq_exec_inlined.

(* re-execution: over any history of executions with other values interleaved with arbitrary hole-free
   statements (data changes), every result and the final table equal those of the history of inlined texts *)
Theorem C12_history_prepared_eq_history_inlined :
  forall (q : stmt) (h : list step) (d : db), run_prepared q h d = run_text (map (inline_step q) h) d.
Proof. exact history_subst. Qed.
Print Assumptions C12_history_prepared_eq_history_inlined.

(* when every hole has a value, the inlined text has no holes left *)
Theorem C12_inlined_text_is_closed :
  forall (bs : bindings) (e : expr), holes_below (List.length bs) e = true -> closed (subst bs e) = true.
Proof. exact subst_closed. Qed.
Print Assumptions C12_inlined_text_is_closed.

Example C12_nonvacuous :
  let q := Select [Col 0; Add (Col 1) (Bind 1)] (Or (Eq (Col 1) (Bind 0)) (InList (Col 0) [ABind 1; ALit VNull])) in
  let d := [[VInt 1; VInt 5]; [VInt 2; VNull]; [VInt 3; VInt 7]]%Z in
  exec [VInt 5; VInt 3]%Z q d = Some ([[VInt 1; VInt 8]; [VInt 3; VInt 10]]%Z, d)
  /\ subst_stmt [VInt 5; VInt 3]%Z q =
     Select [Col 0; Add (Col 1) (Lit (VInt 3))] (Or (Eq (Col 1) (Lit (VInt 5))) (InList (Col 0) [ALit (VInt 3); ALit VNull])).
Proof. exact nonvacuous_example. Qed.
Print Assumptions C12_nonvacuous.

(* wire type => literal: for every argument kind of the model (NULL, signed and unsigned 64-bit integers, decimal
   text of scale <= 30, character and binary strings) carried by any wire type of its class, the literal of the
   live path (server/handler.go bindingsToExprs ; Builder.ConvertVal), the literal the parser builds from the text
   the inlining printer writes (digits, decimal text, quoted string with ' and \ escaped, NULL), and the literal
   of engine.go bindingsToExprs all evaluate to the value of the argument *)
Theorem C12_literal_of_binding_denotes :
  forall (t : wtype) (p : pval), compat t p = true -> wf p ->
    denote_opt (handler_lit (binding_of t p)) = Some (value_of p)
    /\ denote_text (scan (print p)) = Some (value_of p)
    /\ denote_opt (engine_lit (binding_of t p)) = Some (value_of p).
Proof. exact literal_of_binding_denotes. Qed.
Print Assumptions C12_literal_of_binding_denotes.

(* stronger, on the live path: the binding IS the token the parser produces for the printed text (same kind, same
   bytes); a negative decimal is the one exception (the parser yields unary minus over the positive token) *)
Theorem C12_binding_ast_is_parsed_text :
  forall (t : wtype) (p : pval), compat t p = true -> wf p -> neg_dec p = false ->
    option_map TE (handler_ast (binding_of t p)) = scan (print p).
Proof. exact binding_ast_is_parsed_text. Qed.
Print Assumptions C12_binding_ast_is_parsed_text.

(* DATE / DATETIME / TIMESTAMP / TIME / ENUM / SET / JSON / GEOMETRY / BLOB ... bindings reach the engine as the
   LONGTEXT string literal of their text, exactly what a quoted literal in the statement text becomes *)
Theorem C12_quoted_binding_is_string_literal :
  forall (t : wtype) (s : string), is_quoted t = true ->
    handler_lit {| b_type := t; b_val := s |} = Some (LS s, TLongText).
Proof. exact quoted_binding_is_string_literal. Qed.
Print Assumptions C12_quoted_binding_is_string_literal.

(* BIT and EXPRESSION bindings cannot be executed at all on the live path *)
Theorem C12_unconvertible_bindings_partial :
  forall s : string,
    handler_lit {| b_type := WBit; b_val := s |} = None /\ handler_lit {| b_type := WExpression; b_val := s |} = None.
Proof. exact unconvertible_bindings. Qed.
Print Assumptions C12_unconvertible_bindings_partial.

(* end to end: evaluating with the values of the typed bindings equals evaluating the statement in which every hole
   has been replaced by the literal parsed from the printed text — expressions and whole statements (rows + table) *)
Theorem C12_eval_typed_bindings_eq_eval_inlined_text :
  forall (tps : list typed) (r : row) (e : expr), Forall typed_ok tps ->
    eval (map (fun tp => bound_value (fst tp) (snd tp)) tps) r e
    = eval [] r (subst (map (fun tp => text_value (snd tp)) tps) e).
Proof. exact eval_typed_bindings_eq_eval_inlined_text. Qed.
Print Assumptions C12_eval_typed_bindings_eq_eval_inlined_text.

Theorem C12_exec_typed_bindings_eq_exec_inlined_text :
  forall (tps : list typed) (s : stmt) (d : db), Forall typed_ok tps ->
    exec (map (fun tp => bound_value (fst tp) (snd tp)) tps) s d
    = exec [] (subst_stmt (map (fun tp => text_value (snd tp)) tps) s) d.
Proof. exact exec_typed_bindings_eq_exec_inlined_text. Qed.
Print Assumptions C12_exec_typed_bindings_eq_exec_inlined_text.

Example C12_binding_nonvacuous :
  let tps := [(WInt64, PInt (-5)%Z); (WUint64, PUint 18446744073709551615%Z); (WDecimal, PDec (Neg (D1 Nil)) (D2 (D5 Nil)));
              (WVarChar, PStr "a'b\c"%string); (WNull, PNull); (WInt8, PInt 7%Z)] in
  Forall typed_ok tps
  /\ map (fun tp => print (snd tp)) tps = ["-5"; "18446744073709551615"; "-1.25"; "'a''b\\c'"; "NULL"; "7"]%string
  /\ map (fun tp => handler_lit (binding_of (fst tp) (snd tp))) tps
     = [Some (LZ (-5)%Z, TInt8); Some (LZ 18446744073709551615%Z, TUint64); Some (LDec (-125)%Z 2%N, TDecimalLit);
        Some (LS "a'b\c"%string, TLongText); Some (LNil, TNull); Some (LZ 7%Z, TInt8)]
  /\ map (fun tp => engine_lit (binding_of (fst tp) (snd tp))) tps
     = [Some (LZ (-5)%Z, TInt64); Some (LZ 18446744073709551615%Z, TUint64); Some (LDec (-125)%Z 2%N, TDecimalInternal);
        Some (LS "a'b\c"%string, TString WVarChar 5%N); Some (LNil, TNull); Some (LZ 7%Z, TInt64)]
  /\ map (fun tp => text_value (snd tp)) tps
     = [VInt (-5)%Z; VInt 18446744073709551615%Z; VDec (-125)%Z 2%N; VStr "a'b\c"%string; VNull; VInt 7%Z].
Proof. exact binding_nonvacuous. Qed.
Print Assumptions C12_binding_nonvacuous.
