(* C32 — JSON values round-trip and path functions obey their laws: the quoting mechanism
   (internal/strings Quote / Unquote / UnquoteBytes = JSON_QUOTE / JSON_UNQUOTE).
   Only statements, each closed by [exact], each followed by Print Assumptions.
   Strings are lists of bytes.  The document model, comparison and path functions are NOT modelled (see
   props/C32.json "partial"); their laws are checked on the implementation only. *)
From Coq Require Import List NArith.
Import ListNotations.
From GMS Require Import Codec.Charset Codec.JsonQuote Codec.JsonQuoteProofs.
Open Scope N_scope.

(* JSON_UNQUOTE(JSON_QUOTE(s)) = s for every valid UTF-8 string s, of any length and content *)
Theorem C32_unquote_quote_valid : forall s, utf8_ok 0 s = true -> unquote (quote s) = ROk s.
Proof. exact unquote_quote_valid. Qed.
Print Assumptions C32_unquote_quote_valid.

(* and for EVERY byte string: the round trip never fails or crashes; bytes that are not part of a valid
   UTF-8 sequence come back as U+FFFD, everything else is unchanged *)
Theorem C32_unquote_quote_any : forall s, unquote (quote s) = ROk (sanitize 0 s).
Proof. exact unquote_quote. Qed.
Print Assumptions C32_unquote_quote_any.

(* the in-place variant agrees on quoted valid strings *)
Theorem C32_unquote_bytes_quote_valid : forall s, utf8_ok 0 s = true -> unquote_bytes (quote s) = ROk s.
Proof. exact unquote_bytes_quote_valid. Qed.
Print Assumptions C32_unquote_bytes_quote_valid.

Theorem C32_ascii_is_valid : forall s, forallb (fun b => b <? 128) s = true -> utf8_ok 0 s = true.
Proof. exact ascii_utf8_ok. Qed.
Print Assumptions C32_ascii_is_valid.

(* since commit d9436d51b no input makes Unquote or UnquoteBytes crash: the model has no panic outcome left on
   any path (before, backslash-u with exactly three bytes left, escaped surrogate halves and -- in UnquoteBytes -- a
   trailing backslash did) *)
Theorem C32_unquote_never_panics : forall s, unquote s <> RPanic.
Proof. exact unquote_never_panics. Qed.
Print Assumptions C32_unquote_never_panics.

Theorem C32_unquote_bytes_never_panics : forall s, unquote_bytes s <> RPanic.
Proof. exact unquote_bytes_never_panics. Qed.
Print Assumptions C32_unquote_bytes_never_panics.

(* what they return instead: a backslash-u with fewer than four bytes left is the Invalid unicode error (kind 1) *)
Theorem C32_unquote_truncated_u_escape_is_error :
  forall t, (length t < 4)%nat ->
    unquote (92 :: 117 :: t) = RErr 1 /\ unquote_bytes (92 :: 117 :: t) = RErr 1.
Proof. exact unquote_truncated_u. Qed.
Print Assumptions C32_unquote_truncated_u_escape_is_error.

(* ... and so is an escaped surrogate half, wherever decodeEscapedUnicode meets it first *)
Theorem C32_unquote_surrogate_u_escape_is_error :
  forall a b c d rest, decode4 a b c d = RErr 1 ->
    unquote (92 :: 117 :: a :: b :: c :: d :: rest) = RErr 1 /\
    unquote_bytes (92 :: 117 :: a :: b :: c :: d :: rest) = RErr 1.
Proof. exact unquote_surrogate_u. Qed.
Print Assumptions C32_unquote_surrogate_u_escape_is_error.

(* the former crash inputs: backslash-u 123; backslash-u d800; the JSON text of U+1F600 as a surrogate pair;
   a trailing backslash (kept by both functions) *)
Example C32_former_crash_inputs :
  unquote [92; 117; 49; 50; 51] = RErr 1 /\ decode4 100 56 48 48 = RErr 1 /\
  unquote [92; 117; 100; 56; 48; 48] = RErr 1 /\
  unquote [34; 92; 117; 100; 56; 51; 100; 92; 117; 100; 101; 48; 48; 34] = RErr 1 /\
  unquote_bytes [97; 92] = ROk [97; 92] /\ unquote [97; 92] = ROk [97; 92].
Proof. exact former_crash_inputs. Qed.
Print Assumptions C32_former_crash_inputs.

(* UnquoteBytes keeps only the first byte of a multi-byte backslash-u result (backslash-u 00e9 -> C3), Unquote keeps C3 A9 *)
Theorem C32_unquote_bytes_truncates_fact :
  unquote_bytes [92; 117; 48; 48; 101; 57] = ROk [195] /\ unquote [92; 117; 48; 48; 101; 57] = ROk [195; 169].
Proof. exact unquote_bytes_truncates. Qed.
Print Assumptions C32_unquote_bytes_truncates_fact.

(* non-vacuity: a string with controls, quote, backslash, DEL, two- and four-byte characters is valid; its
   quoted form; error outcomes of Unquote *)
Example C32_nonvacuous :
  quote [97; 0; 31; 34; 92; 10; 127; 195; 169; 255] =
    [34; 97; 92;117;48;48;48;48; 92;117;48;48;49;102; 92;34; 92;92; 92;110; 127; 195;169; 92;117;102;102;102;100; 34] /\
  utf8_ok 0 [97; 0; 31; 34; 92; 10; 127; 195; 169; 240; 159; 152; 128] = true /\
  unquote [34; 97; 92; 34; 34] = ROk [97; 34] /\ unquote [92; 117; 49; 50] = RErr 1 /\
  unquote [92; 117; 48; 48; 122; 122] = RErr 2.
Proof. exact quote_examples. Qed.
Print Assumptions C32_nonvacuous.
