(* C32 — JSON values round-trip and path functions obey their laws: the quoting mechanism
   (internal/strings Quote / Unquote / UnquoteBytes = JSON_QUOTE / JSON_UNQUOTE).
   Only statements, each closed by [exact], each followed by Print Assumptions.
   Strings are lists of bytes.  The second half states the document laws on the model Codec/C32Json.v (documents of
   null / booleans / exact integers / strings / arrays / objects; paths as leg lists), which is tied to the engine's
   printer, CompareJSON and path functions by correspondence (Corr/C32.v). *)
From Coq Require Import List NArith ZArith.
Import ListNotations.
From GMS Require Import Codec.Charset Codec.JsonQuote Codec.JsonQuoteProofs.
From GMS Require Import Codec.C32Json Codec.C32JsonProofs Codec.C32JsonCompare Codec.C32JsonParse.
Open Scope N_scope.

(* JSON_UNQUOTE(JSON_QUOTE(s)) = s for every valid UTF-8 string s, of any length and content *)
Theorem C32_unquote_quote_valid : forall s, utf8_ok 0 s = true -> unquote (quote s) = ROk s.
Proof. exact unquote_quote_valid. Qed.
Print Assumptions C32_unquote_quote_valid.

(* and for EVERY byte string: the round trip never fails or crashes; bytes that are not part of a valid
   UTF-8 sequence come back as U+FFFD, everything else is unchanged *)
Theorem C32_unquote_quote_any : forall s, unquote (quote s) = ROk (sanitize 0 s).
Proof. exact unquote_quote. Qed.
Print Assumptions C32_unquote_quote_any.

(* the in-place variant agrees on quoted valid strings *)
Theorem C32_unquote_bytes_quote_valid : forall s, utf8_ok 0 s = true -> unquote_bytes (quote s) = ROk s.
Proof. exact unquote_bytes_quote_valid. Qed.
Print Assumptions C32_unquote_bytes_quote_valid.

Theorem C32_ascii_is_valid : forall s, forallb (fun b => b <? 128) s = true -> utf8_ok 0 s = true.
Proof. exact ascii_utf8_ok. Qed.
Print Assumptions C32_ascii_is_valid.

(* since commit d9436d51b no input makes Unquote or UnquoteBytes crash: the model has no panic outcome left on
   any path (before, backslash-u with exactly three bytes left, escaped surrogate halves and -- in UnquoteBytes -- a
   trailing backslash did) *)
Theorem C32_unquote_never_panics : forall s, unquote s <> RPanic.
Proof. exact unquote_never_panics. Qed.
Print Assumptions C32_unquote_never_panics.

Theorem C32_unquote_bytes_never_panics : forall s, unquote_bytes s <> RPanic.
Proof. exact unquote_bytes_never_panics. Qed.
Print Assumptions C32_unquote_bytes_never_panics.

(* what they return instead: a backslash-u with fewer than four bytes left is the Invalid unicode error (kind 1) *)
Theorem C32_unquote_truncated_u_escape_is_error :
  forall t, (length t < 4)%nat ->
    unquote (92 :: 117 :: t) = RErr 1 /\ unquote_bytes (92 :: 117 :: t) = RErr 1.
Proof. exact unquote_truncated_u. Qed.
Print Assumptions C32_unquote_truncated_u_escape_is_error.

(* ... and so is an escaped surrogate half, wherever decodeEscapedUnicode meets it first *)
Theorem C32_unquote_surrogate_u_escape_is_error :
  forall a b c d rest, decode4 a b c d = RErr 1 ->
    unquote (92 :: 117 :: a :: b :: c :: d :: rest) = RErr 1 /\
    unquote_bytes (92 :: 117 :: a :: b :: c :: d :: rest) = RErr 1.
Proof. exact unquote_surrogate_u. Qed.
Print Assumptions C32_unquote_surrogate_u_escape_is_error.

(* the former crash inputs: backslash-u 123; backslash-u d800; the JSON text of U+1F600 as a surrogate pair;
   a trailing backslash (kept by both functions) *)
Example C32_former_crash_inputs :
  unquote [92; 117; 49; 50; 51] = RErr 1 /\ decode4 100 56 48 48 = RErr 1 /\
  unquote [92; 117; 100; 56; 48; 48] = RErr 1 /\
  unquote [34; 92; 117; 100; 56; 51; 100; 92; 117; 100; 101; 48; 48; 34] = RErr 1 /\
  unquote_bytes [97; 92] = ROk [97; 92] /\ unquote [97; 92] = ROk [97; 92].
Proof. exact former_crash_inputs. Qed.
Print Assumptions C32_former_crash_inputs.

(* UnquoteBytes keeps only the first byte of a multi-byte backslash-u result (backslash-u 00e9 -> C3), Unquote keeps C3 A9 *)
Theorem C32_unquote_bytes_truncates_fact :
  unquote_bytes [92; 117; 48; 48; 101; 57] = ROk [195] /\ unquote [92; 117; 48; 48; 101; 57] = ROk [195; 169].
Proof. exact unquote_bytes_truncates. Qed.
Print Assumptions C32_unquote_bytes_truncates_fact.

(* non-vacuity: a string with controls, quote, backslash, DEL, two- and four-byte characters is valid; its
   quoted form; error outcomes of Unquote *)
Example C32_nonvacuous :
  quote [97; 0; 31; 34; 92; 10; 127; 195; 169; 255] =
    [34; 97; 92;117;48;48;48;48; 92;117;48;48;49;102; 92;34; 92;92; 92;110; 127; 195;169; 92;117;102;102;102;100; 34] /\
  utf8_ok 0 [97; 0; 31; 34; 92; 10; 127; 195; 169; 240; 159; 152; 128] = true /\
  unquote [34; 97; 92; 34; 34] = ROk [97; 34] /\ unquote [92; 117; 49; 50] = RErr 1 /\
  unquote [92; 117; 48; 48; 122; 122] = RErr 2.
Proof. exact quote_examples. Qed.
Print Assumptions C32_nonvacuous.


(* ====================== JSON documents (model: Codec/C32Json.v) ====================== *)

(* text round trip: parsing the printed form of ANY document gives its canonical form (objects sorted by the print
   order "shorter key first, then bytewise", first binding of a key wins) *)
Theorem C32_json_parse_print : forall j, parse (print j) = Some (canon j).
Proof. exact parse_print. Qed.
Print Assumptions C32_json_parse_print.

Theorem C32_canon_idempotent_and_key_sorted : forall j, canon (canon j) = canon j /\ canonical (canon j).
Proof. exact (fun j => conj (canon_idempotent j) (canon_canonical j)). Qed.
Print Assumptions C32_canon_idempotent_and_key_sorted.

(* CompareJSON is a total order on documents, and two documents compare equal exactly when their forms with
   bytewise-sorted keys (the form CompareJSON itself builds) are equal *)
Theorem C32_compare_json_total_order :
  (forall a, compare_json a a = Eq) /\
  (forall a b, compare_json b a = CompOpp (compare_json a b)) /\
  (forall a b c, compare_json a b <> Gt -> compare_json b c <> Gt -> compare_json a c <> Gt) /\
  (forall a b, compare_json a b = Eq <-> sort_bytewise a = sort_bytewise b).
Proof. exact (conj compare_json_refl (conj compare_json_total (conj compare_json_trans compare_json_eq_iff))). Qed.
Print Assumptions C32_compare_json_total_order.

(* JSON_EXTRACT(JSON_SET(d, p, v), p) = v when the target exists ... *)
Theorem C32_extract_set : forall v p d old, lookup p d = Some old ->
  lookup p (fst (upd SET p d v)) = Some v /\ snd (upd SET p d v) = true.
Proof. exact set_then_lookup. Qed.
Print Assumptions C32_extract_set.

(* ... and when p names a (new or existing) member of an existing object *)
Theorem C32_extract_set_member : forall v k p d m, lookup p d = Some (JObj m) ->
  lookup (p ++ [LKey k]) (fst (upd SET (p ++ [LKey k]) d v)) = Some v /\ snd (upd SET (p ++ [LKey k]) d v) = true.
Proof. exact set_member_then_lookup. Qed.
Print Assumptions C32_extract_set_member.

(* JSON_REMOVE of an existing member (holding anything, JSON null included) makes JSON_CONTAINS_PATH false *)
Theorem C32_remove_then_not_contains : forall v k p d old, lookup (p ++ [LKey k]) d = Some old ->
  contains_path (p ++ [LKey k]) (fst (upd REMOVE (p ++ [LKey k]) d v)) = false /\
  snd (upd REMOVE (p ++ [LKey k]) d v) = true.
Proof. exact remove_then_not_contains. Qed.
Print Assumptions C32_remove_then_not_contains.

(* JSON_ARRAY_APPEND adds exactly one element to the array at the target ... *)
Theorem C32_array_append_adds_one : forall v p d l, lookup p d = Some (JArr l) ->
  exists l', lookup p (fst (upd APPEND p d v)) = Some (JArr l') /\ l' = l ++ [v] /\ length l' = S (length l).
Proof. exact append_adds_one. Qed.
Print Assumptions C32_array_append_adds_one.

(* ... and every path that diverges from the target is unchanged (also for JSON_SET / INSERT / REPLACE) *)
Theorem C32_disjoint_paths_unchanged : forall md v, md <> REMOVE -> forall p q d t,
  lookup p d = Some t -> diverge p q -> lookup q (fst (upd md p d v)) = lookup q d.
Proof. exact frame. Qed.
Print Assumptions C32_disjoint_paths_unchanged.

(* non-vacuity: a document whose keys need sorting, with an escaped string and a negative integer; its text; a parse *)
Example C32_json_nonvacuous :
  print (JObj [([98; 98], JInt (-12)%Z); ([97], JArr [JStr [34; 233]; JNull; JBool true]); ([98; 97], JObj [])]) =
    [123; 34;97;34; 58;32; 91; 34;92;34;233;34; 44;32; 110;117;108;108; 44;32; 116;114;117;101; 93; 44;32;
     34;98;97;34; 58;32; 123;125; 44;32; 34;98;98;34; 58;32; 45;49;50; 125] /\
  parse [123; 34;98;34; 58;32; 49; 44;32; 34;97;34; 58;32; 91;93; 125] = Some (JObj [([97], JArr []); ([98], JInt 1)]).
Proof. exact parse_print_example. Qed.
Print Assumptions C32_json_nonvacuous.
