(* C16 — Indexes stay consistent with table data across histories.
   Only statements, each closed by [exact] (or by computation for concrete witnesses), each followed by
   Print Assumptions.  Model: Store/C16Index.v; proofs: Store/C16IndexProofs.v. *)
From Coq Require Import List NArith ZArith Bool Arith Permutation.
Import ListNotations.
From GMS Require Import Store.C16Index Store.C16IndexProofs Store.C16IndexOrder Store.C16Alias.

(* The representation invariant [Inv]: index names are unique and, for every index, the raw storage kept under its
   name has no two entries for one row location, every entry points at an existing row whose key tuple it carries,
   and every row location of the table has an entry. *)

Theorem C16_invariant_holds_initially : forall nparts pks, Inv (init nparts pks).
Proof. exact Inv_init. Qed.
Print Assumptions C16_invariant_holds_initially.

(* [Good]: [Inv], plus: a name without a storage key holds no storage, every storage is sorted on its index columns,
   and every storage key is the name of a live index (no orphaned storage).
   Every operation of a history (ApplyEdits of a statement, TRUNCATE, CREATE INDEX with its table rewrite, DROP INDEX,
   RENAME INDEX — index names in any letter case) RUNS (no panic) and preserves it, for every hash-partition function,
   under the guard the editor establishes ([step_ok]: an added row's primary key is absent once the statement's
   deletes are applied; partitions in range; no CREATE INDEX whose rewrite fails) *)
Theorem C16_invariant_preserved_by_every_operation :
  forall hp td o, Good td -> step_ok hp td o = true -> exists td', step hp td o = Ok td' /\ Good td'.
Proof. exact Good_step. Qed.
Print Assumptions C16_invariant_preserved_by_every_operation.

(* sort.Sort is free to call Swap in any order it likes: ANY sequence of Swap calls preserves the invariant *)
Theorem C16_any_swap_sequence_preserves_invariant : forall sw td, Inv td -> Inv (do_swaps td sw).
Proof. exact Inv_do_swaps. Qed.
Print Assumptions C16_any_swap_sequence_preserves_invariant.

Theorem C16_invariant_holds_after_every_history :
  forall hp nparts pks h,
    hist_ok hp (init nparts pks) h = true -> exists td, run hp (init nparts pks) h = Ok td /\ Inv td.
Proof.
  intros hp n pks h H. destruct (Good_run hp h (init n pks) (Good_init n pks) H) as (td & E & G).
  exists td. split; [exact E | apply G].
Qed.
Print Assumptions C16_invariant_holds_after_every_history.

(* in particular no such history panics, whatever the letter case of its index names (since /repo b327559e5) *)
Theorem C16_no_panic_whatever_the_index_names :
  forall hp nparts pks h, hist_ok hp (init nparts pks) h = true -> run hp (init nparts pks) h <> Panic.
Proof.
  intros hp n pks h H. destruct (Good_run hp h (init n pks) (Good_init n pks) H) as (td & E & _). rewrite E. discriminate.
Qed.
Print Assumptions C16_no_panic_whatever_the_index_names.

(* hence the property: after any such history — RENAME INDEX and mixed-case names included — a lookup through any
   index returns exactly the current rows whose key satisfies the lookup predicate: none missing, none stale, none
   duplicated (equality of bags) *)
Theorem C16_index_lookup_equals_filtered_scan :
  forall hp nparts pks h td k d (p : row -> bool),
    hist_ok hp (init nparts pks) h = true -> run hp (init nparts pks) h = Ok td ->
    In (k, d) (defs td) ->
    Permutation (index_lookup td (iname d) p) (filter (fun r => p (key_of d r)) (all_rows td)).
Proof.
  intros hp n pks h td k d p H1 H2 H3.
  destruct (Good_run hp h (init n pks) (Good_init n pks) H1) as (td' & E & G).
  rewrite H2 in E. injection E as <-. exact (lookup_eq_scan td k d p (proj1 G) H3).
Qed.
Print Assumptions C16_index_lookup_equals_filtered_scan.

(* and the storage of every index is sorted on the index columns (NULL first): any two entries, the earlier one's key
   is not greater than the later one's (sortSecondaryIndexes runs at the end of every ApplyEdits) *)
Theorem C16_index_storage_sorted_after_every_history :
  forall hp nparts pks h td k d,
    hist_ok hp (init nparts pks) h = true -> run hp (init nparts pks) h = Ok td ->
    In (k, d) (defs td) -> sorted_by (nsort d) (stor td (iname d)).
Proof.
  intros hp n pks h td k d H1 H2 H3.
  destruct (Good_run hp h (init n pks) (Good_init n pks) H1) as (td' & E & G).
  rewrite H2 in E. injection E as <-. exact (proj1 (proj2 (proj2 G)) k d H3).
Qed.
Print Assumptions C16_index_storage_sorted_after_every_history.

(* ---- what the faithful model does NOT satisfy (each witness is replayed on the implementation by the driver) ---- *)

Definition c16_r1 : row := [VInt 1; VInt 2; VStr [97%N]; VInt 3].
Definition c16_r2 : row := [VInt 2; VInt 2; VStr [98%N]; VInt 4].
Definition c16_hp0 : row -> nat := fun _ => 0.

(* the two histories that broke the model before /repo b327559e5 now run and answer correctly: dropping an index
   created with an upper-case letter removes its storage (the next statement no longer panics) ... *)
Example C16_drop_of_mixed_case_index_then_dml_runs :
  let h := [OCreate {| iname := (12%N, true); icols := [1; 3; 0]; nsort := 2 |}; OApply [] [c16_r1];
            ODrop (12%N, true); OApply [] [c16_r2]] in
  hist_ok c16_hp0 (init 1 [0]) h = true /\
  match run c16_hp0 (init 1 [0]) h with Ok td => all_rows td = [c16_r1; c16_r2] /\ skeys td = [] | Panic => False end.
Proof. split; vm_compute; [reflexivity | split; reflexivity]. Qed.
Print Assumptions C16_drop_of_mixed_case_index_then_dml_runs.

(* ... and RENAME INDEX moves the storage to the new name: a lookup through the renamed index finds every row *)
Example C16_rename_index_keeps_every_row :
  let h := [OCreate {| iname := (1%N, false); icols := [1; 0]; nsort := 1 |}; OApply [] [c16_r1; c16_r2];
            ORename (1%N, false) (100%N, false)] in
  hist_ok c16_hp0 (init 1 [0]) h = true /\
  match run c16_hp0 (init 1 [0]) h with
  | Ok td => index_lookup td (100%N, false) (fun _ => true) = [c16_r1; c16_r2] /\ index_lookup td (1%N, false) (fun _ => true) = []
  | Panic => False
  end.
Proof. split; vm_compute; [reflexivity | split; reflexivity]. Qed.
Print Assumptions C16_rename_index_keeps_every_row.

(* a CREATE INDEX whose rewrite fails (e.g. UNIQUE on a prefix that existing rows share) stays registered with no
   storage: a lookup through it finds nothing although the table has rows *)
Theorem C16_failed_create_index_stays_registered_refuted :
  exists h, match run c16_hp0 (init 1 [0]) h with
            | Ok td => def_named (defs td) (10%N, false) <> None /\
                       index_lookup td (10%N, false) (fun _ => true) = [] /\ all_rows td = [c16_r1; c16_r2]
            | Panic => False
            end.
Proof.
  exists [OApply [] [c16_r1; c16_r2]; OCreateFailed {| iname := (10%N, false); icols := [2; 0]; nsort := 1 |}].
  vm_compute. split; [discriminate | split; reflexivity].
Qed.
Print Assumptions C16_failed_create_index_stays_registered_refuted.

(* insertHelper's overwrite-in-place branch (a row with that primary key is still present) appends a second index
   entry for the same location and leaves the stale one: the lookup returns the row twice.  [step_ok] excludes it;
   the generated SQL histories never reach it (tableEditor.Insert/Update reject the duplicate key first). *)
Theorem C16_insert_helper_overwrite_duplicates_entry_refuted :
  exists td r, match run c16_hp0 (init 1 [0]) td with
               | Ok t => Inv t /\ index_lookup (insert_helper t 0 r) (1%N, false) (fun _ => true) = [r; r]
               | Panic => False
               end.
Proof.
  exists [OCreate {| iname := (1%N, false); icols := [1; 0]; nsort := 1 |}; OApply [] [c16_r1]].
  exists [VInt 1; VInt 5; VNull; VNull].
  assert (H : hist_ok c16_hp0 (init 1 [0])
                [OCreate {| iname := (1%N, false); icols := [1; 0]; nsort := 1 |}; OApply [] [c16_r1]] = true)
    by (vm_compute; reflexivity).
  destruct (Good_run c16_hp0 _ (init 1 [0]) (Good_init 1 [0]) H) as (t & E & G). rewrite E.
  split; [apply G|]. revert E. vm_compute. intros E. injection E as <-. reflexivity.
Qed.
Print Assumptions C16_insert_helper_overwrite_duplicates_entry_refuted.

(* Aliasing (Store/C16Alias.v): TableData.copy() shares the index storage rows (cells) that Swap and
   deleteRowFromIndexes patch in place.  A snapshot taken before an ApplyEdits is still restored correctly when that
   ApplyEdits only allocated new cells ... *)
Theorem C16_snapshot_restoration_holds_when_no_cell_is_patched :
  forall kc h d rs extra,
    fst (a_apply kc (h, d) rs) = h ++ extra -> Forall (fun id => id < length h) (aview d) -> restores kc h d rs.
Proof. exact restores_if_heap_only_extended. Qed.
Print Assumptions C16_snapshot_restoration_holds_when_no_cell_is_patched.

(* ... and is NOT when sortRows has to move existing rows: the witness is the self-referential foreign key finding
   (rows 50,60,70; rows 10,11 applied mid-statement; the restored storage says rows 2,3,4) *)
Theorem C16_snapshot_restoration_after_in_place_patch_refuted :
  ~ restores 1 w_heap w_data [[10; 1]; [11; 2]]%Z.
Proof. exact restoration_refuted. Qed.
Print Assumptions C16_snapshot_restoration_after_in_place_patch_refuted.

(* non-vacuity: a history with inserts, a primary-key-changing update (delete + add), a delete and an index built
   on existing data passes the guard, runs, and its lookup is non-trivial *)
Example C16_nonvacuous :
  let h := [OCreate {| iname := (1%N, false); icols := [1; 0]; nsort := 1 |};
            OApply [] [c16_r2; c16_r1];
            OApply [c16_r1] [[VInt 9; VInt 2; VStr [97%N]; VInt 3]];
            OCreate {| iname := (4%N, false); icols := [3; 0]; nsort := 1 |};
            OApply [c16_r2] []] in
  hist_ok (fun r => match r with VInt z :: _ => Z.to_nat (z mod 2) | _ => 0 end) (init 2 [0]) h = true /\
  match run (fun r => match r with VInt z :: _ => Z.to_nat (z mod 2) | _ => 0 end) (init 2 [0]) h with
  | Ok td => index_lookup td (4%N, false) (fun k => val_eqb (col 0 k) (VInt 3)) = [[VInt 9; VInt 2; VStr [97%N]; VInt 3]]
  | Panic => False
  end.
Proof. split; vm_compute; reflexivity. Qed.
Print Assumptions C16_nonvacuous.
