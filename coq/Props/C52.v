(* C52 — Geometry values round-trip through WKT/WKB and predicates agree  (partial: WKB half + lookup filter).
   Only statements, each closed by [exact], each followed by Print Assumptions.
   Not proved here (see docs/C52.md): the WKT printer/parser pair, the floating-point predicates themselves. *)
From Coq Require Import List NArith ZArith Bool.
Import ListNotations.
From GMS Require Import Codec.Wkb Codec.WkbProofs.

(* the data section written by WriteData is read back by the matching Deserialize* to the same value and the
   same remaining buffer, for every value, every nesting depth of collections and both byte orders *)
Theorem C52_wkb_data_roundtrip :
  forall s, wf s -> forall big fuel rest, (depth s < fuel)%nat ->
    rd_by_type fuel big (type_code s) (w_shape big s ++ rest) = Ok (s, rest).
Proof. exact rd_by_type_ok. Qed.
Print Assumptions C52_wkb_data_roundtrip.

(* internal form (SRID prefix + WKB): GeometryType.Convert(g.Serialize()) = g *)
Theorem C52_internal_form_roundtrip :
  forall g, (fst g < 2 ^ 32)%N -> wf (snd g) -> deserialize (serialize g) = Ok g.
Proof. exact deserialize_serialize. Qed.
Print Assumptions C52_internal_form_roundtrip.

(* SQL level: ST_GeomFromWKB(ST_AsWKB(g), ST_SRID(g)) = g, including the axis swap applied for SRID 4326 *)
Theorem C52_sql_wkb_roundtrip :
  forall g, wf (snd g) -> geom_from_wkb (as_wkb g) (fst g) = Ok g.
Proof. exact geom_from_wkb_as_wkb. Qed.
Print Assumptions C52_sql_wkb_roundtrip.

(* the reader accepts the big-endian encoding of the same value as well *)
Theorem C52_wkb_read_both_byte_orders :
  forall big srid s, wf s -> srid <> geo_srid ->
    geom_from_wkb (w_hdr big (type_code s) ++ w_shape big s) srid = Ok (srid, s).
Proof. exact geom_from_wkb_any_order. Qed.
Print Assumptions C52_wkb_read_both_byte_orders.

(* Serialize allocates (CalculateSize / AllocateGeoTypeBuffer) exactly the bytes WriteData fills: no
   out-of-range write and no trailing slack, for every value whether well-formed or not *)
Theorem C52_serialize_buffer_exact : forall big s, length (w_shape big s) = alloc_size s.
Proof. exact alloc_size_exact. Qed.
Print Assumptions C52_serialize_buffer_exact.

(* a fact about INVALID input, not a finding: without the well-formedness guard the round trip is false of the
   faithful model - a LINESTRING with one point is written in 29 bytes and DeserializeLine demands 36 *)
Theorem C52_wkb_roundtrip_refuted : exists g, deserialize (serialize g) <> Ok g.
Proof. exact roundtrip_refuted. Qed.
Print Assumptions C52_wkb_roundtrip_refuted.

(* the reader indexes past the end of a truncated value (count says 3 points, 2 present) *)
Theorem C52_wkb_reader_out_of_range_refuted : exists buf, geom_from_wkb buf 0 = Panic.
Proof. exact reader_out_of_range. Qed.
Print Assumptions C52_wkb_reader_out_of_range_refuted.

(* the four-way comparison of spatialTableIter.Next is exactly interval overlap *)
Theorem C52_interval_test_is_overlap :
  forall a b c d, (a <= b)%Z -> (c <= d)%Z ->
    (ivl_test a b c d = true <-> exists x, (a <= x <= b)%Z /\ (c <= x <= d)%Z).
Proof. exact ivl_test_iff. Qed.
Print Assumptions C52_interval_test_is_overlap.

(* BBox covers every vertex, so two values sharing a vertex always pass the lookup's box test *)
Theorem C52_shared_vertex_passes_box_test :
  forall g q p bg bq, bbox_pts g = Some bg -> bbox_pts q = Some bq -> In p g -> In p q -> box_test bg bq = true.
Proof. exact shared_vertex_passes_box_test. Qed.
Print Assumptions C52_shared_vertex_passes_box_test.

(* spatial index lookup (box test, then the predicate that always stays in the plan) = predicate scan,
   for every predicate that implies overlapping boxes (the premise stands for the floating-point
   ST_Intersects / ST_Within / ST_Equals, which are not modelled) *)
Theorem C52_indexed_lookup_eq_scan_partial :
  forall (row : Type) (rbox : row -> Z * Z * Z * Z) (pred : row -> bool) (qbox : Z * Z * Z * Z),
    (forall r, pred r = true -> box_test (rbox r) qbox = true) ->
    forall rows, indexed_lookup row rbox pred qbox rows = filter pred rows.
Proof. exact indexed_lookup_eq_scan. Qed.
Print Assumptions C52_indexed_lookup_eq_scan_partial.

Example C52_nonvacuous :
  wf (SColl [SPoint (mkpt 1 2); SColl [SLine [mkpt 1 2; mkpt 3 4]]; SPoly [[mkpt 0 0; mkpt 1 0; mkpt 1 1; mkpt 0 0]]])
  /\ geom_from_wkb (as_wkb (4326%N, SMPoint [mkpt 7 9])) 4326 = Ok (4326%N, SMPoint [mkpt 7 9])
  /\ as_wkb (4326%N, SPoint (mkpt 1 2)) = [1; 1;0;0;0; 2;0;0;0;0;0;0;0; 1;0;0;0;0;0;0;0]%N.
Proof. exact nonvacuous_example. Qed.
Print Assumptions C52_nonvacuous.
