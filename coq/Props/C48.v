(* C48 — Guarded goroutines turn panics into errors (errguard/errguard.go: Go).
   Only statements, each closed by [exact], each followed by Print Assumptions.
   [beh] = what a function does (return nil / error, panic with a value whose %v text is given, Goexit, nested
   guarded group + Wait), for every nesting depth; [order] = the completion order of a group, universally
   quantified ([is_schedule]: any permutation of its members).  Go's defer/recover semantics is the definition
   [wrapper]/[recovered] in Sys/ErrGuard.v (an assumed reading of the language, see props/C48.json): _partial. *)
From Coq Require Import List NArith Bool Permutation.
Import ListNotations.
From GMS Require Import Sys.ErrGuard Sys.ErrGuardProofs.

(* no goroutine started through errguard.Go lets a panic reach its top (which would kill the process), whatever
   the function does and however deep it nests further guarded groups *)
Theorem C48_no_panic_escapes_partial :
  forall b g t, In g (goroutines b) -> guard_end g <> Crashed t.
Proof. exact goroutines_never_crash. Qed.
Print Assumptions C48_no_panic_escapes_partial.

(* ... whereas the same function in a plain goroutine would: the wrapper is what makes the difference *)
Theorem C48_unguarded_would_crash :
  forall b t, run_fn b = RPanic t -> unguarded (run_fn b) = Crashed t.
Proof. exact unguarded_crashes. Qed.
Print Assumptions C48_unguarded_would_crash.

(* an ordinary returned error (or nil) is handed to the group unchanged: the same value *)
Theorem C48_error_unchanged :
  forall b e, run_fn b = RRet e -> guard_end b = Normal e /\ guard b = e.
Proof. exact error_unchanged. Qed.
Print Assumptions C48_error_unchanged.

(* a panic with ANY value becomes the error "panic recovered: <%v of the value>\n<stack>" *)
Theorem C48_panic_becomes_error_with_value_in_message :
  forall b t, run_fn b = RPanic t ->
    guard_end b = Normal (Some (ERec t)) /\ guard b = Some (ERec t) /\
    forall stack, message stack (ERec t) = Some (s_prefix ++ t ++ [10%N] ++ stack).
Proof. exact panic_becomes_error. Qed.
Print Assumptions C48_panic_becomes_error_with_value_in_message.

(* Wait returns nil iff every member ended with nil (returned nil or Goexit), for every schedule *)
Theorem C48_wait_nil_iff_all_nil :
  forall order children, is_schedule order (length children) ->
    (group_wait order children = None <-> forall c, In c children -> guard c = None).
Proof. exact group_wait_nil_iff. Qed.
Print Assumptions C48_wait_nil_iff_all_nil.

(* Wait returns one of the members' errors: a member's own returned error as the same value, or the error minted
   for a member's panic — for every schedule (no hypothesis on [order] needed) *)
Theorem C48_wait_returns_one_of_the_errors :
  forall order children e, group_wait order children = Some e ->
    exists c, In c children /\
      ((run_fn c = RRet (Some e)) \/ (exists t, run_fn c = RPanic t /\ e = ERec t)).
Proof. exact group_wait_provenance. Qed.
Print Assumptions C48_wait_returns_one_of_the_errors.

(* Wait = the first non-nil error in completion order; whether it is nil does not depend on the schedule; and
   every member's error is returned under the schedule that completes it first *)
Theorem C48_wait_is_first_error_in_completion_order :
  forall order outs e,
    first_err order outs = Some e <->
    exists l1 i l2, order = l1 ++ i :: l2 /\ nth i outs None = Some e /\ forall j, In j l1 -> nth j outs None = None.
Proof. exact first_err_spec. Qed.
Print Assumptions C48_wait_is_first_error_in_completion_order.

Theorem C48_failure_is_schedule_independent :
  forall o1 o2 outs, is_schedule o1 (length outs) -> is_schedule o2 (length outs) ->
    (first_err o1 outs = None <-> first_err o2 outs = None).
Proof. exact nil_schedule_independent. Qed.
Print Assumptions C48_failure_is_schedule_independent.

Theorem C48_any_member_error_can_be_returned :
  forall outs i e, i < length outs -> nth i outs None = Some e ->
    exists order, is_schedule order (length outs) /\ first_err order outs = Some e.
Proof. exact any_error_can_win. Qed.
Print Assumptions C48_any_member_error_can_be_returned.

Example C48_nonvacuous :
  group_wait [2; 0; 1] [Ret (Some 7%N); Pan [98;111;111;109]%N; Nest [1; 0] [Ret None; Pan [120]%N] PReturnInner]
    = Some (ERec [120]%N)
  /\ group_wait [1; 2; 0] [Ret (Some 7%N); Pan [98;111;111;109]%N; Goexit] = Some (ERec [98;111;111;109]%N)
  /\ group_wait [0; 1; 2] [Ret (Some 7%N); Pan [98;111;111;109]%N; Goexit] = Some (EId 7%N)
  /\ group_wait [0; 1] [Ret None; Goexit] = None
  /\ unguarded (run_fn (Pan [120]%N)) = Crashed [120]%N
  /\ is_schedule [2; 0; 1] 3.
Proof. exact nonvacuous. Qed.
Print Assumptions C48_nonvacuous.
