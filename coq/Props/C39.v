(* C39 — Privilege checks allow exactly what the grants permit.
   Only statements, each closed by [exact], each followed by Print Assumptions.
   [holds ps f] reads the nested maps of a PrivilegeSet as a set of facts (FG p | FD db p | FT db tbl p);
   [covers f o] says that fact f grants the required (db, tbl, privilege) o. *)
From Coq Require Import List NArith Bool.
Import ListNotations.
From GMS Require Import Sys.Privs Sys.PrivsProofs Sys.PrivsUnion Sys.PrivsSim.
Open Scope N_scope.

(* UserHasPrivileges on an active set: allowed iff SUPER, or every requirement is covered by a held fact *)
Theorem C39_has_priv_iff :
  forall ps ops,
    set_has ps ops = true <->
    holds ps (FG SUPER) = true \/ forall o, In o ops -> exists f, holds ps f = true /\ covers f o = true.
Proof. exact set_has_iff. Qed.
Print Assumptions C39_has_priv_iff.

(* GRANT adds exactly the named fact, at every level *)
Theorem C39_grant_adds_fact :
  forall l p ps f,
    holds (add_at l p ps) f =
      fact_eqb f (match l with LG => FG p | LD d => FD d p | LT d t => FT d t p end) || holds ps f.
Proof. exact add_at_facts. Qed.
Print Assumptions C39_grant_adds_fact.

(* REVOKE removes exactly the named fact at the global and table levels *)
Theorem C39_revoke_removes_exactly_global : forall p ps f, holds (rem_global p ps) f = negb (fact_eqb f (FG p)) && holds ps f.
Proof. exact rem_global_facts. Qed.
Print Assumptions C39_revoke_removes_exactly_global.

Theorem C39_revoke_removes_exactly_table :
  forall d t p ps f, holds (rem_tbl d t p ps) f = negb (fact_eqb f (FT d t p)) && holds ps f.
Proof. exact rem_tbl_facts. Qed.
Print Assumptions C39_revoke_removes_exactly_table.

(* at the database level the code as it is does NOT remove exactly the named fact: when no database-level privilege
   remains, RemoveDatabase deletes the whole database entry and with it every table-level grant of that database *)
Theorem C39_revoke_removes_exactly_database_refuted :
  exists ps d p f, fact_eqb f (FD d p) = false /\ holds ps f = true /\ holds (rem_db d p ps) f = false.
Proof. exact rem_db_removes_exactly_refuted. Qed.
Print Assumptions C39_revoke_removes_exactly_database_refuted.

(* full characterisation of the database-level REVOKE, and the guarded exactness *)
Theorem C39_revoke_database_characterised :
  forall d p ps f,
    holds (rem_db d p ps) f =
      if db_keeps_entry ps d p then negb (fact_eqb f (FD d p)) && holds ps f
      else negb (on_db d f) && holds ps f.
Proof. exact rem_db_facts. Qed.
Print Assumptions C39_revoke_database_characterised.

Theorem C39_revoke_removes_exactly_database_guarded :
  forall d p ps f, db_keeps_entry ps d p = true ->
    holds (rem_db d p ps) f = negb (fact_eqb f (FD d p)) && holds ps f.
Proof. exact rem_db_exact_when_guarded. Qed.
Print Assumptions C39_revoke_removes_exactly_database_guarded.

(* REVOKE ALL ON db.* deletes every fact of the database (table grants included), ON *.* only the global ones *)
Theorem C39_revoke_all_database : forall d ps f, holds (clear_db d ps) f = negb (on_db d f) && holds ps f.
Proof. exact clear_db_facts. Qed.
Print Assumptions C39_revoke_all_database.

Theorem C39_revoke_all_global : forall ps f, holds (clear_global ps) f = match f with FG _ => false | _ => holds ps f end.
Proof. exact clear_global_facts. Qed.
Print Assumptions C39_revoke_all_global.

(* whole statements on the account table, for every state (hence after every history): GRANT adds the listed facts to
   the grantee only; REVOKE at the global / table level removes exactly the listed facts from that account only *)
Theorem C39_grant_statement :
  forall s u l qs v f,
    holds (privs_of (exec s (SGrant u l qs)) v) f =
      (seqb v u && has_user s u &&
       existsb (fun p => fact_eqb f (match l with LG => FG p | LD d => FD d p | LT d t => FT d t p end)) qs)
      || holds (privs_of s v) f.
Proof. exact exec_grant_facts. Qed.
Print Assumptions C39_grant_statement.

Theorem C39_revoke_statement_global_or_table :
  forall s u l qs v f, (match l with LD _ => False | _ => True end) ->
    holds (privs_of (exec s (SRevoke u l qs)) v) f =
      negb (seqb v u && has_user s u &&
            existsb (fun p => fact_eqb f (match l with LG => FG p | LD d => FD d p | LT d t => FT d t p end)) qs)
      && holds (privs_of s v) f.
Proof. exact exec_revoke_facts_exact. Qed.
Print Assumptions C39_revoke_statement_global_or_table.

(* end to end: a history after which a statement is allowed, and a REVOKE of an unrelated database-level privilege
   (one that covers none of the statement's requirements) after which it is denied *)
Theorem C39_revoke_removes_exactly_refuted :
  exists h u ops,
    allowed (run init h) u ops = true /\
    allowed (run init (h ++ [SRevoke u (LD [100;98]) [1]])) u ops = false /\
    (forall o, In o ops -> covers (FD [100;98] 1) o = false).
Proof. exact revoke_removes_exactly_refuted. Qed.
Print Assumptions C39_revoke_removes_exactly_refuted.

(* UnionWith (user set united with a role's set) reads as the union of the facts, for every well-formed role set
   (unique map keys: an invariant of every history, C39_wellformed_after_every_history) *)
Theorem C39_union_with_facts :
  forall a b f, wf_ps b = true -> holds (union_with a b) f = holds a f || holds b f.
Proof. exact union_with_facts. Qed.
Print Assumptions C39_union_with_facts.

Theorem C39_wellformed_after_every_history : forall h, state_wf (run init h).
Proof. intros h. apply run_wf. exact init_wf. Qed.
Print Assumptions C39_wellformed_after_every_history.

(* allow/deny for EVERY account, with or without roles, after EVERY history: allowed iff the account exists and SUPER is
   held by it or by a role granted to it, or every requirement is covered by a fact held by it or by such a role
   (every granted role is active: there is no SET ROLE at this pin) *)
Theorem C39_allowed_iff :
  forall h u ops,
    let s := run init h in
    allowed s u ops = true <->
    has_user s u = true /\
    ((holds (privs_of s u) (FG SUPER) || role_gives s u (FG SUPER)) = true \/
     forall o, In o ops -> exists f, (holds (privs_of s u) f || role_gives s u f) = true /\ covers f o = true).
Proof. exact allowed_iff_after_history. Qed.
Print Assumptions C39_allowed_iff.

(* ONE simulation theorem over whole histories: the fact machine keeps a plain list of facts per account (GRANT conses
   the named fact, REVOKE filters it out, REVOKE ALL filters a level, DROP removes the account and its edges, roles are
   edges) and decides by coverage; the model of the code decides identically after every history *)
Theorem C39_history_simulation :
  forall h u ops, allowed (run init h) u ops = aallowed (arun ainit h) u ops.
Proof. exact history_simulation. Qed.
Print Assumptions C39_history_simulation.

(* the fact machine is the textbook one ("grant adds exactly, revoke removes exactly") except for the documented
   database-level REVOKE that leaves no database-level fact of that database *)
Theorem C39_fact_machine_grant_exact : forall l p fs f, amem f (a_add l p fs) = fact_eqb f (fact_at l p) || amem f fs.
Proof. exact a_add_exact. Qed.
Print Assumptions C39_fact_machine_grant_exact.

Theorem C39_fact_machine_revoke_exact :
  forall l p fs f,
    (match l with LD d => existsb (is_fd d) (filter (fun g => negb (fact_eqb g (fact_at l p))) fs) = true | _ => True end) ->
    amem f (a_rem l p fs) = negb (fact_eqb f (fact_at l p)) && amem f fs.
Proof. exact a_rem_exact. Qed.
Print Assumptions C39_fact_machine_revoke_exact.

Theorem C39_dropped_account_denied : forall s u ops, allowed (exec s (SDrop u)) u ops = false.
Proof. exact dropped_account_denied. Qed.
Print Assumptions C39_dropped_account_denied.

Example C39_nonvacuous :
  let h := [SCreate [117]; SCreate [114]; SGrant [114] (LD [100;98]) [0;3]; SGrantRole [114] [117]] in
  allowed (run init h) [117] [([100;98], [116], 0)] = true /\
  allowed (run init h) [117] [([100;98], [116], 1)] = false /\
  allowed (run init (h ++ [SRevokeRole [114] [117]])) [117] [([100;98], [116], 0)] = false.
Proof. vm_compute. auto. Qed.
