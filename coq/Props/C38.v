(* C38 — Named locks give mutual exclusion and are linearizable.
   Model: Sys/Locks.v.  [cstep] is the small-step interleaving semantics of sql/lock_subsystem.go split at
   every map access under the RW mutex, atomic.LoadPointer, CompareAndSwapPointer and session-set update;
   [astep] is the atomic specification (per name: NotExist / Free / Held owner count).  Any number of
   threads (one per session id <> 0) and names; [cexec]/[aexec] collect the invocation/response history.
   Only statements, each closed by [exact], each followed by Print Assumptions. *)
From Coq Require Import List NArith ZArith.
Import ListNotations.
From GMS Require Import Sys.Locks Sys.LocksProofs Sys.C38Cover Sys.C38Sql.
Open Scope N_scope.

(* one concrete step is matched by zero or more atomic specification steps with the same visible label,
   preserving the simulation relation R (abstraction of the pointer cells + per-thread progress) *)
Theorem C38_forward_simulation_step :
  forall s a l s', R s a -> cstep s l s' -> exists a', aexec a (obs l) a' /\ R s' a'.
Proof. exact sim_step. Qed.
Print Assumptions C38_forward_simulation_step.

(* linearizability: for EVERY interleaving of any number of sessions, the invocation/response history of
   the CAS protocol is a history of the atomic specification (in which each TryLock / Lock / Unlock /
   GetLockState takes effect in one step between its invocation and its response), and the abstraction of the
   final pointer cells is the specification's final lock table.
   _partial: in the specification, as in the code, ReleaseAll is a SEQUENCE of atomic per-name releases and
   the creation of a lock entry by TryLock/Lock is a separate atomic step; ReleaseAll as one atomic
   "release everything" is not claimed (another session can see some names released and others not yet). *)
Theorem C38_linearizable_partial :
  forall tr s, cexec cinit tr s ->
  exists a, aexec ainit tr a /\ (forall n, abs_cell (lk s n) = al a n).
Proof. exact linearizable. Qed.
Print Assumptions C38_linearizable_partial.

(* mutual exclusion: the specification's lock table gives each name at most one holder, and while t1 holds a
   name another session cannot acquire it, cannot release it (error, no effect; ReleaseAll skips it) and
   IS_USED/IS_FREE (GetLockState) report t1 *)
Theorem C38_mutual_exclusion :
  forall t1 t2 c, t1 <> t2 ->
  acquire t2 (LHeld t1 c) = None /\ held_by_other t2 (LHeld t1 c) = true /\
  release t2 (LHeld t1 c) = (LHeld t1 c, RNotOwned) /\
  release_all1 t2 (LHeld t1 c) = (LHeld t1 c, 0) /\
  state_of (LHeld t1 c) = RState 1 t1.
Proof. exact spec_exclusion. Qed.
Print Assumptions C38_mutual_exclusion.

(* a lock held by t1 is changed only by steps of t1 itself *)
Theorem C38_held_lock_changed_only_by_holder :
  forall a l a' n t1 c, astep a l a' -> al a n = LHeld t1 c ->
  al a' n = LHeld t1 c \/ (forall t2, t2 <> t1 -> apcs a' t2 = apcs a t2).
Proof. exact held_lock_changed_only_by_holder. Qed.
Print Assumptions C38_held_lock_changed_only_by_holder.

(* GET_LOCK is re-entrant: k+1 acquisitions by the holder need k+1 releases *)
Theorem C38_reentrant_count :
  forall t k, exists l, acquire_n t (S k) LFree = Some l /\ release_n t (S k) l = LFree /\
    forall j, (j <= k)%nat -> exists c, release_n t j l = LHeld t c /\ 0 < c.
Proof. exact reentrant_count. Qed.
Print Assumptions C38_reentrant_count.

(* a waiting Lock reports a timeout only after it has seen the lock held by another session *)
Theorem C38_timeout_only_after_busy :
  forall a l a' t, astep a l a' -> apcs a' t = ADone RTimeout -> apcs a t <> ADone RTimeout ->
  exists n, apcs a t = ABusy n.
Proof. exact timeout_only_after_busy. Qed.
Print Assumptions C38_timeout_only_after_busy.

(* the executable sequential specification used by the correspondence (Corr/C38.v seq_step) is a run of the
   atomic specification: from "t has invoked o" the specification reaches "t is done with seq_step's result" by
   internal steps only, with seq_step's lock table, without touching other threads *)
Theorem C38_sequential_spec_refines_atomic_spec :
  forall t o names s a, apcs a t = APend o -> agrees s a ->
  exists a', aexec a [] a' /\ apcs a' t = ADone (snd (seq_step t o names s)) /\
             agrees (fst (seq_step t o names s)) a' /\ (forall t', t' <> t -> apcs a' t' = apcs a t').
Proof. exact seq_step_refines. Qed.
Print Assumptions C38_sequential_spec_refines_atomic_spec.

(* ReleaseAll covers every held lock, for EVERY interleaving: an idle session's lock set (the list ReleaseAll's loop
   runs over, start_pc) contains every name whose cell it owns; while the loop runs every lock still held is still to
   be visited; and when ReleaseAll is about to return the session holds nothing.  (ReleaseAll never calls DelLock,
   so the set may also contain stale names: they are skipped because their owner is someone else.) *)
Theorem C38_idle_session_set_covers_held_locks :
  forall tr s t n id c, cexec cinit tr s -> t <> 0 -> pcs s t = PIdle -> lk s n = Some (id, t, c) -> In n (sset s t).
Proof. exact idle_session_set_covers_held_locks. Qed.
Print Assumptions C38_idle_session_set_covers_held_locks.

Theorem C38_release_all_todo_covers_held_locks :
  forall tr s t todo k n id c, cexec cinit tr s -> t <> 0 -> pcs s t = PRIter todo k ->
  lk s n = Some (id, t, c) -> In n todo.
Proof. exact release_all_todo_covers_held_locks. Qed.
Print Assumptions C38_release_all_todo_covers_held_locks.

Theorem C38_release_all_leaves_nothing_held :
  forall tr s t k n id c, cexec cinit tr s -> t <> 0 -> pcs s t = PRet (RCount k) -> lk s n <> Some (id, t, c).
Proof. exact release_all_leaves_nothing_held. Qed.
Print Assumptions C38_release_all_leaves_nothing_held.

(* ---- the SQL layer (sql/expression/function/locks.go, release on disconnect) over the atomic specification ---- *)

(* GET_LOCK(name, timeout) returns 1 exactly when the lock is free (or missing) or already held by the caller, and
   then it is held by the caller with the count bumped; otherwise 0 (no return at all for a negative timeout) and
   no lock changes *)
Theorem C38_sql_get_lock_value :
  forall t n tmo names s,
  (forall l', acquire t (seen s n) = Some l' ->
     snd (sql_step t (SGet n tmo) names s) = Some (VInt 1) /\ sget (fst (sql_step t (SGet n tmo) names s)) n = l') /\
  (acquire t (seen s n) = None ->
     snd (sql_step t (SGet n tmo) names s) = (if Z.ltb tmo 0 then None else Some (VInt 0)) /\
     sget (fst (sql_step t (SGet n tmo) names s)) n = seen s n) /\
  (forall m, m <> n -> sget (fst (sql_step t (SGet n tmo) names s)) m = sget s m).
Proof. exact get_lock_value. Qed.
Print Assumptions C38_sql_get_lock_value.

(* RELEASE_LOCK: NULL for a lock that does not exist, 0 for a free lock or another session's lock (no effect),
   1 for the caller's lock, which loses one count *)
Theorem C38_sql_release_lock_value :
  forall t n names s,
  snd (sql_step t (SRel n) names s) =
    Some (match sget s n with
          | LNone => VNull
          | LFree => VInt 0
          | LHeld t' _ => if N.eqb t' t then VInt 1 else VInt 0
          end) /\
  sget (fst (sql_step t (SRel n) names s)) n = fst (release t (sget s n)) /\
  (forall m, m <> n -> sget (fst (sql_step t (SRel n) names s)) m = sget s m).
Proof. exact release_lock_value. Qed.
Print Assumptions C38_sql_release_lock_value.

(* IS_FREE_LOCK is 0 exactly when somebody holds the lock; IS_USED_LOCK is the holder's connection id, else NULL *)
Theorem C38_sql_is_free_is_used_value :
  forall t n names s,
  snd (sql_step t (SIsFree n) names s) = Some (match holder (sget s n) with Some _ => VInt 0 | None => VInt 1 end) /\
  snd (sql_step t (SIsUsed n) names s) = Some (match holder (sget s n) with Some o => VInt o | None => VNull end) /\
  fst (sql_step t (SIsFree n) names s) = s /\ fst (sql_step t (SIsUsed n) names s) = s.
Proof. exact is_free_is_used_value. Qed.
Print Assumptions C38_sql_is_free_is_used_value.

(* RELEASE_ALL_LOCKS returns the number of names the session holds *)
Theorem C38_sql_release_all_locks_value :
  forall t names s, NoDup names ->
  snd (sql_step t SRelAll names s) = Some (VInt (N.of_nat (length (filter (fun m => held_by t (sget s m)) names)))).
Proof. exact release_all_locks_value. Qed.
Print Assumptions C38_sql_release_all_locks_value.

(* RELEASE_ALL_LOCKS and disconnect free exactly the session's locks (the name list covers them by
   C38_idle_session_set_covers_held_locks); every other lock keeps holder and count *)
Theorem C38_sql_disconnect_frees_exactly_own_locks :
  forall t names s o, o = SRelAll \/ o = SDisconnect ->
  (forall m, held_by t (sget s m) = true -> In m names) ->
  forall m, sget (fst (sql_step t o names s)) m = if held_by t (sget s m) then LFree else sget s m.
Proof. exact disconnect_frees_exactly_own_locks. Qed.
Print Assumptions C38_sql_disconnect_frees_exactly_own_locks.

(* re-entrancy through SQL: k+1 GET_LOCKs all return 1; after j <= k RELEASE_LOCKs IS_USED_LOCK still reports the
   session; k+1 RELEASE_LOCKs all return 1 and then IS_FREE_LOCK is 1 *)
Theorem C38_sql_reentrant_count :
  forall t n tmo k s, seen s n = LFree ->
  let g := sql_iter t (SGet n tmo) (S k) s in
  snd g = repeat (Some (VInt 1)) (S k) /\
  (forall j, (j <= k)%nat ->
     snd (sql_step t (SIsUsed n) [] (fst (sql_iter t (SRel n) j (fst g)))) = Some (VInt t)) /\
  let r := sql_iter t (SRel n) (S k) (fst g) in
  snd r = repeat (Some (VInt 1)) (S k) /\ snd (sql_step t (SIsFree n) [] (fst r)) = Some (VInt 1).
Proof. exact sql_reentrant_count. Qed.
Print Assumptions C38_sql_reentrant_count.

(* non-vacuity: two sessions race for the same new name; one CAS wins, the other fails and re-reads *)
Example C38_nonvacuous :
  exists s, cexec cinit contended_history s /\ owner_of s 5 = Some 1 /\ sset s 1 = [5] /\ sset s 2 = [].
Proof. exact contended_execution. Qed.
Print Assumptions C38_nonvacuous.
