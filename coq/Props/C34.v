(* C34 -- Built-in scalar functions satisfy their defining identities.
   Only statements, each closed by [exact], each followed by Print Assumptions.
   Models: Sys/C34Funcs.v (mirrors sql/expression/function/*.go); strings are lists of code points, the
   byte-based Go functions work on [utf8 s].  [fits t] (length below 2^62) holds of every Go slice. *)
From Coq Require Import List NArith ZArith Bool.
Import ListNotations.
From GMS Require Import Sys.C34Funcs Sys.C34FuncsProofs Sys.C34InverseProofs Sys.C34More Sys.C34MoreProofs.
Open Scope Z_scope.

(* CHAR_LENGTH (and LENGTH) of a concatenation is the sum of the lengths *)
Theorem C34_char_length_concat : forall a b : list N,
  exists c, concat [Some a; Some b] = Val c /\
            char_length (Some c) = Val (len a + len b) /\
            byte_length (Some c) = Val (len (utf8 a) + len (utf8 b)).
Proof. exact char_length_concat. Qed.
Print Assumptions C34_char_length_concat.

(* NULL propagation of CONCAT: any NULL argument gives NULL, and only then *)
Theorem C34_concat_null_propagation : forall (A : Type) (a b : option (list A)),
  match concat [a; b] with
  | Val c => exists x y, a = Some x /\ b = Some y /\ c = x ++ y /\ len c = len x + len y
  | Null => a = None \/ b = None
  | _ => False
  end.
Proof. exact @concat2. Qed.
Print Assumptions C34_concat_null_propagation.

Theorem C34_concat_any_null : forall (A : Type) (args : list (option (list A))), In None args -> concat args = Null.
Proof. exact @concat_null. Qed.
Print Assumptions C34_concat_any_null.

(* REVERSE is an involution and keeps the length *)
Theorem C34_reverse_involutive : forall (A : Type) (s : list A),
  exists r, reverse (Some s) = Val r /\ reverse (Some r) = Val s /\ len r = len s.
Proof. exact @reverse_involutive. Qed.
Print Assumptions C34_reverse_involutive.

Theorem C34_repeat_length : forall (A : Type) (t : list A) n,
  0 <= n -> exists r, repeat (Some t) (Some n) = Val r /\ len r = n * len t.
Proof. exact @repeat_length. Qed.
Print Assumptions C34_repeat_length.

(* SUBSTRING(s, start, l): no panic and exactly the requested piece, PROVIDED start-index + l stays below 2^63 *)
Theorem C34_substring_spec : forall (A : Type) (t : list A) start l,
  fits t -> in64 start -> in64 l ->
  let idx := if start <? 0 then len t + start else start - 1 in
  idx + l < 2^63 ->
  substring_core t start (Some l) =
    if (idx <? 0) || (len t <=? idx) || (l <=? 0) then Val []
    else Val (take (Z.min l (len t - idx)) (drop idx t)).
Proof. exact @substring_spec. Qed.
Print Assumptions C34_substring_spec.

(* without that guard the statement is false of the code: int64 overflow, then a slice panic *)
Theorem C34_substring_never_panics_refuted :
  exists (t : list N) start l, in64 start /\ in64 l /\ substring_core t start (Some l) = Panic.
Proof. exact substring_overflow_panics. Qed.
Print Assumptions C34_substring_never_panics_refuted.

(* LEFT / RIGHT / SUBSTRING are mutually consistent, for all lengths in int64 *)
Theorem C34_left_is_substring : forall (A : Type) (t : list A) n,
  fits t -> in64 n -> substring_core t 1 (Some n) = Val (left_core t n).
Proof. exact @left_is_substring. Qed.
Print Assumptions C34_left_is_substring.

Theorem C34_left_substring_split : forall (A : Type) (t : list A) n,
  fits t -> 0 <= n < 2^63 - 1 ->
  exists r, substring_core t (n + 1) None = Val r /\ left_core t n ++ r = t.
Proof. exact @left_split. Qed.
Print Assumptions C34_left_substring_split.

Theorem C34_right_is_substring : forall (A : Type) (t : list A) n,
  fits t -> 0 < n <= len t -> substring_core t (- n) None = Val (right_core t n).
Proof. exact @right_is_substring. Qed.
Print Assumptions C34_right_is_substring.

(* INSTR finds the first occurrence (code points, exact comparison) *)
Theorem C34_instr_finds_first : forall s sub : list N,
  exists p, instr (Some s) (Some sub) = Val p /\
    ((p = 0 /\ forall j, 0 <= j <= len s -> is_prefix N.eqb sub (drop j s) = false) \/
     (1 <= p <= len s + 1 /\ is_prefix N.eqb sub (drop (p - 1) s) = true /\
      forall j, 0 <= j < p - 1 -> is_prefix N.eqb sub (drop j s) = false)).
Proof. exact instr_finds_first. Qed.
Print Assumptions C34_instr_finds_first.

(* LOCATE finds the first case-folded occurrence at or after pos -- on ASCII strings *)
Theorem C34_locate_finds_first_ascii : forall (sub s : list N) pos,
  ascii sub -> ascii s -> 1 <= pos <= len s -> sub <> [] ->
  let ls := to_lower s in let lsub := to_lower sub in
  exists p, locate_core sub s pos = Val p /\
    ((p = 0 /\ forall j, pos - 1 <= j <= len s -> is_prefix N.eqb lsub (drop j ls) = false) \/
     (pos <= p <= len s + 1 /\ is_prefix N.eqb lsub (drop (p - 1) ls) = true /\
      forall j, pos - 1 <= j < p - 1 -> is_prefix N.eqb lsub (drop j ls) = false)).
Proof. exact locate_finds_first_ascii. Qed.
Print Assumptions C34_locate_finds_first_ascii.

(* on multi-byte strings LOCATE answers in bytes and disagrees with INSTR / SUBSTRING positions *)
Theorem C34_locate_is_character_position_refuted :
  exists sub s, locate_core sub s 1 = Val 3 /\ instr (Some s) (Some sub) = Val 2.
Proof. exact locate_multibyte_byte_position. Qed.
Print Assumptions C34_locate_is_character_position_refuted.

Theorem C34_locate_never_panics_refuted : exists sub s pos, 1 <= pos < 2^31 /\ locate_core sub s pos = Panic.
Proof. exact locate_panics. Qed.
Print Assumptions C34_locate_never_panics_refuted.

(* INSERT(s,p,l,n) = LEFT(s,p-1) || n || SUBSTRING(s,p+l) in the units the code uses (bytes), no overflow *)
Theorem C34_insert_spec : forall (A : Type) (s n : list A) p l,
  fits s -> 1 <= p <= len s -> 0 <= l -> p - 1 + l < 2^63 ->
  insert_core s p l n = Val (take (p - 1) s ++ n ++ drop (p - 1 + l) s).
Proof. exact @insert_spec. Qed.
Print Assumptions C34_insert_spec.

Theorem C34_insert_outside_is_identity : forall (A : Type) (s n : list A) p l,
  p < 1 \/ len s < p -> insert_core s p l n = Val s.
Proof. exact @insert_outside_is_identity. Qed.
Print Assumptions C34_insert_outside_is_identity.

(* in characters the identity is false of the code, and a huge length panics *)
Theorem C34_insert_in_characters_refuted :
  exists s p l n, insert (Some s) (Some p) (Some l) (Some n) <> Val (utf8 (take (p - 1) s ++ n ++ drop (p - 1 + l) s)).
Proof. exact insert_multibyte_byte_offsets. Qed.
Print Assumptions C34_insert_in_characters_refuted.

Theorem C34_insert_never_panics_refuted :
  exists (s n : list N) p l, in64 p /\ in64 l /\ insert_core s p l n = Panic.
Proof. exact insert_panics. Qed.
Print Assumptions C34_insert_never_panics_refuted.

(* LPAD / RPAD: the result has exactly the requested length and keeps the string (in the code's units) *)
Theorem C34_lpad_rpad_length : forall (A : Type) lp (s p : list A) n,
  0 <= n -> (n <= len s \/ p <> []) -> len (pad_core lp s n p) = n.
Proof. exact @pad_length. Qed.
Print Assumptions C34_lpad_rpad_length.

Theorem C34_lpad_keeps_string : forall (A : Type) (s p : list A) n,
  len s <= n -> p <> [] -> exists q, pad_core true s n p = q ++ s /\ len q = n - len s.
Proof. exact @lpad_keeps_string. Qed.
Print Assumptions C34_lpad_keeps_string.

Theorem C34_rpad_keeps_string : forall (A : Type) (s p : list A) n,
  len s <= n -> p <> [] -> exists q, pad_core false s n p = s ++ q /\ len q = n - len s.
Proof. exact @rpad_keeps_string. Qed.
Print Assumptions C34_rpad_keeps_string.

Theorem C34_lpad_character_length_refuted :
  exists s n p, pad true (Some s) (Some n) (Some p) = Val [195]%N /\ n = 1 /\ char_length (Some s) = Val 1.
Proof. exact pad_multibyte_byte_length. Qed.
Print Assumptions C34_lpad_character_length_refuted.

(* UNHEX inverts HEX on every byte string *)
Theorem C34_unhex_hex : forall bs, is_bytes bs -> unhex_bytes (hex_bytes bs) = Some bs.
Proof. exact unhex_hex. Qed.
Print Assumptions C34_unhex_hex.

(* ROUND on DECIMAL: within half a unit of the last kept place (d >= 0, and d < 0) *)
Theorem C34_round_within_half_unit : forall m s prec,
  0 <= s -> 0 <= prec ->
  let '(m', s') := quantize div_half_away m s prec in
  s' = prec /\ 2 * Z.abs (m' * 10 ^ s - m * 10 ^ prec) <= 10 ^ s.
Proof. exact round_within_half_unit_pos. Qed.
Print Assumptions C34_round_within_half_unit.

Theorem C34_round_negative_places : forall m s prec,
  0 <= s -> prec < 0 ->
  let '(m', s') := quantize div_half_away m s prec in
  s' = 0 /\ 2 * Z.abs (m' * 10 ^ s - m) <= 10 ^ (s - prec) /\ m' mod 10 ^ (- prec) = 0.
Proof. exact round_within_half_unit_neg. Qed.
Print Assumptions C34_round_negative_places.

Theorem C34_round_int_identity : forall k n d,
  k <> KDecimal -> 0 <= d -> clamp_kind k n = n ->
  round_num k (Some (n, 0)) (Some (Some d)) = Val (n, 0).
Proof. exact round_int_identity. Qed.
Print Assumptions C34_round_int_identity.

(* TRUNCATE goes toward zero and stays within one unit *)
Theorem C34_truncate_toward_zero : forall m P,
  0 < P -> let q := Z.quot m P in
  Z.abs (m - q * P) < P /\ Z.abs (q * P) <= Z.abs m /\ (0 <= m -> 0 <= q) /\ (m <= 0 -> q <= 0).
Proof. exact truncate_toward_zero. Qed.
Print Assumptions C34_truncate_toward_zero.

(* CEIL / FLOOR of a decimal bracket the argument -- when the coefficient has at least as many digits as
   the scale and the result fits BIGINT *)
Theorem C34_ceil_floor_bracket : forall m s,
  0 <= s -> 10 ^ (s - 1) <= Z.abs m ->
  - 2^63 <= floor_div m (10 ^ s) -> ceil_div m (10 ^ s) < 2^63 ->
  exists c f, ceil_num KDecimal (Some (m, s)) = Val c /\ floor_num KDecimal (Some (m, s)) = Val f /\
              f * 10 ^ s <= m < (f + 1) * 10 ^ s /\ (c - 1) * 10 ^ s < m <= c * 10 ^ s.
Proof. exact ceil_floor_decimal. Qed.
Print Assumptions C34_ceil_floor_bracket.

(* both guards are needed: CEIL(0.075) = 0, FLOOR(-0.015) = 0, CEIL(12345678901234567890.5) = 2^63-1 *)
Theorem C34_ceil_small_fraction_refuted :
  ceil_num KDecimal (Some (75, 3)) = Val 0 /\ floor_num KDecimal (Some (-15, 3)) = Val 0.
Proof. exact ceil_small_fraction_is_zero. Qed.
Print Assumptions C34_ceil_small_fraction_refuted.

Theorem C34_ceil_beyond_bigint_refuted :
  ceil_num KDecimal (Some (123456789012345678905, 1)) = Val (2^63 - 1).
Proof. exact ceil_saturates. Qed.
Print Assumptions C34_ceil_beyond_bigint_refuted.

(* INET_NTOA saturates at 2^31-1, so it does not invert INET_ATON on addresses from 128.0.0.0 up *)
Theorem C34_inet_ntoa_injective_refuted : inet_ntoa (Some 3232235777) = inet_ntoa (Some 2147483647).
Proof. exact inet_ntoa_saturates. Qed.
Print Assumptions C34_inet_ntoa_injective_refuted.

(* FROM_BASE64 inverts TO_BASE64 on every byte string, including the 76-column line wrapping *)
Theorem C34_from_to_base64 : forall bs, is_bytes bs -> from_base64_bytes (to_base64_bytes bs) = Some bs.
Proof. exact from_to_base64. Qed.
Print Assumptions C34_from_to_base64.

(* CONV between any two bases 2..36 is exact on every 64-bit number, hence CONV(CONV(n,a,b),b,a) = n *)
Theorem C34_conv_correct : forall a b n, 2 <= a <= 36 -> 2 <= b <= 36 -> 0 <= n < 2 ^ 64 ->
  conv (Some (fmt_uint a n)) (Some a) (Some b) = Val (fmt_uint b n).
Proof. exact conv_correct. Qed.
Print Assumptions C34_conv_correct.

Theorem C34_conv_roundtrip : forall a b n, 2 <= a <= 36 -> 2 <= b <= 36 -> 0 <= n < 2 ^ 64 ->
  exists x, conv (Some (fmt_uint a n)) (Some a) (Some b) = Val x /\
            conv (Some x) (Some b) (Some a) = Val (fmt_uint a n).
Proof. exact conv_roundtrip. Qed.
Print Assumptions C34_conv_roundtrip.

(* INET_ATON reads every dotted quad (all 2^32 addresses); with INET_NTOA it forms an inverse pair in both
   directions below 2^31, the guard that excludes the saturation finding *)
Theorem C34_inet_aton_dotted : forall u, 0 <= u < 2 ^ 32 -> inet_aton_str (dotted u) = Some u.
Proof. exact inet_aton_dotted. Qed.
Print Assumptions C34_inet_aton_dotted.

Theorem C34_inet_aton_ntoa : forall n, 0 <= n < 2 ^ 31 ->
  exists s, inet_ntoa (Some n) = Val s /\ inet_aton (Some s) = Val n.
Proof. exact inet_roundtrip. Qed.
Print Assumptions C34_inet_aton_ntoa.

Theorem C34_inet_ntoa_aton : forall u, 0 <= u < 2 ^ 31 ->
  exists n, inet_aton (Some (dotted u)) = Val n /\ inet_ntoa (Some n) = Val (dotted u).
Proof. exact inet_ntoa_aton. Qed.
Print Assumptions C34_inet_ntoa_aton.

(* two-argument LOCATE on arbitrary (multi-byte) strings: the first byte offset of the lower-cased substring *)
Theorem C34_locate_first_byte_occurrence : forall sub s : list N,
  utf8 s <> [] ->
  let bs := utf8 (to_lower s) in let bsub := utf8 (to_lower sub) in
  exists p, locate_core sub s 1 = Val p /\
    ((p = 0 /\ forall j, 0 <= j <= len bs -> is_prefix N.eqb bsub (drop j bs) = false) \/
     (1 <= p <= len bs + 1 /\ is_prefix N.eqb bsub (drop (p - 1) bs) = true /\
      forall j, 0 <= j < p - 1 -> is_prefix N.eqb bsub (drop j bs) = false)).
Proof. exact locate_first_byte_occurrence. Qed.
Print Assumptions C34_locate_first_byte_occurrence.

(* ---------------- further functions (Sys/C34More.v) ---------------- *)
(* TRIM(s) = RTRIM(LTRIM(s)) = LTRIM(RTRIM(s)); TRIM(LEADING ' ') = LTRIM; TRIM(TRAILING ' ') = RTRIM *)
Theorem C34_trim_is_ltrim_rtrim : forall s,
  trim_core 0 [32%N] s = rtrim_sp (ltrim_sp s) /\ trim_core 0 [32%N] s = ltrim_sp (rtrim_sp s) /\
  trim_core 1 [32%N] s = ltrim_sp s /\ trim_core 2 [32%N] s = rtrim_sp s.
Proof. exact trim_is_ltrim_rtrim. Qed.
Print Assumptions C34_trim_is_ltrim_rtrim.

(* TRIM(LEADING pat FROM s) removes a whole number of copies of pat and what is left does not start with pat *)
Theorem C34_trim_leading_spec : forall pat s, pat <> [] ->
  exists k, s = repeat_list pat k ++ trim_core 1 pat s /\ is_prefix N.eqb pat (trim_core 1 pat s) = false.
Proof. exact trim_leading_spec. Qed.
Print Assumptions C34_trim_leading_spec.

Theorem C34_trim_null_propagation : forall dir (pat s : option (list N)), trim dir pat s = Null <-> pat = None \/ s = None.
Proof. exact trim_null_propagation. Qed.
Print Assumptions C34_trim_null_propagation.

(* REPLACE(s,a,a) = s, REPLACE(s,'',b) = s, and the length law *)
Theorem C34_replace_identity : forall s a b, replace_core s a a = s /\ replace_core s [] b = s.
Proof. exact replace_identity. Qed.
Print Assumptions C34_replace_identity.

Theorem C34_replace_length_law : forall s a b, a <> [] ->
  len (replace_core s a b) = len s + count_fuel (S (length s)) a s * (len b - len a).
Proof. exact replace_length_law. Qed.
Print Assumptions C34_replace_length_law.

Theorem C34_replace_null_propagation : forall s a b : option (list N),
  replace s a b = Null <-> s = None \/ a = None \/ b = None.
Proof. exact replace_null_propagation. Qed.
Print Assumptions C34_replace_null_propagation.

(* LOWER is idempotent, LOWER(UPPER(s)) = LOWER(s), both keep CHAR_LENGTH (code points below 400) *)
Theorem C34_lower_upper_laws : forall s : list N, Forall (fun c => (c < 400)%N) s ->
  map lower2 (map lower2 s) = map lower2 s /\ map lower2 (map upper2 s) = map lower2 s /\
  len (map lower2 s) = len s /\ len (map upper2 s) = len s.
Proof. exact lower_upper_laws. Qed.
Print Assumptions C34_lower_upper_laws.

(* CONV(HEX(n),16,10) = n and CONV(BIN(n),2,10) = n for non-negative BIGINT n; HEX of a negative n is its 64-bit
   two's complement; BIN of a negative n is not (refuted) *)
Theorem C34_hex_bin_of_number : forall n, 0 <= n < 2 ^ 63 ->
  conv (Some (hex_num n)) (Some 16) (Some 10) = Val (fmt_uint 10 n) /\
  conv (Some (bin_num n)) (Some 2) (Some 10) = Val (fmt_uint 10 n).
Proof. exact hex_bin_of_nonneg_number. Qed.
Print Assumptions C34_hex_bin_of_number.

Theorem C34_hex_of_negative_number : forall n, - 2 ^ 63 <= n < 0 ->
  conv (Some (hex_num n)) (Some 16) (Some 10) = Val (fmt_uint 10 (n + 2 ^ 64)).
Proof. exact hex_of_negative_number. Qed.
Print Assumptions C34_hex_of_negative_number.

Theorem C34_bin_of_negative_number_refuted : len (bin_num (-256)) = 57 /\ len (fmt_uint 2 (-256 + 2 ^ 64)) = 64.
Proof. exact bin_negative_unpadded. Qed.
Print Assumptions C34_bin_of_negative_number_refuted.

(* ABS / SIGN / MOD *)
Theorem C34_abs_sign_laws : forall n, - 2 ^ 63 < n < 2 ^ 63 ->
  0 <= abs_int n /\ sign_num n * abs_int n = n /\ abs_int n = Z.abs n.
Proof. exact abs_sign_laws. Qed.
Print Assumptions C34_abs_sign_laws.

Theorem C34_abs_nonnegative_refuted : abs_int (- 2 ^ 63) = - 2 ^ 63.
Proof. exact abs_min_int64. Qed.
Print Assumptions C34_abs_nonnegative_refuted.

(* SIGN(0.471) = 0: a DECIMAL argument is rounded to BIGINT before its sign is taken *)
Theorem C34_sign_of_fraction_refuted : sign_dec 471 3 = 0 /\ sign_dec (-283) 3 = 0 /\ sign_dec 5 1 = 1.
Proof. exact sign_small_fraction. Qed.
Print Assumptions C34_sign_of_fraction_refuted.

Theorem C34_mod_law : forall a b, b <> 0 ->
  exists r, mod_int a b = Some r /\ a = b * Z.quot a b + r /\ Z.abs r < Z.abs b /\ (r = 0 \/ Z.sgn r = Z.sgn a).
Proof. exact mod_law. Qed.
Print Assumptions C34_mod_law.

(* ASCII(CHAR(n)) = n for one-byte n; CHAR skips NULL arguments *)
Theorem C34_ascii_of_char : forall n, 0 <= n < 256 ->
  char_fn [Some n] = [Z.to_N n] /\ (match char_fn [Some n] with b :: _ => Z.of_N b | [] => 0 end) = n.
Proof. exact ascii_of_char. Qed.
Print Assumptions C34_ascii_of_char.

(* STRCMP is antisymmetric, reflexive, and zero only on equal strings *)
Theorem C34_strcmp_antisymmetric : forall a b, strcmp_core a b = - strcmp_core b a.
Proof. exact strcmp_antisym. Qed.
Print Assumptions C34_strcmp_antisymmetric.

Theorem C34_strcmp_zero_iff_equal : forall a b, strcmp_core a b = 0 <-> a = b.
Proof. exact strcmp_zero_iff. Qed.
Print Assumptions C34_strcmp_zero_iff_equal.

(* ELT(FIELD(x, l), l) is an element of l equal to x up to letter case *)
Theorem C34_elt_field : forall key vals, 0 < field_fn (Some key) vals ->
  exists v, elt_fn (Some (field_fn (Some key) vals)) vals = Some v /\ fold_eq key v = true.
Proof. exact elt_field. Qed.
Print Assumptions C34_elt_field.

Theorem C34_concat_ws : forall sep a b : list N,
  concat_ws (Some sep) [Some a; Some b] = Val (a ++ sep ++ b) /\
  concat_ws (Some sep) [Some a; None; Some b] = Val (a ++ sep ++ b) /\
  concat_ws None [Some a; Some b] = Null.
Proof. exact concat_ws_two. Qed.
Print Assumptions C34_concat_ws.

(* SUBSTRING_INDEX: the k leftmost fields, the delimiter and the remaining fields rebuild the string; a count beyond
   the number of fields returns the whole string *)
Theorem C34_substring_index_halves : forall s d k,
  d <> [] -> 0 < k < len (split d s) -> len (split d s) < 2 ^ 62 ->
  substring_index_core s d k ++ d ++ substring_index_core s d (- (len (split d s) - k)) = s.
Proof. exact substring_index_halves. Qed.
Print Assumptions C34_substring_index_halves.

Theorem C34_substring_index_all : forall s d k, d <> [] -> len (split d s) <= k -> substring_index_core s d k = s.
Proof. exact substring_index_all. Qed.
Print Assumptions C34_substring_index_all.

(* COMPRESS / UNCOMPRESS over a zlib oracle (deflate; the first Read of the inflating reader): under the oracle law
   "a payload below the 32 KiB window arrives complete and with EOF in the first Read" and "a zlib stream is not
   empty", UNCOMPRESS inverts COMPRESS and UNCOMPRESSED_LENGTH returns the length, for payloads below 32768 bytes.
   (From 32768 bytes on the engine returns NULL: finding uncompress/payload-32k-or-more-returns-null.) *)
Theorem C34_uncompress_compress :
  forall (deflate : list N -> list N) (read1 : list N -> Z -> list N * bool),
  (forall b, 0 < len b < 32768 -> read1 (deflate b) (len b) = (b, true)) ->
  (forall b, deflate b <> []) ->
  forall b, len b < 32768 ->
    uncompress read1 (compress deflate b) = Some b /\ uncompressed_length (compress deflate b) = Some (len b).
Proof. exact uncompress_compress. Qed.
Print Assumptions C34_uncompress_compress.

(* non-vacuity: concrete calls *)
Example C34_nonvacuous :
  substring_core [104; 233; 108; 108; 111]%N (-3) (Some 2) = Val [108; 108]%N /\
  locate_core [98]%N [97; 98; 99]%N 1 = Val 2 /\
  insert_core [104; 101; 108; 108; 111]%N 2 3 [88]%N = Val [104; 88; 111]%N /\
  pad_core true [97; 98]%N 5 [120; 121]%N = [120; 121; 120; 97; 98]%N /\
  conv (Some [102; 102]%N) (Some 16) (Some 10) = Val [50; 53; 53]%N /\
  inet_aton (Some [49; 48; 46; 48; 46; 49; 46; 57]%N) = Val 167772425 /\
  round_num KDecimal (Some (-125, 2)) (Some (Some 1)) = Val (-13, 1).
Proof. repeat split; vm_compute; reflexivity. Qed.
Print Assumptions C34_nonvacuous.
