(* C28 -- Values round-trip through their wire representation.
   Only statements, each closed by [exact], each followed by Print Assumptions.
   Model: Codec/C28Wire.v (text produced by Type.SQL, value produced by Type.Convert from that text,
   MaxTextResponseByteLength); calendar: Codec/C28Date.v. *)
From Coq Require Import List NArith ZArith Bool.
Import ListNotations.
From GMS Require Import Codec.C28Date Codec.C28DateProofs Codec.C28Wire Codec.C28WireProofs Codec.C28WireProofs2
  Codec.C28Str Codec.C28Bin Codec.C28BinProofs Codec.C28BinProofs2 Codec.C28Meta Codec.C28MetaProofs.
From GMS Require Codec.C28Json Codec.C28JsonWire.
Open Scope Z_scope.

(* strconv.AppendInt followed by strconv.ParseInt is the identity on every integer (no width bound) *)
Theorem C28_digits_parse_print_inverse : forall z, parse_int (format_int z) = Some z.
Proof. exact parse_format_int. Qed.
Print Assumptions C28_digits_parse_print_inverse.

(* TINYINT .. BIGINT, signed and unsigned: every value of the type's range is read back from its text *)
Theorem C28_int_text_roundtrip :
  forall t v, ity_min t <= v <= ity_max t -> int_convert_text t (int_sql_text t v) = Some v.
Proof. exact int_text_roundtrip. Qed.
Print Assumptions C28_int_text_roundtrip.

(* DECIMAL(p,s), column and expression types: every sign flag (negative zero included), coefficient and exponent
   with at most s fraction digits and |v| < 10^(p-s) is read back as a decimal denoting the same number
   (same value * 10^s, and the model of apd's Cmp says equal) *)
Theorem C28_decimal_text_roundtrip :
  forall col p s d, 0 <= s -> 0 <= dcoef d -> - s <= dexp d -> Z.abs (scaled s d) < 10 ^ p ->
    exists d', dec_convert_text col p s (dec_sql_text col s d) = Some d' /\
               scaled s d' = scaled s d /\ dec_eqv d' d = true.
Proof.
  intros col p s d Hs Hc He Hb. destruct (dec_text_roundtrip col p s d Hs (conj Hc (conj He Hb))) as (d' & E & (_ & _ & S) & Q).
  exists d'. auto.
Qed.
Print Assumptions C28_decimal_text_roundtrip.

(* DATE: every midnight instant other than the zero date whose civil year is 0 or 1000..9999 (civil date computed
   from the day number over the proleptic Gregorian calendar) is printed as a 10-byte text that is read back *)
Theorem C28_date_text_roundtrip :
  forall x, x mod us_per_day = 0 -> x <> zero_time_us -> (year_of_us x = 0 \/ 1000 <= year_of_us x <= 9999) ->
    exists t, date_sql_text x = Some t /\ date_convert_text t = Some x /\ length t = 10%nat.
Proof. intros x H1 H2 H3. exact (date_text_roundtrip x (conj H1 (conj H2 H3))). Qed.
Print Assumptions C28_date_text_roundtrip.

Theorem C28_zero_date_text_roundtrip :
  date_sql_text zero_time_us = Some zero_date_text /\ date_convert_text zero_date_text = Some zero_time_us.
Proof. exact date_zero_roundtrip. Qed.
Print Assumptions C28_zero_date_text_roundtrip.

(* the faithful model violates the property for years 1..999 (AppendInt does not pad the year) *)
Theorem C28_date_year_below_1000_refuted :
  exists x t, x mod us_per_day = 0 /\ year_of_us x = 999 /\ date_sql_text x = Some t /\ date_convert_text t = None.
Proof. exact date_year_below_1000_refuted. Qed.
Print Assumptions C28_date_year_below_1000_refuted.

Theorem C28_year_text_roundtrip :
  forall y, 1901 <= y <= 2155 -> year_convert_text (year_sql_text y) = Some y /\ length (year_sql_text y) = 4%nat.
Proof. exact year_text_roundtrip. Qed.
Print Assumptions C28_year_text_roundtrip.

(* YEAR 0 ("0000") is sent as "0", which converts to 2000 *)
Theorem C28_year_zero_refuted : year_convert_text (year_sql_text 0) = Some 2000.
Proof. exact year_zero_refuted. Qed.
Print Assumptions C28_year_zero_refuted.

Theorem C28_bit_text_roundtrip :
  forall n v, 1 <= n <= 64 -> 0 <= v < 2 ^ n ->
    bit_convert_text n (bit_sql_text n v) = Some v /\ Z.of_nat (length (bit_sql_text n v)) <= n.
Proof. exact bit_text_roundtrip. Qed.
Print Assumptions C28_bit_text_roundtrip.

(* ENUM members by name: every index 1..n of a duplicate-free member list *)
Theorem C28_enum_text_roundtrip :
  forall names i, NoDup names -> 1 <= i <= Z.of_nat (length names) ->
    enum_convert_text names (enum_sql_text names i) = Some i.
Proof. exact enum_text_roundtrip. Qed.
Print Assumptions C28_enum_text_roundtrip.

(* a fact about the code, not counted as a violation (index 0, the '' error value, is only storable in non-strict
   mode): the stored index 0 is sent as "" which Convert does not accept *)
Theorem C28_enum_index_zero_fact :
  exists names, NoDup names /\ enum_convert_text names (enum_sql_text names 0) = None.
Proof. exact enum_zero_refuted. Qed.
Print Assumptions C28_enum_index_zero_fact.

(* announced length: integers of every width, DECIMAL(p,s) values stored at the column scale (unless p = s and the
   sign flag is set), DATE, YEAR, BIT *)
Theorem C28_text_len_le_announced :
  (forall t v, ity_min t <= v <= ity_max t -> Z.of_nat (length (int_sql_text t v)) <= ity_announced t) /\
  (forall col p s d, 0 <= s <= p -> 1 <= p -> (s < p \/ dneg d = false) -> dexp d = - s -> 0 <= dcoef d < 10 ^ p ->
     Z.of_nat (length (dec_sql_text col s d)) <= dec_announced p s) /\
  (forall x, x mod us_per_day = 0 -> x <> zero_time_us -> (year_of_us x = 0 \/ 1000 <= year_of_us x <= 9999) ->
     exists t, date_sql_text x = Some t /\ Z.of_nat (length t) <= date_announced) /\
  (forall y, 1901 <= y <= 2155 -> Z.of_nat (length (year_sql_text y)) <= 4) /\
  (forall n v, 1 <= n <= 64 -> 0 <= v < 2 ^ n -> Z.of_nat (length (bit_sql_text n v)) <= n).
Proof.
  split; [exact int_text_len|]. split; [exact dec_text_len|]. split; [|split].
  - intros x H1 H2 H3. destruct (date_text_roundtrip x (conj H1 (conj H2 H3))) as (t & E & _ & L).
    exists t. split; [exact E|]. rewrite L. discriminate.
  - intros y H. destruct (year_text_roundtrip y H) as [_ L]. rewrite L. discriminate.
  - intros n v Hn Hv. exact (proj2 (bit_text_roundtrip n v Hn Hv)).
Qed.
Print Assumptions C28_text_len_le_announced.

(* DECIMAL(p,p) with the sign flag set needs p + 3 bytes ("-0.99") but p + 2 are announced *)
Theorem C28_text_len_decimal_precision_eq_scale_refuted :
  exists d, dexp d = -2 /\ 0 <= dcoef d < 10 ^ 2 /\ dec_announced 2 2 < Z.of_nat (length (dec_sql_text true 2 d)).
Proof. exact dec_text_len_refuted. Qed.
Print Assumptions C28_text_len_decimal_precision_eq_scale_refuted.

(* DATETIME(n) / TIMESTAMP(n) (one formatter, one parser), n = 0..6: every instant other than the zero date that is a
   multiple of 10^(6-n) microseconds, lies in civil years 1000..9999 and passes Convert's range check is printed with
   exactly n fraction digits (19 bytes, or 20 + n) and read back *)
Theorem C28_datetime_text_roundtrip :
  forall n x, (n <= 6)%nat -> x mod frac_unit n = 0 -> x <> zero_time_us -> 1000 <= year_of_us x <= 9999 ->
    datetime_range_ok n x = true ->
    exists t, datetime_sql_text n x = Some t /\ datetime_convert_text n t = Some x /\
              length t = datetime_text_len n /\ Z.of_nat (length t) <= datetime_announced.
Proof.
  intros n x H1 H2 H3 H4 H5. destruct (datetime_text_roundtrip n x (conj H1 (conj H2 (conj H3 (conj H4 H5))))) as (t & A & B & C).
  exists t. repeat split; auto. rewrite C. now apply datetime_len_le_announced.
Qed.
Print Assumptions C28_datetime_text_roundtrip.

Theorem C28_zero_datetime_text_roundtrip :
  forall n, (n <= 6)%nat ->
    exists t, datetime_sql_text n zero_time_us = Some t /\ datetime_convert_text n t = Some zero_time_us /\
              length t = datetime_text_len n.
Proof. exact datetime_zero_roundtrip. Qed.
Print Assumptions C28_zero_datetime_text_roundtrip.

(* TIME: the whole storable range -838:59:59 .. 838:59:59 (hours of 2 or 3 digits, sign, 6 fraction digits), and
   the text never exceeds the 17 announced bytes *)
Theorem C28_time_text_roundtrip :
  forall x, - time_max_us <= x <= time_max_us ->
    time_convert_text (time_sql_text x) = Some x /\ Z.of_nat (length (time_sql_text x)) <= time_announced.
Proof. exact time_text_roundtrip. Qed.
Print Assumptions C28_time_text_roundtrip.

(* SET: comma-joined member names <-> bit mask, for duplicate-free, non-empty, comma-free member names *)
Theorem C28_set_text_roundtrip :
  forall names b, NoDup names -> Forall (fun n => n <> [] /\ no_comma n) names -> 0 <= b < 2 ^ Z.of_nat (length names) ->
    set_convert_text names (set_sql_text names b) = Some b.
Proof. exact set_text_roundtrip. Qed.
Print Assumptions C28_set_text_roundtrip.

(* utf8: a byte string never has more than 4 bytes per rune, runes counted as Go does (len([]rune(s))) *)
Theorem C28_bytes_le_4_runes : forall s, (length s <= 4 * rune_count s)%nat.
Proof. exact bytes_le_4_runes. Qed.
Print Assumptions C28_bytes_le_4_runes.

(* ENUM / SET announced lengths (4 bytes per rune of the longest member; of all members plus separators) *)
Theorem C28_enum_set_text_len_le_announced :
  (forall names i, (length (enum_sql_text names i) <= enum_announced names)%nat) /\
  (forall names b, (length (set_sql_text names b) <= set_announced names)%nat).
Proof. split; [exact enum_text_len|exact set_text_len]. Qed.
Print Assumptions C28_enum_set_text_len_le_announced.

(* VARCHAR(n) / CHAR(n) / VARBINARY(n) / BINARY(n) / TEXT (utf8mb4): a stored value (a fixpoint of Convert) is sent as
   it is, Convert accepts it again unchanged, and it fits chars * 4 (VARCHAR, CHAR), n (VARBINARY, BINARY), 65535 * 4
   (TEXT).  CHAR values keep their trailing spaces. *)
Theorem C28_string_text_roundtrip :
  forall t s, str_convert_text t s = Some s ->
    str_sql_text t s = Some s /\ str_convert_text t s = Some s /\ (length s <= str_announced t)%nat.
Proof. exact str_text_roundtrip. Qed.
Print Assumptions C28_string_text_roundtrip.

(* ... and whatever Convert accepts, what it stores is such a fixpoint: BINARY(n) is right-padded with 0x00 to exactly
   n bytes, once *)
Theorem C28_string_store_is_fixpoint :
  (forall t r s, str_convert_text t r = Some s -> str_convert_text t s = Some s) /\
  (forall n r s, str_convert_text (Binary n) r = Some s -> length s = n) /\
  (forall n r, (length r <= n)%nat -> str_convert_text (Binary n) r = Some (r ++ repeat 0%N (n - length r))).
Proof.
  split; [exact str_convert_storable|]. split; [exact binary_stored_length|].
  intros n r H. cbn [str_convert_text]. apply Nat.leb_le in H. now rewrite H.
Qed.
Print Assumptions C28_string_store_is_fixpoint.

(* JSON columns (copied C32 document model): the text is read back as the canonical form of the document, hence as the
   document itself for integer and string documents *)
Theorem C28_json_text_roundtrip :
  (forall j, C28JsonWire.json_convert_text (C28JsonWire.json_sql_text j) = Some (C28Json.canon j)) /\
  (forall z, C28JsonWire.json_convert_text (C28JsonWire.json_sql_text (C28Json.JInt z)) = Some (C28Json.JInt z)) /\
  (forall s, C28JsonWire.json_convert_text (C28JsonWire.json_sql_text (C28Json.JStr s)) = Some (C28Json.JStr s)).
Proof.
  split; [exact C28JsonWire.json_text_roundtrip|]. split; [exact C28JsonWire.json_int_text_roundtrip|exact C28JsonWire.json_string_text_roundtrip].
Qed.
Print Assumptions C28_json_text_roundtrip.

(* binary protocol (vitess val2MySQL applied to the text, then a client's reader): integers of every type *)
Theorem C28_int_binary_roundtrip :
  forall t v, ity_min t <= v <= ity_max t ->
    exists b, int_bin t (int_sql_text t v) = Some b /\ int_bin_decode t b = v /\ length b = ity_width t.
Proof. exact int_binary_roundtrip. Qed.
Print Assumptions C28_int_binary_roundtrip.

(* length-encoded strings (DECIMAL, strings, BIT, ENUM, SET travel like this) *)
Theorem C28_lenenc_roundtrip : forall s, Z.of_nat (length s) < 2 ^ 64 -> lenenc_decode (lenenc_str s) = Some s.
Proof. exact lenenc_roundtrip. Qed.
Print Assumptions C28_lenenc_roundtrip.

(* DATE: text -> 4-byte struct -> the same instant *)
Theorem C28_date_binary_roundtrip :
  forall x, x mod us_per_day = 0 -> x <> zero_time_us -> (year_of_us x = 0 \/ 1000 <= year_of_us x <= 9999) ->
    exists t b, date_sql_text x = Some t /\ datetime_bin t = Some b /\ datetime_bin_decode b = Some x /\ length b = 5%nat.
Proof. intros x H1 H2 H3. exact (date_binary_roundtrip x (conj H1 (conj H2 H3))). Qed.
Print Assumptions C28_date_binary_roundtrip.

(* DATETIME(n)/TIMESTAMP(n): text -> 7-byte (n = 0) or 11-byte struct (chosen by the text length) -> the same instant *)
Theorem C28_datetime_binary_roundtrip :
  forall n x, (n <= 6)%nat -> x mod frac_unit n = 0 -> x <> zero_time_us -> 1000 <= year_of_us x <= 9999 ->
    datetime_range_ok n x = true ->
    exists t b, datetime_sql_text n x = Some t /\ datetime_bin t = Some b /\ datetime_bin_decode b = Some x /\
                length b = (match n with O => 8 | _ => 12 end)%nat.
Proof. intros n x H1 H2 H3 H4 H5. exact (datetime_binary_roundtrip n x (conj H1 (conj H2 (conj H3 (conj H4 H5))))). Qed.
Print Assumptions C28_datetime_binary_roundtrip.

(* TIME: text -> 12-byte struct (sign, days, hours mod 24, minutes, seconds, microseconds) -> the same value *)
Theorem C28_time_binary_roundtrip :
  forall x, - time_max_us <= x <= time_max_us ->
    exists b, time_bin (time_sql_text x) = Some b /\ time_bin_decode b = Some x /\ length b = 13%nat.
Proof. exact time_binary_roundtrip. Qed.
Print Assumptions C28_time_binary_roundtrip.

(* binary rows: the NULL bitmap ((columns + 9) / 8 bytes, offset 2) marks exactly the NULL columns *)
Theorem C28_null_bitmap_marks_exactly_nulls :
  forall nulls i, (i < length nulls)%nat ->
    bitmap_is_null (null_bitmap nulls) i = nth i nulls false /\ length (null_bitmap nulls) = bitmap_len (length nulls).
Proof. exact null_bitmap_marks_exactly. Qed.
Print Assumptions C28_null_bitmap_marks_exactly_nulls.

(* YEAR (16 bit integer) and the kinds sent as length-encoded strings of their text: DECIMAL, BIT, ENUM, SET *)
Theorem C28_year_binary_roundtrip :
  forall y, 1901 <= y <= 2155 ->
    exists b, year_bin (year_sql_text y) = Some b /\ int_bin_decode I16 b = y /\ length b = 2%nat.
Proof. exact year_binary_roundtrip. Qed.
Print Assumptions C28_year_binary_roundtrip.

Theorem C28_lenenc_kinds_binary_roundtrip :
  (forall col p s d, 0 <= s -> 0 <= dcoef d /\ - s <= dexp d /\ Z.abs (scaled s d) < 10 ^ p ->
     Z.of_nat (length (dec_sql_text col s d)) < 2 ^ 64 ->
     exists t d', lenenc_decode (lenenc_str (dec_sql_text col s d)) = Some t /\ dec_convert_text col p s t = Some d' /\
                  dec_eqv d' d = true) /\
  (forall n v, 1 <= n <= 64 -> 0 <= v < 2 ^ n ->
     exists t, lenenc_decode (lenenc_str (bit_sql_text n v)) = Some t /\ bit_convert_text n t = Some v) /\
  (forall names i, NoDup names -> 1 <= i <= Z.of_nat (length names) -> Z.of_nat (length (enum_sql_text names i)) < 2 ^ 64 ->
     exists t, lenenc_decode (lenenc_str (enum_sql_text names i)) = Some t /\ enum_convert_text names t = Some i) /\
  (forall names b, NoDup names -> Forall (fun n => n <> [] /\ no_comma n) names -> 0 <= b < 2 ^ Z.of_nat (length names) ->
     Z.of_nat (length (set_sql_text names b)) < 2 ^ 64 ->
     exists t, lenenc_decode (lenenc_str (set_sql_text names b)) = Some t /\ set_convert_text names t = Some b).
Proof. exact lenenc_kinds_binary_roundtrip. Qed.
Print Assumptions C28_lenenc_kinds_binary_roundtrip.

(* column definitions: the decimals field announces the number of fraction digits for DECIMAL and DATETIME ... *)
Theorem C28_meta_decimals_announce_fraction :
  forall c, (forall n, c <> TTimestamp n) -> c <> TTime -> meta_decimals c = fraction_digits c.
Proof. exact meta_decimals_announce_fraction. Qed.
Print Assumptions C28_meta_decimals_announce_fraction.

(* ... but not for TIMESTAMP(n) and TIME: values carry 6 fraction digits, 0 are announced (clients using the binary
   protocol format the value with the announced number of digits and lose the fraction) *)
Theorem C28_meta_decimals_timestamp_time_refuted :
  (exists c, fraction_digits c = 6 /\ meta_decimals c = 0) /\ (fraction_digits TTime = 6 /\ meta_decimals TTime = 0).
Proof. split; [exact meta_decimals_refuted|exact meta_decimals_time_refuted]. Qed.
Print Assumptions C28_meta_decimals_timestamp_time_refuted.

(* flags: UNSIGNED is announced exactly for the unsigned integer types, NOT_NULL exactly for NOT NULL columns, whatever
   the other attributes (vitess replaces its type-derived flags by the engine's as soon as one of those is set) *)
Theorem C28_meta_flags :
  (forall t nn pk ai, Z.testbit (meta_flags (TInt t) nn pk ai) 5 = negb (ity_signed t)) /\
  (forall c nn pk ai, Z.testbit (meta_flags c nn pk ai) 0 = nn).
Proof. split; [exact meta_unsigned_flag|exact meta_not_null_flag]. Qed.
Print Assumptions C28_meta_flags.

(* non-vacuity: the hypotheses are satisfiable and the texts are the expected ones *)
Example C28_nonvacuous :
  int_sql_text I8 (-128) = [45; 49; 50; 56]%N /\
  dec_sql_text true 2 (mkdec true 5 0) = [45; 53; 46; 48; 48]%N /\
  date_sql_text (days_from_civil (2024, 2, 29) * us_per_day) = Some [50; 48; 50; 52; 45; 48; 50; 45; 50; 57]%N /\
  year_of_us (days_from_civil (2024, 2, 29) * us_per_day) = 2024.
Proof. vm_compute. repeat split; reflexivity. Qed.
