(* C27 — Storing a value keeps it exactly or reports the change.
   Only statements, each closed by [exact], each followed by Print Assumptions.
   Model: Codec/C27Convert.v (NumberTypeImpl_.Convert per width, DecimalType_.Convert). *)
From Coq Require Import ZArith Bool List.
Import ListNotations.
From GMS Require Import Codec.C25Arith Codec.C27Convert Codec.C27ConvertProofs Codec.C27Strings Codec.C27StringsProofs
  Codec.C26Compare Codec.C27Temporal Codec.C27TemporalProofs Codec.C27Enum Codec.C27EnumProofs.
Open Scope Z_scope.

(* the narrow integer types (every width below 64 bits, signed and unsigned): given the int64 image [n] of the
   source, the outcome is the same value flagged InRange, or the type's maximum flagged Overflow, or (signed types)
   the type's minimum flagged Underflow -- exact or flagged, for all n *)
Theorem C27_convert_exact_or_flag :
  forall t n out f, narrow t n = COk out f ->
    (f = InRange -> out = mk t n /\ in_range t n) /\
    (f = Overflow -> ity_max t < n /\ out = mk t (ity_max t)) /\
    (f = Underflow -> n < ity_min t /\ (unsigned t = false -> out = mk t (ity_min t))).
Proof. exact narrow_spec. Qed.
Print Assumptions C27_convert_exact_or_flag.

Theorem C27_narrow_types_use_int64_image :
  forall t v, t <> I64 -> t <> U64 -> conv_int t v = narrow t (fst (to_i64 v)).
Proof. exact conv_narrow. Qed.
Print Assumptions C27_narrow_types_use_int64_image.

(* that image is the source itself for signed Go integers and for unsigned ones up to MaxInt64; larger uint64
   values enter as MaxInt64 (hence Overflow for every narrow type) *)
Theorem C27_int64_image_of_integers :
  forall z, to_i64 (SI z) = (z, InRange) /\
            (z <= max_i64 -> to_i64 (SU z) = (z, InRange)) /\ (max_i64 < z -> to_i64 (SU z) = (max_i64, Overflow)).
Proof. exact (fun z => conj (num_of_signed z) (num_of_unsigned z)). Qed.
Print Assumptions C27_int64_image_of_integers.

(* BIGINT and BIGINT UNSIGNED from integer sources: exact, Overflow with the maximum, or Underflow *)
Theorem C27_bigint_out_of_range_flagged :
  forall z, conv_int I64 (SI z) = COk (SI z) InRange /\
            (z <= max_i64 -> conv_int I64 (SU z) = COk (SI z) InRange) /\
            (max_i64 < z -> conv_int I64 (SU z) = COk (SI max_i64) Overflow) /\
            (0 <= z -> conv_int U64 (SI z) = COk (SU z) InRange) /\
            (z < 0 -> conv_int U64 (SI z) = COk (SU (two64 + z)) Underflow) /\
            conv_int U64 (SU z) = COk (SU z) InRange.
Proof.
  exact (fun z => conj (conv_i64_signed z) (conj (proj1 (conv_i64_unsigned z)) (conj (proj2 (conv_i64_unsigned z))
        (conj (proj1 (conv_u64_signed z)) (conj (proj2 (conv_u64_signed z)) (conv_u64_unsigned z)))))).
Qed.
Print Assumptions C27_bigint_out_of_range_flagged.

(* decimals into narrow integer types: in range means rounded half away from zero (the documented exception) *)
Theorem C27_decimal_into_integer_rounds :
  forall t m s out, t <> I64 -> t <> U64 -> min_i64 * 10 ^ s <= m <= max_i64 * 10 ^ s ->
    conv_int t (SD m s) = COk out InRange -> out = mk t (round_to m s 0) /\ in_range t (round_to m s 0).
Proof. exact decimal_source_in_range_is_rounded. Qed.
Print Assumptions C27_decimal_into_integer_rounds.

(* converting an already converted (representable) value again never changes it *)
Theorem C27_convert_idempotent_integer :
  forall t z, t <> I64 -> t <> U64 -> in_range t z -> conv_int t (mk t z) = COk (mk t z) InRange.
Proof. exact representable_is_fixpoint_narrow. Qed.
Print Assumptions C27_convert_idempotent_integer.

(* REFUTED (for INSERT IGNORE, which stores the value Convert returns): an unsigned underflow is flagged, but the
   returned value is wrapped, not the nearest representable one; for MEDIUMINT UNSIGNED it can leave the type's range.
   At the Convert level alone the flag reports the change, which is all the property demands there. *)
Theorem C27_unsigned_underflow_nearest_refuted :
  conv_int U8 (SI (-1)) = COk (SU 255) Underflow /\
  conv_int U64 (SI (-1)) = COk (SU 18446744073709551615) Underflow /\
  conv_int U24 (SD (-184467440737095516175) 1) = COk (SU 16777216) Underflow /\ ~ in_range U24 16777216.
Proof. exact unsigned_underflow_wraps. Qed.
Print Assumptions C27_unsigned_underflow_nearest_refuted.

(* DECIMAL(p,s): never clamps; exact when the source has no more fraction digits than the type; otherwise rounded
   to a nearest value at scale s; out of range is an error; idempotent *)
Theorem C27_decimal_never_clamps :
  forall p s col v out f, conv_dec p s col v = COk out f -> f = InRange.
Proof. exact conv_dec_never_flags. Qed.
Print Assumptions C27_decimal_never_clamps.

Theorem C27_decimal_exact_when_scale_fits :
  forall p s col v m2 s2 f, 0 <= snd (to_dec v) <= s -> conv_dec p s col v = COk (SD m2 s2) f ->
    m2 * 10 ^ snd (to_dec v) = fst (to_dec v) * 10 ^ s2 /\ snd (to_dec v) <= s2 <= s /\ Z.abs m2 < 10 ^ (p - s + s2).
Proof. exact conv_dec_exact_when_scale_fits. Qed.
Print Assumptions C27_decimal_exact_when_scale_fits.

Theorem C27_decimal_rounds_to_nearest :
  forall p s col m0 s0 m2 s2 f, 0 <= s < s0 -> conv_dec p s col (SD m0 s0) = COk (SD m2 s2) f ->
    s2 = s /\ 2 * Z.abs (m2 * 10 ^ (s0 - s) - m0) <= 10 ^ (s0 - s).
Proof. exact conv_dec_rounds_to_nearest. Qed.
Print Assumptions C27_decimal_rounds_to_nearest.

Theorem C27_decimal_out_of_range_is_error :
  forall p s col v, conv_dec p s col v = CErr <->
    (let '(m0, s0) := to_dec v in
     let '(m1, s1) := if col && negb ((s0 =? 0) && (s =? 0)) then (round_to m0 s0 s, s) else (m0, s0) in
     let '(m2, s2) := if s1 >? s then (round_to m1 s1 s, s) else (m1, s1) in
     10 ^ (p - s + s2) <= Z.abs m2).
Proof. exact conv_dec_out_of_range_is_error. Qed.
Print Assumptions C27_decimal_out_of_range_is_error.

Theorem C27_convert_idempotent_decimal :
  forall p s col v m2 s2 f, 0 <= s -> 0 <= snd (to_dec v) -> conv_dec p s col v = COk (SD m2 s2) f ->
    conv_dec p s col (SD m2 s2) = COk (SD m2 s2) InRange.
Proof. exact conv_dec_idempotent. Qed.
Print Assumptions C27_convert_idempotent_decimal.

(* ---- strings (model: Codec/C27Strings.v) ---- *)
(* StringType.Convert for VARCHAR / CHAR (valid UTF-8) and VARBINARY: the text is kept byte for byte when it has at
   most maxlen characters (bytes for VARBINARY), otherwise rejected; [nchars] is the decoder oracle's rune count,
   assumed only to be at most the byte count *)
Theorem C27_string_exact_or_rejected :
  forall binary maxlen bs nchars, nchars <= Z.of_nat (length bs) ->
    (forall out, conv_text binary maxlen bs nchars = TOk out ->
       out = bs /\ (if binary then Z.of_nat (length bs) else nchars) <= maxlen) /\
    (conv_text binary maxlen bs nchars = TErr -> maxlen < (if binary then Z.of_nat (length bs) else nchars)).
Proof. exact conv_text_exact_or_error. Qed.
Print Assumptions C27_string_exact_or_rejected.

Theorem C27_convert_idempotent_string :
  forall binary maxlen bs nchars out,
    conv_text binary maxlen bs nchars = TOk out -> conv_text binary maxlen out nchars = TOk out.
Proof. exact conv_text_idempotent. Qed.
Print Assumptions C27_convert_idempotent_string.

(* text into an integer type (every width below 64 bits, and BIGINT): "in range, no error" means the whole trimmed
   text was consumed by the digit scan and the stored value is the parsed one, within the type's range *)
Theorem C27_string_to_integer_exact_or_flag :
  forall t bs out, t <> U64 -> conv_int_str t bs = COk out InRange ->
    exists z, str_to_i64 bs = SOk z false /\ out = mk t z /\ in_range t z.
Proof. exact conv_int_str_in_range. Qed.
Print Assumptions C27_string_to_integer_exact_or_flag.

Theorem C27_string_unreported_means_fully_consumed :
  forall bs z, str_to_i64 bs = SOk z false -> snd (scan true (trim bs)) = [].
Proof. exact str_unreported_consumes_everything. Qed.
Print Assumptions C27_string_unreported_means_fully_consumed.

(* a clean literal (digits only, optionally a leading '-') within BIGINT is parsed to exactly its value *)
Theorem C27_string_clean_literal_exact :
  forall ds, all_digits ds -> ds <> [] -> horner ds <= max_i64 ->
    str_to_i64 ds = SOk (horner ds) false /\ str_to_i64 (45 :: ds) = SOk (- horner ds) false.
Proof. exact str_clean_literal_exact. Qed.
Print Assumptions C27_string_clean_literal_exact.

(* REFUTED: malformed text is reported -- a text without any digit ("", "-", " +\t") converts to 0 silently *)
Theorem C27_string_without_digits_refuted :
  conv_int_str I32 [] = COk (SI 0) InRange /\ conv_int_str I8 [45] = COk (SI 0) InRange /\
  conv_int_str U16 [32; 43; 9] = COk (SU 0) InRange.
Proof. exact str_no_digit_silent. Qed.
Print Assumptions C27_string_without_digits_refuted.

Example C27_strings_nonvacuous :
  conv_int_str I8 [49; 50; 55] = COk (SI 127) InRange /\
  conv_int_str I8 [49; 50; 56] = COk (SI 127) Overflow /\
  conv_int_str I8 [49; 50; 97; 98] = CErr /\
  conv_int_str I8 [51; 48; 48; 97] = COk (SI 127) Overflow /\
  conv_int_str I64 [32; 45; 53; 9] = COk (SI (-5)) InRange /\
  conv_int_str I64 [57;50;50;51;51;55;50;48;51;54;56;53;52;55;55;53;56;48;56] = CErr /\
  conv_text false 3 [230;151;165;230;156;172;232;170;158] 3 = TOk [230;151;165;230;156;172;232;170;158] /\
  conv_text false 3 [97;98;99;100] 4 = TErr /\ conv_text true 3 [195;169;49] 2 = TOk [195;169;49].
Proof. exact nonvacuous_strings. Qed.
Print Assumptions C27_strings_nonvacuous.

(* ---- temporal types (model: Codec/C27Temporal.v) ---- *)
(* DATE / DATETIME(p) / TIMESTAMP(p) from text: accepted means well-formed in the strict grammar
   YYYY-MM-DD[ HH:MM:SS[.f{1,6}]] with valid fields, and the stored instant is the text's instant (the day for DATE,
   rounded half up to p digits otherwise); anything else is rejected *)
Theorem C27_temporal_convert_exact_or_rejected :
  forall k p bs us, conv_dt k p bs = DOk us ->
    exists c, parse_strict bs = Some c /\ valid_civil c = true /\
              us = match k with KDate => trunc_day (us_of_civil c) | _ => round_us p (us_of_civil c) end.
Proof. exact conv_dt_exact_or_rejected. Qed.
Print Assumptions C27_temporal_convert_exact_or_rejected.

Theorem C27_temporal_malformed_rejected : forall k p bs, parse_strict bs = None -> conv_dt k p bs = DErr.
Proof. exact conv_dt_malformed_rejected. Qed.
Print Assumptions C27_temporal_malformed_rejected.

(* the stored instant is within half a unit of precision of the text's instant, and storing it again is the identity *)
Theorem C27_temporal_precision_and_idempotence :
  forall k p bs us c, 0 <= p <= 6 -> k <> KDate -> conv_dt k p bs = DOk us -> parse_strict bs = Some c ->
    2 * Z.abs (us - us_of_civil c) <= unit_us p /\ round_us p us = us.
Proof. exact conv_dt_precision. Qed.
Print Assumptions C27_temporal_precision_and_idempotence.

Theorem C27_date_truncation_idempotent :
  forall us, trunc_day (trunc_day us) = trunc_day us /\ trunc_day us <= us < trunc_day us + day_us.
Proof. exact (fun us => conj (trunc_day_idempotent us) (trunc_day_floor us)). Qed.
Print Assumptions C27_date_truncation_idempotent.

Theorem C27_year_convert_range_and_idempotent :
  forall z y, conv_year_int z = YOk y -> (y = 0 \/ 1901 <= y <= 2155) /\ conv_year_int y = YOk y.
Proof. exact (fun z y H => conj (conv_year_int_range z y H) (conv_year_idempotent z y H)). Qed.
Print Assumptions C27_year_convert_range_and_idempotent.

Theorem C27_year_four_digit_exact : forall z, 1901 <= z <= 2155 -> conv_year_int z = YOk z.
Proof. exact conv_year_four_digit_exact. Qed.
Print Assumptions C27_year_four_digit_exact.

(* TIME: inside the range the arithmetic core of stringToTimespan is exact ... *)
Theorem C27_time_exact_within_range :
  forall neg h m s micro, 0 <= h <= 838 -> 0 <= m < 60 -> 0 <= s < 60 -> 0 <= micro < 1000000 ->
    ~ (h = 838 /\ m = 59 /\ s = 59) ->
    time_core neg h m s micro = TmOk ((if neg then -1 else 1) * (h * 3600000000 + m * 60000000 + s * 1000000 + micro)).
Proof. exact time_core_exact. Qed.
Print Assumptions C27_time_exact_within_range.

(* ... but REFUTED: malformed TIME text is rejected ('11:59:30.451048abc' is accepted as 11:59:30.451049) *)
Theorem C27_time_junk_after_fraction_refuted :
  string_to_timespan [49;49;58;53;57;58;51;48;46;52;53;49;48;52;56;97;98;99] = TmOk 43170451049 /\
  string_to_timespan [48;48;58;48;48;58;48;48;46;52;57;57;57;57;57;32;102;111;111] = TmOk 500000.
Proof. exact time_junk_after_fraction_accepted. Qed.
Print Assumptions C27_time_junk_after_fraction_refuted.

(* ... and REFUTED: out-of-range TIME is reported ('999:59:59' and '839:00:00' become 838:59:59 silently) *)
Theorem C27_time_beyond_range_refuted :
  string_to_timespan [57;57;57;58;53;57;58;53;57] = TmOk 3020399000000 /\
  string_to_timespan [56;51;57;58;48;48;58;48;48] = TmOk 3020399000000.
Proof. exact time_beyond_range_clamped_silently. Qed.
Print Assumptions C27_time_beyond_range_refuted.

Example C27_temporal_nonvacuous :
  conv_dt KDatetime 0 [50;48;50;51;45;48;49;45;49;53;32;49;48;58;51;48;58;52;53;46;53] = DOk 1673778646000000 /\
  conv_dt KDatetime 6 [50;48;50;51;45;48;50;45;51;48;32;49;48;58;48;48;58;48;48] = DErr /\
  conv_dt KDatetime 6 [50;48;50;51;45;48;49;45;49;53;32;49;48;58;51;48;58;52;53;97;98;99] = DErr /\
  conv_dt KDate 0 [49;53;48;48;45;48;54;45;49;53] = DOk (-14817513600000000) /\
  string_to_timespan [49;48;58;51;48;58;52;53] = TmOk 37845000000 /\
  string_to_timespan [49;48;58;54;49;58;52;53] = TmErr /\
  conv_year_str [50;48;50;51] = YOk 2023 /\ conv_year_str [49;57;48;48] = YErr /\ conv_year_str [48] = YOk 2000.
Proof. exact nonvacuous_temporal_convert. Qed.
Print Assumptions C27_temporal_nonvacuous.

(* ---- ENUM / SET / BIT (model: Codec/C27Enum.v) ---- *)
Theorem C27_enum_exact_or_rejected : forall n z out, conv_enum n (SI z) = EOk out -> out = z /\ 0 <= z <= n.
Proof. exact enum_exact_or_rejected. Qed.
Print Assumptions C27_enum_exact_or_rejected.

Theorem C27_set_bit_exact_or_rejected :
  forall n z, 0 <= z <= max_u64 ->
    (forall out, conv_set n (SU z) = EOk out -> out = z /\ z <= 2 ^ n - 1) /\
    (forall out, conv_bit n (SU z) = EOk out -> out = z /\ z <= 2 ^ n - 1).
Proof. exact set_bit_exact_or_rejected_nonneg. Qed.
Print Assumptions C27_set_bit_exact_or_rejected.

Theorem C27_enum_set_bit_idempotent :
  forall n v out,
    (conv_enum n v = EOk out -> conv_enum n (SI out) = EOk out) /\
    (conv_set n v = EOk out -> 0 <= n <= 64 -> conv_set n (SU out) = EOk out) /\
    (conv_bit n v = EOk out -> 0 <= n <= 64 -> conv_bit n (SU out) = EOk out).
Proof. exact esb_idempotent. Qed.
Print Assumptions C27_enum_set_bit_idempotent.

(* REFUTED: negative values are rejected: BIT(8) stores 5 for -5.0, BIT(64) stores 2^64-1 for -1 and 1 for -1.0,
   SET('x','y','z') stores 3 for -3.0 *)
Theorem C27_negative_into_bit_set_refuted :
  conv_bit 8 (SD (-50) 1) = EOk 5 /\ conv_bit 64 (SI (-1)) = EOk 18446744073709551615 /\
  conv_bit 64 (SD (-10) 1) = EOk 1 /\ conv_set 3 (SD (-30) 1) = EOk 3.
Proof. exact negative_values_accepted. Qed.
Print Assumptions C27_negative_into_bit_set_refuted.

Example C27_enum_set_bit_nonvacuous :
  conv_enum 3 (SI 2) = EOk 2 /\ conv_enum 3 (SI 4) = EErr /\ conv_enum 3 (SI 0) = EOk 0 /\ conv_enum 3 (SD 25 1) = EOk 3 /\
  conv_set 3 (SI 7) = EOk 7 /\ conv_set 3 (SI 8) = EErr /\ conv_set 3 (SI (-1)) = EErr /\
  conv_bit 8 (SI 255) = EOk 255 /\ conv_bit 8 (SI 256) = EErr /\ conv_bit 8 (SI (-5)) = EErr.
Proof. exact nonvacuous_esb. Qed.
Print Assumptions C27_enum_set_bit_nonvacuous.

Example C27_nonvacuous :
  conv_int I8 (SI 127) = COk (SI 127) InRange /\
  conv_int I8 (SI 128) = COk (SI 127) Overflow /\
  conv_int I8 (SU 18446744073709551615) = COk (SI 127) Overflow /\
  conv_int I16 (SI (-32769)) = COk (SI (-32768)) Underflow /\
  conv_int I32 (SD 21474836474 1) = COk (SI 2147483647) InRange /\
  conv_int I32 (SD 21474836475 1) = COk (SI 2147483647) Overflow /\
  conv_dec 10 2 true (SD 1005 3) = COk (SD 101 2) InRange /\
  conv_dec 5 0 true (SI 100000) = CErr /\
  conv_dec 10 2 false (SD 15 1) = COk (SD 15 1) InRange.
Proof. exact nonvacuous_converts. Qed.
Print Assumptions C27_nonvacuous.
