(* COPY for C28 of Codec/C32JsonParse.v (the JSON document model of C32; do not edit -- re-copy instead). A recursive-descent parser for the language printed by Codec/C28Json.v print_raw, and the round trip
   parse (print j) = Some (canon j); canon is idempotent and yields key-sorted objects. *)
From Coq Require Import List NArith ZArith Bool Arith Lia DecimalZ DecimalPos Decimal.
Import ListNotations.
From GMS Require Import Codec.Charset Codec.JsonQuote Codec.JsonQuoteProofs Codec.C28Json Codec.C28JsonProofs Codec.C28JsonCompare.
Open Scope N_scope.

(* ---------- string literals ---------- *)
Definition consb (pre : list N) (r : option (list N * list N)) : option (list N * list N) :=
  match r with Some (c, rest) => Some (pre ++ c, rest) | None => None end.

(* after the opening quote: content up to the closing quote, and what follows it *)
Fixpoint parse_sbody (s : list N) : option (list N * list N) :=
  match s with
  | [] => None
  | x :: t =>
      if x =? 34 then Some ([], t)
      else if x =? 92 then
        match t with
        | [] => None
        | c :: t' =>
            if c =? 117 then
              match t' with
              | a :: b :: c2 :: d :: rest =>
                  match decode4 a b c2 d with
                  | ROk bytes => consb bytes (parse_sbody rest)
                  | _ => None
                  end
              | _ => None
              end
            else consb [unesc c] (parse_sbody t')
        end
      else consb [x] (parse_sbody t)
  end.

Lemma consb_consb a b r : consb a (consb b r) = consb (a ++ b) r.
Proof. destruct r as [[c rest]|]; cbn; [now rewrite app_assoc|reflexivity]. Qed.

Lemma sbody_plain x t : x <> 34 -> x <> 92 -> parse_sbody (x :: t) = consb [x] (parse_sbody t).
Proof.
  intros H1 H2. cbn [parse_sbody]. apply N.eqb_neq in H1. apply N.eqb_neq in H2. now rewrite H1, H2.
Qed.

Lemma sbody_esc b t : parse_sbody (esc b ++ t) = consb [b] (parse_sbody t).
Proof.
  unfold esc.
  destruct (b =? 34) eqn:E1; [apply N.eqb_eq in E1; subst; reflexivity|].
  destruct (b =? 92) eqn:E2; [apply N.eqb_eq in E2; subst; reflexivity|].
  destruct (b =? 8) eqn:E3; [apply N.eqb_eq in E3; subst; reflexivity|].
  destruct (b =? 12) eqn:E4; [apply N.eqb_eq in E4; subst; reflexivity|].
  destruct (b =? 10) eqn:E5; [apply N.eqb_eq in E5; subst; reflexivity|].
  destruct (b =? 13) eqn:E6; [apply N.eqb_eq in E6; subst; reflexivity|].
  destruct (b =? 9) eqn:E7; [apply N.eqb_eq in E7; subst; reflexivity|].
  destruct (b <? 32) eqn:E8.
  - apply N.ltb_lt in E8.
    change (parse_sbody (92 :: 117 :: 48 :: 48 :: hexdigit (b / 16) :: hexdigit (b mod 16) :: t) = consb [b] (parse_sbody t)).
    cbn [parse_sbody N.eqb Pos.eqb]. rewrite (decode4_control b E8). reflexivity.
  - cbn [Datatypes.app]. apply sbody_plain; apply N.eqb_neq; assumption.
Qed.

Lemma sbody_print s rest : parse_sbody (flat_map esc s ++ 34 :: rest) = Some (s, rest).
Proof.
  induction s as [|b s IH]; [reflexivity|]. cbn [flat_map]. rewrite <- app_assoc, sbody_esc, IH. reflexivity.
Qed.

(* ---------- integers ---------- *)
Definition is_digit (c : N) : bool := (48 <=? c) && (c <=? 57).

Fixpoint take_digits (s : list N) : list N * list N :=
  match s with
  | c :: t => if is_digit c then let '(ds, r) := take_digits t in (c :: ds, r) else ([], s)
  | [] => ([], [])
  end.

Fixpoint uint_of_digits (ds : list N) : uint :=
  match ds with
  | [] => Nil
  | c :: t =>
      let u := uint_of_digits t in
      if c =? 48 then D0 u else if c =? 49 then D1 u else if c =? 50 then D2 u else if c =? 51 then D3 u
      else if c =? 52 then D4 u else if c =? 53 then D5 u else if c =? 54 then D6 u else if c =? 55 then D7 u
      else if c =? 56 then D8 u else D9 u
  end.

Definition parse_int (s : list N) : option (json * list N) :=
  match s with
  | 45 :: t => let '(ds, r) := take_digits t in Some (JInt (Z.of_int (Neg (uint_of_digits ds))), r)
  | _ => let '(ds, r) := take_digits s in Some (JInt (Z.of_int (Pos (uint_of_digits ds))), r)
  end.

Definition no_digit_head (rest : list N) : Prop := match rest with [] => True | c :: _ => is_digit c = false end.

Lemma take_digits_uint u rest : no_digit_head rest -> take_digits (uint_digits u ++ rest) = (uint_digits u, rest).
Proof.
  intros H. induction u; try (simpl; simpl in IHu; rewrite IHu; reflexivity).
  destruct rest as [|c t]; [reflexivity|]. cbn in *. now rewrite H.
Qed.

Lemma uint_of_digits_uint u : uint_of_digits (uint_digits u) = u.
Proof. induction u; cbn; try rewrite IHu; reflexivity. Qed.

Lemma uint_digits_head u : u <> Nil -> exists c t, uint_digits u = c :: t /\ is_digit c = true.
Proof. destruct u; intros H; try congruence; cbn; eexists; eexists; split; reflexivity. Qed.

Lemma pint_head z : exists c t, pint z = c :: t /\ (is_digit c = true \/ c = 45).
Proof.
  unfold pint. destruct z as [|p|p]; cbn [Z.to_int].
  - exists 48, []. split; [reflexivity|left; reflexivity].
  - destruct (uint_digits_head (Pos.to_uint p) (Unsigned.to_uint_nonnil p)) as (c & t & E & D).
    exists c, t. split; [exact E|left; exact D].
  - exists 45, (uint_digits (Pos.to_uint p)). split; [reflexivity|right; reflexivity].
Qed.

Lemma parse_int_print z rest : no_digit_head rest -> parse_int (pint z ++ rest) = Some (JInt z, rest).
Proof.
  intros H. unfold pint. pose proof (of_to z) as Hz. destruct (Z.to_int z) as [u|u] eqn:E.
  - assert (Hu : u <> Nil).
    { destruct z as [|p|p]; cbn in E; try discriminate; injection E as <-; [discriminate|apply Unsigned.to_uint_nonnil]. }
    destruct (uint_digits_head u Hu) as (c & t & Ec & Dc).
    assert (Hgo : (let '(ds, r) := take_digits (uint_digits u ++ rest) in
                   Some (JInt (Z.of_int (Pos (uint_of_digits ds))), r)) = Some (JInt z, rest)).
    { rewrite take_digits_uint by exact H. rewrite uint_of_digits_uint, Hz. reflexivity. }
    unfold parse_int. rewrite Ec in *. cbn [Datatypes.app] in *.
    destruct c as [|p]; [exact Hgo|]. do 6 (destruct p as [p|p|]; try exact Hgo). discriminate Dc.
  - change ((45 :: uint_digits u) ++ rest) with (45 :: (uint_digits u ++ rest)). unfold parse_int.
    rewrite take_digits_uint by exact H. rewrite uint_of_digits_uint, Hz. reflexivity.
Qed.

(* ---------- values ---------- *)
Fixpoint strip_prefix (p s : list N) : option (list N) :=
  match p, s with
  | [], _ => Some s
  | x :: p', y :: s' => if x =? y then strip_prefix p' s' else None
  | _ :: _, [] => None
  end.

Lemma strip_prefix_app p r : strip_prefix p (p ++ r) = Some r.
Proof. induction p as [|x p IH]; cbn; [reflexivity|]. now rewrite N.eqb_refl. Qed.

Fixpoint parse_val (fuel : nat) (s : list N) : option (json * list N) :=
  match fuel with
  | O => None
  | S f =>
      match s with
      | [] => None
      | c :: r =>
          if c =? 110 then match strip_prefix [117; 108; 108] r with Some r' => Some (JNull, r') | None => None end
          else if c =? 116 then match strip_prefix [114; 117; 101] r with Some r' => Some (JBool true, r') | None => None end
          else if c =? 102 then match strip_prefix [97; 108; 115; 101] r with Some r' => Some (JBool false, r') | None => None end
          else if c =? 34 then match parse_sbody r with Some (x, r') => Some (JStr x, r') | None => None end
          else if c =? 91 then
            match r with
            | 93 :: r' => Some (JArr [], r')
            | _ => match parse_elems f r with Some (l, r') => Some (JArr l, r') | None => None end
            end
          else if c =? 123 then
            match r with
            | 125 :: r' => Some (JObj [], r')
            | _ => match parse_members f r with Some (m, r') => Some (JObj m, r') | None => None end
            end
          else parse_int s
      end
  end
with parse_elems (fuel : nat) (s : list N) : option (list json * list N) :=
  match fuel with
  | O => None
  | S f =>
      match parse_val f s with
      | Some (v, 44 :: 32 :: r) => match parse_elems f r with Some (l, r') => Some (v :: l, r') | None => None end
      | Some (v, 93 :: r) => Some ([v], r)
      | _ => None
      end
  end
with parse_members (fuel : nat) (s : list N) : option (list (list N * json) * list N) :=
  match fuel with
  | O => None
  | S f =>
      match s with
      | 34 :: r =>
          match parse_sbody r with
          | Some (k, 58 :: 32 :: r1) =>
              match parse_val f r1 with
              | Some (v, 44 :: 32 :: r2) =>
                  match parse_members f r2 with Some (m, r') => Some ((k, v) :: m, r') | None => None end
              | Some (v, 125 :: r2) => Some ([(k, v)], r2)
              | _ => None
              end
          | _ => None
          end
      | _ => None
      end
  end.

Definition parse_raw (s : list N) : option json :=
  match parse_val (S (length s)) s with Some (j, []) => Some j | _ => None end.
Definition parse (s : list N) : option json := option_map canon (parse_raw s).

(* fuel measure *)
Fixpoint size (j : json) : nat :=
  match j with
  | JArr l => S (fold_right (fun x acc => S (size x + acc)) 0%nat l)
  | JObj m => S (fold_right (fun kv acc => S (size (snd kv) + acc)) 0%nat m)
  | _ => 1%nat
  end.
Definition lsize (l : list json) : nat := fold_right (fun x acc => S (size x + acc)) 0%nat l.
Definition msize (m : list (list N * json)) : nat := fold_right (fun kv acc => S (size (snd kv) + acc)) 0%nat m.

Lemma pstr_unfold s : pstr s = 34 :: (flat_map esc s ++ [34]).
Proof. reflexivity. Qed.

Lemma join_cons2 sep (x y : list N) l : join sep (x :: y :: l) = x ++ sep ++ join sep (y :: l).
Proof. reflexivity. Qed.

Lemma parse_elems_S f s : parse_elems (S f) s =
  match parse_val f s with
  | Some (v, 44 :: 32 :: r) => match parse_elems f r with Some (l, r') => Some (v :: l, r') | None => None end
  | Some (v, 93 :: r) => Some ([v], r)
  | _ => None
  end.
Proof. reflexivity. Qed.

Lemma parse_members_S f r : parse_members (S f) (34 :: r) =
  match parse_sbody r with
  | Some (k, 58 :: 32 :: r1) =>
      match parse_val f r1 with
      | Some (v, 44 :: 32 :: r2) =>
          match parse_members f r2 with Some (m, r') => Some ((k, v) :: m, r') | None => None end
      | Some (v, 125 :: r2) => Some ([(k, v)], r2)
      | _ => None
      end
  | _ => None
  end.
Proof. reflexivity. Qed.

Lemma print_raw_head j : exists c t, print_raw j = c :: t /\ c <> 93.
Proof.
  destruct j as [|b|z|s|l|m]; cbn [print_raw].
  - eexists; eexists; split; [reflexivity|discriminate].
  - destruct b; eexists; eexists; split; try reflexivity; discriminate.
  - destruct (pint_head z) as (c & t & Ec & Hc). exists c, t. split; [exact Ec|].
    destruct Hc as [Hd| ->]; [intros ->; discriminate Hd|discriminate].
  - eexists; eexists; split; [reflexivity|discriminate].
  - eexists; eexists; split; [reflexivity|discriminate].
  - eexists; eexists; split; [reflexivity|discriminate].
Qed.

Theorem parse_val_print : forall j rest fuel, no_digit_head rest -> (size j <= fuel)%nat ->
  parse_val (S fuel) (print_raw j ++ rest) = Some (j, rest).
Proof.
  induction j using json_ind2; intros rest fuel Hrest Hfuel.
  - reflexivity.
  - destruct b; reflexivity.
  - destruct (pint_head z) as (c & t & Ec & Hc). cbn [print_raw].
    pose proof (parse_int_print z rest Hrest) as Hp. rewrite Ec in *. cbn [Datatypes.app] in *. cbn [parse_val].
    assert (Hne : (c =? 110) = false /\ (c =? 116) = false /\ (c =? 102) = false /\ (c =? 34) = false /\
                  (c =? 91) = false /\ (c =? 123) = false).
    { destruct Hc as [Hd| ->]; [|repeat split; reflexivity].
      unfold is_digit in Hd. apply andb_prop in Hd. destruct Hd as [D1 D2]. apply N.leb_le in D1, D2.
      repeat split; apply N.eqb_neq; lia. }
    destruct Hne as (A1 & A2 & A3 & A4 & A5 & A6). rewrite A1, A2, A3, A4, A5, A6. exact Hp.
  - cbn [print_raw]. rewrite pstr_unfold. cbn [Datatypes.app parse_val]. cbn [N.eqb Pos.eqb].
    rewrite <- app_assoc. cbn [Datatypes.app]. rewrite sbody_print. reflexivity.
  - (* arrays *)
    cbn [print_raw]. cbn [Datatypes.app parse_val]. cbn [N.eqb Pos.eqb].
    destruct l as [|x l]; [reflexivity|].
    assert (Hel : forall l0 : list json, Forall (fun j => forall rest fuel, no_digit_head rest -> (size j <= fuel)%nat ->
                     parse_val (S fuel) (print_raw j ++ rest) = Some (j, rest)) l0 ->
                   forall x0 f, (lsize (x0 :: l0) <= f)%nat ->
                   (forall rest fuel, no_digit_head rest -> (size x0 <= fuel)%nat ->
                     parse_val (S fuel) (print_raw x0 ++ rest) = Some (x0, rest)) ->
                   parse_elems (S f) (join [44; 32] (map print_raw (x0 :: l0)) ++ 93 :: rest) = Some (x0 :: l0, rest)).
    { induction l0 as [|y l0 IHl]; intros HF x0 f Hf Hx0.
      - cbn [map join]. unfold lsize in Hf. cbn in Hf. destruct f as [|f]; [lia|].
        rewrite parse_elems_S, Hx0; [reflexivity|reflexivity|lia].
      - inversion HF as [|? ? Hy HF']; subst. cbn [map]. rewrite join_cons2. rewrite <- !app_assoc.
        cbn [Datatypes.app]. unfold lsize in Hf. cbn [fold_right] in Hf. destruct f as [|f]; [lia|].
        rewrite parse_elems_S, Hx0; [|reflexivity|lia]. cbv beta iota.
        change (print_raw y :: map print_raw l0) with (map print_raw (y :: l0)).
        rewrite (IHl HF' y f); [reflexivity| |exact Hy]. unfold lsize. cbn [fold_right]. lia. }
    inversion H as [|? ? Hx HF]; subst.
    assert (Hhead : exists c t, join [44; 32] (map print_raw (x :: l)) ++ 93 :: rest = c :: t /\ c <> 93).
    { destruct (print_raw_head x) as (c & t & Ec & Hc). cbn [map]. destruct l as [|y l].
      - cbn [map join]. rewrite Ec. eexists; eexists; split; [reflexivity|exact Hc].
      - cbn [map]. rewrite join_cons2, Ec. eexists; eexists; split; [reflexivity|exact Hc]. }
    destruct Hhead as (c & t & Eh & Hc93). cbn [size] in Hfuel. fold (lsize (x :: l)) in Hfuel.
    destruct fuel as [|f]; [lia|].
    rewrite <- app_assoc. cbn [Datatypes.app]. rewrite Eh. destruct (N.eq_dec c 93) as [->|_]; [congruence|].
    assert (Hpe : parse_elems (S f) (c :: t) = Some (x :: l, rest)).
    { rewrite <- Eh. apply Hel; [exact HF|lia|exact Hx]. }
    destruct c as [|p]; [rewrite Hpe; reflexivity|].
    do 7 (destruct p as [p|p|]; try (rewrite Hpe; reflexivity)). congruence.
  - (* objects *)
    cbn [print_raw]. cbn [Datatypes.app parse_val]. cbn [N.eqb Pos.eqb].
    destruct m as [|[k x] m]; [reflexivity|].
    assert (Hel : forall m0 : list (list N * json),
                   Forall (fun kv => forall rest fuel, no_digit_head rest -> (size (snd kv) <= fuel)%nat ->
                     parse_val (S fuel) (print_raw (snd kv) ++ rest) = Some (snd kv, rest)) m0 ->
                   forall k0 x0 f, (msize ((k0, x0) :: m0) <= f)%nat ->
                   (forall rest fuel, no_digit_head rest -> (size x0 <= fuel)%nat ->
                     parse_val (S fuel) (print_raw x0 ++ rest) = Some (x0, rest)) ->
                   parse_members (S f) (join [44; 32] (map (fun kv => pstr (fst kv) ++ [58; 32] ++ print_raw (snd kv)) ((k0, x0) :: m0)) ++ 125 :: rest)
                   = Some ((k0, x0) :: m0, rest)).
    { induction m0 as [|[k1 y] m0 IHm]; intros HF k0 x0 f Hf Hx0.
      - cbn [map join fst snd]. rewrite pstr_unfold. rewrite <- !app_assoc. cbn [Datatypes.app].
        rewrite <- app_assoc. cbn [Datatypes.app]. rewrite parse_members_S, sbody_print. cbv beta iota.
        unfold msize in Hf. cbn in Hf. destruct f as [|f]; [lia|]. rewrite Hx0; [reflexivity|reflexivity|lia].
      - inversion HF as [|? ? Hy HF']; subst. cbn [snd] in Hy. cbn [map]. rewrite join_cons2. cbn [fst snd].
        rewrite pstr_unfold. rewrite <- !app_assoc. cbn [Datatypes.app].
        rewrite <- app_assoc. cbn [Datatypes.app]. rewrite parse_members_S, sbody_print. cbv beta iota.
        unfold msize in Hf. cbn [fold_right snd] in Hf. destruct f as [|f]; [lia|].
        rewrite Hx0; [|reflexivity|lia]. cbv beta iota.
        pose proof (IHm HF' k1 y f) as IH2. cbn [map fst snd Datatypes.app] in IH2. rewrite IH2; [reflexivity| |exact Hy].
        unfold msize. cbn [fold_right snd]. lia. }
    inversion H as [|? ? Hx HF]; subst. cbn [snd] in Hx.
    cbn [size] in Hfuel. fold (msize ((k, x) :: m)) in Hfuel. destruct fuel as [|f]; [lia|].
    pose proof (Hel m HF k x f ltac:(lia) Hx) as Hpm.
    cbn [Datatypes.app] in Hpm. rewrite <- app_assoc. change ([125] ++ rest) with (125 :: rest).
    assert (Eh : exists t, join [44; 32] (map (fun kv => pstr (fst kv) ++ 58 :: 32 :: print_raw (snd kv)) ((k, x) :: m)) ++ 125 :: rest = 34 :: t).
    { cbn [map fst snd]. destruct m as [|kv m']; [cbn [map join]|cbn [map]; rewrite join_cons2];
        rewrite pstr_unfold; cbn [Datatypes.app]; eexists; reflexivity. }
    destruct Eh as (t & Eh). rewrite Eh in *. cbv beta iota. rewrite Hpm. reflexivity.
Qed.

(* ---------- the printed text is long enough to serve as fuel ---------- *)
Lemma join_len_ge (f : json -> list N) l :
  Forall (fun x => (size x <= length (f x))%nat) l -> (lsize l <= S (length (join [44; 32]%N (map f l))))%nat.
Proof.
  induction 1 as [|x l Hx HF IH]; [cbn; lia|]. destruct l as [|y l].
  - unfold lsize. cbn. lia.
  - cbn [map]. rewrite join_cons2. rewrite !app_length. unfold lsize in *. cbn [fold_right] in *. cbn [length]. cbn [map] in IH. lia.
Qed.

Lemma size_le_length : forall j, (size j <= length (print_raw j))%nat.
Proof.
  induction j using json_ind2.
  - cbn. lia.
  - destruct b; cbn; lia.
  - destruct (pint_head z) as (c & t & Ec & _). cbn [print_raw size]. rewrite Ec. cbn. lia.
  - cbn. lia.
  - cbn [print_raw size]. fold (lsize l). pose proof (join_len_ge print_raw l H) as J.
    cbn [length]. rewrite app_length. cbn [length]. lia.
  - cbn [print_raw size]. fold (msize m).
    assert (J : (msize m <= S (length (join [44; 32]%N (map (fun kv => pstr (fst kv) ++ [58; 32]%N ++ print_raw (snd kv)) m))))%nat).
    { clear -H. induction H as [|[k x] m Hx HF IH]; [cbn; lia|]. destruct m as [|[k2 y] m].
      - unfold msize. cbn [fold_right map join fst snd]. rewrite !app_length. cbn [length snd] in *. lia.
      - cbn [map]. rewrite join_cons2. rewrite !app_length. unfold msize in *. cbn [fold_right fst snd] in *.
        cbn [length]. cbn [map] in IH. cbn [fst snd] in *. lia. }
    cbn [length]. rewrite app_length. cbn [length]. lia.
Qed.

Theorem parse_raw_print_raw j : parse_raw (print_raw j) = Some j.
Proof.
  unfold parse_raw. pose proof (parse_val_print j [] (length (print_raw j)) I (size_le_length j)) as H.
  rewrite app_nil_r in H. rewrite H. reflexivity.
Qed.

(* ---------- canonical forms ---------- *)
Fixpoint ssorted (ord : list N -> list N -> comparison) (m : list (list N * json)) : Prop :=
  match m with
  | kv1 :: ((kv2 :: _) as t) => ord (fst kv1) (fst kv2) = Lt /\ ssorted ord t
  | _ => True
  end.

Inductive canonical : json -> Prop :=
| cn_null : canonical JNull
| cn_bool b : canonical (JBool b)
| cn_int z : canonical (JInt z)
| cn_str s : canonical (JStr s)
| cn_arr l : Forall canonical l -> canonical (JArr l)
| cn_obj m : ssorted key_cmp m -> Forall (fun kv => canonical (snd kv)) m -> canonical (JObj m).

Lemma key_cmp_opp a b : key_cmp b a = CompOpp (key_cmp a b).
Proof.
  unfold key_cmp. rewrite (Nat.compare_antisym (length a) (length b)).
  destruct (Nat.compare (length a) (length b)); cbn; try reflexivity. apply bytes_cmp_opp.
Qed.

Lemma key_cmp_eq a b : key_cmp a b = Eq -> a = b.
Proof. unfold key_cmp. destruct (Nat.compare (length a) (length b)); try discriminate. apply bytes_cmp_eq. Qed.

Section Sorting.
  Variable ord : list N -> list N -> comparison.
  Hypothesis ord_opp : forall a b, ord b a = CompOpp (ord a b).
  Hypothesis ord_eq : forall a b, ord a b = Eq -> a = b.

  Lemma insert_head k v m : ssorted ord m ->
    match kv_insert ord k v m with
    | kv :: _ => fst kv = k \/ (exists kv' m', m = kv' :: m' /\ fst kv = fst kv' /\ ord (fst kv') k = Lt)
    | [] => False
    end.
  Proof.
    destruct m as [|[k' v'] m']; [intros _; cbn; left; reflexivity|]. intros _. cbn [kv_insert].
    destruct (ord k k') eqn:E; cbn [fst]; try (left; reflexivity).
    right. exists (k', v'), m'. repeat split. cbn [fst]. rewrite ord_opp, E. reflexivity.
  Qed.

  Lemma insert_sorted k v : forall m, ssorted ord m -> ssorted ord (kv_insert ord k v m).
  Proof.
    induction m as [|[k' v'] m IH]; intros Hs; [exact I|]. cbn [kv_insert].
    destruct (ord k k') eqn:E.
    - apply ord_eq in E. subst k'. destruct m as [|kv2 m']; [exact I|]. exact Hs.
    - cbn [ssorted fst]. split; [exact E|exact Hs].
    - assert (Hs' : ssorted ord m) by (destruct m as [|kv2 m']; [exact I|apply Hs]).
      specialize (IH Hs'). pose proof (insert_head k v m Hs') as Hh.
      destruct (kv_insert ord k v m) as [|kv t] eqn:Ei; [contradiction|].
      cbn [ssorted fst]. split; [|exact IH].
      destruct Hh as [->|(kv' & m' & -> & -> & _)]; [rewrite ord_opp, E; reflexivity|apply Hs].
  Qed.

  Lemma sort_sorted m : ssorted ord (kv_sort ord m).
  Proof. induction m as [|[k v] m IH]; [exact I|]. cbn. apply insert_sorted. exact IH. Qed.

  Lemma sort_of_sorted : forall m, ssorted ord m -> kv_sort ord m = m.
  Proof.
    induction m as [|[k v] m IH]; intros Hs; [reflexivity|]. cbn [kv_sort fold_right fst snd].
    fold (kv_sort ord m). destruct m as [|[k2 v2] m'].
    - reflexivity.
    - destruct Hs as [Hlt Hs]. rewrite (IH Hs). cbn [kv_insert]. cbn [fst] in Hlt. rewrite Hlt. reflexivity.
  Qed.

  Lemma insert_Forall (P : list N * json -> Prop) k v : P (k, v) -> forall m, Forall P m -> Forall P (kv_insert ord k v m).
  Proof.
    intros Hk. induction m as [|[k' v'] m IH]; intros HF; cbn; [constructor; auto|].
    inversion HF as [|? ? H1 H2]; subst. destruct (ord k k'); constructor; auto.
  Qed.

  Lemma sort_Forall (P : list N * json -> Prop) m : Forall P m -> Forall P (kv_sort ord m).
  Proof.
    induction 1 as [|[k v] m H1 H2 IH]; [constructor|]. cbn. apply insert_Forall; assumption.
  Qed.
End Sorting.

Theorem canon_canonical : forall j, canonical (canon j).
Proof.
  induction j using json_ind2; [constructor|constructor|constructor|constructor| |].
  - cbn [canon]. constructor. rewrite Forall_map. exact H.
  - cbn [canon]. constructor.
    + apply sort_sorted; [apply key_cmp_opp|apply key_cmp_eq].
    + apply sort_Forall. rewrite Forall_map. exact H.
Qed.

Theorem canonical_fixed : forall j, canonical j -> canon j = j.
Proof.
  induction j using json_ind2; intros Hc; try reflexivity.
  - inversion Hc as [| | | |l0 HF|]; subst. cbn [canon]. f_equal.
    rewrite <- (map_id l) at 2. apply map_ext_Forall.
    rewrite Forall_forall in *. intros x Hx. apply H; [exact Hx|apply HF; exact Hx].
  - inversion Hc as [| | | | |m0 Hs HF]; subst. cbn [canon]. f_equal.
    assert (E : map (fun kv => (fst kv, canon (snd kv))) m = m).
    { rewrite <- (map_id m) at 2. apply map_ext_Forall.
      rewrite Forall_forall in *. intros [k v] Hx. cbn [fst snd]. f_equal. apply (H (k, v) Hx). apply (HF (k, v) Hx). }
    rewrite E. apply sort_of_sorted. exact Hs.
Qed.

Theorem canon_idempotent j : canon (canon j) = canon j.
Proof. apply canonical_fixed. apply canon_canonical. Qed.

(* parsing the printed form of a document yields its canonical form *)
Theorem parse_print j : parse (print j) = Some (canon j).
Proof. unfold parse, print. rewrite parse_raw_print_raw. cbn. now rewrite canon_idempotent. Qed.

Lemma parse_print_example :
  print (JObj [([98; 98], JInt (-12)%Z); ([97], JArr [JStr [34; 233]; JNull; JBool true]); ([98; 97], JObj [])]) =
    [123; 34;97;34; 58;32; 91; 34;92;34;233;34; 44;32; 110;117;108;108; 44;32; 116;114;117;101; 93; 44;32;
     34;98;97;34; 58;32; 123;125; 44;32; 34;98;98;34; 58;32; 45;49;50; 125] /\
  parse [123; 34;98;34; 58;32; 49; 44;32; 34;97;34; 58;32; 91;93; 125] = Some (JObj [([97], JArr []); ([98], JInt 1)]).
Proof. split; vm_compute; reflexivity. Qed.
