(* COPY for C28 of Codec/C32JsonProofs.v (the JSON document model of C32; do not edit -- re-copy instead). Proofs about the JSON document model (Codec/C28Json.v): path laws. *)
From Coq Require Import List NArith ZArith Bool Arith Lia.
Import ListNotations.
From GMS Require Import Codec.Charset Codec.JsonQuote Codec.C28Json.
Open Scope N_scope.

(* ---------- keys ---------- *)
Lemma bytes_cmp_refl a : bytes_cmp a a = Eq.
Proof. induction a as [|x a IH]; cbn; [reflexivity|]. rewrite N.compare_refl. exact IH. Qed.

Lemma bytes_cmp_eq a : forall b, bytes_cmp a b = Eq -> a = b.
Proof.
  induction a as [|x a IH]; intros [|y b] H; cbn in H; try discriminate; [reflexivity|].
  destruct (x ?= y) eqn:E; try discriminate. apply N.compare_eq in E. subst. f_equal. apply IH. exact H.
Qed.

Lemma key_eqb_refl k : key_eqb k k = true.
Proof. unfold key_eqb. now rewrite bytes_cmp_refl. Qed.

Lemma key_eqb_true k k' : key_eqb k k' = true -> k = k'.
Proof. unfold key_eqb. destruct (bytes_cmp k k') eqn:E; try discriminate. intros _. apply bytes_cmp_eq. exact E. Qed.

Lemma key_eqb_neq k k' : k <> k' -> key_eqb k k' = false.
Proof. intros H. destruct (key_eqb k k') eqn:E; [|reflexivity]. apply key_eqb_true in E. contradiction. Qed.

Lemma get_set_same k v m : obj_get k (obj_set k v m) = Some v.
Proof.
  induction m as [|[k' v'] m IH]; cbn; [now rewrite key_eqb_refl|].
  destruct (key_eqb k k') eqn:E; cbn; rewrite E; [reflexivity|exact IH].
Qed.

Lemma get_set_other k k2 v m : k <> k2 -> obj_get k2 (obj_set k v m) = obj_get k2 m.
Proof.
  intros Hne. induction m as [|[k' v'] m IH]; cbn.
  - rewrite key_eqb_neq by congruence. reflexivity.
  - destruct (key_eqb k k') eqn:E; cbn.
    + apply key_eqb_true in E. subst k'. rewrite key_eqb_neq by congruence. reflexivity.
    + destruct (key_eqb k2 k'); [reflexivity|exact IH].
Qed.

Lemma get_remove_same k m : obj_get k (obj_remove k m) = None.
Proof.
  induction m as [|[k' v'] m IH]; cbn; [reflexivity|].
  destruct (key_eqb k k') eqn:E; cbn; [exact IH|]. rewrite E. exact IH.
Qed.

Lemma nth_replace_same n v : forall l c, nth_error l n = Some c -> nth_error (replace_nth n v l) n = Some v.
Proof.
  induction n as [|n IH]; intros [|x l] c H; cbn in *; try discriminate; [reflexivity|]. eapply IH. exact H.
Qed.

Lemma nth_replace_other n v : forall l m, n <> m -> nth_error (replace_nth n v l) m = nth_error l m.
Proof.
  induction n as [|n IH]; intros [|x l] [|m] H; cbn; try reflexivity; try congruence. apply IH. congruence.
Qed.

Lemma replace_nth_length n v : forall l, length (replace_nth n v l) = length l.
Proof. induction n as [|n IH]; intros [|x l]; cbn; auto. Qed.

(* ---------- JSON_EXTRACT(JSON_SET(d, p, v), p) = v when the target exists ---------- *)
Theorem set_then_lookup v : forall p d old, lookup p d = Some old ->
  lookup p (fst (upd SET p d v)) = Some v /\ snd (upd SET p d v) = true.
Proof.
  induction p as [|lg p IH]; intros d old H; [cbn; auto|].
  destruct lg as [k|n]; cbn [lookup] in H.
  - destruct d as [| | | | |m]; try discriminate.
    destruct (obj_get k m) as [c|] eqn:G; [|discriminate].
    cbn [upd]. destruct p as [|lg2 p2].
    + cbn. rewrite get_set_same. auto.
    + rewrite G. destruct (IH c old H) as [A B].
      destruct (upd SET (lg2 :: p2) c v) as [c' ch] eqn:U. cbn [fst snd] in *. subst ch.
      cbn [fst snd lookup]. rewrite get_set_same. auto.
  - destruct d as [| | | |l|]; try discriminate.
    destruct (nth_error l n) as [c|] eqn:G; [|discriminate].
    cbn [upd]. rewrite G. destruct p as [|lg2 p2].
    + cbn. rewrite (nth_replace_same n v l c G). auto.
    + destruct (IH c old H) as [A B].
      destruct (upd SET (lg2 :: p2) c v) as [c' ch] eqn:U. cbn [fst snd] in *. subst ch.
      cbn [fst snd lookup]. rewrite (nth_replace_same n c' l c G). auto.
Qed.

(* ... and when the parent is an object, whether or not it already has the member *)
Theorem set_member_then_lookup v k : forall p d m, lookup p d = Some (JObj m) ->
  lookup (p ++ [LKey k]) (fst (upd SET (p ++ [LKey k]) d v)) = Some v /\ snd (upd SET (p ++ [LKey k]) d v) = true.
Proof.
  induction p as [|lg p IH]; intros d m H.
  - cbn in H. injection H as ->. cbn. rewrite get_set_same. auto.
  - assert (Hne : p ++ [LKey k] <> []) by (destruct p; discriminate).
    destruct lg as [k0|n]; cbn [lookup app] in *.
    + destruct d as [| | | | |m0]; try discriminate.
      destruct (obj_get k0 m0) as [c|] eqn:G; [|discriminate].
      cbn [upd]. destruct (p ++ [LKey k]) as [|lg2 p2] eqn:E; [congruence|]. rewrite G.
      destruct (IH c m H) as [A B]. destruct (upd SET (lg2 :: p2) c v) as [c' ch]. cbn [fst snd] in *. subst ch.
      cbn [fst snd lookup]. rewrite get_set_same. auto.
    + destruct d as [| | | |l|]; try discriminate.
      destruct (nth_error l n) as [c|] eqn:G; [|discriminate].
      cbn [upd]. rewrite G. destruct (p ++ [LKey k]) as [|lg2 p2] eqn:E; [congruence|].
      destruct (IH c m H) as [A B]. destruct (upd SET (lg2 :: p2) c v) as [c' ch]. cbn [fst snd] in *. subst ch.
      cbn [fst snd lookup]. rewrite (nth_replace_same n c' l c G). auto.
Qed.

(* ---------- JSON_REMOVE of an existing member makes JSON_CONTAINS_PATH false ---------- *)
Theorem remove_then_not_contains v k : forall p d old, lookup (p ++ [LKey k]) d = Some old ->
  contains_path (p ++ [LKey k]) (fst (upd REMOVE (p ++ [LKey k]) d v)) = false /\
  snd (upd REMOVE (p ++ [LKey k]) d v) = true.
Proof.
  unfold contains_path. induction p as [|lg p IH]; intros d old H.
  - cbn in H. destruct d as [| | | | |m]; try discriminate.
    destruct (obj_get k m) as [c|] eqn:G; [|discriminate].
    cbn. rewrite G. cbn. rewrite get_remove_same. auto.
  - assert (Hne : p ++ [LKey k] <> []) by (destruct p; discriminate).
    destruct lg as [k0|n]; cbn [lookup app] in *.
    + destruct d as [| | | | |m0]; try discriminate.
      destruct (obj_get k0 m0) as [c|] eqn:G; [|discriminate].
      cbn [upd]. destruct (p ++ [LKey k]) as [|lg2 p2] eqn:E; [congruence|]. rewrite G.
      destruct (IH c old H) as [A B]. destruct (upd REMOVE (lg2 :: p2) c v) as [c' ch]. cbn [fst snd] in *. subst ch.
      cbn [fst snd lookup]. rewrite get_set_same. auto.
    + destruct d as [| | | |l|]; try discriminate.
      destruct (nth_error l n) as [c|] eqn:G; [|discriminate].
      cbn [upd]. rewrite G. destruct (p ++ [LKey k]) as [|lg2 p2] eqn:E; [congruence|].
      destruct (IH c old H) as [A B]. destruct (upd REMOVE (lg2 :: p2) c v) as [c' ch]. cbn [fst snd] in *. subst ch.
      cbn [fst snd lookup]. rewrite (nth_replace_same n c' l c G). auto.
Qed.

(* ---------- JSON_ARRAY_APPEND adds exactly one element at the target ---------- *)
Theorem append_then_lookup v : forall p d t, lookup p d = Some t ->
  lookup p (fst (upd APPEND p d v)) = Some (append_to t v) /\ snd (upd APPEND p d v) = true.
Proof.
  induction p as [|lg p IH]; intros d t H; [cbn in *; injection H as ->; auto|].
  destruct lg as [k|n]; cbn [lookup] in H.
  - destruct d as [| | | | |m]; try discriminate.
    destruct (obj_get k m) as [c|] eqn:G; [|discriminate].
    cbn [upd]. destruct p as [|lg2 p2].
    + cbn in H. injection H as ->. rewrite G. cbn. rewrite get_set_same. auto.
    + rewrite G. destruct (IH c t H) as [A B].
      destruct (upd APPEND (lg2 :: p2) c v) as [c' ch]. cbn [fst snd] in *. subst ch.
      cbn [fst snd lookup]. rewrite get_set_same. auto.
  - destruct d as [| | | |l|]; try discriminate.
    destruct (nth_error l n) as [c|] eqn:G; [|discriminate].
    cbn [upd]. rewrite G. destruct (IH c t H) as [A B].
    destruct p as [|lg2 p2].
    + destruct (upd APPEND [] c v) as [c' ch]. cbn [fst snd] in *. subst ch.
      cbn [fst snd lookup]. rewrite (nth_replace_same n c' l c G). auto.
    + destruct (upd APPEND (lg2 :: p2) c v) as [c' ch]. cbn [fst snd] in *. subst ch.
      cbn [fst snd lookup]. rewrite (nth_replace_same n c' l c G). auto.
Qed.

Corollary append_adds_one v p d l : lookup p d = Some (JArr l) ->
  exists l', lookup p (fst (upd APPEND p d v)) = Some (JArr l') /\ l' = l ++ [v] /\ length l' = S (length l).
Proof.
  intros H. destruct (append_then_lookup v p d _ H) as [A _]. exists (l ++ [v]).
  split; [exact A|split; [reflexivity|]]. rewrite app_length. cbn. lia.
Qed.

(* ---------- frame: paths that diverge from the target are unchanged ---------- *)
Inductive diverge : list leg -> list leg -> Prop :=
| div_here l1 l2 p q : l1 <> l2 -> diverge (l1 :: p) (l2 :: q)
| div_next l p q : diverge p q -> diverge (l :: p) (l :: q).

Lemma lookup_key_on_set k k2 c q m : LKey k <> LKey k2 ->
  lookup (LKey k2 :: q) (JObj (obj_set k c m)) = lookup (LKey k2 :: q) (JObj m).
Proof. intros H. cbn. rewrite get_set_other by congruence. reflexivity. Qed.

Theorem frame md v : md <> REMOVE -> forall p q d t, lookup p d = Some t -> diverge p q ->
  lookup q (fst (upd md p d v)) = lookup q d.
Proof.
  intros Hmd. induction p as [|lg p IH]; intros q d t H Hd; [inversion Hd|].
  destruct lg as [k|n]; cbn [lookup] in H.
  - destruct d as [| | | | |m]; try discriminate.
    destruct (obj_get k m) as [c|] eqn:G; [|discriminate].
    (* whatever the mode does, the result is the document itself or JObj (obj_set k c' m) *)
    assert (Hres : fst (upd md (LKey k :: p) (JObj m) v) = JObj m \/
                   exists c', fst (upd md (LKey k :: p) (JObj m) v) = JObj (obj_set k c' m) /\
                              (forall q', diverge p q' -> lookup q' c' = lookup q' c)).
    { cbn [upd]. destruct p as [|lg2 p2].
      - destruct md; rewrite ?G; cbn; try (left; reflexivity); try congruence;
          right; eexists; (split; [reflexivity|intros q' Hq; inversion Hq]).
      - rewrite G. destruct (upd md (lg2 :: p2) c v) as [c' ch] eqn:U. destruct ch; [|left; reflexivity].
        right. exists c'. split; [reflexivity|]. intros q' Hq.
        specialize (IH q' c t H Hq). rewrite U in IH. exact IH. }
    destruct Hres as [->|(c' & -> & Hc')]; [reflexivity|].
    inversion Hd as [l1 l2 p0 q0 Hne|l p0 q0 Hdq]; subst.
    + destruct l2 as [k2|n2]; [apply lookup_key_on_set; exact Hne|reflexivity].
    + cbn. rewrite get_set_same, G. apply Hc'. exact Hdq.
  - destruct d as [| | | |l|]; try discriminate.
    destruct (nth_error l n) as [c|] eqn:G; [|discriminate].
    assert (Hres : fst (upd md (LIdx n :: p) (JArr l) v) = JArr l \/
                   exists c', fst (upd md (LIdx n :: p) (JArr l) v) = JArr (replace_nth n c' l) /\
                              (forall q', diverge p q' -> lookup q' c' = lookup q' c)).
    { cbn [upd]. rewrite G. destruct p as [|lg2 p2].
      - destruct md; cbn; try (left; reflexivity); try congruence;
          right; eexists; (split; [reflexivity|intros q' Hq; inversion Hq]).
      - assert (E : (match md with
                     | SET | _ => let '(c', ch) := upd md (lg2 :: p2) c v in
                                  if ch then (JArr (replace_nth n c' l), true) else (JArr l, false)
                     end) = (let '(c', ch) := upd md (lg2 :: p2) c v in
                             if ch then (JArr (replace_nth n c' l), true) else (JArr l, false)))
          by (destruct md; reflexivity).
        destruct md; cbn [fst];
        (destruct (upd _ (lg2 :: p2) c v) as [c' ch] eqn:U; destruct ch; [|left; reflexivity];
         right; exists c'; split; [reflexivity|]; intros q' Hq;
         specialize (IH q' c t H Hq); rewrite U in IH; exact IH). }
    destruct Hres as [->|(c' & -> & Hc')]; [reflexivity|].
    inversion Hd as [l1 l2 p0 q0 Hne|lg0 p0 q0 Hdq]; subst.
    + destruct l2 as [k2|n2]; [reflexivity|]. cbn. rewrite nth_replace_other by congruence. reflexivity.
    + cbn. rewrite (nth_replace_same n c' l c G), G. apply Hc'. exact Hdq.
Qed.
