(* Proofs about the Quote/Unquote model (Codec/JsonQuote.v). *)
From Coq Require Import List NArith Bool Arith Lia.
Import ListNotations.
From GMS Require Import Codec.Charset Codec.JsonQuote.
Open Scope N_scope.

Lemma rcons_nil r : rcons [] r = r.
Proof. destruct r; reflexivity. Qed.

Lemma rcons_rcons a b r : rcons a (rcons b r) = rcons (a ++ b) r.
Proof. destruct r; cbn; try reflexivity. now rewrite app_assoc. Qed.

Lemma unq_plain x t : x <> 92 -> unq (x :: t) = rcons [x] (unq t).
Proof. intros H. cbn [unq]. apply N.eqb_neq in H. rewrite H. reflexivity. Qed.

Lemma unqb_plain x t : x <> 92 -> unqb (x :: t) = rcons [x] (unqb t).
Proof. intros H. cbn [unqb]. apply N.eqb_neq in H. rewrite H. reflexivity. Qed.

Lemma below32 b : b < 32 -> In b (map N.of_nat (seq 0 32)).
Proof.
  intros H. rewrite <- (N2Nat.id b). apply in_map. apply in_seq. lia.
Qed.

Lemma decode4_control_b :
  forallb (fun b => match decode4 48 48 (hexdigit (b / 16)) (hexdigit (b mod 16)) with
                    | ROk [x] => x =? b | _ => false end) (map N.of_nat (seq 0 32)) = true.
Proof. vm_compute. reflexivity. Qed.

Lemma decode4_control b : b < 32 -> decode4 48 48 (hexdigit (b / 16)) (hexdigit (b mod 16)) = ROk [b].
Proof.
  intros H. pose proof decode4_control_b as A. rewrite forallb_forall in A. specialize (A b (below32 b H)).
  destruct (decode4 48 48 (hexdigit (b / 16)) (hexdigit (b mod 16))) as [[|x [|y l]]| |]; try discriminate.
  apply N.eqb_eq in A. subst x. reflexivity.
Qed.

(* every escape that Quote emits for an ASCII byte is undone by one step of Unquote / UnquoteBytes *)
Lemma unq_esc b t : b < 128 -> unq (esc b ++ t) = rcons [b] (unq t).
Proof.
  intros Hb. unfold esc.
  destruct (b =? 34) eqn:E1; [apply N.eqb_eq in E1; subst; reflexivity|].
  destruct (b =? 92) eqn:E2; [apply N.eqb_eq in E2; subst; reflexivity|].
  destruct (b =? 8) eqn:E3; [apply N.eqb_eq in E3; subst; reflexivity|].
  destruct (b =? 12) eqn:E4; [apply N.eqb_eq in E4; subst; reflexivity|].
  destruct (b =? 10) eqn:E5; [apply N.eqb_eq in E5; subst; reflexivity|].
  destruct (b =? 13) eqn:E6; [apply N.eqb_eq in E6; subst; reflexivity|].
  destruct (b =? 9) eqn:E7; [apply N.eqb_eq in E7; subst; reflexivity|].
  destruct (b <? 32) eqn:E8.
  - apply N.ltb_lt in E8. cbn [app unq]. cbn [N.eqb Pos.eqb]. rewrite (decode4_control b E8). reflexivity.
  - cbn [app]. apply unq_plain. apply N.eqb_neq. exact E2.
Qed.

Lemma unqb_esc b t : b < 128 -> unqb (esc b ++ t) = rcons [b] (unqb t).
Proof.
  intros Hb. unfold esc.
  destruct (b =? 34) eqn:E1; [apply N.eqb_eq in E1; subst; reflexivity|].
  destruct (b =? 92) eqn:E2; [apply N.eqb_eq in E2; subst; reflexivity|].
  destruct (b =? 8) eqn:E3; [apply N.eqb_eq in E3; subst; reflexivity|].
  destruct (b =? 12) eqn:E4; [apply N.eqb_eq in E4; subst; reflexivity|].
  destruct (b =? 10) eqn:E5; [apply N.eqb_eq in E5; subst; reflexivity|].
  destruct (b =? 13) eqn:E6; [apply N.eqb_eq in E6; subst; reflexivity|].
  destruct (b =? 9) eqn:E7; [apply N.eqb_eq in E7; subst; reflexivity|].
  destruct (b <? 32) eqn:E8.
  - apply N.ltb_lt in E8. cbn [app unqb]. cbn [N.eqb Pos.eqb]. rewrite (decode4_control b E8). reflexivity.
  - cbn [app]. apply unqb_plain. apply N.eqb_neq. exact E2.
Qed.

Lemma unq_fffd t : unq (fffd_escape ++ t) = rcons fffd_bytes (unq t).
Proof. reflexivity. Qed.

(* a lead byte whose decoded size is n >= 2 is followed by n-1 bytes >= 0x80 *)
Ltac brk := repeat match goal with
  | |- context[if ?c then _ else _] => destruct c eqn:?
  | |- context[match ?l with [] => _ | _ :: _ => _ end] => destruct l
  end.

Ltac fin := cbn; let H := fresh "H" in intros H;
  repeat match type of H with context[if ?c then _ else _] => destruct c end; discriminate H.

Lemma width_conts b t w : 128 <= b -> utf8_width (b :: t) = S (S w) ->
  forallb (fun c => 128 <=? c) (firstn (S w) t) = true.
Proof.
  intros Hb. unfold utf8_width.
  destruct (b <? 128) eqn:E0; [apply N.ltb_lt in E0; lia|].
  destruct ((b <? 194) || (244 <? b)); [discriminate|]. cbv zeta.
  set (lo := if b =? 224 then 160 else if b =? 240 then 144 else 128).
  set (hi := if b =? 237 then 159 else if b =? 244 then 143 else 191).
  assert (Hlo : 128 <= lo) by (unfold lo; destruct (b =? 224); [lia|destruct (b =? 240); lia]).
  destruct t as [|b1 t1].
  { destruct (b <? 224); [|destruct (b <? 240)]; fin. }
  destruct ((b1 <? lo) || (hi <? b1)) eqn:E1.
  { destruct (b <? 224); [|destruct (b <? 240)]; fin. }
  assert (H1 : (128 <=? b1) = true).
  { apply orb_false_elim in E1. destruct E1 as [E1 _]. apply N.ltb_ge in E1. apply N.leb_le. lia. }
  destruct (b <? 224) eqn:E2.
  { cbn. intros H. injection H as <-. cbn. rewrite H1. reflexivity. }
  destruct t1 as [|b2 t2].
  { destruct (b <? 240); fin. }
  destruct (negb (cont b2)) eqn:E3.
  { destruct (b <? 240); fin. }
  assert (H2 : (128 <=? b2) = true).
  { apply negb_false_iff in E3. unfold cont in E3. apply andb_prop in E3. apply E3. }
  destruct (b <? 240) eqn:E4.
  { cbn. intros H. injection H as <-. cbn. rewrite H1, H2. reflexivity. }
  destruct t2 as [|b3 t3]; [fin|].
  destruct (negb (cont b3)) eqn:E5; [fin|].
  assert (H3 : (128 <=? b3) = true).
  { apply negb_false_iff in E5. unfold cont in E5. apply andb_prop in E5. apply E5. }
  cbn. intros H. injection H as <-. cbn. rewrite H1, H2, H3. reflexivity.
Qed.

Definition conts_ok (k : nat) (s : list N) : Prop := forallb (fun c => 128 <=? c) (firstn k s) = true.

Lemma conts_ok_cons k b t : conts_ok (S k) (b :: t) -> b <> 92 /\ conts_ok k t.
Proof.
  unfold conts_ok. cbn. intros H. apply andb_prop in H. destruct H as [H1 H2]. apply N.leb_le in H1.
  split; [lia|exact H2].
Qed.

Lemma unq_qbody : forall s k tl, conts_ok k s -> unq (qbody k s ++ tl) = rcons (sanitize k s) (unq tl).
Proof.
  induction s as [|b t IH]; intros k tl Hk.
  - destruct k; cbn; now rewrite rcons_nil.
  - destruct k as [|k].
    + cbn [qbody sanitize]. destruct (b <? 128) eqn:E.
      * apply N.ltb_lt in E. rewrite <- app_assoc. rewrite (unq_esc b _ E).
        rewrite (IH 0%nat tl eq_refl). rewrite rcons_rcons. reflexivity.
      * apply N.ltb_ge in E. destruct (utf8_width (b :: t)) as [|[|w]] eqn:W.
        -- rewrite <- app_assoc. rewrite unq_fffd. rewrite (IH 0%nat tl eq_refl). now rewrite rcons_rcons.
        -- rewrite <- app_assoc. rewrite unq_fffd. rewrite (IH 0%nat tl eq_refl). now rewrite rcons_rcons.
        -- cbn [app]. rewrite unq_plain by lia.
           rewrite (IH (S w) tl (width_conts b t w E W)). now rewrite rcons_rcons.
    + apply conts_ok_cons in Hk. destruct Hk as [Hb Hk]. cbn [qbody sanitize app].
      rewrite unq_plain by exact Hb. rewrite (IH k tl Hk). now rewrite rcons_rcons.
Qed.

Lemma unqb_qbody : forall s k tl, conts_ok k s -> utf8_ok k s = true ->
  unqb (qbody k s ++ tl) = rcons s (unqb tl).
Proof.
  induction s as [|b t IH]; intros k tl Hk Hv.
  - destruct k; cbn; now rewrite rcons_nil.
  - destruct k as [|k].
    + cbn [qbody utf8_ok] in *. destruct (b <? 128) eqn:E.
      * apply N.ltb_lt in E. rewrite <- app_assoc. rewrite (unqb_esc b _ E).
        rewrite (IH 0%nat tl eq_refl Hv). rewrite rcons_rcons. reflexivity.
      * apply N.ltb_ge in E. destruct (utf8_width (b :: t)) as [|[|w]] eqn:W; try discriminate.
        cbn [app]. rewrite unqb_plain by lia.
        rewrite (IH (S w) tl (width_conts b t w E W) Hv). now rewrite rcons_rcons.
    + apply conts_ok_cons in Hk. destruct Hk as [Hb Hk]. cbn [qbody utf8_ok app] in *.
      rewrite unqb_plain by exact Hb. rewrite (IH k tl Hk Hv). now rewrite rcons_rcons.
Qed.

Lemma sanitize_valid : forall s k, utf8_ok k s = true -> sanitize k s = s.
Proof.
  induction s as [|b t IH]; intros k H; [destruct k; reflexivity|].
  destruct k as [|k]; cbn [sanitize utf8_ok] in *.
  - destruct (b <? 128); [now rewrite IH|].
    destruct (utf8_width (b :: t)) as [|[|w]]; try discriminate. now rewrite IH.
  - now rewrite IH.
Qed.

Lemma strip_quoted x : strip (34 :: x ++ [34]) = x.
Proof. unfold strip. rewrite rev_app_distr. cbn. apply rev_involutive. Qed.

Theorem unquote_quote s : unquote (quote s) = ROk (sanitize 0 s).
Proof.
  unfold unquote, quote. rewrite unq_plain by lia.
  rewrite (unq_qbody s 0%nat [34] eq_refl). rewrite rcons_rcons.
  cbn [unq N.eqb Pos.eqb rcons finish].
  change (([34] ++ sanitize 0 s) ++ [34] ++ []) with (34 :: sanitize 0 s ++ [34]). rewrite strip_quoted. reflexivity.
Qed.

Theorem unquote_quote_valid s : utf8_ok 0 s = true -> unquote (quote s) = ROk s.
Proof. intros H. rewrite unquote_quote. now rewrite sanitize_valid. Qed.

Theorem unquote_bytes_quote_valid s : utf8_ok 0 s = true -> unquote_bytes (quote s) = ROk s.
Proof.
  intros H. unfold unquote_bytes, quote. rewrite unqb_plain by lia.
  rewrite (unqb_qbody s 0%nat [34] eq_refl H). rewrite rcons_rcons.
  cbn [unqb N.eqb Pos.eqb rcons finish].
  change (([34] ++ s) ++ [34] ++ []) with (34 :: s ++ [34]). rewrite strip_quoted. reflexivity.
Qed.

(* pure ASCII is valid *)
Lemma ascii_utf8_ok s : forallb (fun b => b <? 128) s = true -> utf8_ok 0 s = true.
Proof.
  induction s as [|b t IH]; cbn; [reflexivity|]. intros H. apply andb_prop in H. destruct H as [H1 H2].
  rewrite H1. apply IH. exact H2.
Qed.

(* ---------- no crash (since d9436d51b) ---------- *)
Lemma rcons_nopanic p r : r <> RPanic -> rcons p r <> RPanic.
Proof. destruct r; cbn; congruence. Qed.

Lemma decode4_nopanic a b c d : decode4 a b c d <> RPanic.
Proof.
  unfold decode4. destruct (hexval a), (hexval b); try discriminate.
  destruct (hexval c), (hexval d); try discriminate.
  destruct ((55296 <=? _) && (_ <=? 57343)); discriminate.
Qed.

Lemma unq_nopanic_len : forall n s, (length s <= n)%nat -> unq s <> RPanic /\ unqb s <> RPanic.
Proof.
  induction n as [|n IH]; intros s Hl.
  - destruct s; cbn in *; [split; discriminate|lia].
  - destruct s as [|x t]; [split; discriminate|]. cbn [length] in Hl.
    assert (Ht : unq t <> RPanic /\ unqb t <> RPanic) by (apply IH; lia).
    cbn [unq unqb]. destruct (x =? 92).
    2:{ split; apply rcons_nopanic; apply Ht. }
    destruct t as [|c t']; [split; discriminate|]. cbn [length] in Hl.
    assert (Ht' : unq t' <> RPanic /\ unqb t' <> RPanic) by (apply IH; lia).
    destruct (c =? 117).
    2:{ split; apply rcons_nopanic; apply Ht'. }
    destruct t' as [|a [|b [|c2 [|d rest]]]]; try (split; discriminate).
    cbn [length] in Hl.
    assert (Hr : unq rest <> RPanic /\ unqb rest <> RPanic) by (apply IH; lia).
    pose proof (decode4_nopanic a b c2 d) as Hd.
    destruct (decode4 a b c2 d); try congruence; [|split; discriminate].
    split; apply rcons_nopanic; apply Hr.
Qed.

Theorem unquote_never_panics s : unquote s <> RPanic.
Proof.
  unfold unquote. pose proof (proj1 (unq_nopanic_len (length s) s (le_n _))) as H.
  destruct (unq s); cbn; congruence.
Qed.

Theorem unquote_bytes_never_panics s : unquote_bytes s <> RPanic.
Proof.
  unfold unquote_bytes. pose proof (proj2 (unq_nopanic_len (length s) s (le_n _))) as H.
  destruct (unqb s); cbn; congruence.
Qed.

(* what the former crash inputs return now *)
Theorem unquote_truncated_u t : (length t < 4)%nat ->
  unquote (92 :: 117 :: t) = RErr 1 /\ unquote_bytes (92 :: 117 :: t) = RErr 1.
Proof.
  intros H. destruct t as [|a [|b [|c [|d rest]]]]; cbn in H; try lia; split; reflexivity.
Qed.

Theorem unquote_surrogate_u a b c d rest : decode4 a b c d = RErr 1 ->
  unquote (92 :: 117 :: a :: b :: c :: d :: rest) = RErr 1 /\
  unquote_bytes (92 :: 117 :: a :: b :: c :: d :: rest) = RErr 1.
Proof.
  intros H. unfold unquote, unquote_bytes. cbn [unq unqb N.eqb Pos.eqb]. rewrite H. split; reflexivity.
Qed.

Lemma former_crash_inputs :
  unquote [92; 117; 49; 50; 51] = RErr 1 /\ decode4 100 56 48 48 = RErr 1 /\
  unquote [92; 117; 100; 56; 48; 48] = RErr 1 /\
  unquote [34; 92; 117; 100; 56; 51; 100; 92; 117; 100; 101; 48; 48; 34] = RErr 1 /\
  unquote_bytes [97; 92] = ROk [97; 92] /\ unquote [97; 92] = ROk [97; 92].
Proof. repeat split; vm_compute; reflexivity. Qed.

Lemma unquote_bytes_truncates :
  unquote_bytes [92; 117; 48; 48; 101; 57] = ROk [195] /\ unquote [92; 117; 48; 48; 101; 57] = ROk [195; 169].
Proof. split; vm_compute; reflexivity. Qed.
Lemma quote_examples :
  quote [97; 0; 31; 34; 92; 10; 127; 195; 169; 255] =
    [34; 97; 92;117;48;48;48;48; 92;117;48;48;49;102; 92;34; 92;92; 92;110; 127; 195;169; 92;117;102;102;102;100; 34] /\
  utf8_ok 0 [97; 0; 31; 34; 92; 10; 127; 195; 169; 240; 159; 152; 128] = true /\
  unquote [34; 97; 92; 34; 34] = ROk [97; 34] /\ unquote [92; 117; 49; 50] = RErr 1 /\
  unquote [92; 117; 48; 48; 122; 122] = RErr 2.
Proof. repeat split; vm_compute; reflexivity. Qed.
