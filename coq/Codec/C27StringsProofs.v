(* C27 — proofs about the string models of Codec/C27Strings.v *)
From Coq Require Import ZArith Bool List Lia.
Import ListNotations.
From GMS Require Import Codec.C25Arith Codec.C27Convert Codec.C27ConvertProofs Codec.C27Strings.
Open Scope Z_scope.

(* ---------- text into VARCHAR / CHAR / VARBINARY ---------- *)
(* the oracle's only assumed property: a string has at most as many runes as bytes *)
Theorem conv_text_exact_or_error binary maxlen bs nchars :
  nchars <= Z.of_nat (length bs) ->
  (forall out, conv_text binary maxlen bs nchars = TOk out ->
     out = bs /\ (if binary then Z.of_nat (length bs) else nchars) <= maxlen) /\
  (conv_text binary maxlen bs nchars = TErr -> maxlen < (if binary then Z.of_nat (length bs) else nchars)).
Proof.
  intros Hn. unfold conv_text. destruct binary.
  - destruct (Z.gtb_spec (Z.of_nat (length bs)) maxlen); split; intros; try discriminate; try lia.
    injection H0 as <-. split; [reflexivity|lia].
  - destruct (Z.gtb_spec (Z.of_nat (length bs)) maxlen); [destruct (Z.gtb_spec nchars maxlen)|];
      split; intros; try discriminate; try lia;
      match goal with H : TOk _ = TOk _ |- _ => injection H as <- end; (split; [reflexivity|lia]).
Qed.

Theorem conv_text_idempotent binary maxlen bs nchars out :
  conv_text binary maxlen bs nchars = TOk out -> conv_text binary maxlen out nchars = TOk out.
Proof.
  unfold conv_text. destruct binary.
  - destruct (Z.gtb_spec (Z.of_nat (length bs)) maxlen); intros HE; [discriminate|]. injection HE as <-.
    destruct (Z.gtb_spec (Z.of_nat (length bs)) maxlen); [lia|reflexivity].
  - destruct (Z.gtb_spec (Z.of_nat (length bs)) maxlen) as [G|G]; [destruct (Z.gtb_spec nchars maxlen) as [G2|G2]|];
      intros HE; try discriminate; injection HE as <-.
    + destruct (Z.gtb_spec (Z.of_nat (length bs)) maxlen); [|lia]. destruct (Z.gtb_spec nchars maxlen); [lia|reflexivity].
    + destruct (Z.gtb_spec (Z.of_nat (length bs)) maxlen); [lia|reflexivity].
Qed.

(* ---------- text into an integer type ---------- *)
(* in range without error means: the whole trimmed text was consumed, and the value is the parsed one *)
Theorem conv_int_str_in_range t bs out :
  t <> U64 -> conv_int_str t bs = COk out InRange ->
  exists z, str_to_i64 bs = SOk z false /\ out = mk t z /\ in_range t z.
Proof.
  intros Ht E. unfold conv_int_str in E. destruct (str_to_i64 bs) as [|z tr] eqn:S; [discriminate|].
  assert (N : t <> I64 -> (match narrow t z with COk v InRange => if tr then CErr else COk v InRange | o => o end)
                          = COk out InRange -> tr = false /\ out = mk t z /\ in_range t z).
  { intros _ H. destruct (narrow t z) as [|v f] eqn:Nw; [discriminate|].
    destruct f; try discriminate. destruct tr; [discriminate|]. injection H as <-.
    destruct (narrow_spec _ _ _ _ Nw) as [A _]. destruct (A eq_refl) as [-> R]. auto. }
  destruct t; try (destruct (N ltac:(discriminate) E) as (-> & -> & R); exists z; auto).
  - (* I64 *) destruct tr; [discriminate|]. injection E as <-. exists z. split; [reflexivity|]. split; [reflexivity|].
    unfold str_to_i64 in S. destruct (scan true (trim bs)) as [[p seen] rest].
    destruct (negb seen).
    + injection S as <- _. unfold in_range, ity_min, ity_max, min_i64, max_i64. lia.
    + destruct ((min_i64 <=? parse_signed p) && (parse_signed p <=? max_i64)) eqn:B; [|discriminate].
      injection S as <- _. apply andb_prop in B. destruct B as [B1 B2]. apply Z.leb_le in B1, B2.
      unfold in_range, ity_min, ity_max. lia.
Qed.

Theorem str_unreported_consumes_everything bs z :
  str_to_i64 bs = SOk z false -> snd (scan true (trim bs)) = [].
Proof.
  unfold str_to_i64. destruct (scan true (trim bs)) as [[p seen] rest]. cbn [snd].
  destruct rest; [reflexivity|]. cbn [is_nil negb]. destruct (negb seen); [discriminate|].
  destruct (_ && _); discriminate.
Qed.

(* REFUTED: "malformed text is rejected": a text without any digit -- empty, "-" or "+" -- converts to 0, in range,
   with no error *)
Lemma str_no_digit_silent :
  conv_int_str I32 [] = COk (SI 0) InRange /\ conv_int_str I8 [45] = COk (SI 0) InRange /\
  conv_int_str U16 [32; 43; 9] = COk (SU 0) InRange.
Proof. repeat split; vm_compute; reflexivity. Qed.

(* a clean literal: optional sign, then digits only (at least one) *)
Definition all_digits (ds : list Z) : Prop := Forall (fun b => is_digit b = true) ds.

Lemma drop_cut_head b l : is_cut b = false -> drop_cut (b :: l) = b :: l.
Proof. intros H. cbn [drop_cut]. rewrite H. reflexivity. Qed.

Lemma digit_not_cut b : is_digit b = true -> is_cut b = false.
Proof. unfold is_digit, is_cut. intros H. apply andb_prop in H. destruct H as [A B]. apply Z.leb_le in A, B.
  destruct (Z.eqb_spec b 32), (Z.eqb_spec b 9); try lia; reflexivity. Qed.
Lemma digit_not_sign b : is_digit b = true -> is_sign b = false.
Proof. unfold is_digit, is_sign. intros H. apply andb_prop in H. destruct H as [A B]. apply Z.leb_le in A, B.
  destruct (Z.eqb_spec b 45), (Z.eqb_spec b 43); try lia; reflexivity. Qed.

Lemma trim_clean l first last_ mid :
  l = first :: mid ++ [last_] \/ (l = [first] /\ last_ = first) ->
  is_cut first = false -> is_cut last_ = false -> trim l = l.
Proof.
  intros [->|[-> ->]] Hf Hl; unfold trim.
  - rewrite drop_cut_head by exact Hf. rewrite app_comm_cons, rev_unit.
    rewrite drop_cut_head by exact Hl.
    change (rev (last_ :: rev (first :: mid))) with (rev (rev (first :: mid)) ++ [last_]).
    rewrite rev_involutive. reflexivity.
  - rewrite drop_cut_head by exact Hf. cbn [rev app]. rewrite drop_cut_head by exact Hf. reflexivity.
Qed.

Lemma scan_digits ds : all_digits ds -> ds <> [] -> forall first, scan first ds = (ds, true, []).
Proof.
  intros H. induction H as [|b ds Hb Hds IH]; intros Hne first; [contradiction|].
  cbn [scan]. rewrite Hb. destruct ds as [|c ds'].
  - reflexivity.
  - rewrite (IH ltac:(discriminate) false). reflexivity.
Qed.

Lemma all_digits_last ds : all_digits ds -> ds <> [] -> exists mid l, (ds = mid ++ [l]) /\ is_digit l = true.
Proof.
  intros H Hne. destruct (exists_last Hne) as (mid & l & ->). exists mid, l. split; [reflexivity|].
  apply Forall_app in H. destruct H as [_ H]. inversion H. assumption.
Qed.

(* a clean unsigned or signed literal within BIGINT is parsed exactly and nothing is reported *)
Theorem str_clean_literal_exact ds :
  all_digits ds -> ds <> [] -> horner ds <= max_i64 ->
  str_to_i64 ds = SOk (horner ds) false /\ str_to_i64 (45 :: ds) = SOk (- horner ds) false.
Proof.
  intros H Hne Hr.
  assert (Hpos : 0 <= horner ds).
  { unfold horner. assert (G : forall l acc, Forall (fun b => is_digit b = true) l -> 0 <= acc ->
       0 <= fold_left (fun a b => a * 10 + (b - 48)) l acc).
    { induction l as [|b l IH]; intros acc Hl Ha; [exact Ha|]. cbn [fold_left]. inversion Hl as [|? ? Hb Hl']. subst.
      apply IH; [exact Hl'|]. unfold is_digit in Hb. apply andb_prop in Hb. destruct Hb as [A B]. apply Z.leb_le in A, B. lia. }
    apply G; [exact H|lia]. }
  destruct (all_digits_last ds H Hne) as (mid & l & E & Hl).
  assert (T1 : trim ds = ds).
  { destruct ds as [|f rest]; [contradiction|]. inversion H as [|? ? Hf Hrest]. subst.
    destruct mid as [|m0 mid'].
    - cbn [app] in E. injection E as -> ->. apply (trim_clean [l] l l []); [right; auto| |]; apply digit_not_cut; assumption.
    - cbn [app] in E. injection E as -> ->. apply (trim_clean _ m0 l mid'); [left; reflexivity| |]; apply digit_not_cut; assumption. }
  assert (T2 : trim (45 :: ds) = 45 :: ds).
  { apply (trim_clean _ 45 l mid); [left; rewrite E; reflexivity|reflexivity|apply digit_not_cut; exact Hl]. }
  split.
  - unfold str_to_i64. rewrite T1, (scan_digits ds H Hne true). cbn [negb is_nil].
    assert (P : parse_signed ds = horner ds).
    { destruct ds as [|b ds']; [contradiction|]. inversion H as [|? ? Hb _]. subst. unfold parse_signed.
      pose proof (digit_not_sign b Hb) as S. unfold is_sign in S. apply orb_false_elim in S. destruct S as [S1 S2].
      rewrite S1, S2. reflexivity. }
    rewrite P. destruct (Z.leb_spec min_i64 (horner ds)); [|unfold min_i64 in *; lia].
    destruct (Z.leb_spec (horner ds) max_i64); [reflexivity|lia].
  - assert (SC : scan true (45 :: ds) = (45 :: ds, true, [])).
    { cbn [scan]. change (is_digit 45) with false. change (is_sign 45) with true. cbn [andb].
      rewrite (scan_digits ds H Hne false). reflexivity. }
    unfold str_to_i64. rewrite T2, SC. cbn [negb is_nil].
    unfold parse_signed. change (45 =? 45) with true. cbv iota.
    destruct (Z.leb_spec min_i64 (- horner ds)); [|unfold min_i64, max_i64 in *; lia].
    destruct (Z.leb_spec (- horner ds) max_i64); [reflexivity|unfold max_i64 in *; lia].
Qed.

Lemma nonvacuous_strings :
  conv_int_str I8 [49; 50; 55] = COk (SI 127) InRange /\           (* "127" *)
  conv_int_str I8 [49; 50; 56] = COk (SI 127) Overflow /\          (* "128" *)
  conv_int_str I8 [49; 50; 97; 98] = CErr /\                       (* "12ab": truncated, reported *)
  conv_int_str I8 [51; 48; 48; 97] = COk (SI 127) Overflow /\      (* "300a" *)
  conv_int_str I64 [32; 45; 53; 9] = COk (SI (-5)) InRange /\      (* " -5\t" *)
  conv_int_str I64 [57;50;50;51;51;55;50;48;51;54;56;53;52;55;55;53;56;48;56] = CErr /\  (* 2^63 *)
  conv_text false 3 [230;151;165;230;156;172;232;170;158] 3 = TOk [230;151;165;230;156;172;232;170;158] /\
  conv_text false 3 [97;98;99;100] 4 = TErr /\ conv_text true 3 [195;169;49] 2 = TOk [195;169;49].
Proof. repeat split; vm_compute; reflexivity. Qed.
