(* Proofs about the RangeMap model (Codec/Charset.v): mixed-radix bijection per entry, rune-level and
   string-level round trips for every table satisfying the boolean well-formedness predicates, absence of
   slice/index/division failures for Decode and EncodeReplaceUnknown. *)
From Coq Require Import List NArith Bool Arith Lia.
Import ListNotations.
From GMS Require Import Codec.Charset.
Open Scope N_scope.

(* ---------- boolean equalities ---------- *)
Lemma ns_eqb_eq a b : ns_eqb a b = true -> a = b.
Proof.
  revert b. induction a as [|x a IH]; intros [|y b] H; cbn in H; try discriminate; try reflexivity.
  apply andb_prop in H. destruct H as [H1 H2]. apply N.eqb_eq in H1. apply IH in H2. congruence.
Qed.

Lemma bounds_eqb_eq a b : bounds_eqb a b = true -> a = b.
Proof.
  revert b. induction a as [|[x1 x2] a IH]; intros [|[y1 y2] b] H; cbn in H; try discriminate; try reflexivity.
  apply andb_prop in H. destruct H as [H1 H3]. apply andb_prop in H1. destruct H1 as [H1 H2].
  apply N.eqb_eq in H1. apply N.eqb_eq in H2. apply IH in H3. congruence.
Qed.

Lemma entry_eqb_eq a b : entry_eqb a b = true -> a = b.
Proof.
  unfold entry_eqb. intros H.
  apply andb_prop in H. destruct H as [H H4]. apply andb_prop in H. destruct H as [H H3].
  apply andb_prop in H. destruct H as [H1 H2].
  apply bounds_eqb_eq in H1. apply bounds_eqb_eq in H2. apply ns_eqb_eq in H3. apply ns_eqb_eq in H4.
  destruct a, b; cbn in *; congruence.
Qed.

(* ---------- mixed radix arithmetic ---------- *)
Lemma sizes_cons lo hi b : sizes ((lo, hi) :: b) = (hi - lo + 1) :: sizes b.
Proof. reflexivity. Qed.
Lemma bounds_ok_cons lo hi b : bounds_ok ((lo, hi) :: b) = (lo <=? hi) && (hi <? 256) && bounds_ok b.
Proof. reflexivity. Qed.
Local Arguments sizes : simpl never.
Local Arguments bounds_ok : simpl never.
Ltac step_cons := rewrite ?sizes_cons, ?bounds_ok_cons in *; cbn in *.
Ltac base_nil := unfold sizes, bounds_ok in *; cbn in *.

Lemma prod_sizes_pos b : bounds_ok b = true -> 0 < prod (sizes b).
Proof.
  induction b as [|[lo hi] b IH]; intros H; [base_nil; lia|step_cons].
  apply andb_prop in H. destruct H as [H1 H2]. apply andb_prop in H1. destruct H1 as [H1 H1'].
  apply N.leb_le in H1. specialize (IH H2). apply N.mul_pos_pos; [lia|exact IH].
Qed.

Lemma byte_sub x lo : lo <= x -> x < 256 -> (x + 256 - lo) mod 256 = x - lo.
Proof.
  intros H1 H2. replace (x + 256 - lo) with ((x - lo) + 1 * 256) by lia.
  rewrite N.mod_add by lia. apply N.mod_small. lia.
Qed.

Lemma increase_spec b : forall d, bounds_ok b = true -> contains b d = Some true ->
  exists v, increase b d (weights (sizes b)) = Some v /\ v < prod (sizes b).
Proof.
  induction b as [|[lo hi] b IH]; intros d Hb Hc; [base_nil|step_cons].
  - exists 0. split; [reflexivity|lia].
  - destruct d as [|x d]; [discriminate|].
    destruct ((x <? lo) || (hi <? x)) eqn:E; [discriminate|].
    apply orb_false_elim in E. destruct E as [E1 E2]. apply N.ltb_ge in E1. apply N.ltb_ge in E2.
    apply andb_prop in Hb. destruct Hb as [Hb1 Hb2]. apply andb_prop in Hb1. destruct Hb1 as [Hb1 Hb1'].
    apply N.leb_le in Hb1. apply N.ltb_lt in Hb1'. cbn [fst snd] in *.
    destruct (IH d Hb2 Hc) as (v & Hv & Hlt). rewrite Hv.
    eexists. split; [reflexivity|]. rewrite byte_sub by lia. nia.
Qed.

Lemma emit_total b : bounds_ok b = true -> forall v, exists o, emit b (weights (sizes b)) v = Some o.
Proof.
  induction b as [|[lo hi] b IH]; intros Hb v; [base_nil|step_cons].
  - exists []. reflexivity.
  - apply andb_prop in Hb. destruct Hb as [Hb1 Hb2].
    pose proof (prod_sizes_pos b Hb2) as Hp.
    destruct (prod (sizes b) =? 0) eqn:E; [apply N.eqb_eq in E; lia|].
    destruct (IH Hb2 (v - v / prod (sizes b) * prod (sizes b))) as (o & Ho). rewrite Ho. eexists. reflexivity.
Qed.

Lemma emit_spec b : forall v, bounds_ok b = true -> v < prod (sizes b) ->
  exists o, emit b (weights (sizes b)) v = Some o /\ contains b o = Some true /\ length o = length b /\
            increase b o (weights (sizes b)) = Some v.
Proof.
  induction b as [|[lo hi] b IH]; intros v Hb Hv; [base_nil|step_cons].
  - exists []. repeat split; try reflexivity. f_equal. lia.
  - apply andb_prop in Hb. destruct Hb as [Hb1 Hb2]. apply andb_prop in Hb1. destruct Hb1 as [Hb1 Hb1'].
    apply N.leb_le in Hb1. apply N.ltb_lt in Hb1'. cbn [fst snd] in *.
    pose proof (prod_sizes_pos b Hb2) as Hp. set (P := prod (sizes b)) in *.
    destruct (P =? 0) eqn:E; [apply N.eqb_eq in E; lia|].
    assert (Hd : v / P < hi - lo + 1) by (apply N.div_lt_upper_bound; [lia|rewrite N.mul_comm; exact Hv]).
    assert (Hle : v / P * P <= v) by (rewrite N.mul_comm; apply N.mul_div_le; lia).
    assert (Hm : v - v / P * P < P).
    { pose proof (N.mod_lt v P ltac:(lia)) as Hml. rewrite N.mod_eq in Hml by lia.
      rewrite (N.mul_comm P) in Hml. exact Hml. }
    set (q := v / P) in *.
    destruct (IH _ Hb2 Hm) as (o & Ho & Hc & Hl & Hi). rewrite Ho.
    eexists. split; [reflexivity|].
    assert (Hs : (lo + q) mod 256 = lo + q) by (apply N.mod_small; lia).
    rewrite Hs. cbn.
    replace ((lo + q <? lo) || (hi <? lo + q)) with false.
    2:{ symmetry. apply orb_false_intro; apply N.ltb_ge; lia. }
    repeat split; [exact Hc| now rewrite Hl |].
    rewrite Hi. f_equal. rewrite byte_sub by lia. replace (lo + q - lo) with q by lia. lia.
Qed.

Lemma emit_increase b : forall d v, bounds_ok b = true -> contains b d = Some true -> length d = length b ->
  increase b d (weights (sizes b)) = Some v -> emit b (weights (sizes b)) v = Some d.
Proof.
  induction b as [|[lo hi] b IH]; intros d v Hb Hc Hl Hi; [base_nil|step_cons].
  - destruct d; [reflexivity|discriminate].
  - destruct d as [|x d]; [discriminate|].
    destruct ((x <? lo) || (hi <? x)) eqn:E; [discriminate|].
    apply orb_false_elim in E. destruct E as [E1 E2]. apply N.ltb_ge in E1. apply N.ltb_ge in E2.
    apply andb_prop in Hb. destruct Hb as [Hb1 Hb2]. apply andb_prop in Hb1. destruct Hb1 as [Hb1 Hb1'].
    apply N.leb_le in Hb1. apply N.ltb_lt in Hb1'. cbn [fst snd] in *.
    pose proof (prod_sizes_pos b Hb2) as Hp. set (P := prod (sizes b)) in *.
    destruct (increase_spec b d Hb2 Hc) as (r & Hr & Hrlt). fold P in Hrlt.
    rewrite Hr in Hi. injection Hi as Hi. rewrite byte_sub in Hi by lia. subst v.
    destruct (P =? 0) eqn:E; [apply N.eqb_eq in E; lia|].
    assert (Hq : ((x - lo) * P + r) / P = x - lo).
    { rewrite N.div_add_l by lia. rewrite (N.div_small r P) by lia. lia. }
    rewrite Hq. replace ((x - lo) * P + r - (x - lo) * P) with r by lia.
    injection Hl as Hl. rewrite (IH d r Hb2 Hc Hl Hr).
    f_equal. f_equal. replace (lo + (x - lo)) with x by lia. apply N.mod_small. lia.
Qed.

(* ---------- one entry ---------- *)
Lemma wf_entry_parts e : wf_entry e = true ->
  bounds_ok (inR e) = true /\ bounds_ok (outR e) = true /\
  inM e = weights (sizes (inR e)) /\ outM e = weights (sizes (outR e)).
Proof.
  unfold wf_entry. intros H.
  apply andb_prop in H. destruct H as [H H4]. apply andb_prop in H. destruct H as [H H3].
  apply andb_prop in H. destruct H as [H1 H2].
  apply ns_eqb_eq in H3. apply ns_eqb_eq in H4. auto.
Qed.

Lemma entry_total e r : wf_entry e = true -> contains (inR e) r = Some true -> exists o, xlate_entry e r = Ok o.
Proof.
  intros Hw Hc. destruct (wf_entry_parts e Hw) as (B1 & B2 & M1 & M2).
  unfold xlate_entry. rewrite M1, M2.
  destruct (increase_spec _ _ B1 Hc) as (v & Hv & _). rewrite Hv.
  destruct (emit_total _ B2 v) as (o & Ho). rewrite Ho. eexists. reflexivity.
Qed.

Lemma entry_roundtrip e r : wf_entry e = true -> prod (sizes (inR e)) <= prod (sizes (outR e)) ->
  contains (inR e) r = Some true -> length r = length (inR e) ->
  exists o, xlate_entry e r = Ok o /\ contains (outR e) o = Some true /\ length o = length (outR e) /\
            xlate_entry (flip e) o = Ok r.
Proof.
  intros Hw Hcard Hc Hl. destruct (wf_entry_parts e Hw) as (B1 & B2 & M1 & M2).
  unfold xlate_entry. cbn [flip inR outR inM outM]. rewrite M1, M2.
  destruct (increase_spec _ _ B1 Hc) as (v & Hv & Hlt). rewrite Hv.
  destruct (emit_spec (outR e) v B2 ltac:(lia)) as (o & Ho & Hco & Hlo & Hio). rewrite Ho.
  exists o. repeat split; try assumption.
  rewrite Hio. rewrite (emit_increase _ _ _ B1 Hc Hl Hv). reflexivity.
Qed.

(* ---------- ranges ---------- *)
Lemma contains_some b : forall d, (length b <= length d)%nat -> exists t, contains b d = Some t.
Proof.
  induction b as [|[lo hi] b IH]; intros d H; cbn in *.
  - eexists. reflexivity.
  - destruct d as [|x d]; cbn in H; [lia|].
    destruct ((x <? lo) || (hi <? x)); [eexists; reflexivity|]. apply IH. lia.
Qed.

Lemma contains_length b : forall d, contains b d = Some true -> (length b <= length d)%nat.
Proof.
  induction b as [|[lo hi] b IH]; intros d H; cbn in *; [lia|].
  destruct d as [|x d]; [discriminate|]. destruct ((x <? lo) || (hi <? x)); [discriminate|].
  apply IH in H. cbn. lia.
Qed.

Lemma disjointb_sym a : forall b, disjointb a b = disjointb b a.
Proof.
  induction a as [|[l1 h1] a IH]; intros [|[l2 h2] b]; cbn; try reflexivity.
  rewrite IH. f_equal. apply orb_comm.
Qed.

(* a member of b1 cannot be equal to or a prefix of a member of b2 when the ranges are disjoint *)
Lemma disjoint_contains b1 : forall b2 d q, contains b1 d = Some true -> contains b2 (d ++ q) = Some true ->
  disjointb b1 b2 = false.
Proof.
  induction b1 as [|[l1 h1] b1 IH]; intros b2 d q H1 H2; [reflexivity|].
  destruct b2 as [|[l2 h2] b2]; [reflexivity|].
  cbn in *. destruct d as [|x d]; [discriminate|]. cbn in H2.
  destruct ((x <? l1) || (h1 <? x)) eqn:E1; [discriminate|].
  destruct ((x <? l2) || (h2 <? x)) eqn:E2; [discriminate|].
  apply orb_false_elim in E1. destruct E1 as [A1 A2]. apply orb_false_elim in E2. destruct E2 as [A3 A4].
  apply N.ltb_ge in A1, A2, A3, A4.
  rewrite (IH b2 d q H1 H2).
  replace (h1 <? l2) with false by (symmetry; apply N.ltb_ge; lia).
  replace (h2 <? l1) with false by (symmetry; apply N.ltb_ge; lia). reflexivity.
Qed.

Lemma pairwise_In {A} (f : A -> A -> bool) (Hsym : forall a b, f a b = f b a) l :
  pairwise f l = true -> forall x y, In x l -> In y l -> x = y \/ f x y = true.
Proof.
  induction l as [|a l IH]; cbn; intros H x y Hx Hy; [contradiction|].
  apply andb_prop in H. destruct H as [H1 H2]. rewrite forallb_forall in H1.
  destruct Hx as [<-|Hx], Hy as [<-|Hy].
  - left. reflexivity.
  - right. apply H1. exact Hy.
  - right. rewrite Hsym. apply H1. exact Hx.
  - apply IH; assumption.
Qed.

Lemma groups_ok_nth G : forall k i e, groups_ok k G = true -> In e (nth i G []) -> length (inR e) = (k + i)%nat.
Proof.
  induction G as [|g G IH]; intros k i e H Hin; cbn in *.
  - destruct i; contradiction.
  - apply andb_prop in H. destruct H as [H1 H2]. destruct i as [|i].
    + rewrite forallb_forall in H1. specialize (H1 _ Hin). apply Nat.eqb_eq in H1. lia.
    + rewrite (IH (S k) i e H2 Hin). lia.
Qed.

Lemma in_nth_concat {A} (G : list (list A)) : forall i e, In e (nth i G []) -> In e (concat G).
Proof.
  induction G as [|g G IH]; intros i e H; cbn in *.
  - destruct i; contradiction.
  - apply in_or_app. destruct i; [left; exact H|right; eapply IH; exact H].
Qed.

Lemma nth_nonempty_lt {A} (G : list (list A)) i e : In e (nth i G []) -> (i < length G)%nat.
Proof.
  intros H. destruct (Nat.lt_ge_cases i (length G)) as [Hlt|Hge]; [exact Hlt|].
  rewrite nth_overflow in H by exact Hge. contradiction.
Qed.

(* ---------- one direction of a table ---------- *)
Record side_ok (G G' : list (list entry)) : Prop := {
  so_groups : groups_ok 1 G = true;
  so_wf : forall e, In e (concat G) -> wf_entry e = true;
  so_disj : forall x y, In x (concat G) -> In y (concat G) -> x = y \/ disjointb (inR x) (inR y) = true;
  so_mem : forall e, In e (concat G) ->
           (1 <= length (outR e))%nat /\ In (flip e) (nth (length (outR e) - 1) G' [])
}.

Lemma wf_struct_side_ok G G' : wf_struct G G' = true -> side_ok G G'.
Proof.
  unfold wf_struct. intros H.
  apply andb_prop in H. destruct H as [H H4]. apply andb_prop in H. destruct H as [H H3].
  apply andb_prop in H. destruct H as [H1 H2].
  rewrite forallb_forall in H2. rewrite forallb_forall in H4.
  constructor.
  - exact H1.
  - exact H2.
  - apply (pairwise_In (fun a b => disjointb (inR a) (inR b))); [intros a b; apply disjointb_sym|exact H3].
  - intros e He. specialize (H4 e He). apply andb_prop in H4. destruct H4 as [A B].
    apply Nat.leb_le in A. split; [exact A|].
    apply existsb_exists in B. destruct B as (x & Hx & Heq). apply entry_eqb_eq in Heq. subst x. exact Hx.
Qed.

Section Side.
  Variables G G' : list (list entry).
  Hypothesis HS : side_ok G G'.

  Lemma first_match_inv g r : (forall e, In e g -> wf_entry e = true /\ length (inR e) = length r) ->
    first_match g r = Fail \/
    exists e o, In e g /\ contains (inR e) r = Some true /\ first_match g r = Ok o /\ xlate_entry e r = Ok o.
  Proof.
    induction g as [|e g IH]; intros Hg; cbn; [left; reflexivity|].
    destruct (Hg e (or_introl eq_refl)) as [Hw Hl].
    destruct (contains_some (inR e) r ltac:(lia)) as (t & Ht). rewrite Ht. destruct t.
    - right. destruct (entry_total e r Hw Ht) as (o & Ho). exists e, o. rewrite Ho. auto with datatypes.
    - destruct IH as [IH|(e' & o & A & B & C & D)]; [intros; apply Hg; right; assumption|left; exact IH|].
      right. exists e', o. auto with datatypes.
  Qed.

  Lemma first_match_intro g r e : In e g -> contains (inR e) r = Some true ->
    (forall e0, In e0 g -> length (inR e0) = length r) ->
    (forall e0, In e0 g -> e0 = e \/ disjointb (inR e0) (inR e) = true) ->
    first_match g r = xlate_entry e r.
  Proof.
    induction g as [|e0 g IH]; intros Hin Hc Hlen Hd; [contradiction|]. cbn.
    destruct (Hd e0 (or_introl eq_refl)) as [->|Hdis]; [rewrite Hc; reflexivity|].
    destruct (contains_some (inR e0) r) as (t & Ht); [rewrite (Hlen e0 (or_introl eq_refl)); lia|].
    rewrite Ht. destruct t.
    - pose proof (disjoint_contains (inR e0) (inR e) r [] Ht) as X. rewrite app_nil_r in X.
      rewrite (X Hc) in Hdis. discriminate.
    - destruct Hin as [->|Hin]; [rewrite Hc in Ht; discriminate|].
      apply IH; [exact Hin|exact Hc| |]; intros; [apply Hlen|apply Hd]; right; assumption.
  Qed.

  Lemma group_facts i e : In e (nth i G []) ->
    In e (concat G) /\ wf_entry e = true /\ length (inR e) = S i /\ (i < length G)%nat.
  Proof.
    intros H. pose proof (in_nth_concat G i e H) as Hc. repeat split.
    - exact Hc.
    - apply (so_wf _ _ HS). exact Hc.
    - rewrite (groups_ok_nth G 1 i e (so_groups _ _ HS) H). reflexivity.
    - eapply nth_nonempty_lt. exact H.
  Qed.

  Lemma lookup_inv c r : rune_lookup G c = Ok r ->
    exists e, In e (nth (length c - 1) G []) /\ contains (inR e) c = Some true /\ xlate_entry e c = Ok r /\
              (1 <= length c <= length G)%nat /\ length (inR e) = length c.
  Proof.
    unfold rune_lookup. destruct c as [|x c]; [discriminate|].
    destruct (length G <? length (x :: c))%nat eqn:E; [discriminate|]. apply Nat.ltb_ge in E.
    intros H.
    destruct (first_match_inv (nth (length c) G []) (x :: c)) as [F|(e & o & A & B & C & D)].
    - intros e He. destruct (group_facts _ _ He) as (_ & W & L & _). split; [exact W|exact L].
    - rewrite F in H. discriminate.
    - rewrite C in H. injection H as ->. exists e. replace (length (x :: c) - 1)%nat with (length c) by (cbn; lia).
      destruct (group_facts _ _ A) as (_ & _ & L & _).
      repeat split; try assumption; cbn in *; lia.
  Qed.

  Lemma lookup_intro c e : In e (nth (length c - 1) G []) -> (1 <= length c)%nat ->
    contains (inR e) c = Some true -> rune_lookup G c = xlate_entry e c.
  Proof.
    intros Hin Hl Hc. destruct c as [|x c]; [cbn in Hl; lia|].
    replace (length (x :: c) - 1)%nat with (length c) in Hin by (cbn; lia).
    destruct (group_facts _ _ Hin) as (Hcc & _ & _ & Hlt).
    unfold rune_lookup. replace (length G <? length (x :: c))%nat with false.
    2:{ symmetry. apply Nat.ltb_ge. cbn. lia. }
    apply first_match_intro; [exact Hin|exact Hc| |].
    - intros e0 He0. destruct (group_facts _ _ He0) as (_ & _ & L & _). exact L.
    - intros e0 He0. destruct (group_facts _ _ He0) as (C0 & _ & _ & _).
      apply (so_disj _ _ HS); assumption.
  Qed.

  Lemma lookup_nopanic c : c <> [] -> rune_lookup G c <> Panic.
  Proof.
    intros Hne. unfold rune_lookup. destruct c as [|x c]; [congruence|].
    destruct (length G <? length (x :: c))%nat; [discriminate|].
    destruct (first_match_inv (nth (length c) G []) (x :: c)) as [F|(e & o & A & B & C & D)].
    - intros e He. destruct (group_facts _ _ He) as (_ & W & L & _). split; [exact W|exact L].
    - rewrite F. discriminate.
    - rewrite C. discriminate.
  Qed.

  Lemma lookup_prefix_free c r L r' : rune_lookup G c = Ok r -> (1 <= L < length c)%nat ->
    rune_lookup G (firstn L c) = Ok r' -> False.
  Proof.
    intros H1 HL H2.
    destruct (lookup_inv _ _ H1) as (e1 & I1 & C1 & _ & _ & L1).
    destruct (lookup_inv _ _ H2) as (e2 & I2 & C2 & _ & _ & L2).
    destruct (group_facts _ _ I1) as (M1 & _ & _ & _). destruct (group_facts _ _ I2) as (M2 & _ & _ & _).
    rewrite firstn_length in L2.
    destruct (so_disj _ _ HS e2 e1 M2 M1) as [->|D].
    - lia.
    - pose proof (disjoint_contains (inR e2) (inR e1) (firstn L c) (skipn L c) C2) as X.
      rewrite firstn_skipn in X. rewrite (X C1) in D. discriminate.
  Qed.
End Side.

(* rune-level round trip: what DecodeRune produces, EncodeRune maps back (and the same with the roles swapped) *)
Lemma rune_roundtrip G G' c r : side_ok G G' -> side_ok G' G -> card_le G = true ->
  rune_lookup G c = Ok r -> rune_lookup G' r = Ok c /\ r <> [].
Proof.
  intros HS HS' Hcard H.
  destruct (lookup_inv G G' HS c r H) as (e & Hin & Hc & Hx & Hlen & Hle).
  destruct (group_facts G G' HS _ _ Hin) as (Hcc & Hw & _ & _).
  unfold card_le in Hcard. rewrite forallb_forall in Hcard. specialize (Hcard e Hcc). apply N.leb_le in Hcard.
  destruct (entry_roundtrip e c Hw Hcard Hc (eq_sym Hle)) as (o & Ho & Hco & Hlo & Hback).
  rewrite Hx in Ho. injection Ho as <-.
  destruct (so_mem _ _ HS e Hcc) as (Hpos & Hmem).
  split; [|intros ->; cbn in Hlo; lia].
  rewrite (lookup_intro G' G HS' r (flip e)); [exact Hback| | |].
  - rewrite Hlo. exact Hmem.
  - lia.
  - exact Hco.
Qed.

(* ---------- the outer loop ---------- *)
Lemma skipn_length_app {A} (a b : list A) : skipn (length a) (a ++ b) = b.
Proof. induction a; cbn; auto. Qed.

Lemma firstn_prefix {A} (a b : list A) n : (n <= length a)%nat -> firstn n (a ++ b) = firstn n a.
Proof.
  intros H. rewrite firstn_app. replace (n - length a)%nat with 0%nat by lia. cbn. apply app_nil_r.
Qed.

Lemma loop_build step cs rs :
  Forall2 (fun c r => c <> [] /\ forall rest, step (c ++ rest) = Ok (length c, r)) cs rs ->
  forall fuel, (length (concat cs) <= fuel)%nat -> loop fuel step (concat cs) = Ok (concat rs).
Proof.
  induction 1 as [|c r cs rs [Hne Hstep] HF IH]; intros fuel Hfuel; cbn.
  - destruct fuel; reflexivity.
  - cbn in Hfuel. rewrite app_length in Hfuel.
    destruct c as [|x c]; [congruence|]. cbn [app]. destruct fuel as [|f]; [cbn in Hfuel; lia|].
    cbn [loop]. change (x :: c ++ concat cs) with ((x :: c) ++ concat cs).
    rewrite Hstep. rewrite skipn_length_app. rewrite IH by (cbn in Hfuel; lia). reflexivity.
Qed.

Lemma loop_inv step (P : list N -> list N -> Prop) :
  (forall str L r, step str = Ok (L, r) -> (1 <= L <= length str)%nat /\ P (firstn L str) r) ->
  forall fuel str out, loop fuel step str = Ok out ->
  exists cs rs, str = concat cs /\ out = concat rs /\ Forall2 P cs rs.
Proof.
  intros Hstep. induction fuel as [|f IH]; intros str out H.
  - destruct str; cbn in H; [|discriminate]. injection H as <-. exists [], []. auto.
  - destruct str as [|x t]; cbn [loop] in H.
    + injection H as <-. exists [], []. auto.
    + destruct (step (x :: t)) as [[L r]| |] eqn:E; try discriminate.
      destruct (loop f step (skipn L (x :: t))) as [rest| |] eqn:E2; try discriminate.
      injection H as <-. destruct (Hstep _ _ _ E) as [HL HP].
      destruct (IH _ _ E2) as (cs & rs & A & B & C).
      exists (firstn L (x :: t) :: cs), (r :: rs). cbn [concat]. rewrite <- A, <- B.
      rewrite firstn_skipn. auto.
Qed.

Lemma loop_nopanic step :
  (forall str, str <> [] -> step str <> Panic) ->
  (forall str L r, step str = Ok (L, r) -> (1 <= L)%nat) ->
  forall fuel str, (length str <= fuel)%nat -> loop fuel step str <> Panic.
Proof.
  intros Hnp Hpos. induction fuel as [|f IH]; intros str Hl.
  - destruct str; cbn in *; [discriminate|lia].
  - destruct str as [|x t]; cbn [loop]; [discriminate|].
    destruct (step (x :: t)) as [[L r]| |] eqn:E; [|discriminate|exfalso; eapply Hnp; [|exact E]; discriminate].
    pose proof (Hpos _ _ _ E) as HL.
    assert (Hs : (length (skipn L (x :: t)) <= f)%nat) by (rewrite skipn_length; cbn [length] in *; lia).
    specialize (IH _ Hs). destruct (loop f step (skipn L (x :: t))); [discriminate|discriminate|congruence].
Qed.

Lemma loop_total step :
  (forall str, str <> [] -> exists L r, step str = Ok (L, r) /\ (1 <= L)%nat) ->
  forall fuel str, (length str <= fuel)%nat -> exists out, loop fuel step str = Ok out.
Proof.
  intros Hst. induction fuel as [|f IH]; intros str Hl.
  - destruct str; cbn in *; [eexists; reflexivity|lia].
  - destruct str as [|x t]; cbn [loop]; [eexists; reflexivity|].
    destruct (Hst (x :: t) ltac:(discriminate)) as (L & r & E & HL). rewrite E.
    assert (Hs : (length (skipn L (x :: t)) <= f)%nat) by (rewrite skipn_length; cbn [length] in *; lia).
    destruct (IH _ Hs) as (o & Ho). rewrite Ho. eexists. reflexivity.
Qed.

(* ---------- Decode ---------- *)
Lemma firstn_nonempty {A} (l : list A) L : (1 <= L <= length l)%nat -> firstn L l <> [].
Proof. intros H E. apply (f_equal (@length A)) in E. rewrite firstn_length in E. cbn in E. lia. Qed.

Section Strings.
  Variables G G' : list (list entry).
  Hypothesis HS : side_ok G G'.

  Lemma dec_try_inv str : forall k L L' r, dec_try G str k L = Ok (L', r) ->
    (L <= L' <= length str)%nat /\ rune_lookup G (firstn L' str) = Ok r.
  Proof.
    induction k as [|k IH]; intros L L' r H; cbn [dec_try eru_try] in H; [discriminate|].
    destruct (length str <? L)%nat eqn:E; [discriminate|]. apply Nat.ltb_ge in E.
    destruct (rune_lookup G (firstn L str)) as [r0| |] eqn:E2; try discriminate.
    - injection H as <- <-. split; [lia|exact E2].
    - destruct (IH _ _ _ H) as [A B]. split; [lia|exact B].
  Qed.

  Lemma dec_try_nopanic str : forall k L, (1 <= L)%nat -> dec_try G str k L <> Panic.
  Proof.
    induction k as [|k IH]; intros L HL; cbn [dec_try eru_try]; [discriminate|].
    destruct (length str <? L)%nat eqn:E; [discriminate|]. apply Nat.ltb_ge in E.
    destruct (rune_lookup G (firstn L str)) eqn:E2; [discriminate|apply IH; lia|].
    exfalso. eapply (lookup_nopanic G G' HS); [|exact E2]. apply firstn_nonempty. lia.
  Qed.

  Lemma dec_try_hit c r rest : rune_lookup G c = Ok r ->
    forall k L, (1 <= L <= length c)%nat -> (length c < L + k)%nat ->
    dec_try G (c ++ rest) k L = Ok (length c, r).
  Proof.
    intros Hc. induction k as [|k IH]; intros L HL Hk; [lia|]. cbn [dec_try eru_try].
    replace (length (c ++ rest) <? L)%nat with false.
    2:{ symmetry. apply Nat.ltb_ge. rewrite app_length. lia. }
    rewrite firstn_prefix by lia.
    destruct (Nat.eq_dec L (length c)) as [->|Hne].
    - rewrite firstn_all. rewrite Hc. reflexivity.
    - destruct (rune_lookup G (firstn L c)) eqn:E.
      + exfalso. eapply (lookup_prefix_free G G' HS c r L); [exact Hc|lia|exact E].
      + apply IH; lia.
      + exfalso. eapply (lookup_nopanic G G' HS); [|exact E]. apply firstn_nonempty. lia.
  Qed.

  Lemma eru_try_spec str : forall k L, (1 <= L)%nat ->
    exists L' r, eru_try G str k L = Ok (L', r) /\ (L <= L')%nat.
  Proof.
    induction k as [|k IH]; intros L HL; cbn [dec_try eru_try]; [exists L, []; auto|].
    destruct (length str <? L)%nat eqn:E; [exists L, []; auto|]. apply Nat.ltb_ge in E.
    destruct (rune_lookup G (firstn L str)) as [r0| |] eqn:E2.
    - exists L, r0. auto.
    - destruct (IH (S L) ltac:(lia)) as (L' & r & A & B). exists L', r. split; [exact A|lia].
    - exfalso. eapply (lookup_nopanic G G' HS); [|exact E2]. apply firstn_nonempty. lia.
  Qed.
End Strings.

(* ---------- main theorems ---------- *)
Lemma wf_map_parts rm : wf_map rm = true ->
  side_ok (in_groups rm) (out_groups rm) /\ side_ok (out_groups rm) (in_groups rm) /\
  length (in_groups rm) = length (out_groups rm) /\ card_le (in_groups rm) = true.
Proof.
  unfold wf_map. intros H.
  apply andb_prop in H. destruct H as [H H4]. apply andb_prop in H. destruct H as [H H3].
  apply andb_prop in H. destruct H as [H1 H2]. apply Nat.eqb_eq in H3.
  split; [apply wf_struct_side_ok; exact H1|]. split; [apply wf_struct_side_ok; exact H2|].
  split; [|exact H4]. unfold in_groups, out_groups. rewrite map_length. exact H3.
Qed.

Lemma Forall2_flip' {A B} (P : A -> B -> Prop) l1 l2 :
  Forall2 P l1 l2 -> Forall2 (fun b a => P a b) l2 l1.
Proof. induction 1; constructor; assumption. Qed.

Lemma Forall2_impl' {A B} (P Q : A -> B -> Prop) l1 l2 :
  (forall a b, P a b -> Q a b) -> Forall2 P l1 l2 -> Forall2 Q l1 l2.
Proof. intros H. induction 1; constructor; auto. Qed.

Lemma decode_step_hit rm c r : wf_map rm = true -> decode_rune rm c = Ok r ->
  c <> [] /\ forall rest, decode_step rm (c ++ rest) = Ok (length c, r).
Proof.
  intros Hw Hc. destruct (wf_map_parts rm Hw) as (S1 & S2 & Hlen & Hcard).
  destruct (lookup_inv _ _ S1 c r Hc) as (e & _ & _ & _ & Hl & _).
  split; [intros ->; cbn in Hl; lia|]. intros rest. unfold decode_step.
  apply (dec_try_hit _ _ S1); [exact Hc| |]; unfold in_groups in *; lia.
Qed.

Lemma encode_step_hit rm r c hid : wf_map rm = true -> encode_rune rm r = Ok c ->
  r <> [] /\ forall rest, encode_step rm hid (r ++ rest) = Ok (length r, c).
Proof.
  intros Hw Hc. destruct (wf_map_parts rm Hw) as (S1 & S2 & Hlen & Hcard).
  destruct (lookup_inv _ _ S2 r c Hc) as (e & _ & _ & _ & Hl & _).
  split; [intros ->; cbn in Hl; lia|]. intros rest. unfold encode_step.
  apply (dec_try_hit _ _ S2); [exact Hc| |]; unfold in_groups in *; lia.
Qed.

Lemma decode_step_inv rm str L r : decode_step rm str = Ok (L, r) ->
  (1 <= L <= length str)%nat /\ decode_rune rm (firstn L str) = Ok r.
Proof. unfold decode_step. intros H. apply dec_try_inv in H. exact H. Qed.

Lemma encode_step_inv rm hid str L r : encode_step rm hid str = Ok (L, r) ->
  (1 <= L <= length str)%nat /\ encode_rune rm (firstn L str) = Ok r.
Proof. unfold encode_step. intros H. apply dec_try_inv in H. exact H. Qed.

Lemma build_both rm cs rs hid : wf_map rm = true ->
  Forall2 (fun c r => decode_rune rm c = Ok r) cs rs ->
  decode rm (concat cs) = Ok (concat rs) /\ encode rm (concat rs) hid = Ok (concat cs).
Proof.
  intros Hw HF. destruct (wf_map_parts rm Hw) as (S1 & S2 & Hlen & Hcard). split.
  - unfold decode. apply loop_build; [|lia].
    eapply Forall2_impl'; [|exact HF]. intros c r H. apply decode_step_hit; assumption.
  - unfold encode. apply loop_build; [|lia]. apply Forall2_flip'.
    eapply Forall2_impl'; [|exact HF]. intros c r H. cbn beta.
    apply encode_step_hit; [exact Hw|].
    destruct (rune_roundtrip _ _ c r S1 S2 Hcard H) as [A _]. exact A.
Qed.

Theorem encode_after_decode rm c s hid : wf_map rm = true -> decode rm c = Ok s -> encode rm s hid = Ok c.
Proof.
  intros Hw H. unfold decode in H.
  destruct (loop_inv (decode_step rm) (fun c r => decode_rune rm c = Ok r) (decode_step_inv rm) _ _ _ H)
    as (cs & rs & -> & -> & HF).
  apply (build_both rm cs rs hid Hw HF).
Qed.

Theorem decode_after_encode rm s hid c : wf_exact rm = true -> encode rm s hid = Ok c -> decode rm c = Ok s.
Proof.
  unfold wf_exact. intros Hw H. apply andb_prop in Hw. destruct Hw as [Hw Hcard'].
  destruct (wf_map_parts rm Hw) as (S1 & S2 & Hlen & Hcard). unfold encode in H.
  destruct (loop_inv (encode_step rm hid) (fun r c => encode_rune rm r = Ok c) (encode_step_inv rm hid) _ _ _ H)
    as (rs & cs & -> & -> & HF).
  apply (build_both rm cs rs hid Hw). apply Forall2_flip'.
  eapply Forall2_impl'; [|exact HF]. intros r c Hrc. cbn beta.
  destruct (rune_roundtrip _ _ r c S2 S1 Hcard' Hrc) as [A _]. exact A.
Qed.

(* a character (given by its UTF-8 bytes r) is representable when the character set has a code for it *)
Definition representable (rm : rangemap) (r : list N) : Prop := exists c, decode_rune rm c = Ok r.

Theorem roundtrip_representable rm rs hid : wf_map rm = true -> Forall (representable rm) rs ->
  exists c, encode rm (concat rs) hid = Ok c /\ decode rm c = Ok (concat rs).
Proof.
  intros Hw HF.
  assert (exists cs, Forall2 (fun c r => decode_rune rm c = Ok r) cs rs) as (cs & H2).
  { induction HF as [|r rs [c Hc] _ (cs & IH)]; [exists []; constructor|]. exists (c :: cs). constructor; assumption. }
  destruct (build_both rm cs rs hid Hw H2) as [A B]. exists (concat cs). auto.
Qed.

Theorem decode_rune_encode_rune rm c r : wf_map rm = true -> decode_rune rm c = Ok r -> encode_rune rm r = Ok c.
Proof.
  intros Hw H. destruct (wf_map_parts rm Hw) as (S1 & S2 & Hlen & Hcard).
  destruct (rune_roundtrip _ _ c r S1 S2 Hcard H) as [A _]. exact A.
Qed.

Theorem encode_rune_decode_rune rm r c : wf_exact rm = true -> encode_rune rm r = Ok c -> decode_rune rm c = Ok r.
Proof.
  unfold wf_exact. intros Hw H. apply andb_prop in Hw. destruct Hw as [Hw Hcard'].
  destruct (wf_map_parts rm Hw) as (S1 & S2 & Hlen & Hcard).
  destruct (rune_roundtrip _ _ r c S2 S1 Hcard' H) as [A _]. exact A.
Qed.

Theorem decode_never_panics rm c : wf_map rm = true -> decode rm c <> Panic.
Proof.
  intros Hw. destruct (wf_map_parts rm Hw) as (S1 & S2 & Hlen & Hcard).
  unfold decode. apply loop_nopanic; [| |lia].
  - intros str _. unfold decode_step. apply (dec_try_nopanic _ _ S1). lia.
  - intros str L r H. apply decode_step_inv in H. lia.
Qed.

Theorem encode_replace_unknown_total rm s : wf_map rm = true -> exists o, encode_replace_unknown rm s = Ok o.
Proof.
  intros Hw. destruct (wf_map_parts rm Hw) as (S1 & S2 & Hlen & Hcard).
  unfold encode_replace_unknown. apply loop_total; [|lia].
  intros str Hne. unfold eru_step.
  destruct (eru_try_spec _ _ S2 str (length (inE rm)) 1 ltac:(lia)) as (L' & r & E & HL). rewrite E.
  assert (Hlen1 : (1 <= length str)%nat) by (destruct str; [congruence|cbn; lia]).
  destruct (length (inE rm) <? L')%nat.
  - eexists. eexists. split; [reflexivity|].
    destruct (utf8_width str) as [|w]; destruct (length str <=? _)%nat; lia.
  - eexists. eexists. split; [reflexivity|]. destruct (length str <=? L')%nat; lia.
Qed.

(* when Encode succeeds, EncodeReplaceUnknown agrees chunk by chunk is not proved here (see docs/C30.md) *)

(* on an exact table Encode succeeds only on concatenations of representable characters: everything else is
   reported (Fail) -- or crashes, see CharsetTables.encode_panics_witness *)
Theorem encode_ok_only_representable rm s hid c : wf_exact rm = true -> encode rm s hid = Ok c ->
  exists rs, s = concat rs /\ Forall (representable rm) rs.
Proof.
  unfold wf_exact. intros Hw H. apply andb_prop in Hw. destruct Hw as [Hw Hcard'].
  destruct (wf_map_parts rm Hw) as (S1 & S2 & Hlen & Hcard). unfold encode in H.
  destruct (loop_inv (encode_step rm hid) (fun r c => encode_rune rm r = Ok c) (encode_step_inv rm hid) _ _ _ H)
    as (rs & cs & -> & -> & HF).
  exists rs. split; [reflexivity|]. clear H.
  induction HF as [|r c0 rs cs Hrc _ IH]; constructor; [|exact IH].
  exists c0. destruct (rune_roundtrip _ _ r c0 S2 S1 Hcard' Hrc) as [A _]. exact A.
Qed.

(* ---------- EncodeReplaceUnknown agrees with Encode wherever Encode succeeds ---------- *)
Lemma emit_length b : forall m v o, emit b m v = Some o -> length o = length b.
Proof.
  induction b as [|[lo hi] b IH]; intros m v o H; cbn in H.
  - injection H as <-. reflexivity.
  - destruct m as [|k m]; [discriminate|]. destruct (k =? 0); [discriminate|].
    destruct (emit b m (v - v / k * k)) as [o'|] eqn:E; [|discriminate].
    injection H as <-. cbn. f_equal. eapply IH. exact E.
Qed.

Lemma lookup_nonempty G G' c r : side_ok G G' -> rune_lookup G c = Ok r -> r <> [].
Proof.
  intros HS H. destruct (lookup_inv G G' HS c r H) as (e & Hin & _ & Hx & _ & _).
  destruct (group_facts G G' HS _ _ Hin) as (Hcc & _ & _ & _).
  destruct (so_mem _ _ HS e Hcc) as (Hpos & _).
  unfold xlate_entry in Hx. destruct (increase (inR e) c (inM e)); [|discriminate].
  destruct (emit (outR e) (outM e) n) as [o|] eqn:E; [|discriminate]. injection Hx as <-.
  apply emit_length in E. intros ->. cbn in E. lia.
Qed.

Lemma dec_try_eru_try G str : forall k L L' r, dec_try G str k L = Ok (L', r) -> eru_try G str k L = Ok (L', r).
Proof.
  induction k as [|k IH]; intros L L' r H; cbn [dec_try eru_try] in *; [discriminate|].
  destruct (length str <? L)%nat; [discriminate|].
  destruct (rune_lookup G (firstn L str)) as [r0| |]; try discriminate; [exact H|apply IH; exact H].
Qed.

Lemma loop_agree step1 step2 :
  (forall str L r, step1 str = Ok (L, r) -> step2 str = Ok (L, r)) ->
  forall fuel str o, loop fuel step1 str = Ok o -> loop fuel step2 str = Ok o.
Proof.
  intros Hs. induction fuel as [|f IH]; intros str o H; destruct str as [|x t]; cbn [loop] in *; try exact H.
  destruct (step1 (x :: t)) as [[L r]| |] eqn:E; try discriminate. rewrite (Hs _ _ _ E).
  destruct (loop f step1 (skipn L (x :: t))) as [rest| |] eqn:E2; try discriminate.
  rewrite (IH _ _ E2). exact H.
Qed.

Theorem replace_unknown_agrees_with_encode rm s hid c : wf_map rm = true ->
  encode rm s hid = Ok c -> encode_replace_unknown rm s = Ok c.
Proof.
  intros Hw H. destruct (wf_map_parts rm Hw) as (S1 & S2 & Hlen & Hcard).
  unfold encode, encode_replace_unknown in *. eapply loop_agree; [|exact H].
  intros str L0 r0 Hstep. unfold encode_step in Hstep. unfold eru_step.
  pose proof (dec_try_inv (out_groups rm) str _ _ _ _ Hstep) as (HL & Hr).
  rewrite (dec_try_eru_try _ str _ _ _ _ Hstep).
  assert (Hmax : (L0 <= length (inE rm))%nat).
  { destruct (lookup_inv _ _ S2 _ _ Hr) as (_ & _ & _ & _ & Hb & _).
    rewrite firstn_length in Hb. unfold in_groups in Hlen. rewrite Hlen. lia. }
  replace (length (inE rm) <? L0)%nat with false by (symmetry; apply Nat.ltb_ge; lia).
  pose proof (lookup_nonempty _ _ _ r0 S2 Hr) as Hne.
  destruct (length str <=? L0)%nat eqn:E3.
  - apply Nat.leb_le in E3. replace (length str) with L0 by lia. destruct r0; [congruence|reflexivity].
  - destruct r0; [congruence|reflexivity].
Qed.

(* since 014a463e8: no byte sequence makes Encode crash *)
Theorem encode_never_panics rm s hid : wf_map rm = true -> encode rm s hid <> Panic.
Proof.
  intros Hw. destruct (wf_map_parts rm Hw) as (S1 & S2 & Hlen & Hcard).
  unfold encode. apply loop_nopanic; [| |lia].
  - intros str _. unfold encode_step. apply (dec_try_nopanic _ _ S2). lia.
  - intros str L r H. apply encode_step_inv in H. lia.
Qed.
