(* C25 — proofs about nested arithmetic (Codec/C25Nested.v) *)
From Coq Require Import ZArith Bool List Lia.
Import ListNotations.
From GMS Require Import Codec.C25Arith Codec.C25ArithProofs Codec.C25Nested.
Open Scope Z_scope.

(* trees of + - * over SIGNED integer leaves (any width), and their exact value *)
Fixpoint signed_tree (e : expr) : Prop :=
  match e with
  | ELeaf _ _ (OInt t z) => unsigned t = false /\ in_range t z
  | EBin Plus l r | EBin Minus l r | EBin Mult l r => signed_tree l /\ signed_tree r
  | _ => False
  end.

Fixpoint zval (e : expr) : Z :=
  match e with
  | ELeaf _ _ (OInt _ z) => z
  | EBin o l r => zop o (zval l) (zval r)
  | _ => 0
  end.

(* every subexpression's exact value fits BIGINT *)
Fixpoint fits (e : expr) : Prop :=
  match e with
  | EBin _ l r => fits l /\ fits r /\ min_i64 <= zval e <= max_i64
  | _ => True
  end.

Lemma signed_tree_sty e : signed_tree e -> sty_int (sty_of e) = true /\ sty_unsigned (sty_of e) = false.
Proof.
  induction e as [lit decl o|o l IHl r IHr|e IH]; cbn [signed_tree].
  - destruct o as [|t z|m s]; cbn [signed_tree sty_of sty_int sty_unsigned]; tauto.
  - destruct o; try tauto; intros [Hl Hr]; destruct (IHl Hl) as [A B], (IHr Hr) as [C D];
      cbn [sty_of]; destruct (sty_of l), (sty_of r); cbn [sty_int sty_unsigned] in *; try discriminate;
      rewrite B; cbn [andb sty_int sty_unsigned unsigned]; auto.
  - tauto.
Qed.

(* the exactness theorem for nested integer arithmetic: if every subexpression fits, the engine's value is the
   exact one *)
Theorem signed_tree_exact e :
  signed_tree e -> fits e -> min_i64 <= zval e <= max_i64 ->
  exists t, ev e = RInt t (zval e) /\ unsigned t = false.
Proof.
  induction e as [lit decl o|o l IHl r IHr|e IH]; cbn [signed_tree].
  - destruct o as [|t z|m s]; try tauto. intros [U R] _ _. exists (go_carrier t). cbn [ev zval]. split; [reflexivity|].
    destruct t; cbn in U |- *; try discriminate; reflexivity.
  - intros S F B.
    assert (A : is_arith o /\ signed_tree l /\ signed_tree r).
    { unfold is_arith. destruct o; cbn [signed_tree] in S; try tauto. }
    destruct A as (Ho & Sl & Sr). cbn [fits] in F. destruct F as (Fl & Fr & Bz).
    assert (Bl : min_i64 <= zval l <= max_i64).
    { destruct l as [? ? ol| |]; cbn [fits] in Fl; [|tauto|cbn [signed_tree] in Sl; tauto].
      destruct ol as [|t z|]; cbn [signed_tree] in Sl; try tauto. destruct Sl as [U R]. cbn [zval].
      apply (in_range_signed t z U R). }
    assert (Br : min_i64 <= zval r <= max_i64).
    { destruct r as [? ? orr| |]; cbn [fits] in Fr; [|tauto|cbn [signed_tree] in Sr; tauto].
      destruct orr as [|t z|]; cbn [signed_tree] in Sr; try tauto. destruct Sr as [U R]. cbn [zval].
      apply (in_range_signed t z U R). }
    destruct (IHl Sl Fl Bl) as (tl & El & Ul). destruct (IHr Sr Fr Br) as (tr & Er & Ur).
    destruct (signed_tree_sty l Sl) as [Il Nl]. destruct (signed_tree_sty r Sr) as [Ir Nr].
    exists I64. split; [|reflexivity].
    cbn [ev]. rewrite El, Er. cbn [is_err is_null_r orb as_operand].
    assert (E : arith_st o (sty_of l) (sty_of r) (OInt tl (zval l)) (OInt tr (zval r)) = RInt I64 (zval (EBin o l r))).
    { unfold arith_st. rewrite Il, Ir, Nl. cbn [andb].
      rewrite !conv_i64_id by lia. cbn [zval]. rewrite wrap_i64_id by exact Bz. reflexivity. }
    destruct Ho as [->|[->| ->]]; exact E.
  - tauto.
Qed.

(* integer results are never touched by the outermost rounding *)
Lemma neval_int e t z : ev e = RInt t z -> neval e = RInt t z.
Proof. intros H. unfold neval, apply_round. rewrite H. destruct e as [| o ? ?|]; try reflexivity. destruct o; reflexivity. Qed.

Corollary nested_signed_exact e :
  signed_tree e -> fits e -> min_i64 <= zval e <= max_i64 -> exists t, neval e = RInt t (zval e).
Proof. intros S F B. destruct (signed_tree_exact e S F B) as (t & E & _). exists t. apply neval_int. exact E. Qed.

(* without the "every subexpression fits" guard the statement is false even when the final value fits *)
Lemma nested_intermediate_overflow :
  let e := EBin Minus (EBin Mult (EBin Plus (ELeaf false 0 (OInt I64 9223372036854775807)) (ELeaf true 0 (OInt I8 1)))
                                 (ELeaf true 0 (OInt I8 2))) (ELeaf true 0 (OInt I8 5)) in
  neval e = RInt I64 (-5) /\ zval e = 18446744073709551611.
Proof. split; vm_compute; reflexivity. Qed.

(* NULL and errors are absorbing: an error in either child wins, otherwise a NULL child makes the node NULL *)
Theorem nested_error_and_null_absorbing o l r :
  (ev l = RErr -> ev (EBin o l r) = RErr) /\
  (ev l <> RErr -> ev r = RErr -> ev (EBin o l r) = RErr) /\
  (ev l <> RErr -> ev r <> RErr -> (ev l = RNull \/ ev r = RNull) -> ev (EBin o l r) = RNull).
Proof.
  cbn [ev]. repeat split.
  - intros ->. reflexivity.
  - intros Hl ->. destruct (ev l); try reflexivity; try contradiction.
  - intros Hl Hr [H|H]; rewrite H in *; destruct (ev l), (ev r); try reflexivity; try contradiction.
Qed.

(* chained division: the scale grows by 4 per division from the leftmost dividend's scale (a/b/c on integers has
   scale 8), and a zero divisor anywhere makes the whole chain NULL *)
Lemma nested_division_examples :
  neval (EBin Div (EBin Div (ELeaf true 0 (OInt I8 10)) (ELeaf true 0 (OInt I8 4))) (ELeaf true 0 (OInt I8 2)))
    = RDec 125000000 8 /\
  neval (EBin Plus (EBin Div (ELeaf true 0 (OInt I8 1)) (ELeaf true 0 (OInt I8 3)))
                   (EBin Div (EBin Div (ELeaf true 0 (OInt I8 7)) (ELeaf true 0 (OInt I8 2))) (ELeaf true 0 (OInt I8 3))))
    = RDec 150000000 8 /\
  neval (EBin Div (ELeaf true 0 (OInt I8 1)) (EBin IntDiv (ELeaf true 0 (OInt I8 7)) (ELeaf true 0 (OInt I8 0)))) = RNull /\
  neval (ENeg (EBin Div (ELeaf true 0 (OInt I8 2)) (ELeaf true 0 (OInt I8 3)))) = RDec (-6667) 4.
Proof. repeat split; vm_compute; reflexivity. Qed.
