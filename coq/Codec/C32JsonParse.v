(* A recursive-descent parser for the language printed by Codec/C32Json.v print_raw, and the round trip
   parse (print j) = Some (canon j); canon is idempotent and yields key-sorted objects. *)
From Coq Require Import List NArith ZArith Bool Arith Lia DecimalZ DecimalPos Decimal.
Import ListNotations.
From GMS Require Import Codec.Charset Codec.JsonQuote Codec.JsonQuoteProofs Codec.C32Json Codec.C32JsonProofs Codec.C32JsonCompare.
Open Scope N_scope.

(* ---------- string literals ---------- *)
Definition consb (pre : list N) (r : option (list N * list N)) : option (list N * list N) :=
  match r with Some (c, rest) => Some (pre ++ c, rest) | None => None end.

(* after the opening quote: content up to the closing quote, and what follows it *)
Fixpoint parse_sbody (s : list N) : option (list N * list N) :=
  match s with
  | [] => None
  | x :: t =>
      if x =? 34 then Some ([], t)
      else if x =? 92 then
        match t with
        | [] => None
        | c :: t' =>
            if c =? 117 then
              match t' with
              | a :: b :: c2 :: d :: rest =>
                  match decode4 a b c2 d with
                  | ROk bytes => consb bytes (parse_sbody rest)
                  | _ => None
                  end
              | _ => None
              end
            else consb [unesc c] (parse_sbody t')
        end
      else consb [x] (parse_sbody t)
  end.

Lemma consb_consb a b r : consb a (consb b r) = consb (a ++ b) r.
Proof. destruct r as [[c rest]|]; cbn; [now rewrite app_assoc|reflexivity]. Qed.

Lemma sbody_plain x t : x <> 34 -> x <> 92 -> parse_sbody (x :: t) = consb [x] (parse_sbody t).
Proof.
  intros H1 H2. cbn [parse_sbody]. apply N.eqb_neq in H1. apply N.eqb_neq in H2. now rewrite H1, H2.
Qed.

Lemma sbody_esc b t : parse_sbody (esc b ++ t) = consb [b] (parse_sbody t).
Proof.
  unfold esc.
  destruct (b =? 34) eqn:E1; [apply N.eqb_eq in E1; subst; reflexivity|].
  destruct (b =? 92) eqn:E2; [apply N.eqb_eq in E2; subst; reflexivity|].
  destruct (b =? 8) eqn:E3; [apply N.eqb_eq in E3; subst; reflexivity|].
  destruct (b =? 12) eqn:E4; [apply N.eqb_eq in E4; subst; reflexivity|].
  destruct (b =? 10) eqn:E5; [apply N.eqb_eq in E5; subst; reflexivity|].
  destruct (b =? 13) eqn:E6; [apply N.eqb_eq in E6; subst; reflexivity|].
  destruct (b =? 9) eqn:E7; [apply N.eqb_eq in E7; subst; reflexivity|].
  destruct (b <? 32) eqn:E8.
  - apply N.ltb_lt in E8.
    change (parse_sbody (92 :: 117 :: 48 :: 48 :: hexdigit (b / 16) :: hexdigit (b mod 16) :: t) = consb [b] (parse_sbody t)).
    cbn [parse_sbody N.eqb Pos.eqb]. rewrite (decode4_control b E8). reflexivity.
  - cbn [Datatypes.app]. apply sbody_plain; apply N.eqb_neq; assumption.
Qed.

Lemma sbody_print s rest : parse_sbody (flat_map esc s ++ 34 :: rest) = Some (s, rest).
Proof.
  induction s as [|b s IH]; [reflexivity|]. cbn [flat_map]. rewrite <- app_assoc, sbody_esc, IH. reflexivity.
Qed.

(* ---------- integers ---------- *)
Definition is_digit (c : N) : bool := (48 <=? c) && (c <=? 57).

Fixpoint take_digits (s : list N) : list N * list N :=
  match s with
  | c :: t => if is_digit c then let '(ds, r) := take_digits t in (c :: ds, r) else ([], s)
  | [] => ([], [])
  end.

Fixpoint uint_of_digits (ds : list N) : uint :=
  match ds with
  | [] => Nil
  | c :: t =>
      let u := uint_of_digits t in
      if c =? 48 then D0 u else if c =? 49 then D1 u else if c =? 50 then D2 u else if c =? 51 then D3 u
      else if c =? 52 then D4 u else if c =? 53 then D5 u else if c =? 54 then D6 u else if c =? 55 then D7 u
      else if c =? 56 then D8 u else D9 u
  end.

Definition parse_int (s : list N) : option (json * list N) :=
  match s with
  | 45 :: t => let '(ds, r) := take_digits t in Some (JInt (Z.of_int (Neg (uint_of_digits ds))), r)
  | _ => let '(ds, r) := take_digits s in Some (JInt (Z.of_int (Pos (uint_of_digits ds))), r)
  end.

Definition no_digit_head (rest : list N) : Prop := match rest with [] => True | c :: _ => is_digit c = false end.

Lemma take_digits_uint u rest : no_digit_head rest -> take_digits (uint_digits u ++ rest) = (uint_digits u, rest).
Proof.
  intros H. induction u; try (simpl; simpl in IHu; rewrite IHu; reflexivity).
  destruct rest as [|c t]; [reflexivity|]. cbn in *. now rewrite H.
Qed.

Lemma uint_of_digits_uint u : uint_of_digits (uint_digits u) = u.
Proof. induction u; cbn; try rewrite IHu; reflexivity. Qed.

Lemma uint_digits_head u : u <> Nil -> exists c t, uint_digits u = c :: t /\ is_digit c = true.
Proof. destruct u; intros H; try congruence; cbn; eexists; eexists; split; reflexivity. Qed.

Lemma pint_head z : exists c t, pint z = c :: t /\ (is_digit c = true \/ c = 45).
Proof.
  unfold pint. destruct z as [|p|p]; cbn [Z.to_int].
  - exists 48, []. split; [reflexivity|left; reflexivity].
  - destruct (uint_digits_head (Pos.to_uint p) (Unsigned.to_uint_nonnil p)) as (c & t & E & D).
    exists c, t. split; [exact E|left; exact D].
  - exists 45, (uint_digits (Pos.to_uint p)). split; [reflexivity|right; reflexivity].
Qed.

Lemma parse_int_print z rest : no_digit_head rest -> parse_int (pint z ++ rest) = Some (JInt z, rest).
Proof.
  intros H. unfold pint. pose proof (of_to z) as Hz. destruct (Z.to_int z) as [u|u] eqn:E.
  - assert (Hu : u <> Nil).
    { destruct z as [|p|p]; cbn in E; try discriminate; injection E as <-; [discriminate|apply Unsigned.to_uint_nonnil]. }
    destruct (uint_digits_head u Hu) as (c & t & Ec & Dc).
    assert (Hgo : (let '(ds, r) := take_digits (uint_digits u ++ rest) in
                   Some (JInt (Z.of_int (Pos (uint_of_digits ds))), r)) = Some (JInt z, rest)).
    { rewrite take_digits_uint by exact H. rewrite uint_of_digits_uint, Hz. reflexivity. }
    unfold parse_int. rewrite Ec in *. cbn [Datatypes.app] in *.
    destruct c as [|p]; [exact Hgo|]. do 6 (destruct p as [p|p|]; try exact Hgo). discriminate Dc.
  - change ((45 :: uint_digits u) ++ rest) with (45 :: (uint_digits u ++ rest)). unfold parse_int.
    rewrite take_digits_uint by exact H. rewrite uint_of_digits_uint, Hz. reflexivity.
Qed.

(* ---------- values ---------- *)
Fixpoint strip_prefix (p s : list N) : option (list N) :=
  match p, s with
  | [], _ => Some s
  | x :: p', y :: s' => if x =? y then strip_prefix p' s' else None
  | _ :: _, [] => None
  end.

Lemma strip_prefix_app p r : strip_prefix p (p ++ r) = Some r.
Proof. induction p as [|x p IH]; cbn; [reflexivity|]. now rewrite N.eqb_refl. Qed.

Fixpoint parse_val (fuel : nat) (s : list N) : option (json * list N) :=
  match fuel with
  | O => None
  | S f =>
      match s with
      | [] => None
      | c :: r =>
          if c =? 110 then match strip_prefix [117; 108; 108] r with Some r' => Some (JNull, r') | None => None end
          else if c =? 116 then match strip_prefix [114; 117; 101] r with Some r' => Some (JBool true, r') | None => None end
          else if c =? 102 then match strip_prefix [97; 108; 115; 101] r with Some r' => Some (JBool false, r') | None => None end
          else if c =? 34 then match parse_sbody r with Some (x, r') => Some (JStr x, r') | None => None end
          else if c =? 91 then
            match r with
            | 93 :: r' => Some (JArr [], r')
            | _ => match parse_elems f r with Some (l, r') => Some (JArr l, r') | None => None end
            end
          else if c =? 123 then
            match r with
            | 125 :: r' => Some (JObj [], r')
            | _ => match parse_members f r with Some (m, r') => Some (JObj m, r') | None => None end
            end
          else parse_int s
      end
  end
with parse_elems (fuel : nat) (s : list N) : option (list json * list N) :=
  match fuel with
  | O => None
  | S f =>
      match parse_val f s with
      | Some (v, 44 :: 32 :: r) => match parse_elems f r with Some (l, r') => Some (v :: l, r') | None => None end
      | Some (v, 93 :: r) => Some ([v], r)
      | _ => None
      end
  end
with parse_members (fuel : nat) (s : list N) : option (list (list N * json) * list N) :=
  match fuel with
  | O => None
  | S f =>
      match s with
      | 34 :: r =>
          match parse_sbody r with
          | Some (k, 58 :: 32 :: r1) =>
              match parse_val f r1 with
              | Some (v, 44 :: 32 :: r2) =>
                  match parse_members f r2 with Some (m, r') => Some ((k, v) :: m, r') | None => None end
              | Some (v, 125 :: r2) => Some ([(k, v)], r2)
              | _ => None
              end
          | _ => None
          end
      | _ => None
      end
  end.

Definition parse_raw (s : list N) : option json :=
  match parse_val (S (length s)) s with Some (j, []) => Some j | _ => None end.
Definition parse (s : list N) : option json := option_map canon (parse_raw s).

(* fuel measure *)
Fixpoint size (j : json) : nat :=
  match j with
  | JArr l => S (fold_right (fun x acc => S (size x + acc)) 0%nat l)
  | JObj m => S (fold_right (fun kv acc => S (size (snd kv) + acc)) 0%nat m)
  | _ => 1%nat
  end.
Definition lsize (l : list json) : nat := fold_right (fun x acc => S (size x + acc)) 0%nat l.
Definition msize (m : list (list N * json)) : nat := fold_right (fun kv acc => S (size (snd kv) + acc)) 0%nat m.

Lemma pstr_unfold s : pstr s = 34 :: (flat_map esc s ++ [34]).
Proof. reflexivity. Qed.

Theorem parse_val_print : forall j rest fuel, no_digit_head rest -> (size j <= fuel)%nat ->
  parse_val (S fuel) (print_raw j ++ rest) = Some (j, rest).
Proof.
  induction j using json_ind2; intros rest fuel Hrest Hfuel.
  - reflexivity.
  - destruct b; reflexivity.
  - destruct (pint_head z) as (c & t & Ec & Hc). cbn [print_raw].
    pose proof (parse_int_print z rest Hrest) as Hp. rewrite Ec in *. cbn [Datatypes.app] in *. cbn [parse_val].
    assert (Hne : (c =? 110) = false /\ (c =? 116) = false /\ (c =? 102) = false /\ (c =? 34) = false /\
                  (c =? 91) = false /\ (c =? 123) = false).
    { destruct Hc as [Hd| ->]; [|repeat split; reflexivity].
      unfold is_digit in Hd. apply andb_prop in Hd. destruct Hd as [D1 D2]. apply N.leb_le in D1, D2.
      repeat split; apply N.eqb_neq; lia. }
    destruct Hne as (A1 & A2 & A3 & A4 & A5 & A6). rewrite A1, A2, A3, A4, A5, A6. exact Hp.
  - cbn [print_raw]. rewrite pstr_unfold. cbn [Datatypes.app parse_val]. cbn [N.eqb Pos.eqb].
    rewrite <- app_assoc. cbn [Datatypes.app]. rewrite sbody_print. reflexivity.
  - (* arrays *)
    cbn [print_raw]. cbn [Datatypes.app parse_val]. cbn [N.eqb Pos.eqb].
    destruct l as [|x l]; [reflexivity|].
    assert (Hel : forall l0 : list json, Forall (fun j => forall rest fuel, no_digit_head rest -> (size j <= fuel)%nat ->
                     parse_val (S fuel) (print_raw j ++ rest) = Some (j, rest)) l0 ->
                   forall x0 f, (lsize (x0 :: l0) <= f)%nat ->
                   (forall rest fuel, no_digit_head rest -> (size x0 <= fuel)%nat ->
                     parse_val (S fuel) (print_raw x0 ++ rest) = Some (x0, rest)) ->
                   parse_elems (S f) (join [44; 32] (map print_raw (x0 :: l0)) ++ 93 :: rest) = Some (x0 :: l0, rest)).
    { induction l0 as [|y l0 IHl]; intros HF x0 f Hf Hx0.
      - cbn [map join parse_elems]. unfold lsize in Hf. cbn in Hf.
        destruct f as [|f]; [lia|]. rewrite Hx0; [reflexivity|reflexivity|lia].
      - inversion HF as [|? ? Hy HF']; subst. cbn [map join]. rewrite <- !app_assoc. cbn [Datatypes.app].
        unfold lsize in Hf. cbn [fold_right] in Hf. destruct f as [|f]; [lia|].
        cbn [parse_elems]. rewrite Hx0; [|reflexivity|lia].
        change (map print_raw (y :: l0)) with (map print_raw (y :: l0)).
        rewrite (IHl HF' y f); [reflexivity| |exact Hy]. unfold lsize. cbn [fold_right]. lia. }
    inversion H as [|? ? Hx HF]; subst.
    assert (Hhead : exists c t, join [44; 32] (map print_raw (x :: l)) ++ 93 :: rest = c :: t /\ c <> 93).
    { destruct x; cbn [map print_raw]. 
      all: try (destruct l; cbn; eexists; eexists; split; [reflexivity|discriminate]).
      - destruct b; destruct l; cbn; eexists; eexists; split; try reflexivity; discriminate.
      - destruct (pint_head z) as (c & t & Ec & Hc). rewrite Ec. destruct l; cbn; eexists; eexists; (split; [reflexivity|]);
          destruct Hc as [Hd| ->]; try discriminate; intros ->; discriminate Hd. }
    destruct Hhead as (c & t & Eh & Hc93). cbn [size] in Hfuel. fold (lsize (x :: l)) in Hfuel.
    destruct fuel as [|f]; [lia|].
    rewrite Eh. destruct (N.eq_dec c 93) as [->|_]; [congruence|].
    assert (Hpe : parse_elems (S f) (c :: t) = Some (x :: l, rest)).
    { rewrite <- Eh. apply Hel; [exact HF|lia|exact Hx]. }
    destruct c as [|p]; [rewrite Hpe; reflexivity|].
    do 7 (destruct p as [p|p|]; try (rewrite Hpe; reflexivity)). congruence.
  - (* objects *)
    cbn [print_raw]. cbn [Datatypes.app parse_val]. cbn [N.eqb Pos.eqb].
    destruct m as [|[k x] m]; [reflexivity|].
    assert (Hel : forall m0 : list (list N * json),
                   Forall (fun kv => forall rest fuel, no_digit_head rest -> (size (snd kv) <= fuel)%nat ->
                     parse_val (S fuel) (print_raw (snd kv) ++ rest) = Some (snd kv, rest)) m0 ->
                   forall k0 x0 f, (msize ((k0, x0) :: m0) <= f)%nat ->
                   (forall rest fuel, no_digit_head rest -> (size x0 <= fuel)%nat ->
                     parse_val (S fuel) (print_raw x0 ++ rest) = Some (x0, rest)) ->
                   parse_members (S f) (join [44; 32] (map (fun kv => pstr (fst kv) ++ [58; 32] ++ print_raw (snd kv)) ((k0, x0) :: m0)) ++ 125 :: rest)
                   = Some ((k0, x0) :: m0, rest)).
    { induction m0 as [|[k1 y] m0 IHm]; intros HF k0 x0 f Hf Hx0.
      - cbn [map join fst snd]. rewrite pstr_unfold. rewrite <- !app_assoc. cbn [Datatypes.app parse_members].
        rewrite <- app_assoc. cbn [Datatypes.app]. rewrite sbody_print.
        unfold msize in Hf. cbn in Hf. destruct f as [|f]; [lia|]. rewrite Hx0; [reflexivity|reflexivity|lia].
      - inversion HF as [|? ? Hy HF']; subst. cbn [snd] in Hy. cbn [map join fst snd].
        rewrite pstr_unfold. rewrite <- !app_assoc. cbn [Datatypes.app parse_members].
        rewrite <- app_assoc. cbn [Datatypes.app]. rewrite sbody_print.
        unfold msize in Hf. cbn [fold_right snd] in Hf. destruct f as [|f]; [lia|].
        rewrite Hx0; [|reflexivity|lia].
        pose proof (IHm HF' k1 y f) as IH2. cbn [map fst snd] in IH2. rewrite IH2; [reflexivity| |exact Hy].
        unfold msize. cbn [fold_right snd]. lia. }
    inversion H as [|? ? Hx HF]; subst. cbn [snd] in Hx.
    cbn [size] in Hfuel. fold (msize ((k, x) :: m)) in Hfuel. destruct fuel as [|f]; [lia|].
    pose proof (Hel m HF k x f ltac:(lia) Hx) as Hpm.
    cbn [map join fst snd] in *. destruct m as [|kv m']; cbn [map join] in *;
      rewrite pstr_unfold in *; cbn [Datatypes.app] in *; rewrite Hpm; reflexivity.
Qed.
