(* Facts about the translated tables (coq/gen/C30Tables.v, regenerated from sql/encodings/*.go on every check):
   every table satisfies wf_map, ten of the twelve satisfy wf_exact; concrete witnesses of the defects. *)
From Coq Require Import List NArith Bool.
Import ListNotations.
From GMS Require Import Codec.Charset Codec.CharsetProofs gen.C30Tables.
Open Scope N_scope.

Lemma all_tables_wf_b : forallb wf_map all_tables = true.
Proof. vm_compute. reflexivity. Qed.

Lemma all_tables_wf rm : In rm all_tables -> wf_map rm = true.
Proof. pose proof all_tables_wf_b as H. rewrite forallb_forall in H. apply H. Qed.

(* the tables whose entries have equally many elements on both sides *)
Definition exact_tables : list rangemap := filter wf_exact all_tables.

Lemma exact_tables_wf rm : In rm exact_tables -> wf_exact rm = true.
Proof. unfold exact_tables. intros H. apply filter_In in H. apply H. Qed.

Lemma exact_tables_are :
  exact_tables = [Armscii8; Ascii; Cp1256; Cp1257; Dec8; Geostd8; Latin1; Latin7; Swe7; Utf8mb3].
Proof. vm_compute. reflexivity. Qed.

Lemma table_count_ok : N.of_nat (length all_tables) = table_count.
Proof. vm_compute. reflexivity. Qed.

(* the inputs on which Encode used to slice past the end (before 014a463e8) are now reported: the single byte 0xC3,
   the valid three-byte UTF-8 string E6 97 A5 (U+65E5, not in latin1) alone or after 'a', also with hidden capacity *)
Lemma encode_reports_short_tail :
  In Latin1 all_tables /\ encode Latin1 [195] [] = Fail /\ encode Latin1 [230; 151; 165] [] = Fail /\
  encode Latin1 [97; 230; 151; 165] [] = Fail /\ encode Latin1 [195] [169] = Fail.
Proof. split; [vm_compute; tauto|repeat split; vm_compute; reflexivity]. Qed.

(* Utf16.Encode accepts ED A0 80 (a UTF-8-encoded surrogate, not a character) and emits the lone surrogate D8 00,
   which Utf16.Decode rejects; Utf32.Encode accepts F4 90 80 80 (beyond U+10FFFF) and emits 01 04 00 00 (the first output digit leaves its range) *)
Lemma utf16_accepts_unrepresentable :
  In Utf16 all_tables /\ encode Utf16 [237; 160; 128] [] = Ok [216; 0] /\ decode Utf16 [216; 0] = Fail.
Proof. split; [vm_compute; tauto|split; vm_compute; reflexivity]. Qed.

Lemma utf32_accepts_unrepresentable :
  In Utf32 all_tables /\ encode Utf32 [244; 144; 128; 128] [] = Ok [1; 4; 0; 0] /\ decode Utf32 [1; 4; 0; 0] = Fail.
Proof. split; [vm_compute; tauto|split; vm_compute; reflexivity]. Qed.

(* Swe7.EncodeReplaceUnknown(";" U+0179 "+"): the unrepresentable character starts within the last three bytes, the
   scan leaves the loop at len(str)+1 (not above len(inputEntries)), and the whole rest becomes one '?' *)
Lemma eru_drops_tail_witness :
  In Swe7 all_tables /\ encode_replace_unknown Swe7 [59; 197; 185; 43] = Ok [59; 63] /\
  encode_rune Swe7 [43] = Ok [43] /\ encode_replace_unknown Swe7 [59; 197; 185; 43; 43; 43] = Ok [59; 63; 43; 43; 43].
Proof. split; [vm_compute; tauto|repeat split; vm_compute; reflexivity]. Qed.

Lemma nonvacuous_latin1 :
  representable Latin1 [195; 169] /\ encode Latin1 [97; 195; 169] [] = Ok [97; 233] /\
  decode Latin1 [97; 233] = Ok [97; 195; 169] /\
  encode Latin1 [230; 151; 165; 97] [] = Fail /\ encode_replace_unknown Latin1 [230; 151; 165; 97] = Ok [63; 97].
Proof. split; [exists [233]; vm_compute; reflexivity|repeat split; vm_compute; reflexivity]. Qed.
