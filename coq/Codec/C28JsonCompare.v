(* COPY for C28 of Codec/C32JsonCompare.v (the JSON document model of C32; do not edit -- re-copy instead). Proofs about CompareJSON's model (Codec/C28Json.v cmp_json / compare_json): a total order whose equivalence is
   equality of the forms with bytewise-sorted keys. *)
From Coq Require Import List NArith ZArith Bool Arith Lia.
Import ListNotations.
From GMS Require Import Codec.Charset Codec.JsonQuote Codec.C28Json Codec.C28JsonProofs.
Open Scope N_scope.

Section JsonInd.
  Variable P : json -> Prop.
  Hypothesis HN : P JNull.
  Hypothesis HB : forall b, P (JBool b).
  Hypothesis HI : forall z, P (JInt z).
  Hypothesis HS : forall s, P (JStr s).
  Hypothesis HA : forall l, Forall P l -> P (JArr l).
  Hypothesis HO : forall m, Forall (fun kv => P (snd kv)) m -> P (JObj m).
  Fixpoint json_ind2 (j : json) : P j :=
    match j with
    | JNull => HN | JBool b => HB b | JInt z => HI z | JStr s => HS s
    | JArr l => HA l ((fix go (l : list json) : Forall P l :=
                         match l with [] => Forall_nil _ | x :: l' => Forall_cons x (json_ind2 x) (go l') end) l)
    | JObj m => HO m ((fix go (m : list (list N * json)) : Forall (fun kv => P (snd kv)) m :=
                         match m with [] => Forall_nil _ | kv :: m' => Forall_cons kv (json_ind2 (snd kv)) (go m') end) m)
    end.
End JsonInd.

(* ---------- generic lexicographic comparison ---------- *)
Fixpoint lex {A} (ci : A -> A -> comparison) (x y : list A) : comparison :=
  match x, y with
  | [], [] => Eq
  | [], _ :: _ => Lt
  | _ :: _, [] => Gt
  | u :: x', v :: y' => match ci u v with Eq => lex ci x' y' | c => c end
  end.

Lemma lex_refl {A} (ci : A -> A -> comparison) l : Forall (fun x => ci x x = Eq) l -> lex ci l l = Eq.
Proof. induction 1 as [|x l H _ IH]; cbn; [reflexivity|]. now rewrite H. Qed.

Lemma lex_opp {A} (ci : A -> A -> comparison) l1 :
  Forall (fun x => forall y, ci y x = CompOpp (ci x y)) l1 -> forall l2, lex ci l2 l1 = CompOpp (lex ci l1 l2).
Proof.
  induction 1 as [|x l1 H _ IH]; intros [|y l2]; cbn; try reflexivity.
  rewrite H. destruct (ci x y); cbn; try reflexivity. apply IH.
Qed.

Lemma lex_eq {A} (ci : A -> A -> comparison) l1 :
  Forall (fun x => forall y, ci x y = Eq -> x = y) l1 -> forall l2, lex ci l1 l2 = Eq -> l1 = l2.
Proof.
  induction 1 as [|x l1 H _ IH]; intros [|y l2] E; cbn in E; try discriminate; [reflexivity|].
  destruct (ci x y) eqn:C; try discriminate. apply H in C. subst. f_equal. apply IH. exact E.
Qed.

Lemma lex_trans_lt {A} (ci : A -> A -> comparison) :
  (forall x y, ci x y = Eq -> x = y) ->
  forall l1, Forall (fun x => forall y z, ci x y = Lt -> ci y z = Lt -> ci x z = Lt) l1 ->
  forall l2 l3, lex ci l1 l2 = Lt -> lex ci l2 l3 = Lt -> lex ci l1 l3 = Lt.
Proof.
  intros Heq. induction 1 as [|x l1 H _ IH]; intros [|y l2] [|z l3] E1 E2; cbn in *; try discriminate; try reflexivity.
  destruct (ci x y) eqn:C1; try discriminate; destruct (ci y z) eqn:C2; try discriminate.
  - pose proof (Heq _ _ C1) as Hxy. pose proof (Heq _ _ C2) as Hyz. subst y. subst z. rewrite C1.
    eapply IH; eassumption.
  - pose proof (Heq _ _ C1) as Hxy. subst y. now rewrite C2.
  - pose proof (Heq _ _ C2) as Hyz. subst z. now rewrite C1.
  - now rewrite (H y z C1 C2).
Qed.

(* ---------- bytes ---------- *)
Lemma bytes_cmp_opp a : forall b, bytes_cmp b a = CompOpp (bytes_cmp a b).
Proof.
  induction a as [|x a IH]; intros [|y b]; cbn; try reflexivity.
  rewrite (N.compare_antisym x y). destruct (x ?= y); cbn; try reflexivity. apply IH.
Qed.

Lemma bytes_cmp_trans_lt a : forall b c, bytes_cmp a b = Lt -> bytes_cmp b c = Lt -> bytes_cmp a c = Lt.
Proof.
  induction a as [|x a IH]; intros [|y b] [|z c] H1 H2; cbn in *; try discriminate; try reflexivity.
  destruct (x ?= y) eqn:C1; try discriminate; destruct (y ?= z) eqn:C2; try discriminate.
  - apply N.compare_eq in C1. apply N.compare_eq in C2. subst. rewrite N.compare_refl. eapply IH; eassumption.
  - apply N.compare_eq in C1. subst. now rewrite C2.
  - apply N.compare_eq in C2. subst. now rewrite C1.
  - rewrite N.compare_lt_iff in *. assert (x < z) as L by lia. apply N.compare_lt_iff in L. now rewrite L.
Qed.

(* ---------- arrays and objects as lexicographic comparisons ---------- *)
Definition ci_obj (p q : list N * json) : comparison :=
  match bytes_cmp (fst p) (fst q) with
  | Lt => Gt | Gt => Lt
  | Eq => cmp_json (snd p) (snd q)
  end.

Lemma cmp_arr_lex x : forall y, cmp_json (JArr x) (JArr y) = lex cmp_json x y.
Proof.
  induction x as [|u x IH]; intros [|v y]; try reflexivity. cbn [lex]. rewrite <- IH. reflexivity.
Qed.

Lemma cmp_obj_lex x : forall y, cmp_json (JObj x) (JObj y) = lex ci_obj x y.
Proof.
  induction x as [|[k1 u] x IH]; intros [|[k2 v] y]; try reflexivity.
  cbn [lex]. unfold ci_obj at 1. cbn [fst snd]. rewrite <- IH. cbn.
  destruct (bytes_cmp k1 k2); reflexivity.
Qed.

(* ---------- cmp_json ---------- *)
Theorem cmp_json_refl : forall a, cmp_json a a = Eq.
Proof.
  induction a using json_ind2.
  - reflexivity.
  - destruct b; reflexivity.
  - cbn. apply Z.compare_refl.
  - cbn. apply bytes_cmp_refl.
  - rewrite cmp_arr_lex. apply lex_refl. exact H.
  - rewrite cmp_obj_lex. apply lex_refl. eapply Forall_impl; [|exact H].
    intros [k v] Hv. unfold ci_obj. cbn [fst snd] in *. now rewrite bytes_cmp_refl.
Qed.

Theorem cmp_json_opp : forall a b, cmp_json b a = CompOpp (cmp_json a b).
Proof.
  induction a using json_ind2; intros b'; destruct b' as [|b'|z'|s'|l'|m']; try reflexivity.
  - destruct b, b'; reflexivity.
  - cbn. apply Z.compare_antisym.
  - cbn. apply bytes_cmp_opp.
  - rewrite !cmp_arr_lex. apply lex_opp. exact H.
  - rewrite !cmp_obj_lex. apply lex_opp. eapply Forall_impl; [|exact H].
    intros [k v] Hv [k2 v2]. unfold ci_obj. cbn [fst snd] in *. rewrite (bytes_cmp_opp k k2).
    destruct (bytes_cmp k k2); cbn; try reflexivity. apply Hv.
Qed.

Theorem cmp_json_eq : forall a b, cmp_json a b = Eq -> a = b.
Proof.
  induction a using json_ind2; intros b' E; destruct b' as [|b'|z'|s'|l'|m']; try discriminate E; try reflexivity.
  - destruct b, b'; try discriminate E; reflexivity.
  - cbn in E. apply Z.compare_eq in E. now subst.
  - cbn in E. apply bytes_cmp_eq in E. now subst.
  - rewrite cmp_arr_lex in E. f_equal. eapply lex_eq; [|exact E]. exact H.
  - rewrite cmp_obj_lex in E. f_equal. eapply lex_eq; [|exact E]. eapply Forall_impl; [|exact H].
    intros [k v] Hv [k2 v2] C. unfold ci_obj in C. cbn [fst snd] in *.
    destruct (bytes_cmp k k2) eqn:B; try discriminate. apply bytes_cmp_eq in B. apply Hv in C. now subst.
Qed.

Lemma ci_obj_eq p q : ci_obj p q = Eq -> p = q.
Proof.
  destruct p as [k v], q as [k2 v2]. unfold ci_obj. cbn [fst snd].
  destruct (bytes_cmp k k2) eqn:B; try discriminate. intros C. apply bytes_cmp_eq in B. apply cmp_json_eq in C. now subst.
Qed.

Theorem cmp_json_trans_lt : forall a b c, cmp_json a b = Lt -> cmp_json b c = Lt -> cmp_json a c = Lt.
Proof.
  induction a using json_ind2; intros b' c' E1 E2;
    destruct b' as [|b'|z'|s'|l'|m']; try discriminate E1;
    destruct c' as [|c'|z2|s2|l2|m2]; try discriminate E2; try reflexivity.
  - destruct b, b', c'; try discriminate; reflexivity.
  - cbn in *. rewrite Z.compare_lt_iff in *. lia.
  - cbn in *. eapply bytes_cmp_trans_lt; eassumption.
  - rewrite cmp_arr_lex in *. eapply (lex_trans_lt cmp_json cmp_json_eq); [|exact E1|exact E2].
    eapply Forall_impl; [|exact H]. intros x Hx y z. apply Hx.
  - rewrite cmp_obj_lex in *. eapply (lex_trans_lt ci_obj ci_obj_eq); [|exact E1|exact E2].
    eapply Forall_impl; [|exact H]. intros [k v] Hv [k2 v2] [k3 v3]. unfold ci_obj. cbn [fst snd] in *.
    destruct (bytes_cmp k k2) eqn:B1; try discriminate; destruct (bytes_cmp k2 k3) eqn:B2; try discriminate; intros C1 C2.
    + apply bytes_cmp_eq in B1. apply bytes_cmp_eq in B2. subst. rewrite bytes_cmp_refl. eapply Hv; eassumption.
    + apply bytes_cmp_eq in B1. subst. now rewrite B2.
    + apply bytes_cmp_eq in B2. subst. now rewrite B1.
    + (* k > k2 > k3 bytewise *)
      assert (bytes_cmp k3 k = Lt) as B3.
      { eapply bytes_cmp_trans_lt; [rewrite bytes_cmp_opp, B2; reflexivity|rewrite bytes_cmp_opp, B1; reflexivity]. }
      rewrite bytes_cmp_opp, B3. reflexivity.
Qed.

(* ---------- CompareJSON: a total order ---------- *)
Theorem compare_json_refl a : compare_json a a = Eq.
Proof. apply cmp_json_refl. Qed.

Theorem compare_json_total a b : compare_json b a = CompOpp (compare_json a b).
Proof. apply cmp_json_opp. Qed.

Theorem compare_json_eq_iff a b : compare_json a b = Eq <-> sort_bytewise a = sort_bytewise b.
Proof. split; [apply cmp_json_eq|intros H; unfold compare_json; rewrite H; apply cmp_json_refl]. Qed.

Theorem compare_json_trans a b c : compare_json a b <> Gt -> compare_json b c <> Gt -> compare_json a c <> Gt.
Proof.
  unfold compare_json. generalize (sort_bytewise a) (sort_bytewise b) (sort_bytewise c). intros x y z H1 H2.
  destruct (cmp_json x y) eqn:C1; [| |congruence]; destruct (cmp_json y z) eqn:C2; try congruence.
  - apply cmp_json_eq in C1. apply cmp_json_eq in C2. subst. rewrite cmp_json_refl. discriminate.
  - apply cmp_json_eq in C1. subst. rewrite C2. discriminate.
  - apply cmp_json_eq in C2. subst. rewrite C1. discriminate.
  - rewrite (cmp_json_trans_lt x y z C1 C2). discriminate.
Qed.
