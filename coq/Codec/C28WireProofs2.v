(* C28 -- proofs, part 2: DATETIME(n) / TIMESTAMP(n) (same formatter and parser), TIME, SET round trips and their
   announced lengths. *)
From Coq Require Import List NArith ZArith Bool Lia Arith.
Import ListNotations.
From GMS Require Import Codec.C28Date Codec.C28DateProofs Codec.C28Wire Codec.C28WireProofs.
Open Scope Z_scope.

(* ---------- fixed-width fields ---------- *)
Lemma padn_spec n : forall v acc, 0 <= v < 10 ^ Z.of_nat n ->
  parse_digits acc (padn n v) = Some (acc * 10 ^ Z.of_nat n + v) /\ length (padn n v) = n.
Proof.
  induction n as [|n IH]; intros v acc Hv.
  - cbn in *. split; [f_equal; lia|reflexivity].
  - cbn [padn]. rewrite pow10_S in Hv.
    assert (Hq : 0 <= v / 10 < 10 ^ Z.of_nat n) by (split; [apply Z.div_pos; lia|apply Z.div_lt_upper_bound; lia]).
    destruct (IH (v / 10) acc Hq) as [I1 I2]. pose proof (Z.mod_pos_bound v 10 ltac:(lia)).
    rewrite (parse_digits_snoc _ _ _ _ I1) by lia. rewrite app_length, I2. cbn [length]. split; [|lia].
    f_equal. rewrite pow10_S. pose proof (Z.div_mod v 10 ltac:(lia)). lia.
Qed.

Definition hour2_ok (h : Z) : bool := beqb ((if h <? 10 then [48%N] else []) ++ format_int h) (pad2 h).
Lemma hour2_check : forallb hour2_ok (upto 100 0) = true.
Proof. vm_compute. reflexivity. Qed.
Lemma hour2 h : 0 <= h <= 99 -> (if h <? 10 then [48%N] else []) ++ format_int h = pad2 h.
Proof.
  intros H. pose proof hour2_check as E. rewrite forallb_forall in E.
  specialize (E h (in_upto 100 0 h ltac:(lia))). now apply beqb_eq.
Qed.

Lemma clock_text_2 h m s : 0 <= h <= 99 ->
  clock_text h m s = pad2 h ++ [58%N] ++ pad2 m ++ [58%N] ++ pad2 s.
Proof. intros H. unfold clock_text. rewrite app_assoc, hour2 by lia. reflexivity. Qed.

(* seconds / minutes / hours of a time of day given in microseconds *)
Lemma tod_split t : 0 <= t ->
  t = (t / 3600000000) * 3600000000 + (t / 60000000 mod 60) * 60000000 + (t / us_per_sec mod 60) * us_per_sec + t mod us_per_sec
  /\ 0 <= t / 60000000 mod 60 < 60 /\ 0 <= t / us_per_sec mod 60 < 60 /\ 0 <= t mod us_per_sec < us_per_sec.
Proof.
  intros Ht. unfold us_per_sec.
  replace (t / 60000000) with (t / 1000000 / 60) by (rewrite Z.div_div by lia; reflexivity).
  replace (t / 3600000000) with (t / 1000000 / 60 / 60) by (rewrite !Z.div_div by lia; reflexivity).
  set (s := t / 1000000). set (m := s / 60).
  pose proof (Z.div_mod t 1000000 ltac:(lia)). pose proof (Z.mod_pos_bound t 1000000 ltac:(lia)).
  pose proof (Z.div_mod s 60 ltac:(lia)). pose proof (Z.mod_pos_bound s 60 ltac:(lia)).
  pose proof (Z.div_mod m 60 ltac:(lia)). pose proof (Z.mod_pos_bound m 60 ltac:(lia)).
  fold s in H. fold m in H1. repeat split; lia.
Qed.

(* the fraction written with n digits is read back, for microsecond counts that are multiples of the unit *)
Lemma frac_roundtrip n us : (1 <= n <= 6)%nat -> 0 <= us < us_per_sec -> us mod frac_unit n = 0 ->
  exists fr, frac_text n us = 46%N :: fr /\ parse_frac fr = Some us /\ length fr = n.
Proof.
  intros Hn Hus Hm. unfold frac_text. destruct n as [|n']; [lia|]. set (n := S n') in *.
  assert (Hu : 0 < frac_unit n) by (unfold frac_unit; apply Z.pow_pos_nonneg; lia).
  assert (Hprod : frac_unit n * 10 ^ Z.of_nat n = us_per_sec).
  { unfold frac_unit, us_per_sec. rewrite <- Z.pow_add_r by lia. replace (6 - Z.of_nat n + Z.of_nat n) with 6 by lia. reflexivity. }
  assert (Hv : 0 <= us / frac_unit n < 10 ^ Z.of_nat n).
  { split; [apply Z.div_pos; lia|]. apply Z.div_lt_upper_bound; lia. }
  destruct (padn_spec n (us / frac_unit n) 0 Hv) as [P1 P2].
  eexists. split; [reflexivity|]. split; [|exact P2].
  unfold parse_frac. rewrite P2, P1.
  replace (Z.of_nat n =? 0) with false by (symmetry; apply Z.eqb_neq; lia).
  replace (9 <? Z.of_nat n) with false by (symmetry; apply Z.ltb_ge; lia). cbn [orb].
  replace (Z.of_nat n <=? 6) with true by (symmetry; apply Z.leb_le; lia).
  f_equal. fold (frac_unit n). pose proof (Z.div_mod us (frac_unit n) ltac:(lia)). lia.
Qed.

Lemma round_us_id n x : (n <= 6)%nat -> x mod frac_unit n = 0 -> round_us n x = x.
Proof.
  intros Hn Hm. unfold round_us.
  assert (Hu : 0 < frac_unit n) by (unfold frac_unit; apply Z.pow_pos_nonneg; lia).
  set (q := frac_unit n) in *. pose proof (Z.div_mod x q ltac:(lia)) as D. rewrite Hm in D.
  assert (Hh : 0 <= q / 2 < q) by (split; [apply Z.div_pos; lia|apply Z.div_lt_upper_bound; lia]).
  replace (x + q / 2) with (q / 2 + (x / q) * q) by lia. rewrite Z.div_add by lia. rewrite (Z.div_small (q / 2)) by lia. lia.
Qed.

Lemma frac_unit_divides n : (n <= 6)%nat -> exists k, us_per_sec = k * frac_unit n /\ 0 < k.
Proof.
  intros Hn. exists (10 ^ Z.of_nat n). split; [|apply Z.pow_pos_nonneg; lia].
  unfold frac_unit, us_per_sec. rewrite <- Z.pow_add_r by lia. replace (Z.of_nat n + (6 - Z.of_nat n)) with 6 by lia. reflexivity.
Qed.

(* ---------- DATETIME(n) ---------- *)
Definition datetime_storable (n : nat) (x : Z) : Prop :=
  (n <= 6)%nat /\ x mod frac_unit n = 0 /\ x <> zero_time_us /\ 1000 <= year_of_us x <= 9999 /\
  datetime_range_ok n x = true.

Definition datetime_text_len (n : nat) : nat := match n with O => 19 | _ => 20 + n end.

Theorem datetime_text_roundtrip n x : datetime_storable n x ->
  exists t, datetime_sql_text n x = Some t /\ datetime_convert_text n t = Some x /\ length t = datetime_text_len n.
Proof.
  intros (Hn & Hm & Hz & Hy & Hr). unfold datetime_sql_text.
  replace (x =? zero_time_us) with false by (symmetry; now apply Z.eqb_neq).
  rewrite (round_us_id n x Hn Hm). cbv zeta. rewrite Hr. cbn [negb].
  unfold year_of_us in Hy.
  destruct (days_civil_days (x / us_per_day)) as [R1 R2].
  destruct (civil_from_days (x / us_per_day)) as [[y m] d] eqn:Ec.
  assert (Hv := R2). unfold valid_date in Hv.
  repeat (apply andb_prop in Hv; destruct Hv as [Hv ?]).
  repeat match goal with H : (_ <=? _) = true |- _ => apply Z.leb_le in H end.
  assert (Hd31 : d <= 31).
  { assert (days_in_month y m <= 31) by (unfold days_in_month; repeat destruct (_ =? _); try destruct (is_leap y); cbn; lia). lia. }
  destruct (year4 y (or_intror Hy)) as (a & b & c & e & Ey & E4).
  set (tod := x mod us_per_day).
  assert (Htod : 0 <= tod < us_per_day) by (apply Z.mod_pos_bound; unfold us_per_day; lia).
  destruct (tod_split tod ltac:(lia)) as (Hsplit & Hmi & Hse & Hus).
  set (h := tod / 3600000000) in *. set (mi := tod / 60000000 mod 60) in *.
  set (se := tod / us_per_sec mod 60) in *. set (us := tod mod us_per_sec) in *.
  assert (Hh : 0 <= h < 24).
  { unfold h. split; [apply Z.div_pos; lia|apply Z.div_lt_upper_bound; unfold us_per_day in *; lia]. }
  assert (Hxd : x = x / us_per_day * us_per_day + tod).
  { unfold tod. pose proof (Z.div_mod x us_per_day ltac:(unfold us_per_day; lia)). lia. }
  assert (Husm : us mod frac_unit n = 0).
  { destruct (frac_unit_divides n Hn) as (k & Hk & Hkp).
    assert (Hu : 0 < frac_unit n) by (unfold frac_unit; apply Z.pow_pos_nonneg; lia).
    (* x = day * us_per_day + tod, us_per_day and us_per_sec are multiples of the unit *)
    assert (Ex : x = us + (x / us_per_day * 86400 * k + (tod / us_per_sec) * k) * frac_unit n).
    { pose proof (Z.div_mod tod us_per_sec ltac:(unfold us_per_sec; lia)) as Hds. fold us in Hds.
      assert (Hpd : us_per_day = 86400 * us_per_sec) by reflexivity.
      set (D := x / us_per_day) in *. set (S := tod / us_per_sec) in *. set (U := frac_unit n) in *.
      assert (E1 : x = D * (86400 * (k * U)) + ((k * U) * S + us)) by (rewrite <- Hk, <- Hpd, <- Hds; exact Hxd).
      rewrite E1 at 1. ring. }
    rewrite Ex in Hm. rewrite Z.mod_add in Hm by lia. exact Hm. }
  rewrite (clock_text_2 h mi se) by lia.
  assert (Hparse : forall rest v, parse_clock (32%N :: pad2 h ++ [58%N] ++ pad2 mi ++ [58%N] ++ pad2 se ++ rest) =
            match rest with [] => Some (h * 3600000000 + mi * 60000000 + se * us_per_sec)
            | dot :: fr => if (dot =? 46)%N then option_map (Z.add (h * 3600000000 + mi * 60000000 + se * us_per_sec)) (parse_frac fr) else None end
            \/ v = tt -> True) by auto.
  clear Hparse.
  assert (Hclock : forall rest,
     parse_clock (32%N :: (pad2 h ++ [58%N] ++ pad2 mi ++ [58%N] ++ pad2 se) ++ rest) =
     match rest with
     | [] => Some (h * 3600000000 + mi * 60000000 + se * us_per_sec)
     | dot :: fr => if (dot =? 46)%N then option_map (Z.add (h * 3600000000 + mi * 60000000 + se * us_per_sec)) (parse_frac fr) else None
     end).
  { intros rest. unfold pad2. cbn [app parse_clock]. rewrite !N.eqb_refl. cbn [andb].
    rewrite !d2_pad2 by lia.
    replace (h <? 24) with true by (symmetry; apply Z.ltb_lt; lia).
    replace (mi <? 60) with true by (symmetry; apply Z.ltb_lt; lia).
    replace (se <? 60) with true by (symmetry; apply Z.ltb_lt; lia). reflexivity. }
  assert (Hconv : forall rest tv,
     (match rest with
      | [] => Some (h * 3600000000 + mi * 60000000 + se * us_per_sec)
      | dot :: fr => if (dot =? 46)%N then option_map (Z.add (h * 3600000000 + mi * 60000000 + se * us_per_sec)) (parse_frac fr) else None
      end = Some tv) -> tv = tod ->
     datetime_convert_text n (civil_text (y, m, d) ++ [32%N] ++ (pad2 h ++ [58%N] ++ pad2 mi ++ [58%N] ++ pad2 se) ++ rest) = Some x).
  { intros rest tv Hrest Htv. specialize (Hclock rest).
    set (tl := 32%N :: (pad2 h ++ [58%N] ++ pad2 mi ++ [58%N] ++ pad2 se) ++ rest) in *.
    assert (Htl : tl <> []) by (unfold tl; discriminate).
    change ([32%N] ++ (pad2 h ++ [58%N] ++ pad2 mi ++ [58%N] ++ pad2 se) ++ rest) with tl.
    unfold datetime_convert_text, parse_datetime_text, civil_text. rewrite Ey. unfold pad2. cbn [app].
    rewrite is_zero_text_false by (apply month_not_00; lia).
    rewrite !N.eqb_refl. cbn [andb]. rewrite E4, !d2_pad2 by lia. rewrite R2, R1.
    destruct tl as [|t0 tl0] eqn:Etl; [contradiction|]. rewrite Hclock, Hrest. cbn [option_map]. subst tv. rewrite <- Hxd.
    replace (x =? zero_time_us) with false by (symmetry; now apply Z.eqb_neq).
    rewrite (round_us_id n x Hn Hm), Hr. reflexivity. }
  destruct n as [|n'].
  - (* no fraction *)
    assert (Hus0 : us = 0).
    { assert (Hfu : frac_unit 0 = us_per_sec) by reflexivity. rewrite Hfu in Husm. rewrite Z.mod_small in Husm by exact Hus. exact Husm. }
    eexists. split; [reflexivity|]. split.
    + cbn [frac_text]. apply (Hconv [] (h * 3600000000 + mi * 60000000 + se * us_per_sec)); [reflexivity|]. lia.
    + unfold civil_text. rewrite Ey. unfold pad2. cbn. reflexivity.
  - destruct (frac_roundtrip (S n') us ltac:(lia) Hus Husm) as (fr & Ef & Pf & Lf).
    eexists. split; [reflexivity|]. rewrite Ef. split.
    + apply (Hconv (46%N :: fr) tod); [|reflexivity]. rewrite N.eqb_refl, Pf. cbn [option_map]. f_equal. lia.
    + unfold civil_text. rewrite Ey. unfold pad2. cbn [app length]. rewrite Lf. cbn [datetime_text_len]. lia.
Qed.

Theorem datetime_zero_roundtrip n : (n <= 6)%nat ->
  exists t, datetime_sql_text n zero_time_us = Some t /\ datetime_convert_text n t = Some zero_time_us /\
            length t = datetime_text_len n.
Proof.
  intros Hn. do 7 (destruct n as [|n]; [eexists; split; [vm_compute; reflexivity|split; vm_compute; reflexivity]|]). lia.
Qed.

Lemma datetime_len_le_announced n : (n <= 6)%nat -> Z.of_nat (datetime_text_len n) <= datetime_announced.
Proof. intros H. unfold datetime_text_len, datetime_announced. destruct n; lia. Qed.

(* ---------- TIME ---------- *)
Lemma digit_char_not d : 0 <= d <= 9 -> (digit_char d =? 45)%N = false /\ (digit_char d =? 58)%N = false.
Proof. intros H. unfold digit_char. split; apply N.eqb_neq; lia. Qed.

Definition hour3_ok (h : Z) : bool :=
  match format_int h with
  | [a; b; c] =>
      match digit_val a, d2 b c with
      | Some x, Some y => (x * 100 + y =? h) && negb (a =? 45)%N && negb (c =? 58)%N
      | _, _ => false
      end
  | _ => false
  end.
Lemma hour3_check : forallb hour3_ok (upto 900 100) = true.
Proof. vm_compute. reflexivity. Qed.
Lemma hour3 h : 100 <= h <= 999 -> exists a b c x y, format_int h = [a; b; c] /\ digit_val a = Some x /\ d2 b c = Some y /\
  x * 100 + y = h /\ (a =? 45)%N = false /\ (c =? 58)%N = false.
Proof.
  intros H. pose proof hour3_check as E. rewrite forallb_forall in E.
  specialize (E h (in_upto 900 100 h ltac:(lia))). unfold hour3_ok in E.
  destruct (format_int h) as [|a [|b [|c [|]]]]; try discriminate.
  destruct (digit_val a) as [x|] eqn:Dx; [|discriminate]. destruct (d2 b c) as [y|] eqn:Dy; [|discriminate].
  apply andb_prop in E. destruct E as [E E3]. apply andb_prop in E. destruct E as [E1 E2].
  apply Z.eqb_eq in E1. apply negb_true_iff in E2, E3.
  exists a, b, c, x, y. repeat split; auto.
Qed.

Definition time_after_sign (neg : bool) (r : bytes) : option Z :=
  match r with
  | a :: b :: c :: rest =>
      if (c =? 58)%N then match d2 a b with Some h => parse_time_tail neg h rest | None => None end
      else match rest with
           | d :: rest' =>
               if (d =? 58)%N then
                 match digit_val a, d2 b c with
                 | Some x, Some y => parse_time_tail neg (x * 100 + y) rest'
                 | _, _ => None end
               else None
           | [] => None
           end
  | _ => None
  end.

Lemma time_convert_sign (neg : bool) (c : N) (r : bytes) : (c =? 45)%N = false ->
  time_convert_text ((if neg then [45%N] else []) ++ c :: r) = time_after_sign neg (c :: r).
Proof.
  intros H. destruct neg; cbn [app]; unfold time_convert_text.
  - rewrite N.eqb_refl. reflexivity.
  - rewrite H. reflexivity.
Qed.

Lemma time_tail neg h mi se us : 0 <= mi <= 59 -> 0 <= se <= 59 -> 0 <= us < us_per_sec ->
  parse_time_tail neg h (pad2 mi ++ [58%N] ++ pad2 se ++ frac_text 6 us) = time_units neg h mi se us.
Proof.
  intros Hmi Hse Hus. unfold frac_text. change (frac_unit 6) with 1. rewrite Z.div_1_r.
  destruct (padn_spec 6 us 0 ltac:(change (10 ^ Z.of_nat 6) with us_per_sec; lia)) as [P1 P2].
  unfold pad2. cbn [app parse_time_tail]. rewrite N.eqb_refl, !d2_pad2 by lia.
  rewrite N.eqb_refl, P2. cbn [andb Nat.eqb]. rewrite P1. reflexivity.
Qed.

Lemma padn_length n : forall v, length (padn n v) = n.
Proof. induction n as [|n IH]; intros v; cbn [padn]; [reflexivity|]. rewrite app_length, IH. cbn. lia. Qed.

Lemma time_tail' neg h mi se us : 0 <= mi <= 59 -> 0 <= se <= 59 -> 0 <= us < us_per_sec ->
  parse_time_tail neg h ((pad2 mi ++ 58%N :: pad2 se) ++ frac_text 6 us) = time_units neg h mi se us.
Proof. intros H1 H2 H3. rewrite <- (time_tail neg h mi se us H1 H2 H3). unfold pad2. reflexivity. Qed.

Theorem time_text_roundtrip x : - time_max_us <= x <= time_max_us ->
  time_convert_text (time_sql_text x) = Some x /\ Z.of_nat (length (time_sql_text x)) <= time_announced.
Proof.
  intros Hx. unfold time_sql_text, time_max_us in *. set (a := Z.abs x).
  assert (Ha : 0 <= a <= 3020399000000) by (unfold a; lia).
  destruct (tod_split a ltac:(lia)) as (Hsplit & Hmi & Hse & Hus).
  set (h := a / 3600000000) in *. set (mi := a / 60000000 mod 60) in *.
  set (se := a / us_per_sec mod 60) in *. set (us := a mod us_per_sec) in *.
  assert (Hh : 0 <= h <= 838).
  { unfold h. split; [apply Z.div_pos; lia|]. assert (a / 3600000000 < 839) by (apply Z.div_lt_upper_bound; lia). lia. }
  assert (Hunits : time_units (x <? 0) h mi se us = Some x).
  { unfold time_units, us_per_sec in *.
    replace (60 <=? mi) with false by (symmetry; apply Z.leb_gt; lia).
    replace (60 <=? se) with false by (symmetry; apply Z.leb_gt; lia). cbn [orb].
    replace (838 <? h) with false by (symmetry; apply Z.ltb_ge; lia).
    assert (Hlast : ((h =? 838) && (mi =? 59) && (se =? 59)) = true -> us = 0).
    { intros E. apply andb_prop in E. destruct E as [E E3]. apply andb_prop in E. destruct E as [E1 E2].
      apply Z.eqb_eq in E1, E2, E3. lia. }
    destruct ((h =? 838) && (mi =? 59) && (se =? 59)) eqn:El.
    - rewrite (Hlast eq_refl) in Hsplit. f_equal. unfold a in *. destruct (x <? 0) eqn:Es; [apply Z.ltb_lt in Es|apply Z.ltb_ge in Es]; lia.
    - f_equal. unfold a in *. destruct (x <? 0) eqn:Es; [apply Z.ltb_lt in Es|apply Z.ltb_ge in Es]; lia. }
  destruct (Z_le_gt_dec h 99) as [H99|H99].
  - rewrite (clock_text_2 h mi se) by lia. unfold pad2 at 1. cbn [app].
    destruct (digit_char_not (h / 10)) as [N45 _].
    { split; [apply Z.div_pos; lia|]. assert (h / 10 < 10) by (apply Z.div_lt_upper_bound; lia). lia. }
    split.
    + rewrite time_convert_sign by exact N45. cbn [time_after_sign]. rewrite N.eqb_refl, d2_pad2 by lia.
      rewrite time_tail' by lia. exact Hunits.
    + unfold time_announced, pad2, frac_text. rewrite app_length. cbn [length app]. rewrite padn_length.
      destruct (x <? 0); cbn [length]; lia.
  - destruct (hour3 h ltac:(lia)) as (c1 & c2 & c3 & xh & yh & Ef & Dx & Dy & Eh & N45 & N58).
    unfold clock_text. replace (h <? 10) with false by (symmetry; apply Z.ltb_ge; lia). rewrite Ef. cbn [app].
    split.
    + rewrite time_convert_sign by exact N45. cbn [time_after_sign]. rewrite N58, N.eqb_refl, Dx, Dy, Eh.
      rewrite time_tail' by lia. exact Hunits.
    + unfold time_announced, pad2, frac_text. rewrite app_length. cbn [length app]. rewrite padn_length.
      destruct (x <? 0); cbn [length]; lia.
Qed.

(* ---------- SET ---------- *)
Definition no_comma (x : bytes) : Prop := Forall (fun c => c <> 44%N) x.

Lemma split_no_comma x : no_comma x -> forall cur rest, split_comma cur (x ++ rest) = split_comma (rev x ++ cur) rest.
Proof.
  induction 1 as [|c x Hc _ IH]; intros cur rest; [reflexivity|].
  cbn [app split_comma rev]. replace (c =? 44)%N with false by (symmetry; now apply N.eqb_neq).
  rewrite IH, <- app_assoc. reflexivity.
Qed.

Lemma split_join l : l <> [] -> Forall no_comma l -> split_comma [] (join_comma l) = l.
Proof.
  induction l as [|x l IH]; intros Hn Hf; [contradiction|]. inversion Hf as [|? ? Hx Hl]; subst.
  destruct l as [|y r].
  - cbn [join_comma]. rewrite <- (app_nil_r x) at 1. rewrite split_no_comma by exact Hx.
    cbn [split_comma]. rewrite app_nil_r, rev_involutive. reflexivity.
  - change (join_comma (x :: y :: r)) with (x ++ 44%N :: join_comma (y :: r)).
    rewrite split_no_comma by exact Hx. cbn [split_comma]. rewrite N.eqb_refl, app_nil_r, rev_involutive.
    rewrite IH by (auto; discriminate). reflexivity.
Qed.

Lemma index_of_app n pre r : ~ In n pre -> forall i, index_of n (pre ++ n :: r) i = Some (i + Z.of_nat (length pre)).
Proof.
  induction pre as [|p pre IH]; intros Hn i; cbn [app index_of length].
  - replace (beqb n n) with true by (symmetry; now apply beqb_eq). f_equal. lia.
  - destruct (beqb n p) eqn:E; [apply beqb_eq in E; exfalso; apply Hn; now left|].
    rewrite IH by (intros C; apply Hn; now right). f_equal. lia.
Qed.

Lemma lor_disjoint_bit a k : 0 <= a -> 0 <= k -> Z.lor (a * 2 ^ (k + 1)) (2 ^ k) = a * 2 ^ (k + 1) + 2 ^ k.
Proof.
  intros Ha Hk.
  assert (L : Z.land (a * 2 ^ (k + 1)) (2 ^ k) = 0).
  { replace (a * 2 ^ (k + 1)) with (Z.shiftl (2 * a) k) by (rewrite Z.shiftl_mul_pow2, Z.pow_add_r by lia; ring).
    replace (2 ^ k) with (Z.shiftl 1 k) by (rewrite Z.shiftl_mul_pow2 by lia; ring).
    rewrite <- Z.shiftl_land. change 1 with (Z.ones 1) at 1. rewrite Z.land_ones by lia.
    replace (2 * a) with (a * 2 ^ 1) by ring. rewrite Z.mod_mul by (cbn; lia). apply Z.shiftl_0_l. }
  rewrite <- Z.lxor_lor by exact L. symmetry. now apply Z.add_nocarry_lxor.
Qed.

Lemma set_bits_members names : NoDup names -> Forall (fun n => n <> []) names ->
  forall suf pre b, names = pre ++ suf -> 0 <= b < 2 ^ Z.of_nat (length suf) ->
    set_bits_of names (set_members suf b) = Some (b * 2 ^ Z.of_nat (length pre)).
Proof.
  intros Hd Hne. induction suf as [|n r IH]; intros pre b Hnames Hb.
  - cbn in *. f_equal. lia.
  - cbn [set_members]. cbn [length] in Hb. rewrite pow2_S in Hb.
    assert (Hq : 0 <= b / 2 < 2 ^ Z.of_nat (length r)) by (split; [apply Z.div_pos; lia|apply Z.div_lt_upper_bound; lia]).
    assert (Hnames' : names = (pre ++ [n]) ++ r) by (rewrite <- app_assoc; exact Hnames).
    specialize (IH (pre ++ [n]) (b / 2) Hnames' Hq). rewrite app_length in IH. cbn [length] in IH.
    replace (Z.of_nat (length pre + 1)) with (Z.of_nat (length pre) + 1) in IH by lia.
    set (k := Z.of_nat (length pre)) in *.
    pose proof (Z.div_mod b 2 ltac:(lia)) as Hdm. rewrite Zmod_odd in Hdm.
    destruct (Z.odd b).
    + cbn [app set_bits_of]. rewrite IH.
      assert (Hin : In n names) by (rewrite Hnames; apply in_or_app; right; now left).
      rewrite Forall_forall in Hne. specialize (Hne n Hin).
      destruct n as [|c0 n0] eqn:En; [contradiction|]. rewrite <- En in *.
      assert (Hnp : ~ In n pre).
      { rewrite Hnames in Hd. apply NoDup_remove_2 in Hd. intros C. apply Hd. apply in_or_app. now left. }
      pose proof (index_of_app n pre r Hnp 0) as Ei. unfold bytes in *. rewrite Hnames at 1. rewrite Ei. fold k. rewrite Z.add_0_l.
      rewrite lor_disjoint_bit by (unfold k; lia). f_equal. rewrite Z.pow_add_r by (unfold k; lia). lia.
    + cbn [app]. rewrite IH. f_equal. rewrite Z.pow_add_r by (unfold k; lia). lia.
Qed.

Lemma set_members_props names : Forall (fun n => n <> [] /\ no_comma n) names ->
  forall b, Forall (fun n => n <> [] /\ no_comma n) (set_members names b).
Proof.
  induction 1 as [|n r Hn _ IH]; intros b; cbn [set_members]; [constructor|].
  apply Forall_app. split; [destruct (Z.odd b); repeat constructor; tauto|apply IH].
Qed.

Lemma join_nonempty l : Forall (fun n : bytes => n <> [] /\ no_comma n) l -> l <> [] -> join_comma l <> [].
Proof.
  intros H Hn. destruct l as [|x r]; [contradiction|]. inversion H as [|? ? [Hx _] _]; subst.
  destruct r; cbn [join_comma]; [exact Hx|]. destruct x; [contradiction|discriminate].
Qed.

Theorem set_text_roundtrip names b :
  NoDup names -> Forall (fun n => n <> [] /\ no_comma n) names -> 0 <= b < 2 ^ Z.of_nat (length names) ->
  set_convert_text names (set_sql_text names b) = Some b.
Proof.
  intros Hd Hf Hb. unfold set_convert_text, set_sql_text.
  pose proof (set_members_props names Hf b) as Hm.
  assert (Hne : Forall (fun n : bytes => n <> []) names) by (eapply Forall_impl; [|exact Hf]; cbn; tauto).
  pose proof (set_bits_members names Hd Hne names [] b eq_refl Hb) as Hbits. cbn [length] in Hbits. rewrite Z.mul_1_r in Hbits.
  destruct (set_members names b) as [|m ms] eqn:Em.
  - cbn [join_comma]. cbn in Hbits. exact Hbits.
  - pose proof (join_nonempty (m :: ms) Hm ltac:(discriminate)) as Hj.
    destruct (join_comma (m :: ms)) as [|c0 j0] eqn:Ej; [contradiction|]. rewrite <- Ej.
    rewrite split_join; [exact Hbits|discriminate|]. eapply Forall_impl; [|exact Hm]. cbn. tauto.
Qed.
