(* C28 -- proofs, part 2: DATETIME(n) / TIMESTAMP(n) (same formatter and parser), TIME, SET round trips and their
   announced lengths. *)
From Coq Require Import List NArith ZArith Bool Lia Arith.
Import ListNotations.
From GMS Require Import Codec.C28Date Codec.C28DateProofs Codec.C28Wire Codec.C28WireProofs.
Open Scope Z_scope.

(* ---------- fixed-width fields ---------- *)
Lemma padn_spec n : forall v acc, 0 <= v < 10 ^ Z.of_nat n ->
  parse_digits acc (padn n v) = Some (acc * 10 ^ Z.of_nat n + v) /\ length (padn n v) = n.
Proof.
  induction n as [|n IH]; intros v acc Hv.
  - cbn in *. split; [f_equal; lia|reflexivity].
  - cbn [padn]. rewrite pow10_S in Hv.
    assert (Hq : 0 <= v / 10 < 10 ^ Z.of_nat n) by (split; [apply Z.div_pos; lia|apply Z.div_lt_upper_bound; lia]).
    destruct (IH (v / 10) acc Hq) as [I1 I2]. pose proof (Z.mod_pos_bound v 10 ltac:(lia)).
    rewrite (parse_digits_snoc _ _ _ _ I1) by lia. rewrite app_length, I2. cbn [length]. split; [|lia].
    f_equal. rewrite pow10_S. pose proof (Z.div_mod v 10 ltac:(lia)). lia.
Qed.

Definition hour2_ok (h : Z) : bool := beqb ((if h <? 10 then [48%N] else []) ++ format_int h) (pad2 h).
Lemma hour2_check : forallb hour2_ok (upto 100 0) = true.
Proof. vm_compute. reflexivity. Qed.
Lemma hour2 h : 0 <= h <= 99 -> (if h <? 10 then [48%N] else []) ++ format_int h = pad2 h.
Proof.
  intros H. pose proof hour2_check as E. rewrite forallb_forall in E.
  specialize (E h (in_upto 100 0 h ltac:(lia))). now apply beqb_eq.
Qed.

Lemma clock_text_2 h m s : 0 <= h <= 99 ->
  clock_text h m s = pad2 h ++ [58%N] ++ pad2 m ++ [58%N] ++ pad2 s.
Proof. intros H. unfold clock_text. rewrite app_assoc, hour2 by lia. reflexivity. Qed.

(* seconds / minutes / hours of a time of day given in microseconds *)
Lemma tod_split t : 0 <= t ->
  t = (t / 3600000000) * 3600000000 + (t / 60000000 mod 60) * 60000000 + (t / us_per_sec mod 60) * us_per_sec + t mod us_per_sec
  /\ 0 <= t / 60000000 mod 60 < 60 /\ 0 <= t / us_per_sec mod 60 < 60 /\ 0 <= t mod us_per_sec < us_per_sec.
Proof.
  intros Ht. unfold us_per_sec.
  replace (t / 60000000) with (t / 1000000 / 60) by (rewrite Z.div_div by lia; reflexivity).
  replace (t / 3600000000) with (t / 1000000 / 60 / 60) by (rewrite !Z.div_div by lia; reflexivity).
  set (s := t / 1000000). set (m := s / 60).
  pose proof (Z.div_mod t 1000000 ltac:(lia)). pose proof (Z.mod_pos_bound t 1000000 ltac:(lia)).
  pose proof (Z.div_mod s 60 ltac:(lia)). pose proof (Z.mod_pos_bound s 60 ltac:(lia)).
  pose proof (Z.div_mod m 60 ltac:(lia)). pose proof (Z.mod_pos_bound m 60 ltac:(lia)).
  fold s in H. fold m in H1. repeat split; lia.
Qed.

(* the fraction written with n digits is read back, for microsecond counts that are multiples of the unit *)
Lemma frac_roundtrip n us : (1 <= n <= 6)%nat -> 0 <= us < us_per_sec -> us mod frac_unit n = 0 ->
  exists fr, frac_text n us = 46%N :: fr /\ parse_frac fr = Some us /\ length fr = n.
Proof.
  intros Hn Hus Hm. unfold frac_text. destruct n as [|n']; [lia|]. set (n := S n') in *.
  assert (Hu : 0 < frac_unit n) by (unfold frac_unit; apply Z.pow_pos_nonneg; lia).
  assert (Hprod : frac_unit n * 10 ^ Z.of_nat n = us_per_sec).
  { unfold frac_unit, us_per_sec. rewrite <- Z.pow_add_r by lia. replace (6 - Z.of_nat n + Z.of_nat n) with 6 by lia. reflexivity. }
  assert (Hv : 0 <= us / frac_unit n < 10 ^ Z.of_nat n).
  { split; [apply Z.div_pos; lia|]. apply Z.div_lt_upper_bound; lia. }
  destruct (padn_spec n (us / frac_unit n) 0 Hv) as [P1 P2].
  eexists. split; [reflexivity|]. split; [|exact P2].
  unfold parse_frac. rewrite P2, P1.
  replace (Z.of_nat n =? 0) with false by (symmetry; apply Z.eqb_neq; lia).
  replace (9 <? Z.of_nat n) with false by (symmetry; apply Z.ltb_ge; lia). cbn [orb].
  replace (Z.of_nat n <=? 6) with true by (symmetry; apply Z.leb_le; lia).
  f_equal. fold (frac_unit n). pose proof (Z.div_mod us (frac_unit n) ltac:(lia)). lia.
Qed.

Lemma round_us_id n x : (n <= 6)%nat -> x mod frac_unit n = 0 -> round_us n x = x.
Proof.
  intros Hn Hm. unfold round_us.
  assert (Hu : 0 < frac_unit n) by (unfold frac_unit; apply Z.pow_pos_nonneg; lia).
  set (q := frac_unit n) in *. pose proof (Z.div_mod x q ltac:(lia)) as D. rewrite Hm in D.
  assert (Hh : 0 <= q / 2 < q) by (split; [apply Z.div_pos; lia|apply Z.div_lt_upper_bound; lia]).
  replace (x + q / 2) with (q / 2 + (x / q) * q) by lia. rewrite Z.div_add by lia. rewrite (Z.div_small (q / 2)) by lia. lia.
Qed.

Lemma frac_unit_divides n : (n <= 6)%nat -> exists k, us_per_sec = k * frac_unit n /\ 0 < k.
Proof.
  intros Hn. exists (10 ^ Z.of_nat n). split; [|apply Z.pow_pos_nonneg; lia].
  unfold frac_unit, us_per_sec. rewrite <- Z.pow_add_r by lia. replace (Z.of_nat n + (6 - Z.of_nat n)) with 6 by lia. reflexivity.
Qed.

(* ---------- DATETIME(n) ---------- *)
Definition datetime_storable (n : nat) (x : Z) : Prop :=
  (n <= 6)%nat /\ x mod frac_unit n = 0 /\ x <> zero_time_us /\ 1000 <= year_of_us x <= 9999 /\
  datetime_range_ok n x = true.

Definition datetime_text_len (n : nat) : nat := match n with O => 19 | _ => 20 + n end.

Theorem datetime_text_roundtrip n x : datetime_storable n x ->
  exists t, datetime_sql_text n x = Some t /\ datetime_convert_text n t = Some x /\ length t = datetime_text_len n.
Proof.
  intros (Hn & Hm & Hz & Hy & Hr). unfold datetime_sql_text.
  replace (x =? zero_time_us) with false by (symmetry; now apply Z.eqb_neq).
  rewrite (round_us_id n x Hn Hm). cbv zeta. rewrite Hr. cbn [negb].
  unfold year_of_us in Hy.
  destruct (days_civil_days (x / us_per_day)) as [R1 R2].
  destruct (civil_from_days (x / us_per_day)) as [[y m] d] eqn:Ec.
  assert (Hv := R2). unfold valid_date in Hv.
  repeat (apply andb_prop in Hv; destruct Hv as [Hv ?]).
  repeat match goal with H : (_ <=? _) = true |- _ => apply Z.leb_le in H end.
  assert (Hd31 : d <= 31).
  { assert (days_in_month y m <= 31) by (unfold days_in_month; repeat destruct (_ =? _); try destruct (is_leap y); cbn; lia). lia. }
  destruct (year4 y (or_intror Hy)) as (a & b & c & e & Ey & E4).
  set (tod := x mod us_per_day).
  assert (Htod : 0 <= tod < us_per_day) by (apply Z.mod_pos_bound; unfold us_per_day; lia).
  destruct (tod_split tod ltac:(lia)) as (Hsplit & Hmi & Hse & Hus).
  set (h := tod / 3600000000) in *. set (mi := tod / 60000000 mod 60) in *.
  set (se := tod / us_per_sec mod 60) in *. set (us := tod mod us_per_sec) in *.
  assert (Hh : 0 <= h < 24).
  { unfold h. split; [apply Z.div_pos; lia|apply Z.div_lt_upper_bound; unfold us_per_day in *; lia]. }
  assert (Hxd : x = x / us_per_day * us_per_day + tod).
  { unfold tod. pose proof (Z.div_mod x us_per_day ltac:(unfold us_per_day; lia)). lia. }
  assert (Husm : us mod frac_unit n = 0).
  { destruct (frac_unit_divides n Hn) as (k & Hk & Hkp).
    assert (Hu : 0 < frac_unit n) by (unfold frac_unit; apply Z.pow_pos_nonneg; lia).
    (* x = day * us_per_day + tod, us_per_day and us_per_sec are multiples of the unit *)
    assert (Ex : x = us + (x / us_per_day * 86400 * k + (tod / us_per_sec) * k) * frac_unit n).
    { unfold us. pose proof (Z.div_mod tod us_per_sec ltac:(unfold us_per_sec; lia)).
      assert (us_per_day = 86400 * us_per_sec) by reflexivity. nia. }
    rewrite Ex in Hm. rewrite Z.mod_add in Hm by lia. exact Hm. }
  rewrite (clock_text_2 h mi se) by lia.
  assert (Hparse : forall rest v, parse_clock (32%N :: pad2 h ++ [58%N] ++ pad2 mi ++ [58%N] ++ pad2 se ++ rest) =
            match rest with [] => Some (h * 3600000000 + mi * 60000000 + se * us_per_sec)
            | dot :: fr => if (dot =? 46)%N then option_map (Z.add (h * 3600000000 + mi * 60000000 + se * us_per_sec)) (parse_frac fr) else None end
            \/ v = tt -> True) by auto.
  clear Hparse.
  assert (Hclock : forall rest,
     parse_clock (32%N :: (pad2 h ++ [58%N] ++ pad2 mi ++ [58%N] ++ pad2 se) ++ rest) =
     match rest with
     | [] => Some (h * 3600000000 + mi * 60000000 + se * us_per_sec)
     | dot :: fr => if (dot =? 46)%N then option_map (Z.add (h * 3600000000 + mi * 60000000 + se * us_per_sec)) (parse_frac fr) else None
     end).
  { intros rest. unfold pad2. cbn [app parse_clock]. rewrite !N.eqb_refl. cbn [andb].
    rewrite !d2_pad2 by lia.
    replace (h <? 24) with true by (symmetry; apply Z.ltb_lt; lia).
    replace (mi <? 60) with true by (symmetry; apply Z.ltb_lt; lia).
    replace (se <? 60) with true by (symmetry; apply Z.ltb_lt; lia). reflexivity. }
  assert (Hconv : forall rest tv,
     (match rest with
      | [] => Some (h * 3600000000 + mi * 60000000 + se * us_per_sec)
      | dot :: fr => if (dot =? 46)%N then option_map (Z.add (h * 3600000000 + mi * 60000000 + se * us_per_sec)) (parse_frac fr) else None
      end = Some tv) -> tv = tod ->
     datetime_convert_text n (civil_text (y, m, d) ++ [32%N] ++ (pad2 h ++ [58%N] ++ pad2 mi ++ [58%N] ++ pad2 se) ++ rest) = Some x).
  { intros rest tv Hrest Htv. unfold datetime_convert_text, parse_datetime_text, civil_text. rewrite Ey. unfold pad2 at 1 2. cbn [app].
    rewrite is_zero_text_false by (apply month_not_00; lia).
    rewrite !N.eqb_refl. cbn [andb]. rewrite E4, !d2_pad2 by lia. rewrite R2, R1.
    change (32%N :: ?l ++ rest) with (32%N :: l ++ rest).
    rewrite (Hclock rest), Hrest. cbn [option_map]. subst tv. rewrite <- Hxd.
    replace (x =? zero_time_us) with false by (symmetry; now apply Z.eqb_neq).
    rewrite (round_us_id n x Hn Hm), Hr. reflexivity. }
  destruct n as [|n'].
  - (* no fraction *)
    assert (Hus0 : us = 0).
    { unfold frac_unit in Husm. cbn in Husm. change (Z.pow_pos 10 6) with us_per_sec in Husm. rewrite Z.mod_small in Husm by lia. exact Husm. }
    eexists. split; [reflexivity|]. split.
    + cbn [frac_text]. apply (Hconv [] tod); [reflexivity|]. lia.
    + unfold civil_text. rewrite Ey. unfold pad2. cbn. reflexivity.
  - destruct (frac_roundtrip (S n') us ltac:(lia) Hus Husm) as (fr & Ef & Pf & Lf).
    eexists. split; [reflexivity|]. rewrite Ef. split.
    + apply (Hconv (46%N :: fr) tod); [|reflexivity]. rewrite N.eqb_refl, Pf. cbn [option_map]. f_equal. lia.
    + unfold civil_text. rewrite Ey. unfold pad2. cbn [app length]. rewrite Lf. cbn [datetime_text_len]. lia.
Qed.

Theorem datetime_zero_roundtrip n : (n <= 6)%nat ->
  exists t, datetime_sql_text n zero_time_us = Some t /\ datetime_convert_text n t = Some zero_time_us /\
            length t = datetime_text_len n.
Proof.
  intros Hn. do 7 (destruct n as [|n]; [eexists; split; [vm_compute; reflexivity|split; vm_compute; reflexivity]|]). lia.
Qed.

Lemma datetime_len_le_announced n : (n <= 6)%nat -> Z.of_nat (datetime_text_len n) <= datetime_announced.
Proof. intros H. unfold datetime_text_len, datetime_announced. destruct n; lia. Qed.
