(* Model of string comparison under a collation: sql/types/strings.go StringType.Compare (the rune loop),
   sql/collations.go CollationID.WriteWeightString / HashToUint, parametric in the collation's rune weight
   function w (CollationSorter : rune -> int32).  Strings are byte lists; runes are decoded as
   utf8.DecodeRuneInString does (invalid byte -> U+FFFD, size 1; the code's `read == utf8.RuneError` test compares
   a SIZE with 0xFFFD and therefore never fires, so malformed input is compared, not rejected).  For the
   binary collation NextRune yields single bytes and the weight string is the raw byte string. *)
From Coq Require Import List NArith ZArith Bool Arith Lia.
Import ListNotations.
From GMS Require Import Codec.Charset.   (* utf8_width *)
Open Scope N_scope.

(* rune result of utf8.DecodeRune(InString) on a non-empty input *)
Definition utf8_rune (p : list N) : N :=
  match p with
  | [] => 65533
  | p0 :: t =>
      match utf8_width p, t with
      | 2%nat, b1 :: _ => (p0 mod 32) * 64 + b1 mod 64
      | 3%nat, b1 :: b2 :: _ => (p0 mod 16) * 4096 + (b1 mod 64) * 64 + b2 mod 64
      | 4%nat, b1 :: b2 :: b3 :: _ => (p0 mod 8) * 262144 + (b1 mod 64) * 4096 + (b2 mod 64) * 64 + b3 mod 64
      | _, _ => if p0 <? 128 then p0 else 65533
      end
  end.

(* the runes of a string, as the loop `r, n := NextRune(s); s = s[n:]` sees them; k = bytes of the current rune
   still to be skipped *)
Fixpoint runes_k (k : nat) (s : list N) : list N :=
  match s with
  | [] => []
  | b :: t =>
      match k with
      | S k' => runes_k k' t
      | O => utf8_rune s :: runes_k (Nat.pred (utf8_width s)) t
      end
  end.

Definition runes (bin : bool) (s : list N) : list N := if bin then s else runes_k 0 s.

(* the loop of Compare on the weights: first differing weight decides, a proper prefix sorts first *)
Fixpoint lexcmp (a b : list Z) : comparison :=
  match a, b with
  | [], [] => Eq
  | [], _ :: _ => Lt
  | _ :: _, [] => Gt
  | x :: a', y :: b' => if (x <? y)%Z then Lt else if (y <? x)%Z then Gt else lexcmp a' b'
  end.

Definition le32 (z : Z) : list N :=
  let u := (z mod 4294967296)%Z in
  [Z.to_N (u mod 256); Z.to_N ((u / 256) mod 256); Z.to_N ((u / 65536) mod 256); Z.to_N ((u / 16777216) mod 256)].

Section Collation.
  Variable w : N -> Z.          (* CollationSorter *)

  Definition weights (bin : bool) (s : list N) : list Z := map w (runes bin s).
  Definition compare (bin : bool) (a b : list N) : comparison := lexcmp (weights bin a) (weights bin b).
  (* WriteWeightString: raw bytes for the binary collation, else 4 little-endian bytes per rune weight *)
  Definition weight_string (bin : bool) (s : list N) : list N :=
    if bin then s else flat_map (fun r => le32 (w r)) (runes false s).
End Collation.
