(* Model of expression/like.go LikeMatcher.Match / backtrack (the collation-aware LIKE matcher).
   Pattern nodes: NRune so (likeMatcherRune: matches one rune whose weight equals so; a NEGATIVE so matches any
   rune - this is how '_' is represented, sortOrder -1) and NAny (likeMatcherAny, '%', reluctant).
   The subject string is given as its runes: Good w (a rune with collation weight w) or Bad (NextRune returned
   RuneError with advance <= 1).  The Go code keeps indexes (stringIndex, nodeIndex, nodeNextIndex[]); the model
   keeps the same information as a zipper: [done] pairs every matched node (most recent first) with the rest of
   the string after its match (= nodeNextIndex), [todo] are the nodes from nodeIndex on, [rest] is s[stringIndex:]. *)
From Coq Require Import List NArith ZArith Bool Arith Lia.
Import ListNotations.
From GMS Require Import Codec.Charset Codec.Collation Codec.CollationProofs.
Open Scope Z_scope.

Inductive node : Type := NRune (so : Z) | NAny.
Inductive item : Type := Good (w : Z) | Bad.

Definition is_any (n : node) : bool := match n with NAny => true | _ => false end.

(* backtrack: unwind until a node can take one more rune (only NAny can); None = no node can *)
Fixpoint backtrack (done : list (node * list item)) (todo : list node)
  : option (list (node * list item) * list node * list item) :=
  match done with
  | [] => None
  | (n, suf) :: done' =>
      match suf with
      | [] => None                        (* NextRune on the empty rest: (RuneError, 0) *)
      | Bad :: _ => None
      | Good _ :: suf' =>
          if is_any n then Some ((n, suf') :: done', todo, suf')
          else backtrack done' (n :: todo)
      end
  end.

Fixpoint run (fuel : nat) (done : list (node * list item)) (todo : list node) (rest : list item) : option bool :=
  match fuel with
  | O => None
  | S f =>
      match todo, rest with
      | [], [] => Some true
      | [], _ :: _ =>
          match backtrack done todo with
          | None => Some false
          | Some (d, t, r) => run f d t r
          end
      | _ :: _, [] => Some (forallb is_any todo)
      | n :: todo', x :: rest' =>
          match x with
          | Bad => Some false
          | Good w =>
              match n with
              | NAny => run f ((n, rest) :: done) todo' rest          (* matched, not consumed *)
              | NRune so =>
                  if (so <? 0) || (w =? so) then run f ((n, rest') :: done) todo' rest'
                  else match backtrack done todo with
                       | None => Some false
                       | Some (d, t, r) => run f d t r
                       end
              end
          end
      end
  end.

Definition like_match (fuel : nat) (nodes : list node) (s : list item) : option bool :=
  match nodes with
  | [] => Some (match s with [] => true | _ => false end)
  | _ => run fuel [] nodes s
  end.

(* ---------- literal patterns: LIKE is equality of weights ---------- *)
Definition literal (n : node) : Prop := match n with NRune so => 0 <= so | NAny => False end.

Lemma backtrack_literal done : forall todo, Forall (fun p => literal (fst p)) done -> backtrack done todo = None.
Proof.
  induction done as [|[n suf] done IH]; intros todo H; cbn; [reflexivity|].
  inversion H as [|? ? Hn Hd]; subst. cbn in Hn.
  destruct suf as [|[w|] suf']; try reflexivity.
  destruct n as [so|]; [|contradiction]. cbn. apply IH. exact Hd.
Qed.

Fixpoint zeqb (a b : list Z) : bool :=
  match a, b with
  | [], [] => true
  | x :: a', y :: b' => (x =? y) && zeqb a' b'
  | _, _ => false
  end.

Lemma zeqb_eq a : forall b, zeqb a b = true <-> a = b.
Proof.
  induction a as [|x a IH]; intros [|y b]; cbn; split; intros H; try reflexivity; try discriminate.
  - apply andb_prop in H. destruct H as [H1 H2]. apply Z.eqb_eq in H1. apply IH in H2. congruence.
  - injection H as -> ->. rewrite Z.eqb_refl. apply IH. reflexivity.
Qed.

Definition so_of (n : node) : Z := match n with NRune so => so | NAny => 0 end.

Lemma run_literal : forall todo fuel done rest,
  Forall literal todo -> Forall (fun p => literal (fst p)) done -> (length todo < fuel)%nat ->
  run fuel done todo (map Good rest) = Some (zeqb rest (map so_of todo)).
Proof.
  induction todo as [|n todo IH]; intros fuel done rest Ht Hd Hf.
  - destruct fuel as [|f]; [cbn in Hf; lia|]. destruct rest as [|x rest]; cbn.
    + reflexivity.
    + rewrite backtrack_literal by exact Hd. reflexivity.
  - destruct fuel as [|f]; [cbn in Hf; lia|]. inversion Ht as [|? ? Hn Ht']; subst.
    destruct n as [so|]; [|contradiction]. cbn in Hn.
    destruct rest as [|x rest]; cbn [run map zeqb so_of]; [reflexivity|].
    replace (so <? 0) with false by (symmetry; apply Z.ltb_ge; lia). cbn [orb].
    destruct (x =? so) eqn:E.
    + rewrite (IH f ((NRune so, map Good rest) :: done) rest Ht'); [reflexivity| |cbn in Hf; lia].
      constructor; [exact Hn|exact Hd].
    + rewrite backtrack_literal by exact Hd. reflexivity.
Qed.

(* a pattern without wildcards matches exactly the strings whose runes have the pattern's weights, i.e. the
   strings that Compare equates with the pattern text *)
Theorem like_literal_is_weight_equality (sos ws : list Z) fuel :
  Forall (fun so => 0 <= so) sos -> sos <> [] -> (length sos < fuel)%nat ->
  (like_match fuel (map NRune sos) (map Good ws) = Some true <-> ws = sos) /\
  like_match fuel (map NRune sos) (map Good ws) <> None.
Proof.
  intros Hp Hne Hf. unfold like_match. destruct sos as [|so sos]; [congruence|]. cbn [map].
  change (NRune so :: map NRune sos) with (map NRune (so :: sos)).
  rewrite run_literal.
  - rewrite map_map. cbn [so_of]. rewrite map_id. split; [|discriminate].
    split; intros H; [injection H as H; apply zeqb_eq; exact H|f_equal; apply zeqb_eq; exact H].
  - apply Forall_forall. intros n Hin. apply in_map_iff in Hin. destruct Hin as (x & <- & Hx). cbn.
    rewrite Forall_forall in Hp. apply Hp. exact Hx.
  - constructor.
  - rewrite map_length. exact Hf.
Qed.

(* ... stated with the Compare model: under any weight function w with non-negative weights on the pattern,
   a wildcard-free, non-empty pattern p matches a exactly when Compare(a, p) = 0 *)
Theorem like_literal_iff_compare_eq (w : N -> Z) (a p : list N) fuel :
  Forall (fun so => 0 <= so) (weights w false p) -> weights w false p <> [] ->
  (length (weights w false p) < fuel)%nat ->
  (like_match fuel (map NRune (weights w false p)) (map Good (weights w false a)) = Some true <->
   compare w false a p = Eq).
Proof.
  intros H1 H2 H3. rewrite compare_eq_iff_weights.
  apply (like_literal_is_weight_equality (weights w false p) (weights w false a) fuel H1 H2 H3).
Qed.

Lemma like_examples :
  like_match 100 [NRune 72; NRune (-1); NRune 76; NAny; NRune 79] (map Good [72; 69; 76; 76; 79]) = Some true /\
  like_match 100 [NAny; NRune 66; NAny; NRune 67; NAny] (map Good [65; 88; 66; 88; 67]) = Some true /\
  like_match 100 [NAny; NRune 66] (map Good [66; 65]) = Some false /\
  like_match 100 [NAny] [Good 1; Bad] = Some false /\ like_match 100 [] [] = Some true.
Proof. repeat split; vm_compute; reflexivity. Qed.

(* ---------- patterns with wildcards: the declarative meaning and soundness of the machine ---------- *)
(* declarative LIKE on rune items: '%' (NAny) any sequence, '_' (NRune with negative order) one rune, a literal one
   rune of equal weight *)
Fixpoint dlike (nodes : list node) (s : list item) {struct nodes} : bool :=
  match nodes with
  | [] => match s with [] => true | _ => false end
  | NRune so :: ns =>
      match s with
      | Good w :: s' => ((so <? 0) || (w =? so)) && dlike ns s'
      | _ => false
      end
  | NAny :: ns =>
      (fix any (s : list item) : bool := dlike ns s || match s with [] => false | _ :: s' => any s' end) s
  end.

Lemma dlike_any ns s :
  dlike (NAny :: ns) s = dlike ns s || match s with [] => false | _ :: s' => dlike (NAny :: ns) s' end.
Proof. destruct s; reflexivity. Qed.

Lemma dlike_all_any todo : forallb is_any todo = true -> dlike todo [] = true.
Proof.
  induction todo as [|n todo IH]; [reflexivity|]. cbn [forallb]. intros H. apply andb_prop in H. destruct H as [H1 H2].
  destruct n; [discriminate|]. rewrite dlike_any. rewrite (IH H2). reflexivity.
Qed.

(* what backtracking can still reach: an earlier '%' taking at least one more rune, everything after it matched afresh *)
Fixpoint alts (done : list (node * list item)) (todo : list node) : bool :=
  match done with
  | [] => false
  | (n, suf) :: done' =>
      (is_any n && match suf with [] => false | _ :: suf' => dlike (NAny :: todo) suf' end) || alts done' (n :: todo)
  end.

Lemma backtrack_sound : forall done todo d t r, backtrack done todo = Some (d, t, r) ->
  dlike t r || alts d t = true -> alts done todo = true.
Proof.
  induction done as [|[n suf] done IH]; intros todo d t r H Hs; [discriminate|].
  cbn [backtrack] in H. destruct suf as [|[w|] suf']; try discriminate.
  cbn [alts]. destruct (is_any n) eqn:A.
  - injection H as <- <- <-. cbn [alts] in Hs. rewrite A in Hs. cbn [andb] in *.
    rewrite (dlike_any todo suf'). destruct n; [discriminate|].
    destruct (dlike todo suf'); cbn [orb] in *; [reflexivity|exact Hs].
  - cbn [andb orb]. eapply IH; eassumption.
Qed.

Lemma run_sound : forall fuel done todo rest, run fuel done todo rest = Some true ->
  dlike todo rest || alts done todo = true.
Proof.
  induction fuel as [|f IH]; intros done todo rest H; [discriminate|]. cbn [run] in H.
  destruct todo as [|n todo']; destruct rest as [|x rest'].
  - reflexivity.
  - destruct (backtrack done []) as [[[d t] r]|] eqn:B; [|discriminate].
    apply IH in H. rewrite (backtrack_sound _ _ _ _ _ B H). apply orb_true_r.
  - injection H as H. rewrite (dlike_all_any (n :: todo') H). reflexivity.
  - destruct x as [w|]; [|discriminate]. destruct n as [so|].
    + destruct ((so <? 0) || (w =? so)) eqn:C.
      * apply IH in H. cbn [alts is_any andb orb] in H. cbn [dlike]. rewrite C. exact H.
      * destruct (backtrack done (NRune so :: todo')) as [[[d t] r]|] eqn:B; [|discriminate].
        apply IH in H. rewrite (backtrack_sound _ _ _ _ _ B H). apply orb_true_r.
    + apply IH in H. cbn [alts is_any andb] in H. rewrite dlike_any.
      destruct (dlike todo' (Good w :: rest')); cbn [orb] in *; [reflexivity|exact H].
Qed.

(* the machine never accepts a string that the pattern does not denote, for every weight assignment *)
Theorem like_match_sound fuel nodes s : like_match fuel nodes s = Some true -> dlike nodes s = true.
Proof.
  unfold like_match. destruct nodes as [|n nodes].
  - destruct s; [reflexivity|discriminate].
  - intros H. apply run_sound in H. cbn [alts] in H. rewrite orb_false_r in H. exact H.
Qed.
