(* C28 -- what the server announces and marks besides the values: the NULL bitmap of a binary row (vitess
   writeBinaryRow: (cols + 7 + 2) / 8 bytes, bit i + 2 set for a NULL in column i) and the column definitions
   (server/handler.go schemaToFields + vitess writeColumnDefinition / sqltypes.TypeToMySQL): protocol type code,
   flags, decimals, column length, character set. *)
From Coq Require Import List NArith ZArith Bool Lia Arith.
Import ListNotations.
From GMS Require Import Codec.C28Wire Codec.C28Str Codec.C28Bin.
Open Scope Z_scope.

(* ---------- NULL bitmap ---------- *)
Fixpoint bits_num (nulls : list bool) : Z :=
  match nulls with [] => 0 | b :: r => Z.b2z b + 2 * bits_num r end.
Definition bitmap_len (ncols : nat) : nat := ((ncols + 7 + 2) / 8)%nat.
Definition null_bitmap (nulls : list bool) : bytes := le_bytes (bitmap_len (length nulls)) (4 * bits_num nulls).
(* the client: column i is NULL iff bit (i + 2) mod 8 of byte (i + 2) / 8 is set *)
Definition bitmap_is_null (bm : bytes) (i : nat) : bool :=
  N.testbit (nth ((i + 2) / 8) bm 0%N) (N.of_nat ((i + 2) mod 8)).

(* ---------- column definitions ---------- *)
Inductive colty :=
| TInt (t : ity) | TDecimal (p s : Z) | TYear | TBit (n : Z) | TDate | TDatetime (n : nat) | TTimestamp (n : nat)
| TTime | TEnum (names : list bytes) | TSet (names : list bytes) | TStr (t : sty).

(* protocol type code (sqltypes.TypeToMySQL) *)
Definition meta_type (c : colty) : Z :=
  match c with
  | TInt I8 | TInt U8 => 1 | TInt I16 | TInt U16 => 2 | TInt I32 | TInt U32 => 3
  | TInt I64 | TInt U64 => 8 | TInt I24 | TInt U24 => 9
  | TTimestamp _ => 7 | TDate => 10 | TTime => 11 | TDatetime _ => 12 | TYear => 13 | TBit _ => 16
  | TDecimal _ _ => 246
  | TStr Text => 252 | TStr (VarChar _) | TStr (VarBinary _) => 253
  | TStr (Char _) | TStr (Binary _) | TEnum _ | TSet _ => 254
  end.
Definition FL_NOT_NULL := 1. Definition FL_PRI_KEY := 2. Definition FL_UNSIGNED := 32. Definition FL_BINARY := 128.
Definition FL_ENUM := 256. Definition FL_AUTO_INC := 512. Definition FL_SET := 2048.
Definition col_unsigned (c : colty) : bool := match c with TInt t => negb (ity_signed t) | _ => false end.
(* flags computed by schemaToFields *)
Definition engine_flags (c : colty) (notnull pk autoinc : bool) : Z :=
  (if notnull then FL_NOT_NULL else 0) + (if autoinc then FL_AUTO_INC else 0) + (if pk then FL_PRI_KEY else 0) +
  (if col_unsigned c then FL_UNSIGNED else 0).
(* flags vitess derives from the type, used ONLY when the engine's flags are all clear *)
Definition type_flags (c : colty) : Z :=
  match c with
  | TInt t => if ity_signed t then 0 else FL_UNSIGNED
  | TDate | TTime | TDatetime _ => FL_BINARY
  | TYear | TBit _ => FL_UNSIGNED
  | TStr (VarBinary _) | TStr (Binary _) => FL_BINARY
  | TEnum _ => FL_ENUM | TSet _ => FL_SET
  | _ => 0
  end.
Definition meta_flags (c : colty) (notnull pk autoinc : bool) : Z :=
  let f := engine_flags c notnull pk autoinc in if f =? 0 then type_flags c else f.
(* decimals: the scale of a DECIMAL, the precision of a DATETIME -- and of nothing else *)
Definition meta_decimals (c : colty) : Z :=
  match c with TDecimal _ s => s | TDatetime n => Z.of_nat n | _ => 0 end.
(* the number of fraction digits a value of the type is printed with *)
Definition fraction_digits (c : colty) : Z :=
  match c with TDecimal _ s => s | TDatetime n | TTimestamp n => Z.of_nat n | TTime => 6 | _ => 0 end.
(* column length = MaxTextResponseByteLength *)
Definition meta_length (c : colty) : Z :=
  match c with
  | TInt t => ity_announced t | TDecimal p s => dec_announced p s | TYear => 4 | TBit n => n
  | TDate => date_announced | TDatetime _ | TTimestamp _ => datetime_announced | TTime => time_announced
  | TEnum names => Z.of_nat (enum_announced names) | TSet names => Z.of_nat (set_announced names)
  | TStr t => Z.of_nat (str_announced t)
  end.
(* character set: binary (63) for binary string types, the session's results character set (255 = utf8mb4 in the
   engine's numbering) for everything else *)
Definition meta_charset (c : colty) : Z :=
  match c with TStr (VarBinary _) | TStr (Binary _) => 63 | _ => 255 end.
