(* C31 -- civil calendar and date arithmetic model.
   days_from_civil / civil_from_days: proleptic Gregorian calendar over all of Z (day 0 = 1970-01-01), the
   reference against which Go's time.Date/AddDate/Sub as used by sql/expression/interval.go (TimeDelta.apply),
   function/time_math.go (DATEDIFF, TIMESTAMPDIFF) and planbuilder/dateparse (time.Date normalisation) are compared. *)
From Coq Require Import List NArith ZArith Bool Lia.
Import ListNotations.
Open Scope Z_scope.

Definition date : Type := (Z * Z * Z)%type.   (* year, month, day *)

Definition is_leap (y : Z) : bool := ((y mod 4 =? 0) && negb (y mod 100 =? 0)) || (y mod 400 =? 0).
Definition days_in_month (y m : Z) : Z :=
  if m =? 2 then (if is_leap y then 29 else 28)
  else if (m =? 4) || (m =? 6) || (m =? 9) || (m =? 11) then 30 else 31.
Definition valid_date (dt : date) : bool :=
  let '(y, m, d) := dt in (1 <=? m) && (m <=? 12) && (1 <=? d) && (d <=? days_in_month y m).

(* day-of-era pieces (one era = 400 years = 146097 days, starting on March 1st) *)
Definition doe_of (yoe m d : Z) : Z :=
  let mp := if 2 <? m then m - 3 else m + 9 in
  yoe * 365 + yoe / 4 - yoe / 100 + ((153 * mp + 2) / 5 + d - 1).
Definition civil_of_doe (doe : Z) : Z * Z * Z :=      (* (yoe, m, d) *)
  let yoe := (doe - doe / 1460 + doe / 36524 - doe / 146096) / 365 in
  let doy := doe - (365 * yoe + yoe / 4 - yoe / 100) in
  let mp := (5 * doy + 2) / 153 in
  (yoe, (if mp <? 10 then mp + 3 else mp - 9), doy - (153 * mp + 2) / 5 + 1).

Definition days_from_civil (dt : date) : Z :=
  let '(y, m, d) := dt in
  let y' := if m <=? 2 then y - 1 else y in
  let era := y' / 400 in
  era * 146097 + doe_of (y' - era * 400) m d - 719468.

Definition civil_from_days (z : Z) : date :=
  let z' := z + 719468 in
  let era := z' / 146097 in
  let '(yoe, m, d) := civil_of_doe (z' - era * 146097) in
  ((yoe + era * 400) + (if m <=? 2 then 1 else 0), m, d).

(* time.Date(y, m, d, ...) normalises out-of-range months and days instead of rejecting them *)
Definition go_date (y m d : Z) : date :=
  let tm := m - 1 in
  let y' := y + tm / 12 in
  let m' := tm mod 12 + 1 in
  civil_from_days (days_from_civil (y', m', 1) + (d - 1)).

(* ---------- interval arithmetic (expression/interval.go TimeDelta.apply) ---------- *)
Definition add_days (dt : date) (n : Z) : date := civil_from_days (days_from_civil dt + n).

Definition add_months (dt : date) (n : Z) : date :=
  let '(y, m, d) := dt in
  let total := m - 1 + n in
  let ty := y + total / 12 in
  let tm := total mod 12 + 1 in
  let md := days_in_month ty tm in
  go_date ty tm (if md <? d then md else d).

Definition add_years (dt : date) (n : Z) : date :=
  let '(y, m, d) := dt in
  let ty := y + n in
  if (m =? 2) && (d =? 29) && negb (is_leap ty) then go_date ty 2 28 else go_date ty m d.

Definition no_clamp_months (dt : date) (n : Z) : bool :=
  let '(y, m, d) := dt in
  let total := m - 1 + n in d <=? days_in_month (y + total / 12) (total mod 12 + 1).

(* DATEDIFF(a, b) and TIMESTAMPDIFF(SECOND, b, a) with a time of day in seconds *)
Definition datediff (a b : date) : Z := days_from_civil a - days_from_civil b.
(* DateDiff.Eval computes round(date1.Sub(date2).Hours()/24); time.Time.Sub saturates at +-(2^63-1) ns, i.e. for
   differences of 106752 days (about 292 years) and more *)
Definition datediff_go (a b : date) : Z :=
  let dd := datediff a b in if 106752 <? dd then 106752 else if dd <? -106752 then -106752 else dd.
Definition to_seconds (dt : date) (tod : Z) : Z := days_from_civil dt * 86400 + tod.
Definition timestampdiff_seconds (b : date) (tb : Z) (a : date) (ta : Z) : Z := to_seconds a ta - to_seconds b tb.
(* units obtained by truncation toward zero *)
Definition timestampdiff_unit (secs_per_unit : Z) (b : date) (tb : Z) (a : date) (ta : Z) : Z :=
  Z.quot (timestampdiff_seconds b tb a ta) secs_per_unit.

(* ---------- STR_TO_DATE for numeric year/month/day (dateparse: %Y %m %d / %c %e): fields are range-checked
   one by one (month 1..12, day 1..31 for %m/%d; nothing for %c/%e) and then handed to time.Date ---------- *)
Definition str_to_date_ymd (strict : bool) (y m d : Z) : option date :=
  if strict && negb ((1 <=? m) && (m <=? 12) && (1 <=? d) && (d <=? 31)) then None
  else Some (go_date y m d).

(* ---------- sub-day intervals (TimeDelta.apply: t.Add(duration)) on a moment (date, microseconds of the day) ---------- *)
Definition usday : Z := 86400000000.
Definition add_us (dt : date) (tod n : Z) : date * Z :=
  let tot := days_from_civil dt * usday + tod + n in (civil_from_days (tot / usday), tot mod usday).

(* DATEDIFF on datetimes: DateDiff.Eval cuts both arguments to their first ten characters (the date part) *)
Definition datediff_dt (a : date) (ta : Z) (b : date) (tb : Z) : Z := datediff_go a b.

(* ---------- TIMESTAMPDIFF(MONTH | QUARTER | YEAR): monthsDiff of time_math.go ---------- *)
(* a moment is (date, second of the day); before/after is the calendar (lexicographic) order, which is the order of
   instants for valid dates *)
Definition moment_lt (a : date * Z) (b : date * Z) : bool :=
  let '((y1, m1, d1), t1) := a in let '((y2, m2, d2), t2) := b in
  (y1 <? y2) || ((y1 =? y2) && ((m1 <? m2) || ((m1 =? m2) && ((d1 <? d2) || ((d1 =? d2) && (t1 <? t2)))))).
Definition months_between (before after : date * Z) : Z :=
  let '((y1, m1, d1), t1) := before in let '((y2, m2, d2), t2) := after in
  let md := m2 - m1 in
  (* sql.SecondsPerMinute is int64(time.Second / time.Minute) = 0, so the minutes do not count in the tie-break *)
  let sd := (t2 / 3600 - t1 / 3600) * 3600 + (t2 / 60 mod 60 - t1 / 60 mod 60) * 0 + (t2 mod 60 - t1 mod 60) in
  let md := if d2 <? d1 then md - 1 else if (d1 =? d2) && (sd <? 0) then md - 1 else md in
  (y2 - y1) * 12 + md.
Definition months_diff (a b : date * Z) : Z :=
  if moment_lt b a then - months_between b a else months_between a b.
Definition timestampdiff_months (per : Z) (a b : date * Z) : Z := Z.quot (months_diff a b) per.

(* ---------- CAST('YYYY-MM-DD' AS DATE): types.parseDatetime retries on shorter prefixes that end in a digit ---------- *)
(* month 1..12, day 1..31 written with two digits: a non-existent day loses its last digit ('2023-02-30' -> '2023-02-3') *)
Definition cast_date_str (y m d : Z) : date :=
  if valid_date (y, m, d) then (y, m, d) else (y, m, d / 10).
