(* C25 — nested arithmetic: expression trees over + - * DIV % / and unary minus, evaluated as the engine does:
   static result types are propagated bottom-up (Arithmetic.getReturnType, IntDiv.Type, Div.determineResultType,
   Mod.Type = getFloatOrMaxDecimalType, UnaryMinus.Type) and decide the conversions of the children's VALUES
   (convertLeftRight); only the outermost operator of a connected group of arithmetic operators rounds a decimal
   result (isOutermostArithmeticOp / getFinalScale, with the divOps bookkeeping of setDivOps). *)
From Coq Require Import ZArith Bool List.
Import ListNotations.
From GMS Require Import Codec.C25Arith.
Open Scope Z_scope.

(* a leaf: literal?, declared decimal scale of its type (0 for integers), evaluated operand *)
Inductive expr :=
| ELeaf (lit : bool) (decl : Z) (o : operand)
| EBin (o : op) (l r : expr)
| ENeg (e : expr).

(* static type: an integer type or a decimal with a declared scale *)
Inductive sty := TyI (t : ity) | TyD (s : Z).

Definition cap30 (s : Z) : Z := Z.min 30 s.
Definition sty_unsigned (t : sty) : bool := match t with TyI i => unsigned i | TyD _ => false end.
Definition sty_signed (t : sty) : bool := match t with TyI i => negb (unsigned i) | TyD _ => false end.
Definition sty_int (t : sty) : bool := match t with TyI _ => true | TyD _ => false end.

(* largest declared scale over the leaves (getFloatOrMaxDecimalType inspects the whole subtree) *)
Fixpoint max_leaf_scale (e : expr) : Z :=
  match e with
  | ELeaf lit decl o =>     (* a Literal contributes its VALUE's scale, a column / CAST its declared scale *)
      if lit then match o with ODec _ s => s | _ => 0 end else decl
  | EBin _ l r => Z.max (max_leaf_scale l) (max_leaf_scale r)
  | ENeg e' => max_leaf_scale e'
  end.

Fixpoint sty_of (e : expr) : sty :=
  match e with
  | ELeaf _ decl (OInt t _) => TyI t
  | ELeaf _ decl _ => TyD decl
  | ENeg e' =>
      match sty_of e', e' with
      | TyI I64, ELeaf true _ (OInt I64 z) => if z =? min_i64 then TyD 30 else TyI I64
      | TyI I8, _ | TyI I16, _ | TyI I32, _ => TyI I64
      | TyI U32, _ => TyI I32
      | TyI U64, _ => TyI I64
      | t, _ => t
      end
  | EBin o l r =>
      let tl := sty_of l in let tr := sty_of r in
      match o with
      | IntDiv => if sty_unsigned tl || sty_unsigned tr then TyI U64 else TyI I64
      | Mod => TyD (max_leaf_scale e)
      | Div => match tl with TyD s => TyD (cap30 (s + 4)) | TyI _ => TyD 4 end
      | _ =>
          match tl, tr with
          | TyI _, TyI _ => if sty_unsigned tl && sty_unsigned tr then TyI U64 else TyI I64
          | TyD s, TyI _ => TyD s
          | TyI _, TyD s => TyD s
          | TyD s1, TyD s2 => TyD (cap30 (match o with Mult => s1 + s2 | _ => Z.max s1 s2 end))
          end
      end
  end.

(* a result seen as an operand of the parent *)
Definition as_operand (r : result) : operand :=
  match r with RInt t z => OInt t z | RDec m s => ODec m s | _ => ONull end.

(* + - * with the conversion decided by the STATIC types of the children *)
Definition arith_st (o : op) (tl tr : sty) (l r : operand) : result :=
  if sty_int tl && sty_int tr then
    (if sty_unsigned tl && sty_unsigned tr
     then RInt U64 (wrap_u64 (zop o (conv_u64 l) (conv_u64 r)))
     else RInt I64 (wrap_i64 (zop o (conv_i64 l) (conv_i64 r))))
  else dec_arith o (to_dec l) (to_dec r).

Definition intdiv_st (tl tr : sty) (l r : operand) : result :=
  if sty_unsigned tl && sty_unsigned tr then
    (if conv_u64 r =? 0 then RNull else RInt U64 (wrap_u64 (Z.quot (conv_u64 l) (conv_u64 r))))
  else if sty_signed tl && sty_signed tr then
    (if conv_i64 r =? 0 then RNull else RInt I64 (wrap_i64 (Z.quot (conv_i64 l) (conv_i64 r))))
  else
    let '(m1, s1) := to_dec l in
    let '(m2, s2) := to_dec r in
    if m2 =? 0 then RNull
    else let q := Z.quot (m1 * 10 ^ s2) (m2 * 10 ^ s1) in
         if (min_i64 <=? q) && (q <=? max_i64) then RInt I64 q else RErr.

(* div() without the final rounding: the quotient truncated at the working scale *)
Definition div_raw (ldecl : Z) (l r : operand) : result :=
  let '(m1, s1) := lpad ldecl (to_dec l) in
  let '(m2, s2) := to_dec r in
  if m2 =? 0 then RNull
  else let scale := div_work_scale s1 s2 in
       let q := Z.quot (m1 * 10 ^ (scale + s2 - s1)) m2 in
       if q =? 0 then RDec 0 0 else RDec q scale.      (* DecimalDiv resets a zero quotient to exponent 0 *)

Definition count_divs_fuel := 64%nat.
Fixpoint count_divs (e : expr) : Z :=
  match e with
  | EBin Div l _ => count_divs l + 1
  | EBin _ l _ => count_divs l
  | _ => 0
  end.

Definition is_err (r : result) : bool := match r with RErr => true | _ => false end.
Definition is_null_r (r : result) : bool := match r with RNull => true | _ => false end.
Definition scale_of_result (r : result) : Z := match r with RDec _ s => s | _ => 0 end.
Definition decl_scale (t : sty) : Z := match t with TyD s => s | TyI _ => 0 end.

(* sql.DecimalRound to scale f: pad with zeros, or round half away from zero *)
Definition rescale (m s f : Z) : Z := if s <=? f then m * 10 ^ (f - s) else round_half_away m (s - f).

(* the rounding an outermost operator applies to its decimal result, given getFinalScale's answer *)
Definition apply_round (e : expr) (v : result) (fs : Z * bool) : result :=
  match e, v with
  | EBin Div _ _, RDec m s => RDec (rescale m s (fst fs)) (fst fs)
  | EBin Plus _ _, RDec m s | EBin Minus _ _, RDec m s | EBin Mult _ _, RDec m s =>
      if snd fs then RDec (rescale m s (fst fs)) (fst fs) else v
  | _, _ => v
  end.

(* [ev]: value of a node that is NOT the outermost operator of its group (no rounding);
   [final_scale e cnt dctx]: getFinalScale = (scale, hasDiv); cnt = divOpCnt; dctx = the divOps number inherited
   from the outermost enclosing Div of the group (0 = none: a Div then uses its own left-spine count, setDivOps) *)
Fixpoint ev (e : expr) : result :=
  match e with
  | ELeaf _ _ o => match o with ONull => RNull | OInt t z => RInt (go_carrier t) z | ODec m s => RDec m s end
  | ENeg e' =>
      match e' with
      | ELeaf lit _ o => neg lit o
      | _ => let v := apply_round e' (ev e') (final_scale e' 0 0) in   (* the child is outermost in its own group *)
             match v with RErr => RErr | RNull => RNull | _ => neg false (as_operand v) end
      end
  | EBin o l r =>
      let vl := ev l in
      if is_err vl then RErr else
      let vr := ev r in
      if is_err vr then RErr else
      if is_null_r vl || is_null_r vr then RNull else
      let ol := as_operand vl in let or_ := as_operand vr in
      match o with
      | Plus | Minus | Mult => arith_st o (sty_of l) (sty_of r) ol or_
      | IntDiv => intdiv_st (sty_of l) (sty_of r) ol or_
      | Mod => modulo ol or_
      | Div => div_raw (decl_scale (sty_of l)) ol or_
      | _ => RErr
      end
  end
with final_scale (e : expr) (cnt dctx : Z) : Z * bool :=
  match e with
  | EBin Div l _ =>
      let mine := if dctx =? 0 then count_divs e else dctx in
      let cnt' := cnt + 1 in
      let s := if cnt' =? mine
               then Z.max (scale_of_result (ev l)) (decl_scale (sty_of l))
               else fst (final_scale l cnt' mine) in
      (cap30 (4 + s), true)
  | EBin IntDiv _ _ => (0, false)
  | EBin o l r =>
      let '(sl, dl) := final_scale l cnt dctx in let '(sr, dr) := final_scale r cnt dctx in
      (cap30 (match o with Mult => sl + sr | _ => Z.max sl sr end), dl || dr)
  | _ => (decl_scale (sty_of e), false)
  end.

Definition neval (e : expr) : result := apply_round e (ev e) (final_scale e 0 0).
