(* C28 -- JSON columns on the wire (sql/types/json.go JsonType.SQL = the document's JSONString = writeMarshalledValue;
   JsonType.Convert(text) parses the text): text model = [print] of the copied C32 document model, reader = its
   [parse]; documents of null / booleans / exact integers / strings / arrays / objects. *)
From Coq Require Import List NArith ZArith Bool.
Import ListNotations.
From GMS Require Import Codec.C28Json Codec.C28JsonProofs Codec.C28JsonCompare Codec.C28JsonParse.

Definition json_sql_text (j : json) : list N := print j.
Definition json_convert_text (s : list N) : option json := parse s.
(* Compare = 0 (CompareJSON) *)
Definition json_same (a b : json) : bool := match compare_json a b with Eq => true | _ => false end.

Theorem json_text_roundtrip j : json_convert_text (json_sql_text j) = Some (canon j).
Proof. exact (parse_print j). Qed.

Corollary json_int_text_roundtrip z : json_convert_text (json_sql_text (JInt z)) = Some (JInt z).
Proof. exact (parse_print (JInt z)). Qed.
Corollary json_string_text_roundtrip s : json_convert_text (json_sql_text (JStr s)) = Some (JStr s).
Proof. exact (parse_print (JStr s)). Qed.
