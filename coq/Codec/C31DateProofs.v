(* C31 -- proofs: the civil calendar round trip over all of Z (periodicity + one era checked by computation),
   interval arithmetic inverses, DATEDIFF / TIMESTAMPDIFF. *)
From Coq Require Import List NArith ZArith Bool Lia.
Import ListNotations.
From GMS Require Import Codec.C31Date.
Open Scope Z_scope.

(* ---------- finite checks over one era ---------- *)
Fixpoint upto (n : nat) (start : Z) : list Z :=
  match n with O => [] | S k => start :: upto k (start + 1) end.
Definition range (n : Z) : list Z := upto (Z.to_nat n) 0.
Lemma in_upto n : forall s z, s <= z < s + Z.of_nat n -> In z (upto n s).
Proof.
  induction n as [|n IH]; intros s z H; [lia|]. cbn [upto].
  destruct (Z.eq_dec s z) as [->|Hn]; [now left|]. right. apply IH. lia.
Qed.
Lemma in_range z n : 0 <= z < n -> In z (range n).
Proof. intros H. unfold range. apply in_upto. rewrite Z2Nat.id by lia. lia. Qed.

Definition era_ok (doe : Z) : bool :=
  let '(yoe, m, d) := civil_of_doe doe in
  (0 <=? yoe) && (yoe <? 400) && (1 <=? m) && (m <=? 12) && (1 <=? d) && (doe_of yoe m d =? doe) &&
  (* the day is valid for the civil year yoe + (m <= 2) (leap rule is 400-periodic) *)
  (d <=? days_in_month (yoe + (if m <=? 2 then 1 else 0)) m).

Lemma era_check : forallb era_ok (range 146097) = true.
Proof. vm_compute. reflexivity. Qed.

Lemma era_ok_all doe : 0 <= doe < 146097 -> era_ok doe = true.
Proof. intros H. pose proof era_check as E. rewrite forallb_forall in E. apply E. apply in_range. lia. Qed.

(* every valid (yoe-year, month, day) of one 400-year cycle: doe is in range and decodes back *)
Definition months : list Z := range 13.
Definition ymd_ok (yy : Z) : bool :=
  forallb (fun m => (m =? 0) ||
    forallb (fun d => (d =? 0) || negb (d <=? days_in_month yy m) ||
      (let y' := if m <=? 2 then yy - 1 else yy in
       let yoe := y' mod 400 in
       let doe := doe_of yoe m d in
       (0 <=? doe) && (doe <? 146097) &&
       (let '(yoe2, m2, d2) := civil_of_doe doe in (yoe2 =? yoe) && (m2 =? m) && (d2 =? d))))
      (range 32)) months.
Lemma ymd_check : forallb ymd_ok (range 400) = true.
Proof. vm_compute. reflexivity. Qed.

(* ---------- periodicity ---------- *)
Lemma leap_periodic y k : is_leap (y + 400 * k) = is_leap y.
Proof.
  unfold is_leap.
  replace ((y + 400 * k) mod 4) with (y mod 4) by (replace (y + 400 * k) with (y + (100 * k) * 4) by ring; now rewrite Z.mod_add by lia).
  replace ((y + 400 * k) mod 100) with (y mod 100) by (replace (y + 400 * k) with (y + (4 * k) * 100) by ring; now rewrite Z.mod_add by lia).
  replace ((y + 400 * k) mod 400) with (y mod 400) by (replace (y + 400 * k) with (y + k * 400) by ring; now rewrite Z.mod_add by lia).
  reflexivity.
Qed.
Lemma dim_periodic y m k : days_in_month (y + 400 * k) m = days_in_month y m.
Proof. unfold days_in_month. now rewrite leap_periodic. Qed.

(* ---------- round trip 1: days -> civil -> days, all z ---------- *)
Theorem days_civil_days z : days_from_civil (civil_from_days z) = z /\ valid_date (civil_from_days z) = true.
Proof.
  unfold civil_from_days. set (z' := z + 719468). set (era := z' / 146097). set (doe := z' - era * 146097).
  assert (Hdoe : 0 <= doe < 146097).
  { unfold doe, era. pose proof (Z.div_mod z' 146097 ltac:(lia)). pose proof (Z.mod_pos_bound z' 146097 ltac:(lia)). lia. }
  pose proof (era_ok_all doe Hdoe) as Hok. unfold era_ok in Hok.
  destruct (civil_of_doe doe) as [[yoe m] d].
  repeat (apply andb_prop in Hok; destruct Hok as [Hok ?]).
  repeat match goal with H : (_ <=? _) = true |- _ => apply Z.leb_le in H | H : (_ <? _) = true |- _ => apply Z.ltb_lt in H
                    | H : (_ =? _) = true |- _ => apply Z.eqb_eq in H end.
  split.
  - unfold days_from_civil.
    assert (Hy : (if m <=? 2 then yoe + era * 400 + (if m <=? 2 then 1 else 0) - 1 else yoe + era * 400 + (if m <=? 2 then 1 else 0)) = yoe + era * 400)
      by (destruct (m <=? 2); lia).
    rewrite Hy.
    assert (He : (yoe + era * 400) / 400 = era) by (rewrite Z.div_add by lia; rewrite Z.div_small by lia; lia).
    rewrite He. replace (yoe + era * 400 - era * 400) with yoe by lia. unfold doe, z' in *. lia.
  - unfold valid_date.
    replace (yoe + era * 400 + (if m <=? 2 then 1 else 0)) with (yoe + (if m <=? 2 then 1 else 0) + 400 * era) by lia.
    rewrite dim_periodic.
    repeat (apply andb_true_intro; split); try (apply Z.leb_le; lia).
Qed.

(* ---------- round trip 2: valid civil -> days -> civil, all years ---------- *)
Theorem civil_days_civil dt : valid_date dt = true -> civil_from_days (days_from_civil dt) = dt.
Proof.
  destruct dt as [[y m] d]. unfold valid_date. intros Hv.
  repeat (apply andb_prop in Hv; destruct Hv as [Hv ?]).
  repeat match goal with H : (_ <=? _) = true |- _ => apply Z.leb_le in H end.
  set (k := y / 400). set (yy := y mod 400).
  assert (Hy : y = yy + 400 * k) by (unfold yy, k; pose proof (Z.div_mod y 400 ltac:(lia)); lia).
  assert (Hyy : 0 <= yy < 400) by (unfold yy; apply Z.mod_pos_bound; lia).
  pose proof ymd_check as E. rewrite forallb_forall in E. specialize (E yy (in_range yy 400 ltac:(lia))).
  unfold ymd_ok in E. rewrite forallb_forall in E. specialize (E m (in_range m 13 ltac:(lia))).
  replace (m =? 0) with false in E by (symmetry; apply Z.eqb_neq; lia). cbn [orb] in E.
  assert (Hd31 : d <= 31). { assert (days_in_month y m <= 31) by (unfold days_in_month; repeat destruct (_ =? _); try destruct (is_leap y); cbn; lia). lia. }
  rewrite forallb_forall in E. specialize (E d (in_range d 32 ltac:(lia))).
  replace (d =? 0) with false in E by (symmetry; apply Z.eqb_neq; lia).
  rewrite Hy in H. rewrite dim_periodic in H.
  replace (d <=? days_in_month yy m) with true in E by (symmetry; apply Z.leb_le; lia). cbn [orb negb] in E.
  unfold days_from_civil, civil_from_days.
  set (y' := if m <=? 2 then y - 1 else y) in *. set (y0 := if m <=? 2 then yy - 1 else yy) in *.
  assert (Hy' : y' = y0 + 400 * k) by (unfold y', y0; destruct (m <=? 2); lia).
  set (era := y' / 400).
  assert (Hyoe : y' - era * 400 = y0 mod 400).
  { unfold era. rewrite Hy'. replace (y0 + 400 * k) with (y0 + k * 400) by ring. rewrite Z.div_add by lia.
    pose proof (Z.div_mod y0 400 ltac:(lia)). lia. }
  rewrite Hyoe. set (yoe := y0 mod 400) in *. set (doe := doe_of yoe m d) in *.
  apply andb_prop in E. destruct E as [E Ec]. apply andb_prop in E. destruct E as [E1 E2].
  apply Z.leb_le in E1. apply Z.ltb_lt in E2.
  replace (era * 146097 + doe - 719468 + 719468) with (doe + era * 146097) by lia.
  rewrite Z.div_add by lia. rewrite Z.div_small by lia. cbn [Z.add].
  replace (doe + era * 146097 - era * 146097) with doe by lia.
  destruct (civil_of_doe doe) as [[yoe2 m2] d2].
  apply andb_prop in Ec. destruct Ec as [Ec Ed]. apply andb_prop in Ec. destruct Ec as [Ey Em].
  apply Z.eqb_eq in Ey, Em, Ed. subst yoe2 m2 d2.
  f_equal. f_equal.
  assert (Hera : era = y0 / 400 + k). { unfold era. rewrite Hy'. replace (y0 + 400 * k) with (y0 + k * 400) by ring. now rewrite Z.div_add by lia. }
  pose proof (Z.div_mod y0 400 ltac:(lia)) as Hdm. fold yoe in Hdm.
  unfold y' in *. destruct (m <=? 2); lia.
Qed.

(* ---------- consequences ---------- *)
Lemma add_days_valid dt n : valid_date (add_days dt n) = true.
Proof. unfold add_days. apply days_civil_days. Qed.

Theorem add_sub_days_inverse dt n : valid_date dt = true -> add_days (add_days dt n) (- n) = dt.
Proof.
  intros Hv. unfold add_days. rewrite (proj1 (days_civil_days _)).
  replace (days_from_civil dt + n + - n) with (days_from_civil dt) by lia. now apply civil_days_civil.
Qed.

Theorem datediff_add_days dt n : datediff (add_days dt n) dt = n.
Proof. unfold datediff, add_days. rewrite (proj1 (days_civil_days _)). lia. Qed.

Theorem datediff_zero_iff a b : valid_date a = true -> valid_date b = true -> (datediff a b = 0 <-> a = b).
Proof.
  intros Ha Hb. unfold datediff. split; [|intros ->; lia]. intros H.
  rewrite <- (civil_days_civil a Ha), <- (civil_days_civil b Hb). f_equal. lia.
Qed.

Lemma go_date_valid_id y m d : valid_date (y, m, d) = true -> go_date y m d = (y, m, d).
Proof.
  intros Hv. pose proof Hv as Hv2. unfold valid_date in Hv2.
  repeat (apply andb_prop in Hv2; destruct Hv2 as [Hv2 ?]).
  repeat match goal with H : (_ <=? _) = true |- _ => apply Z.leb_le in H end.
  unfold go_date. replace ((m - 1) / 12) with 0 by (symmetry; apply Z.div_small; lia).
  replace ((m - 1) mod 12) with (m - 1) by (symmetry; apply Z.mod_small; lia).
  replace (y + 0) with y by lia. replace (m - 1 + 1) with m by lia.
  replace (days_from_civil (y, m, 1) + (d - 1)) with (days_from_civil (y, m, d))
    by (unfold days_from_civil, doe_of; lia).
  apply civil_days_civil. exact Hv.
Qed.

(* adding then subtracting n months restores the date when neither step clamps the day *)
Theorem add_sub_months_inverse y m d n :
  valid_date (y, m, d) = true -> no_clamp_months (y, m, d) n = true ->
  add_months (add_months (y, m, d) n) (- n) = (y, m, d).
Proof.
  intros Hv Hnc. pose proof Hv as Hv2. unfold valid_date in Hv2.
  repeat (apply andb_prop in Hv2; destruct Hv2 as [Hv2 ?]).
  repeat match goal with H : (_ <=? _) = true |- _ => apply Z.leb_le in H end.
  unfold no_clamp_months in Hnc. apply Z.leb_le in Hnc.
  unfold add_months at 2.
  set (total := m - 1 + n) in *. set (ty := y + total / 12) in *. set (tm := total mod 12 + 1) in *.
  assert (Htm : 1 <= tm <= 12) by (unfold tm; pose proof (Z.mod_pos_bound total 12 ltac:(lia)); lia).
  replace (days_in_month ty tm <? d) with false by (symmetry; apply Z.ltb_ge; lia).
  assert (Hv1 : valid_date (ty, tm, d) = true).
  { unfold valid_date. repeat (apply andb_true_intro; split); apply Z.leb_le; lia. }
  rewrite (go_date_valid_id _ _ _ Hv1). unfold add_months.
  assert (Hback : tm - 1 + - n = (m - 1) + 12 * (- (total / 12))).
  { unfold tm. pose proof (Z.div_mod total 12 ltac:(lia)). unfold total in *. lia. }
  rewrite Hback. replace (m - 1 + 12 * - (total / 12)) with (m - 1 + (- (total / 12)) * 12) by ring.
  rewrite Z.div_add, Z.mod_add by lia.
  replace ((m - 1) / 12) with 0 by (symmetry; apply Z.div_small; lia).
  replace ((m - 1) mod 12) with (m - 1) by (symmetry; apply Z.mod_small; lia).
  replace (ty + (0 + - (total / 12))) with y by (unfold ty; lia). replace (m - 1 + 1) with m by lia.
  replace (days_in_month y m <? d) with false by (symmetry; apply Z.ltb_ge; lia).
  apply go_date_valid_id. exact Hv.
Qed.

(* with clamping the inverse fails: Jan 31 + 1 month - 1 month = Jan 29 (2024) *)
Lemma add_sub_months_clamped : add_months (add_months (2024, 1, 31) 1) (- 1) = (2024, 1, 29).
Proof. vm_compute. reflexivity. Qed.

(* TIMESTAMPDIFF in seconds is the difference of second counts; other units truncate toward zero *)
Theorem timestampdiff_seconds_add b tb n :
  timestampdiff_seconds b tb (add_days b n) tb = n * 86400.
Proof. unfold timestampdiff_seconds, to_seconds, add_days. rewrite (proj1 (days_civil_days _)). lia. Qed.

Theorem timestampdiff_unit_bounds u b tb a ta :
  0 < u -> let q := timestampdiff_unit u b tb a ta in let s := timestampdiff_seconds b tb a ta in
  Z.abs (q * u) <= Z.abs s /\ Z.abs (s - q * u) < u.
Proof.
  intros Hu q s. unfold q, timestampdiff_unit. fold s.
  pose proof (Z.quot_rem s u ltac:(lia)) as Hqr. pose proof (Z.rem_bound_abs s u ltac:(lia)) as Hb.
  destruct (Z_le_gt_dec 0 s) as [Hs|Hs].
  - pose proof (Z.rem_nonneg s u ltac:(lia) Hs). pose proof (Z.quot_pos s u Hs Hu). nia.
  - pose proof (Z.rem_nonpos s u ltac:(lia) ltac:(lia)).
    pose proof (Z.quot_pos (- s) u ltac:(lia) Hu) as Hx. rewrite Z.quot_opp_l in Hx by lia. nia.
Qed.

(* STR_TO_DATE: a field-wise valid but non-existent date is shifted, not rejected *)
Lemma str_to_date_shifts_invalid :
  str_to_date_ymd true 2023 2 30 = Some (2023, 3, 2) /\ valid_date (2023, 2, 30) = false.
Proof. split; vm_compute; reflexivity. Qed.

Theorem str_to_date_valid_exact y m d :
  valid_date (y, m, d) = true -> str_to_date_ymd true y m d = Some (y, m, d).
Proof.
  intros Hv. unfold str_to_date_ymd. pose proof Hv as Hv2. unfold valid_date in Hv2.
  repeat (apply andb_prop in Hv2; destruct Hv2 as [Hv2 ?]).
  repeat match goal with H : (_ <=? _) = true |- _ => apply Z.leb_le in H end.
  assert (days_in_month y m <= 31) by (unfold days_in_month; repeat destruct (_ =? _); try destruct (is_leap y); cbn; lia).
  replace ((1 <=? m) && (m <=? 12) && (1 <=? d) && (d <=? 31)) with true
    by (symmetry; repeat (apply andb_true_intro; split); apply Z.leb_le; lia).
  cbn [negb andb]. now rewrite go_date_valid_id.
Qed.

(* DATEDIFF as computed (through time.Duration) is the day difference up to about 292 years, and saturates beyond *)
Lemma datediff_go_exact a b : -106752 <= datediff a b <= 106752 -> datediff_go a b = datediff a b.
Proof.
  intros H. unfold datediff_go. cbv zeta.
  replace (106752 <? datediff a b) with false by (symmetry; apply Z.ltb_ge; lia).
  replace (datediff a b <? -106752) with false by (symmetry; apply Z.ltb_ge; lia). reflexivity.
Qed.
Lemma datediff_go_saturates :
  datediff_go (2337, 10, 4) (1964, 2, 21) = 106752 /\ datediff (2337, 10, 4) (1964, 2, 21) = 136461.
Proof. split; vm_compute; reflexivity. Qed.

(* sub-day intervals: adding then subtracting any number of microseconds (hence seconds, minutes, hours)
   restores the moment, across day, month, year and epoch boundaries *)
Theorem add_sub_us_inverse dt tod n :
  valid_date dt = true -> 0 <= tod < usday ->
  let '(d1, t1) := add_us dt tod n in add_us d1 t1 (- n) = (dt, tod).
Proof.
  intros Hv Ht. unfold add_us. set (tot := days_from_civil dt * usday + tod + n).
  rewrite (proj1 (days_civil_days _)).
  assert (Hu : 0 < usday) by (unfold usday; lia).
  pose proof (Z.div_mod tot usday ltac:(lia)) as Hdm.
  replace (tot / usday * usday + tot mod usday + - n) with (tod + days_from_civil dt * usday) by (unfold tot in *; lia).
  rewrite Z.div_add, Z.mod_add by lia. rewrite Z.div_small, Z.mod_small by lia.
  rewrite Z.add_0_l. rewrite civil_days_civil by exact Hv. reflexivity.
Qed.

Theorem add_us_value dt tod n :
  0 <= tod < usday ->
  let '(d1, t1) := add_us dt tod n in 0 <= t1 < usday /\ days_from_civil d1 * usday + t1 = days_from_civil dt * usday + tod + n.
Proof.
  intros Ht. unfold add_us. set (tot := days_from_civil dt * usday + tod + n).
  assert (Hu : 0 < usday) by (unfold usday; lia).
  rewrite (proj1 (days_civil_days _)). pose proof (Z.div_mod tot usday ltac:(lia)). pose proof (Z.mod_pos_bound tot usday Hu). lia.
Qed.

(* DATEDIFF ignores the time parts, before and after 1970 alike *)
Theorem datediff_dt_ignores_time a ta b tb : datediff_dt a ta b tb = datediff_go a b.
Proof. reflexivity. Qed.

(* ---------- TIMESTAMPDIFF(MONTH): antisymmetric, zero on equal moments, and n after adding n months ---------- *)
Lemma moment_lt_irrefl a : moment_lt a a = false.
Proof.
  destruct a as [[[y m] d] t]. unfold moment_lt. rewrite !Z.ltb_irrefl, !Z.eqb_refl. reflexivity.
Qed.
Lemma moment_lt_spec y1 m1 d1 t1 y2 m2 d2 t2 :
  moment_lt ((y1, m1, d1), t1) ((y2, m2, d2), t2) = true <->
  (y1 < y2 \/ (y1 = y2 /\ (m1 < m2 \/ (m1 = m2 /\ (d1 < d2 \/ (d1 = d2 /\ t1 < t2)))))).
Proof.
  unfold moment_lt. rewrite !orb_true_iff, !andb_true_iff, !orb_true_iff, !andb_true_iff, !orb_true_iff, !andb_true_iff.
  rewrite !Z.ltb_lt, !Z.eqb_eq. reflexivity.
Qed.
Lemma moment_lt_asym a b : moment_lt a b = true -> moment_lt b a = false.
Proof.
  destruct a as [[[y1 m1] d1] t1], b as [[[y2 m2] d2] t2]. intros H.
  destruct (moment_lt (y2, m2, d2, t2) (y1, m1, d1, t1)) eqn:E; [|first [reflexivity|exact E]]. exfalso.
  apply moment_lt_spec in H. apply moment_lt_spec in E. lia.
Qed.

Theorem months_diff_refl a : months_diff a a = 0.
Proof.
  unfold months_diff. rewrite moment_lt_irrefl. destruct a as [[[y m] d] t]. unfold months_between.
  rewrite Z.ltb_irrefl, Z.eqb_refl. replace ((t / 3600 - t / 3600) * 3600 + (t / 60 mod 60 - t / 60 mod 60) * 0 + (t mod 60 - t mod 60)) with 0 by lia.
  cbn. lia.
Qed.

Theorem months_diff_antisym a b : moment_lt a b = true -> months_diff b a = - months_diff a b.
Proof.
  intros H. unfold months_diff. rewrite H. rewrite (moment_lt_asym a b H). reflexivity.
Qed.

(* adding n >= 0 months without clamping, same time of day: the difference is exactly n months *)
Theorem months_diff_add_months y m d t n :
  valid_date (y, m, d) = true -> no_clamp_months (y, m, d) n = true -> 0 <= n ->
  months_diff ((y, m, d), t) (add_months (y, m, d) n, t) = n.
Proof.
  intros Hv Hnc Hn. pose proof Hv as Hv2. unfold valid_date in Hv2.
  repeat (apply andb_prop in Hv2; destruct Hv2 as [Hv2 ?]).
  repeat match goal with H : (_ <=? _) = true |- _ => apply Z.leb_le in H end.
  unfold no_clamp_months in Hnc. apply Z.leb_le in Hnc. unfold add_months.
  set (total := m - 1 + n) in *. set (ty := y + total / 12) in *. set (tm := total mod 12 + 1) in *.
  assert (Htm : 1 <= tm <= 12) by (unfold tm; pose proof (Z.mod_pos_bound total 12 ltac:(lia)); lia).
  replace (days_in_month ty tm <? d) with false by (symmetry; apply Z.ltb_ge; lia).
  assert (Hv1 : valid_date (ty, tm, d) = true).
  { unfold valid_date. repeat (apply andb_true_intro; split); apply Z.leb_le; lia. }
  rewrite (go_date_valid_id _ _ _ Hv1).
  pose proof (Z.div_mod total 12 ltac:(lia)) as Hdm. pose proof (Z.mod_pos_bound total 12 ltac:(lia)) as Hmb.
  assert (Hq : 0 <= total / 12) by (apply Z.div_pos; unfold total; lia).
  assert (Hlt : moment_lt ((ty, tm, d), t) ((y, m, d), t) = false).
  { unfold moment_lt. rewrite !Z.ltb_irrefl.
    destruct (ty <? y) eqn:E1; [apply Z.ltb_lt in E1; unfold ty in *; lia|].
    destruct (ty =? y) eqn:E2; [|reflexivity]. apply Z.eqb_eq in E2.
    destruct (tm <? m) eqn:E3; [apply Z.ltb_lt in E3; exfalso; unfold ty, tm, total in *; lia|].
    cbn [orb andb]. destruct (tm =? m); [|reflexivity]. destruct (d =? d); reflexivity. }
  unfold months_diff. cbv beta iota.
  match goal with |- (if ?c then _ else _) = _ => replace c with false by (symmetry; exact Hlt) end.
  unfold months_between. rewrite Z.ltb_irrefl, Z.eqb_refl.
  replace ((t / 3600 - t / 3600) * 3600 + (t / 60 mod 60 - t / 60 mod 60) * 0 + (t mod 60 - t mod 60)) with 0 by lia.
  cbn [andb Z.ltb Z.compare]. unfold ty, tm, total in *. lia.
Qed.

(* ---------- CAST('YYYY-MM-DD' AS DATE) ---------- *)
Theorem cast_date_valid_exact y m d : valid_date (y, m, d) = true -> cast_date_str y m d = (y, m, d).
Proof. intros H. unfold cast_date_str. now rewrite H. Qed.
Lemma cast_date_misparses : cast_date_str 2023 2 30 = (2023, 2, 3) /\ valid_date (2023, 2, 30) = false.
Proof. split; vm_compute; reflexivity. Qed.

(* the minutes are ignored when both moments fall on the same day of the month: 12:22:47 -> 12:38:15 counts as -1 month *)
Lemma months_diff_ignores_minutes :
  months_diff ((1950, 4, 29), 44567) ((1950, 4, 29), 45495) = -1.
Proof. vm_compute. reflexivity. Qed.
