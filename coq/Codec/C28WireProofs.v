(* C28 -- proofs about the wire text model: digit generation / parsing inverse for all of Z, width bounds, and the
   round trips of the integer, DECIMAL, YEAR, BIT, DATE/DATETIME, TIME, ENUM and SET text forms. *)
From Coq Require Import List NArith ZArith Bool Lia Arith.
Import ListNotations.
From GMS Require Import Codec.C28Date Codec.C28DateProofs Codec.C28Wire.
Open Scope Z_scope.

(* ---------- digits ---------- *)
Lemma digit_val_char d : 0 <= d <= 9 -> digit_val (digit_char d) = Some d.
Proof.
  intros H. unfold digit_val, digit_char.
  assert (E1 : (48 <=? Z.to_N (48 + d))%N = true) by (apply N.leb_le; lia).
  assert (E2 : (Z.to_N (48 + d) <=? 57)%N = true) by (apply N.leb_le; lia).
  rewrite E1, E2. cbn [andb]. f_equal. lia.
Qed.

Lemma parse_digits_app acc a b :
  parse_digits acc (a ++ b) = match parse_digits acc a with Some x => parse_digits x b | None => None end.
Proof.
  revert acc. induction a as [|c a IH]; intros acc; cbn [app parse_digits]; [reflexivity|].
  destruct (digit_val c); [apply IH|reflexivity].
Qed.

Lemma parse_digits_snoc acc a d x :
  parse_digits acc a = Some x -> 0 <= d <= 9 -> parse_digits acc (a ++ [digit_char d]) = Some (x * 10 + d).
Proof. intros H Hd. rewrite parse_digits_app, H. cbn [parse_digits]. now rewrite digit_val_char. Qed.

Definition all_digits (s : bytes) : Prop := Forall (fun c => exists d, 0 <= d <= 9 /\ c = digit_char d) s.

Lemma udigits_S f z :
  udigits (S f) z = if z <? 10 then [digit_char z] else udigits f (z / 10) ++ [digit_char (z mod 10)].
Proof. reflexivity. Qed.

Lemma pow2_S n : 2 ^ Z.of_nat (S n) = 2 * 2 ^ Z.of_nat n.
Proof. rewrite Nat2Z.inj_succ, Z.pow_succ_r by lia. reflexivity. Qed.

Lemma udigits_spec f : forall z, 0 <= z < 2 ^ Z.of_nat (S f) ->
  parse_digits 0 (udigits (S f) z) = Some z /\ udigits (S f) z <> [] /\ all_digits (udigits (S f) z).
Proof.
  induction f as [|f IH]; intros z Hz; rewrite udigits_S; destruct (z <? 10) eqn:E.
  1,3: apply Z.ltb_lt in E; split; [|split];
       [cbn [parse_digits]; rewrite digit_val_char by lia; f_equal
       | discriminate
       | constructor; [|constructor]; exists z; split; [lia|reflexivity]].
  - apply Z.ltb_ge in E. assert (H21 : 2 ^ Z.of_nat 1 = 2) by reflexivity. lia.
  - apply Z.ltb_ge in E.
    assert (Hq : 0 <= z / 10 < 2 ^ Z.of_nat (S f)).
    { split; [apply Z.div_pos; lia|]. rewrite pow2_S in Hz. apply Z.div_lt_upper_bound; lia. }
    destruct (IH _ Hq) as (P1 & P2 & P3).
    pose proof (Z.mod_pos_bound z 10 ltac:(lia)) as Hm.
    split; [|split].
    + rewrite (parse_digits_snoc _ _ _ _ P1) by lia. f_equal. pose proof (Z.div_mod z 10 ltac:(lia)). lia.
    + intros C. apply app_eq_nil in C. destruct C as [_ C]. discriminate.
    + apply Forall_app. split; [exact P3|]. constructor; [|constructor]. exists (z mod 10). split; [lia|reflexivity].
Qed.

Lemma fuel_enough z : 0 <= z -> 0 <= z < 2 ^ Z.of_nat (S (Z.to_nat (Z.log2 z))).
Proof.
  intros H. split; [exact H|]. rewrite Nat2Z.inj_succ, Z2Nat.id by apply Z.log2_nonneg.
  destruct (Z.eq_dec z 0) as [->|Hn]; [cbn; lia|]. apply Z.log2_spec. lia.
Qed.

Lemma format_uint_spec z : 0 <= z ->
  parse_digits 0 (format_uint z) = Some z /\ format_uint z <> [] /\ all_digits (format_uint z).
Proof. intros H. unfold format_uint. apply udigits_spec. now apply fuel_enough. Qed.

Lemma parse_uint_format z : 0 <= z -> parse_uint (format_uint z) = Some z.
Proof.
  intros H. destruct (format_uint_spec z H) as (P1 & P2 & _). unfold parse_uint.
  destruct (format_uint z); [contradiction|exact P1].
Qed.

Lemma all_digits_head c s : all_digits (c :: s) -> (c =? 45)%N = false /\ (c =? 43)%N = false /\ (c =? 46)%N = false /\ (c =? 58)%N = false /\ (c =? 44)%N = false.
Proof.
  intros H. inversion H as [|? ? (d & Hd & ->) _]. unfold digit_char.
  repeat split; apply N.eqb_neq; lia.
Qed.

(* parse (print z) = z for every integer *)
Theorem parse_format_int z : parse_int (format_int z) = Some z.
Proof.
  unfold format_int. destruct (z <? 0) eqn:E.
  - apply Z.ltb_lt in E. cbn [parse_int]. rewrite N.eqb_refl. rewrite parse_uint_format by lia. cbn. f_equal. lia.
  - apply Z.ltb_ge in E. destruct (format_uint_spec z E) as (P1 & P2 & P3).
    pose proof (parse_uint_format z E) as PU.
    destruct (format_uint z) as [|c r] eqn:F; [contradiction|].
    destruct (all_digits_head _ _ P3) as (H1 & H2 & _). cbn [parse_int]. now rewrite H1, H2.
Qed.

(* width: z < 10^k has at most k digits *)
Lemma pow10_S n : 10 ^ Z.of_nat (S n) = 10 * 10 ^ Z.of_nat n.
Proof. rewrite Nat2Z.inj_succ, Z.pow_succ_r by lia. reflexivity. Qed.

Lemma udigits_length f : forall z k, 0 <= z < 2 ^ Z.of_nat (S f) -> (1 <= k)%nat -> z < 10 ^ Z.of_nat k ->
  (length (udigits (S f) z) <= k)%nat.
Proof.
  induction f as [|f IH]; intros z k Hz Hk Hlt; rewrite udigits_S; destruct (z <? 10) eqn:E; try (cbn [length]; lia).
  apply Z.ltb_ge in E. rewrite app_length. cbn [length].
    destruct k as [|k]; [lia|]. destruct k as [|k]; [cbn in Hlt; lia|].
    assert (Hq : 0 <= z / 10 < 2 ^ Z.of_nat (S f)).
    { split; [apply Z.div_pos; lia|]. rewrite pow2_S in Hz. apply Z.div_lt_upper_bound; lia. }
    assert (Hl : z / 10 < 10 ^ Z.of_nat (S k)).
    { rewrite (pow10_S (S k)) in Hlt. apply Z.div_lt_upper_bound; lia. }
    specialize (IH (z / 10) (S k) Hq ltac:(lia) Hl). lia.
Qed.

Lemma format_uint_length z k : 0 <= z -> (1 <= k)%nat -> z < 10 ^ Z.of_nat k -> (length (format_uint z) <= k)%nat.
Proof. intros H Hk Hlt. unfold format_uint. apply udigits_length; auto. now apply fuel_enough. Qed.

Lemma format_int_length z k : (1 <= k)%nat -> - 10 ^ Z.of_nat k < z < 10 ^ Z.of_nat k ->
  (length (format_int z) <= (if (z <? 0)%Z then S k else k))%nat.
Proof.
  intros Hk H. unfold format_int. destruct (z <? 0) eqn:E.
  - apply Z.ltb_lt in E. cbn [length]. apply le_n_S. apply format_uint_length; lia.
  - apply Z.ltb_ge in E. apply format_uint_length; lia.
Qed.

(* ---------- integer column types ---------- *)
Definition ity_storable (t : ity) (v : Z) : Prop := ity_min t <= v <= ity_max t.

Lemma ity_bounds t : ity_min t <= 0 <= ity_max t /\ ity_max t <= ity_sql_hi t.
Proof. destruct t; vm_compute; repeat split; discriminate. Qed.

Theorem int_text_roundtrip t v : ity_storable t v -> int_convert_text t (int_sql_text t v) = Some v.
Proof.
  intros [H1 H2]. unfold int_sql_text, int_convert_text, clamp.
  pose proof (ity_bounds t) as [_ Hhi].
  replace (ity_sql_hi t <? v) with false by (symmetry; apply Z.ltb_ge; lia).
  replace (v <? ity_min t) with false by (symmetry; apply Z.ltb_ge; lia).
  rewrite parse_format_int.
  replace (ity_max t <? v) with false by (symmetry; apply Z.ltb_ge; lia).
  replace (v <? ity_min t) with false by (symmetry; apply Z.ltb_ge; lia). reflexivity.
Qed.

Lemma pow10_nat_eval k v : 10 ^ Z.of_nat k = v -> forall z, - v < z < v -> - 10 ^ Z.of_nat k < z < 10 ^ Z.of_nat k.
Proof. intros <-. auto. Qed.

Theorem int_text_len t v : ity_storable t v -> Z.of_nat (length (int_sql_text t v)) <= ity_announced t.
Proof.
  intros [H1 H2]. unfold int_sql_text, clamp.
  pose proof (ity_bounds t) as [_ Hhi].
  replace (ity_sql_hi t <? v) with false by (symmetry; apply Z.ltb_ge; lia).
  replace (v <? ity_min t) with false by (symmetry; apply Z.ltb_ge; lia).
  clear Hhi.
  destruct t.
  - change (ity_min I8) with (-128) in H1. change (ity_max I8) with 127 in H2.
    pose proof (format_int_length v 3 ltac:(lia) (pow10_nat_eval 3 1000 eq_refl v ltac:(lia))). destruct (v <? 0); cbn [ity_announced]; lia.
  - change (ity_min U8) with 0 in H1. change (ity_max U8) with 255 in H2.
    pose proof (format_int_length v 3 ltac:(lia) (pow10_nat_eval 3 1000 eq_refl v ltac:(lia))).
    replace (v <? 0) with false in * by (symmetry; apply Z.ltb_ge; lia). cbn [ity_announced]; lia.
  - change (ity_min I16) with (-32768) in H1. change (ity_max I16) with 32767 in H2.
    pose proof (format_int_length v 5 ltac:(lia) (pow10_nat_eval 5 100000 eq_refl v ltac:(lia))). destruct (v <? 0); cbn [ity_announced]; lia.
  - change (ity_min U16) with 0 in H1. change (ity_max U16) with 65535 in H2.
    pose proof (format_int_length v 5 ltac:(lia) (pow10_nat_eval 5 100000 eq_refl v ltac:(lia))).
    replace (v <? 0) with false in * by (symmetry; apply Z.ltb_ge; lia). cbn [ity_announced]; lia.
  - change (ity_min I24) with (-8388608) in H1. change (ity_max I24) with 8388607 in H2.
    pose proof (format_int_length v 7 ltac:(lia) (pow10_nat_eval 7 10000000 eq_refl v ltac:(lia))). destruct (v <? 0); cbn [ity_announced]; lia.
  - change (ity_min U24) with 0 in H1. change (ity_max U24) with 16777215 in H2.
    pose proof (format_int_length v 8 ltac:(lia) (pow10_nat_eval 8 100000000 eq_refl v ltac:(lia))).
    replace (v <? 0) with false in * by (symmetry; apply Z.ltb_ge; lia). cbn [ity_announced]; lia.
  - change (ity_min I32) with (-2147483648) in H1. change (ity_max I32) with 2147483647 in H2.
    pose proof (format_int_length v 10 ltac:(lia) (pow10_nat_eval 10 10000000000 eq_refl v ltac:(lia))). destruct (v <? 0); cbn [ity_announced]; lia.
  - change (ity_min U32) with 0 in H1. change (ity_max U32) with 4294967295 in H2.
    pose proof (format_int_length v 10 ltac:(lia) (pow10_nat_eval 10 10000000000 eq_refl v ltac:(lia))).
    replace (v <? 0) with false in * by (symmetry; apply Z.ltb_ge; lia). cbn [ity_announced]; lia.
  - change (ity_min I64) with (-9223372036854775808) in H1. change (ity_max I64) with 9223372036854775807 in H2.
    pose proof (format_int_length v 19 ltac:(lia) (pow10_nat_eval 19 10000000000000000000 eq_refl v ltac:(lia))). destruct (v <? 0); cbn [ity_announced]; lia.
  - change (ity_min U64) with 0 in H1. change (ity_max U64) with 18446744073709551615 in H2.
    pose proof (format_int_length v 20 ltac:(lia) (pow10_nat_eval 20 100000000000000000000 eq_refl v ltac:(lia))).
    replace (v <? 0) with false in * by (symmetry; apply Z.ltb_ge; lia). cbn [ity_announced]; lia.
Qed.

(* ---------- DECIMAL ---------- *)
Lemma digit_char_0 : digit_char 0 = 48%N. Proof. reflexivity. Qed.

Lemma all_digits_repeat0 k : all_digits (repeat 48%N k).
Proof. induction k; cbn [repeat]; constructor; auto. exists 0. split; [lia|reflexivity]. Qed.

Lemma parse_digits_zeros k : forall acc, parse_digits acc (repeat 48%N k) = Some (acc * 10 ^ Z.of_nat k).
Proof.
  induction k as [|k IH]; intros acc.
  - cbn. f_equal. lia.
  - cbn [repeat parse_digits]. change (digit_val 48%N) with (Some 0). cbv iota. rewrite IH. f_equal. rewrite pow10_S. ring.
Qed.

Lemma parse_digits_lead0 k l : parse_digits 0 (repeat 48%N k ++ l) = parse_digits 0 l.
Proof. rewrite parse_digits_app, parse_digits_zeros. reflexivity. Qed.

Lemma all_digits_parse s : all_digits s -> forall acc, 0 <= acc -> exists v, parse_digits acc s = Some v /\ 0 <= v.
Proof.
  induction 1 as [|c s (d & Hd & ->) _ IH]; intros acc Ha; cbn [parse_digits]; [eauto|].
  rewrite digit_val_char by lia. apply IH. lia.
Qed.

Lemma split_dot_digits a : all_digits a -> forall r, split_dot (a ++ 46%N :: r) = (a, Some r).
Proof.
  induction a as [|c a IH]; intros H r; cbn [app split_dot]; [reflexivity|].
  destruct (all_digits_head _ _ H) as (_ & _ & H46 & _). rewrite H46.
  inversion H as [|? ? _ H']; subst. now rewrite IH.
Qed.
Lemma split_dot_nodot a : all_digits a -> split_dot a = (a, None).
Proof.
  induction a as [|c a IH]; intros H; cbn [split_dot]; [reflexivity|].
  destruct (all_digits_head _ _ H) as (_ & _ & H46 & _). rewrite H46.
  inversion H as [|? ? _ H']; subst. now rewrite IH.
Qed.

Lemma all_digits_firstn n : forall s, all_digits s -> all_digits (firstn n s).
Proof.
  induction n as [|n IH]; intros s H; [constructor|]. destruct s as [|c s]; [constructor|].
  cbn [firstn]. inversion H; subst. constructor; auto. now apply IH.
Qed.

(* what parse_dec does after the sign *)
Definition parse_dec_body (neg : bool) (r : bytes) : option dec :=
  let '(ip, fo) := split_dot r in
  let fp := match fo with Some f => f | None => [] end in
  match parse_uint (ip ++ fp) with
  | Some c => Some (mkdec neg c (- Z.of_nat (length fp)))
  | None => None
  end.

Lemma parse_dec_sign (neg : bool) (c : N) (r : bytes) : all_digits [c] ->
  parse_dec ((if neg then [45%N] else []) ++ c :: r) = parse_dec_body neg (c :: r).
Proof.
  intros H. destruct neg; cbn [app]; unfold parse_dec.
  - rewrite N.eqb_refl. reflexivity.
  - destruct (all_digits_head _ _ H) as (H1 & H2 & _). rewrite H1, H2. reflexivity.
Qed.

Lemma head_digit s : all_digits s -> s <> [] -> exists c r, s = c :: r /\ all_digits [c].
Proof. intros H Hn. destruct s as [|c r]; [contradiction|]. exists c, r. split; [reflexivity|]. inversion H; subst. constructor; auto. Qed.

Lemma pow10_pos k : 0 < 10 ^ k \/ k < 0.
Proof. destruct (Z_lt_le_dec k 0); [now right|left]. apply Z.pow_pos_nonneg; lia. Qed.

Lemma parse_fmt_f d : 0 <= dcoef d ->
  parse_dec (fmt_f d) = Some (if dexp d <? 0 then d else mkdec (dneg d) (dcoef d * 10 ^ dexp d) 0).
Proof.
  intros Hc. destruct d as [neg c e]. cbn [dneg dcoef dexp] in *. unfold fmt_f. cbn [dneg dcoef dexp].
  destruct (format_uint_spec c Hc) as (P1 & P2 & P3).
  set (digs := format_uint c) in *.
  destruct (e <? 0) eqn:Ee.
  - apply Z.ltb_lt in Ee. destruct (0 <=? - e - Z.of_nat (length digs)) eqn:El.
    + apply Z.leb_le in El. cbn [app]. rewrite (parse_dec_sign neg 48%N).
      2:{ constructor; [|constructor]. exists 0. split; [lia|reflexivity]. }
      unfold parse_dec_body. change (48%N :: 46%N :: ?x) with ([48%N] ++ 46%N :: x).
      rewrite split_dot_digits by (constructor; [exists 0; split; [lia|reflexivity]|constructor]).
      cbn [app]. unfold parse_uint. cbn [parse_digits]. change (digit_val 48%N) with (Some 0). cbn [Z.mul Z.add].
      rewrite parse_digits_lead0, P1. rewrite app_length, repeat_length. do 2 f_equal. lia.
    + apply Z.leb_gt in El. set (o := Z.to_nat (- (- e - Z.of_nat (length digs)))).
      assert (Ho : (1 <= o <= length digs)%nat) by (unfold o; lia).
      assert (Hoe : Z.of_nat o = Z.of_nat (length digs) + e) by (unfold o; lia). clearbody o.
      destruct (head_digit (firstn o digs)) as (c0 & r0 & E0 & D0).
      { now apply all_digits_firstn. } { destruct digs; [contradiction|]. destruct o; [lia|]. discriminate. }
      rewrite E0. cbn [app]. rewrite (parse_dec_sign neg c0) by exact D0.
      unfold parse_dec_body. change (c0 :: r0 ++ 46%N :: ?x) with ((c0 :: r0) ++ 46%N :: x). rewrite <- E0.
      rewrite split_dot_digits by now apply all_digits_firstn.
      rewrite firstn_skipn. unfold parse_uint. destruct digs as [|c1 r1] eqn:Ed; [contradiction|]. rewrite <- Ed in *.
      rewrite P1. rewrite skipn_length. do 2 f_equal. lia.
  - apply Z.ltb_ge in Ee.
    destruct (head_digit digs P3 P2) as (c0 & r0 & E0 & D0).
    rewrite E0. cbn [app]. rewrite (parse_dec_sign neg c0) by exact D0.
    unfold parse_dec_body. change (c0 :: r0 ++ ?x) with ((c0 :: r0) ++ x). rewrite <- E0.
    rewrite split_dot_nodot by (apply Forall_app; split; [exact P3|apply all_digits_repeat0]).
    rewrite app_nil_r. unfold parse_uint.
    destruct (digs ++ repeat 48%N (Z.to_nat e)) eqn:Ed.
    { apply app_eq_nil in Ed. destruct Ed; contradiction. }
    rewrite <- Ed. rewrite parse_digits_app, P1, parse_digits_zeros. rewrite Z2Nat.id by lia. reflexivity.
Qed.

(* b denotes the same number as a, with a non-negative coefficient and at most s fraction digits *)
Definition same (s : Z) (a b : dec) : Prop := 0 <= dcoef b /\ - s <= dexp b /\ scaled s b = scaled s a.

Lemma same_refl s a : 0 <= dcoef a -> - s <= dexp a -> same s a a.
Proof. unfold same. auto. Qed.
Lemma same_trans s a b c : same s a b -> same s b c -> same s a c.
Proof. unfold same. intros (? & ? & ?) (? & ? & ?). repeat split; auto; congruence. Qed.

Lemma rescale_same col s d : 0 <= dcoef d -> - s <= dexp d -> same s d (dec_rescale col s d).
Proof.
  intros Hc He. unfold dec_rescale. destruct (col && negb (s =? dexp d)); [|now apply same_refl].
  unfold quantize. replace (- s <=? dexp d) with true by (symmetry; apply Z.leb_le; lia).
  unfold same, scaled. cbn [dneg dcoef dexp]. split; [|split; [lia|]].
  - apply Z.mul_nonneg_nonneg; [lia|]. apply Z.pow_nonneg; lia.
  - replace (- s + s) with 0 by lia. rewrite Z.pow_0_r. ring.
Qed.

Lemma parsed_same s d : 0 <= s -> 0 <= dcoef d -> - s <= dexp d ->
  same s d (if dexp d <? 0 then d else mkdec (dneg d) (dcoef d * 10 ^ dexp d) 0).
Proof.
  intros Hs Hc He. destruct (dexp d <? 0) eqn:E; [now apply same_refl|]. apply Z.ltb_ge in E.
  unfold same, scaled. cbn [dneg dcoef dexp]. split; [|split; [lia|]].
  - apply Z.mul_nonneg_nonneg; [lia|]. apply Z.pow_nonneg; lia.
  - rewrite Z.add_0_l, Z.pow_add_r by lia. ring.
Qed.

Definition dec_storable (p s : Z) (d : dec) : Prop :=
  0 <= dcoef d /\ - s <= dexp d /\ Z.abs (scaled s d) < 10 ^ p.

Lemma same_eqv s a b : same s a b -> - s <= dexp a -> dec_eqv b a = true.
Proof.
  intros (Hc & He & Hs) Ha. unfold dec_eqv. set (m := Z.min (dexp b) (dexp a)). apply Z.eqb_eq.
  assert (Hm : - s <= m) by (unfold m; lia).
  assert (F : forall x, m <= dexp x -> scaled s x = scaled (- m) x * 10 ^ (m + s)).
  { intros x Hx. unfold scaled. replace (dexp x + s) with ((dexp x + - m) + (m + s)) by lia.
    rewrite Z.pow_add_r by lia. ring. }
  rewrite (F a), (F b) in Hs by (unfold m; lia).
  apply Z.mul_reg_r in Hs; [exact Hs|]. assert (0 < 10 ^ (m + s)) by (apply Z.pow_pos_nonneg; lia). lia.
Qed.

Theorem dec_text_roundtrip col p s d : 0 <= s -> dec_storable p s d ->
  exists d', dec_convert_text col p s (dec_sql_text col s d) = Some d' /\ same s d d' /\ dec_eqv d' d = true.
Proof.
  intros Hs (Hc & He & Hb). unfold dec_sql_text, dec_convert_text.
  pose proof (rescale_same col s d Hc He) as S1. set (d1 := dec_rescale col s d) in *.
  destruct S1 as (C1 & E1 & V1).
  rewrite parse_fmt_f by exact C1.
  pose proof (parsed_same s d1 Hs C1 E1) as S2.
  set (d2 := if dexp d1 <? 0 then d1 else mkdec (dneg d1) (dcoef d1 * 10 ^ dexp d1) 0) in *.
  destruct S2 as (C2 & E2 & V2).
  pose proof (rescale_same col s d2 C2 E2) as S3. set (d3 := dec_rescale col s d2) in *.
  destruct S3 as (C3 & E3 & V3).
  cbv zeta. replace (s <? - dexp d3) with false by (symmetry; apply Z.ltb_ge; lia).
  assert (V : scaled s d3 = scaled s d) by congruence.
  rewrite V. replace (Z.abs (scaled s d) <? 10 ^ p) with true by (symmetry; apply Z.ltb_lt; lia).
  exists d3. assert (S : same s d d3) by (repeat split; auto).
  split; [reflexivity|]. split; [exact S|]. now apply (same_eqv s).
Qed.

Theorem dec_text_len col p s d :
  0 <= s <= p -> 1 <= p -> (s < p \/ dneg d = false) -> dexp d = - s -> 0 <= dcoef d < 10 ^ p ->
  Z.of_nat (length (dec_sql_text col s d)) <= dec_announced p s.
Proof.
  intros Hs Hp Hg He Hc.
  assert (T : dec_sql_text col s d = fmt_f (mkdec (dneg d) (dcoef d) (- s))).
  { unfold dec_sql_text, dec_rescale. destruct (col && negb (s =? dexp d)).
    - unfold quantize. replace (- s <=? dexp d) with true by (symmetry; apply Z.leb_le; lia).
      replace (dexp d + s) with 0 by lia. rewrite Z.pow_0_r, Z.mul_1_r. reflexivity.
    - destruct d as [n c e]. cbn [dexp] in He. subst e. reflexivity. }
  rewrite T. unfold fmt_f. cbn [dneg dcoef dexp].
  pose proof (format_uint_length (dcoef d) (Z.to_nat p) ltac:(lia) ltac:(lia) ltac:(rewrite Z2Nat.id by lia; lia)) as HL.
  set (digs := format_uint (dcoef d)) in *. unfold dec_announced.
  rewrite app_length.
  assert (Hsign : (length (if dneg d then [45%N] else []) <= 1)%nat) by (destruct (dneg d); cbn; lia).
  destruct (- s <? 0) eqn:E1.
  - apply Z.ltb_lt in E1. replace (s =? 0) with false by (symmetry; apply Z.eqb_neq; lia).
    destruct (0 <=? - - s - Z.of_nat (length digs)) eqn:E2.
    + apply Z.leb_le in E2. rewrite !app_length, repeat_length. cbn [length].
      destruct Hg as [Hg|Hg]; [lia|]. rewrite Hg in *. cbn [length]. lia.
    + apply Z.leb_gt in E2. rewrite !app_length, firstn_length, skipn_length. cbn [length]. lia.
  - apply Z.ltb_ge in E1. assert (s = 0) by lia. subst s. cbn [Z.opp Z.to_nat repeat]. rewrite app_nil_r.
    cbn [Z.eqb]. lia.
Qed.

Lemma dec_text_len_refuted :
  exists d, dexp d = -2 /\ 0 <= dcoef d < 10 ^ 2 /\ dec_announced 2 2 < Z.of_nat (length (dec_sql_text true 2 d)).
Proof. exists (mkdec true 99 (-2)). vm_compute. repeat split; discriminate. Qed.

(* ---------- YEAR ---------- *)
Definition year_ok (y : Z) : bool :=
  match year_convert_text (year_sql_text y) with Some v => (v =? y) && (length (year_sql_text y) =? 4)%nat | None => false end.
Lemma year_check : forallb year_ok (upto 255 1901) = true.
Proof. vm_compute. reflexivity. Qed.
Theorem year_text_roundtrip y : 1901 <= y <= 2155 ->
  year_convert_text (year_sql_text y) = Some y /\ length (year_sql_text y) = 4%nat.
Proof.
  intros H. pose proof year_check as E. rewrite forallb_forall in E.
  specialize (E y (in_upto 255 1901 y ltac:(lia))). unfold year_ok in E.
  destruct (year_convert_text (year_sql_text y)) as [v|]; [|discriminate].
  apply andb_prop in E. destruct E as [E1 E2]. apply Z.eqb_eq in E1. apply Nat.eqb_eq in E2. subst v. auto.
Qed.
Lemma year_zero_refuted : year_convert_text (year_sql_text 0) = Some 2000.
Proof. vm_compute. reflexivity. Qed.

(* ---------- BIT ---------- *)
Lemma be_decode_app a b : be_decode (a ++ [b]) = be_decode a * 256 + Z.of_N b.
Proof. unfold be_decode. rewrite fold_left_app. reflexivity. Qed.
Lemma be_bytes_spec k : forall v, 0 <= v -> be_decode (be_bytes k v) = v mod 256 ^ Z.of_nat k /\ length (be_bytes k v) = k.
Proof.
  induction k as [|k IH]; intros v Hv.
  - cbn. split; [now rewrite Z.mod_1_r|reflexivity].
  - cbn [be_bytes]. rewrite be_decode_app, app_length. destruct (IH (v / 256) ltac:(apply Z.div_pos; lia)) as [I1 I2].
    rewrite I1, I2. split; [|cbn; lia].
    pose proof (Z.mod_pos_bound v 256 ltac:(lia)). rewrite Z2N.id by lia.
    rewrite Nat2Z.inj_succ, Z.pow_succ_r by lia.
    assert (P : 0 < 256 ^ Z.of_nat k) by (apply Z.pow_pos_nonneg; lia).
    rewrite Z.rem_mul_r by lia. lia.
Qed.
Theorem bit_text_roundtrip n v : 1 <= n <= 64 -> 0 <= v < 2 ^ n ->
  bit_convert_text n (bit_sql_text n v) = Some v /\ Z.of_nat (length (bit_sql_text n v)) <= n.
Proof.
  intros Hn Hv. unfold bit_convert_text, bit_sql_text.
  destruct (be_bytes_spec (bit_nbytes n) v ltac:(lia)) as [B1 B2]. rewrite B1, B2.
  assert (Hk : Z.of_nat (bit_nbytes n) = (n + 7) / 8) by (unfold bit_nbytes; rewrite Z2Nat.id; [reflexivity|apply Z.div_pos; lia]).
  assert (Hk8 : n <= 8 * ((n + 7) / 8) <= 8 * 8).
  { pose proof (Z.div_mod (n + 7) 8 ltac:(lia)). pose proof (Z.mod_pos_bound (n + 7) 8 ltac:(lia)).
    assert ((n + 7) / 8 < 9) by (apply Z.div_lt_upper_bound; lia). lia. }
  replace (8 <? bit_nbytes n)%nat with false by (symmetry; apply Nat.ltb_ge; lia).
  assert (Hpow : 2 ^ n <= 256 ^ Z.of_nat (bit_nbytes n)).
  { rewrite Hk. change 256 with (2 ^ 8). rewrite <- Z.pow_mul_r by (try apply Z.div_pos; lia). apply Z.pow_le_mono_r; lia. }
  rewrite Z.mod_small by lia.
  replace (2 ^ n - 1 <? v) with false by (symmetry; apply Z.ltb_ge; lia).
  split; [reflexivity|]. rewrite Hk. pose proof (Z.div_mod (n + 7) 8 ltac:(lia)). pose proof (Z.mod_pos_bound (n + 7) 8 ltac:(lia)). lia.
Qed.

(* ---------- ENUM ---------- *)
Lemma beqb_eq a : forall b, beqb a b = true <-> a = b.
Proof.
  induction a as [|x a IH]; intros [|y b]; cbn [beqb]; split; intros H; try reflexivity; try discriminate.
  - apply andb_prop in H. destruct H as [H1 H2]. apply N.eqb_eq in H1. apply IH in H2. congruence.
  - injection H as -> ->. rewrite N.eqb_refl. apply IH. reflexivity.
Qed.
Lemma index_of_nth names : NoDup names -> forall k i, (k < length names)%nat ->
  index_of (nth k names []) names i = Some (i + Z.of_nat k).
Proof.
  induction 1 as [|n names Hn Hd IH]; intros k i Hk; [cbn in Hk; lia|].
  cbn [index_of]. destruct k as [|k].
  - cbn [nth]. replace (beqb n n) with true by (symmetry; now apply beqb_eq). f_equal. lia.
  - cbn [nth length] in *. destruct (beqb (nth k names []) n) eqn:E.
    + apply beqb_eq in E. exfalso. apply Hn. rewrite <- E. apply nth_In. lia.
    + rewrite IH by lia. f_equal. lia.
Qed.
Theorem enum_text_roundtrip names i : NoDup names -> 1 <= i <= Z.of_nat (length names) ->
  enum_convert_text names (enum_sql_text names i) = Some i.
Proof.
  intros Hd Hi. unfold enum_convert_text, enum_sql_text.
  replace (i =? 0) with false by (symmetry; apply Z.eqb_neq; lia).
  assert (Hk : (Z.to_nat (i - 1) < length names)%nat) by lia.
  pose proof (index_of_nth names Hd _ 1 Hk) as E. unfold bytes in *. rewrite E. f_equal. rewrite Z2Nat.id by lia. lia.
Qed.
Lemma enum_zero_refuted : exists names, NoDup names /\ enum_convert_text names (enum_sql_text names 0) = None.
Proof.
  exists [[97%N]; [98%N]]. split; [|vm_compute; reflexivity].
  repeat constructor; cbn; intros H; repeat (destruct H as [H|H]; try discriminate); auto.
Qed.

(* ---------- DATE ---------- *)
Lemma d2_pad2 z : 0 <= z <= 99 -> d2 (digit_char (z / 10)) (digit_char (z mod 10)) = Some z.
Proof.
  intros H. unfold d2. pose proof (Z.mod_pos_bound z 10 ltac:(lia)).
  assert (0 <= z / 10 < 10) by (split; [apply Z.div_pos; lia|apply Z.div_lt_upper_bound; lia]).
  rewrite !digit_val_char by lia. f_equal. pose proof (Z.div_mod z 10 ltac:(lia)). lia.
Qed.

Definition year4_ok (y : Z) : bool :=
  match year_text y with
  | [a; b; c; d] => match d4 a b c d with Some v => v =? y | None => false end
  | _ => false
  end.
Lemma year4_check : forallb year4_ok (0 :: upto (Z.to_nat 9000) 1000) = true.
Proof. vm_compute. reflexivity. Qed.
Lemma year4 y : y = 0 \/ 1000 <= y <= 9999 -> exists a b c d, year_text y = [a; b; c; d] /\ d4 a b c d = Some y.
Proof.
  intros H. pose proof year4_check as E. rewrite forallb_forall in E.
  assert (I : In y (0 :: upto (Z.to_nat 9000) 1000)) by (destruct H as [->|H]; [now left|right; apply in_upto; lia]).
  specialize (E y I). unfold year4_ok in E.
  destruct (year_text y) as [|a [|b [|c [|d [|]]]]]; try discriminate.
  exists a, b, c, d. split; [reflexivity|]. destruct (d4 a b c d); [|discriminate]. apply Z.eqb_eq in E. now subst.
Qed.

Lemma is_zero_text_false a b c e h1 m1 m2 h2 d1 d2 rest :
  (m1 =? 48)%N && (m2 =? 48)%N = false -> is_zero_text (a :: b :: c :: e :: h1 :: m1 :: m2 :: h2 :: d1 :: d2 :: rest) = false.
Proof.
  intros H. unfold is_zero_text. cbn [firstn beqb zero_date_text].
  destruct (a =? 48)%N; [|reflexivity]. destruct (b =? 48)%N; [|reflexivity]. destruct (c =? 48)%N; [|reflexivity].
  destruct (e =? 48)%N; [|reflexivity]. destruct (h1 =? 45)%N; [|reflexivity].
  destruct (m1 =? 48)%N; [|reflexivity]. destruct (m2 =? 48)%N; [discriminate|reflexivity].
Qed.

Lemma month_not_00 m : 1 <= m <= 12 -> (digit_char (m / 10) =? 48)%N && (digit_char (m mod 10) =? 48)%N = false.
Proof.
  intros H. destruct (digit_char (m / 10) =? 48)%N eqn:E1; [|reflexivity].
  destruct (digit_char (m mod 10) =? 48)%N eqn:E2; [|reflexivity].
  apply N.eqb_eq in E1, E2. unfold digit_char in *.
  pose proof (Z.mod_pos_bound m 10 ltac:(lia)). assert (0 <= m / 10) by (apply Z.div_pos; lia).
  pose proof (Z.div_mod m 10 ltac:(lia)). lia.
Qed.

Definition date_storable (x : Z) : Prop :=
  x mod us_per_day = 0 /\ x <> zero_time_us /\
  (let y := year_of_us x in y = 0 \/ 1000 <= y <= 9999).

Theorem date_text_roundtrip x : date_storable x ->
  exists t, date_sql_text x = Some t /\ date_convert_text t = Some x /\ length t = 10%nat.
Proof.
  intros (Hm & Hz & Hy). unfold date_sql_text, year_of_us in *.
  assert (Hx0 : x / us_per_day * us_per_day = x).
  { pose proof (Z.div_mod x us_per_day ltac:(unfold us_per_day; lia)). lia. }
  cbv zeta. rewrite Hx0.
  replace (x =? zero_time_us) with false by (symmetry; now apply Z.eqb_neq).
  destruct (days_civil_days (x / us_per_day)) as [R1 R2].
  destruct (civil_from_days (x / us_per_day)) as [[y m] d] eqn:Ec. cbv zeta in Hy.
  assert (Hv := R2). unfold valid_date in Hv.
  repeat (apply andb_prop in Hv; destruct Hv as [Hv ?]).
  repeat match goal with H : (_ <=? _) = true |- _ => apply Z.leb_le in H end.
  assert (Hd31 : d <= 31).
  { assert (days_in_month y m <= 31) by (unfold days_in_month; repeat destruct (_ =? _); try destruct (is_leap y); cbn; lia). lia. }
  replace ((y <? 0) || (9999 <? y)) with false
    by (symmetry; apply orb_false_intro; [apply Z.ltb_ge|apply Z.ltb_ge]; lia).
  destruct (year4 y Hy) as (a & b & c & e & Ey & E4).
  eexists. split; [reflexivity|]. unfold civil_text. rewrite Ey. unfold pad2. cbn [app].
  split; [|reflexivity].
  unfold date_convert_text, parse_datetime_text.
  rewrite is_zero_text_false by (apply month_not_00; lia).
  rewrite !N.eqb_refl. cbn [andb]. rewrite E4, !d2_pad2 by lia. rewrite R2, R1.
  assert (Hx : x / us_per_day * us_per_day = x).
  { pose proof (Z.div_mod x us_per_day ltac:(unfold us_per_day; lia)). lia. }
  rewrite Hx. replace (x =? zero_time_us) with false by (symmetry; now apply Z.eqb_neq).
  rewrite Hx. unfold year_of_us. rewrite Ec.
  replace ((y <? 0) || (9999 <? y)) with false
    by (symmetry; apply orb_false_intro; [apply Z.ltb_ge|apply Z.ltb_ge]; lia).
  reflexivity.
Qed.

Lemma date_zero_roundtrip :
  date_sql_text zero_time_us = Some zero_date_text /\ date_convert_text zero_date_text = Some zero_time_us.
Proof. split; vm_compute; reflexivity. Qed.

(* years 1..999 are written without leading zeros and are not read back *)
Lemma date_year_below_1000_refuted :
  exists x t, x mod us_per_day = 0 /\ year_of_us x = 999 /\ date_sql_text x = Some t /\ date_convert_text t = None.
Proof.
  exists (days_from_civil (999, 12, 31) * us_per_day). exists [57; 57; 57; 45; 49; 50; 45; 51; 49]%N.
  split; [vm_compute; reflexivity|]. split; [vm_compute; reflexivity|]. split; vm_compute; reflexivity.
Qed.
