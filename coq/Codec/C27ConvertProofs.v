(* C27 — proofs about the Convert model of Codec/C27Convert.v *)
From Coq Require Import ZArith Bool List Lia.
Import ListNotations.
From GMS Require Import Codec.C25Arith Codec.C25ArithProofs Codec.C27Convert.
Open Scope Z_scope.

Ltac consts := unfold ity_max, ity_min, uwrap_add, uwrap_mod, max_i64, min_i64, max_u64, two64, two63 in *.

Ltac step_in E :=
  match type of E with
  | context [if ?a >? ?b then _ else _] => let C := fresh "C" in destruct (Z.gtb_spec a b) as [C|C]; cbv beta iota in E
  | context [if ?a <? ?b then _ else _] => let C := fresh "C" in destruct (Z.ltb_spec a b) as [C|C]; cbv beta iota in E
  end.
Ltac step_goal :=
  match goal with
  | |- context [if ?a >? ?b then _ else _] => let C := fresh "C" in destruct (Z.gtb_spec a b) as [C|C]; cbv beta iota
  | |- context [if ?a <? ?b then _ else _] => let C := fresh "C" in destruct (Z.ltb_spec a b) as [C|C]; cbv beta iota
  end.

(* the integer carried by a source integer *)
Definition int_src (v : value) (z : Z) : Prop :=
  (v = SI z /\ min_i64 <= z <= max_i64) \/ (v = SU z /\ 0 <= z <= max_u64).

(* ---------- integer source into an integer type: exact, or flagged with the nearest value
   (except unsigned underflow, refuted below) ---------- *)
Lemma narrow_spec t n out f :
  narrow t n = COk out f ->
  (f = InRange -> out = mk t n /\ in_range t n) /\
  (f = Overflow -> ity_max t < n /\ out = mk t (ity_max t)) /\
  (f = Underflow -> n < ity_min t /\ (unsigned t = false -> out = mk t (ity_min t))).
Proof.
  unfold narrow. intros E.
  destruct (Z.gtb_spec n (ity_max t)) as [C|C].
  - injection E as <- <-. (split; [|split]); intros F; try discriminate F. split; [lia|reflexivity].
  - destruct (Z.ltb_spec n (ity_min t)) as [C2|C2].
    + destruct (unsigned t) eqn:U; injection E as <- <-; (split; [|split]); intros F; try discriminate F;
        (split; [lia|intros D; first [discriminate D | unfold mk; rewrite U; reflexivity]]).
    + injection E as <- <-. (split; [|split]); intros F; try discriminate F.
      split; [reflexivity|unfold in_range; lia].
Qed.

(* the int64 image convertToInt64 hands to the range check, for integer sources *)
Lemma num_of_signed z : to_i64 (SI z) = (z, InRange).
Proof. reflexivity. Qed.

Lemma num_of_unsigned z :
  (z <= max_i64 -> to_i64 (SU z) = (z, InRange)) /\ (max_i64 < z -> to_i64 (SU z) = (max_i64, Overflow)).
Proof.
  unfold to_i64. destruct (z >? max_i64) eqn:G; split; intros H; try reflexivity;
    [apply Z.gtb_lt in G; lia | rewrite Z.gtb_ltb in G; apply Z.ltb_ge in G; lia].
Qed.

Lemma conv_narrow t v : t <> I64 -> t <> U64 -> conv_int t v = narrow t (fst (to_i64 v)).
Proof. intros H1 H2. destruct t; try reflexivity; contradiction. Qed.

(* BIGINT / BIGINT UNSIGNED from integer sources *)
Lemma conv_i64_signed z : conv_int I64 (SI z) = COk (SI z) InRange.
Proof. reflexivity. Qed.

Lemma conv_i64_unsigned z :
  (z <= max_i64 -> conv_int I64 (SU z) = COk (SI z) InRange) /\
  (max_i64 < z -> conv_int I64 (SU z) = COk (SI max_i64) Overflow).
Proof.
  destruct (num_of_unsigned z) as [A B]. unfold conv_int. split; intros H; [rewrite (A H)|rewrite (B H)]; reflexivity.
Qed.

Lemma conv_u64_signed z :
  (0 <= z -> conv_int U64 (SI z) = COk (SU z) InRange) /\
  (z < 0 -> conv_int U64 (SI z) = COk (SU (two64 + z)) Underflow).
Proof.
  unfold conv_int, to_u64. destruct (z <? 0) eqn:L; split; intros H; try reflexivity;
    [apply Z.ltb_lt in L; lia | apply Z.ltb_ge in L; lia].
Qed.

Lemma conv_u64_unsigned z : conv_int U64 (SU z) = COk (SU z) InRange.
Proof. reflexivity. Qed.

(* a stored value of a narrow type converts to itself, in range *)
Theorem representable_is_fixpoint_narrow t z :
  t <> I64 -> t <> U64 -> in_range t z -> conv_int t (mk t z) = COk (mk t z) InRange.
Proof.
  intros H1 H2 R. rewrite conv_narrow by assumption.
  assert (N : fst (to_i64 (mk t z)) = z).
  { unfold mk. destruct (unsigned t) eqn:U; [|reflexivity].
    destruct (num_of_unsigned z) as [A _]. rewrite A; [reflexivity|].
    unfold in_range in R. destruct t; try discriminate U; try contradiction; consts; lia. }
  rewrite N. unfold narrow, in_range in *.
  destruct (z >? ity_max t) eqn:G; [apply Z.gtb_lt in G; lia|].
  destruct (z <? ity_min t) eqn:L; [apply Z.ltb_lt in L; lia|]. reflexivity.
Qed.

(* ---------- refutations ---------- *)
(* unsigned underflow is flagged but the value is wrapped, not the nearest (0); for MEDIUMINT UNSIGNED it can
   even leave the type's range (2^24) *)
Lemma unsigned_underflow_wraps :
  conv_int U8 (SI (-1)) = COk (SU 255) Underflow /\
  conv_int U64 (SI (-1)) = COk (SU 18446744073709551615) Underflow /\
  conv_int U24 (SD (-184467440737095516175) 1) = COk (SU 16777216) Underflow /\ ~ in_range U24 16777216.
Proof. repeat split; try (vm_compute; reflexivity). unfold in_range. cbn. lia. Qed.

(* a Go uint above MaxInt64 is converted with int64(v): a different value, flagged InRange *)
Lemma gouint_silently_altered :
  conv_int I64 (SW 18446744073709551615) = COk (SI (-1)) InRange /\
  conv_int I24 (SW 18446744073709551615) = COk (SI (-1)) InRange.
Proof. split; vm_compute; reflexivity. Qed.

(* ---------- decimal sources into narrow integer types: in range means rounded half away from zero ---------- *)
Theorem decimal_source_in_range_is_rounded t m s out :
  t <> I64 -> t <> U64 -> min_i64 * 10 ^ s <= m <= max_i64 * 10 ^ s ->
  conv_int t (SD m s) = COk out InRange -> out = mk t (round_to m s 0) /\ in_range t (round_to m s 0).
Proof.
  intros H1 H2 B E. rewrite conv_narrow in E by assumption.
  assert (N : fst (to_i64 (SD m s)) = round_to m s 0).
  { unfold to_i64. destruct (m >? max_i64 * 10 ^ s) eqn:G; [apply Z.gtb_lt in G; lia|].
    destruct (m <? min_i64 * 10 ^ s) eqn:L; [apply Z.ltb_lt in L; lia|]. reflexivity. }
  rewrite N in E. destruct (narrow_spec _ _ _ _ E) as [A _]. exact (A eq_refl).
Qed.

(* ---------- DECIMAL(p, s) ---------- *)
(* never clamps: the outcome is the (possibly rounded) value in range, or an error *)
Theorem conv_dec_never_flags p s col v out f : conv_dec p s col v = COk out f -> f = InRange.
Proof.
  unfold conv_dec. destruct (to_dec v) as [m0 s0].
  destruct (col && negb ((s0 =? 0) && (s =? 0))); cbv zeta beta iota;
    repeat match goal with |- context [if ?c then _ else _] => destruct c end; intros H; try discriminate;
    injection H as _ <-; reflexivity.
Qed.

Lemma round_to_same m s : 0 <= s -> round_to m s s = m.
Proof. intros H. unfold round_to. rewrite Z.leb_refl, Z.sub_diag. cbn. lia. Qed.

(* the stored value keeps the source value exactly when the source has no more fraction digits than the type *)
Theorem conv_dec_exact_when_scale_fits p s col v m2 s2 f :
  0 <= snd (to_dec v) <= s -> conv_dec p s col v = COk (SD m2 s2) f ->
  m2 * 10 ^ snd (to_dec v) = fst (to_dec v) * 10 ^ s2 /\ snd (to_dec v) <= s2 <= s /\ Z.abs m2 < 10 ^ (p - s + s2).
Proof.
  unfold conv_dec. destruct (to_dec v) as [m0 s0]. cbn [fst snd]. intros Hs.
  destruct (col && negb ((s0 =? 0) && (s =? 0))); cbv zeta beta iota.
  - rewrite Z.gtb_ltb, Z.ltb_irrefl. (* s >? s = false *)
    destruct (Z.abs (round_to m0 s0 s) >=? 10 ^ (p - s + s)) eqn:B; [discriminate|].
    intros HE. injection HE as <- <- _. rewrite Z.geb_leb in B. apply Z.leb_gt in B.
    split; [|split; [lia|exact B]].
    unfold round_to. destruct (Z.leb_spec s0 s); [|lia].
    rewrite <- Z.mul_assoc, <- Z.pow_add_r by lia. do 2 f_equal. lia.
  - destruct (Z.gtb_spec s0 s); [lia|].
    destruct (Z.abs m0 >=? 10 ^ (p - s + s0)) eqn:B; [discriminate|].
    intros HE. injection HE as <- <- _. rewrite Z.geb_leb in B. apply Z.leb_gt in B.
    split; [reflexivity|split; [lia|exact B]].
Qed.

(* with more fraction digits than the type has, the value is rounded to scale s, to a nearest value
   (the documented exception: no warning is produced) *)
Theorem conv_dec_rounds_to_nearest p s col m0 s0 m2 s2 f :
  0 <= s < s0 -> conv_dec p s col (SD m0 s0) = COk (SD m2 s2) f ->
  s2 = s /\ 2 * Z.abs (m2 * 10 ^ (s0 - s) - m0) <= 10 ^ (s0 - s).
Proof.
  intros Hs. unfold conv_dec, to_dec.
  assert (R : forall m, round_to m s s = m) by (intros; apply round_to_same; lia).
  assert (N : 2 * Z.abs (round_to m0 s0 s * 10 ^ (s0 - s) - m0) <= 10 ^ (s0 - s)).
  { unfold round_to. destruct (Z.leb_spec s0 s); [lia|].
    set (k := s0 - s). assert (1 <= k) by (unfold k; lia).
    replace (10 ^ k) with (2 * (5 * 10 ^ (k - 1))).
    2:{ replace k with (1 + (k - 1)) at 2 by lia. rewrite Z.pow_add_r by lia. change (10 ^ 1) with 10. ring. }
    pose proof (pow10_pos (k - 1) ltac:(lia)).
    pose proof (nearest_any m0 1 (5 * 10 ^ (k - 1)) ltac:(lia) ltac:(lia)) as NA.
    rewrite Z.quot_1_r, Z.mul_1_r in NA. change (Z.abs 1) with 1 in NA. lia. }
  destruct (col && negb ((s0 =? 0) && (s =? 0))); cbv zeta beta iota.
  - rewrite Z.gtb_ltb, Z.ltb_irrefl.
    destruct (Z.abs _ >=? _); [discriminate|]. intros HE. injection HE as <- <- _. split; [reflexivity|exact N].
  - destruct (Z.gtb_spec s0 s); [|lia].
    destruct (Z.abs _ >=? _); [discriminate|]. intros HE. injection HE as <- <- _. split; [reflexivity|exact N].
Qed.

(* out of range is an error, never a stored clamp *)
Theorem conv_dec_out_of_range_is_error p s col v :
  conv_dec p s col v = CErr <->
  (let '(m0, s0) := to_dec v in
   let '(m1, s1) := if col && negb ((s0 =? 0) && (s =? 0)) then (round_to m0 s0 s, s) else (m0, s0) in
   let '(m2, s2) := if s1 >? s then (round_to m1 s1 s, s) else (m1, s1) in
   10 ^ (p - s + s2) <= Z.abs m2).
Proof.
  unfold conv_dec. destruct (to_dec v) as [m0 s0].
  destruct (col && negb ((s0 =? 0) && (s =? 0))); cbv zeta beta iota;
    match goal with |- context [if ?c >? s then _ else _] => destruct (c >? s) end;
    match goal with |- context [Z.abs ?m >=? ?b] => destruct (Z.geb_spec (Z.abs m) b) end;
    split; intros; try discriminate; try lia; reflexivity.
Qed.

(* converting a stored DECIMAL again never changes it *)
Theorem conv_dec_idempotent p s col v m2 s2 f :
  0 <= s -> 0 <= snd (to_dec v) -> conv_dec p s col v = COk (SD m2 s2) f ->
  conv_dec p s col (SD m2 s2) = COk (SD m2 s2) InRange.
Proof.
  intros Hs Hv E.
  assert (Hs2 : 0 <= s2 <= s /\ (col = true -> s2 = s) /\ Z.abs m2 < 10 ^ (p - s + s2)).
  { revert E. unfold conv_dec. destruct (to_dec v) as [m0 s0]. cbn [snd] in Hv.
    destruct col; cbn [andb]; [destruct (negb ((s0 =? 0) && (s =? 0))) eqn:Z0|]; cbv zeta beta iota.
    - rewrite Z.gtb_ltb, Z.ltb_irrefl.
      destruct (Z.geb_spec (Z.abs (round_to m0 s0 s)) (10 ^ (p - s + s))); [discriminate|].
      intros HE. injection HE as <- <- _. repeat split; try lia.
    - apply negb_false_iff, andb_true_iff in Z0. destruct Z0 as [Z1 Z2]. apply Z.eqb_eq in Z1, Z2. subst s0 s.
      change (0 >? 0) with false. cbv iota.
      destruct (Z.geb_spec (Z.abs m0) (10 ^ (p - 0 + 0))); [discriminate|].
      intros HE. injection HE as <- <- _. repeat split; try lia.
    - destruct (Z.gtb_spec s0 s);
        match goal with |- context [Z.abs ?m >=? ?b] => destruct (Z.geb_spec (Z.abs m) b) end; try discriminate;
        intros HE; injection HE as <- <- _; repeat split; try lia; discriminate. }
  destruct Hs2 as (B1 & B2 & B3).
  unfold conv_dec, to_dec.
  destruct col; cbn [andb]; [destruct (negb ((s2 =? 0) && (s =? 0)))|]; cbv zeta beta iota.
  - rewrite (B2 eq_refl) in *. rewrite !round_to_same by lia.
    rewrite Z.gtb_ltb, Z.ltb_irrefl.
    destruct (Z.geb_spec (Z.abs m2) (10 ^ (p - s + s))); [lia|reflexivity].
  - destruct (Z.gtb_spec s2 s); [lia|]. destruct (Z.geb_spec (Z.abs m2) (10 ^ (p - s + s2))); [lia|reflexivity].
  - destruct (Z.gtb_spec s2 s); [lia|]. destruct (Z.geb_spec (Z.abs m2) (10 ^ (p - s + s2))); [lia|reflexivity].
Qed.

Lemma nonvacuous_converts :
  conv_int I8 (SI 127) = COk (SI 127) InRange /\
  conv_int I8 (SI 128) = COk (SI 127) Overflow /\
  conv_int I8 (SU 18446744073709551615) = COk (SI 127) Overflow /\
  conv_int I16 (SI (-32769)) = COk (SI (-32768)) Underflow /\
  conv_int I32 (SD 21474836474 1) = COk (SI 2147483647) InRange /\
  conv_int I32 (SD 21474836475 1) = COk (SI 2147483647) Overflow /\
  conv_dec 10 2 true (SD 1005 3) = COk (SD 101 2) InRange /\
  conv_dec 5 0 true (SI 100000) = CErr /\
  conv_dec 10 2 false (SD 15 1) = COk (SD 15 1) InRange.
Proof. repeat split; vm_compute; reflexivity. Qed.
