(* C31 -- proofs about the DATE_FORMAT renderer: fixed-width fields decode to their values, the canonical
   complete format reads back field by field, %y is not fixed-width. *)
From Coq Require Import List NArith ZArith Bool Lia.
Import ListNotations.
From GMS Require Import Codec.C31Format.
Open Scope Z_scope.

Fixpoint upto (n : nat) (start : Z) : list Z :=
  match n with O => [] | S k => start :: upto k (start + 1) end.
Lemma in_upto n : forall s z, s <= z < s + Z.of_nat n -> In z (upto n s).
Proof.
  induction n as [|n IH]; intros s z H; [lia|]. cbn [upto].
  destruct (Z.eq_dec s z) as [->|Hn]; [now left|]. right. apply IH. lia.
Qed.

Definition zrange (n : Z) : list Z := upto (Z.to_nat n) 0.
Lemma in_zrange z n : 0 <= z < n -> In z (zrange n).
Proof. intros H. unfold zrange. apply in_upto. rewrite Z2Nat.id by lia. lia. Qed.

Definition pad_ok (w : nat) (v : Z) : bool := Nat.eqb (length (padw w v)) w && (num_of (padw w v) =? v).

Lemma pad2_check : forallb (pad_ok 2) (zrange 100) = true.
Proof. vm_compute. reflexivity. Qed.
Lemma pad4_check : forallb (pad_ok 4) (zrange 10000) = true.
Proof. vm_compute. reflexivity. Qed.

Lemma pad2_spec v : 0 <= v < 100 -> length (padw 2 v) = 2%nat /\ num_of (padw 2 v) = v.
Proof.
  intros H. pose proof pad2_check as E. rewrite forallb_forall in E.
  specialize (E v (in_zrange v 100 ltac:(lia))). unfold pad_ok in E. apply andb_prop in E. destruct E as [E1 E2].
  apply Nat.eqb_eq in E1. apply Z.eqb_eq in E2. auto.
Qed.
Lemma pad4_spec v : 0 <= v < 10000 -> length (padw 4 v) = 4%nat /\ num_of (padw 4 v) = v.
Proof.
  intros H. pose proof pad4_check as E. rewrite forallb_forall in E.
  specialize (E v (in_zrange v 10000 ltac:(lia))). unfold pad_ok in E. apply andb_prop in E. destruct E as [E1 E2].
  apply Nat.eqb_eq in E1. apply Z.eqb_eq in E2. auto.
Qed.

(* DATE_FORMAT(t, '%Y-%m-%d %H:%i:%s') is 19 characters and its fixed-width fields are exactly t's fields *)
Theorem canonical_format_reads_back t :
  in_range t ->
  exists s, render canonical_fmt t = Some s /\ length s = 19%nat /\
            read_canonical s = {| yr := yr t; mo := mo t; dy := dy t; hh := hh t; mi := mi t; ss := ss t; us := 0 |}.
Proof.
  intros (Hy & Hm & Hd & Hh & Hi & Hs).
  destruct (pad4_spec _ Hy) as [Ly Vy]. destruct (pad2_spec _ Hm) as [Lm Vm]. destruct (pad2_spec _ Hd) as [Ld Vd].
  destruct (pad2_spec _ Hh) as [Lh Vh]. destruct (pad2_spec _ Hi) as [Li Vi]. destruct (pad2_spec _ Hs) as [Ls Vs].
  cbn [render canonical_fmt render_spec].
  destruct (padw 4 (yr t)) as [|y1 [|y2 [|y3 [|y4 [|? ?]]]]]; try discriminate Ly.
  destruct (padw 2 (mo t)) as [|m1 [|m2 [|? ?]]]; try discriminate Lm.
  destruct (padw 2 (dy t)) as [|d1 [|d2 [|? ?]]]; try discriminate Ld.
  destruct (padw 2 (hh t)) as [|h1 [|h2 [|? ?]]]; try discriminate Lh.
  destruct (padw 2 (mi t)) as [|i1 [|i2 [|? ?]]]; try discriminate Li.
  destruct (padw 2 (ss t)) as [|s1 [|s2 [|? ?]]]; try discriminate Ls.
  eexists. split; [reflexivity|]. split; [reflexivity|].
  unfold read_canonical, field. cbn [skipn firstn app].
  rewrite Vy, Vm, Vd, Vh, Vi, Vs. reflexivity.
Qed.

(* %y is two digits only from year-of-century 10 on ... *)
Definition y_ok (v : Z) : bool := Nat.eqb (length (dec (v mod 100))) (if v mod 100 <? 10 then 1%nat else 2%nat).
Lemma y_check : forallb y_ok (zrange 100) = true.
Proof. vm_compute. reflexivity. Qed.
Theorem y_width y : length (dec (y mod 100)) = (if y mod 100 <? 10 then 1%nat else 2%nat).
Proof.
  pose proof y_check as E. rewrite forallb_forall in E.
  pose proof (Z.mod_pos_bound y 100 ltac:(lia)) as Hb.
  specialize (E (y mod 100) (in_zrange (y mod 100) 100 Hb)). unfold y_ok in E.
  rewrite Z.mod_mod in E by lia. apply Nat.eqb_eq in E. exact E.
Qed.
(* ... so DATE_FORMAT('2002-08-30', '%y%m') is '208', which reads back as year 20, month 8 *)
Lemma y_unpadded :
  render [37; 121; 37; 109]%N {| yr := 2002; mo := 8; dy := 30; hh := 0; mi := 0; ss := 0; us := 0 |} = Some [50; 48; 56]%N.
Proof. vm_compute. reflexivity. Qed.
