(* C25 — model of integer / decimal arithmetic as go-mysql-server computes it.
   Mirrors sql/expression/arithmetic.go (Arithmetic.getReturnType, convertLeftRight, plus, minus, mult,
   UnaryMinus.Eval), sql/expression/div.go (Div.Eval/div, IntDiv.convertLeftRight/intDiv, convertToDecimalValue,
   getFinalScale), sql/expression/mod.go (mod) and sql/types/decimal.go (DecimalDiv, DecimalMod), with the
   fixed-width Go integer operators modelled as Z reduced into the type's range exactly as Go computes. *)
From Coq Require Import ZArith Bool List.
Import ListNotations.
Open Scope Z_scope.

(* the ten SQL integer types; Go carriers: I24 -> int32, U24 -> uint32 *)
Inductive ity := I8 | U8 | I16 | U16 | I24 | U24 | I32 | U32 | I64 | U64.

Definition unsigned (t : ity) : bool :=
  match t with U8 | U16 | U24 | U32 | U64 => true | _ => false end.

Definition ity_eqb (a b : ity) : bool :=
  match a, b with
  | I8, I8 | U8, U8 | I16, I16 | U16, U16 | I24, I24 | U24, U24 | I32, I32 | U32, U32 | I64, I64 | U64, U64 => true
  | _, _ => false
  end.

Definition max_i64 : Z := 9223372036854775807.
Definition min_i64 : Z := -9223372036854775808.
Definition max_u64 : Z := 18446744073709551615.
Definition two64 : Z := 18446744073709551616.
Definition two63 : Z := 9223372036854775808.

Definition ity_min (t : ity) : Z :=
  match t with
  | I8 => -128 | I16 => -32768 | I24 => -8388608 | I32 => -2147483648 | I64 => min_i64
  | _ => 0
  end.
Definition ity_max (t : ity) : Z :=
  match t with
  | I8 => 127 | U8 => 255 | I16 => 32767 | U16 => 65535 | I24 => 8388607 | U24 => 16777215
  | I32 => 2147483647 | U32 => 4294967295 | I64 => max_i64 | U64 => max_u64
  end.
Definition in_range (t : ity) (z : Z) : Prop := ity_min t <= z <= ity_max t.
Definition in_rangeb (t : ity) (z : Z) : bool := (ity_min t <=? z) && (z <=? ity_max t).

(* Go's wrapping: a signed type with 2*h values around 0, an unsigned type with n values *)
Definition wrapS (h z : Z) : Z := (z + h) mod (2 * h) - h.
Definition wrapU (n z : Z) : Z := z mod n.
Definition wrap_i64 : Z -> Z := wrapS two63.
Definition wrap_u64 : Z -> Z := wrapU two64.
Definition wrap_i8 : Z -> Z := wrapS 128.
Definition wrap_i16 : Z -> Z := wrapS 32768.
Definition wrap_i32 : Z -> Z := wrapS 2147483648.

(* an evaluated operand: NULL, an integer of a SQL integer type, or a decimal m * 10^-s (s >= 0) *)
Inductive operand := ONull | OInt (t : ity) (z : Z) | ODec (m s : Z).

(* a result: NULL, an error, a Go integer (I8/I16/I32/I64/U64 carriers), or a decimal *)
Inductive result := RNull | RErr | RInt (t : ity) (z : Z) | RDec (m s : Z).

Inductive op := Plus | Minus | Mult | IntDiv | Mod | Div | Neg | Abs | Sign.

(* convertToInt64 as used by convertValueToType (flag and error are dropped there): uint64 above MaxInt64
   becomes MaxInt64 *)
Definition conv_i64 (o : operand) : Z :=
  match o with
  | OInt U64 z => if z >? max_i64 then max_i64 else z
  | OInt _ z => z
  | ODec m _ => m
  | ONull => 0
  end.

(* convertToUint64: a negative signed value v becomes MaxUint64 - uint(-v-1) = 2^64 + v *)
Definition conv_u64 (o : operand) : Z :=
  match o with
  | OInt _ z => if z <? 0 then two64 + z else z
  | ODec m _ => m
  | ONull => 0
  end.

(* convertToDecimalValue on an integer: exact, scale 0 *)
Definition to_dec (o : operand) : Z * Z :=
  match o with
  | OInt _ z => (z, 0)
  | ODec m s => (m, s)
  | ONull => (0, 0)
  end.

Definition zop (o : op) (a b : Z) : Z :=
  match o with Plus => a + b | Minus => a - b | Mult => a * b | _ => 0 end.

(* apd Add/Sub/Mul at Precision 0 (sql.DecimalCtx = apd.BaseContext): exact; exponent min / sum *)
Definition dec_arith (o : op) (a b : Z * Z) : result :=
  let '(m1, s1) := a in
  let '(m2, s2) := b in
  match o with
  | Mult => RDec (m1 * m2) (s1 + s2)
  | _ => let s := Z.max s1 s2 in RDec (zop o (m1 * 10 ^ (s - s1)) (m2 * 10 ^ (s - s2))) s
  end.

(* Arithmetic.Eval for + - * : getReturnType, convertLeftRight, plus/minus/mult *)
Definition arith (o : op) (l r : operand) : result :=
  match l, r with
  | ONull, _ | _, ONull => RNull
  | OInt tl _, OInt tr _ =>
      if unsigned tl && unsigned tr
      then RInt U64 (wrap_u64 (zop o (conv_u64 l) (conv_u64 r)))
      else RInt I64 (wrap_i64 (zop o (conv_i64 l) (conv_i64 r)))
  | _, _ => dec_arith o (to_dec l) (to_dec r)
  end.

(* UnaryMinus.Eval; [lit] = the child is a *Literal *)
Definition neg (lit : bool) (o : operand) : result :=
  match o with
  | ONull => RNull
  | OInt I8 z | OInt I16 z | OInt I24 z | OInt I32 z => RInt I64 (- z)
  | OInt I64 z =>
      if z =? min_i64 then (if lit then RDec two63 0 else RErr) else RInt I64 (- z)
  | OInt U8 z => RInt I8 (wrap_i8 (- wrap_i8 z))
  | OInt U16 z => RInt I16 (wrap_i16 (- wrap_i16 z))
  | OInt U24 z | OInt U32 z => RInt I32 (wrap_i32 (- wrap_i32 z))
  | OInt U64 z => RInt I64 (wrap_i64 (- wrap_i64 z))
  | ODec m s => RDec (- m) s
  end.

(* number of decimal digits of |n| (apd NumDigits; 1 for 0) *)
Fixpoint digits_aux (fuel : nat) (n : Z) : Z :=
  match fuel with
  | O => 1
  | S f => if n <? 10 then 1 else 1 + digits_aux f (n / 10)
  end.
Definition digits (n : Z) : Z := digits_aux (S (Z.to_nat (Z.log2 (Z.abs n)))) (Z.abs n).

(* IntDiv.convertLeftRight + intDiv.  Mixed signedness and decimals go through DecimalDiv(l, r, 0, truncate)
   (exact truncation toward zero: see docs/C25.md, apd.Quo at the precision DecimalDiv computes) and Int64(). *)
Definition intdiv (l r : operand) : result :=
  let decpath :=
    let '(m1, s1) := to_dec l in
    let '(m2, s2) := to_dec r in
    if m2 =? 0 then RNull
    else let q := Z.quot (m1 * 10 ^ s2) (m2 * 10 ^ s1) in
         if (min_i64 <=? q) && (q <=? max_i64) then RInt I64 q else RErr in
  match l, r with
  | ONull, _ | _, ONull => RNull
  | OInt tl _, OInt tr _ =>
      if unsigned tl && unsigned tr then
        (if conv_u64 r =? 0 then RNull else RInt U64 (wrap_u64 (Z.quot (conv_u64 l) (conv_u64 r))))
      else if negb (unsigned tl) && negb (unsigned tr) then
        (if conv_i64 r =? 0 then RNull else RInt I64 (wrap_i64 (Z.quot (conv_i64 l) (conv_i64 r))))
      else decpath
  | _, _ => decpath
  end.

(* Mod.Eval: both operands become decimals; DecimalMod = apd Rem at precision max(digits a, digits b):
   DivisionImpossible when the integer quotient has more digits than that *)
Definition modulo (l r : operand) : result :=
  match l, r with
  | ONull, _ | _, ONull => RNull
  | _, _ =>
      let '(m1, s1) := to_dec l in
      let '(m2, s2) := to_dec r in
      if m2 =? 0 then RNull
      else
        let s := Z.max s1 s2 in
        let a := Z.abs m1 * 10 ^ (s - s1) in
        let b := Z.abs m2 * 10 ^ (s - s2) in
        if digits (a / b) >? Z.max (digits m1) (digits m2) then RErr
        else RDec (Z.sgn m1 * (a mod b)) s
  end.

Definition ceil_div (a b : Z) : Z := (a + b - 1) / b.

(* drop the last digits of m by the power of ten p, rounding half away from zero (apd RoundHalfUp) *)
Definition rha (m p : Z) : Z :=
  let q := Z.quot m p in
  let r := Z.rem m p in
  if 2 * Z.abs r >=? p then q + Z.sgn m else q.
Definition round_half_away (m k : Z) : Z := rha m (10 ^ k).

(* evalLeftRight of Div: a left value whose scale is below the declared scale of its type is padded *)
Definition lpad (ldecl : Z) (a : Z * Z) : Z * Z :=
  let '(m1, s1) := a in if ldecl >? s1 then (m1 * 10 ^ (ldecl - s1), ldecl) else (m1, s1).

(* div(): the working scale, a multiple of divIntPrecInc = 9 *)
Definition div_work_scale (s1 s2 : Z) : Z :=
  let inc := ceil_div (s1 + s2 + 4) 9 in
  let inc := if negb (s1 =? 0) && negb (s2 =? 0)
             then Z.max inc (ceil_div s1 9 + ceil_div s2 9) else inc in
  inc * 9.

(* getFinalScale for a single division: left scale + div_precision_increment, capped at 30 *)
Definition div_final_scale (s1 : Z) : Z := Z.min 30 (4 + s1).

(* Div.Eval for a single division: evalLeftRight (lpad), convertLeftRight (decimals), div (quotient truncated
   at the working scale), then DecimalRound to the final scale *)
Definition divide (ldecl : Z) (l r : operand) : result :=
  match l, r with
  | ONull, _ | _, ONull => RNull
  | _, _ =>
      let '(m1, s1) := lpad ldecl (to_dec l) in
      let '(m2, s2) := to_dec r in
      if m2 =? 0 then RNull
      else
        let scale := div_work_scale s1 s2 in
        let q := Z.quot (m1 * 10 ^ (scale + s2 - s1)) m2 in
        let f := div_final_scale s1 in
        RDec (round_half_away q (scale - f)) f
  end.

(* function/absval.go AbsVal.Eval: unsigned values unchanged; a signed value is negated in its own Go carrier
   (so the most negative value of the carrier wraps onto itself); decimals exact *)
Definition go_carrier (t : ity) : ity := match t with I24 => I32 | U24 => U32 | _ => t end.
Definition wrap_carrier (t : ity) (z : Z) : Z :=
  match go_carrier t with
  | I8 => wrap_i8 z | I16 => wrap_i16 z | I32 => wrap_i32 z | I64 => wrap_i64 z
  | U8 => wrapU 256 z | U16 => wrapU 65536 z | U32 => wrapU 4294967296 z | _ => wrap_u64 z
  end.
Definition absf (o : operand) : result :=
  match o with
  | ONull => RNull
  | OInt t z => if unsigned t then RInt (go_carrier t) z
                else RInt (go_carrier t) (if z <? 0 then wrap_carrier t (- z) else z)
  | ODec m s => RDec (Z.abs m) s
  end.

(* function/math.go Sign.Eval: signed integers and decimals go through Int64.Convert (a decimal is ROUNDED to an
   integer first, clamped at the BIGINT limits), unsigned ones through Uint64.Convert; the result is an int8 *)
Definition signf (o : operand) : result :=
  match o with
  | ONull => RNull
  | OInt _ z => RInt I8 (Z.sgn z)
  | ODec m s =>
      let n := if m >? max_i64 * 10 ^ s then max_i64 else if m <? min_i64 * 10 ^ s then min_i64
               else rha m (10 ^ s) in
      RInt I8 (Z.sgn n)
  end.

Definition eval (o : op) (lit : bool) (ldecl : Z) (l r : operand) : result :=
  match o with
  | Plus | Minus | Mult => arith o l r
  | IntDiv => intdiv l r
  | Mod => modulo l r
  | Div => divide ldecl l r
  | Neg => neg lit l
  | Abs => absf l
  | Sign => signf l
  end.

(* ---- executable equality for the correspondence ---- *)
Definition result_eqb (a b : result) : bool :=
  match a, b with
  | RNull, RNull | RErr, RErr => true
  | RInt t x, RInt u y => ity_eqb t u && (x =? y)
  | RDec m s, RDec n k => (m =? n) && (s =? k)
  | _, _ => false
  end.
