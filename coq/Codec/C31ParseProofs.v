(* C31 -- STR_TO_DATE (DATE_FORMAT d fmt) fmt = d for complete, separated formats (part 1: lexical lemmas). *)
From Coq Require Import List NArith ZArith Bool Lia Arith.
Import ListNotations.
From GMS Require Import Codec.C31Date Codec.C31DateProofs Codec.C31Format Codec.C31Parse.
Open Scope Z_scope.

(* ---------- finite facts about rendered numbers ---------- *)
Fixpoint upto (n : nat) (start : Z) : list Z :=
  match n with O => [] | S k => start :: upto k (start + 1) end.
Lemma in_upto n : forall s z, s <= z < s + Z.of_nat n -> In z (upto n s).
Proof.
  induction n as [|n IH]; intros s z H; [lia|]. cbn [upto].
  destruct (Z.eq_dec s z) as [->|Hn]; [now left|]. right. apply IH. lia.
Qed.
Definition zrange (n : Z) : list Z := upto (Z.to_nat n) 0.
Lemma in_zrange z n : 0 <= z < n -> In z (zrange n).
Proof. intros H. unfold zrange. apply in_upto. rewrite Z2Nat.id by lia. lia. Qed.

(* a rendered number: only digits, not empty, of the given width, and it reads back as its value *)
Definition digs_ok (w : option nat) (s : list N) (v : Z) : bool :=
  forallb is_digit s && negb (Nat.eqb (length s) 0) && (num_of s =? v) &&
  match w with Some k => Nat.eqb (length s) k | None => true end.

Lemma pad2_all : forallb (fun v => digs_ok (Some 2%nat) (padw 2 v) v) (zrange 100) = true.
Proof. vm_compute. reflexivity. Qed.
Lemma pad4_all : forallb (fun v => digs_ok (Some 4%nat) (padw 4 v) v) (zrange 10000) = true.
Proof. vm_compute. reflexivity. Qed.
Lemma dec_all : forallb (fun v => digs_ok None (dec v) v) (zrange 100) = true.
Proof. vm_compute. reflexivity. Qed.

Record rendered (w : option nat) (s : list N) (v : Z) : Prop := {
  r_digits : Forall (fun c => is_digit c = true) s;
  r_nonempty : s <> [];
  r_value : num_of s = v;
  r_width : match w with Some k => length s = k | None => True end }.

Lemma digs_ok_rendered w s v : digs_ok w s v = true -> rendered w s v.
Proof.
  unfold digs_ok. intros H. apply andb_prop in H. destruct H as [H H4]. apply andb_prop in H. destruct H as [H H3].
  apply andb_prop in H. destruct H as [H1 H2]. constructor.
  - apply Forall_forall. rewrite forallb_forall in H1. exact H1.
  - intros ->. cbn in H2. discriminate.
  - apply Z.eqb_eq. exact H3.
  - destruct w; [apply Nat.eqb_eq; exact H4|exact I].
Qed.

Lemma pad2_r v : 0 <= v < 100 -> rendered (Some 2%nat) (padw 2 v) v.
Proof. intros H. apply digs_ok_rendered. pose proof pad2_all as E. rewrite forallb_forall in E. apply (E v). apply in_zrange. lia. Qed.
Lemma pad4_r v : 0 <= v < 10000 -> rendered (Some 4%nat) (padw 4 v) v.
Proof. intros H. apply digs_ok_rendered. pose proof pad4_all as E. rewrite forallb_forall in E. apply (E v). apply in_zrange. lia. Qed.
(* general: the decimal rendering of any number below 10^20 consists of digits and reads back as the number *)
Definition nv (x : Z) (s : list N) : Z := fold_left (fun a c => a * 10 + dval c) s x.
Lemma dval_digit d : 0 <= d < 10 -> dval (digit d) = d /\ is_digit (digit d) = true.
Proof.
  intros H. assert (E : forallb (fun d => (dval (digit d) =? d) && is_digit (digit d)) (zrange 10) = true) by (vm_compute; reflexivity).
  rewrite forallb_forall in E. specialize (E d (in_zrange d 10 H)). apply andb_prop in E. destruct E as [E1 E2].
  apply Z.eqb_eq in E1. auto.
Qed.
Lemma dec_fuel_spec fuel : forall n acc, 0 <= n < 10 ^ Z.of_nat fuel -> (0 < fuel)%nat ->
  exists ds, dec_fuel fuel n acc = ds ++ acc /\ Forall (fun c => is_digit c = true) ds /\ ds <> [] /\
             forall x, nv x ds = x * 10 ^ Z.of_nat (length ds) + n.
Proof.
  induction fuel as [|k IH]; intros n acc Hn Hf; [lia|]. cbn [dec_fuel].
  pose proof (Z.div_mod n 10 ltac:(lia)) as Hdm. pose proof (Z.mod_pos_bound n 10 ltac:(lia)) as Hm.
  destruct (dval_digit (n mod 10) Hm) as [Hv Hd].
  destruct (n / 10 =? 0) eqn:E.
  - apply Z.eqb_eq in E. exists [digit (n mod 10)]. repeat split; try (constructor; [exact Hd|constructor]); try discriminate.
    intros x. unfold nv. cbn [fold_left length]. rewrite Hv. cbn. lia.
  - apply Z.eqb_neq in E. destruct k as [|k'].
    + cbn in Hn. assert (n / 10 = 0) by (apply Z.div_small; lia). contradiction.
    + destruct (IH (n / 10) (digit (n mod 10) :: acc)) as (ds & E1 & F1 & N1 & V1).
      * rewrite Nat2Z.inj_succ, Z.pow_succ_r in Hn by lia. split; [apply Z.div_pos; lia|apply Z.div_lt_upper_bound; lia].
      * lia.
      * exists (ds ++ [digit (n mod 10)]). repeat split.
        -- rewrite E1. rewrite <- app_assoc. reflexivity.
        -- apply Forall_app. split; [exact F1|constructor; [exact Hd|constructor]].
        -- destruct ds; discriminate.
        -- intros x. unfold nv in *. rewrite fold_left_app. cbn [fold_left]. rewrite V1, Hv.
           rewrite app_length. cbn [length]. rewrite Nat2Z.inj_add. rewrite Z.pow_add_r by lia. change (Z.of_nat 1) with 1. lia.
Qed.
Lemma nv_zeros k : forall x s, nv x (zeros k ++ s) = nv (x * 10 ^ Z.of_nat k) s.
Proof.
  induction k as [|k IH]; intros x s.
  - cbn [zeros app Z.of_nat]. rewrite Z.pow_0_r, Z.mul_1_r. reflexivity.
  - cbn [zeros app]. unfold nv in *. cbn [fold_left]. rewrite IH. f_equal.
    rewrite Nat2Z.inj_succ, Z.pow_succ_r by lia. change (dval 48) with 0. lia.
Qed.
Lemma zeros_digits k : Forall (fun c => is_digit c = true) (zeros k).
Proof. induction k; constructor; [reflexivity|assumption]. Qed.
Lemma padw_r w v : 0 <= v < 10 ^ 20 -> rendered None (padw w v) v.
Proof.
  intros H. destruct (dec_fuel_spec 20 v [] H ltac:(lia)) as (ds & E & F & Ne & V).
  unfold padw, dec. rewrite E, app_nil_r. constructor.
  - apply Forall_app. split; [apply zeros_digits|exact F].
  - destruct (zeros (w - length ds)); [exact Ne|discriminate].
  - change (num_of (zeros (w - length ds) ++ ds)) with (nv 0 (zeros (w - length ds) ++ ds)).
    rewrite nv_zeros. rewrite V. lia.
  - exact I.
Qed.
Lemma dec_r v : 0 <= v < 100 -> rendered None (dec v) v.
Proof. intros H. apply digs_ok_rendered. pose proof dec_all as E. rewrite forallb_forall in E. apply (E v). apply in_zrange. lia. Qed.

(* ---------- the digit scanners on a rendered number followed by more text ---------- *)
Definition no_digit_head (s : list N) : Prop := match s with [] => True | c :: _ => is_digit c = false end.

Lemma span_exact ds : Forall (fun c => is_digit c = true) ds -> forall rest,
  span_digits (length ds) (ds ++ rest) = (ds, rest).
Proof.
  induction 1 as [|c ds Hc _ IH]; intros rest.
  - cbn. destruct rest; reflexivity.
  - cbn [length app span_digits]. rewrite Hc, IH. reflexivity.
Qed.

Lemma span_greedy ds : Forall (fun c => is_digit c = true) ds -> forall rest fuel,
  no_digit_head rest -> (length ds + length rest <= fuel)%nat -> span_digits fuel (ds ++ rest) = (ds, rest).
Proof.
  induction 1 as [|c ds Hc _ IH]; intros rest fuel Hr Hf.
  - cbn [app]. destruct fuel; [destruct rest; reflexivity|]. destruct rest as [|x r]; [reflexivity|].
    cbn [span_digits]. cbn in Hr. rewrite Hr. reflexivity.
  - destruct fuel; [cbn in Hf; lia|]. cbn [app span_digits]. rewrite Hc. rewrite IH; [reflexivity|exact Hr|cbn in Hf; lia].
Qed.

Lemma parse_uint_ok ds v : ds <> [] -> num_of ds = v -> 0 <= v < 2 ^ 32 -> parse_uint ds = Some v.
Proof.
  intros Hne Hv Hb. unfold parse_uint. destruct ds; [congruence|]. rewrite Hv.
  replace (v <? 2 ^ 32) with true by (symmetry; apply Z.ltb_lt; lia). reflexivity.
Qed.

Lemma take_at_most_ok k s v rest : rendered (Some k) s v -> 0 <= v < 2 ^ 32 ->
  take_number_at_most k (s ++ rest) = Some (v, rest).
Proof.
  intros [Hd Hn Hv Hw] Hb. unfold take_number_at_most. rewrite <- Hw. rewrite (span_exact s Hd).
  rewrite (parse_uint_ok s v Hn Hv Hb). reflexivity.
Qed.

Lemma take_number_ok w s v rest : rendered w s v -> 0 <= v < 2 ^ 32 -> no_digit_head rest ->
  take_number (s ++ rest) = Some (v, rest).
Proof.
  intros [Hd Hn Hv _] Hb Hr. unfold take_number. rewrite (span_greedy s Hd rest _ Hr) by (rewrite app_length; lia).
  rewrite (parse_uint_ok s v Hn Hv Hb). reflexivity.
Qed.

(* ---------- spaces ---------- *)
Lemma ltrim_idem s : ltrim (ltrim s) = ltrim s.
Proof. induction s as [|c r IH]; [reflexivity|]. cbn [ltrim]. destruct (is_sp c) eqn:E; [exact IH|]. cbn [ltrim]. now rewrite E. Qed.
Lemma ltrim_nonspace c r : is_sp c = false -> ltrim (c :: r) = c :: r.
Proof. intros H. cbn [ltrim]. now rewrite H. Qed.
Lemma ltrim_space r : ltrim (32%N :: r) = ltrim r.
Proof. reflexivity. Qed.

Lemma digit_not_space c : is_digit c = true -> is_sp c = false.
Proof.
  unfold is_digit, is_sp. intros H. apply andb_prop in H. destruct H as [H _]. apply N.leb_le in H.
  apply N.eqb_neq. lia.
Qed.
Lemma digit_not_ws c : is_digit c = true -> is_ws c = false.
Proof.
  unfold is_digit, is_ws. intros H. apply andb_prop in H. destruct H as [H1 H2]. apply N.leb_le in H1, H2.
  apply orb_false_iff. split; [apply andb_false_iff; right; apply N.leb_gt; lia|apply N.eqb_neq; lia].
Qed.

Lemma lit_ok c rest : (c =? 32)%N = false -> lit c (c :: rest) = Some rest.
Proof.
  intros H. unfold lit. cbn [andb]. assert (Hs : is_sp c = false) by exact H.
  rewrite (ltrim_nonspace c rest Hs). rewrite H. now rewrite N.eqb_refl.
Qed.
Lemma lit_space chars : lit 32 chars = Some (ltrim chars).
Proof. unfold lit. change (32 =? 32)%N with true. cbn [negb]. rewrite andb_false_r. reflexivity. Qed.
