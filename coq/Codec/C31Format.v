(* C31 -- DATE_FORMAT renderer (function/date_format.go over lestrrat strftime) for the numeric specifiers
   %Y %y %m %c %d %e %H %k %h %I %l %i %s %S %f %p %T %r %% and literal characters, and a fixed-width reader
   used to state the format/parse inverse for the canonical complete format. *)
From Coq Require Import List NArith ZArith Bool Lia.
Import ListNotations.
From GMS Require Import Codec.C31Date.
Open Scope Z_scope.

Definition digit (d : Z) : N := Z.to_N (48 + d).

(* strconv.FormatInt for non-negative numbers *)
Fixpoint dec_fuel (fuel : nat) (n : Z) (acc : list N) : list N :=
  match fuel with
  | O => acc
  | S k => let acc' := digit (n mod 10) :: acc in if n / 10 =? 0 then acc' else dec_fuel k (n / 10) acc'
  end.
Definition dec (n : Z) : list N := dec_fuel 20 n [].

Fixpoint zeros (k : nat) : list N := match k with O => [] | S j => 48%N :: zeros j end.
(* fmt.Sprintf("%0<w>d", n), n >= 0 *)
Definition padw (w : nat) (n : Z) : list N := let s := dec n in zeros (w - length s) ++ s.

(* the moment: year, month, day, hour, minute, second, microsecond *)
Record moment := { yr : Z; mo : Z; dy : Z; hh : Z; mi : Z; ss : Z; us : Z }.

Definition hour12 (h : Z) : Z := let x := h mod 12 in if x =? 0 then 12 else x.
Definition ampm (h : Z) : list N := if 12 <=? h then [80; 77]%N else [65; 77]%N.   (* "PM" / "AM" *)

(* English names (time.Month.String, time.Weekday.String) as byte strings *)
Definition month_name (m : Z) : list N :=
  match Z.to_N m with
  | 1 => [74;97;110;117;97;114;121] | 2 => [70;101;98;114;117;97;114;121] | 3 => [77;97;114;99;104]
  | 4 => [65;112;114;105;108] | 5 => [77;97;121] | 6 => [74;117;110;101] | 7 => [74;117;108;121]
  | 8 => [65;117;103;117;115;116] | 9 => [83;101;112;116;101;109;98;101;114] | 10 => [79;99;116;111;98;101;114]
  | 11 => [78;111;118;101;109;98;101;114] | 12 => [68;101;99;101;109;98;101;114] | _ => []
  end%N.
Definition weekday_name (w : Z) : list N :=
  match Z.to_N w with
  | 0 => [83;117;110;100;97;121] | 1 => [77;111;110;100;97;121] | 2 => [84;117;101;115;100;97;121]
  | 3 => [87;101;100;110;101;115;100;97;121] | 4 => [84;104;117;114;115;100;97;121] | 5 => [70;114;105;100;97;121]
  | _ => [83;97;116;117;114;100;97;121]
  end%N.
(* 1970-01-01 was a Thursday; 0 = Sunday *)
Definition weekday_of (y m d : Z) : Z := (days_from_civil (y, m, d) + 4) mod 7.
Definition day_of_year (y m d : Z) : Z := days_from_civil (y, m, d) - days_from_civil (y, 1, 1) + 1.
(* dayWithSuffix *)
Definition day_suffix (d : Z) : list N :=
  if (d <? 4) || (20 <? d) then
    (if d mod 10 =? 1 then [115;116]%N else if d mod 10 =? 2 then [110;100]%N else if d mod 10 =? 3 then [114;100]%N else [116;104]%N)
  else [116;104]%N.

(* one specifier; None = not modelled *)
Definition render_spec (c : N) (t : moment) : option (list N) :=
  match c with
  | 89%N  => Some (padw 4 (yr t))                      (* %Y *)
  | 121%N => Some (dec (yr t mod 100))                 (* %y : yearTwoDigit does NOT pad *)
  | 109%N => Some (padw 2 (mo t))                      (* %m *)
  | 99%N  => Some (dec (mo t))                         (* %c *)
  | 100%N => Some (padw 2 (dy t))                      (* %d *)
  | 101%N => Some (dec (dy t))                         (* %e *)
  | 72%N  => Some (padw 2 (hh t))                      (* %H *)
  | 107%N => Some (dec (hh t))                         (* %k *)
  | 104%N | 73%N => Some (padw 2 (hour12 (hh t)))      (* %h %I *)
  | 108%N => Some (dec (hour12 (hh t)))                (* %l *)
  | 105%N => Some (padw 2 (mi t))                      (* %i *)
  | 115%N | 83%N => Some (padw 2 (ss t))               (* %s %S *)
  | 102%N => Some (padw 6 (us t))                      (* %f *)
  | 112%N => Some (ampm (hh t))                        (* %p *)
  | 84%N  => Some (padw 2 (hh t) ++ 58%N :: padw 2 (mi t) ++ 58%N :: padw 2 (ss t))      (* %T *)
  | 114%N => Some (padw 2 (hour12 (hh t)) ++ 58%N :: padw 2 (mi t) ++ 58%N :: padw 2 (ss t) ++ 32%N :: ampm (hh t))  (* %r *)
  | 37%N  => Some [37%N]                               (* %% *)
  | 98%N  => Some (firstn 3 (month_name (mo t)))       (* %b *)
  | 77%N  => Some (month_name (mo t))                  (* %M *)
  | 68%N  => Some (dec (dy t) ++ day_suffix (dy t))    (* %D *)
  | 106%N => Some (padw 3 (day_of_year (yr t) (mo t) (dy t)))          (* %j *)
  | 97%N  => Some (firstn 3 (weekday_name (weekday_of (yr t) (mo t) (dy t))))   (* %a *)
  | 87%N  => Some (weekday_name (weekday_of (yr t) (mo t) (dy t)))     (* %W *)
  | _ => None
  end.

Fixpoint render (fmt : list N) (t : moment) : option (list N) :=
  match fmt with
  | [] => Some []
  | 37%N :: c :: r =>
      match render_spec c t, render r t with Some a, Some b => Some (a ++ b) | _, _ => None end
  | c :: r => match render r t with Some b => Some (c :: b) | None => None end
  end.

(* ---------- fixed-width reading of a rendered text ---------- *)
Definition dval (c : N) : Z := Z.of_N c - 48.
Definition num_of (s : list N) : Z := fold_left (fun a c => a * 10 + dval c) s 0.
Definition field (s : list N) (off len : nat) : Z := num_of (firstn len (skipn off s)).

(* "%Y-%m-%d %H:%i:%s" *)
Definition canonical_fmt : list N := [37;89;45;37;109;45;37;100;32;37;72;58;37;105;58;37;115]%N.
Definition read_canonical (s : list N) : moment :=
  {| yr := field s 0 4; mo := field s 5 2; dy := field s 8 2; hh := field s 11 2; mi := field s 14 2; ss := field s 17 2; us := 0 |}.

Definition in_range (t : moment) : Prop :=
  0 <= yr t < 10000 /\ 0 <= mo t < 100 /\ 0 <= dy t < 100 /\ 0 <= hh t < 100 /\ 0 <= mi t < 100 /\ 0 <= ss t < 100.
