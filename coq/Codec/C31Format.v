(* C31 -- DATE_FORMAT renderer (function/date_format.go over lestrrat strftime) for the numeric specifiers
   %Y %y %m %c %d %e %H %k %h %I %l %i %s %S %f %p %T %r %% and literal characters, and a fixed-width reader
   used to state the format/parse inverse for the canonical complete format. *)
From Coq Require Import List NArith ZArith Bool Lia.
Import ListNotations.
Open Scope Z_scope.

Definition digit (d : Z) : N := Z.to_N (48 + d).

(* strconv.FormatInt for non-negative numbers *)
Fixpoint dec_fuel (fuel : nat) (n : Z) (acc : list N) : list N :=
  match fuel with
  | O => acc
  | S k => let acc' := digit (n mod 10) :: acc in if n / 10 =? 0 then acc' else dec_fuel k (n / 10) acc'
  end.
Definition dec (n : Z) : list N := dec_fuel 20 n [].

Fixpoint zeros (k : nat) : list N := match k with O => [] | S j => 48%N :: zeros j end.
(* fmt.Sprintf("%0<w>d", n), n >= 0 *)
Definition padw (w : nat) (n : Z) : list N := let s := dec n in zeros (w - length s) ++ s.

(* the moment: year, month, day, hour, minute, second, microsecond *)
Record moment := { yr : Z; mo : Z; dy : Z; hh : Z; mi : Z; ss : Z; us : Z }.

Definition hour12 (h : Z) : Z := let x := h mod 12 in if x =? 0 then 12 else x.
Definition ampm (h : Z) : list N := if 12 <=? h then [80; 77]%N else [65; 77]%N.   (* "PM" / "AM" *)

(* one specifier; None = not modelled *)
Definition render_spec (c : N) (t : moment) : option (list N) :=
  match c with
  | 89%N  => Some (padw 4 (yr t))                      (* %Y *)
  | 121%N => Some (dec (yr t mod 100))                 (* %y : yearTwoDigit does NOT pad *)
  | 109%N => Some (padw 2 (mo t))                      (* %m *)
  | 99%N  => Some (dec (mo t))                         (* %c *)
  | 100%N => Some (padw 2 (dy t))                      (* %d *)
  | 101%N => Some (dec (dy t))                         (* %e *)
  | 72%N  => Some (padw 2 (hh t))                      (* %H *)
  | 107%N => Some (dec (hh t))                         (* %k *)
  | 104%N | 73%N => Some (padw 2 (hour12 (hh t)))      (* %h %I *)
  | 108%N => Some (dec (hour12 (hh t)))                (* %l *)
  | 105%N => Some (padw 2 (mi t))                      (* %i *)
  | 115%N | 83%N => Some (padw 2 (ss t))               (* %s %S *)
  | 102%N => Some (padw 6 (us t))                      (* %f *)
  | 112%N => Some (ampm (hh t))                        (* %p *)
  | 84%N  => Some (padw 2 (hh t) ++ 58%N :: padw 2 (mi t) ++ 58%N :: padw 2 (ss t))      (* %T *)
  | 114%N => Some (padw 2 (hour12 (hh t)) ++ 58%N :: padw 2 (mi t) ++ 58%N :: padw 2 (ss t) ++ 32%N :: ampm (hh t))  (* %r *)
  | 37%N  => Some [37%N]                               (* %% *)
  | _ => None
  end.

Fixpoint render (fmt : list N) (t : moment) : option (list N) :=
  match fmt with
  | [] => Some []
  | 37%N :: c :: r =>
      match render_spec c t, render r t with Some a, Some b => Some (a ++ b) | _, _ => None end
  | c :: r => match render r t with Some b => Some (c :: b) | None => None end
  end.

(* ---------- fixed-width reading of a rendered text ---------- *)
Definition dval (c : N) : Z := Z.of_N c - 48.
Definition num_of (s : list N) : Z := fold_left (fun a c => a * 10 + dval c) s 0.
Definition field (s : list N) (off len : nat) : Z := num_of (firstn len (skipn off s)).

(* "%Y-%m-%d %H:%i:%s" *)
Definition canonical_fmt : list N := [37;89;45;37;109;45;37;100;32;37;72;58;37;105;58;37;115]%N.
Definition read_canonical (s : list N) : moment :=
  {| yr := field s 0 4; mo := field s 5 2; dy := field s 8 2; hh := field s 11 2; mi := field s 14 2; ss := field s 17 2; us := 0 |}.

Definition in_range (t : moment) : Prop :=
  0 <= yr t < 10000 /\ 0 <= mo t < 100 /\ 0 <= dy t < 100 /\ 0 <= hh t < 100 /\ 0 <= mi t < 100 /\ 0 <= ss t < 100.
