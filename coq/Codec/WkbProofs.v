(* C52 — proofs about the WKB codec model (Codec/Wkb.v). *)
From Coq Require Import List NArith ZArith Arith Bool Lia.
Import ListNotations.
From GMS Require Import Codec.Wkb.
Open Scope N_scope.

(* ---------- fixed-width integers ---------- *)
Lemma le_bytes_length k n : length (le_bytes k n) = k.
Proof. revert n. induction k as [|k IH]; intros n; cbn [le_bytes length]; [reflexivity|]. now rewrite IH. Qed.

Lemma le_val_le_bytes k : forall n, n < 256 ^ N.of_nat k -> le_val (le_bytes k n) = n.
Proof.
  induction k as [|k IH]; intros n Hn.
  - cbn in *. lia.
  - cbn [le_bytes le_val].
    rewrite Nat2N.inj_succ, N.pow_succ_r' in Hn.
    rewrite IH.
    + pose proof (N.div_mod n 256 ltac:(lia)) as E. lia.
    + apply N.div_lt_upper_bound; lia.
Qed.

Lemma enc_length big k n : length (enc big k n) = k.
Proof. unfold enc. destruct big; [rewrite rev_length|]; apply le_bytes_length. Qed.

Lemma dec_enc big k n : n < 256 ^ N.of_nat k -> dec big (enc big k n) = n.
Proof.
  intros H. unfold dec, enc. destruct big; [rewrite rev_involutive|]; now apply le_val_le_bytes.
Qed.

Lemma firstn_exact {A} (a b : list A) k : length a = k -> firstn k (a ++ b) = a.
Proof.
  intros <-. rewrite firstn_app, Nat.sub_diag, firstn_all. cbn. now rewrite app_nil_r.
Qed.

Lemma skipn_exact {A} (a b : list A) k : length a = k -> skipn k (a ++ b) = b.
Proof.
  intros <-. rewrite skipn_app, Nat.sub_diag, skipn_all. reflexivity.
Qed.

Lemma skipn_plus {A} (a b : list A) k j : length a = k -> skipn (k + j) (a ++ b) = skipn j b.
Proof.
  intros <-. induction a as [|x a IH]; cbn [length plus app]; [reflexivity|]. rewrite skipn_cons. exact IH.
Qed.

Lemma p32 : 256 ^ N.of_nat 4 = 2 ^ 32. Proof. reflexivity. Qed.
Lemma p64 : 256 ^ N.of_nat 8 = 2 ^ 64. Proof. reflexivity. Qed.

Lemma u32_enc big n x : n < 2 ^ 32 -> u32 big (enc big 4 n ++ x) = n.
Proof.
  intros H. unfold u32. rewrite firstn_exact by apply enc_length. apply dec_enc. now rewrite p32.
Qed.

(* ---------- well-formed values ---------- *)
Definition wf_pt (p : pt) : Prop := px p < 2 ^ 64 /\ py p < 2 ^ 64.
Definition wf_line (l : list pt) : Prop := (2 <= length l)%nat /\ len l < 2 ^ 32 /\ Forall wf_pt l.
Definition wf_ring (l : list pt) : Prop := (4 <= length l)%nat /\ len l < 2 ^ 32 /\ Forall wf_pt l.
Definition wf_poly (rs : list (list pt)) : Prop := rs <> [] /\ len rs < 2 ^ 32 /\ Forall wf_ring rs.

Fixpoint wf (s : shape) : Prop :=
  match s with
  | SPoint p => wf_pt p
  | SLine l => wf_line l
  | SPoly rs => wf_poly rs
  | SMPoint ps => ps <> [] /\ len ps < 2 ^ 32 /\ Forall wf_pt ps
  | SMLine ls => ls <> [] /\ len ls < 2 ^ 32 /\ Forall wf_line ls
  | SMPoly ps => ps <> [] /\ len ps < 2 ^ 32 /\ Forall wf_poly ps
  | SColl gs => len gs < 2 ^ 32 /\ (fix all (l : list shape) : Prop :=
                                      match l with [] => True | g :: r => wf g /\ all r end) gs
  end.

Lemma wf_coll_forall gs :
  (fix all (l : list shape) : Prop := match l with [] => True | g :: r => wf g /\ all r end) gs <-> Forall wf gs.
Proof.
  induction gs as [|g gs IH]; split; intros H.
  - constructor.
  - exact I.
  - destruct H as [H1 H2]. constructor; [exact H1|now apply IH].
  - inversion H; subst. split; [assumption|now apply IH].
Qed.

Fixpoint depth (s : shape) : nat :=
  match s with
  | SColl gs => S (fold_right (fun g a => Nat.max (depth g) a) 0%nat gs)
  | _ => 0%nat
  end.

(* induction principle with Forall for the nested list *)
Section ShapeInd.
  Variable P : shape -> Prop.
  Hypothesis Hpoint : forall p, P (SPoint p).
  Hypothesis Hline : forall l, P (SLine l).
  Hypothesis Hpoly : forall r, P (SPoly r).
  Hypothesis Hmpoint : forall l, P (SMPoint l).
  Hypothesis Hmline : forall l, P (SMLine l).
  Hypothesis Hmpoly : forall l, P (SMPoly l).
  Hypothesis Hcoll : forall gs, Forall P gs -> P (SColl gs).
  Fixpoint shape_ind2 (s : shape) : P s :=
    match s with
    | SPoint p => Hpoint p
    | SLine l => Hline l
    | SPoly r => Hpoly r
    | SMPoint l => Hmpoint l
    | SMLine l => Hmline l
    | SMPoly l => Hmpoly l
    | SColl gs => Hcoll gs ((fix go (l : list shape) : Forall P l :=
                               match l with
                               | [] => Forall_nil P
                               | x :: r => Forall_cons x (shape_ind2 x) (go r)
                               end) gs)
    end.
End ShapeInd.

(* ---------- lengths ---------- *)
Lemma w_pt_length big p : length (w_pt big p) = 16%nat.
Proof. unfold w_pt. now rewrite app_length, !enc_length. Qed.

Lemma w_hdr_length big t : length (w_hdr big t) = 5%nat.
Proof. unfold w_hdr. cbn [length]. now rewrite enc_length. Qed.

Lemma flat_map_length_const {A} (w : A -> list N) c l :
  (forall a, In a l -> length (w a) = c) -> length (flat_map w l) = (c * length l)%nat.
Proof.
  induction l as [|a l IH]; intros H; cbn [flat_map length]; [lia|].
  rewrite app_length, H by (left; reflexivity). rewrite IH by (intros; apply H; now right). lia.
Qed.

Lemma flat_map_length_ge {A} (w : A -> list N) c l :
  (forall a, In a l -> (c <= length (w a))%nat) -> (c * length l <= length (flat_map w l))%nat.
Proof.
  induction l as [|a l IH]; intros H; cbn [flat_map length]; [lia|].
  rewrite app_length. specialize (H a (or_introl eq_refl)) as Ha.
  specialize (IH (fun x Hx => H x (or_intror Hx))). lia.
Qed.

Lemma w_line_length big l : length (w_line big l) = (4 + 16 * length l)%nat.
Proof.
  unfold w_line. rewrite app_length, enc_length.
  rewrite (flat_map_length_const _ 16%nat) by (intros; apply w_pt_length). lia.
Qed.

Lemma w_poly_length_ge big rs : (4 + 4 * length rs <= length (w_poly big rs))%nat.
Proof.
  unfold w_poly. rewrite app_length, enc_length.
  pose proof (flat_map_length_ge (w_line big) 4%nat rs) as H.
  assert (forall a, In a rs -> (4 <= length (w_line big a))%nat) as H0 by (intros; rewrite w_line_length; lia).
  specialize (H H0). lia.
Qed.

(* ---------- reading back what was written ---------- *)
Lemma rd_point_slice_ok big p rest :
  wf_pt p -> rd_point_slice big (w_pt big p ++ rest) = Ok (p, rest).
Proof.
  intros [Hx Hy]. unfold rd_point_slice, split_at.
  rewrite app_length, w_pt_length. cbn [Nat.leb plus].
  replace (16 <=? 16 + length rest)%nat with true by (symmetry; apply Nat.leb_le; lia).
  rewrite firstn_exact, skipn_exact by apply w_pt_length.
  unfold rd_point. rewrite w_pt_length. cbn [Nat.eqb bind].
  unfold w_pt. rewrite firstn_exact, skipn_exact by apply enc_length.
  rewrite !dec_enc by (now rewrite p64). destruct p; reflexivity.
Qed.

Lemma len_cons {A} (a : A) l : len (a :: l) - 1 = len l.
Proof. unfold len. cbn [length]. lia. Qed.

Lemma len_cons_nz {A} (a : A) l : (len (a :: l) =? 0) = false.
Proof. unfold len. cbn [length]. apply N.eqb_neq. lia. Qed.

Lemma rd_seq_ok {A} (step : list N -> res (A * list N)) (w : A -> list N) o :
  forall l rest fuel,
    (forall a r, In a l -> step (w a ++ r) = Ok (a, r)) -> (length l <= fuel)%nat ->
    rd_seq step o fuel (len l) (flat_map w l ++ rest) = Ok (l, rest).
Proof.
  induction l as [|a l IH]; intros rest fuel Hs Hf.
  - destruct fuel; reflexivity.
  - destruct fuel as [|f]; [cbn in Hf; lia|].
    cbn [rd_seq]. rewrite len_cons_nz. cbn [flat_map]. rewrite <- app_assoc.
    rewrite Hs by (left; reflexivity). cbn [bind]. rewrite len_cons.
    rewrite IH; [reflexivity| intros; apply Hs; now right | cbn in Hf; lia].
Qed.

Lemma ltb_false a b : (b <= a)%nat -> (a <? b)%nat = false.
Proof. intros. apply Nat.ltb_ge. assumption. Qed.

Lemma rd_line_ok big l rest :
  wf_line l -> rd_line big (w_line big l ++ rest) = Ok (l, rest).
Proof.
  intros (H2 & H32 & Hp). unfold rd_line.
  rewrite ltb_false by (rewrite app_length, w_line_length; lia).
  assert (length l <= length (w_line big l ++ rest))%nat as Hfuel by (rewrite app_length, w_line_length; lia).
  revert Hfuel. generalize (length (w_line big l ++ rest)) as fuel. intros fuel Hfuel.
  unfold w_line. rewrite <- app_assoc, u32_enc by assumption.
  rewrite skipn_exact by apply enc_length.
  apply rd_seq_ok; [|assumption].
  intros a r Ha. apply rd_point_slice_ok. rewrite Forall_forall in Hp. now apply Hp.
Qed.

Lemma wf_ring_line l : wf_ring l -> wf_line l.
Proof. intros (H & H1 & H2). repeat split; try assumption. lia. Qed.

Lemma rd_poly_ok big rs rest :
  wf_poly rs -> rd_poly big (w_poly big rs ++ rest) = Ok (rs, rest).
Proof.
  intros (Hne & H32 & Hr). unfold rd_poly.
  assert (72 <= length (w_poly big rs ++ rest))%nat as Hlen.
  { destruct rs as [|r0 rs']; [congruence|]. inversion Hr as [|? ? (H4 & _ & _) _]; subst.
    rewrite app_length. unfold w_poly. rewrite app_length, enc_length. cbn [flat_map].
    rewrite app_length, w_line_length. lia. }
  rewrite ltb_false by assumption.
  assert (length rs <= length (w_poly big rs ++ rest))%nat as Hfuel
      by (pose proof (w_poly_length_ge big rs); rewrite app_length; lia).
  revert Hfuel. generalize (length (w_poly big rs ++ rest)) as fuel. intros fuel Hfuel.
  unfold w_poly. rewrite <- app_assoc, u32_enc by assumption.
  rewrite skipn_exact by apply enc_length.
  apply rd_seq_ok; [|assumption].
  intros a r Ha. apply rd_line_ok. apply wf_ring_line. rewrite Forall_forall in Hr. now apply Hr.
Qed.

Lemma rd_hdr_ok big t x : t < 2 ^ 32 -> rd_hdr (w_hdr big t ++ x) = Some (big, t, x).
Proof.
  intros Ht. unfold rd_hdr. rewrite ltb_false by (rewrite app_length, w_hdr_length; lia).
  unfold w_hdr. cbn [app nth]. rewrite !skipn_cons, skipn_O.
  assert ((if big then 0 else 1) =? 0 = big) as -> by (destruct big; reflexivity).
  rewrite firstn_exact by apply enc_length. rewrite dec_enc by (now rewrite p32).
  rewrite skipn_exact by apply enc_length. reflexivity.
Qed.

Lemma with_hdr_ok {A} big t (f : bool -> list N -> res (A * list N)) (w : A -> list N) a r :
  t < 2 ^ 32 -> f big (w a ++ r) = Ok (a, r) ->
  with_hdr t f ((w_hdr big t ++ w a) ++ r) = Ok (a, r).
Proof.
  intros Ht Hf. unfold with_hdr. rewrite <- app_assoc, rd_hdr_ok by assumption.
  rewrite N.eqb_refl. exact Hf.
Qed.

Lemma depth_fold_le g gs :
  In g gs -> (depth g <= fold_right (fun g a => Nat.max (depth g) a) 0%nat gs)%nat.
Proof.
  induction gs as [|x gs IH]; intros H; [destruct H|].
  cbn [fold_right]. destruct H as [->|H]; [lia|]. specialize (IH H). lia.
Qed.

Lemma type_code_lt s : type_code s < 2 ^ 32.
Proof. destruct s; cbn; lia. Qed.

Lemma nonempty_len {A} (l : list A) : l <> [] -> (1 <= length l)%nat.
Proof. destruct l; [congruence|cbn; lia]. Qed.

Theorem rd_by_type_ok : forall s, wf s -> forall big fuel rest, (depth s < fuel)%nat ->
  rd_by_type fuel big (type_code s) (w_shape big s ++ rest) = Ok (s, rest).
Proof.
  induction s as [p|l|rs|ps|ls|ps|gs IH] using shape_ind2; intros Hwf big fuel rest Hd;
    (destruct fuel as [|f]; [lia|]); cbn [type_code rd_by_type w_shape].
  - rewrite rd_point_slice_ok by exact Hwf. reflexivity.
  - rewrite rd_line_ok by exact Hwf. reflexivity.
  - rewrite rd_poly_ok by exact Hwf. reflexivity.
  - destruct Hwf as (Hne & H32 & Hp). apply nonempty_len in Hne. unfold rd_mpoint.
    assert (forall a, In a ps -> length (w_hdr big 1 ++ w_pt big a) = 21%nat) as HL
        by (intros; now rewrite app_length, w_hdr_length, w_pt_length).
    rewrite ltb_false by (rewrite !app_length, enc_length, (flat_map_length_const _ 21%nat) by exact HL; lia).
    rewrite <- app_assoc, u32_enc by assumption. rewrite skipn_exact by apply enc_length.
    rewrite rd_seq_ok; [reflexivity| |].
    + intros a r Ha. apply (with_hdr_ok big 1 rd_point_slice (w_pt big)); [lia|].
      apply rd_point_slice_ok. rewrite Forall_forall in Hp. now apply Hp.
    + rewrite !app_length, enc_length, (flat_map_length_const _ 21%nat) by exact HL. lia.
  - destruct Hwf as (Hne & H32 & Hp). unfold rd_mline.
    assert (forall a, In a ls -> (41 <= length (w_hdr big 2 ++ w_line big a))%nat) as HL.
    { intros a Ha. rewrite Forall_forall in Hp. destruct (Hp a Ha) as (H2 & _).
      rewrite app_length, w_hdr_length, w_line_length. lia. }
    pose proof (flat_map_length_ge _ 41%nat ls HL) as HG. apply nonempty_len in Hne.
    rewrite ltb_false by (rewrite !app_length, enc_length; lia).
    rewrite <- app_assoc, u32_enc by assumption. rewrite skipn_exact by apply enc_length.
    rewrite rd_seq_ok; [reflexivity| |].
    + intros a r Ha. apply (with_hdr_ok big 2 rd_line (w_line big)); [lia|].
      apply rd_line_ok. rewrite Forall_forall in Hp. now apply Hp.
    + rewrite !app_length, enc_length. lia.
  - destruct Hwf as (Hne & H32 & Hp). unfold rd_mpoly.
    assert (forall a, In a ps -> (77 <= length (w_hdr big 3 ++ w_poly big a))%nat) as HL.
    { intros a Ha. rewrite Forall_forall in Hp. destruct (Hp a Ha) as (Hne' & _ & Hr).
      destruct a as [|r0 a']; [congruence|]. inversion Hr as [|? ? (H4 & _ & _) _]; subst.
      rewrite app_length, w_hdr_length. unfold w_poly. rewrite app_length, enc_length. cbn [flat_map].
      rewrite app_length, w_line_length. lia. }
    pose proof (flat_map_length_ge _ 77%nat ps HL) as HG. apply nonempty_len in Hne.
    rewrite ltb_false by (rewrite !app_length, enc_length; lia).
    rewrite <- app_assoc, u32_enc by assumption. rewrite skipn_exact by apply enc_length.
    rewrite rd_seq_ok; [reflexivity| |].
    + intros a r Ha. apply (with_hdr_ok big 3 rd_poly (w_poly big)); [lia|].
      apply rd_poly_ok. rewrite Forall_forall in Hp. now apply Hp.
    + rewrite !app_length, enc_length. lia.
  - destruct Hwf as (H32 & Hall). apply wf_coll_forall in Hall.
    rewrite ltb_false by (rewrite !app_length, enc_length; lia).
    rewrite <- app_assoc, u32_enc by assumption. rewrite skipn_exact by apply enc_length.
    rewrite (rd_seq_ok _ (fun g => w_hdr big (type_code g) ++ w_shape big g)); [reflexivity| |].
    + intros a r Ha. rewrite <- app_assoc. rewrite rd_hdr_ok by apply type_code_lt.
      rewrite Forall_forall in IH, Hall. apply IH; [assumption|now apply Hall|].
      cbn [depth] in Hd. pose proof (depth_fold_le a gs Ha). lia.
    + assert (forall a, In a gs -> (1 <= length (w_hdr big (type_code a) ++ w_shape big a))%nat) as HL
          by (intros; rewrite app_length, w_hdr_length; lia).
      pose proof (flat_map_length_ge _ 1%nat gs HL). rewrite !app_length, enc_length. lia.
Qed.

Lemma depth_le_length big s : (depth s <= length (w_shape big s))%nat.
Proof.
  induction s as [p|l|rs|ps|ls|ps|gs IH] using shape_ind2; cbn [depth]; try lia.
  cbn [w_shape]. rewrite app_length, enc_length.
  induction gs as [|g gs IHg]; cbn [fold_right flat_map length]; [lia|].
  inversion IH as [|? ? Hg Hgs]; subst. specialize (IHg Hgs).
  rewrite !app_length, w_hdr_length. lia.
Qed.

Theorem rd_top_ok big s : wf s -> rd_top big (type_code s) (w_shape big s) = Ok s.
Proof.
  intros Hwf. unfold rd_top. destruct (type_code s =? 1) eqn:E.
  - destruct s; try discriminate E. cbn [w_shape]. unfold rd_point.
    rewrite w_pt_length. cbn [Nat.eqb bind]. destruct Hwf as [Hx Hy].
    unfold w_pt. rewrite firstn_exact, skipn_exact by apply enc_length.
    rewrite !dec_enc by (now rewrite p64). destruct p; reflexivity.
  - pose proof (rd_by_type_ok s Hwf big (S (length (w_shape big s))) []) as H.
    rewrite app_nil_r in H. rewrite H; [reflexivity|]. pose proof (depth_le_length big s). lia.
Qed.

(* the internal form: GeometryType.Convert(Serialize(g)) = g *)
Theorem deserialize_serialize g : fst g < 2 ^ 32 -> wf (snd g) -> deserialize (serialize g) = Ok g.
Proof.
  destruct g as [srid s]. cbn [fst snd]. intros Hs Hwf. unfold deserialize, serialize. cbn [fst snd].
  rewrite ltb_false by (rewrite !app_length, enc_length, w_hdr_length; lia).
  rewrite firstn_exact by apply enc_length. rewrite dec_enc by (now rewrite p32).
  assert (nth 4 (enc false 4 srid ++ w_hdr false (type_code s) ++ w_shape false s) 0 = 1) as ->.
  { rewrite app_nth2 by (rewrite enc_length; lia). rewrite enc_length. reflexivity. }
  cbn [N.eqb].
  replace (skipn 5 (enc false 4 srid ++ w_hdr false (type_code s) ++ w_shape false s))
    with (enc false 4 (type_code s) ++ w_shape false s).
  2:{ change 5%nat with (4 + 1)%nat. rewrite skipn_plus by apply enc_length. reflexivity. }
  rewrite firstn_exact by apply enc_length. rewrite dec_enc by (rewrite p32; apply type_code_lt).
  replace (skipn 9 (enc false 4 srid ++ w_hdr false (type_code s) ++ w_shape false s)) with (w_shape false s).
  2:{ change 9%nat with (4 + 5)%nat. rewrite skipn_plus by apply enc_length.
      rewrite skipn_exact by apply w_hdr_length. reflexivity. }
  rewrite rd_top_ok by assumption. reflexivity.
Qed.

(* ---------- axis swap ---------- *)
Lemma swap_pt_invol p : swap_pt (swap_pt p) = p.
Proof. destruct p; reflexivity. Qed.

Lemma map_invol {A} (f : A -> A) : (forall a, f (f a) = a) -> forall l, map f (map f l) = l.
Proof. intros H l. rewrite map_map. rewrite <- (map_id l) at 2. apply map_ext. exact H. Qed.

Lemma swap_invol s : swap (swap s) = s.
Proof.
  induction s as [p|l|rs|ps|ls|ps|gs IH] using shape_ind2; cbn [swap]; f_equal;
    try apply swap_pt_invol; try (repeat apply map_invol; apply swap_pt_invol).
  rewrite map_map. rewrite <- (map_id gs) at 2. apply map_ext_in. rewrite Forall_forall in IH. exact IH.
Qed.

Lemma type_code_swap s : type_code (swap s) = type_code s.
Proof. destruct s; reflexivity. Qed.

Lemma wf_pt_swap p : wf_pt p -> wf_pt (swap_pt p).
Proof. intros [H1 H2]. split; assumption. Qed.

Lemma Forall_map_swap {A} (P : A -> Prop) f l : (forall a, P a -> P (f a)) -> Forall P l -> Forall P (map f l).
Proof. intros H HF. induction HF; cbn; constructor; auto. Qed.

Lemma len_map {A B} (f : A -> B) l : len (map f l) = len l.
Proof. unfold len. now rewrite map_length. Qed.

Lemma map_nonempty {A B} (f : A -> B) l : l <> [] -> map f l <> [].
Proof. destruct l; [congruence|discriminate]. Qed.

Lemma wf_line_swap l : wf_line l -> wf_line (map swap_pt l).
Proof.
  intros (H1 & H2 & H3). repeat split; [now rewrite map_length|now rewrite len_map|].
  apply Forall_map_swap; [apply wf_pt_swap|assumption].
Qed.

Lemma wf_ring_swap l : wf_ring l -> wf_ring (map swap_pt l).
Proof.
  intros (H1 & H2 & H3). repeat split; [now rewrite map_length|now rewrite len_map|].
  apply Forall_map_swap; [apply wf_pt_swap|assumption].
Qed.

Lemma wf_poly_swap rs : wf_poly rs -> wf_poly (map (map swap_pt) rs).
Proof.
  intros (H1 & H2 & H3). repeat split; [now apply map_nonempty|now rewrite len_map|].
  apply Forall_map_swap; [apply wf_ring_swap|assumption].
Qed.

Lemma wf_swap s : wf s -> wf (swap s).
Proof.
  induction s as [p|l|rs|ps|ls|ps|gs IH] using shape_ind2; cbn [wf swap].
  - apply wf_pt_swap.
  - apply wf_line_swap.
  - apply wf_poly_swap.
  - intros (H1 & H2 & H3). repeat split; [now apply map_nonempty|now rewrite len_map|].
    apply Forall_map_swap; [apply wf_pt_swap|assumption].
  - intros (H1 & H2 & H3). repeat split; [now apply map_nonempty|now rewrite len_map|].
    apply Forall_map_swap; [apply wf_line_swap|assumption].
  - intros (H1 & H2 & H3). repeat split; [now apply map_nonempty|now rewrite len_map|].
    apply Forall_map_swap; [apply wf_poly_swap|assumption].
  - intros (H1 & H2). split; [now rewrite len_map|]. apply wf_coll_forall. apply wf_coll_forall in H2.
    clear H1. induction gs as [|g gs IHg]; cbn [map]; [constructor|].
    inversion IH as [|? ? Hg Hgs]; inversion H2 as [|? ? Wg Wgs]; subst.
    constructor; [exact (Hg Wg)|exact (IHg Hgs Wgs)].
Qed.

(* SQL level: ST_GeomFromWKB(ST_AsWKB(g), SRID(g)) = g, including the axis swap of SRID 4326 *)
Theorem geom_from_wkb_as_wkb g : wf (snd g) -> geom_from_wkb (as_wkb g) (fst g) = Ok g.
Proof.
  destruct g as [srid s]. cbn [fst snd]. intros Hwf. unfold geom_from_wkb, as_wkb. cbn [fst snd].
  rewrite rd_hdr_ok by apply type_code_lt.
  destruct (srid =? geo_srid).
  - rewrite rd_top_ok by now apply wf_swap. cbn [bind]. now rewrite swap_invol.
  - rewrite rd_top_ok by assumption. reflexivity.
Qed.

(* reading accepts both byte orders: a big-endian encoding of the same value is read back to it *)
Theorem geom_from_wkb_any_order big srid s :
  wf s -> srid <> geo_srid ->
  geom_from_wkb (w_hdr big (type_code s) ++ w_shape big s) srid = Ok (srid, s).
Proof.
  intros Hwf Hs. unfold geom_from_wkb. rewrite rd_hdr_ok by apply type_code_lt.
  rewrite rd_top_ok by assumption. cbn [bind]. apply N.eqb_neq in Hs. now rewrite Hs.
Qed.

(* ---------- Serialize allocates exactly the bytes WriteData fills ---------- *)
Lemma npoints_rings_length big rs :
  length (flat_map (w_line big) rs) = (16 * npoints_rings rs + 4 * length rs)%nat.
Proof.
  induction rs as [|r rs IH]; cbn [flat_map npoints_rings fold_right length]; [reflexivity|].
  rewrite app_length, w_line_length. fold (npoints_rings rs). lia.
Qed.

Theorem alloc_size_exact big s : length (w_shape big s) = alloc_size s.
Proof.
  unfold alloc_size.
  induction s as [p|l|rs|ps|ls|ps|gs IH] using shape_ind2; cbn [w_shape calc_size].
  - rewrite w_pt_length. reflexivity.
  - rewrite w_line_length. lia.
  - unfold w_poly. rewrite app_length, enc_length, npoints_rings_length. lia.
  - rewrite app_length, enc_length.
    rewrite (flat_map_length_const _ 21%nat)
      by (intros; now rewrite app_length, w_hdr_length, w_pt_length). lia.
  - rewrite app_length, enc_length.
    induction ls as [|l ls IHl]; cbn [flat_map npoints_rings fold_right length]; [reflexivity|].
    rewrite !app_length, w_hdr_length, w_line_length. fold (npoints_rings ls). lia.
  - rewrite app_length, enc_length.
    induction ps as [|p ps IHp]; cbn [flat_map fold_right length]; [reflexivity|].
    rewrite !app_length, w_hdr_length. unfold w_poly at 1.
    rewrite app_length, enc_length, npoints_rings_length. lia.
  - rewrite app_length, enc_length.
    induction gs as [|g gs IHg]; cbn [flat_map fold_right length]; [reflexivity|].
    inversion IH as [|? ? Hg Hgs]; subst. specialize (IHg Hgs).
    rewrite !app_length, w_hdr_length.
    destruct (fold_right _ _ gs) as [[p c] h]. destruct (calc_size g) as [[p1 c1] h1].
    lia.
Qed.

(* ---------- the faithful reader can fail on the writer's own output, and can go out of range ---------- *)
Definition one_point_line : geom := (0, SLine [mkpt 0 0]).

Lemma one_point_line_not_read : deserialize (serialize one_point_line) = Err.
Proof. vm_compute. reflexivity. Qed.

(* a LINESTRING header announcing 3 points followed by 2: the slice buf[:16] is out of range *)
Definition truncated_line : list N :=
  [1;2;0;0;0; 3;0;0;0] ++ repeat 0 32.

Lemma truncated_line_panics : geom_from_wkb truncated_line 0 = Panic.
Proof. vm_compute. reflexivity. Qed.

Lemma roundtrip_refuted : exists g, deserialize (serialize g) <> Ok g.
Proof. exists one_point_line. rewrite one_point_line_not_read. discriminate. Qed.

Lemma reader_out_of_range : exists buf, geom_from_wkb buf 0 = Panic.
Proof. exists truncated_line. exact truncated_line_panics. Qed.

Lemma nonvacuous_example :
  wf (SColl [SPoint (mkpt 1 2); SColl [SLine [mkpt 1 2; mkpt 3 4]]; SPoly [[mkpt 0 0; mkpt 1 0; mkpt 1 1; mkpt 0 0]]])
  /\ geom_from_wkb (as_wkb (4326, SMPoint [mkpt 7 9])) 4326 = Ok (4326, SMPoint [mkpt 7 9])
  /\ as_wkb (4326, SPoint (mkpt 1 2)) = [1; 1;0;0;0; 2;0;0;0;0;0;0;0; 1;0;0;0;0;0;0;0].
Proof.
  split; [|split; vm_compute; reflexivity].
  cbn. unfold wf_pt, wf_line, wf_poly, wf_ring, len. cbn.
  repeat split; repeat constructor; cbn; try lia; try discriminate.
Qed.

(* ---------- bounding boxes ---------- *)
Open Scope Z_scope.

Lemma ivl_test_iff a b c d : a <= b -> c <= d ->
  (ivl_test a b c d = true <-> exists x, a <= x <= b /\ c <= x <= d).
Proof.
  intros Hab Hcd. unfold ivl_test. split.
  - intros H. repeat (apply orb_true_iff in H; destruct H as [H|H]);
      apply andb_true_iff in H; destruct H as [H1 H2]; apply Z.leb_le in H1, H2.
    + exists c. lia.
    + exists d. lia.
    + exists a. lia.
    + exists b. lia.
  - intros (x & H1 & H2).
    destruct (Z_le_gt_dec a c) as [Hac|Hac].
    + assert ((a <=? c) && (c <=? b) = true) as -> by (apply andb_true_iff; split; apply Z.leb_le; lia).
      reflexivity.
    + assert ((c <=? a) && (a <=? d) = true) as E by (apply andb_true_iff; split; apply Z.leb_le; lia).
      rewrite E. now rewrite !orb_true_r.
Qed.

Definition in_box (b : box) (p : zpt) : Prop :=
  match b with
  | None => False
  | Some (x0, y0, x1, y1) => x0 <= fst p <= x1 /\ y0 <= snd p <= y1
  end.

Definition box_le (b1 b2 : box) : Prop := forall p, in_box b1 p -> in_box b2 p.

Lemma box_add_in b p : in_box (box_add b p) p.
Proof. destruct b as [[[[a b0] c] d]|]; cbn; lia. Qed.

Lemma box_add_mono b p : box_le b (box_add b p).
Proof. intros q. destruct b as [[[[a b0] c] d]|]; cbn; [lia|tauto]. Qed.

Lemma fold_box_mono ps : forall b, box_le b (fold_left box_add ps b).
Proof.
  induction ps as [|p ps IH]; intros b q Hq; cbn [fold_left]; [assumption|].
  apply IH. now apply box_add_mono.
Qed.

Lemma bbox_pts_covers ps p : In p ps -> in_box (bbox_pts ps) p.
Proof.
  unfold bbox_pts. generalize (@None (Z * Z * Z * Z)). induction ps as [|q ps IH]; intros b H; [destruct H|].
  cbn [fold_left]. destruct H as [->|H].
  - apply fold_box_mono. apply box_add_in.
  - now apply IH.
Qed.

Lemma in_box_wf b p : in_box (Some b) p -> let '(x0, y0, x1, y1) := b in x0 <= x1 /\ y0 <= y1.
Proof. destruct b as [[[a b0] c] d]. cbn. lia. Qed.

(* two geometries that share a vertex are never separated by the lookup's bounding-box test *)
Theorem shared_vertex_passes_box_test g q p bg bq :
  bbox_pts g = Some bg -> bbox_pts q = Some bq -> In p g -> In p q -> box_test bg bq = true.
Proof.
  intros Hg Hq Ig Iq. pose proof (bbox_pts_covers g p Ig) as H1. pose proof (bbox_pts_covers q p Iq) as H2.
  rewrite Hg in H1. rewrite Hq in H2.
  destruct bg as [[[a b] c] d]. destruct bq as [[[a' b'] c'] d']. cbn in H1, H2. cbn [box_test].
  apply andb_true_iff; split; apply ivl_test_iff; try lia; [exists (fst p)|exists (snd p)]; lia.
Qed.

(* the memory backend's spatial lookup: rows whose box passes the test, then the predicate that the
   analyzer always leaves in place; it equals the plain predicate scan whenever the predicate implies
   that the boxes overlap *)
Section Lookup.
  Variable row : Type.
  Variable rbox : row -> Z * Z * Z * Z.
  Variable pred : row -> bool.
  Variable qbox : Z * Z * Z * Z.
  Hypothesis pred_implies_box : forall r, pred r = true -> box_test (rbox r) qbox = true.

  Definition indexed_lookup (rows : list row) : list row :=
    filter pred (filter (fun r => box_test (rbox r) qbox) rows).

  Lemma indexed_lookup_eq_scan rows : indexed_lookup rows = filter pred rows.
  Proof.
    unfold indexed_lookup. induction rows as [|r rows IH]; cbn [filter]; [reflexivity|].
    destruct (pred r) eqn:Ep.
    - rewrite pred_implies_box by assumption. cbn [filter]. rewrite Ep. now rewrite IH.
    - destruct (box_test (rbox r) qbox); cbn [filter]; [rewrite Ep|]; exact IH.
  Qed.
End Lookup.
Close Scope Z_scope.
