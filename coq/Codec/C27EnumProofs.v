(* C27 — proofs about ENUM / SET / BIT Convert (Codec/C27Enum.v) *)
From Coq Require Import ZArith Bool List Lia.
Import ListNotations.
From GMS Require Import Codec.C25Arith Codec.C27Convert Codec.C27Enum.
Open Scope Z_scope.

(* a non-negative integer source is stored exactly or rejected; what is stored lies in the type's domain *)
Theorem enum_exact_or_rejected n z out :
  conv_enum n (SI z) = EOk out -> out = z /\ 0 <= z <= n.
Proof.
  unfold conv_enum. destruct (Z.leb_spec 0 z), (Z.leb_spec z n); cbn [andb]; intros HE; try discriminate.
  injection HE as <-. lia.
Qed.

Theorem set_bit_exact_or_rejected_nonneg n z :
  0 <= z <= max_u64 ->
  (forall out, conv_set n (SU z) = EOk out -> out = z /\ z <= 2 ^ n - 1) /\
  (forall out, conv_bit n (SU z) = EOk out -> out = z /\ z <= 2 ^ n - 1).
Proof.
  intros Hz. split; intros out; unfold conv_set, conv_bit, as_u64.
  - destruct (Z.leb_spec z (2 ^ n - 1)); intros HE; try discriminate. injection HE as <-. lia.
  - destruct (Z.gtb_spec z (2 ^ n - 1)); intros HE; try discriminate. injection HE as <-. lia.
Qed.

(* converting a stored value again never changes it *)
Theorem esb_idempotent n v out :
  (conv_enum n v = EOk out -> conv_enum n (SI out) = EOk out) /\
  (conv_set n v = EOk out -> 0 <= n <= 64 -> conv_set n (SU out) = EOk out) /\
  (conv_bit n v = EOk out -> 0 <= n <= 64 -> conv_bit n (SU out) = EOk out).
Proof.
  repeat split.
  - unfold conv_enum at 1. match goal with |- context [if ?c then _ else _] => destruct c eqn:C end; [|discriminate].
    intros HE. injection HE as <-. unfold conv_enum. rewrite C. reflexivity.
  - intros HE Hn. unfold conv_set, as_u64.
    assert (B : out <= 2 ^ n - 1).
    { unfold conv_set in HE. destruct v; unfold as_u64 in HE;
        match type of HE with context [if ?c <=? ?d then _ else _] => destruct (Z.leb_spec c d) end; try discriminate;
        injection HE as <-; assumption. }
    destruct (Z.leb_spec out (2 ^ n - 1)); [reflexivity|lia].
  - intros HE Hn. unfold conv_bit, as_u64.
    assert (B : out <= 2 ^ n - 1).
    { unfold conv_bit in HE. destruct v; unfold as_u64 in HE;
        try match type of HE with context [if ?a || ?b then _ else _] => destruct (a || b); [discriminate|] end;
        match type of HE with context [if ?c >? ?d then _ else _] => destruct (Z.gtb_spec c d) end; try discriminate;
        injection HE as <-; lia. }
    destruct (Z.gtb_spec out (2 ^ n - 1)); [lia|reflexivity].
Qed.

(* REFUTED: a negative value is rejected -- BIT and SET take the magnitude of a negative decimal, BIT(64) takes the
   two's complement of a negative integer *)
Lemma negative_values_accepted :
  conv_bit 8 (SD (-50) 1) = EOk 5 /\ conv_bit 64 (SI (-1)) = EOk 18446744073709551615 /\
  conv_bit 64 (SD (-10) 1) = EOk 1 /\ conv_set 3 (SD (-30) 1) = EOk 3.
Proof. repeat split; vm_compute; reflexivity. Qed.

Lemma nonvacuous_esb :
  conv_enum 3 (SI 2) = EOk 2 /\ conv_enum 3 (SI 4) = EErr /\ conv_enum 3 (SI 0) = EOk 0 /\ conv_enum 3 (SD 25 1) = EOk 3 /\
  conv_set 3 (SI 7) = EOk 7 /\ conv_set 3 (SI 8) = EErr /\ conv_set 3 (SI (-1)) = EErr /\
  conv_bit 8 (SI 255) = EOk 255 /\ conv_bit 8 (SI 256) = EErr /\ conv_bit 8 (SI (-5)) = EErr.
Proof. repeat split; vm_compute; reflexivity. Qed.
