(* Model of internal/strings/unquote.go: Quote, Unquote, UnquoteBytes, decodeEscapedUnicode, byte for byte.
   Strings are lists of bytes (N).  Outcomes: ROk bytes | RErr kind (1 = Invalid unicode: ...,
   2 = encoding/hex invalid byte) | RPanic (slice or index out of range).
   As repaired by commit d9436d51b: the backslash-u bound is `i+5 > len(s)` (fewer than four bytes left: error 1),
   decodeEscapedUnicode returns the Invalid unicode error for surrogate halves (utf8.RuneLen < 0), UnquoteBytes keeps a
   trailing backslash and stops.  No path yields RPanic any more; the constructor stays so that a returning crash is
   a correspondence mismatch.  Quirks kept: UnquoteBytes advances its output index by one after writing a multi-byte
   backslash-u result; quotes are stripped AFTER unescaping.
   UnquoteBytes is modelled for a slice whose capacity equals its length. *)
From Coq Require Import List NArith Bool Arith Lia.
Import ListNotations.
From GMS Require Import Codec.Charset.   (* utf8_width: size result of unicode/utf8.DecodeRune *)
Open Scope N_scope.

Inductive rres : Type := ROk (s : list N) | RErr (kind : N) | RPanic.

Definition rcons (pre : list N) (r : rres) : rres :=
  match r with ROk s => ROk (pre ++ s) | e => e end.

(* encoding/hex reverseHexTable *)
Definition hexval (c : N) : option N :=
  if (48 <=? c) && (c <=? 57) then Some (c - 48)
  else if (97 <=? c) && (c <=? 102) then Some (c - 87)
  else if (65 <=? c) && (c <=? 70) then Some (c - 55)
  else None.

(* utf8.EncodeRune for a 16-bit value that is not a surrogate *)
Definition utf8_encode16 (u : N) : list N :=
  if u <? 128 then [u]
  else if u <? 2048 then [192 + u / 64; 128 + u mod 64]
  else [224 + u / 4096; 128 + (u / 64) mod 64; 128 + u mod 64].

(* decodeEscapedUnicode on the four bytes after \u *)
Definition decode4 (a b c d : N) : rres :=
  match hexval a, hexval b with
  | Some ha, Some hb =>
      match hexval c, hexval d with
      | Some hc, Some hd =>
          let u := (ha * 16 + hb) * 256 + hc * 16 + hd in
          if (55296 <=? u) && (u <=? 57343) then RErr 1       (* utf8.RuneLen < 0: Invalid unicode *)
          else ROk (utf8_encode16 u)
      | _, _ => RErr 2
      end
  | _, _ => RErr 2
  end.

Definition unesc (c : N) : N :=
  if c =? 98 then 8 else if c =? 102 then 12 else if c =? 110 then 10 else if c =? 114 then 13
  else if c =? 116 then 9 else c.       (* the quote character, the backslash and every other byte stand for themselves *)

(* the loop of Unquote; the result is the buffer before the surrounding quotes are removed *)
Fixpoint unq (s : list N) : rres :=
  match s with
  | [] => ROk []
  | x :: t =>
      if x =? 92 then
        match t with
        | [] => ROk [92]
        | c :: t' =>
            if c =? 117 then
              match t' with
              | a :: b :: c2 :: d :: rest =>
                  match decode4 a b c2 d with
                  | ROk bytes => rcons bytes (unq rest)
                  | e => e
                  end
              | _ => RErr 1                  (* i+5 > len(s) *)
              end
            else rcons [unesc c] (unq t')
        end
      else rcons [x] (unq t)
  end.

(* the loop of UnquoteBytes (capacity = length) *)
Fixpoint unqb (s : list N) : rres :=
  match s with
  | [] => ROk []
  | x :: t =>
      if x =? 92 then
        match t with
        | [] => ROk [92]                     (* the backslash is kept and the loop ends *)
        | c :: t' =>
            if c =? 117 then
              match t' with
              | a :: b :: c2 :: d :: rest =>
                  match decode4 a b c2 d with
                  | ROk bytes => rcons (firstn 1 bytes) (unqb rest)   (* outIdx++ once: only the first byte survives *)
                  | e => e
                  end
              | _ => RErr 1
              end
            else rcons [unesc c] (unqb t')
        end
      else rcons [x] (unqb t)
  end.

(* remove the prefix and suffix quote character (34) when the length exceeds one *)
Definition strip (str : list N) : list N :=
  match str with
  | h :: t =>
      match rev t with
      | l :: m => if (h =? 34) && (l =? 34) then rev m else str
      | [] => str
      end
  | [] => str
  end.

Definition finish (r : rres) : rres := match r with ROk s => ROk (strip s) | e => e end.
Definition unquote (s : list N) : rres := finish (unq s).
Definition unquote_bytes (s : list N) : rres := finish (unqb s).

(* ---------- Quote ---------- *)
Definition hexdigit (d : N) : N := if d <? 10 then 48 + d else 87 + d.

Definition esc (b : N) : list N :=
  if b =? 34 then [92; 34] else if b =? 92 then [92; 92]
  else if b =? 8 then [92; 98] else if b =? 12 then [92; 102] else if b =? 10 then [92; 110]
  else if b =? 13 then [92; 114] else if b =? 9 then [92; 116]
  else if b <? 32 then [92; 117; 48; 48; hexdigit (b / 16); hexdigit (b mod 16)]
  else [b].

Definition fffd_escape : list N := [92; 117; 102; 102; 102; 100].
Definition fffd_bytes : list N := [239; 191; 189].

(* k = number of continuation bytes of the current rune still to be copied unchanged *)
Fixpoint qbody (k : nat) (s : list N) : list N :=
  match s with
  | [] => []
  | b :: t =>
      match k with
      | S k' => b :: qbody k' t
      | O =>
          if b <? 128 then esc b ++ qbody 0 t
          else match utf8_width s with
               | S (S w) => b :: qbody (S w) t
               | _ => fffd_escape ++ qbody 0 t         (* RuneError with size 1 *)
               end
      end
  end.

Definition quote (s : list N) : list N := 34 :: qbody 0 s ++ [34].

(* what survives a Quote/Unquote round trip: every byte that is not part of a valid UTF-8 sequence
   (as utf8.DecodeRune sees it) becomes U+FFFD *)
Fixpoint sanitize (k : nat) (s : list N) : list N :=
  match s with
  | [] => []
  | b :: t =>
      match k with
      | S k' => b :: sanitize k' t
      | O =>
          if b <? 128 then b :: sanitize 0 t
          else match utf8_width s with
               | S (S w) => b :: sanitize (S w) t
               | _ => fffd_bytes ++ sanitize 0 t
               end
      end
  end.

(* valid UTF-8 in the sense of utf8.DecodeRune: no lead position decodes to (RuneError, 1) *)
Fixpoint utf8_ok (k : nat) (s : list N) : bool :=
  match s with
  | [] => true
  | b :: t =>
      match k with
      | S k' => utf8_ok k' t
      | O =>
          if b <? 128 then utf8_ok 0 t
          else match utf8_width s with
               | S (S w) => utf8_ok (S w) t
               | _ => false
               end
      end
  end.
