(* C28 -- proofs about the binary-protocol model, part 2: DATETIME(n)/TIMESTAMP(n) (7- and 11-byte structs) and TIME
   (12-byte struct): text -> vitess encoder -> client reader gives the stored instant. *)
From Coq Require Import List NArith ZArith Bool Lia Arith.
Import ListNotations.
From GMS Require Import Codec.C28Date Codec.C28DateProofs Codec.C28Wire Codec.C28WireProofs Codec.C28WireProofs2
  Codec.C28Bin Codec.C28BinProofs.
Open Scope Z_scope.

(* ---------- helpers ---------- *)
Lemma all_digits_padn n : forall v, all_digits (padn n v).
Proof.
  induction n as [|n IH]; intros v; cbn [padn]; [constructor|].
  apply Forall_app. split; [apply IH|]. constructor; [|constructor].
  exists (v mod 10). split; [pose proof (Z.mod_pos_bound v 10 ltac:(lia)); lia|reflexivity].
Qed.

Lemma all_digits_ne c s : all_digits s -> (c < 48 \/ 57 < c)%N -> Forall (fun x => (x =? c)%N = false) s.
Proof.
  intros H Hc. eapply Forall_impl; [|exact H]. cbn. intros x (d & Hd & ->). unfold digit_char. apply N.eqb_neq. lia.
Qed.

Lemma split_at_found c a : Forall (fun x => (x =? c)%N = false) a -> forall r, split_at c (a ++ c :: r) = (a, Some r).
Proof.
  induction 1 as [|x a Hx _ IH]; intros r; cbn [app split_at]; [now rewrite N.eqb_refl|]. now rewrite Hx, IH.
Qed.
Lemma split_at_none c a : Forall (fun x => (x =? c)%N = false) a -> split_at c a = (a, None).
Proof. induction 1 as [|x a Hx _ IH]; cbn [split_at]; [reflexivity|]. now rewrite Hx, IH. Qed.

Lemma pad6_short k : forall s, (length s <= k)%nat -> pad6 k s = s ++ repeat 48%N (k - length s).
Proof.
  induction k as [|k IH]; intros s Hl.
  - destruct s; [reflexivity|cbn in Hl; lia].
  - destruct s as [|c r]; cbn [pad6 length].
    + rewrite (IH [] ltac:(cbn; lia)). cbn [length app]. rewrite Nat.sub_0_r. reflexivity.
    + rewrite (IH r ltac:(cbn in Hl; lia)). reflexivity.
Qed.

Lemma frac_value n us : (n <= 6)%nat -> 0 <= us < us_per_sec -> us mod frac_unit n = 0 ->
  0 <= us / frac_unit n < 10 ^ Z.of_nat n /\ us = (us / frac_unit n) * 10 ^ (6 - Z.of_nat n).
Proof.
  intros Hn Hus Hm.
  assert (Hu : 0 < frac_unit n) by (unfold frac_unit; apply Z.pow_pos_nonneg; lia).
  assert (Hprod : frac_unit n * 10 ^ Z.of_nat n = us_per_sec).
  { unfold frac_unit, us_per_sec. rewrite <- Z.pow_add_r by lia. replace (6 - Z.of_nat n + Z.of_nat n) with 6 by lia. reflexivity. }
  split.
  - split; [apply Z.div_pos; lia|]. apply Z.div_lt_upper_bound; lia.
  - fold (frac_unit n). pose proof (Z.div_mod us (frac_unit n) ltac:(lia)). lia.
Qed.

Lemma parse_pad6_padn n v : (1 <= n <= 6)%nat -> 0 <= v < 10 ^ Z.of_nat n ->
  parse_uint (pad6 6 (padn n v)) = Some (v * 10 ^ (6 - Z.of_nat n)).
Proof.
  intros Hn Hv. destruct (padn_spec n v 0 Hv) as [P1 P2].
  rewrite pad6_short by lia. rewrite P2. unfold parse_uint.
  destruct (padn n v ++ repeat 48%N (6 - n)) eqn:E.
  { apply app_eq_nil in E. destruct E as [E _]. rewrite E in P2. cbn in P2. lia. }
  rewrite <- E, parse_digits_app, P1, parse_digits_zeros. f_equal. rewrite Z.mul_0_l, Z.add_0_l.
  f_equal. f_equal. lia.
Qed.

Lemma le4_decode u : 0 <= u < 2 ^ 32 -> le_decode (le_bytes 4 u) = u.
Proof. intros H. rewrite le_decode_bytes by lia. change (256 ^ Z.of_nat 4) with (2 ^ 32). apply Z.mod_small; lia. Qed.

Lemma byte_ok_true v : 0 <= v < 256 -> ob (Some v) = Some v.
Proof. intros H. unfold ob, byte_ok. now replace ((0 <=? v) && (v <? 256)) with true by (symmetry; apply andb_true_intro; split; [apply Z.leb_le|apply Z.ltb_lt]; lia). Qed.

(* ---------- DATETIME(n): the text in full ---------- *)
Lemma datetime_shape n x : datetime_storable n x ->
  exists y m d h mi se us a b c e,
    1000 <= y <= 9999 /\ 1 <= m <= 12 /\ 1 <= d <= 31 /\ 0 <= h < 24 /\ 0 <= mi < 60 /\ 0 <= se < 60 /\
    0 <= us < us_per_sec /\ us mod frac_unit n = 0 /\
    x = days_from_civil (y, m, d) * us_per_day + (h * 3600000000 + mi * 60000000 + se * us_per_sec + us) /\
    d4 a b c e = Some y /\
    datetime_sql_text n x =
      Some ([a; b; c; e] ++ [45%N] ++ pad2 m ++ [45%N] ++ pad2 d ++ [32%N] ++
            (pad2 h ++ [58%N] ++ pad2 mi ++ [58%N] ++ pad2 se) ++ frac_text n us).
Proof.
  intros (Hn & Hm & Hz & Hy & Hr). unfold datetime_sql_text.
  replace (x =? zero_time_us) with false by (symmetry; now apply Z.eqb_neq).
  rewrite (round_us_id n x Hn Hm). cbv zeta. rewrite Hr. cbn [negb].
  unfold year_of_us in Hy.
  destruct (days_civil_days (x / us_per_day)) as [R1 R2].
  destruct (civil_from_days (x / us_per_day)) as [[y m] d] eqn:Ec.
  assert (Hv := R2). unfold valid_date in Hv.
  repeat (apply andb_prop in Hv; destruct Hv as [Hv ?]).
  repeat match goal with H : (_ <=? _) = true |- _ => apply Z.leb_le in H end.
  assert (Hd31 : d <= 31).
  { assert (days_in_month y m <= 31) by (unfold days_in_month; repeat destruct (_ =? _); try destruct (is_leap y); cbn; lia). lia. }
  destruct (year4 y (or_intror Hy)) as (a & b & c & e & Ey & E4).
  set (tod := x mod us_per_day).
  assert (Htod : 0 <= tod < us_per_day) by (apply Z.mod_pos_bound; unfold us_per_day; lia).
  destruct (tod_split tod ltac:(lia)) as (Hsplit & Hmi & Hse & Hus).
  set (h := tod / 3600000000) in *. set (mi := tod / 60000000 mod 60) in *.
  set (se := tod / us_per_sec mod 60) in *. set (us := tod mod us_per_sec) in *.
  assert (Hh : 0 <= h < 24).
  { unfold h. split; [apply Z.div_pos; lia|apply Z.div_lt_upper_bound; unfold us_per_day in *; lia]. }
  assert (Hxd : x = x / us_per_day * us_per_day + tod).
  { unfold tod. pose proof (Z.div_mod x us_per_day ltac:(unfold us_per_day; lia)). lia. }
  assert (Husm : us mod frac_unit n = 0).
  { destruct (frac_unit_divides n Hn) as (k & Hk & Hkp).
    assert (Hu : 0 < frac_unit n) by (unfold frac_unit; apply Z.pow_pos_nonneg; lia).
    assert (Ex : x = us + (x / us_per_day * 86400 * k + (tod / us_per_sec) * k) * frac_unit n).
    { pose proof (Z.div_mod tod us_per_sec ltac:(unfold us_per_sec; lia)) as Hds. fold us in Hds.
      assert (Hpd : us_per_day = 86400 * us_per_sec) by reflexivity.
      set (D := x / us_per_day) in *. set (S := tod / us_per_sec) in *. set (U := frac_unit n) in *.
      assert (E1 : x = D * (86400 * (k * U)) + ((k * U) * S + us)) by (rewrite <- Hk, <- Hpd, <- Hds; exact Hxd).
      rewrite E1 at 1. ring. }
    rewrite Ex in Hm. rewrite Z.mod_add in Hm by lia. exact Hm. }
  rewrite (clock_text_2 h mi se) by lia.
  exists y, m, d, h, mi, se, us, a, b, c, e.
  do 7 (split; [lia|]). split; [exact Husm|]. split; [rewrite R1; lia|]. split; [exact E4|].
  unfold civil_text. rewrite Ey. rewrite <- !app_assoc. reflexivity.
Qed.

Theorem datetime_binary_roundtrip n x : datetime_storable n x ->
  exists t b, datetime_sql_text n x = Some t /\ datetime_bin t = Some b /\ datetime_bin_decode b = Some x /\
              length b = (match n with O => 8 | _ => 12 end)%nat.
Proof.
  intros Hs. pose proof Hs as (Hn & _).
  destruct (datetime_shape n x Hs) as (y & m & d & h & mi & se & us & a & b & c & e &
    Hy & Hm & Hd & Hh & Hmi & Hse & Hus & Husm & Hx & E4 & Et).
  assert (Hy16 : 0 <= y < 65536) by lia.
  destruct (le_bytes 2 y) as [|y0 [|y1 [|]]] eqn:El; try (pose proof (le_bytes_length 2 y) as L; rewrite El in L; discriminate L).
  assert (Hdec : forall tv, tv = h * 3600000000 + mi * 60000000 + se * us_per_sec + us ->
     (if (le_decode [y0; y1] =? 0) && (Z.to_N m =? 0)%N && (Z.to_N d =? 0)%N then zero_time_us
      else days_from_civil (le_decode [y0; y1], Z.of_N (Z.to_N m), Z.of_N (Z.to_N d)) * us_per_day) + tv = x).
  { intros tv ->. rewrite (le2_decode y Hy16 y0 y1 El).
    replace (Z.to_N m =? 0)%N with false by (symmetry; apply N.eqb_neq; lia).
    rewrite andb_false_r. cbn [andb]. rewrite !Z2N.id by lia. lia. }
  destruct (frac_value n us Hn Hus Husm) as [Hv Hval].
  destruct n as [|n'].
  - (* 19 bytes: the 7-byte struct *)
    assert (Hus0 : us = 0).
    { assert (Hfu : frac_unit 0 = us_per_sec) by reflexivity. rewrite Hfu in Husm. rewrite Z.mod_small in Husm by exact Hus. exact Husm. }
    eexists. exists (7%N :: [y0; y1] ++ [Z.to_N m; Z.to_N d; Z.to_N h; Z.to_N mi; Z.to_N se]).
    split; [exact Et|]. unfold pad2. cbn [app]. unfold datetime_bin.
    cbn [frac_text app length Nat.ltb Nat.leb].
    fold (pad2 se). rewrite E4, !d2_pad2, parse_uint_pad2 by lia. rewrite byte_ok_true by lia.
    rewrite El. cbn [app]. split; [reflexivity|]. split; [|reflexivity].
    unfold datetime_bin_decode. rewrite N.eqb_refl, !Z2N.id by lia. f_equal.
    pose proof (Hdec _ eq_refl) as Hd'. rewrite !Z2N.id in Hd' by lia.
    set (B := if (_ && _ && _)%bool then zero_time_us else _) in *. lia.
  - (* 20 + n bytes: the 11-byte struct *)
    assert (Hus32 : 0 <= us < 2 ^ 32) by (unfold us_per_sec in Hus; lia).
    destruct (le_bytes 4 us) as [|u0 [|u1 [|u2 [|u3 [|]]]]] eqn:E4u; try (pose proof (le_bytes_length 4 us) as L; rewrite E4u in L; discriminate L).
    eexists. exists (11%N :: [y0; y1] ++ [Z.to_N m; Z.to_N d; Z.to_N h; Z.to_N mi; Z.to_N se] ++ [u0; u1; u2; u3]).
    split; [exact Et|]. unfold pad2. cbn [app frac_text]. unfold datetime_bin.
    cbn [length]. rewrite padn_length.
    replace (19 <? S (S (S (S (S (S (S (S (S (S (S (S (S (S (S (S (S (S (S (S (S n')))))))))))))))))))))%nat with true
      by (symmetry; apply Nat.ltb_lt; lia).
    rewrite E4, !d2_pad2 by lia. rewrite parse_pad6_padn by (lia || exact Hv).
    rewrite <- Hval, El, E4u. cbn [app]. split; [reflexivity|]. split; [|reflexivity].
    unfold datetime_bin_decode. rewrite N.eqb_refl, !Z2N.id by lia. f_equal.
    rewrite <- E4u, le4_decode by exact Hus32.
    pose proof (Hdec _ eq_refl) as Hd'. rewrite !Z2N.id in Hd' by lia.
    set (B := if (_ && _ && _)%bool then zero_time_us else _) in *. lia.
Qed.

(* ---------- TIME ---------- *)
Lemma beqb_len_ne a : forall b, length a <> length b -> beqb a b = false.
Proof.
  induction a as [|x a IH]; intros [|y b] H; cbn [beqb]; try reflexivity; [cbn in H; lia|].
  rewrite IH by (cbn in H; lia). apply andb_false_r.
Qed.

Lemma hours_digits h : 0 <= h ->
  let H := (if h <? 10 then [48%N] else []) ++ format_int h in
  all_digits H /\ H <> [] /\ parse_uint H = Some h.
Proof.
  intros Hh. cbv zeta. unfold format_int. replace (h <? 0) with false by (symmetry; apply Z.ltb_ge; lia).
  destruct (format_uint_spec h Hh) as (P1 & P2 & P3).
  assert (A : all_digits ((if h <? 10 then [48%N] else []) ++ format_uint h)).
  { apply Forall_app. split; [|exact P3]. destruct (h <? 10); [|constructor]. constructor; [|constructor]. exists 0. split; [lia|reflexivity]. }
  split; [exact A|]. split.
  - intros C. apply app_eq_nil in C. destruct C. contradiction.
  - unfold parse_uint. destruct ((if h <? 10 then [48%N] else []) ++ format_uint h) eqn:E.
    { apply app_eq_nil in E. destruct E. contradiction. }
    rewrite <- E. destruct (h <? 10).
    + change [48%N] with (repeat 48%N 1). rewrite parse_digits_lead0. exact P1.
    + exact P1.
Qed.

Theorem time_binary_roundtrip x : - time_max_us <= x <= time_max_us ->
  exists b, time_bin (time_sql_text x) = Some b /\ time_bin_decode b = Some x /\ length b = 13%nat.
Proof.
  intros Hx. unfold time_sql_text, time_max_us in *. set (a := Z.abs x).
  assert (Ha : 0 <= a <= 3020399000000) by (unfold a; lia).
  destruct (tod_split a ltac:(lia)) as (Hsplit & Hmi & Hse & Hus).
  set (h := a / 3600000000) in *. set (mi := a / 60000000 mod 60) in *.
  set (se := a / us_per_sec mod 60) in *. set (us := a mod us_per_sec) in *.
  assert (Hh : 0 <= h <= 838).
  { unfold h. split; [apply Z.div_pos; lia|]. assert (a / 3600000000 < 839) by (apply Z.div_lt_upper_bound; lia). lia. }
  destruct (hours_digits h ltac:(lia)) as (HA & HN & HP). cbv zeta in HA, HN, HP.
  unfold clock_text. set (Hd := (if h <? 10 then [48%N] else []) ++ format_int h) in *.
  set (sg := if x <? 0 then [45%N] else []).
  set (p2 := pad2 se ++ 46%N :: padn 6 us).
  assert (Etxt : sg ++ ((if h <? 10 then [48%N] else []) ++ format_int h ++ [58%N] ++ pad2 mi ++ [58%N] ++ pad2 se) ++ frac_text 6 us
                 = (sg ++ Hd) ++ 58%N :: pad2 mi ++ 58%N :: p2).
  { unfold Hd, p2, frac_text. change (frac_unit 6) with 1. rewrite Z.div_1_r. rewrite <- !app_assoc. reflexivity. }
  rewrite Etxt. clear Etxt.
  assert (D58 : forall l, all_digits l -> Forall (fun c => (c =? 58)%N = false) l) by (intros l Hl; apply all_digits_ne; [exact Hl|lia]).
  assert (D46 : forall l, all_digits l -> Forall (fun c => (c =? 46)%N = false) l) by (intros l Hl; apply all_digits_ne; [exact Hl|lia]).
  assert (Apad : forall z, 0 <= z <= 99 -> all_digits (pad2 z)).
  { intros z Hz. unfold pad2. pose proof (Z.mod_pos_bound z 10 ltac:(lia)).
    assert (0 <= z / 10 < 10) by (split; [apply Z.div_pos; lia|apply Z.div_lt_upper_bound; lia]).
    constructor; [exists (z / 10); split; [lia|reflexivity]|]. constructor; [exists (z mod 10); split; [lia|reflexivity]|constructor]. }
  assert (F0 : Forall (fun c => (c =? 58)%N = false) (sg ++ Hd)).
  { apply Forall_app. split; [unfold sg; destruct (x <? 0); repeat constructor|apply D58; exact HA]. }
  assert (F2 : Forall (fun c => (c =? 58)%N = false) p2).
  { unfold p2. apply Forall_app. split; [apply D58, Apad; lia|]. constructor; [reflexivity|apply D58, all_digits_padn]. }
  unfold time_bin.
  rewrite beqb_len_ne.
  2:{ unfold p2, pad2. repeat (rewrite app_length || cbn [length]). rewrite padn_length. lia. }
  rewrite (split_at_found 58 (sg ++ Hd) F0).
  rewrite (split_at_found 58 (pad2 mi) (D58 _ (Apad mi ltac:(lia)))).
  rewrite (split_at_none 58 p2 F2).
  assert (Esign : (match sg ++ Hd with c :: r => if (c =? 45)%N then (1%N, r) else (0%N, sg ++ Hd) | [] => (0%N, sg ++ Hd) end)
                  = ((if x <? 0 then 1%N else 0%N), Hd)).
  { unfold sg. destruct (x <? 0); cbn [app]; [reflexivity|].
    destruct Hd as [|c0 r0]; [contradiction|]. destruct (all_digits_head _ _ HA) as (H45 & _). now rewrite H45. }
  unfold bytes in *. rewrite Esign, HP, parse_uint_pad2, byte_ok_true by lia.
  replace (h <? 2 ^ 32) with true by (symmetry; apply Z.ltb_lt; lia).
  unfold p2. rewrite (split_at_found 46 (pad2 se) (D46 _ (Apad se ltac:(lia)))).
  rewrite (split_at_none 46 _ (D46 _ (all_digits_padn 6 us))).
  rewrite parse_uint_pad2, byte_ok_true by lia.
  rewrite parse_pad6_padn by (try lia; change (10 ^ Z.of_nat 6) with us_per_sec; lia).
  change (10 ^ (6 - Z.of_nat 6)) with 1. rewrite Z.mul_1_r.
  eexists. split; [reflexivity|].
  assert (Hd24 : 0 <= h / 24 < 2 ^ 32) by (split; [apply Z.div_pos; lia|apply Z.div_lt_upper_bound; lia]).
  assert (Hus32 : 0 <= us < 2 ^ 32) by (unfold us_per_sec in Hus; lia).
  pose proof (Z.div_mod h 24 ltac:(lia)) as Hdm. pose proof (Z.mod_pos_bound h 24 ltac:(lia)) as Hmb.
  destruct (le_bytes 4 (h / 24)) as [|d0 [|d1 [|d2' [|d3 [|]]]]] eqn:Ed; try (pose proof (le_bytes_length 4 (h / 24)) as L; rewrite Ed in L; discriminate L).
  destruct (le_bytes 4 us) as [|u0 [|u1 [|u2 [|u3 [|]]]]] eqn:Eu; try (pose proof (le_bytes_length 4 us) as L; rewrite Eu in L; discriminate L).
  cbn [app]. split; [|reflexivity].
  unfold time_bin_decode. rewrite N.eqb_refl, <- Ed, <- Eu, !le4_decode by lia. rewrite !Z2N.id by lia.
  f_equal. unfold a, us_per_sec in *.
  destruct (x <? 0) eqn:Es; [apply Z.ltb_lt in Es|apply Z.ltb_ge in Es]; cbn [N.eqb]; lia.
Qed.
