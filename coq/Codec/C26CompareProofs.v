(* C26 — proofs about the Compare model of Codec/C26Compare.v *)
From Coq Require Import ZArith Bool List Lia.
Import ListNotations.
From GMS Require Import Codec.C25Arith Codec.C25ArithProofs Codec.C27Convert Codec.C26Compare.
Open Scope Z_scope.

Lemma sgn_cmp_spec a b :
  (a < b /\ sgn_cmp a b = -1) \/ (a = b /\ sgn_cmp a b = 0) \/ (b < a /\ sgn_cmp a b = 1).
Proof. unfold sgn_cmp. destruct (Z.compare_spec a b); [right; left|left|right; right]; split; auto. Qed.

(* well-formed: decimal scales are non-negative *)
Definition wf_val (v : value) : Prop := match v with SD _ s => 0 <= s | _ => True end.
Definition wf (c : cval) : Prop := match c with CNull => True | CV v => wf_val v end.
Definition wf_type (t : ctype) : Prop := match t with CInt _ => True | CDec s _ => 0 <= s end.

Lemma key_dec_scale s col v : 0 <= s -> wf_val v -> 0 <= snd (key_dec s col v).
Proof.
  intros Hs Hv. unfold key_dec. destruct v as [z|z|z|m s0]; cbn [to_dec wf_val] in *;
    match goal with |- context [if ?c then _ else _] => destruct c end; cbn [snd]; lia.
Qed.

(* comparing decimals by cross-multiplication is a total preorder on pairs with non-negative scale *)
Lemma cmp_dec_refl a : cmp_dec a a = 0.
Proof. destruct a as [m s]. unfold cmp_dec. destruct (sgn_cmp_spec (m * 10 ^ s) (m * 10 ^ s)) as [[H _]|[[_ H]|[H _]]]; lia. Qed.

Lemma cmp_dec_antisym a b : cmp_dec a b = - cmp_dec b a.
Proof.
  destruct a as [m1 s1], b as [m2 s2]. unfold cmp_dec.
  destruct (sgn_cmp_spec (m1 * 10 ^ s2) (m2 * 10 ^ s1)) as [[H ->]|[[H ->]|[H ->]]];
    destruct (sgn_cmp_spec (m2 * 10 ^ s1) (m1 * 10 ^ s2)) as [[G ->]|[[G ->]|[G ->]]]; lia.
Qed.

Lemma cmp_dec_le a b : 0 <= snd a -> 0 <= snd b ->
  (cmp_dec a b <= 0 <-> fst a * 10 ^ snd b <= fst b * 10 ^ snd a) /\
  (cmp_dec a b = 0 <-> fst a * 10 ^ snd b = fst b * 10 ^ snd a).
Proof.
  destruct a as [m1 s1], b as [m2 s2]. cbn [fst snd]. intros _ _. unfold cmp_dec.
  destruct (sgn_cmp_spec (m1 * 10 ^ s2) (m2 * 10 ^ s1)) as [[H ->]|[[H ->]|[H ->]]]; split; split; intros; lia.
Qed.

Lemma cmp_dec_trans a b c : 0 <= snd a -> 0 <= snd b -> 0 <= snd c ->
  cmp_dec a b <= 0 -> cmp_dec b c <= 0 -> cmp_dec a c <= 0.
Proof.
  intros Ha Hb Hc H1 H2.
  apply (proj1 (cmp_dec_le a b Ha Hb)) in H1. apply (proj1 (cmp_dec_le b c Hb Hc)) in H2.
  apply (proj1 (cmp_dec_le a c Ha Hc)).
  destruct a as [m1 s1], b as [m2 s2], c as [m3 s3]; cbn [fst snd] in *.
  pose proof (pow10_pos s1 Ha). pose proof (pow10_pos s2 Hb). pose proof (pow10_pos s3 Hc).
  apply Z.mul_le_mono_pos_r with (p := 10 ^ s2); [lia|].
  transitivity (m2 * 10 ^ s1 * 10 ^ s3); [|nia]. nia.
Qed.

Lemma cmp_dec_eq_trans a b c : 0 <= snd a -> 0 <= snd b -> 0 <= snd c ->
  cmp_dec a b = 0 -> cmp_dec b c = 0 -> cmp_dec a c = 0.
Proof.
  intros Ha Hb Hc H1 H2.
  apply (proj2 (cmp_dec_le a b Ha Hb)) in H1. apply (proj2 (cmp_dec_le b c Hb Hc)) in H2.
  apply (proj2 (cmp_dec_le a c Ha Hc)).
  destruct a as [m1 s1], b as [m2 s2], c as [m3 s3]; cbn [fst snd] in *.
  pose proof (pow10_pos s2 Hb).
  apply Z.mul_cancel_r with (p := 10 ^ s2); [lia|]. nia.
Qed.

(* ---------- the order laws, for every modelled type and all values including NULL ---------- *)
Theorem compare_refl t a : compare t a a = 0.
Proof.
  destruct a as [|x]; [reflexivity|]. destruct t as [it|s col]; cbn [compare].
  - destruct (sgn_cmp_spec (key_int it x) (key_int it x)) as [[H _]|[[_ H]|[H _]]]; lia.
  - apply cmp_dec_refl.
Qed.

Theorem compare_antisym t a b : compare t a b = - compare t b a.
Proof.
  destruct a as [|x], b as [|y]; try reflexivity. destruct t as [it|s col]; cbn [compare].
  - destruct (sgn_cmp_spec (key_int it x) (key_int it y)) as [[H ->]|[[H ->]|[H ->]]];
      destruct (sgn_cmp_spec (key_int it y) (key_int it x)) as [[G ->]|[[G ->]|[G ->]]]; lia.
  - apply cmp_dec_antisym.
Qed.

Theorem compare_trans t a b c :
  wf_type t -> wf a -> wf b -> wf c ->
  compare t a b <= 0 -> compare t b c <= 0 -> compare t a c <= 0.
Proof.
  intros Ht Ha Hb Hc. destruct a as [|x], b as [|y], c as [|z]; cbn [compare]; try lia.
  destruct t as [it|s col]; cbn [wf_type wf] in *.
  - destruct (sgn_cmp_spec (key_int it x) (key_int it y)) as [[H ->]|[[H ->]|[H ->]]];
      destruct (sgn_cmp_spec (key_int it y) (key_int it z)) as [[G ->]|[[G ->]|[G ->]]];
      destruct (sgn_cmp_spec (key_int it x) (key_int it z)) as [[K ->]|[[K ->]|[K ->]]]; lia.
  - apply cmp_dec_trans; apply key_dec_scale; assumption.
Qed.

Theorem compare_eq_trans t a b c :
  wf_type t -> wf a -> wf b -> wf c ->
  compare t a b = 0 -> compare t b c = 0 -> compare t a c = 0.
Proof.
  intros Ht Ha Hb Hc. destruct a as [|x], b as [|y], c as [|z]; cbn [compare]; try lia.
  destruct t as [it|s col]; cbn [wf_type wf] in *.
  - destruct (sgn_cmp_spec (key_int it x) (key_int it y)) as [[H ->]|[[H ->]|[H ->]]];
      destruct (sgn_cmp_spec (key_int it y) (key_int it z)) as [[G ->]|[[G ->]|[G ->]]];
      destruct (sgn_cmp_spec (key_int it x) (key_int it z)) as [[K ->]|[[K ->]|[K ->]]]; lia.
  - apply cmp_dec_eq_trans; apply key_dec_scale; assumption.
Qed.

Theorem compare_total t a b : compare t a b = -1 \/ compare t a b = 0 \/ compare t a b = 1.
Proof.
  destruct a as [|x], b as [|y]; cbn [compare]; auto.
  destruct t as [it|s col].
  - destruct (sgn_cmp_spec (key_int it x) (key_int it y)) as [[_ ->]|[[_ ->]|[_ ->]]]; auto.
  - unfold cmp_dec. destruct (key_dec s col x) as [m1 s1], (key_dec s col y) as [m2 s2].
    destruct (sgn_cmp_spec (m1 * 10 ^ s2) (m2 * 10 ^ s1)) as [[_ ->]|[[_ ->]|[_ ->]]]; auto.
Qed.

(* NULL: CompareNulls puts NULL after every non-NULL value (consistently), not before *)
Theorem null_sorts_last t x : compare t CNull (CV x) = 1 /\ compare t (CV x) CNull = -1 /\ compare t CNull CNull = 0.
Proof. repeat split. Qed.

(* compare-after-convert: witnesses where Convert (in range) changes the comparison *)
Lemma via_convert_unsigned_negative_fraction :
  compare (CInt U32) (CV (SD (-499) 3)) (CV (SU 37)) = 1 /\
  conv_int U32 (SD (-499) 3) = COk (SU 0) InRange /\ conv_int U32 (SU 37) = COk (SU 37) InRange /\
  compare (CInt U32) (CV (SU 0)) (CV (SU 37)) = -1.
Proof. repeat split; vm_compute; reflexivity. Qed.

Lemma via_convert_noncolumn_decimal :
  compare (CDec 2 false) (CV (SD 1001 3)) (CV (SD 1002 3)) = -1 /\
  conv_dec 10 2 false (SD 1001 3) = COk (SD 100 2) InRange /\ conv_dec 10 2 false (SD 1002 3) = COk (SD 100 2) InRange /\
  compare (CDec 2 false) (CV (SD 100 2)) (CV (SD 100 2)) = 0.
Proof. repeat split; vm_compute; reflexivity. Qed.

(* a column DECIMAL compares exactly as after Convert: both quantize to the column scale *)
Theorem via_convert_column_decimal p s x y x' y' fx fy :
  0 <= s -> wf_val x -> wf_val y ->
  conv_dec p s true x = COk x' fx -> conv_dec p s true y = COk y' fy ->
  compare (CDec s true) (CV x) (CV y) = compare (CDec s true) (CV x') (CV y').
Proof.
  intros Hs Hx Hy Ex Ey.
  assert (K : forall v v' f, wf_val v -> conv_dec p s true v = COk v' f -> key_dec s true v' = key_dec s true v).
  { intros v v' f Hv E. unfold conv_dec in E. unfold key_dec at 2.
    destruct (to_dec v) as [m0 s0]. cbn [andb] in *.
    destruct (negb ((s0 =? 0) && (s =? 0))) eqn:Z0; cbv beta iota zeta in E.
    - rewrite Z.gtb_ltb, Z.ltb_irrefl in E.
      destruct (Z.abs _ >=? _); [discriminate|]. injection E as <- _.
      unfold key_dec, to_dec. cbn [andb].
      destruct (negb ((s =? 0) && (s =? 0))); [|reflexivity]. unfold round_to at 1.
      rewrite Z.leb_refl, Z.sub_diag, Z.pow_0_r, Z.mul_1_r. reflexivity.
    - apply negb_false_iff, andb_true_iff in Z0. destruct Z0 as [Z1 Z2]. apply Z.eqb_eq in Z1, Z2. subst s0 s.
      change (0 >? 0) with false in E. cbv iota in E. destruct (Z.abs _ >=? _); [discriminate|].
      injection E as <- _. unfold key_dec, to_dec. reflexivity. }
  cbn [compare]. rewrite (K x x' fx Hx Ex), (K y y' fy Hy Ey). reflexivity.
Qed.

Lemma nonvacuous_compares :
  compare (CInt I8) (CV (SI 300)) (CV (SI 400)) = -1 /\
  compare (CInt I64) (CV (SU 9223372036854775808)) (CV (SU 18446744073709551615)) = 0 /\
  compare (CInt U8) (CV (SI (-1))) (CV (SU 255)) = 1 /\
  compare (CDec 2 true) (CV (SD 1001 3)) (CV (SD 1002 3)) = 0 /\
  compare (CDec 2 false) (CV (SI 1)) (CV (SD 10 1)) = 0.
Proof. repeat split; vm_compute; reflexivity. Qed.
