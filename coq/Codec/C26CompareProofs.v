(* C26 — proofs about the Compare model of Codec/C26Compare.v *)
From Coq Require Import ZArith Bool List Lia.
Import ListNotations.
From GMS Require Import Codec.C25Arith Codec.C25ArithProofs Codec.C27Convert Codec.C26Compare.
Open Scope Z_scope.

Lemma sgn_cmp_spec a b :
  (a < b /\ sgn_cmp a b = -1) \/ (a = b /\ sgn_cmp a b = 0) \/ (b < a /\ sgn_cmp a b = 1).
Proof. unfold sgn_cmp. destruct (Z.compare_spec a b); [right; left|left|right; right]; split; auto. Qed.

(* well-formed: decimal scales are non-negative, and the operand is of a kind the type compares
   (numbers for integer / DECIMAL types, temporal operands for temporal types, strings for the binary collation) *)
Definition wf_val (v : value) : Prop := match v with SD _ s => 0 <= s | _ => True end.
Definition numeric_type (t : ctype) : Prop := match t with CInt _ | CDec _ _ => True | _ => False end.
Definition wf_for (t : ctype) (c : cval) : Prop :=
  match c with
  | CNull => True
  | CV v => numeric_type t /\ wf_val v
  | CX x => match t with
            | CInt _ | CDec _ _ => False
            | CBin => match x with TStr _ => True | _ => False end
            | _ => True
            end
  end.
Definition wf_type (t : ctype) : Prop := match t with CDec s _ => 0 <= s | _ => True end.

Lemma key_dec_scale s col v : 0 <= s -> wf_val v -> 0 <= snd (key_dec s col v).
Proof.
  intros Hs Hv. unfold key_dec. destruct v as [z|z|z|m s0]; cbn [to_dec wf_val] in *;
    match goal with |- context [if ?c then _ else _] => destruct c end; cbn [snd]; lia.
Qed.

(* comparing decimals by cross-multiplication is a total preorder on pairs with non-negative scale *)
Lemma cmp_dec_refl a : cmp_dec a a = 0.
Proof. destruct a as [m s]. unfold cmp_dec. destruct (sgn_cmp_spec (m * 10 ^ s) (m * 10 ^ s)) as [[H _]|[[_ H]|[H _]]]; lia. Qed.

Lemma cmp_dec_antisym a b : cmp_dec a b = - cmp_dec b a.
Proof.
  destruct a as [m1 s1], b as [m2 s2]. unfold cmp_dec.
  destruct (sgn_cmp_spec (m1 * 10 ^ s2) (m2 * 10 ^ s1)) as [[H ->]|[[H ->]|[H ->]]];
    destruct (sgn_cmp_spec (m2 * 10 ^ s1) (m1 * 10 ^ s2)) as [[G ->]|[[G ->]|[G ->]]]; lia.
Qed.

Lemma cmp_dec_le a b : 0 <= snd a -> 0 <= snd b ->
  (cmp_dec a b <= 0 <-> fst a * 10 ^ snd b <= fst b * 10 ^ snd a) /\
  (cmp_dec a b = 0 <-> fst a * 10 ^ snd b = fst b * 10 ^ snd a).
Proof.
  destruct a as [m1 s1], b as [m2 s2]. cbn [fst snd]. intros _ _. unfold cmp_dec.
  destruct (sgn_cmp_spec (m1 * 10 ^ s2) (m2 * 10 ^ s1)) as [[H ->]|[[H ->]|[H ->]]]; split; split; intros; lia.
Qed.

Lemma cmp_dec_trans a b c : 0 <= snd a -> 0 <= snd b -> 0 <= snd c ->
  cmp_dec a b <= 0 -> cmp_dec b c <= 0 -> cmp_dec a c <= 0.
Proof.
  intros Ha Hb Hc H1 H2.
  apply (proj1 (cmp_dec_le a b Ha Hb)) in H1. apply (proj1 (cmp_dec_le b c Hb Hc)) in H2.
  apply (proj1 (cmp_dec_le a c Ha Hc)).
  destruct a as [m1 s1], b as [m2 s2], c as [m3 s3]; cbn [fst snd] in *.
  pose proof (pow10_pos s1 Ha). pose proof (pow10_pos s2 Hb). pose proof (pow10_pos s3 Hc).
  apply Z.mul_le_mono_pos_r with (p := 10 ^ s2); [lia|].
  transitivity (m2 * 10 ^ s1 * 10 ^ s3); [|nia]. nia.
Qed.

Lemma cmp_dec_eq_trans a b c : 0 <= snd a -> 0 <= snd b -> 0 <= snd c ->
  cmp_dec a b = 0 -> cmp_dec b c = 0 -> cmp_dec a c = 0.
Proof.
  intros Ha Hb Hc H1 H2.
  apply (proj2 (cmp_dec_le a b Ha Hb)) in H1. apply (proj2 (cmp_dec_le b c Hb Hc)) in H2.
  apply (proj2 (cmp_dec_le a c Ha Hc)).
  destruct a as [m1 s1], b as [m2 s2], c as [m3 s3]; cbn [fst snd] in *.
  pose proof (pow10_pos s2 Hb).
  apply Z.mul_cancel_r with (p := 10 ^ s2); [lia|]. nia.
Qed.

(* byte-wise lexicographic comparison is a total order *)
Lemma cmp_bytes_refl a : cmp_bytes a a = 0.
Proof. induction a as [|x a IH]; cbn [cmp_bytes]; [reflexivity|]. rewrite Z.compare_refl. exact IH. Qed.

Lemma cmp_bytes_antisym a : forall b, cmp_bytes a b = - cmp_bytes b a.
Proof.
  induction a as [|x a IH]; intros [|y b]; cbn [cmp_bytes]; try reflexivity.
  rewrite (Z.compare_antisym x y). destruct (x ?= y); cbn [CompOpp]; [apply IH|reflexivity|reflexivity].
Qed.

Lemma cmp_bytes_range a : forall b, cmp_bytes a b = -1 \/ cmp_bytes a b = 0 \/ cmp_bytes a b = 1.
Proof.
  induction a as [|x a IH]; intros [|y b]; cbn [cmp_bytes]; auto.
  destruct (x ?= y); auto.
Qed.

Lemma cmp_bytes_eq a : forall b, cmp_bytes a b = 0 -> a = b.
Proof.
  induction a as [|x a IH]; intros [|y b]; cbn [cmp_bytes]; intros H; try reflexivity; try discriminate.
  destruct (Z.compare_spec x y); try discriminate. subst. f_equal. apply IH. exact H.
Qed.

Lemma cmp_bytes_trans a : forall b c, cmp_bytes a b <= 0 -> cmp_bytes b c <= 0 -> cmp_bytes a c <= 0.
Proof.
  induction a as [|x a IH]; intros [|y b] [|z c]; cbn [cmp_bytes]; intros H1 H2; try lia.
  destruct (Z.compare_spec x y) as [E1|L1|G1]; destruct (Z.compare_spec y z) as [E2|L2|G2];
    destruct (Z.compare_spec x z) as [E3|L3|G3]; try lia.
  apply (IH b c); assumption.
Qed.

Lemma sgn_cmp_trans x y z : sgn_cmp x y <= 0 -> sgn_cmp y z <= 0 -> sgn_cmp x z <= 0.
Proof.
  destruct (sgn_cmp_spec x y) as [[H ->]|[[H ->]|[H ->]]];
    destruct (sgn_cmp_spec y z) as [[G ->]|[[G ->]|[G ->]]];
    destruct (sgn_cmp_spec x z) as [[K ->]|[[K ->]|[K ->]]]; lia.
Qed.
Lemma sgn_cmp_eq_trans x y z : sgn_cmp x y = 0 -> sgn_cmp y z = 0 -> sgn_cmp x z = 0.
Proof.
  destruct (sgn_cmp_spec x y) as [[H ->]|[[H ->]|[H ->]]];
    destruct (sgn_cmp_spec y z) as [[G ->]|[[G ->]|[G ->]]];
    destruct (sgn_cmp_spec x z) as [[K ->]|[[K ->]|[K ->]]]; lia.
Qed.
Lemma sgn_cmp_refl x : sgn_cmp x x = 0.
Proof. unfold sgn_cmp. rewrite Z.compare_refl. reflexivity. Qed.
Lemma sgn_cmp_antisym x y : sgn_cmp x y = - sgn_cmp y x.
Proof. unfold sgn_cmp. rewrite (Z.compare_antisym y x). destruct (y ?= x); reflexivity. Qed.

(* ---------- the order laws, for every modelled type and all values including NULL ---------- *)
Theorem compare_refl t a : compare t a a = 0.
Proof.
  destruct a as [|x|x]; [reflexivity| |].
  - destruct t; cbn [compare]; try reflexivity; [apply sgn_cmp_refl|apply cmp_dec_refl].
  - destruct t; cbn [compare]; try apply sgn_cmp_refl. destruct x; try reflexivity. apply cmp_bytes_refl.
Qed.

Theorem compare_antisym t a b : compare t a b = - compare t b a.
Proof.
  destruct a as [|x|x], b as [|y|y]; try reflexivity.
  - destruct t; cbn [compare]; try reflexivity; [apply sgn_cmp_antisym|apply cmp_dec_antisym].
  - destruct t; cbn [compare]; try apply sgn_cmp_antisym. destruct x, y; try reflexivity. apply cmp_bytes_antisym.
Qed.

Theorem compare_trans t a b c :
  wf_type t -> wf_for t a -> wf_for t b -> wf_for t c ->
  compare t a b <= 0 -> compare t b c <= 0 -> compare t a c <= 0.
Proof.
  intros Ht Ha Hb Hc.
  destruct a as [|x|x], b as [|y|y], c as [|z|z]; cbn [compare]; try lia;
    cbn [wf_for] in Ha, Hb, Hc; try (destruct t; cbn [numeric_type] in *; tauto).
  - (* numbers *) destruct t; cbn [numeric_type] in *; try tauto.
    + apply sgn_cmp_trans.
    + apply cmp_dec_trans; apply key_dec_scale; tauto.
  - (* temporal / strings *) destruct t; try tauto; try apply sgn_cmp_trans.
    destruct x, y, z; try tauto. apply cmp_bytes_trans.
Qed.

Theorem compare_eq_trans t a b c :
  wf_type t -> wf_for t a -> wf_for t b -> wf_for t c ->
  compare t a b = 0 -> compare t b c = 0 -> compare t a c = 0.
Proof.
  intros Ht Ha Hb Hc.
  destruct a as [|x|x], b as [|y|y], c as [|z|z]; cbn [compare]; try lia;
    cbn [wf_for] in Ha, Hb, Hc; try (destruct t; cbn [numeric_type] in *; tauto).
  - destruct t; cbn [numeric_type] in *; try tauto.
    + apply sgn_cmp_eq_trans.
    + apply cmp_dec_eq_trans; apply key_dec_scale; tauto.
  - destruct t; try tauto; try apply sgn_cmp_eq_trans.
    destruct x, y, z; try tauto. intros H1 H2. apply cmp_bytes_eq in H1, H2. subst. apply cmp_bytes_refl.
Qed.

Theorem compare_total t a b : compare t a b = -1 \/ compare t a b = 0 \/ compare t a b = 1.
Proof.
  assert (S : forall x y, sgn_cmp x y = -1 \/ sgn_cmp x y = 0 \/ sgn_cmp x y = 1).
  { intros x y. destruct (sgn_cmp_spec x y) as [[_ ->]|[[_ ->]|[_ ->]]]; auto. }
  destruct a as [|x|x], b as [|y|y]; cbn [compare]; auto.
  - destruct t; auto. unfold cmp_dec. destruct (key_dec s col x), (key_dec s col y). apply S.
  - destruct t; auto. destruct x, y; auto. apply cmp_bytes_range.
Qed.

(* under the binary collation two strings compare equal only if they are the same bytes *)
Theorem binary_compare_equal_iff p q : compare CBin (CX (TStr p)) (CX (TStr q)) = 0 <-> p = q.
Proof. cbn [compare]. split; [apply cmp_bytes_eq|intros ->; apply cmp_bytes_refl]. Qed.

(* NULL: CompareNulls puts NULL after every non-NULL value (consistently), not before *)
Theorem null_sorts_last t x :
  x <> CNull -> compare t CNull x = 1 /\ compare t x CNull = -1 /\ compare t CNull CNull = 0.
Proof. intros H. destruct x; [contradiction| |]; repeat split. Qed.

(* compare-after-convert: witnesses where Convert (in range) changes the comparison *)
Lemma via_convert_unsigned_negative_fraction :
  compare (CInt U32) (CV (SD (-499) 3)) (CV (SU 37)) = 1 /\
  conv_int U32 (SD (-499) 3) = COk (SU 0) InRange /\ conv_int U32 (SU 37) = COk (SU 37) InRange /\
  compare (CInt U32) (CV (SU 0)) (CV (SU 37)) = -1.
Proof. repeat split; vm_compute; reflexivity. Qed.

Lemma via_convert_noncolumn_decimal :
  compare (CDec 2 false) (CV (SD 1001 3)) (CV (SD 1002 3)) = -1 /\
  conv_dec 10 2 false (SD 1001 3) = COk (SD 100 2) InRange /\ conv_dec 10 2 false (SD 1002 3) = COk (SD 100 2) InRange /\
  compare (CDec 2 false) (CV (SD 100 2)) (CV (SD 100 2)) = 0.
Proof. repeat split; vm_compute; reflexivity. Qed.

(* a column DECIMAL compares exactly as after Convert: both quantize to the column scale *)
Theorem via_convert_column_decimal p s x y x' y' fx fy :
  0 <= s -> wf_val x -> wf_val y ->
  conv_dec p s true x = COk x' fx -> conv_dec p s true y = COk y' fy ->
  compare (CDec s true) (CV x) (CV y) = compare (CDec s true) (CV x') (CV y').
Proof.
  intros Hs Hx Hy Ex Ey.
  assert (K : forall v v' f, wf_val v -> conv_dec p s true v = COk v' f -> key_dec s true v' = key_dec s true v).
  { intros v v' f Hv E. unfold conv_dec in E. unfold key_dec at 2.
    destruct (to_dec v) as [m0 s0]. cbn [andb] in *.
    destruct (negb ((s0 =? 0) && (s =? 0))) eqn:Z0; cbv beta iota zeta in E.
    - rewrite Z.gtb_ltb, Z.ltb_irrefl in E.
      destruct (Z.abs _ >=? _); [discriminate|]. injection E as <- _.
      unfold key_dec, to_dec. cbn [andb].
      destruct (negb ((s =? 0) && (s =? 0))); [|reflexivity]. unfold round_to at 1.
      rewrite Z.leb_refl, Z.sub_diag, Z.pow_0_r, Z.mul_1_r. reflexivity.
    - apply negb_false_iff, andb_true_iff in Z0. destruct Z0 as [Z1 Z2]. apply Z.eqb_eq in Z1, Z2. subst s0 s.
      change (0 >? 0) with false in E. cbv iota in E. destruct (Z.abs _ >=? _); [discriminate|].
      injection E as <- _. unfold key_dec, to_dec. reflexivity. }
  cbn [compare]. rewrite (K x x' fx Hx Ex), (K y y' fy Hy Ey). reflexivity.
Qed.

Lemma nonvacuous_compares :
  compare (CInt I8) (CV (SI 300)) (CV (SI 400)) = -1 /\
  compare (CInt I64) (CV (SU 9223372036854775808)) (CV (SU 18446744073709551615)) = 0 /\
  compare (CInt U8) (CV (SI (-1))) (CV (SU 255)) = 1 /\
  compare (CDec 2 true) (CV (SD 1001 3)) (CV (SD 1002 3)) = 0 /\
  compare (CDec 2 false) (CV (SI 1)) (CV (SD 10 1)) = 0.
Proof. repeat split; vm_compute; reflexivity. Qed.

(* ---------- the day count is the chronological order: strictly monotone in (year, month, day)
   over every valid date of the years 1000..9999 (checked month by month by the kernel, then lifted) ---------- *)
Definition leap (y : Z) : bool := (y mod 4 =? 0) && (negb (y mod 100 =? 0) || (y mod 400 =? 0)).
Definition mlen (y m : Z) : Z :=
  if m =? 2 then (if leap y then 29 else 28)
  else if (m =? 4) || (m =? 6) || (m =? 9) || (m =? 11) then 30 else 31.
Definition valid_date (y m d : Z) : Prop := 1000 <= y <= 9999 /\ 1 <= m <= 12 /\ 1 <= d <= mlen y m.

(* month index k = 12*y + (m-1); first day of that month *)
Definition first_of (k : Z) : Z := days_from_civil (k / 12) (k mod 12 + 1) 1.
Definition step_ok (k : Z) : bool := first_of (k + 1) =? first_of k + mlen (k / 12) (k mod 12 + 1).
Fixpoint chk (n : nat) (k : Z) : bool := match n with O => true | S n' => step_ok k && chk n' (k + 1) end.

Lemma chk_spec n : forall k, chk n k = true -> forall i, 0 <= i < Z.of_nat n -> step_ok (k + i) = true.
Proof.
  induction n as [|n IH]; intros k H i Hi; [lia|].
  cbn [chk] in H. apply andb_prop in H. destruct H as [H1 H2].
  destruct (Z.eq_dec i 0) as [->|Hn]; [rewrite Z.add_0_r; exact H1|].
  replace (k + i) with (k + 1 + (i - 1)) by lia. apply IH; [exact H2|lia].
Qed.

Lemma all_months_consecutive : chk (Z.to_nat 108000) 12000 = true.
Proof. vm_compute. reflexivity. Qed.

Lemma month_step k : 12000 <= k < 120000 -> first_of (k + 1) = first_of k + mlen (k / 12) (k mod 12 + 1).
Proof.
  intros H. pose proof (chk_spec _ _ all_months_consecutive (k - 12000) ltac:(lia)) as S.
  replace (12000 + (k - 12000)) with k in S by lia. unfold step_ok in S. apply Z.eqb_eq in S. exact S.
Qed.

Lemma mlen_pos y m : 28 <= mlen y m.
Proof. unfold mlen. destruct (m =? 2); [destruct (leap y); lia|]. destruct (_ || _); lia. Qed.

Lemma first_of_mono n : forall k, 12000 <= k -> k + Z.of_nat n <= 120000 -> first_of k <= first_of (k + Z.of_nat n).
Proof.
  induction n as [|n IH]; intros k H1 H2; [rewrite Z.add_0_r; lia|].
  rewrite Nat2Z.inj_succ. replace (k + Z.succ (Z.of_nat n)) with (k + Z.of_nat n + 1) by lia.
  rewrite month_step by lia. pose proof (mlen_pos ((k + Z.of_nat n) / 12) ((k + Z.of_nat n) mod 12 + 1)).
  specialize (IH k H1 ltac:(lia)). lia.
Qed.

Lemma days_linear_in_day y m d : days_from_civil y m d = days_from_civil y m 1 + (d - 1).
Proof. unfold days_from_civil. lia. Qed.

Lemma month_index y m : 1 <= m <= 12 -> (12 * y + (m - 1)) / 12 = y /\ (12 * y + (m - 1)) mod 12 + 1 = m.
Proof.
  intros H. pose proof (Z.div_mod (12 * y + (m - 1)) 12 ltac:(lia)).
  pose proof (Z.mod_pos_bound (12 * y + (m - 1)) 12 ltac:(lia)). lia.
Qed.

Theorem days_strictly_chronological y1 m1 d1 y2 m2 d2 :
  valid_date y1 m1 d1 -> valid_date y2 m2 d2 ->
  (y1 < y2 \/ (y1 = y2 /\ (m1 < m2 \/ (m1 = m2 /\ d1 < d2)))) ->
  days_from_civil y1 m1 d1 < days_from_civil y2 m2 d2.
Proof.
  intros (Hy1 & Hm1 & Hd1) (Hy2 & Hm2 & Hd2) L.
  set (k1 := 12 * y1 + (m1 - 1)). set (k2 := 12 * y2 + (m2 - 1)).
  destruct (month_index y1 m1 Hm1) as [A1 B1]. destruct (month_index y2 m2 Hm2) as [A2 B2].
  assert (F1 : days_from_civil y1 m1 d1 = first_of k1 + (d1 - 1))
    by (unfold first_of, k1; rewrite A1, B1; apply days_linear_in_day).
  assert (F2 : days_from_civil y2 m2 d2 = first_of k2 + (d2 - 1))
    by (unfold first_of, k2; rewrite A2, B2; apply days_linear_in_day).
  rewrite F1, F2.
  destruct (Z_lt_le_dec k1 k2) as [K|K].
  - pose proof (month_step k1 ltac:(unfold k1; lia)) as S. fold k1 in A1, B1. rewrite A1, B1 in S.
    pose proof (first_of_mono (Z.to_nat (k2 - (k1 + 1))) (k1 + 1) ltac:(unfold k1; lia)
                  ltac:(rewrite Z2Nat.id by lia; unfold k2; lia)) as M.
    rewrite Z2Nat.id in M by lia. replace (k1 + 1 + (k2 - (k1 + 1))) with k2 in M by lia. lia.
  - assert (k1 = k2) by (unfold k1, k2 in *; lia). assert (m1 = m2 /\ y1 = y2) by (unfold k1, k2 in *; lia).
    replace k2 with k1 by assumption. lia.
Qed.

(* hence the microsecond count orders two instants with valid time-of-day fields chronologically *)
Definition valid_tod (h mi s us : Z) : Prop := 0 <= h <= 23 /\ 0 <= mi <= 59 /\ 0 <= s <= 59 /\ 0 <= us <= 999999.

Theorem us_of_strictly_chronological y1 m1 d1 h1 mi1 s1 us1 y2 m2 d2 h2 mi2 s2 us2 :
  valid_date y1 m1 d1 -> valid_date y2 m2 d2 -> valid_tod h1 mi1 s1 us1 -> valid_tod h2 mi2 s2 us2 ->
  (y1 < y2 \/ (y1 = y2 /\ (m1 < m2 \/ (m1 = m2 /\ d1 < d2)))) ->
  us_of y1 m1 d1 h1 mi1 s1 us1 < us_of y2 m2 d2 h2 mi2 s2 us2.
Proof.
  intros V1 V2 T1 T2 L. pose proof (days_strictly_chronological _ _ _ _ _ _ V1 V2 L).
  unfold us_of, day_us, valid_tod in *. lia.
Qed.

Theorem us_of_same_day_chronological y m d h1 mi1 s1 us1 h2 mi2 s2 us2 :
  valid_tod h1 mi1 s1 us1 -> valid_tod h2 mi2 s2 us2 ->
  (h1 < h2 \/ (h1 = h2 /\ (mi1 < mi2 \/ (mi1 = mi2 /\ (s1 < s2 \/ (s1 = s2 /\ us1 < us2)))))) ->
  us_of y m d h1 mi1 s1 us1 < us_of y m d h2 mi2 s2 us2.
Proof. intros T1 T2 L. unfold us_of, valid_tod in *. lia. Qed.

Lemma nonvacuous_temporal :
  compare (CDatetime 0) (CX (TTime 1500 6 15 0 0 0 0)) (CX (TTime 2000 1 1 0 0 0 0)) = -1 /\
  compare (CDatetime 6) (CX (TTime 9999 12 31 23 59 59 999999)) (CX (TText 2000 1 1 0 0 0 0)) = 1 /\
  compare CDate (CX (TTime 2024 2 29 23 0 0 0)) (CX (TText 2024 2 29 0 0 0 0)) = 0 /\
  compare (CDatetime 0) (CX (TText 2023 1 15 10 30 45 500000)) (CX (TTime 2023 1 15 10 30 46 0)) = 0 /\
  compare CYear (CX (TYearI 69)) (CX (TYearS 70)) = 1 /\
  compare CBin (CX (TStr [97])) (CX (TStr [97; 98])) = -1 /\
  days_from_civil 1970 1 1 = 0 /\ days_from_civil 2000 3 1 = 11017.
Proof. repeat split; vm_compute; reflexivity. Qed.
