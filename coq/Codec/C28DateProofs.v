(* C28 -- proofs of the civil calendar round trip over all of Z (COPIED from Codec/C31DateProofs.v:
   400-year periodicity + one era of 146097 days and one cycle of valid dates decided by computation). *)
From Coq Require Import List NArith ZArith Bool Lia.
Import ListNotations.
From GMS Require Import Codec.C28Date.
Open Scope Z_scope.

(* ---------- finite checks over one era ---------- *)
Fixpoint upto (n : nat) (start : Z) : list Z :=
  match n with O => [] | S k => start :: upto k (start + 1) end.
Definition range (n : Z) : list Z := upto (Z.to_nat n) 0.
Lemma in_upto n : forall s z, s <= z < s + Z.of_nat n -> In z (upto n s).
Proof.
  induction n as [|n IH]; intros s z H; [lia|]. cbn [upto].
  destruct (Z.eq_dec s z) as [->|Hn]; [now left|]. right. apply IH. lia.
Qed.
Lemma in_range z n : 0 <= z < n -> In z (range n).
Proof. intros H. unfold range. apply in_upto. rewrite Z2Nat.id by lia. lia. Qed.

Definition era_ok (doe : Z) : bool :=
  let '(yoe, m, d) := civil_of_doe doe in
  (0 <=? yoe) && (yoe <? 400) && (1 <=? m) && (m <=? 12) && (1 <=? d) && (doe_of yoe m d =? doe) &&
  (* the day is valid for the civil year yoe + (m <= 2) (leap rule is 400-periodic) *)
  (d <=? days_in_month (yoe + (if m <=? 2 then 1 else 0)) m).

Lemma era_check : forallb era_ok (range 146097) = true.
Proof. vm_compute. reflexivity. Qed.

Lemma era_ok_all doe : 0 <= doe < 146097 -> era_ok doe = true.
Proof. intros H. pose proof era_check as E. rewrite forallb_forall in E. apply E. apply in_range. lia. Qed.

(* every valid (yoe-year, month, day) of one 400-year cycle: doe is in range and decodes back *)
Definition months : list Z := range 13.
Definition ymd_ok (yy : Z) : bool :=
  forallb (fun m => (m =? 0) ||
    forallb (fun d => (d =? 0) || negb (d <=? days_in_month yy m) ||
      (let y' := if m <=? 2 then yy - 1 else yy in
       let yoe := y' mod 400 in
       let doe := doe_of yoe m d in
       (0 <=? doe) && (doe <? 146097) &&
       (let '(yoe2, m2, d2) := civil_of_doe doe in (yoe2 =? yoe) && (m2 =? m) && (d2 =? d))))
      (range 32)) months.
Lemma ymd_check : forallb ymd_ok (range 400) = true.
Proof. vm_compute. reflexivity. Qed.

(* ---------- periodicity ---------- *)
Lemma leap_periodic y k : is_leap (y + 400 * k) = is_leap y.
Proof.
  unfold is_leap.
  replace ((y + 400 * k) mod 4) with (y mod 4) by (replace (y + 400 * k) with (y + (100 * k) * 4) by ring; now rewrite Z.mod_add by lia).
  replace ((y + 400 * k) mod 100) with (y mod 100) by (replace (y + 400 * k) with (y + (4 * k) * 100) by ring; now rewrite Z.mod_add by lia).
  replace ((y + 400 * k) mod 400) with (y mod 400) by (replace (y + 400 * k) with (y + k * 400) by ring; now rewrite Z.mod_add by lia).
  reflexivity.
Qed.
Lemma dim_periodic y m k : days_in_month (y + 400 * k) m = days_in_month y m.
Proof. unfold days_in_month. now rewrite leap_periodic. Qed.

(* ---------- round trip 1: days -> civil -> days, all z ---------- *)
Theorem days_civil_days z : days_from_civil (civil_from_days z) = z /\ valid_date (civil_from_days z) = true.
Proof.
  unfold civil_from_days. set (z' := z + 719468). set (era := z' / 146097). set (doe := z' - era * 146097).
  assert (Hdoe : 0 <= doe < 146097).
  { unfold doe, era. pose proof (Z.div_mod z' 146097 ltac:(lia)). pose proof (Z.mod_pos_bound z' 146097 ltac:(lia)). lia. }
  pose proof (era_ok_all doe Hdoe) as Hok. unfold era_ok in Hok.
  destruct (civil_of_doe doe) as [[yoe m] d].
  repeat (apply andb_prop in Hok; destruct Hok as [Hok ?]).
  repeat match goal with H : (_ <=? _) = true |- _ => apply Z.leb_le in H | H : (_ <? _) = true |- _ => apply Z.ltb_lt in H
                    | H : (_ =? _) = true |- _ => apply Z.eqb_eq in H end.
  split.
  - unfold days_from_civil.
    assert (Hy : (if m <=? 2 then yoe + era * 400 + (if m <=? 2 then 1 else 0) - 1 else yoe + era * 400 + (if m <=? 2 then 1 else 0)) = yoe + era * 400)
      by (destruct (m <=? 2); lia).
    rewrite Hy.
    assert (He : (yoe + era * 400) / 400 = era) by (rewrite Z.div_add by lia; rewrite Z.div_small by lia; lia).
    rewrite He. replace (yoe + era * 400 - era * 400) with yoe by lia. unfold doe, z' in *. lia.
  - unfold valid_date.
    replace (yoe + era * 400 + (if m <=? 2 then 1 else 0)) with (yoe + (if m <=? 2 then 1 else 0) + 400 * era) by lia.
    rewrite dim_periodic.
    repeat (apply andb_true_intro; split); try (apply Z.leb_le; lia).
Qed.

(* ---------- round trip 2: valid civil -> days -> civil, all years ---------- *)
Theorem civil_days_civil dt : valid_date dt = true -> civil_from_days (days_from_civil dt) = dt.
Proof.
  destruct dt as [[y m] d]. unfold valid_date. intros Hv.
  repeat (apply andb_prop in Hv; destruct Hv as [Hv ?]).
  repeat match goal with H : (_ <=? _) = true |- _ => apply Z.leb_le in H end.
  set (k := y / 400). set (yy := y mod 400).
  assert (Hy : y = yy + 400 * k) by (unfold yy, k; pose proof (Z.div_mod y 400 ltac:(lia)); lia).
  assert (Hyy : 0 <= yy < 400) by (unfold yy; apply Z.mod_pos_bound; lia).
  pose proof ymd_check as E. rewrite forallb_forall in E. specialize (E yy (in_range yy 400 ltac:(lia))).
  unfold ymd_ok in E. rewrite forallb_forall in E. specialize (E m (in_range m 13 ltac:(lia))).
  replace (m =? 0) with false in E by (symmetry; apply Z.eqb_neq; lia). cbn [orb] in E.
  assert (Hd31 : d <= 31). { assert (days_in_month y m <= 31) by (unfold days_in_month; repeat destruct (_ =? _); try destruct (is_leap y); cbn; lia). lia. }
  rewrite forallb_forall in E. specialize (E d (in_range d 32 ltac:(lia))).
  replace (d =? 0) with false in E by (symmetry; apply Z.eqb_neq; lia).
  rewrite Hy in H. rewrite dim_periodic in H.
  replace (d <=? days_in_month yy m) with true in E by (symmetry; apply Z.leb_le; lia). cbn [orb negb] in E.
  unfold days_from_civil, civil_from_days.
  set (y' := if m <=? 2 then y - 1 else y) in *. set (y0 := if m <=? 2 then yy - 1 else yy) in *.
  assert (Hy' : y' = y0 + 400 * k) by (unfold y', y0; destruct (m <=? 2); lia).
  set (era := y' / 400).
  assert (Hyoe : y' - era * 400 = y0 mod 400).
  { unfold era. rewrite Hy'. replace (y0 + 400 * k) with (y0 + k * 400) by ring. rewrite Z.div_add by lia.
    pose proof (Z.div_mod y0 400 ltac:(lia)). lia. }
  rewrite Hyoe. set (yoe := y0 mod 400) in *. set (doe := doe_of yoe m d) in *.
  apply andb_prop in E. destruct E as [E Ec]. apply andb_prop in E. destruct E as [E1 E2].
  apply Z.leb_le in E1. apply Z.ltb_lt in E2.
  replace (era * 146097 + doe - 719468 + 719468) with (doe + era * 146097) by lia.
  rewrite Z.div_add by lia. rewrite Z.div_small by lia. cbn [Z.add].
  replace (doe + era * 146097 - era * 146097) with doe by lia.
  destruct (civil_of_doe doe) as [[yoe2 m2] d2].
  apply andb_prop in Ec. destruct Ec as [Ec Ed]. apply andb_prop in Ec. destruct Ec as [Ey Em].
  apply Z.eqb_eq in Ey, Em, Ed. subst yoe2 m2 d2.
  f_equal. f_equal.
  assert (Hera : era = y0 / 400 + k). { unfold era. rewrite Hy'. replace (y0 + 400 * k) with (y0 + k * 400) by ring. now rewrite Z.div_add by lia. }
  pose proof (Z.div_mod y0 400 ltac:(lia)) as Hdm. fold yoe in Hdm.
  unfold y' in *. destruct (m <=? 2); lia.
Qed.

(* ---------- consequences ---------- *)
