(* C25 — proofs about the arithmetic model of Codec/C25Arith.v *)
From Coq Require Import ZArith Bool List Lia.
Import ListNotations.
From GMS Require Import Codec.C25Arith.
Open Scope Z_scope.

(* ---------- wrapping is the identity inside the range ---------- *)
Lemma wrapS_id h z : 0 < h -> - h <= z < h -> wrapS h z = z.
Proof. intros Hh Hz. unfold wrapS. rewrite Z.mod_small by lia. lia. Qed.

Lemma wrapU_id n z : 0 <= z < n -> wrapU n z = z.
Proof. intros Hz. unfold wrapU. apply Z.mod_small. exact Hz. Qed.

Lemma wrap_i64_id z : min_i64 <= z <= max_i64 -> wrap_i64 z = z.
Proof. intros H. unfold wrap_i64. apply wrapS_id; unfold two63, min_i64, max_i64 in *; lia. Qed.

Lemma wrap_u64_id z : 0 <= z <= max_u64 -> wrap_u64 z = z.
Proof. intros H. unfold wrap_u64. apply wrapU_id; unfold two64, max_u64 in *; lia. Qed.

(* the wrapped value is always the exact one modulo 2^64 (what Go's operators guarantee) *)
Lemma wrap_i64_congr z : (wrap_i64 z - z) mod two64 = 0.
Proof.
  unfold wrap_i64, wrapS. change (2 * two63) with two64.
  pose proof (Z.div_mod (z + two63) two64 ltac:(unfold two64; lia)) as E.
  replace ((z + two63) mod two64 - two63 - z) with (- ((z + two63) / two64) * two64) by lia.
  apply Z.mod_mul. unfold two64; lia.
Qed.

(* ---------- operand well-formedness ---------- *)
Definition operand_ok (o : operand) : Prop :=
  match o with
  | ONull => True
  | OInt t z => in_range t z
  | ODec _ s => 0 <= s
  end.

Definition is_int (o : operand) : bool := match o with OInt _ _ => true | _ => false end.
Definition is_null (o : operand) : bool := match o with ONull => true | _ => false end.

(* the rational value of a non-NULL operand as numerator / 10^scale *)
Definition num (o : operand) : Z := fst (to_dec o).
Definition scl (o : operand) : Z := snd (to_dec o).

Lemma in_range_bounds t z : in_range t z -> min_i64 <= z <= max_u64.
Proof. unfold in_range, ity_min, ity_max, min_i64, max_i64, max_u64. destruct t; lia. Qed.

Lemma in_range_signed t z : unsigned t = false -> in_range t z -> min_i64 <= z <= max_i64.
Proof. unfold in_range, ity_min, ity_max, min_i64, max_i64, max_u64. destruct t; cbn; intros; try discriminate; lia. Qed.

Lemma in_range_unsigned t z : unsigned t = true -> in_range t z -> 0 <= z <= max_u64.
Proof. unfold in_range, ity_min, ity_max, min_i64, max_i64, max_u64. destruct t; cbn; intros; try discriminate; lia. Qed.

Lemma conv_u64_id t z : 0 <= z -> conv_u64 (OInt t z) = z.
Proof. intros H. unfold conv_u64. destruct (z <? 0) eqn:E; [apply Z.ltb_lt in E; lia | reflexivity]. Qed.

Lemma conv_i64_id t z : z <= max_i64 -> conv_i64 (OInt t z) = z.
Proof.
  intros H. destruct t; unfold conv_i64; try reflexivity.
  destruct (z >? max_i64) eqn:E; [|reflexivity]. apply Z.gtb_lt in E. lia.
Qed.

(* ---------- + - * on integers: exact whenever operands and result fit the result type ---------- *)
Definition is_arith (o : op) : Prop := o = Plus \/ o = Minus \/ o = Mult.

Theorem arith_unsigned_exact_when_fits o tl a tr b :
  is_arith o -> unsigned tl = true -> unsigned tr = true -> in_range tl a -> in_range tr b ->
  0 <= zop o a b <= max_u64 ->
  arith o (OInt tl a) (OInt tr b) = RInt U64 (zop o a b).
Proof.
  intros _ Hl Hr Ha Hb Hfit. unfold arith. rewrite Hl, Hr. cbn [andb].
  apply in_range_unsigned in Ha; [|exact Hl]. apply in_range_unsigned in Hb; [|exact Hr].
  rewrite !conv_u64_id by lia. rewrite wrap_u64_id by exact Hfit. reflexivity.
Qed.

Theorem arith_signed_exact_when_fits o tl a tr b :
  is_arith o -> unsigned tl && unsigned tr = false -> in_range tl a -> in_range tr b ->
  a <= max_i64 -> b <= max_i64 ->
  min_i64 <= zop o a b <= max_i64 ->
  arith o (OInt tl a) (OInt tr b) = RInt I64 (zop o a b).
Proof.
  intros _ Hs Ha Hb Hal Hbl Hfit. unfold arith. rewrite Hs.
  rewrite !conv_i64_id by assumption. rewrite wrap_i64_id by exact Hfit. reflexivity.
Qed.

(* whatever happens, an integer + - * result is the exact value of the converted operands modulo 2^64 *)
Theorem arith_signed_congruent o tl a tr b :
  unsigned tl && unsigned tr = false ->
  exists v, arith o (OInt tl a) (OInt tr b) = RInt I64 v /\
            (v - zop o (conv_i64 (OInt tl a)) (conv_i64 (OInt tr b))) mod two64 = 0.
Proof.
  intros Hs. unfold arith. rewrite Hs. eexists. split; [reflexivity|]. apply wrap_i64_congr.
Qed.

(* ---------- refutations of the unguarded statement (the faithful model wraps silently) ---------- *)
Definition silently_wrong (o : op) (l r : operand) (exact : Z) : Prop :=
  operand_ok l /\ operand_ok r /\ exists t v, eval o false 0 l r = RInt t v /\ v <> exact.

Ltac refute := unfold silently_wrong, operand_ok, in_range, ity_min, ity_max, min_i64, max_i64, max_u64;
  repeat split; try lia; do 2 eexists; split; [vm_compute; reflexivity | vm_compute; discriminate].

Lemma plus_int64_wraps : silently_wrong Plus (OInt I64 9223372036854775807) (OInt I8 1) (9223372036854775807 + 1).
Proof. refute. Qed.
Lemma minus_int64_wraps : silently_wrong Minus (OInt I64 (-9223372036854775808)) (OInt I8 1) (-9223372036854775808 - 1).
Proof. refute. Qed.
Lemma mult_int64_wraps : silently_wrong Mult (OInt I64 4611686018427387904) (OInt I8 4) (4611686018427387904 * 4).
Proof. refute. Qed.
Lemma plus_uint64_wraps : silently_wrong Plus (OInt U64 18446744073709551615) (OInt U64 1) (18446744073709551615 + 1).
Proof. refute. Qed.
Lemma minus_uint64_wraps : silently_wrong Minus (OInt U8 0) (OInt U16 1) (0 - 1).
Proof. refute. Qed.
Lemma mult_uint64_wraps : silently_wrong Mult (OInt U64 4294967296) (OInt U64 4294967296) (4294967296 * 4294967296).
Proof. refute. Qed.
(* mixed signedness: the unsigned operand is clamped to MaxInt64 although the exact result fits BIGINT *)
Lemma plus_mixed_clamps : silently_wrong Plus (OInt U64 18446744073709551615) (OInt I64 (-9223372036854775808))
                                         (18446744073709551615 + -9223372036854775808).
Proof. refute. Qed.
Lemma plus_mixed_clamps_zero : silently_wrong Plus (OInt U64 18446744073709551615) (OInt I8 0) 18446744073709551615.
Proof. refute. Qed.
Lemma neg_uint8_wraps : silently_wrong Neg (OInt U8 200) ONull (- 200).
Proof. refute. Qed.
Lemma neg_uint32_wraps : silently_wrong Neg (OInt U32 4294967295) ONull (- 4294967295).
Proof. refute. Qed.
Lemma neg_uint64_wraps : silently_wrong Neg (OInt U64 18446744073709551615) ONull (- 18446744073709551615).
Proof. refute. Qed.
Lemma intdiv_minint_wraps : silently_wrong IntDiv (OInt I64 (-9223372036854775808)) (OInt I8 (-1))
                                           (Z.quot (-9223372036854775808) (-1)).
Proof. refute. Qed.

(* ---------- unary minus ---------- *)
Theorem neg_signed_exact lit t z :
  unsigned t = false -> in_range t z -> z <> min_i64 -> neg lit (OInt t z) = RInt I64 (- z).
Proof.
  intros Hs Hr Hz. destruct t; cbn [unsigned] in Hs; try discriminate; unfold neg; try reflexivity.
  destruct (z =? min_i64) eqn:E; [apply Z.eqb_eq in E; contradiction | reflexivity].
Qed.

(* the most negative BIGINT: an out-of-range error, or (for a literal) the exact decimal 2^63 *)
Theorem neg_minint lit :
  neg lit (OInt I64 min_i64) = if lit then RDec (- min_i64) 0 else RErr.
Proof. destruct lit; reflexivity. Qed.

Theorem neg_decimal_exact lit m s : neg lit (ODec m s) = RDec (- m) s.
Proof. reflexivity. Qed.

(* an unsigned operand is negated exactly as long as -z fits the (narrow) signed carrier UnaryMinus picks *)
Definition neg_carrier_half (t : ity) : Z :=
  match t with U8 => 128 | U16 => 32768 | U24 | U32 => 2147483648 | _ => two63 end.
Definition neg_carrier (t : ity) : ity :=
  match t with U8 => I8 | U16 => I16 | U24 | U32 => I32 | _ => I64 end.

Theorem neg_unsigned_exact_when_fits lit t z :
  unsigned t = true -> 0 <= z < neg_carrier_half t -> neg lit (OInt t z) = RInt (neg_carrier t) (- z).
Proof.
  intros Hu Hz. destruct t; cbn [unsigned] in Hu; try discriminate; unfold neg_carrier_half in Hz; unfold neg, neg_carrier;
    unfold wrap_i8, wrap_i16, wrap_i32, wrap_i64; unfold two63 in *;
    rewrite (wrapS_id _ z) by lia; rewrite wrapS_id by lia; reflexivity.
Qed.

(* ---------- decimals: + - * are exact ---------- *)
Lemma pow10_pos k : 0 <= k -> 0 < 10 ^ k.
Proof. intros H. apply Z.pow_pos_nonneg; lia. Qed.

(* value of (m, s) is m / 10^s; equalities between decimal values are stated cross-multiplied *)
Theorem dec_plus_exact m1 s1 m2 s2 :
  0 <= s1 -> 0 <= s2 ->
  exists m s, dec_arith Plus (m1, s1) (m2, s2) = RDec m s /\ 0 <= s /\
              m * 10 ^ (s1 + s2) = (m1 * 10 ^ s2 + m2 * 10 ^ s1) * 10 ^ s.
Proof.
  intros H1 H2. unfold dec_arith, zop. do 2 eexists. split; [reflexivity|]. split; [lia|].
  set (s := Z.max s1 s2).
  assert (E1 : 10 ^ (s - s1) * 10 ^ (s1 + s2) = 10 ^ s2 * 10 ^ s)
    by (rewrite <- !Z.pow_add_r by lia; f_equal; lia).
  assert (E2 : 10 ^ (s - s2) * 10 ^ (s1 + s2) = 10 ^ s1 * 10 ^ s)
    by (rewrite <- !Z.pow_add_r by lia; f_equal; lia).
  rewrite Z.mul_add_distr_r, <- !Z.mul_assoc, E1, E2. ring.
Qed.

Theorem dec_minus_exact m1 s1 m2 s2 :
  0 <= s1 -> 0 <= s2 ->
  exists m s, dec_arith Minus (m1, s1) (m2, s2) = RDec m s /\ 0 <= s /\
              m * 10 ^ (s1 + s2) = (m1 * 10 ^ s2 - m2 * 10 ^ s1) * 10 ^ s.
Proof.
  intros H1 H2. unfold dec_arith, zop. do 2 eexists. split; [reflexivity|]. split; [lia|].
  set (s := Z.max s1 s2).
  assert (E1 : 10 ^ (s - s1) * 10 ^ (s1 + s2) = 10 ^ s2 * 10 ^ s)
    by (rewrite <- !Z.pow_add_r by lia; f_equal; lia).
  assert (E2 : 10 ^ (s - s2) * 10 ^ (s1 + s2) = 10 ^ s1 * 10 ^ s)
    by (rewrite <- !Z.pow_add_r by lia; f_equal; lia).
  rewrite Z.mul_sub_distr_r, <- !Z.mul_assoc, E1, E2. ring.
Qed.

Theorem dec_mult_exact m1 s1 m2 s2 :
  dec_arith Mult (m1, s1) (m2, s2) = RDec (m1 * m2) (s1 + s2).
Proof. reflexivity. Qed.

(* + - * with at least one decimal operand goes through the exact decimal operations on the exact
   decimal images of both operands (an integer z becomes (z, 0)) *)
Theorem arith_decimal_path o l r :
  is_null l = false -> is_null r = false -> is_int l && is_int r = false ->
  arith o l r = dec_arith o (to_dec l) (to_dec r).
Proof.
  intros Hl Hr Hi. destruct l, r; cbn [is_null is_int andb] in *; try discriminate; reflexivity.
Qed.

(* ---------- division by zero is NULL, for DIV, % and / and every operand shape ---------- *)
Definition is_zero (o : operand) : Prop := match o with OInt _ z => z = 0 | ODec m _ => m = 0 | ONull => False end.

Theorem div_by_zero_null o lit ldecl l r :
  o = IntDiv \/ o = Mod \/ o = Div -> is_zero r -> eval o lit ldecl l r = RNull.
Proof.
  intros Ho Hz. destruct r as [|tr b|m2 s2]; cbn [is_zero] in Hz; [contradiction| |]; subst.
  - destruct Ho as [->|[->| ->]]; unfold eval.
    + unfold intdiv. destruct l as [|tl a|m1 s1]; [reflexivity| |].
      * unfold conv_u64, conv_i64, to_dec. destruct tr; cbn [unsigned andb negb];
          destruct (unsigned tl); cbn [andb negb Z.ltb Z.eqb Z.gtb Z.compare]; reflexivity.
      * unfold to_dec. reflexivity.
    + unfold modulo. destruct l; reflexivity.
    + unfold divide. destruct l as [|tl a|m1 s1]; [reflexivity| |]; unfold to_dec, lpad.
      * destruct (ldecl >? 0); reflexivity.
      * destruct (ldecl >? s1); reflexivity.
  - destruct Ho as [->|[->| ->]]; unfold eval.
    + unfold intdiv. destruct l; reflexivity.
    + unfold modulo. destruct l; reflexivity.
    + unfold divide. destruct l as [|tl a|m1 s1]; [reflexivity| |]; unfold to_dec, lpad.
      * destruct (ldecl >? 0); reflexivity.
      * destruct (ldecl >? s1); reflexivity.
Qed.

(* ---------- Z.quot / Z.rem are truncation toward zero with the sign of the dividend ---------- *)
Theorem quot_rem_truncation n d :
  d <> 0 ->
  n = d * Z.quot n d + Z.rem n d /\ Z.abs (Z.rem n d) < Z.abs d /\
  (Z.rem n d = 0 \/ Z.sgn (Z.rem n d) = Z.sgn n).
Proof.
  intros Hd. split; [apply Z.quot_rem'|]. split; [apply Z.rem_bound_abs; exact Hd|].
  destruct (Z.eq_dec (Z.rem n d) 0) as [E|E]; [left; exact E|right; apply Z.rem_sign_nz; assumption].
Qed.

Lemma quot_abs_le n d : d <> 0 -> Z.abs (Z.quot n d) <= Z.abs n.
Proof.
  intros Hd. rewrite <- Z.quot_abs by exact Hd.
  destruct (Z.eq_dec (Z.abs n) 0) as [E|E]; [rewrite E; rewrite Z.quot_0_l by lia; lia|].
  destruct (Z.eq_dec (Z.abs d) 1) as [E1|E1]; [rewrite E1, Z.quot_1_r; lia|].
  apply Z.lt_le_incl. apply Z.quot_lt; lia.
Qed.

(* ---------- DIV truncates toward zero ---------- *)
Definition minint_by_minus_one (l r : operand) : Prop :=
  exists tl tr, l = OInt tl min_i64 /\ r = OInt tr (-1) /\ unsigned tl = false /\ unsigned tr = false.

Theorem intdiv_truncates l r t q :
  operand_ok l -> operand_ok r -> intdiv l r = RInt t q -> ~ minint_by_minus_one l r ->
  q = Z.quot (num l * 10 ^ scl r) (num r * 10 ^ scl l).
Proof.
  intros Hl Hr E Hx.
  assert (Dec : forall m1 s1 m2 s2,
    (if m2 =? 0 then RNull
     else let q0 := Z.quot (m1 * 10 ^ s2) (m2 * 10 ^ s1) in
          if (min_i64 <=? q0) && (q0 <=? max_i64) then RInt I64 q0 else RErr) = RInt t q ->
    q = Z.quot (m1 * 10 ^ s2) (m2 * 10 ^ s1)).
  { intros m1 s1 m2 s2 H. destruct (m2 =? 0); [discriminate|]. cbv zeta in H.
    destruct ((min_i64 <=? _) && _); [|discriminate]. injection H as _ <-. reflexivity. }
  destruct l as [|tl a|m1 s1]; [unfold intdiv in E; discriminate E| |];
    (destruct r as [|tr b|m2 s2]; [unfold intdiv in E; discriminate E| |]).
  - (* integer, integer *)
    unfold num, scl, to_dec, fst, snd. rewrite Z.pow_0_r, !Z.mul_1_r.
    unfold intdiv in E. cbn [operand_ok] in Hl, Hr.
    destruct (unsigned tl) eqn:Ul; destruct (unsigned tr) eqn:Ur; cbn [andb negb] in E.
    + pose proof (in_range_unsigned _ _ Ul Hl) as Ba. pose proof (in_range_unsigned _ _ Ur Hr) as Bb.
      rewrite !conv_u64_id in E by lia. destruct (b =? 0) eqn:Eb; [discriminate|]. apply Z.eqb_neq in Eb.
      injection E as _ <-. apply wrap_u64_id.
      pose proof (quot_abs_le a b Eb) as Q. pose proof (Z.quot_pos a b ltac:(lia) ltac:(lia)). lia.
    + apply Dec with (m1 := a) (s1 := 0) (m2 := b) (s2 := 0) in E. rewrite Z.pow_0_r, !Z.mul_1_r in E. exact E.
    + apply Dec with (m1 := a) (s1 := 0) (m2 := b) (s2 := 0) in E. rewrite Z.pow_0_r, !Z.mul_1_r in E. exact E.
    + pose proof (in_range_signed _ _ Ul Hl) as Ba. pose proof (in_range_signed _ _ Ur Hr) as Bb.
      rewrite !conv_i64_id in E by lia. destruct (b =? 0) eqn:Eb; [discriminate|]. apply Z.eqb_neq in Eb.
      injection E as _ <-. apply wrap_i64_id.
      pose proof (quot_abs_le a b Eb) as Q.
      destruct (Z.eq_dec (Z.quot a b) (max_i64 + 1)) as [Bad|Ok].
      * exfalso. apply Hx. exists tl, tr.
        assert (a = min_i64) by (unfold min_i64, max_i64 in *; lia). subst a.
        assert (b = -1).
        { pose proof (Z.quot_rem' min_i64 b) as QR. pose proof (Z.rem_bound_abs min_i64 b Eb) as RB.
          rewrite Bad in QR. unfold min_i64, max_i64 in *. nia. }
        subst b. repeat split; assumption.
      * unfold min_i64, max_i64 in *. lia.
  - unfold intdiv in E. apply Dec in E. exact E.
  - unfold intdiv in E. apply Dec in E. exact E.
  - unfold intdiv in E. apply Dec in E. exact E.
Qed.

(* ---------- % : remainder with the sign of the dividend ---------- *)
Theorem modulo_is_rem l r m s :
  operand_ok l -> operand_ok r -> modulo l r = RDec m s ->
  s = Z.max (scl l) (scl r) /\
  m = Z.rem (num l * 10 ^ (s - scl l)) (num r * 10 ^ (s - scl r)).
Proof.
  intros Hl Hr E.
  assert (Sl : 0 <= scl l) by (destruct l; cbn in *; lia).
  assert (Sr : 0 <= scl r) by (destruct r; cbn in *; lia).
  assert (G : forall m1 s1 m2 s2, 0 <= s1 -> 0 <= s2 ->
     (if m2 =? 0 then RNull
      else let s0 := Z.max s1 s2 in
           let a := Z.abs m1 * 10 ^ (s0 - s1) in
           let b := Z.abs m2 * 10 ^ (s0 - s2) in
           if digits (a / b) >? Z.max (digits m1) (digits m2) then RErr
           else RDec (Z.sgn m1 * (a mod b)) s0) = RDec m s ->
     s = Z.max s1 s2 /\ m = Z.rem (m1 * 10 ^ (s - s1)) (m2 * 10 ^ (s - s2))).
  { intros m1 s1 m2 s2 H1 H2 H. destruct (m2 =? 0) eqn:Em; [discriminate|]. apply Z.eqb_neq in Em.
    cbv zeta in H. destruct (digits _ >? _); [discriminate|]. injection H as <- <-. split; [reflexivity|].
    set (s0 := Z.max s1 s2).
    pose proof (pow10_pos (s0 - s1) ltac:(lia)) as P1. pose proof (pow10_pos (s0 - s2) ltac:(lia)) as P2.
    rewrite Z.rem_mod by nia.
    rewrite !Z.abs_mul, (Z.abs_eq (10 ^ _)) by lia. rewrite (Z.abs_eq (10 ^ (s0 - s2))) by lia.
    rewrite Z.sgn_mul, (Z.sgn_pos (10 ^ _)) by lia. rewrite Z.mul_1_r. reflexivity. }
  destruct l as [|tl a|m1 s1]; [unfold modulo in E; discriminate E|..];
    (destruct r as [|tr b|m2 s2]; [unfold modulo in E; discriminate E|..]);
    unfold modulo in E; apply G in E; cbn [scl num to_dec fst snd operand_ok] in *; try lia; exact E.
Qed.

(* ---------- / : correctly rounded whenever the working scale exceeds the final scale ---------- *)
Lemma rha_opp m p : p <> 0 -> rha (- m) p = - rha m p.
Proof.
  intros Hp. unfold rha. rewrite Z.quot_opp_l by exact Hp. rewrite Z.rem_opp_l', Z.abs_opp, Z.sgn_opp.
  destruct (2 * Z.abs (Z.rem m p) >=? p); lia.
Qed.

Lemma rha_nonneg q p : 0 <= q -> 0 < p ->
  rha q p = if 2 * (q mod p) >=? p then q / p + 1 else q / p.
Proof.
  intros Hq Hp. unfold rha. rewrite Z.quot_div_nonneg, Z.rem_mod_nonneg by lia.
  pose proof (Z.mod_pos_bound q p Hp) as B. rewrite (Z.abs_eq (q mod p)) by lia.
  destruct (2 * (q mod p) >=? p) eqn:E; [|reflexivity].
  destruct (Z.eq_dec q 0) as [->|Hn]; [rewrite Z.mod_0_l in E by lia; apply Z.geb_le in E; lia|].
  rewrite Z.sgn_pos by lia. reflexivity.
Qed.

Lemma nearest_nonneg P m p' :
  0 <= P -> 0 < m -> 0 < p' ->
  2 * Z.abs (rha (Z.quot P m) (2 * p') * (2 * p') * m - P) <= 2 * p' * m.
Proof.
  intros HP Hm Hp. rewrite Z.quot_div_nonneg by lia.
  set (q := P / m). assert (Hq : 0 <= q) by (apply Z.div_pos; lia).
  pose proof (Z.div_mod P m ltac:(lia)) as DM. pose proof (Z.mod_pos_bound P m Hm) as MB. fold q in DM.
  rewrite rha_nonneg by lia.
  pose proof (Z.div_mod q (2 * p') ltac:(lia)) as DQ. pose proof (Z.mod_pos_bound q (2 * p') ltac:(lia)) as QB.
  set (a := q / (2 * p')) in *. set (b := q mod (2 * p')) in *.
  destruct (2 * b >=? 2 * p') eqn:E.
  - apply Z.geb_le in E. nia.
  - rewrite Z.geb_leb in E. apply Z.leb_gt in E. nia.
Qed.

Lemma nearest_any P m p' :
  m <> 0 -> 0 < p' ->
  2 * Z.abs (rha (Z.quot P m) (2 * p') * (2 * p') * m - P) <= 2 * p' * Z.abs m.
Proof.
  intros Hm Hp.
  destruct (Z_le_gt_dec 0 P) as [HP|HP]; destruct (Z_lt_le_dec 0 m) as [Hm'|Hm'].
  - rewrite (Z.abs_eq m) by lia. apply nearest_nonneg; assumption.
  - pose proof (nearest_nonneg P (- m) p' HP ltac:(lia) Hp) as H.
    rewrite Z.quot_opp_r, rha_opp in H by lia. rewrite (Z.abs_neq m) by lia.
    replace (- rha (Z.quot P m) (2 * p') * (2 * p') * - m - P) with (rha (Z.quot P m) (2 * p') * (2 * p') * m - P) in H by ring.
    exact H.
  - pose proof (nearest_nonneg (- P) m p' ltac:(lia) Hm' Hp) as H.
    rewrite Z.quot_opp_l, rha_opp in H by lia. rewrite (Z.abs_eq m) by lia.
    replace (- rha (Z.quot P m) (2 * p') * (2 * p') * m - - P) with (- (rha (Z.quot P m) (2 * p') * (2 * p') * m - P)) in H by ring.
    rewrite Z.abs_opp in H. exact H.
  - pose proof (nearest_nonneg (- P) (- m) p' ltac:(lia) ltac:(lia) Hp) as H.
    rewrite Z.quot_opp_opp in H by lia. rewrite (Z.abs_neq m) by lia.
    replace (rha (Z.quot P m) (2 * p') * (2 * p') * - m - - P) with (- (rha (Z.quot P m) (2 * p') * (2 * p') * m - P)) in H by ring.
    rewrite Z.abs_opp in H. exact H.
Qed.

(* The quotient (m1/10^s1) / (m2/10^s2), scaled by 10^f, is N/D with N = m1 * 10^(s2+f), D = m2 * 10^s1.
   The result coefficient is an integer nearest to N/D. *)
Theorem divide_correctly_rounded ldecl l r res f :
  operand_ok l -> operand_ok r -> 0 <= ldecl -> divide ldecl l r = RDec res f ->
  let '(m1, s1) := lpad ldecl (to_dec l) in
  let '(m2, s2) := to_dec r in
  f = div_final_scale s1 /\
  (f < div_work_scale s1 s2 ->
   2 * Z.abs (res * (m2 * 10 ^ s1) - m1 * 10 ^ (s2 + f)) <= Z.abs (m2 * 10 ^ s1)).
Proof.
  intros Hl Hr Hd E.
  assert (Sl : 0 <= scl l) by (destruct l; cbn in *; lia).
  assert (Sr : 0 <= scl r) by (destruct r; cbn in *; lia).
  assert (G : divide ldecl l r =
     let '(m1, s1) := lpad ldecl (to_dec l) in
     let '(m2, s2) := to_dec r in
     if is_null l || is_null r then RNull else
     if m2 =? 0 then RNull
     else RDec (round_half_away (Z.quot (m1 * 10 ^ (div_work_scale s1 s2 + s2 - s1)) m2)
                                (div_work_scale s1 s2 - div_final_scale s1)) (div_final_scale s1)).
  { unfold divide. destruct l, r; cbn [is_null orb]; try reflexivity;
      destruct (lpad _ _); try reflexivity; destruct (to_dec _); reflexivity. }
  rewrite G in E. clear G.
  assert (S1 : 0 <= snd (lpad ldecl (to_dec l))).
  { unfold lpad. fold (scl l). destruct (to_dec l) as [m0 s0] eqn:T. unfold scl in Sl. rewrite T in Sl. cbn [snd] in Sl.
    destruct (ldecl >? s0); cbn [snd]; lia. }
  destruct (lpad ldecl (to_dec l)) as [m1 s1]. cbn [snd] in S1.
  unfold scl in Sr. destruct (to_dec r) as [m2 s2]. cbn [snd] in Sr.
  destruct (is_null l || is_null r); [discriminate|].
  destruct (m2 =? 0) eqn:Em; [discriminate|]. apply Z.eqb_neq in Em.
  injection E as <- <-. split; [reflexivity|]. intros Hk.
  set (W := div_work_scale s1 s2) in *. set (f := div_final_scale s1) in *.
  assert (Hf : 0 <= f) by (unfold f, div_final_scale; lia).
  assert (HW : s1 + s2 + 4 <= W).
  { unfold W, div_work_scale, ceil_div.
    pose proof (Z.div_mod (s1 + s2 + 4 + 9 - 1) 9 ltac:(lia)) as DM.
    pose proof (Z.mod_pos_bound (s1 + s2 + 4 + 9 - 1) 9 ltac:(lia)) as MB.
    destruct (negb (s1 =? 0) && negb (s2 =? 0)); lia. }
  unfold round_half_away.
  set (k := W - f). assert (Hk1 : 1 <= k) by (unfold k; lia).
  replace (10 ^ k) with (2 * (5 * 10 ^ (k - 1))).
  2:{ replace k with (1 + (k - 1)) at 2 by lia. rewrite Z.pow_add_r by lia. change (10 ^ 1) with 10. ring. }
  pose proof (pow10_pos (k - 1) ltac:(lia)) as Pk.
  pose proof (nearest_any (m1 * 10 ^ (W + s2 - s1)) m2 (5 * 10 ^ (k - 1)) Em ltac:(lia)) as NA.
  set (R := rha _ _) in *.
  pose proof (pow10_pos s1 S1) as P1.
  (* scale both sides by 10^s1 and cancel 10^k *)
  assert (EP : m1 * 10 ^ (W + s2 - s1) * 10 ^ s1 = m1 * 10 ^ (s2 + f) * (2 * (5 * 10 ^ (k - 1)))).
  { replace (2 * (5 * 10 ^ (k - 1))) with (10 ^ k).
    2:{ replace k with (1 + (k - 1)) at 1 by lia. rewrite Z.pow_add_r by lia. change (10 ^ 1) with 10. ring. }
    rewrite <- !Z.mul_assoc, <- !Z.pow_add_r by lia. do 2 f_equal. unfold k. lia. }
  set (pk := 2 * (5 * 10 ^ (k - 1))) in *. assert (Hpk : 0 < pk) by (unfold pk; lia).
  rewrite Z.abs_mul, (Z.abs_eq (10 ^ s1)) by lia.
  (* NA * 10^s1 :  2 |R pk m2 - P| 10^s1 <= pk |m2| 10^s1 *)
  assert (NA' : 2 * Z.abs ((R * (m2 * 10 ^ s1) - m1 * 10 ^ (s2 + f)) * pk) <= pk * (Z.abs m2 * 10 ^ s1)).
  { replace ((R * (m2 * 10 ^ s1) - m1 * 10 ^ (s2 + f)) * pk)
      with ((R * pk * m2 - m1 * 10 ^ (W + s2 - s1)) * 10 ^ s1) by (rewrite Z.mul_sub_distr_r, EP; ring).
    rewrite Z.abs_mul, (Z.abs_eq (10 ^ s1)) by lia. nia. }
  rewrite Z.abs_mul, (Z.abs_eq pk) in NA' by lia. nia.
Qed.

(* when the final scale equals the working scale nothing is rounded: the truncated quotient is returned,
   which need not be a nearest value: 123.45600 / 7 = 17.636571428(571...) *)
Lemma divide_truncates_witness :
  divide 5 (ODec 12345600 5) (OInt I8 7) = RDec 17636571428 9 /\
  div_final_scale 5 = div_work_scale 5 0 /\
  ~ (2 * Z.abs (17636571428 * (7 * 10 ^ 5) - 12345600 * 10 ^ (0 + 9)) <= Z.abs (7 * 10 ^ 5)).
Proof. split; [vm_compute; reflexivity|]. split; [vm_compute; reflexivity|]. vm_compute. intros H. apply H. reflexivity. Qed.

(* the padding of the left operand does not change its value *)
Lemma lpad_value ldecl m s : 0 <= s ->
  let '(m', s') := lpad ldecl (m, s) in 0 <= s' /\ m' * 10 ^ s = m * 10 ^ s'.
Proof.
  intros Hs. unfold lpad. destruct (ldecl >? s) eqn:E; [|split; [lia|reflexivity]].
  apply Z.gtb_lt in E. split; [lia|]. rewrite <- Z.mul_assoc, <- Z.pow_add_r by lia. do 2 f_equal. lia.
Qed.

(* ---------- the same statements through [eval] (for Props/C25.v) ---------- *)
Lemma eval_unsigned_exact_when_fits o tl a tr b :
  is_arith o -> unsigned tl = true -> unsigned tr = true -> in_range tl a -> in_range tr b ->
  0 <= zop o a b <= max_u64 -> eval o false 0 (OInt tl a) (OInt tr b) = RInt U64 (zop o a b).
Proof.
  intros H. pose proof (arith_unsigned_exact_when_fits o tl a tr b H) as T. destruct H as [->|[->| ->]]; exact T.
Qed.

Lemma eval_signed_exact_when_fits o tl a tr b :
  is_arith o -> unsigned tl && unsigned tr = false -> in_range tl a -> in_range tr b ->
  a <= max_i64 -> b <= max_i64 -> min_i64 <= zop o a b <= max_i64 ->
  eval o false 0 (OInt tl a) (OInt tr b) = RInt I64 (zop o a b).
Proof.
  intros H. pose proof (arith_signed_exact_when_fits o tl a tr b H) as T. destruct H as [->|[->| ->]]; exact T.
Qed.

Lemma eval_decimal_path o l r :
  is_arith o -> is_null l = false -> is_null r = false -> is_int l && is_int r = false ->
  eval o false 0 l r = dec_arith o (to_dec l) (to_dec r).
Proof.
  intros H. pose proof (arith_decimal_path o l r) as T. destruct H as [->|[->| ->]]; exact T.
Qed.

Lemma decimal_exact_all m1 s1 m2 s2 : 0 <= s1 -> 0 <= s2 ->
    (exists m s, dec_arith Plus (m1, s1) (m2, s2) = RDec m s /\ 0 <= s /\
                 m * 10 ^ (s1 + s2) = (m1 * 10 ^ s2 + m2 * 10 ^ s1) * 10 ^ s) /\
    (exists m s, dec_arith Minus (m1, s1) (m2, s2) = RDec m s /\ 0 <= s /\
                 m * 10 ^ (s1 + s2) = (m1 * 10 ^ s2 - m2 * 10 ^ s1) * 10 ^ s) /\
    dec_arith Mult (m1, s1) (m2, s2) = RDec (m1 * m2) (s1 + s2) /\
    (forall lit, eval Neg lit 0 (ODec m1 s1) ONull = RDec (- m1) s1).
Proof.
  intros H1 H2.
  exact (conj (dec_plus_exact m1 s1 m2 s2 H1 H2) (conj (dec_minus_exact m1 s1 m2 s2 H1 H2)
        (conj (dec_mult_exact m1 s1 m2 s2) (fun lit => neg_decimal_exact lit m1 s1)))).
Qed.

Lemma nonvacuous_evals :
  eval Plus false 0 (OInt I64 9223372036854775806) (OInt I8 1) = RInt I64 9223372036854775807 /\
  eval Mult false 0 (OInt U32 4294967295) (OInt U32 4294967295) = RInt U64 18446744065119617025 /\
  eval Minus false 0 (OInt U64 5) (OInt I8 6) = RInt I64 (-1) /\
  eval IntDiv false 0 (OInt I8 (-7)) (OInt I8 2) = RInt I64 (-3) /\
  eval IntDiv false 0 (ODec 15 1) (ODec 4 1) = RInt I64 3 /\
  eval Mod false 0 (OInt I8 (-7)) (OInt I8 3) = RDec (-1) 0 /\
  eval Mod false 0 (ODec (-15) 1) (ODec 4 1) = RDec (-3) 1 /\
  eval Div false 0 (OInt I8 2) (OInt I8 3) = RDec 6667 4 /\
  eval Div false 0 (OInt I8 (-2)) (OInt I8 3) = RDec (-6667) 4 /\
  eval Neg false 0 (OInt U8 127) ONull = RInt I8 (-127) /\
  eval Plus false 0 (ODec 15 1) (ODec 225 2) = RDec 375 2.
Proof. repeat split; vm_compute; reflexivity. Qed.

(* ---------- ABS and SIGN ---------- *)
Definition carrier_half (t : ity) : Z :=
  match go_carrier t with I8 => 128 | I16 => 32768 | I32 => 2147483648 | _ => two63 end.

Theorem abs_exact t z :
  in_range t z ->
  (unsigned t = true -> absf (OInt t z) = RInt (go_carrier t) z) /\
  (unsigned t = false -> z <> - carrier_half t -> absf (OInt t z) = RInt (go_carrier t) (Z.abs z)).
Proof.
  intros R. split; intros U.
  - unfold absf. rewrite U. reflexivity.
  - intros Hz. unfold absf. rewrite U. f_equal.
    unfold in_range, ity_min, ity_max, min_i64, max_i64 in R. unfold carrier_half, two63 in Hz.
    destruct (Z.ltb_spec z 0); [|rewrite Z.abs_eq by lia; reflexivity].
    rewrite Z.abs_neq by lia.
    destruct t; cbn [unsigned] in U; try discriminate; unfold wrap_carrier, go_carrier in *;
      unfold wrap_i8, wrap_i16, wrap_i32, wrap_i64, two63; apply wrapS_id; lia.
Qed.

Lemma abs_minimum_wraps :
  absf (OInt I8 (-128)) = RInt I8 (-128) /\ absf (OInt I64 min_i64) = RInt I64 min_i64.
Proof. split; vm_compute; reflexivity. Qed.

Theorem abs_decimal_exact m s : absf (ODec m s) = RDec (Z.abs m) s.
Proof. reflexivity. Qed.

Theorem sign_integer_exact t z : signf (OInt t z) = RInt I8 (Z.sgn z).
Proof. reflexivity. Qed.

Lemma sign_decimal_rounds : signf (ODec 4 1) = RInt I8 0 /\ signf (ODec (-4) 1) = RInt I8 0 /\ signf (ODec 5 1) = RInt I8 1.
Proof. repeat split; vm_compute; reflexivity. Qed.
