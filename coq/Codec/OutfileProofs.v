(* C50 - proofs about the INTO OUTFILE writer / LOAD DATA reader model. *)
From Coq Require Import List NArith ZArith Bool Lia.
Import ListNotations.
From GMS Require Import Codec.Outfile.
Open Scope N_scope.

(* ---------- generic list / prefix facts ---------- *)

Lemma is_prefix_app : forall p x, is_prefix p (p ++ x) = true.
Proof.
  induction p as [|a p IH]; intros x; cbn; [reflexivity|].
  rewrite N.eqb_refl, IH. reflexivity.
Qed.

Lemma is_prefix_hd_neq : forall p c tl, p <> [] -> c <> hd 0 p -> is_prefix p (c :: tl) = false.
Proof.
  intros [|a p] c tl Hne Hc; [congruence|]. cbn in *.
  destruct (N.eqb_spec a c) as [->|]; [congruence|reflexivity].
Qed.

Lemma bytes_eq_refl : forall a, bytes_eq a a = true.
Proof. induction a as [|x a IH]; cbn; [reflexivity|]. rewrite N.eqb_refl, IH. reflexivity. Qed.

Lemma bytes_eq_true : forall a b, bytes_eq a b = true -> a = b.
Proof.
  induction a as [|x a IH]; intros [|y b] H; cbn in H; try discriminate; [reflexivity|].
  apply andb_prop in H. destruct H as [H1 H2]. apply N.eqb_eq in H1. apply IH in H2. congruence.
Qed.

Lemma mem_false_neq : forall c l x, mem c l = false -> In x l -> c <> x.
Proof.
  unfold mem. intros c l x H Hin ->.
  assert (existsb (N.eqb x) l = true) as E by (apply existsb_exists; exists x; split; [assumption|apply N.eqb_refl]).
  congruence.
Qed.

Lemma mem_app_false : forall c a b, mem c (a ++ b) = false -> mem c a = false /\ mem c b = false.
Proof. unfold mem. intros c a b H. rewrite existsb_app in H. apply orb_false_elim in H. exact H. Qed.

Lemma mem_false_all : forall c l, mem c l = false -> Forall (fun x => x <> c) l.
Proof.
  intros c l H. apply Forall_forall. intros x Hin E. subst x.
  exact (mem_false_neq c l c H Hin eq_refl).
Qed.

(* ---------- decimal printing and parsing ---------- *)

Definition pstep (a d : N) : N := 10 * a + (d - 48).

Lemma parse_N_fold : forall ds, parse_N ds = fold_left pstep ds 0.
Proof. reflexivity. Qed.

Lemma to_digits_parse : forall fuel n acc,
  n < 10 ^ N.of_nat fuel -> (0 < fuel)%nat ->
  fold_left pstep (to_digits_aux fuel n acc) 0 = fold_left pstep acc n.
Proof.
  induction fuel as [|f IH]; intros n acc Hn Hf; [lia|].
  cbn [to_digits_aux]. destruct (N.ltb_spec n 10) as [Hlt|Hge].
  - cbn [fold_left]. f_equal. unfold pstep. rewrite N.mod_small by assumption. lia.
  - assert (n / 10 < 10 ^ N.of_nat f) as Hd.
    { apply N.div_lt_upper_bound; [lia|].
      replace (N.of_nat (S f)) with (N.succ (N.of_nat f)) in Hn by lia.
      rewrite N.pow_succ_r' in Hn. exact Hn. }
    destruct f as [|f'].
    { cbn in Hn. lia. }
    rewrite IH by (try assumption; lia).
    cbn [fold_left]. f_equal. unfold pstep.
    pose proof (N.div_mod n 10 ltac:(lia)) as E.
    assert (n mod 10 < 10) as Hm by (apply N.mod_lt; lia).
    clear - E Hm. set (m := n mod 10) in *. set (q := n / 10) in *. clearbody m q. lia.
Qed.

Lemma to_digits_digits : forall fuel n acc,
  forallb is_digit acc = true -> forallb is_digit (to_digits_aux fuel n acc) = true.
Proof.
  induction fuel as [|f IH]; intros n acc H; [exact H|].
  cbn [to_digits_aux].
  assert (is_digit (48 + n mod 10) = true) as Hd.
  { assert (n mod 10 < 10) as Hm by (apply N.mod_lt; lia). unfold is_digit.
    set (m := n mod 10) in *. clearbody m.
    apply andb_true_intro. split; apply N.leb_le; lia. }
  destruct (n <? 10).
  - cbn [forallb]. rewrite Hd, H. reflexivity.
  - apply IH. cbn [forallb]. rewrite Hd, H. reflexivity.
Qed.

(* shape of the result: a non-zero leading digit (or the single digit 0) in front of the accumulator *)
Lemma to_digits_shape : forall fuel n acc,
  n < 10 ^ N.of_nat fuel -> (0 < fuel)%nat ->
  exists d r, to_digits_aux fuel n acc = d :: r /\ 48 <= d <= 57 /\
              (d = 48 -> n = 0 /\ r = acc) /\ (n = 0 -> r = acc).
Proof.
  induction fuel as [|f IH]; intros n acc Hn Hf; [lia|].
  cbn [to_digits_aux]. destruct (N.ltb_spec n 10) as [Hlt|Hge].
  - exists (48 + n mod 10), acc. rewrite N.mod_small by assumption.
    split; [reflexivity|]. split; [lia|]. split; [intros; split; [lia|reflexivity]|reflexivity].
  - assert (n / 10 < 10 ^ N.of_nat f) as Hd.
    { apply N.div_lt_upper_bound; [lia|].
      replace (N.of_nat (S f)) with (N.succ (N.of_nat f)) in Hn by lia.
      rewrite N.pow_succ_r' in Hn. exact Hn. }
    destruct f as [|f']; [cbn in Hn; lia|].
    destruct (IH (n / 10) ((48 + n mod 10) :: acc) Hd ltac:(lia)) as (d & r & E & Hr & H0 & _).
    exists d, r. split; [exact E|]. split; [exact Hr|].
    assert (0 < n / 10) as Hpos.
    { apply N.div_str_pos. lia. }
    split; [intros Hd0; destruct (H0 Hd0); lia | intros; lia].
Qed.

Lemma render_N_spec : forall n, n < 10 ^ 20 ->
  exists d r, render_N n = d :: r /\ 48 <= d <= 57 /\ forallb is_digit (d :: r) = true /\
              parse_N (d :: r) = n /\ (d = 48 -> n = 0 /\ r = []).
Proof.
  intros n Hn. unfold render_N.
  destruct (to_digits_shape 20 n [] Hn ltac:(lia)) as (d & r & E & Hr & H0 & _).
  exists d, r. split; [exact E|]. split; [exact Hr|]. split.
  - rewrite <- E. apply to_digits_digits. reflexivity.
  - split; [|exact H0]. rewrite <- E, parse_N_fold.
    change (fun a d0 : N => 10 * a + (d0 - 48)) with pstep.
    rewrite to_digits_parse by (try exact Hn; lia). reflexivity.
Qed.

Lemma parse_int_unsigned : forall d r, d <> 45 ->
  parse_int (d :: r) =
  if forallb is_digit (d :: r) && (negb (d =? 48) || (is_nil r && true))
  then (if in_int64 (Z.of_N (parse_N (d :: r))) then Some (Z.of_N (parse_N (d :: r))) else None)
  else None.
Proof.
  intros d r Hd. unfold parse_int. destruct d as [|p]; [reflexivity|].
  do 6 (destruct p as [p|p|]; try reflexivity). congruence.
Qed.

Lemma parse_int_render : forall z, in_int64 z = true -> parse_int (render_Z z) = Some z.
Proof.
  intros z Hz. pose proof Hz as Hz'. unfold in_int64 in Hz'. apply andb_prop in Hz'.
  destruct Hz' as [Hlo Hhi]. apply Z.leb_le in Hlo. apply Z.leb_le in Hhi.
  destruct z as [|p|p].
  - vm_compute. reflexivity.
  - unfold render_Z.
    assert (Z.to_N (Z.pos p) < 10 ^ 20) as Hn by (change (10 ^ 20) with 100000000000000000000; lia).
    destruct (render_N_spec _ Hn) as (d & r & E & Hr & Hdig & Hp & H0).
    rewrite E.
    assert (d <> 45) as Hd45 by lia.
    rewrite (parse_int_unsigned d r Hd45).
    assert (d =? 48 = false) as Hnz.
    { apply N.eqb_neq. intros E48. destruct (H0 E48) as [Habs _]. cbn in Habs. lia. }
    rewrite Hdig, Hnz. cbn [negb orb andb].
    rewrite Hp. replace (Z.of_N (Z.to_N (Z.pos p))) with (Z.pos p) by lia. rewrite Hz. reflexivity.
  - unfold render_Z.
    assert (N.pos p < 10 ^ 20) as Hn by (change (10 ^ 20) with 100000000000000000000; lia).
    destruct (render_N_spec _ Hn) as (d & r & E & Hr & Hdig & Hp & H0).
    rewrite E. unfold parse_int.
    assert (d =? 48 = false) as Hnz.
    { apply N.eqb_neq. intros E48. destruct (H0 E48) as [Habs _]. lia. }
    rewrite Hdig, Hnz. cbn [negb orb andb].
    rewrite Hp. replace (- Z.of_N (N.pos p))%Z with (Z.neg p) by lia. rewrite Hz. reflexivity.
Qed.

Lemma render_Z_first : forall z, in_int64 z = true ->
  exists d r, render_Z z = d :: r /\ (d = 45 \/ 48 <= d <= 57).
Proof.
  intros z Hz. unfold in_int64 in Hz. apply andb_prop in Hz.
  destruct Hz as [Hlo Hhi]. apply Z.leb_le in Hlo. apply Z.leb_le in Hhi.
  destruct z as [|p|p].
  - exists 48, []. split; [vm_compute; reflexivity|right; lia].
  - unfold render_Z.
    assert (Z.to_N (Z.pos p) < 10 ^ 20) as Hn by (change (10 ^ 20) with 100000000000000000000; lia).
    destruct (render_N_spec _ Hn) as (d & r & E & Hr & _). exists d, r. split; [exact E|right; exact Hr].
  - unfold render_Z. eexists 45, _. split; [reflexivity|left; reflexivity].
Qed.

(* ---------- the guard in propositional form ---------- *)

Section Guarded.
  Variable o : opts.
  Hypothesis WF : wf_opts o = true.

  Lemma ftne : ft o <> [].
  Proof. pose proof WF as W. unfold wf_opts in W. destruct (ft o); [cbn in W; discriminate|congruence]. Qed.
  Lemma ltne : lt o <> [].
  Proof.
    pose proof WF as W. unfold wf_opts in W. destruct (lt o); [|congruence].
    rewrite andb_false_r in W. cbn in W. discriminate.
  Qed.

  Lemma wf_parts :
    (length (enc o) <= 1)%nat /\ (length (esc o) <= 1)%nat /\ encEqEsc o = false /\
    mem (hd 0 (lt o)) (ls o ++ ft o ++ enc o ++ esc o) = false /\
    mem (hd 0 (ft o)) (enc o ++ esc o) = false /\
    (if is_nil (esc o) then forallb (safe o) str_NULL else negb (78 =? hd 0 (lt o))) = true.
  Proof.
    pose proof WF as W. unfold wf_opts in W.
    repeat (apply andb_prop in W; let H := fresh "W" in destruct W as [W H]).
    repeat split.
    - apply Nat.leb_le. assumption.
    - apply Nat.leb_le. assumption.
    - apply negb_true_iff. assumption.
    - apply negb_true_iff. assumption.
    - apply negb_true_iff. assumption.
    - assumption.
  Qed.

  Lemma safe_spec : forall c, safe o c = true ->
    c <> hd 0 (ft o) /\ c <> hd 0 (lt o) /\ mem c (enc o) = false /\ mem c (esc o) = false.
  Proof.
    intros c H. unfold safe in H.
    repeat (apply andb_prop in H; let H' := fresh "S" in destruct H as [H H']).
    apply negb_true_iff in H, S, S0, S1. repeat split; try assumption; apply N.eqb_neq; assumption.
  Qed.

  (* a safe byte is none of the syntax bytes the field loop looks for *)
  Lemma safe_not_enc : forall c, safe o c = true -> hasEnc o && (c =? encb o) = false.
  Proof.
    intros c H. destruct (safe_spec c H) as (_ & _ & He & _).
    unfold hasEnc, encb. destruct (enc o) as [|e r]; [reflexivity|]. cbn.
    cbn in He. apply orb_false_elim in He. destruct He as [He _]. exact He.
  Qed.

  Lemma safe_not_esc : forall c, safe o c = true -> hasEsc o && negb (encEqEsc o) && (c =? escb o) = false.
  Proof.
    intros c H. destruct (safe_spec c H) as (_ & _ & _ & He).
    unfold hasEsc, escb. destruct (esc o) as [|e r]; [reflexivity|]. cbn [is_nil negb hd].
    cbn in He. apply orb_false_elim in He. destruct He as [He _]. rewrite He.
    rewrite andb_false_r. reflexivity.
  Qed.

  Lemma safe_not_ft : forall c tl, safe o c = true -> is_prefix (ft o) (c :: tl) = false.
  Proof.
    intros c tl H. destruct (safe_spec c H) as (Hf & _). apply is_prefix_hd_neq; [exact ftne|assumption].
  Qed.

  (* L1: a run of safe bytes is copied to the current field *)
  Lemma pf_safe_run : forall nlt c rest inEnc cur acc,
    forallb (safe o) c = true ->
    pf o nlt (c ++ rest) O inEnc cur acc = pf o nlt rest O inEnc (rev c ++ cur) acc.
  Proof.
    intros nlt c. induction c as [|ch c IH]; intros rest inEnc cur acc H; [reflexivity|].
    cbn [forallb] in H. apply andb_prop in H. destruct H as [Hs Hc].
    cbn [app pf]. rewrite (safe_not_enc ch Hs), (safe_not_esc ch Hs). cbn [andb].
    rewrite (safe_not_ft ch (c ++ rest) Hs). rewrite andb_false_r.
    rewrite IH by exact Hc. cbn [rev]. rewrite <- app_assoc. reflexivity.
  Qed.

  (* L2: bytes consumed by an earlier i += k *)
  Lemma pf_skip : forall nlt a rest inEnc cur acc,
    pf o nlt (a ++ rest) (length a) inEnc cur acc = pf o nlt rest O inEnc cur acc.
  Proof.
    intros nlt a. induction a as [|x a IH]; intros rest inEnc cur acc; [reflexivity|].
    cbn [app length pf]. apply IH.
  Qed.

  Lemma hd_ft_not_enc : hasEnc o && (hd 0 (ft o) =? encb o) = false.
  Proof.
    destruct wf_parts as (_ & _ & _ & _ & Hm & _). apply mem_app_false in Hm. destruct Hm as [Hm _].
    unfold hasEnc, encb. destruct (enc o) as [|e r]; [reflexivity|]. cbn.
    cbn in Hm. apply orb_false_elim in Hm. destruct Hm as [Hm _]. exact Hm.
  Qed.

  Lemma hd_ft_not_esc : hasEsc o && negb (encEqEsc o) && (hd 0 (ft o) =? escb o) = false.
  Proof.
    destruct wf_parts as (_ & _ & _ & _ & Hm & _). apply mem_app_false in Hm. destruct Hm as [_ Hm].
    unfold hasEsc, escb. destruct (esc o) as [|e r]; [reflexivity|]. cbn [is_nil negb hd].
    cbn in Hm. apply orb_false_elim in Hm. destruct Hm as [Hm _]. rewrite Hm.
    rewrite andb_false_r. reflexivity.
  Qed.

  Lemma pf_cons0 : forall nlt ch tl inEnc cur acc,
    pf o nlt (ch :: tl) O inEnc cur acc =
        let isEnc := hasEnc o && (ch =? encb o) in
        let isEsc := hasEsc o && negb (encEqEsc o) && (ch =? escb o) in
        if isEnc && negb inEnc && is_nil cur then pf o nlt tl O true cur acc
        else if isEnc && inEnc && encEqEsc o && (match tl with c2 :: _ => c2 =? encb o | [] => false end)
             then pf o nlt tl 1%nat inEnc (encb o :: cur) acc
        else if isEnc && inEnc then
               if is_prefix (ft o) tl || (is_nil tl && nlt) then pf o nlt tl O false cur acc
               else pf o nlt tl O inEnc (ch :: cur) acc
        else if isEsc && negb (is_nil tl) then pf o nlt tl 1%nat inEnc (rev (unescape (hd 0 tl)) ++ cur) acc
        else if negb inEnc && is_prefix (ft o) (ch :: tl)
             then pf o nlt tl (pred (length (ft o))) inEnc [] (rev cur :: acc)
        else pf o nlt tl O inEnc (ch :: cur) acc.
  Proof. reflexivity. Qed.

  (* L3: a field terminator outside an enclosure closes the field *)
  Lemma pf_ft : forall nlt rest cur acc,
    pf o nlt (ft o ++ rest) O false cur acc = pf o nlt rest O false [] (rev cur :: acc).
  Proof.
    intros nlt rest cur acc.
    pose proof (is_prefix_app (ft o) rest) as Hp.
    pose proof hd_ft_not_enc as He. pose proof hd_ft_not_esc as Hs.
    pose proof ftne as Hfn.
    destruct (ft o) as [|f fr] eqn:Eft; [congruence|].
    cbn [hd] in He, Hs.
    cbn [app pf]. rewrite He, Hs. cbn [andb negb]. rewrite Eft.
    change (f :: fr ++ rest) with ((f :: fr) ++ rest). rewrite Hp.
    cbn [length pred]. apply pf_skip.
  Qed.

  (* L4 / L5: opening and closing enclosure *)
  Lemma pf_open : forall nlt e rest acc, enc o = [e] ->
    pf o nlt (e :: rest) O false [] acc = pf o nlt rest O true [] acc.
  Proof.
    intros nlt e rest acc E. cbn [pf]. unfold hasEnc, encb. rewrite E. cbn [is_nil negb hd].
    rewrite N.eqb_refl. reflexivity.
  Qed.

  Lemma pf_close : forall e rest cur acc, enc o = [e] ->
    (rest = [] \/ is_prefix (ft o) rest = true) ->
    pf o true (e :: rest) O true cur acc = pf o true rest O false cur acc.
  Proof.
    intros e rest cur acc E Hrest. destruct wf_parts as (_ & _ & Hne & _).
    cbn [pf]. rewrite Hne. unfold hasEnc, encb. rewrite E. cbn [is_nil negb hd].
    rewrite N.eqb_refl. cbn [andb negb].
    destruct Hrest as [-> | Hp].
    - cbn [is_nil andb]. rewrite orb_true_r. reflexivity.
    - rewrite Hp. reflexivity.
  Qed.

  (* L6: the NULL marker *)
  Lemma pf_null : forall nlt rest acc,
    pf o nlt (null_marker o ++ rest) O false [] acc = pf o nlt rest O false (rev str_NULL) acc.
  Proof.
    intros nlt rest acc. destruct wf_parts as (Hle & Hl & Hne & _ & _ & Hn).
    unfold null_marker. destruct (esc o) as [|x xr] eqn:Eesc.
    - cbn [is_nil] in *. rewrite pf_safe_run by exact Hn. rewrite app_nil_r. reflexivity.
    - cbn [is_nil]. destruct xr; [|cbn in Hl; lia].
      cbn [app str_N]. rewrite pf_cons0.
      assert (hasEnc o && (x =? encb o) = false) as He.
      { unfold encEqEsc, hasEnc, hasEsc, encb in *. rewrite Eesc in Hne.
        destruct (enc o) as [|e er] eqn:Eenc; [reflexivity|]. cbn [is_nil negb andb hd] in *.
        destruct er; [|cbn in Hle; lia].
        cbn in Hne. rewrite andb_true_r in Hne. rewrite N.eqb_sym. exact Hne. }
      rewrite He. cbn [andb].
      unfold hasEsc, escb. rewrite Eesc, Hne. cbn [is_nil negb andb hd].
      rewrite N.eqb_refl. cbn [andb hd]. change (78 :: rest) with ([78] ++ rest).
      rewrite (pf_skip nlt [78] rest). rewrite app_nil_r. reflexivity.
  Qed.

  (* what the reader must see for a value *)
  Definition fc (v : val) : bytes :=
    match v with VNull => str_NULL | VInt z => render_Z z | VStr s => s | VRaw t => t end.

  Lemma replace_noop : forall old new s, old <> [] -> Forall (fun c => c <> hd 0 old) s ->
    replace_go old new s O = s.
  Proof.
    intros old new s Hne H. induction H as [|c s Hc _ IH]; [reflexivity|].
    cbn [replace_go]. rewrite is_prefix_hd_neq by assumption. rewrite IH. reflexivity.
  Qed.

  Lemma safe_all_not_lt : forall s, forallb (safe o) s = true -> Forall (fun c => c <> hd 0 (lt o)) s.
  Proof.
    intros s H. apply Forall_forall. intros c Hin.
    rewrite forallb_forall in H. destruct (safe_spec c (H c Hin)) as (_ & Hl & _). exact Hl.
  Qed.

  Lemma val_ok_content : forall t v, val_ok o t v = true -> v <> VNull ->
    content o v = fc v /\ plain v = fc v /\ forallb (safe o) (fc v) = true.
  Proof.
    intros t v H Hn. destruct v as [|z|s|raw]; [congruence| | |destruct t; discriminate]; destruct t; cbn in H; try discriminate.
    - apply andb_prop in H. destruct H as [_ H]. repeat split; assumption.
    - apply andb_prop in H. destruct H as [H _]. repeat split; try assumption.
      cbn. pose proof ltne as Hl. destruct (lt o) eqn:E; [reflexivity|]. cbn [is_nil]. rewrite <- E.
      apply replace_noop; [rewrite E; exact Hl|]. apply safe_all_not_lt. exact H.
  Qed.

  (* one field, whatever follows it on the line *)
  Lemma pf_field : forall t v rest acc, val_ok o t v = true ->
    (rest = [] \/ is_prefix (ft o) rest = true) ->
    pf o true (field o t v ++ rest) O false [] acc = pf o true rest O false (rev (fc v)) acc.
  Proof.
    intros t v rest acc H Hrest. destruct v as [|z|s|raw] eqn:Ev; [| | |destruct t; discriminate].
    - cbn [field fc]. apply pf_null.
    - destruct (val_ok_content t (VInt z) H ltac:(discriminate)) as (Hc & Hp & Hs).
      unfold field. destruct (negb (enc_opt o) || is_text t).
      + rewrite Hc. destruct wf_parts as (Hle & _).
        destruct (enc o) as [|e er] eqn:Eenc.
        * cbn [app]. rewrite app_nil_r. rewrite pf_safe_run by exact Hs. rewrite app_nil_r. reflexivity.
        * destruct er; [|cbn in Hle; lia].
          cbn [app]. rewrite (pf_open true e _ acc Eenc). rewrite <- app_assoc.
          rewrite pf_safe_run by exact Hs. rewrite app_nil_r. cbn [app].
          apply pf_close; assumption.
      + rewrite Hp. rewrite pf_safe_run by exact Hs. rewrite app_nil_r. reflexivity.
    - destruct (val_ok_content t (VStr s) H ltac:(discriminate)) as (Hc & Hp & Hs).
      unfold field. destruct (negb (enc_opt o) || is_text t).
      + rewrite Hc. destruct wf_parts as (Hle & _).
        destruct (enc o) as [|e er] eqn:Eenc.
        * cbn [app]. rewrite app_nil_r. rewrite pf_safe_run by exact Hs. rewrite app_nil_r. reflexivity.
        * destruct er; [|cbn in Hle; lia].
          cbn [app]. rewrite (pf_open true e _ acc Eenc). rewrite <- app_assoc.
          rewrite pf_safe_run by exact Hs. rewrite app_nil_r. cbn [app].
          apply pf_close; assumption.
      + rewrite Hp. rewrite pf_safe_run by exact Hs. rewrite app_nil_r. reflexivity.
  Qed.

  (* a whole line body *)
  Lemma pf_fields : forall vs tys v acc, row_ok o tys (v :: vs) = true ->
    pf o true (field o (hd TInt tys) v ++ dump_fields o (tl tys) vs false) O false [] acc
    = rev acc ++ map fc (v :: vs).
  Proof.
    induction vs as [|v' vs IH]; intros tys v acc H.
    - destruct tys as [|t ts]; [discriminate|]. cbn [row_ok] in H. apply andb_prop in H. destruct H as [Hv _].
      cbn [dump_fields hd tl]. rewrite (pf_field t v [] acc Hv (or_introl eq_refl)).
      cbn [pf]. rewrite rev_involutive. cbn [rev map]. reflexivity.
    - destruct tys as [|t ts]; [discriminate|]. cbn [row_ok] in H. apply andb_prop in H. destruct H as [Hv Hr].
      cbn [dump_fields hd tl].
      rewrite (pf_field t v _ acc Hv).
      2:{ right. apply is_prefix_app. }
      rewrite pf_ft. rewrite rev_involutive.
      pose proof (IH ts v' (fc v :: acc) Hr) as Q. cbn [rev map] in Q |- *.
      rewrite <- app_assoc in Q. exact Q.
  Qed.

  (* ---------- typed rebuild of the row ---------- *)

  Lemma to_val_fc : forall t v, val_ok o t v = true -> to_val t (Some (fc v)) = Some v.
  Proof.
    intros t v H. destruct v as [|z|s|raw]; [| | |destruct t; discriminate].
    - reflexivity.
    - destruct t; cbn in H; try discriminate. apply andb_prop in H. destruct H as [Hz _].
      cbn [fc to_val]. destruct (render_Z_first z Hz) as (d & r & E & Hd).
      rewrite E. cbn [is_nil].
      assert (bytes_eq (d :: r) str_NULL = false) as Hn.
      { cbn. destruct (N.eqb_spec d 78); [lia|reflexivity]. }
      rewrite Hn, <- E. rewrite parse_int_render by exact Hz. reflexivity.
    - destruct t; cbn in H; try discriminate. apply andb_prop in H. destruct H as [_ Hn].
      apply negb_true_iff in Hn. cbn [fc to_val]. destruct s as [|c s]; [reflexivity|].
      cbn [is_nil]. rewrite Hn. reflexivity.
  Qed.

  Lemma build_row_fc : forall tys r, row_ok o tys r = true -> build_row tys (map fc r) = Some r.
  Proof.
    induction tys as [|t ts IH]; intros [|v vs] H; try discriminate; [reflexivity|].
    cbn [row_ok] in H. apply andb_prop in H. destruct H as [Hv Hr].
    cbn [map build_row hd_error tl]. rewrite (to_val_fc t v Hv), (IH vs Hr). reflexivity.
  Qed.

  (* ---------- one exported line read back ---------- *)

  Lemma has_suffix_app : forall s b, has_suffix s (b ++ s) = true.
  Proof. intros s b. unfold has_suffix. rewrite rev_app_distr. apply is_prefix_app. Qed.

  Lemma firstn_app_len : forall (b s : bytes), firstn (length (b ++ s) - length s) (b ++ s) = b.
  Proof.
    intros b s. rewrite app_length. replace (length b + length s - length s)%nat with (length b + 0)%nat by lia.
    rewrite firstn_app_2. cbn. apply app_nil_r.
  Qed.

  Lemma parse_line_prefix_ls : forall x, parse_line_prefix o (ls o ++ x) = x.
  Proof.
    intros x. unfold parse_line_prefix. destruct (ls o) as [|a l] eqn:E; [reflexivity|].
    cbn [is_nil]. rewrite <- E.
    assert (index_of (ls o) (ls o ++ x) = Some O) as Hi.
    { destruct (ls o ++ x) eqn:E2; cbn [index_of]; rewrite <- ?E2, is_prefix_app; reflexivity. }
    rewrite Hi. cbn [Nat.add]. rewrite skipn_app, skipn_all, Nat.sub_diag. reflexivity.
  Qed.

  Lemma parse_row : forall tys r, row_ok o tys r = true ->
    exists fs, parse_fields o (dump_row o tys r) = Some fs /\ build_row tys fs = Some r.
  Proof.
    intros tys r H. unfold dump_row, parse_fields. rewrite parse_line_prefix_ls.
    destruct (dump_fields o tys r true ++ lt o) eqn:El.
    { apply app_eq_nil in El. destruct El as [_ El]. exfalso. exact (ltne El). }
    cbn [is_nil]. rewrite <- El. rewrite has_suffix_app, firstn_app_len. cbn [orb].
    destruct r as [|v vs].
    - destruct tys; [|discriminate]. eexists. split; [reflexivity|reflexivity].
    - cbn [dump_fields app]. rewrite (pf_fields vs tys v [] H). cbn [rev app].
      eexists. split; [reflexivity|]. apply build_row_fc. exact H.
  Qed.

  (* ---------- splitting the file into lines ---------- *)

  Lemma index_of_first : forall body rest,
    Forall (fun c => c <> hd 0 (lt o)) body -> index_of (lt o) (body ++ lt o ++ rest) = Some (length body).
  Proof.
    intros body rest H. induction H as [|c body Hc _ IH].
    - cbn [app length]. destruct (lt o ++ rest) eqn:E; cbn [index_of]; rewrite <- ?E, is_prefix_app; reflexivity.
    - cbn [app length index_of]. rewrite is_prefix_hd_neq by (try exact ltne; assumption).
      rewrite IH. reflexivity.
  Qed.

  Lemma split_lines_bodies : forall bodies fuel,
    Forall (Forall (fun c => c <> hd 0 (lt o))) bodies -> (length bodies < fuel)%nat ->
    split_lines fuel (lt o) (concat (map (fun b => b ++ lt o) bodies)) = map (fun b => b ++ lt o) bodies.
  Proof.
    induction bodies as [|b bs IH]; intros fuel H Hf.
    - destruct fuel; reflexivity.
    - destruct fuel as [|f]; [cbn in Hf; lia|].
      inversion H as [|? ? Hb Hbs]; subst.
      cbn [map concat split_lines].
      destruct ((b ++ lt o) ++ concat (map (fun b0 => b0 ++ lt o) bs)) eqn:E.
      { apply app_eq_nil in E. destruct E as [E _]. apply app_eq_nil in E. destruct E as [_ E]. exfalso. exact (ltne E). }
      rewrite <- E. rewrite <- app_assoc. rewrite (index_of_first b _ Hb).
      rewrite app_assoc. rewrite <- (app_length b (lt o)).
      rewrite firstn_app, firstn_all, Nat.sub_diag. cbn [firstn]. rewrite app_nil_r.
      rewrite skipn_app, skipn_all, Nat.sub_diag. cbn [skipn app].
      rewrite IH by (try assumption; cbn in Hf; lia). reflexivity.
  Qed.

  (* no byte of an exported line body is the first byte of the line terminator *)
  Lemma null_marker_no_lt : Forall (fun c => c <> hd 0 (lt o)) (null_marker o).
  Proof.
    destruct wf_parts as (_ & _ & _ & Hm & _ & Hn).
    apply mem_app_false in Hm. destruct Hm as [_ Hm]. apply mem_app_false in Hm. destruct Hm as [_ Hm].
    apply mem_app_false in Hm. destruct Hm as [_ Hm].
    unfold null_marker. destruct (esc o) as [|x xr] eqn:E.
    - cbn [is_nil] in *. apply safe_all_not_lt. exact Hn.
    - cbn [is_nil] in *. apply Forall_app. split.
      + apply Forall_forall. intros c Hin E2. apply (mem_false_neq _ _ c Hm Hin). congruence.
      + constructor; [|constructor]. apply negb_true_iff in Hn. apply N.eqb_neq in Hn. exact Hn.
  Qed.

  Lemma field_no_lt : forall t v, val_ok o t v = true -> Forall (fun c => c <> hd 0 (lt o)) (field o t v).
  Proof.
    intros t v H.
    destruct wf_parts as (_ & _ & _ & Hm & _).
    apply mem_app_false in Hm. destruct Hm as [_ Hm]. apply mem_app_false in Hm. destruct Hm as [_ Hm].
    apply mem_app_false in Hm. destruct Hm as [Hme _].
    assert (Forall (fun c => c <> hd 0 (lt o)) (enc o)) as Henc.
    { apply Forall_forall. intros c Hin E2. apply (mem_false_neq _ _ c Hme Hin). congruence. }
    destruct v as [|z|s|raw] eqn:Ev; [| | |destruct t; discriminate].
    - apply null_marker_no_lt.
    - destruct (val_ok_content t (VInt z) H ltac:(discriminate)) as (Hc & Hp & Hs).
      unfold field. destruct (negb (enc_opt o) || is_text t).
      + rewrite Hc. repeat (apply Forall_app; split); try assumption; apply safe_all_not_lt; assumption.
      + rewrite Hp. apply safe_all_not_lt; assumption.
    - destruct (val_ok_content t (VStr s) H ltac:(discriminate)) as (Hc & Hp & Hs).
      unfold field. destruct (negb (enc_opt o) || is_text t).
      + rewrite Hc. repeat (apply Forall_app; split); try assumption; apply safe_all_not_lt; assumption.
      + rewrite Hp. apply safe_all_not_lt; assumption.
  Qed.

  Lemma dump_fields_no_lt : forall r tys first, row_ok o tys r = true ->
    Forall (fun c => c <> hd 0 (lt o)) (dump_fields o tys r first).
  Proof.
    destruct wf_parts as (_ & _ & _ & Hm & _).
    apply mem_app_false in Hm. destruct Hm as [_ Hm]. apply mem_app_false in Hm. destruct Hm as [Hmf _].
    assert (Forall (fun c => c <> hd 0 (lt o)) (ft o)) as Hft.
    { apply Forall_forall. intros c Hin E2. apply (mem_false_neq _ _ c Hmf Hin). congruence. }
    induction r as [|v vs IH]; intros tys first H; [constructor|].
    destruct tys as [|t ts]; [discriminate|]. cbn [row_ok] in H. apply andb_prop in H. destruct H as [Hv Hr].
    cbn [dump_fields hd tl]. apply Forall_app. split.
    - destruct first; [constructor|exact Hft].
    - apply Forall_app. split; [apply field_no_lt; exact Hv|apply IH; exact Hr].
  Qed.

  Lemma load_tokens_rows : forall tys rows, Forall (fun r => row_ok o tys r = true) rows ->
    load_tokens o tys (map (dump_row o tys) rows) = Some rows.
  Proof.
    intros tys rows H. induction H as [|r rows Hr _ IH]; [reflexivity|].
    cbn [map load_tokens]. destruct (parse_row tys r Hr) as (fs & E1 & E2).
    rewrite E1, E2, IH. reflexivity.
  Qed.

  Lemma skipn_map_l : forall (A B : Type) (f : A -> B) n (l : list A), skipn n (map f l) = map f (skipn n l).
  Proof. intros A B f n. induction n as [|n IH]; intros [|x l]; cbn; try reflexivity. apply IH. Qed.

  Lemma Forall_skipn_l : forall (A : Type) (P : A -> Prop) n (l : list A), Forall P l -> Forall P (skipn n l).
  Proof.
    intros A P n. induction n as [|n IH]; intros l H; [exact H|].
    destruct l as [|x l]; [constructor|]. cbn. apply IH. inversion H; assumption.
  Qed.

  (* with IGNORE n LINES: the first n exported rows are dropped, the others come back *)
  Theorem load_ignore_dump_guarded : forall n tys rows,
    Forall (fun r => row_ok o tys r = true) rows ->
    load_ignore n o tys (dump o tys rows) = Loaded (skipn n rows).
  Proof.
    intros n tys rows H. unfold load_ignore.
    assert (is_nil (lt o) = false) as Hnil.
    { pose proof ltne as Hl. destruct (lt o); [congruence|reflexivity]. }
    rewrite Hnil. cbn [andb].
    destruct wf_parts as (_ & _ & _ & Hm & _). apply mem_app_false in Hm. destruct Hm as [Hml _].
    assert (Forall (fun c => c <> hd 0 (lt o)) (ls o)) as Hls.
    { apply Forall_forall. intros c Hin E2. apply (mem_false_neq _ _ c Hml Hin). congruence. }
    set (bodies := map (fun r => ls o ++ dump_fields o tys r true) rows).
    assert (dump o tys rows = concat (map (fun b => b ++ lt o) bodies)) as Ed.
    { unfold dump, bodies. rewrite map_map. f_equal. apply map_ext. intros r. unfold dump_row.
      rewrite app_assoc. reflexivity. }
    assert (map (fun b => b ++ lt o) bodies = map (dump_row o tys) rows) as Em.
    { unfold bodies. rewrite map_map. apply map_ext. intros r. unfold dump_row. rewrite app_assoc. reflexivity. }
    rewrite Ed at 2. rewrite split_lines_bodies.
    - rewrite Em, skipn_map_l, load_tokens_rows by (apply Forall_skipn_l; exact H). reflexivity.
    - unfold bodies. apply Forall_forall. intros b Hin. apply in_map_iff in Hin. destruct Hin as (r & <- & Hin).
      apply Forall_app. split; [exact Hls|]. apply dump_fields_no_lt. rewrite Forall_forall in H. apply H. exact Hin.
    - (* fuel *)
      assert (forall bs : list bytes, (length bs <= length (concat (map (fun b => b ++ lt o) bs)))%nat) as Hlen.
      { assert (1 <= length (lt o))%nat as Hl.
        { pose proof ltne as Hl. destruct (lt o); [congruence|cbn; lia]. }
        induction bs as [|b bs IHb]; [cbn; lia|]. cbn [map concat length]. rewrite !app_length. lia. }
      rewrite Ed. specialize (Hlen bodies). apply Nat.lt_succ_r. exact Hlen.
  Qed.

  Theorem load_dump_id_guarded : forall tys rows,
    Forall (fun r => row_ok o tys r = true) rows -> load o tys (dump o tys rows) = Loaded rows.
  Proof. intros tys rows H. unfold load. rewrite (load_ignore_dump_guarded 0 tys rows H). reflexivity. Qed.
End Guarded.

(* ---------- the guard stated on strings only ---------- *)

(* '-' and the ten digits *)
Definition num_bytes : bytes := [45; 48; 49; 50; 51; 52; 53; 54; 55; 56; 57].
Definition num_safe (o : opts) : bool := forallb (safe o) num_bytes.

Definition val_ok_str (o : opts) (t : colty) (v : val) : bool :=
  match v, t with
  | VNull, _ => true
  | VInt z, TInt => in_int64 z
  | VStr s, TText => forallb (safe o) s && negb (bytes_eq s str_NULL)
  | _, _ => false
  end.
Fixpoint row_ok_str (o : opts) (tys : list colty) (r : list val) : bool :=
  match tys, r with
  | [], [] => true
  | t :: ts, v :: vs => val_ok_str o t v && row_ok_str o ts vs
  | _, _ => false
  end.

Lemma digit_in_num : forall c, is_digit c = true -> In c num_bytes.
Proof.
  intros c H. unfold is_digit in H. apply andb_prop in H. destruct H as [H1 H2].
  apply N.leb_le in H1. apply N.leb_le in H2. unfold num_bytes.
  assert (c = 48 \/ c = 49 \/ c = 50 \/ c = 51 \/ c = 52 \/ c = 53 \/ c = 54 \/ c = 55 \/ c = 56 \/ c = 57) as D by lia.
  cbn. intuition.
Qed.

Lemma render_Z_num : forall z, in_int64 z = true -> Forall (fun c => In c num_bytes) (render_Z z).
Proof.
  intros z Hz. unfold in_int64 in Hz. apply andb_prop in Hz.
  destruct Hz as [Hlo Hhi]. apply Z.leb_le in Hlo. apply Z.leb_le in Hhi.
  assert (forall n, Forall (fun c => In c num_bytes) (render_N n)) as Hn.
  { intros n. apply Forall_forall. intros c Hin. apply digit_in_num.
    assert (forallb is_digit (render_N n) = true) as Hd by (apply to_digits_digits; reflexivity).
    rewrite forallb_forall in Hd. apply Hd. exact Hin. }
  destruct z as [|p|p]; unfold render_Z; try apply Hn.
  constructor; [cbn; tauto|apply Hn].
Qed.

Lemma val_ok_of_str : forall o t v, num_safe o = true -> val_ok_str o t v = true -> val_ok o t v = true.
Proof.
  intros o t v Hn H. destruct v as [|z|s|raw]; destruct t; cbn in H |- *; try assumption; try discriminate.
  rewrite H. cbn [andb]. apply forallb_forall. intros c Hin.
  unfold num_safe in Hn. rewrite forallb_forall in Hn. apply Hn.
  pose proof (render_Z_num z H) as F. rewrite Forall_forall in F. apply F. exact Hin.
Qed.

Lemma row_ok_of_str : forall o tys r, num_safe o = true -> row_ok_str o tys r = true -> row_ok o tys r = true.
Proof.
  intros o. induction tys as [|t ts IH]; intros [|v vs] Hn H; try discriminate; [reflexivity|].
  cbn [row_ok_str] in H. apply andb_prop in H. destruct H as [Hv Hr].
  cbn [row_ok]. rewrite (val_ok_of_str o t v Hn Hv), (IH vs Hn Hr). reflexivity.
Qed.

Theorem load_dump_id_strings : forall o tys rows,
  wf_opts o = true -> num_safe o = true ->
  Forall (fun r => row_ok_str o tys r = true) rows ->
  load o tys (dump o tys rows) = Loaded rows.
Proof.
  intros o tys rows WF Hn H. apply load_dump_id_guarded; [exact WF|].
  apply Forall_forall. intros r Hin. apply row_ok_of_str; [exact Hn|].
  rewrite Forall_forall in H. apply H. exact Hin.
Qed.

(* ---------- refutations: the faithful model does not round-trip ---------- *)

Definition dflt : opts := mkOpts [9] [] false [92] [] [10].      (* tab, no enclosure, backslash, newline *)
Definition csv : opts := mkOpts [44] [34] false [92] [] [10].    (* comma, double quote, backslash, newline *)

Definition roundtrips (o : opts) (tys : list colty) (rows : list (list val)) : Prop :=
  load o tys (dump o tys rows) = Loaded rows.

Ltac refute := unfold roundtrips; vm_compute; discriminate.

(* a TEXT value containing the field terminator (no enclosure) *)
Lemma refuted_field_terminator :
  wf_opts dflt = true /\ row_typed [TText; TText] [VStr [97; 9; 98]; VStr [99]] = true /\
  ~ roundtrips dflt [TText; TText] [[VStr [97; 9; 98]; VStr [99]]].
Proof. split; [reflexivity|split; [reflexivity|refute]]. Qed.

(* a TEXT value containing the enclosure followed by the field terminator *)
Lemma refuted_enclosure :
  wf_opts csv = true /\ row_typed [TText; TText] [VStr [97; 34; 44; 98]; VStr [99]] = true /\
  ~ roundtrips csv [TText; TText] [[VStr [97; 34; 44; 98]; VStr [99]]].
Proof. split; [reflexivity|split; [reflexivity|refute]]. Qed.

(* a TEXT value containing the escape character: a\b comes back as a<BS> *)
Lemma refuted_escape :
  wf_opts dflt = true /\
  load dflt [TText] (dump dflt [TText] [[VStr [97; 92; 98]]]) = Loaded [[VStr [97; 8]]].
Proof. split; reflexivity. Qed.

(* the four-letter string NULL comes back as SQL NULL *)
Lemma refuted_null_string :
  wf_opts dflt = true /\ load dflt [TText] (dump dflt [TText] [[VStr str_NULL]]) = Loaded [[VNull]].
Proof. split; reflexivity. Qed.

(* a line terminator inside a value is escaped by the writer and still splits the line *)
Lemma refuted_line_terminator :
  wf_opts dflt = true /\
  load dflt [TText; TText] (dump dflt [TText; TText] [[VStr [97; 10; 98]; VStr [99]]])
  = Loaded [[VStr [97; 92]; VNull]; [VStr [98]; VStr [99]]].
Proof. split; reflexivity. Qed.

Theorem load_dump_refuted :
  ~ (forall o tys rows, wf_opts o = true -> Forall (fun r => row_typed tys r = true) rows ->
       load o tys (dump o tys rows) = Loaded rows).
Proof.
  intros H. specialize (H dflt [TText] [[VStr str_NULL]] eq_refl).
  assert (Forall (fun r => row_typed [TText] r = true) [[VStr str_NULL]]) as F by (repeat constructor).
  specialize (H F). vm_compute in H. discriminate.
Qed.

(* the clauses of wf_opts are needed: with rows that satisfy the guard, dropping a clause breaks the round trip *)
Definition enc_is_esc : opts := mkOpts [44] [34] false [34] [] [10].   (* ENCLOSED BY and ESCAPED BY both the double quote *)
Lemma wf_needs_enc_neq_esc :
  wf_opts enc_is_esc = false /\ row_ok enc_is_esc [TText; TText] [VNull; VStr [99]] = true /\
  ~ roundtrips enc_is_esc [TText; TText] [[VNull; VStr [99]]].
Proof. split; [reflexivity|split; [reflexivity|refute]]. Qed.

Definition lt_in_ls : opts := mkOpts [44] [] false [92] [62; 10] [10]. (* LINES STARTING BY '>\n' TERMINATED BY '\n' *)
Lemma wf_needs_lt_not_in_prefix :
  wf_opts lt_in_ls = false /\ row_ok lt_in_ls [TText] [VStr [97]] = true /\
  ~ roundtrips lt_in_ls [TText] [[VStr [97]]].
Proof. split; [reflexivity|split; [reflexivity|refute]]. Qed.

Definition empty_lt : opts := mkOpts [44] [] false [92] [] [].        (* LINES TERMINATED BY '' *)
Lemma wf_needs_line_terminator :
  wf_opts empty_lt = false /\ load empty_lt [TText] (dump empty_lt [TText] [[VStr [97]]]) = NoTermination.
Proof. split; reflexivity. Qed.

(* non-vacuity: a mixed table under CSV-like options meets every hypothesis *)
Definition ex_rows : list (list val) :=
  [[VInt (-5)%Z; VStr [97; 32; 98]; VNull]; [VNull; VStr []; VStr [120]]; [VInt 9223372036854775807%Z; VStr [78]; VStr [110; 117; 108; 108]]].
Lemma guarded_nonvacuous :
  wf_opts csv = true /\ num_safe csv = true /\
  forallb (row_ok_str csv [TInt; TText; TText]) ex_rows = true /\
  dump csv [TInt; TText; TText] ex_rows <> [].
Proof. repeat split; try reflexivity. vm_compute. discriminate. Qed.
