(* C52 — model of the WKB / internal (SRID-prefixed) geometry codec of go-mysql-server.
   Mirrors sql/types/geometry.go (Deserialize*, WriteEWKBHeader, WriteWKBHeader, WriteCount,
   AllocateGeoTypeBuffer), the Serialize/WriteData/Swap/CalculateSize methods of point.go, linestring.go,
   polygon.go, multipoint.go, multilinestring.go, multipolygon.go, geometrycollection.go, and
   function/spatial/wkb.go (AsWKB.Eval, EvalGeomFromWKB).
   Coordinates are opaque 64-bit patterns (N); bytes are N; a Go slice operation that would be out of
   range is the explicit outcome [Panic]. *)
From Coq Require Import List NArith ZArith Arith Bool Lia.
Import ListNotations.
Open Scope N_scope.

(* ---------- outcomes ---------- *)
Inductive res (A : Type) : Type := Ok (a : A) | Err | Panic.
Arguments Ok {A} a.
Arguments Err {A}.
Arguments Panic {A}.

Definition bind {A B} (r : res A) (f : A -> res B) : res B :=
  match r with Ok a => f a | Err => Err | Panic => Panic end.

(* ---------- geometry values ---------- *)
Record pt : Type := mkpt { px : N; py : N }.

Inductive shape : Type :=
| SPoint (p : pt)
| SLine (ps : list pt)
| SPoly (rings : list (list pt))
| SMPoint (ps : list pt)
| SMLine (ls : list (list pt))
| SMPoly (polys : list (list (list pt)))
| SColl (gs : list shape).

(* Go keeps an SRID field in every nested value; Serialize only writes the outermost one and every
   Deserialize* sets all nested fields to it, so the model keeps one SRID per value. *)
Definition geom : Type := (N * shape)%type.

Definition type_code (s : shape) : N :=
  match s with
  | SPoint _ => 1 | SLine _ => 2 | SPoly _ => 3 | SMPoint _ => 4 | SMLine _ => 5 | SMPoly _ => 6 | SColl _ => 7
  end.

(* ---------- fixed-width integers ---------- *)
Fixpoint le_bytes (k : nat) (n : N) : list N :=
  match k with O => [] | S k' => (n mod 256) :: le_bytes k' (n / 256) end.

Fixpoint le_val (bs : list N) : N :=
  match bs with [] => 0 | b :: r => b + 256 * le_val r end.

Definition enc (big : bool) (k : nat) (n : N) : list N :=
  if big then rev (le_bytes k n) else le_bytes k n.

Definition dec (big : bool) (bs : list N) : N :=
  if big then le_val (rev bs) else le_val bs.

Definition len {A} (l : list A) : N := N.of_nat (length l).

(* ---------- writer (big = false is what the Go code writes) ---------- *)
Definition w_pt (big : bool) (p : pt) : list N := enc big 8 (px p) ++ enc big 8 (py p).

Definition w_hdr (big : bool) (typ : N) : list N := (if big then 0 else 1) :: enc big 4 typ.

Definition w_line (big : bool) (ps : list pt) : list N :=
  enc big 4 (len ps) ++ flat_map (w_pt big) ps.

Definition w_poly (big : bool) (rs : list (list pt)) : list N :=
  enc big 4 (len rs) ++ flat_map (w_line big) rs.

Fixpoint w_shape (big : bool) (s : shape) : list N :=
  match s with
  | SPoint p => w_pt big p
  | SLine ps => w_line big ps
  | SPoly rs => w_poly big rs
  | SMPoint ps => enc big 4 (len ps) ++ flat_map (fun p => w_hdr big 1 ++ w_pt big p) ps
  | SMLine ls => enc big 4 (len ls) ++ flat_map (fun l => w_hdr big 2 ++ w_line big l) ls
  | SMPoly ps => enc big 4 (len ps) ++ flat_map (fun p => w_hdr big 3 ++ w_poly big p) ps
  | SColl gs => enc big 4 (len gs) ++ flat_map (fun g => w_hdr big (type_code g) ++ w_shape big g) gs
  end.

(* Serialize: SRID (always little endian), byte-order flag 1, type, data *)
Definition serialize (g : geom) : list N :=
  enc false 4 (fst g) ++ w_hdr false (type_code (snd g)) ++ w_shape false (snd g).

(* CalculateSize / the per-type size computations that feed AllocateGeoTypeBuffer:
   (numPoints, numCounts, numWKBHeaders) *)
Definition npoints_rings (rs : list (list pt)) : nat := fold_right (fun l a => length l + a)%nat 0%nat rs.

Fixpoint calc_size (s : shape) : nat * nat * nat :=
  match s with
  | SPoint _ => (1, 0, 0)%nat
  | SLine ps => (length ps, 1, 0)%nat
  | SPoly rs => (npoints_rings rs, length rs + 1, 0)%nat
  | SMPoint ps => (length ps, 1, length ps)%nat
  | SMLine ls => (npoints_rings ls, length ls + 1, length ls)%nat
  | SMPoly ps => (fold_right (fun p a => npoints_rings p + a) 0 ps,
                  fold_right (fun p a => length p + a) 0 ps + length ps + 1, length ps)%nat
  | SColl gs =>
      let '(p, c, h) := fold_right (fun g acc =>
                          let '(p, c, h) := acc in
                          let '(p1, c1, h1) := calc_size g in (p1 + p, c1 + c, h1 + 1 + h)%nat) (0, 0, 0)%nat gs in
      (p, c + 1, h)%nat
  end.

Definition alloc_size (s : shape) : nat :=
  let '(p, c, h) := calc_size s in (16 * p + 4 * c + 5 * h)%nat.

(* ---------- reader ---------- *)
Definition split_at (n : nat) (buf : list N) : option (list N * list N) :=
  if (n <=? length buf)%nat then Some (firstn n buf, skipn n buf) else None.

Definition u32 (big : bool) (buf : list N) : N := dec big (firstn 4 buf).

(* DeserializePoint: the slice must be exactly 16 bytes *)
Definition rd_point (big : bool) (b : list N) : res pt :=
  if (length b =? 16)%nat then Ok (mkpt (dec big (firstn 8 b)) (dec big (skipn 8 b))) else Err.

(* DeserializePoint(buf[:PointSize], ...) ; buf = buf[PointSize:] *)
Definition rd_point_slice (big : bool) (buf : list N) : res (pt * list N) :=
  match split_at 16 buf with
  | None => Panic
  | Some (b, rest) => bind (rd_point big b) (fun p => Ok (p, rest))
  end.

(* "for i := range make([]T, count)": [o] is the outcome when the buffer is exhausted with elements still to
   read (fuel is always >= the buffer length, and every step consumes at least one byte or fails) *)
Fixpoint rd_seq {A} (step : list N -> res (A * list N)) (o : res (list A * list N))
         (fuel : nat) (cnt : N) (buf : list N) : res (list A * list N) :=
  if cnt =? 0 then Ok ([], buf) else
  match fuel with
  | O => o
  | S f => bind (step buf) (fun '(a, rest) =>
           bind (rd_seq step o f (cnt - 1) rest) (fun '(l, r) => Ok (a :: l, r)))
  end.

(* DeserializeLine *)
Definition rd_line (big : bool) (buf : list N) : res (list pt * list N) :=
  if (length buf <? 36)%nat then Err else
  rd_seq (rd_point_slice big) Panic (length buf) (u32 big buf) (skipn 4 buf).

(* DeserializePoly *)
Definition rd_poly (big : bool) (buf : list N) : res (list (list pt) * list N) :=
  if (length buf <? 72)%nat then Err else
  rd_seq (rd_line big) Err (length buf) (u32 big buf) (skipn 4 buf).

(* DeserializeWKBHeader + buf = buf[WKBHeaderSize:] *)
Definition rd_hdr (buf : list N) : option (bool * N * list N) :=
  if (length buf <? 5)%nat then None else
  let big := nth 0 buf 0 =? 0 in
  Some (big, dec big (firstn 4 (skipn 1 buf)), skipn 5 buf).

Definition with_hdr {A} (want : N) (f : bool -> list N -> res (A * list N)) (buf : list N) : res (A * list N) :=
  match rd_hdr buf with
  | None => Err
  | Some (big, typ, b1) => if typ =? want then f big b1 else Err
  end.

Definition rd_mpoint (big : bool) (buf : list N) : res (list pt * list N) :=
  if (length buf <? 25)%nat then Err else
  rd_seq (with_hdr 1 rd_point_slice) Err (length buf) (u32 big buf) (skipn 4 buf).

Definition rd_mline (big : bool) (buf : list N) : res (list (list pt) * list N) :=
  if (length buf <? 45)%nat then Err else
  rd_seq (with_hdr 2 rd_line) Err (length buf) (u32 big buf) (skipn 4 buf).

Definition rd_mpoly (big : bool) (buf : list N) : res (list (list (list pt)) * list N) :=
  if (length buf <? 81)%nat then Err else
  rd_seq (with_hdr 3 rd_poly) Err (length buf) (u32 big buf) (skipn 4 buf).

Definition rmap {A B} (f : A -> B) (r : res (A * list N)) : res (B * list N) :=
  bind r (fun '(a, rest) => Ok (f a, rest)).

(* the switch inside DeserializeGeomColl; [fuel] bounds the nesting depth (each level consumes >= 9 bytes) *)
Fixpoint rd_by_type (fuel : nat) (big : bool) (typ : N) (buf : list N) : res (shape * list N) :=
  match fuel with
  | O => Err
  | S f =>
    match typ with
    | 1 => rmap SPoint (rd_point_slice big buf)
    | 2 => rmap SLine (rd_line big buf)
    | 3 => rmap SPoly (rd_poly big buf)
    | 4 => rmap SMPoint (rd_mpoint big buf)
    | 5 => rmap SMLine (rd_mline big buf)
    | 6 => rmap SMPoly (rd_mpoly big buf)
    | 7 => if (length buf <? 4)%nat then Err else
           rmap SColl (rd_seq (fun b => match rd_hdr b with
                                        | None => Err
                                        | Some (bg, t, b1) => rd_by_type f bg t b1
                                        end) Err (length buf) (u32 big buf) (skipn 4 buf))
    | _ => Err
    end
  end.

(* the switch of GeometryType.Convert / EvalGeomFromWKB: a top-level point gets the whole remaining buffer
   (exact length required); everything else ignores trailing bytes *)
Definition rd_top (big : bool) (typ : N) (buf : list N) : res shape :=
  if typ =? 1 then bind (rd_point big buf) (fun p => Ok (SPoint p))
  else bind (rd_by_type (S (length buf)) big typ buf) (fun '(s, _) => Ok s).

(* GeometryType.Convert([]byte): DeserializeEWKBHeader then the switch *)
Definition deserialize (buf : list N) : res geom :=
  if (length buf <? 9)%nat then Err else
  let srid := dec false (firstn 4 buf) in
  let big := nth 4 buf 0 =? 0 in
  let typ := dec big (firstn 4 (skipn 5 buf)) in
  bind (rd_top big typ (skipn 9 buf)) (fun s => Ok (srid, s)).

(* ---------- axis swap and the SQL functions ---------- *)
Definition swap_pt (p : pt) : pt := mkpt (py p) (px p).

Fixpoint swap (s : shape) : shape :=
  match s with
  | SPoint p => SPoint (swap_pt p)
  | SLine ps => SLine (map swap_pt ps)
  | SPoly rs => SPoly (map (map swap_pt) rs)
  | SMPoint ps => SMPoint (map swap_pt ps)
  | SMLine ls => SMLine (map (map swap_pt) ls)
  | SMPoly ps => SMPoly (map (map (map swap_pt)) ps)
  | SColl gs => SColl (map swap gs)
  end.

Definition geo_srid : N := 4326.

(* AsWKB.Eval: swap for SRID 4326, Serialize()[4:] *)
Definition as_wkb (g : geom) : list N :=
  let s := if fst g =? geo_srid then swap (snd g) else snd g in
  w_hdr false (type_code s) ++ w_shape false s.

(* EvalGeomFromWKB with an explicit, already validated SRID argument and no axis-order option *)
Definition geom_from_wkb (buf : list N) (srid : N) : res geom :=
  match rd_hdr buf with
  | None => Err
  | Some (big, typ, b1) =>
      bind (rd_top big typ b1) (fun s => Ok (srid, if srid =? geo_srid then swap s else s))
  end.

(* ---------- bounding boxes and the memory backend's spatial lookup (integer coordinates) ---------- *)
(* BBox() folds math.Min / math.Max from the sentinels (+MaxFloat64, +MaxFloat64, -MaxFloat64, -MaxFloat64);
   over the ordered coordinates the model uses None for "no point yet". *)
Open Scope Z_scope.
Definition zpt : Type := (Z * Z)%type.
Definition box : Type := option (Z * Z * Z * Z).      (* minX minY maxX maxY *)

Definition box_add (b : box) (p : zpt) : box :=
  match b with
  | None => Some (fst p, snd p, fst p, snd p)
  | Some (a, b0, c, d) => Some (Z.min a (fst p), Z.min b0 (snd p), Z.max c (fst p), Z.max d (snd p))
  end.

Definition bbox_pts (ps : list zpt) : box := fold_left box_add ps None.

(* the four-way interval test of spatialTableIter.Next *)
Definition ivl_test (gmin gmax imin imax : Z) : bool :=
  ((gmin <=? imin) && (imin <=? gmax)) || ((gmin <=? imax) && (imax <=? gmax)) ||
  ((imin <=? gmin) && (gmin <=? imax)) || ((imin <=? gmax) && (gmax <=? imax)).

Definition box_test (g q : Z * Z * Z * Z) : bool :=
  let '(gx0, gy0, gx1, gy1) := g in
  let '(qx0, qy0, qx1, qy1) := q in
  ivl_test gx0 gx1 qx0 qx1 && ivl_test gy0 gy1 qy0 qy1.
Close Scope Z_scope.
