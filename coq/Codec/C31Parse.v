(* C31 -- STR_TO_DATE: model of sql/planbuilder/dateparse (ParseDateWithFormat, parsersFromFormatString, the
   per-specifier consumers of parsers.go, the combinators of combinators.go) for the specifiers
   %Y %y %m %c %d %e %H %k %h %I %l %i %s %S %f %p %T %r %% and literal bytes.  Strings are byte lists. *)
From Coq Require Import List NArith ZArith Bool Lia.
Import ListNotations.
From GMS Require Import Codec.C31Date Codec.C31Format.
Open Scope Z_scope.

Definition is_digit (c : N) : bool := ((48 <=? c) && (c <=? 57))%N.
Definition is_sp (c : N) : bool := (c =? 32)%N.
(* strings.TrimSpace on ASCII: \t \n \v \f \r and space *)
Definition is_ws (c : N) : bool := (((9 <=? c) && (c <=? 13)) || (c =? 32))%N.

Fixpoint ltrim (s : list N) : list N :=                      (* takeAllSpaces *)
  match s with c :: r => if is_sp c then ltrim r else s | [] => [] end.
Fixpoint ltrim_ws (s : list N) : list N :=
  match s with c :: r => if is_ws c then ltrim_ws r else s | [] => [] end.
Definition trim_ws (s : list N) : list N := rev (ltrim_ws (rev (ltrim_ws s))).

(* takeAtMost(count, str, isNumeral): the digits captured and the rest; [fuel] = count (or the length for takeAll) *)
Fixpoint span_digits (fuel : nat) (s : list N) : list N * list N :=
  match fuel, s with
  | S k, c :: r => if is_digit c then let '(a, b) := span_digits k r in (c :: a, b) else ([], s)
  | _, _ => ([], s)
  end.

(* strconv.ParseUint(numChars, 10, 32) *)
Definition parse_uint (ds : list N) : option Z :=
  match ds with
  | [] => None
  | _ => let v := num_of ds in if v <? 2 ^ 32 then Some v else None
  end.

Definition take_number (s : list N) : option (Z * list N) :=
  let '(ds, rest) := span_digits (length s) s in
  match parse_uint ds with Some v => Some (v, rest) | None => None end.
Definition take_number_at_most (n : nat) (s : list N) : option (Z * list N) :=
  let '(ds, rest) := span_digits n s in
  match parse_uint ds with Some v => Some (v, rest) | None => None end.

(* the fields collected by the parsers (datetime struct); [pam]: an AM/PM marker was read (it is never used) *)
Record pst := { py : option Z; pmo : option Z; pd : option Z; ph : option Z; pmi : option Z; psec : option Z;
                pus : option Z; pam : bool; pdoy : option Z; pwd : bool }.
Definition pst0 : pst := {| py := None; pmo := None; pd := None; ph := None; pmi := None; psec := None; pus := None; pam := false;
                            pdoy := None; pwd := false |}.
Definition set_y v s := {| py := Some v; pmo := pmo s; pd := pd s; ph := ph s; pmi := pmi s; psec := psec s; pus := pus s; pam := pam s; pdoy := pdoy s; pwd := pwd s |}.
Definition set_mo v s := {| py := py s; pmo := Some v; pd := pd s; ph := ph s; pmi := pmi s; psec := psec s; pus := pus s; pam := pam s; pdoy := pdoy s; pwd := pwd s |}.
Definition set_d v s := {| py := py s; pmo := pmo s; pd := Some v; ph := ph s; pmi := pmi s; psec := psec s; pus := pus s; pam := pam s; pdoy := pdoy s; pwd := pwd s |}.
Definition set_h v s := {| py := py s; pmo := pmo s; pd := pd s; ph := Some v; pmi := pmi s; psec := psec s; pus := pus s; pam := pam s; pdoy := pdoy s; pwd := pwd s |}.
Definition set_mi v s := {| py := py s; pmo := pmo s; pd := pd s; ph := ph s; pmi := Some v; psec := psec s; pus := pus s; pam := pam s; pdoy := pdoy s; pwd := pwd s |}.
Definition set_s v s := {| py := py s; pmo := pmo s; pd := pd s; ph := ph s; pmi := pmi s; psec := Some v; pus := pus s; pam := pam s; pdoy := pdoy s; pwd := pwd s |}.
Definition set_us v s := {| py := py s; pmo := pmo s; pd := pd s; ph := ph s; pmi := pmi s; psec := psec s; pus := Some v; pam := pam s; pdoy := pdoy s; pwd := pwd s |}.
Definition set_am s := {| py := py s; pmo := pmo s; pd := pd s; ph := ph s; pmi := pmi s; psec := psec s; pus := pus s; pam := true; pdoy := pdoy s; pwd := pwd s |}.
Definition set_doy v s := {| py := py s; pmo := pmo s; pd := pd s; ph := ph s; pmi := pmi s; psec := psec s; pus := pus s; pam := pam s; pdoy := Some v; pwd := pwd s |}.
Definition set_wd s := {| py := py s; pmo := pmo s; pd := pd s; ph := ph s; pmi := pmi s; psec := psec s; pus := pus s; pam := pam s; pdoy := pdoy s; pwd := true |}.

(* literalParser(literal).  A non-empty all-space remainder with a non-space literal would index an empty string
   in the Go code; that state is unreachable from ParseDateWithFormat (the date is trimmed) and is a failure here. *)
Definition lit (c : N) (chars : list N) : option (list N) :=
  if (match chars with [] => true | _ => false end) && negb (c =? 32)%N then None
  else let chars := ltrim chars in
       if (c =? 32)%N then Some chars
       else match chars with x :: r => if (x =? c)%N then Some r else None | [] => None end.

Definition lower (c : N) : N := (if (65 <=? c) && (c <=? 90) then c + 32 else c)%N.
Definition parse_ampm (chars : list N) : option (list N) :=
  match chars with
  | a :: b :: r => if ((lower a =? 97) || (lower a =? 112))%N && (lower b =? 109)%N then Some r else None
  | _ => None
  end.

Definition hms (chars : list N) : option (Z * Z * Z * list N) :=     (* hh:mm:ss of %T and %r *)
  match take_number_at_most 2 chars with
  | Some (h, r1) =>
      match lit 58 r1 with
      | Some r2 =>
          match take_number_at_most 2 r2 with
          | Some (m, r3) =>
              match lit 58 r3 with
              | Some r4 => match take_number_at_most 2 r4 with Some (s, r5) => Some (h, m, s, r5) | None => None end
              | None => None
              end
          | None => None
          end
      | None => None
      end
  | None => None
  end.

(* month and weekday names: the input is lower-cased and compared with the lower-cased English names *)
Fixpoint lower_eq_prefix (name chars : list N) : bool :=      (* strings.HasPrefix(lower(chars), lower(name)) *)
  match name, chars with
  | [], _ => true
  | x :: n', y :: c' => (lower x =? lower y)%N && lower_eq_prefix n' c'
  | _ :: _, [] => false
  end.
Fixpoint find_month (abbrev : bool) (chars : list N) (m : nat) (fuel : nat) : option (Z * nat) :=
  match fuel with
  | O => None
  | S k =>
      let name := if abbrev then firstn 3 (month_name (Z.of_nat m)) else month_name (Z.of_nat m) in
      if lower_eq_prefix name chars then Some (Z.of_nat m, length name) else find_month abbrev chars (S m) k
  end.
Fixpoint find_weekday (chars : list N) (w : nat) (fuel : nat) : bool :=
  match fuel with
  | O => false
  | S k => if lower_eq_prefix (firstn 3 (weekday_name (Z.of_nat w))) chars then true else find_weekday chars (S w) k
  end.

Inductive tok := TLit (c : N) | TSpec (c : N).

Definition num_field (tn : option (Z * list N)) (lo hi : option Z) (f : Z -> pst -> pst) (st : pst) : option (pst * list N) :=
  match tn with
  | Some (v, rest) =>
      if (match lo with Some l => v <? l | None => false end) || (match hi with Some h => h <? v | None => false end)
      then None else Some (f v st, rest)
  | None => None
  end.

(* one specifier's consumer; [chars] has no leading space *)
Definition parse_spec (c : N) (st : pst) (chars : list N) : option (pst * list N) :=
  match c with
  | 89%N  => if (length chars <? 4)%nat then None else num_field (take_number_at_most 4 chars) None None set_y st
  | 121%N => num_field (take_number_at_most 2 chars) None None (fun v => set_y (if 70 <=? v then v + 1900 else v + 2000)) st
  | 109%N => num_field (take_number_at_most 2 chars) (Some 1) (Some 12) set_mo st
  | 99%N  => num_field (take_number chars) None None set_mo st
  | 100%N => num_field (take_number_at_most 2 chars) (Some 1) (Some 31) set_d st
  | 101%N => num_field (take_number chars) None None set_d st
  | 72%N | 107%N | 104%N | 73%N | 108%N => num_field (take_number chars) None None set_h st
  | 105%N => num_field (take_number chars) None None set_mi st
  | 115%N | 83%N => num_field (take_number chars) None None set_s st
  | 102%N => num_field (take_number chars) None None set_us st
  | 112%N => match parse_ampm chars with Some r => Some (set_am st, r) | None => None end
  | 84%N  => match hms chars with Some (h, m, s, r) => Some (set_s s (set_mi m (set_h h st)), r) | None => None end
  | 114%N => match hms chars with
             | Some (h, m, s, r) =>
                 match parse_ampm (ltrim r) with Some r' => Some (set_am (set_s s (set_mi m (set_h h st))), r') | None => None end
             | None => None
             end
  | 37%N  => match lit 37 chars with Some r => Some (st, r) | None => None end
  (* %b: at least three characters, a month abbreviation *)
  | 98%N  => if (length chars <? 3)%nat then None
             else match find_month true (firstn 3 chars) 1 12 with Some (m, _) => Some (set_mo m st, skipn 3 chars) | None => None end
  (* %M: a full month name is a prefix *)
  | 77%N  => match find_month false chars 1 12 with Some (m, k) => Some (set_mo m st, skipn k chars) | None => None end
  (* %D: a number, then two characters are dropped whatever they are *)
  | 68%N  => match take_number chars with Some (v, rest) => Some (set_d v st, skipn 2 rest) | None => None end
  | 106%N => num_field (take_number chars) None None set_doy st
  (* %a: a weekday abbreviation, parsed and ignored *)
  | 97%N  => if (length chars <? 3)%nat then None
             else if find_weekday (firstn 3 chars) 0 7 then Some (set_wd st, skipn 3 chars) else None
  | _ => None
  end.

Definition step (t : tok) (st : pst) (chars : list N) : option (pst * list N) :=
  match t with
  | TLit c => match lit c chars with Some r => Some (st, r) | None => None end
  | TSpec c => parse_spec c st chars
  end.

Fixpoint run (toks : list tok) (st : pst) (target : list N) : option pst :=
  match toks with
  | [] => Some st
  | t :: r => match step t st (ltrim target) with Some (st', rest) => run r st' rest | None => None end
  end.

(* parsersFromFormatString.  Specifiers outside the modelled set are unknown (%Q ...) or unsupported in the Go table
   (%U %u %V %v %W %w %X %x map to nil) and make the function fail: STR_TO_DATE returns NULL for them *)
Definition modelled (c : N) : bool :=
  existsb (N.eqb c) [89; 121; 109; 99; 100; 101; 72; 107; 104; 73; 108; 105; 115; 83; 102; 112; 84; 114; 37; 98; 77; 68; 106; 97]%N.
Definition other_valid (c : N) : bool := false.

Inductive fres := FOk (toks : list tok) | FFail | FUnmodelled.
Fixpoint tokens (fmt : list N) : fres :=
  match fmt with
  | [] => FOk []
  | 37%N :: [] => FFail                                   (* "%" at the end *)
  | 37%N :: c :: r =>
      if modelled c then match tokens r with FOk t => FOk (TSpec c :: t) | o => o end
      else if other_valid c then (match tokens r with FFail => FFail | _ => FUnmodelled end)
      else FFail
  | c :: r => match tokens r with FOk t => FOk (TLit c :: t) | o => o end
  end.

Definition has_spec (c : N) (toks : list tok) : bool :=
  existsb (fun t => match t with TSpec x => (x =? c)%N | TLit _ => false end) toks.
(* "cannot use 24 hour time (H) with AM/PM (p)": only the FIRST time specifier present, in the order of the
   timeSpecifiers table, is looked at *)
Definition time_specs : list N := [102; 72; 104; 73; 105; 107; 108; 112; 114; 83; 115; 84]%N.
Definition first_time_spec (toks : list tok) : option N := find (fun c => has_spec c toks) time_specs.
Definition ampm_conflict (toks : list tok) : bool :=
  match first_time_spec toks with
  | Some c => ((c =? 72) || (c =? 107) || (c =? 84))%N && has_spec 112 toks
  | None => false
  end.

Definition is_empty (s : pst) : bool :=
  match py s, pmo s, pd s, ph s, pmi s, psec s, pus s with
  | None, None, None, None, None, None, None => negb (pam s) && negb (pwd s) && (match pdoy s with None => true | Some _ => false end)
  | _, _, _, _, _, _, _ => false
  end.
Definition dflt (o : option Z) : Z := match o with Some v => v | None => 0 end.

(* time.Date(year, month, day, hours, minutes, seconds, nanoseconds, UTC): everything is normalised *)
Definition eval (s : pst) : date * Z :=
  (* a day of the year replaces month and day: time.Date(year, January, 0).AddDate(0, 0, doy) *)
  let '(y, m, d) :=
    match pdoy s with
    | Some n => let '(_, m', d') := add_days (go_date (dflt (py s)) 1 0) n in (dflt (py s), m', d')
    | None => (dflt (py s), dflt (pmo s), dflt (pd s))
    end in
  add_us (go_date y m d) 0
         (((dflt (ph s) * 60 + dflt (pmi s)) * 60 + dflt (psec s)) * 1000000 + dflt (pus s)).

Inductive sres := SNull | SVal (d : date) (tod : Z) | SUnmodelled.
Definition str_to_date (s fmt : list N) : sres :=
  match tokens fmt with
  | FFail => SNull
  | FUnmodelled => SUnmodelled
  | FOk toks =>
      if ampm_conflict toks then SNull
      else match run toks pst0 (trim_ws s) with
           | None => SNull
           | Some st => if is_empty st then SNull else let '(d, tod) := eval st in SVal d tod
           end
  end.
