(* C28 -- civil calendar used by the DATE/DATETIME wire text model.  The definitions below are COPIED from
   Codec/C31Date.v (proleptic Gregorian calendar over all of Z, day 0 = 1970-01-01; the reference for Go's
   time.Time.Date()/time.Date as used by sql/types/datetime.go appendDateFormat and time.Parse). *)
From Coq Require Import List NArith ZArith Bool Lia.
Import ListNotations.
Open Scope Z_scope.

Definition date : Type := (Z * Z * Z)%type.   (* year, month, day *)

Definition is_leap (y : Z) : bool := ((y mod 4 =? 0) && negb (y mod 100 =? 0)) || (y mod 400 =? 0).
Definition days_in_month (y m : Z) : Z :=
  if m =? 2 then (if is_leap y then 29 else 28)
  else if (m =? 4) || (m =? 6) || (m =? 9) || (m =? 11) then 30 else 31.
Definition valid_date (dt : date) : bool :=
  let '(y, m, d) := dt in (1 <=? m) && (m <=? 12) && (1 <=? d) && (d <=? days_in_month y m).

(* day-of-era pieces (one era = 400 years = 146097 days, starting on March 1st) *)
Definition doe_of (yoe m d : Z) : Z :=
  let mp := if 2 <? m then m - 3 else m + 9 in
  yoe * 365 + yoe / 4 - yoe / 100 + ((153 * mp + 2) / 5 + d - 1).
Definition civil_of_doe (doe : Z) : Z * Z * Z :=      (* (yoe, m, d) *)
  let yoe := (doe - doe / 1460 + doe / 36524 - doe / 146096) / 365 in
  let doy := doe - (365 * yoe + yoe / 4 - yoe / 100) in
  let mp := (5 * doy + 2) / 153 in
  (yoe, (if mp <? 10 then mp + 3 else mp - 9), doy - (153 * mp + 2) / 5 + 1).

Definition days_from_civil (dt : date) : Z :=
  let '(y, m, d) := dt in
  let y' := if m <=? 2 then y - 1 else y in
  let era := y' / 400 in
  era * 146097 + doe_of (y' - era * 400) m d - 719468.

Definition civil_from_days (z : Z) : date :=
  let z' := z + 719468 in
  let era := z' / 146097 in
  let '(yoe, m, d) := civil_of_doe (z' - era * 146097) in
  ((yoe + era * 400) + (if m <=? 2 then 1 else 0), m, d).
