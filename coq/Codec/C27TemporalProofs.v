(* C27 — proofs about the temporal model (Codec/C27Temporal.v) *)
From Coq Require Import ZArith Bool List Lia.
Import ListNotations.
From GMS Require Import Codec.C25Arith Codec.C25ArithProofs Codec.C27Convert Codec.C27Strings Codec.C26Compare Codec.C27Temporal.
Open Scope Z_scope.

Definition unit_us (p : Z) : Z := 10 ^ (6 - p).

Lemma unit_pos p : 0 <= p <= 6 -> 0 < unit_us p.
Proof. intros H. unfold unit_us. apply Z.pow_pos_nonneg; lia. Qed.

(* rounding to the precision: a multiple of the unit, nearest (half up), idempotent *)
Theorem round_us_nearest p us :
  0 <= p <= 6 ->
  (round_us p us) mod unit_us p = 0 /\ 2 * Z.abs (round_us p us - us) <= unit_us p.
Proof.
  intros Hp. pose proof (unit_pos p Hp) as U. unfold round_us. fold (unit_us p). set (u := unit_us p) in *.
  split; [apply Z.mod_mul; lia|].
  pose proof (Z.div_mod (us + u / 2) u ltac:(lia)) as D. pose proof (Z.mod_pos_bound (us + u / 2) u U) as B.
  pose proof (Z.div_mod u 2 ltac:(lia)) as D2. pose proof (Z.mod_pos_bound u 2 ltac:(lia)) as B2.
  nia.
Qed.

Theorem round_us_idempotent p us : 0 <= p <= 6 -> round_us p (round_us p us) = round_us p us.
Proof.
  intros Hp. pose proof (unit_pos p Hp) as U. unfold round_us. fold (unit_us p). set (u := unit_us p) in *.
  set (q := (us + u / 2) / u).
  assert (H2 : 0 <= u / 2 < u).
  { pose proof (Z.div_mod u 2 ltac:(lia)). pose proof (Z.mod_pos_bound u 2 ltac:(lia)). lia. }
  replace (q * u + u / 2) with (u / 2 + q * u) by ring.
  rewrite Z.div_add by lia. rewrite (Z.div_small (u / 2) u) by exact H2. reflexivity.
Qed.

Theorem trunc_day_idempotent us : trunc_day (trunc_day us) = trunc_day us.
Proof. unfold trunc_day. rewrite Z.div_mul by (unfold day_us; lia). reflexivity. Qed.

Theorem trunc_day_floor us : trunc_day us <= us < trunc_day us + day_us.
Proof.
  unfold trunc_day. pose proof (Z.div_mod us day_us ltac:(unfold day_us; lia)).
  pose proof (Z.mod_pos_bound us day_us ltac:(unfold day_us; lia)). lia.
Qed.

(* exact or rejected: an accepted text is well-formed in the strict grammar, its fields are valid, and the stored
   instant is the text's instant at the type's precision *)
Theorem conv_dt_exact_or_rejected k p bs us :
  conv_dt k p bs = DOk us ->
  exists c, parse_strict bs = Some c /\ valid_civil c = true /\
            us = match k with KDate => trunc_day (us_of_civil c) | _ => round_us p (us_of_civil c) end.
Proof.
  unfold conv_dt. destruct (parse_strict bs) as [c|] eqn:P; [|discriminate].
  intros H. exists c. split; [reflexivity|]. split.
  - unfold parse_strict in P. destruct (parse_date bs) as [[[[y m] d] rest]|]; [|discriminate].
    destruct rest; [|destruct (parse_tod _) as [[[[h mi] s] u]|]; [|discriminate]];
      match type of P with (if valid_civil ?x then _ else _) = _ => destruct (valid_civil x) eqn:V; [|discriminate] end;
      injection P as <-; exact V.
  - destruct k; injection H as <-; reflexivity.
Qed.

Theorem conv_dt_malformed_rejected k p bs : parse_strict bs = None -> conv_dt k p bs = DErr.
Proof. intros H. unfold conv_dt. rewrite H. reflexivity. Qed.

(* the stored instant is within half a unit of the text's instant, and storing it again does not change it *)
Theorem conv_dt_precision k p bs us c :
  0 <= p <= 6 -> k <> KDate -> conv_dt k p bs = DOk us -> parse_strict bs = Some c ->
  2 * Z.abs (us - us_of_civil c) <= unit_us p /\ round_us p us = us.
Proof.
  intros Hp Hk E P. unfold conv_dt in E. rewrite P in E.
  destruct k; try contradiction; injection E as <-;
    (split; [apply round_us_nearest; exact Hp|apply round_us_idempotent; exact Hp]).
Qed.

(* YEAR *)
Theorem conv_year_int_range z y : conv_year_int z = YOk y -> y = 0 \/ 1901 <= y <= 2155.
Proof.
  unfold conv_year_int.
  destruct (Z.eqb_spec z 0); [intros H; injection H as <-; auto|].
  destruct ((1 <=? z) && (z <=? 69)) eqn:A.
  { apply andb_prop in A. destruct A as [A1 A2]. apply Z.leb_le in A1, A2. intros H. injection H as <-. lia. }
  destruct ((70 <=? z) && (z <=? 99)) eqn:B.
  { apply andb_prop in B. destruct B as [B1 B2]. apply Z.leb_le in B1, B2. intros H. injection H as <-. lia. }
  destruct ((1901 <=? z) && (z <=? 2155)) eqn:C; [|discriminate].
  apply andb_prop in C. destruct C as [C1 C2]. apply Z.leb_le in C1, C2. intros H. injection H as <-. lia.
Qed.

Theorem conv_year_idempotent z y : conv_year_int z = YOk y -> conv_year_int y = YOk y.
Proof.
  intros H. destruct (conv_year_int_range z y H) as [->|R]; [reflexivity|].
  unfold conv_year_int. destruct (Z.eqb_spec y 0); [lia|].
  destruct (Z.leb_spec 1 y), (Z.leb_spec y 69); cbn [andb]; try lia.
  destruct (Z.leb_spec 70 y), (Z.leb_spec y 99); cbn [andb]; try lia.
  destruct (Z.leb_spec 1901 y), (Z.leb_spec y 2155); cbn [andb]; try lia. reflexivity.
Qed.

Theorem conv_year_four_digit_exact z : 1901 <= z <= 2155 -> conv_year_int z = YOk z.
Proof.
  intros R. unfold conv_year_int. destruct (Z.eqb_spec z 0); [lia|].
  destruct (Z.leb_spec 1 z), (Z.leb_spec z 69); cbn [andb]; try lia.
  destruct (Z.leb_spec 70 z), (Z.leb_spec z 99); cbn [andb]; try lia.
  destruct (Z.leb_spec 1901 z), (Z.leb_spec z 2155); cbn [andb]; try lia. reflexivity.
Qed.

(* TIME: within the range and with a valid fraction the core is exact *)
Theorem time_core_exact neg h m s micro :
  0 <= h <= 838 -> 0 <= m < 60 -> 0 <= s < 60 -> 0 <= micro < 1000000 ->
  ~ (h = 838 /\ m = 59 /\ s = 59) ->
  time_core neg h m s micro =
    TmOk ((if neg then -1 else 1) * (h * 3600000000 + m * 60000000 + s * 1000000 + micro)).
Proof.
  intros Hh Hm Hs Hu Hx. unfold time_core.
  destruct (Z.leb_spec 60 m); [lia|]. destruct (Z.leb_spec 60 s); [lia|]. cbn [orb].
  destruct (Z.eqb_spec micro 1000000); [lia|]. destruct (Z.eqb_spec s 60); [lia|].
  destruct (Z.eqb_spec m 60); [lia|]. destruct (Z.gtb_spec h 838); [lia|].
  destruct ((h =? 838) && (m =? 59) && (s =? 59)) eqn:X.
  - apply andb_prop in X. destruct X as [X X3]. apply andb_prop in X. destruct X as [X1 X2].
    apply Z.eqb_eq in X1, X2, X3. tauto.
  - destruct neg; f_equal; lia.
Qed.

(* REFUTED: malformed TIME text is rejected / out-of-range TIME is reported *)
Lemma time_junk_after_fraction_accepted :
  (* "11:59:30.451048abc" *)
  string_to_timespan [49;49;58;53;57;58;51;48;46;52;53;49;48;52;56;97;98;99] = TmOk 43170451049 /\
  (* "00:00:00.499999 foo" *)
  string_to_timespan [48;48;58;48;48;58;48;48;46;52;57;57;57;57;57;32;102;111;111] = TmOk 500000.
Proof. split; vm_compute; reflexivity. Qed.

Lemma time_beyond_range_clamped_silently :
  (* "999:59:59" *) string_to_timespan [57;57;57;58;53;57;58;53;57] = TmOk 3020399000000 /\
  (* "839:00:00" *) string_to_timespan [56;51;57;58;48;48;58;48;48] = TmOk 3020399000000.
Proof. split; vm_compute; reflexivity. Qed.

Lemma nonvacuous_temporal_convert :
  (* "2023-01-15 10:30:45.5" into DATETIME(0) rounds up *)
  conv_dt KDatetime 0 [50;48;50;51;45;48;49;45;49;53;32;49;48;58;51;48;58;52;53;46;53] = DOk 1673778646000000 /\
  (* "2023-02-30 10:00:00" *)
  conv_dt KDatetime 6 [50;48;50;51;45;48;50;45;51;48;32;49;48;58;48;48;58;48;48] = DErr /\
  (* "2023-01-15 10:30:45abc" *)
  conv_dt KDatetime 6 [50;48;50;51;45;48;49;45;49;53;32;49;48;58;51;48;58;52;53;97;98;99] = DErr /\
  (* "1500-06-15" into DATE *)
  conv_dt KDate 0 [49;53;48;48;45;48;54;45;49;53] = DOk (-14817513600000000) /\
  string_to_timespan [49;48;58;51;48;58;52;53] = TmOk 37845000000 /\
  string_to_timespan [49;48;58;54;49;58;52;53] = TmErr /\
  conv_year_str [50;48;50;51] = YOk 2023 /\ conv_year_str [49;57;48;48] = YErr /\ conv_year_str [48] = YOk 2000.
Proof. repeat split; vm_compute; reflexivity. Qed.
