(* C50 - what fmt's %v prints for the non-string, non-int64 values INTO OUTFILE meets: *apd.Decimal (plain notation
   with the stored scale), time.Time in UTC (Go's default layout, not SQL's), []byte (Go slice syntax). *)
From Coq Require Import List NArith ZArith Bool Lia.
Import ListNotations.
From GMS Require Import Codec.Outfile.
Open Scope N_scope.

Definition pad2 (n : N) : bytes := [48 + n / 10; 48 + n mod 10].
Definition pad4 (n : N) : bytes := [48 + n / 1000; 48 + (n / 100) mod 10; 48 + (n / 10) mod 10; 48 + n mod 10].
Definition go_utc : bytes := [32; 43; 48; 48; 48; 48; 32; 85; 84; 67].        (* " +0000 UTC" *)

Definition fmt_clock (hh mi ss : N) : bytes := pad2 hh ++ [58] ++ pad2 mi ++ [58] ++ pad2 ss.
Definition fmt_datetime (y mo d hh mi ss : N) : bytes :=
  pad4 y ++ [45] ++ pad2 mo ++ [45] ++ pad2 d ++ [32] ++ fmt_clock hh mi ss ++ go_utc.
Definition fmt_date (y mo d : N) : bytes := fmt_datetime y mo d 0 0 0.

Fixpoint join_sp (l : list bytes) : bytes :=
  match l with
  | [] => []
  | [x] => x
  | x :: l' => x ++ [32] ++ join_sp l'
  end.
Definition fmt_blob (b : bytes) : bytes := [91] ++ join_sp (map render_N b) ++ [93].

(* unscaled integer u and scale s: u * 10^-s in plain notation, s fractional digits *)
Definition fmt_dec (u : Z) (s : nat) : bytes :=
  let ds := render_N (Z.abs_N u) in
  let ds' := repeat 48 (S s - length ds) ++ ds in
  let k := (length ds' - s)%nat in
  (if (u <? 0)%Z then [45] else []) ++ firstn k ds' ++ (match s with O => [] | _ => [46] ++ skipn k ds' end).

(* values as the driver observes them *)
Inductive xval :=
| XNull | XInt (z : Z) | XStr (s : bytes)
| XDec (u : Z) (scale : nat) | XDate (y mo d : N) | XDateTime (y mo d hh mi ss : N) | XBlob (b : bytes).

Definition to_val_x (x : xval) : val :=
  match x with
  | XNull => VNull
  | XInt z => VInt z
  | XStr s => VStr s
  | XDec u s => VRaw (fmt_dec u s)
  | XDate y mo d => VRaw (fmt_date y mo d)
  | XDateTime y mo d hh mi ss => VRaw (fmt_datetime y mo d hh mi ss)
  | XBlob b => VRaw (fmt_blob b)
  end.

(* the SQL text of a DATE and of a binary string, for the refutations *)
Definition sql_date (y mo d : N) : bytes := pad4 y ++ [45] ++ pad2 mo ++ [45] ++ pad2 d.

Definition dflt_o : opts := mkOpts [9] [] false [92] [] [10].

(* a DATE is exported in Go's time layout: read back as text it is not the date's SQL text *)
Lemma date_export_layout :
  load dflt_o [TText] (dump dflt_o [TOther false] [[to_val_x (XDate 2024 2 29)]])
    = Loaded [[VStr [50;48;50;52;45;48;50;45;50;57;32;48;48;58;48;48;58;48;48;32;43;48;48;48;48;32;85;84;67]]]
  /\ sql_date 2024 2 29 = [50;48;50;52;45;48;50;45;50;57].
Proof. split; vm_compute; reflexivity. Qed.

(* a BLOB 'ab' is exported as the Go slice [97 98] *)
Lemma blob_export_refuted :
  load dflt_o [TText] (dump dflt_o [TOther true] [[to_val_x (XBlob [97; 98])]]) = Loaded [[VStr [91;57;55;32;57;56;93]]].
Proof. vm_compute. reflexivity. Qed.

Lemma fmt_examples :
  fmt_dec (-1)%Z 2 = [45;48;46;48;49] /\ fmt_dec 1250%Z 2 = [49;50;46;53;48] /\ fmt_dec 0%Z 2 = [48;46;48;48] /\
  fmt_dec 12345678901234567890%Z 0 = [49;50;51;52;53;54;55;56;57;48;49;50;51;52;53;54;55;56;57;48] /\
  fmt_blob [] = [91;93].
Proof. vm_compute. repeat split. Qed.
