(* C28 -- VARCHAR / VARBINARY / TEXT on the wire (sql/types/strings.go StringType.SQL, ConvertToBytes length checks,
   MaxTextResponseByteLength) for utf8mb4 columns and utf8mb4 results: the text is the stored byte string; lengths
   are counted in runes exactly as Go does (len([]rune(s)) = utf8.RuneCountInString: an invalid byte is one rune). *)
From Coq Require Import List NArith ZArith Bool Lia Arith.
Import ListNotations.
From GMS Require Import Codec.C28Wire.
Open Scope N_scope.

Definition cont (b : N) : bool := (128 <=? b) && (b <=? 191).

(* utf8.DecodeRune: number of bytes of the first rune (1 for an invalid or truncated sequence) *)
Definition size_at (s : bytes) : nat :=
  match s with
  | [] => 1%nat
  | c :: r =>
      if c <? 128 then 1%nat
      else if (194 <=? c) && (c <=? 223) then
        match r with b1 :: _ => if cont b1 then 2%nat else 1%nat | _ => 1%nat end
      else if (224 <=? c) && (c <=? 239) then
        match r with
        | b1 :: b2 :: _ =>
            let lo := if c =? 224 then 160 else 128 in
            let hi := if c =? 237 then 159 else 191 in
            if (lo <=? b1) && (b1 <=? hi) && cont b2 then 3%nat else 1%nat
        | _ => 1%nat
        end
      else if (240 <=? c) && (c <=? 244) then
        match r with
        | b1 :: b2 :: b3 :: _ =>
            let lo := if c =? 240 then 144 else 128 in
            let hi := if c =? 244 then 143 else 191 in
            if (lo <=? b1) && (b1 <=? hi) && cont b2 && cont b3 then 4%nat else 1%nat
        | _ => 1%nat
        end
      else 1%nat
  end.

(* rune count; [skip] bytes still belong to the rune in progress *)
Fixpoint rc (s : bytes) (skip : nat) : nat :=
  match s with
  | [] => 0%nat
  | c :: r => match skip with S k => rc r k | O => S (rc r (size_at s - 1)%nat) end
  end.
Definition rune_count (s : bytes) : nat := rc s 0.

(* utf8mb4 VARCHAR(n), VARBINARY(n), TEXT, CHAR(n), BINARY(n) *)
Inductive sty := VarChar (n : nat) | VarBinary (n : nat) | Text | Char (n : nat) | Binary (n : nat).

Definition text_max_bytes : nat := Z.to_nat 65535.
(* Convert: the length checks of ConvertToBytes; a BINARY(n) value is right-padded with 0x00 to n bytes when it is
   stored; a CHAR(n) value is kept as given (no padding, no stripping of trailing spaces) *)
Definition str_convert_text (t : sty) (s : bytes) : option bytes :=
  match t with
  | VarChar n | Char n => if (length s <=? n)%nat || (rune_count s <=? n)%nat then Some s else None
  | VarBinary n => if (length s <=? n)%nat then Some s else None
  | Binary n => if (length s <=? n)%nat then Some (s ++ repeat 0 (n - length s)) else None
  | Text => if (length s <=? text_max_bytes)%nat then Some s else None
  end.
(* SQL: binary types go through ConvertToBytes again (so BINARY pads; too long a value is an error: None);
   the others are sent as they are *)
Definition str_sql_text (t : sty) (s : bytes) : option bytes :=
  match t with
  | VarBinary _ | Binary _ => str_convert_text t s
  | _ => Some s
  end.
Definition str_storable (t : sty) (s : bytes) : Prop := str_convert_text t s = Some s.
Definition str_announced (t : sty) : nat :=
  match t with
  | VarChar n | Char n => (n * 4)%nat
  | VarBinary n | Binary n => n
  | Text => (text_max_bytes * 4)%nat
  end.

(* ---------- proofs ---------- *)
Lemma size_at_le4 s : (1 <= size_at s <= 4)%nat.
Proof.
  unfold size_at. destruct s as [|c r]; [lia|].
  repeat match goal with
         | |- context [if ?b then _ else _] => destruct b
         | |- context [match ?l with [] => _ | _ :: _ => _ end] => destruct l
         end; lia.
Qed.

Lemma rc_bound s : forall skip, (length s - skip <= 4 * rc s skip)%nat.
Proof.
  induction s as [|c r IH]; intros skip; [cbn; lia|].
  cbn [rc length]. destruct skip as [|k].
  - pose proof (size_at_le4 (c :: r)) as Hs. specialize (IH (size_at (c :: r) - 1)%nat). lia.
  - specialize (IH k). lia.
Qed.

Theorem bytes_le_4_runes s : (length s <= 4 * rune_count s)%nat.
Proof. unfold rune_count. pose proof (rc_bound s 0). lia. Qed.

Theorem str_text_roundtrip t s : str_storable t s ->
  str_sql_text t s = Some s /\ str_convert_text t s = Some s /\ (length s <= str_announced t)%nat.
Proof.
  unfold str_storable. intros H. split; [destruct t; cbn [str_sql_text]; auto|]. split; [exact H|].
  destruct t as [n|n| |n|n]; cbn [str_convert_text str_announced] in *.
  - destruct ((length s <=? n)%nat || (rune_count s <=? n)%nat) eqn:E; [|discriminate].
    apply orb_prop in E. pose proof (bytes_le_4_runes s).
    destruct E as [E|E]; apply Nat.leb_le in E; lia.
  - destruct (length s <=? n)%nat eqn:E; [|discriminate]. apply Nat.leb_le in E. lia.
  - destruct (length s <=? text_max_bytes)%nat eqn:E; [|discriminate]. apply Nat.leb_le in E. lia.
  - destruct ((length s <=? n)%nat || (rune_count s <=? n)%nat) eqn:E; [|discriminate].
    apply orb_prop in E. pose proof (bytes_le_4_runes s).
    destruct E as [E|E]; apply Nat.leb_le in E; lia.
  - destruct (length s <=? n)%nat eqn:E; [|discriminate]. apply Nat.leb_le in E. lia.
Qed.

(* whatever Convert accepts, what it stores is a fixpoint: storing pads BINARY(n) to exactly n bytes, once *)
Theorem str_convert_storable t r s : str_convert_text t r = Some s -> str_storable t s.
Proof.
  unfold str_storable. destruct t as [n|n| |n|n]; cbn [str_convert_text]; intros H.
  1-4: match type of H with (if ?c then _ else _) = _ => destruct c eqn:E; [|discriminate] end; injection H as <-; now rewrite E.
  destruct (length r <=? n)%nat eqn:E; [|discriminate]. apply Nat.leb_le in E. injection H as <-.
  rewrite app_length, repeat_length. replace (length r + (n - length r))%nat with n by lia.
  rewrite Nat.leb_refl, Nat.sub_diag. cbn [repeat]. now rewrite app_nil_r.
Qed.
Lemma binary_stored_length n r s : str_convert_text (Binary n) r = Some s -> length s = n.
Proof.
  cbn [str_convert_text]. destruct (length r <=? n)%nat eqn:E; [|discriminate]. apply Nat.leb_le in E.
  intros H. injection H as <-. rewrite app_length, repeat_length. lia.
Qed.

Example str_nonvacuous :
  str_storable (VarChar 2) [230; 151; 165; 230; 156; 172] /\ rune_count [230; 151; 165; 230; 156; 172] = 2%nat /\
  rune_count [255; 97; 240; 159] = 4%nat.
Proof. vm_compute. repeat split; reflexivity. Qed.

(* ---------- announced lengths of ENUM and SET (enum.go / set.go: runes * 4 per member, + 4 per separator) ---------- *)
Open Scope nat_scope.
Definition enum_announced (names : list bytes) : nat := fold_right (fun n acc => Nat.max (rune_count n * 4) acc) 0 names.
Definition set_announced (names : list bytes) : nat :=
  fold_right (fun n acc => rune_count n * 4 + acc) 0 names + 4 * (length names - 1).

Lemma enum_member_le names : forall k, length (nth k names []) <= enum_announced names.
Proof.
  induction names as [|n r IH]; intros k; [destruct k; cbn; lia|].
  cbn [enum_announced fold_right]. fold (enum_announced r). destruct k as [|k]; cbn [nth].
  - pose proof (bytes_le_4_runes n). lia.
  - specialize (IH k). lia.
Qed.
Theorem enum_text_len names i : length (enum_sql_text names i) <= enum_announced names.
Proof. unfold enum_sql_text. destruct (i =? 0)%Z; [cbn; lia|apply enum_member_le]. Qed.

Definition sum_len1 (l : list bytes) : nat := fold_right (fun x acc => length x + 1 + acc) 0 l.
Lemma join_len l : length (join_comma l) + (match l with [] => 0 | _ => 1 end) = sum_len1 l.
Proof.
  induction l as [|x r IH]; [reflexivity|]. destruct r as [|y r'].
  - cbn. lia.
  - change (join_comma (x :: y :: r')) with (x ++ 44%N :: join_comma (y :: r')).
    rewrite app_length. cbn [length]. unfold sum_len1 in *. cbn [fold_right] in *. lia.
Qed.
Lemma members_sum names : forall b, sum_len1 (set_members names b) <= sum_len1 names.
Proof.
  induction names as [|n r IH]; intros b; cbn [set_members]; [cbn; lia|].
  specialize (IH (b / 2)%Z). unfold sum_len1 in *. destruct (Z.odd b); cbn [app fold_right] in *; lia.
Qed.
Lemma sum_len1_runes names : sum_len1 names <= fold_right (fun n acc => rune_count n * 4 + acc) 0 names + length names.
Proof.
  induction names as [|n r IH]; [cbn; lia|]. unfold sum_len1 in *. cbn [fold_right length] in *. pose proof (bytes_le_4_runes n). lia.
Qed.
Theorem set_text_len names b : length (set_sql_text names b) <= set_announced names.
Proof.
  unfold set_sql_text, set_announced. pose proof (join_len (set_members names b)) as J.
  pose proof (members_sum names b) as M. pose proof (sum_len1_runes names) as R.
  destruct (set_members names b) as [|m ms] eqn:E; [cbn; lia|].
  destruct names as [|n r]; [cbn in E; discriminate|]. cbn [length] in *. lia.
Qed.
