(* C26 — model of sql.Type.Compare for the integer types and DECIMAL.
   Mirrors sql/types/number.go NumberTypeImpl_.Compare (unsigned base types compare convertToUint64 images, the other
   integer types convertToInt64 images; flags are dropped), sql/types/decimal.go DecimalType_.Compare
   (ConvertToDecimal of both sides -- a column type quantizes to its scale first -- then apd Cmp) and
   sql/types/conversion.go CompareNulls (which returns +1 for (NULL, non-NULL)). *)
From Coq Require Import ZArith Bool List.
Import ListNotations.
From GMS Require Import Codec.C25Arith Codec.C27Convert Codec.C27Enum.
Open Scope Z_scope.

(* temporal / string operands *)
Inductive tval :=
| TTime (y m d h mi s us : Z)    (* a time.Time (UTC civil fields, microseconds) *)
| TText (y m d h mi s us : Z)    (* the text 'YYYY-MM-DD[ HH:MM:SS[.ffffff]]' *)
| TYearI (z : Z)                 (* an integer given to YEAR *)
| TYearS (z : Z)                 (* a 1-, 2- or 4-digit string given to YEAR *)
| TSpan (us : Z)                 (* a Timespan, microseconds *)
| TNum (v : value)               (* a number given to ENUM / SET / BIT *)
| TStr (bs : list Z).            (* a string, as bytes *)

Inductive cval := CNull | CV (v : value) | CX (t : tval).
Inductive ctype :=
| CInt (t : ity) | CDec (s : Z) (col : bool)
| CDate | CDatetime (p : Z) | CTimestamp (p : Z) | CYear | CTime
| CEnum (n : Z) | CSet (n : Z) | CBit (w : Z)
| CBin.                          (* VARBINARY, and VARCHAR under utf8mb4_bin on valid UTF-8: byte order *)

Definition sgn_cmp (a b : Z) : Z := match a ?= b with Lt => -1 | Eq => 0 | Gt => 1 end.

(* the integer both sides are mapped to before comparing *)
Definition key_int (t : ity) (v : value) : Z :=
  if unsigned t then fst (to_u64 v) else fst (to_i64 v).

(* ConvertToDecimal: a column type rounds to its scale (unless value and type both have scale 0) *)
Definition key_dec (s : Z) (col : bool) (v : value) : Z * Z :=
  let '(m0, s0) := to_dec v in
  if col && negb ((s0 =? 0) && (s =? 0)) then (round_to m0 s0 s, s) else (m0, s0).

Definition cmp_dec (a b : Z * Z) : Z :=
  let '(m1, s1) := a in let '(m2, s2) := b in sgn_cmp (m1 * 10 ^ s2) (m2 * 10 ^ s1).

(* days since 1970-01-01 of a proleptic Gregorian date (the count time.Time.Before / After order by) *)
Definition days_from_civil (y m d : Z) : Z :=
  let y' := if m <=? 2 then y - 1 else y in
  let era := y' / 400 in
  let yoe := y' - era * 400 in
  let mp := (m + 9) mod 12 in
  let doy := (153 * mp + 2) / 5 + d - 1 in
  let doe := yoe * 365 + yoe / 4 - yoe / 100 + doy in
  era * 146097 + doe - 719468.

Definition day_us : Z := 86400000000.
Definition us_of (y m d h mi s us : Z) : Z :=
  days_from_civil y m d * day_us + h * 3600000000 + mi * 60000000 + s * 1000000 + us.

(* time.Round to the type's fractional-seconds precision: half up *)
Definition round_us (p us : Z) : Z := let u := 10 ^ (6 - p) in ((us + u / 2) / u) * u.
(* time.Truncate(24h) *)
Definition trunc_day (us : Z) : Z := (us / day_us) * day_us.

(* YearType_.Convert on integers: 0, 1..69 -> 20xx, 70..99 -> 19xx, 1901..2155 *)
Definition year_of_int (z : Z) : Z :=
  if z =? 0 then 0 else if (1 <=? z) && (z <=? 69) then z + 2000 else if (70 <=? z) && (z <=? 99) then z + 1900 else z.

(* the count a temporal operand is ordered by: a time.Time is only truncated for DATE (never rounded); text goes
   through ConvertToTime (truncated for DATE, rounded to the precision otherwise) *)
Definition tkey (t : ctype) (v : tval) : Z :=
  match t, v with
  | CDate, TTime y m d h mi s us | CDate, TText y m d h mi s us => trunc_day (us_of y m d h mi s us)
  | CDatetime p, TTime y m d h mi s us | CTimestamp p, TTime y m d h mi s us => us_of y m d h mi s us
  | CDatetime p, TText y m d h mi s us | CTimestamp p, TText y m d h mi s us => round_us p (us_of y m d h mi s us)
  | CYear, TYearI z => year_of_int z
  | CYear, TYearS z => if z =? 0 then 2000 else year_of_int z
  | CTime, TSpan us => us
  | CEnum n, TNum v => key_enum n v
  | CSet n, TNum v => key_set n v
  | CBit w, TNum v => key_bit w v
  | _, _ => 0
  end.

(* byte-wise lexicographic order; a proper prefix sorts first *)
Fixpoint cmp_bytes (a b : list Z) : Z :=
  match a, b with
  | [], [] => 0
  | [], _ :: _ => -1
  | _ :: _, [] => 1
  | x :: a', y :: b' => match x ?= y with Lt => -1 | Gt => 1 | Eq => cmp_bytes a' b' end
  end.

Definition compare (t : ctype) (a b : cval) : Z :=
  match a, b with
  | CNull, CNull => 0
  | CNull, _ => 1
  | _, CNull => -1
  | CV x, CV y =>
      match t with
      | CInt it => sgn_cmp (key_int it x) (key_int it y)
      | CDec s col => cmp_dec (key_dec s col x) (key_dec s col y)
      | _ => 0
      end
  | CX x, CX y =>
      match t, x, y with
      | CBin, TStr p, TStr q => cmp_bytes p q
      | CBin, _, _ => 0
      | _, _, _ => sgn_cmp (tkey t x) (tkey t y)
      end
  | _, _ => 0
  end.

Fixpoint zs_eqb' (a b : list Z) : bool :=
  match a, b with [], [] => true | x :: a', y :: b' => (x =? y) && zs_eqb' a' b' | _, _ => false end.

Definition cval_eqb (a b : cval) : bool :=
  match a, b with CNull, CNull => true | CV x, CV y => value_eqb x y | _, _ => false end.
