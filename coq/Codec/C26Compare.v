(* C26 — model of sql.Type.Compare for the integer types and DECIMAL.
   Mirrors sql/types/number.go NumberTypeImpl_.Compare (unsigned base types compare convertToUint64 images, the other
   integer types convertToInt64 images; flags are dropped), sql/types/decimal.go DecimalType_.Compare
   (ConvertToDecimal of both sides -- a column type quantizes to its scale first -- then apd Cmp) and
   sql/types/conversion.go CompareNulls (which returns +1 for (NULL, non-NULL)). *)
From Coq Require Import ZArith Bool List.
Import ListNotations.
From GMS Require Import Codec.C25Arith Codec.C27Convert.
Open Scope Z_scope.

Inductive cval := CNull | CV (v : value).
Inductive ctype := CInt (t : ity) | CDec (s : Z) (col : bool).

Definition sgn_cmp (a b : Z) : Z := match a ?= b with Lt => -1 | Eq => 0 | Gt => 1 end.

(* the integer both sides are mapped to before comparing *)
Definition key_int (t : ity) (v : value) : Z :=
  if unsigned t then fst (to_u64 v) else fst (to_i64 v).

(* ConvertToDecimal: a column type rounds to its scale (unless value and type both have scale 0) *)
Definition key_dec (s : Z) (col : bool) (v : value) : Z * Z :=
  let '(m0, s0) := to_dec v in
  if col && negb ((s0 =? 0) && (s =? 0)) then (round_to m0 s0 s, s) else (m0, s0).

Definition cmp_dec (a b : Z * Z) : Z :=
  let '(m1, s1) := a in let '(m2, s2) := b in sgn_cmp (m1 * 10 ^ s2) (m2 * 10 ^ s1).

Definition compare (t : ctype) (a b : cval) : Z :=
  match a, b with
  | CNull, CNull => 0
  | CNull, CV _ => 1
  | CV _, CNull => -1
  | CV x, CV y =>
      match t with
      | CInt it => sgn_cmp (key_int it x) (key_int it y)
      | CDec s col => cmp_dec (key_dec s col x) (key_dec s col y)
      end
  end.

Definition cval_eqb (a b : cval) : bool :=
  match a, b with CNull, CNull => true | CV x, CV y => value_eqb x y | _, _ => false end.
