(* C28 -- proofs, part 3: the NULL bitmap of binary rows, facts about the announced column metadata, and the
   binary-protocol round trips of YEAR and of the kinds that travel as length-encoded strings. *)
From Coq Require Import List NArith ZArith Bool Lia Arith.
Import ListNotations.
From GMS Require Import Codec.C28Date Codec.C28DateProofs Codec.C28Wire Codec.C28WireProofs Codec.C28WireProofs2
  Codec.C28Str Codec.C28Bin Codec.C28BinProofs Codec.C28Meta.
Open Scope Z_scope.

(* ---------- NULL bitmap ---------- *)
Lemma bits_num_nonneg nulls : 0 <= bits_num nulls.
Proof. induction nulls as [|b r IH]; cbn [bits_num]; [lia|]. destruct b; cbn [Z.b2z]; lia. Qed.

Lemma testbit_bits_num nulls : forall i, Z.testbit (bits_num nulls) (Z.of_nat i) = nth i nulls false.
Proof.
  induction nulls as [|b r IH]; intros i.
  - cbn [bits_num]. rewrite Z.testbit_0_l. destruct i; reflexivity.
  - cbn [bits_num]. rewrite Z.add_comm. destruct i as [|i].
    + cbn [Z.of_nat nth]. apply Z.testbit_0_r.
    + rewrite Nat2Z.inj_succ, Z.testbit_succ_r by lia. cbn [nth]. apply IH.
Qed.

Lemma nth_le_bytes n : forall B k, 0 <= B -> (k < n)%nat ->
  Z.of_N (nth k (le_bytes n B) 0%N) = (B / 256 ^ Z.of_nat k) mod 256.
Proof.
  induction n as [|n IH]; intros B k HB Hk; [lia|]. cbn [le_bytes]. destruct k as [|k]; cbn [nth].
  - pose proof (Z.mod_pos_bound B 256 ltac:(lia)). rewrite Z2N.id by lia. cbn [Z.of_nat]. now rewrite Z.pow_0_r, Z.div_1_r.
  - rewrite IH by (try apply Z.div_pos; lia). rewrite pow256_S, Z.div_div by (try apply Z.pow_pos_nonneg; lia). reflexivity.
Qed.

Theorem null_bitmap_marks_exactly nulls i : (i < length nulls)%nat ->
  bitmap_is_null (null_bitmap nulls) i = nth i nulls false /\ length (null_bitmap nulls) = bitmap_len (length nulls).
Proof.
  intros Hi. split; [|apply le_bytes_length].
  unfold bitmap_is_null, null_bitmap. set (n := length nulls) in *.
  set (q := ((i + 2) / 8)%nat). set (j := ((i + 2) mod 8)%nat).
  assert (Hqj : (8 * q + j = i + 2 /\ j < 8)%nat) by (unfold q, j; pose proof (Nat.div_mod (i + 2) 8 ltac:(lia)); pose proof (Nat.mod_upper_bound (i + 2) 8 ltac:(lia)); lia).
  assert (Hq : (q < bitmap_len n)%nat).
  { unfold bitmap_len. apply Nat.div_lt_upper_bound; [lia|]. pose proof (Nat.div_mod (n + 7 + 2) 8 ltac:(lia)). pose proof (Nat.mod_upper_bound (n + 7 + 2) 8 ltac:(lia)). lia. }
  pose proof (bits_num_nonneg nulls) as HB.
  rewrite <- Z.testbit_of_N, (nth_le_bytes _ _ q) by (lia || exact Hq).
  change 256 with (2 ^ 8). rewrite <- Z.pow_mul_r by lia.
  rewrite nat_N_Z. rewrite Z.mod_pow2_bits_low by lia. rewrite Z.div_pow2_bits by lia.
  replace (Z.of_nat j + 8 * Z.of_nat q) with (Z.of_nat i + 2) by lia.
  replace (4 * bits_num nulls) with (bits_num nulls * 2 ^ 2) by (change (2 ^ 2) with 4; ring).
  rewrite Z.mul_pow2_bits by lia. replace (Z.of_nat i + 2 - 2) with (Z.of_nat i) by lia. apply testbit_bits_num.
Qed.

(* ---------- column metadata ---------- *)
Theorem meta_decimals_announce_fraction c :
  (forall n, c <> TTimestamp n) -> c <> TTime -> meta_decimals c = fraction_digits c.
Proof. intros H1 H2. destruct c; try reflexivity; [exfalso; eapply H1; reflexivity|contradiction]. Qed.

Lemma meta_decimals_refuted : exists c, fraction_digits c = 6 /\ meta_decimals c = 0.
Proof. exists (TTimestamp 6). split; reflexivity. Qed.
Lemma meta_decimals_time_refuted : fraction_digits TTime = 6 /\ meta_decimals TTime = 0.
Proof. split; reflexivity. Qed.

Theorem meta_unsigned_flag t nn pk ai : Z.testbit (meta_flags (TInt t) nn pk ai) 5 = negb (ity_signed t).
Proof. destruct t, nn, pk, ai; reflexivity. Qed.

Theorem meta_not_null_flag c nn pk ai : Z.testbit (meta_flags c nn pk ai) 0 = nn.
Proof.
  destruct c as [t|p s| |n| |n|n| |names|names|t]; try destruct t; destruct nn, pk, ai; reflexivity.
Qed.

(* the type-derived flags (BINARY, ENUM, SET) are announced only for columns whose engine flags are all clear *)
Lemma meta_enum_flag_lost names : meta_flags (TEnum names) true false false = FL_NOT_NULL /\ meta_flags (TEnum names) false false false = FL_ENUM.
Proof. split; reflexivity. Qed.

(* ---------- binary protocol: YEAR and the length-encoded kinds ---------- *)
Definition year_bin_ok (y : Z) : bool :=
  match year_bin (year_sql_text y) with Some b => (int_bin_decode I16 b =? y) && (length b =? 2)%nat | None => false end.
Lemma year_bin_check : forallb year_bin_ok (upto 255 1901) = true.
Proof. vm_compute. reflexivity. Qed.
Theorem year_binary_roundtrip y : 1901 <= y <= 2155 ->
  exists b, year_bin (year_sql_text y) = Some b /\ int_bin_decode I16 b = y /\ length b = 2%nat.
Proof.
  intros H. pose proof year_bin_check as E. rewrite forallb_forall in E.
  specialize (E y (in_upto 255 1901 y ltac:(lia))). unfold year_bin_ok in E.
  destruct (year_bin (year_sql_text y)) as [b|]; [|discriminate].
  apply andb_prop in E. destruct E as [E1 E2]. apply Z.eqb_eq in E1. apply Nat.eqb_eq in E2. exists b. auto.
Qed.

(* DECIMAL, BIT, ENUM, SET values travel as length-encoded strings of their text: reading the string back and
   converting it gives the value *)
Theorem lenenc_kinds_binary_roundtrip :
  (forall col p s d, 0 <= s -> dec_storable p s d -> Z.of_nat (length (dec_sql_text col s d)) < 2 ^ 64 ->
     exists t d', lenenc_decode (lenenc_str (dec_sql_text col s d)) = Some t /\ dec_convert_text col p s t = Some d' /\
                  dec_eqv d' d = true) /\
  (forall n v, 1 <= n <= 64 -> 0 <= v < 2 ^ n ->
     exists t, lenenc_decode (lenenc_str (bit_sql_text n v)) = Some t /\ bit_convert_text n t = Some v) /\
  (forall names i, NoDup names -> 1 <= i <= Z.of_nat (length names) -> Z.of_nat (length (enum_sql_text names i)) < 2 ^ 64 ->
     exists t, lenenc_decode (lenenc_str (enum_sql_text names i)) = Some t /\ enum_convert_text names t = Some i) /\
  (forall names b, NoDup names -> Forall (fun n => n <> [] /\ no_comma n) names -> 0 <= b < 2 ^ Z.of_nat (length names) ->
     Z.of_nat (length (set_sql_text names b)) < 2 ^ 64 ->
     exists t, lenenc_decode (lenenc_str (set_sql_text names b)) = Some t /\ set_convert_text names t = Some b).
Proof.
  split; [|split; [|split]].
  - intros col p s d Hs Hst Hl. destruct (dec_text_roundtrip col p s d Hs Hst) as (d' & E & _ & Q).
    exists (dec_sql_text col s d), d'. split; [now apply lenenc_roundtrip|]. auto.
  - intros n v Hn Hv. destruct (bit_text_roundtrip n v Hn Hv) as [E L].
    exists (bit_sql_text n v). split; [apply lenenc_roundtrip; lia|exact E].
  - intros names i Hd Hi Hl. exists (enum_sql_text names i). split; [now apply lenenc_roundtrip|now apply enum_text_roundtrip].
  - intros names b Hd Hf Hb Hl. exists (set_sql_text names b). split; [now apply lenenc_roundtrip|now apply set_text_roundtrip].
Qed.
