(* C28 -- proofs about the binary-protocol model: little-endian integers, length-encoded strings, and the
   composition text -> vitess encoder -> client reader for integers and DATE. *)
From Coq Require Import List NArith ZArith Bool Lia Arith.
Import ListNotations.
From GMS Require Import Codec.C28Date Codec.C28DateProofs Codec.C28Wire Codec.C28WireProofs Codec.C28Bin.
Open Scope Z_scope.

Lemma pow256_S n : 256 ^ Z.of_nat (S n) = 256 * 256 ^ Z.of_nat n.
Proof. rewrite Nat2Z.inj_succ, Z.pow_succ_r by lia. reflexivity. Qed.

Lemma le_bytes_length k : forall v, length (le_bytes k v) = k.
Proof. induction k as [|k IH]; intros v; cbn [le_bytes length]; [reflexivity|]. now rewrite IH. Qed.

Lemma le_decode_bytes k : forall v, 0 <= v -> le_decode (le_bytes k v) = v mod 256 ^ Z.of_nat k.
Proof.
  induction k as [|k IH]; intros v Hv.
  - cbn. now rewrite Z.mod_1_r.
  - cbn [le_bytes le_decode]. rewrite IH by (apply Z.div_pos; lia).
    pose proof (Z.mod_pos_bound v 256 ltac:(lia)). rewrite Z2N.id by lia.
    rewrite pow256_S. assert (P : 0 < 256 ^ Z.of_nat k) by (apply Z.pow_pos_nonneg; lia).
    rewrite Z.rem_mul_r by lia. lia.
Qed.

Lemma firstn_app_exact {A} (a b : list A) k : length a = k -> firstn k (a ++ b) = a /\ skipn k (a ++ b) = b.
Proof.
  intros <-. split.
  - rewrite firstn_app, Nat.sub_diag, firstn_all. cbn. apply app_nil_r.
  - rewrite skipn_app, Nat.sub_diag, skipn_all. reflexivity.
Qed.

(* ---------- length-encoded strings ---------- *)
Theorem lenenc_roundtrip s : Z.of_nat (length s) < 2 ^ 64 -> lenenc_decode (lenenc_str s) = Some s.
Proof.
  intros Hl. unfold lenenc_str, lenenc_int. set (l := Z.of_nat (length s)) in *. assert (0 <= l) by (unfold l; lia).
  destruct (l <? 251) eqn:E1.
  - apply Z.ltb_lt in E1. cbn [app lenenc_decode].
    replace (Z.to_N l <? 251)%N with true by (symmetry; apply N.ltb_lt; lia).
    rewrite Z2N.id by lia. fold l. now rewrite Z.eqb_refl.
  - apply Z.ltb_ge in E1. destruct (l <? 2 ^ 16) eqn:E2; [|destruct (l <? 2 ^ 24) eqn:E3].
    + apply Z.ltb_lt in E2. cbn [app lenenc_decode]. cbn [N.ltb N.compare Pos.compare Pos.compare_cont N.eqb Pos.eqb].
      destruct (firstn_app_exact (le_bytes 2 l) s 2 (le_bytes_length 2 l)) as [F S]. rewrite F, S.
      rewrite le_decode_bytes by lia. change (256 ^ Z.of_nat 2) with (2 ^ 16). rewrite Z.mod_small by lia. fold l. now rewrite Z.eqb_refl.
    + apply Z.ltb_lt in E3. apply Z.ltb_ge in E2. cbn [app lenenc_decode]. cbn [N.ltb N.compare Pos.compare Pos.compare_cont N.eqb Pos.eqb].
      destruct (firstn_app_exact (le_bytes 3 l) s 3 (le_bytes_length 3 l)) as [F S]. rewrite F, S.
      rewrite le_decode_bytes by lia. change (256 ^ Z.of_nat 3) with (2 ^ 24). rewrite Z.mod_small by lia. fold l. now rewrite Z.eqb_refl.
    + apply Z.ltb_ge in E3. cbn [app lenenc_decode]. cbn [N.ltb N.compare Pos.compare Pos.compare_cont N.eqb Pos.eqb].
      destruct (firstn_app_exact (le_bytes 8 l) s 8 (le_bytes_length 8 l)) as [F S]. rewrite F, S.
      rewrite le_decode_bytes by lia. change (256 ^ Z.of_nat 8) with (2 ^ 64). rewrite Z.mod_small by lia. fold l. now rewrite Z.eqb_refl.
Qed.

(* ---------- integers ---------- *)
Lemma ity_pow t : 2 ^ (8 * Z.of_nat (ity_width t)) = 256 ^ Z.of_nat (ity_width t).
Proof. destruct t; reflexivity. Qed.

Lemma ity_fits t v : ity_storable t v ->
  let bits := 8 * Z.of_nat (ity_width t) in
  if ity_signed t then - 2 ^ (bits - 1) <= v <= 2 ^ (bits - 1) - 1 else 0 <= v <= 2 ^ bits - 1.
Proof.
  intros [H1 H2]. destruct t.
  all: match goal with |- context [ity_width ?t] =>
         let lo := eval vm_compute in (ity_min t) in let hi := eval vm_compute in (ity_max t) in
         change (ity_min t) with lo in H1; change (ity_max t) with hi in H2 end.
  all: cbv zeta; cbn [ity_signed ity_width].
  all: repeat match goal with |- context [2 ^ ?e] => let v := eval vm_compute in (2 ^ e) in change (2 ^ e) with v end.
  all: lia.
Qed.

Theorem int_binary_roundtrip t v : ity_storable t v ->
  exists b, int_bin t (int_sql_text t v) = Some b /\ int_bin_decode t b = v /\ length b = ity_width t.
Proof.
  intros Hs. pose proof (ity_fits t v Hs) as Hf. cbv zeta in Hf.
  assert (Htxt : int_sql_text t v = format_int v).
  { destruct Hs as [H1 H2]. unfold int_sql_text, clamp. pose proof (ity_bounds t) as [_ Hhi].
    replace (ity_sql_hi t <? v) with false by (symmetry; apply Z.ltb_ge; lia).
    replace (v <? ity_min t) with false by (symmetry; apply Z.ltb_ge; lia). reflexivity. }
  unfold int_bin. rewrite Htxt, parse_format_int. cbv zeta.
  set (bits := 8 * Z.of_nat (ity_width t)) in *.
  assert (Hbits : 1 <= bits) by (unfold bits; destruct t; cbn; lia).
  assert (HB : 2 ^ bits = 2 * 2 ^ (bits - 1)) by (rewrite <- Z.pow_succ_r by lia; f_equal; lia).
  assert (HP : 0 < 2 ^ (bits - 1)) by (apply Z.pow_pos_nonneg; lia).
  exists (le_bytes (ity_width t) (v mod 2 ^ bits)).
  split; [|split; [|apply le_bytes_length]].
  - destruct (ity_signed t).
    + replace ((- 2 ^ (bits - 1) <=? v) && (v <=? 2 ^ (bits - 1) - 1)) with true; [reflexivity|].
      symmetry. apply andb_true_intro. split; apply Z.leb_le; lia.
    + replace ((0 <=? v) && (v <=? 2 ^ bits - 1)) with true; [reflexivity|].
      symmetry. apply andb_true_intro. split; apply Z.leb_le; lia.
  - unfold int_bin_decode. fold bits.
    pose proof (Z.mod_pos_bound v (2 ^ bits) ltac:(lia)) as Hm.
    rewrite le_decode_bytes by lia. rewrite <- ity_pow. fold bits. rewrite Z.mod_mod by lia.
    destruct (ity_signed t); cbn [andb].
    + destruct (Z_lt_le_dec v 0) as [Hn|Hn].
      * assert (E : v mod 2 ^ bits = v + 2 ^ bits).
        { symmetry. apply Z.mod_unique with (q := -1); lia. }
        rewrite E. replace (2 ^ (bits - 1) <=? v + 2 ^ bits) with true by (symmetry; apply Z.leb_le; lia). lia.
      * rewrite Z.mod_small by lia. replace (2 ^ (bits - 1) <=? v) with false by (symmetry; apply Z.leb_gt; lia). reflexivity.
    + rewrite Z.mod_small by lia. reflexivity.
Qed.

(* ---------- DATE ---------- *)
Lemma parse_uint_pad2 z : 0 <= z <= 99 -> parse_uint (pad2 z) = Some z.
Proof.
  intros H. unfold pad2, parse_uint. cbn [parse_digits]. pose proof (Z.mod_pos_bound z 10 ltac:(lia)).
  assert (0 <= z / 10 < 10) by (split; [apply Z.div_pos; lia|apply Z.div_lt_upper_bound; lia]).
  rewrite !digit_val_char by lia. f_equal. pose proof (Z.div_mod z 10 ltac:(lia)). lia.
Qed.

Lemma le2_decode y : 0 <= y < 65536 -> forall a b, le_bytes 2 y = [a; b] -> le_decode [a; b] = y.
Proof. intros Hy a b E. rewrite <- E, le_decode_bytes by lia. change (256 ^ Z.of_nat 2) with 65536. apply Z.mod_small; lia. Qed.

Theorem date_binary_roundtrip x : date_storable x ->
  exists t b, date_sql_text x = Some t /\ datetime_bin t = Some b /\ datetime_bin_decode b = Some x /\ length b = 5%nat.
Proof.
  intros (Hm & Hz & Hy). unfold date_sql_text, year_of_us in *.
  assert (Hx0 : x / us_per_day * us_per_day = x).
  { pose proof (Z.div_mod x us_per_day ltac:(unfold us_per_day; lia)). lia. }
  cbv zeta. rewrite Hx0.
  replace (x =? zero_time_us) with false by (symmetry; now apply Z.eqb_neq).
  destruct (days_civil_days (x / us_per_day)) as [R1 R2].
  destruct (civil_from_days (x / us_per_day)) as [[y m] d] eqn:Ec. cbv zeta in Hy.
  assert (Hv := R2). unfold valid_date in Hv.
  repeat (apply andb_prop in Hv; destruct Hv as [Hv ?]).
  repeat match goal with H : (_ <=? _) = true |- _ => apply Z.leb_le in H end.
  assert (Hd31 : d <= 31).
  { assert (days_in_month y m <= 31) by (unfold days_in_month; repeat destruct (_ =? _); try destruct (is_leap y); cbn; lia). lia. }
  replace ((y <? 0) || (9999 <? y)) with false
    by (symmetry; apply orb_false_intro; [apply Z.ltb_ge|apply Z.ltb_ge]; lia).
  destruct (year4 y Hy) as (a & b & c & e & Ey & E4).
  eexists. eexists. split; [reflexivity|]. unfold civil_text. rewrite Ey.
  change ([a; b; c; e] ++ [45%N] ++ pad2 m ++ [45%N] ++ pad2 d)
    with (a :: b :: c :: e :: 45%N :: digit_char (m / 10) :: digit_char (m mod 10) :: 45%N :: pad2 d).
  unfold datetime_bin. cbn [length pad2 Nat.ltb Nat.leb]. fold (pad2 d).
  rewrite E4, d2_pad2, parse_uint_pad2 by lia. cbn [ob]. unfold byte_ok.
  replace ((0 <=? d) && (d <? 256)) with true by (symmetry; apply andb_true_intro; split; [apply Z.leb_le|apply Z.ltb_lt]; lia).
  split; [reflexivity|].
  assert (Hy16 : 0 <= y < 65536) by lia.
  destruct (le_bytes 2 y) as [|y0 [|y1 [|]]] eqn:El; try (pose proof (le_bytes_length 2 y) as L; rewrite El in L; discriminate L).
  cbn [app]. split; [|reflexivity].
  unfold datetime_bin_decode. rewrite (le2_decode y Hy16 y0 y1 El).
  replace (Z.to_N m =? 0)%N with false by (symmetry; apply N.eqb_neq; lia).
  rewrite andb_false_r. cbn [andb]. rewrite N.eqb_refl, !Z2N.id by lia. rewrite R1, Hx0. reflexivity.
Qed.
