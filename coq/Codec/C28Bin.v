(* C28 -- binary (prepared statement) protocol values as vitess encodes them from the text sqltypes.Value the engine
   produced (github.com/dolthub/vitess go/mysql/query.go val2MySQL): fixed-width little-endian integers (width by
   type), DATE / DATETIME / TIMESTAMP structs of 4, 7 or 11 bytes chosen by the LENGTH of the text, TIME structs of
   8 or 12 bytes, length-encoded strings for DECIMAL, strings, BIT, ENUM, SET; and the readers a client applies. *)
From Coq Require Import List NArith ZArith Bool Lia.
Import ListNotations.
From GMS Require Import Codec.C28Date Codec.C28Wire.
Open Scope Z_scope.

(* ---------- little-endian integers ---------- *)
Fixpoint le_bytes (k : nat) (v : Z) : bytes :=
  match k with O => [] | S k' => Z.to_N (v mod 256) :: le_bytes k' (v / 256) end.
Fixpoint le_decode (s : bytes) : Z :=
  match s with [] => 0 | b :: r => Z.of_N b + 256 * le_decode r end.

Definition ity_width (t : ity) : nat :=
  match t with I8 | U8 => 1 | I16 | U16 => 2 | I24 | U24 | I32 | U32 => 4 | I64 | U64 => 8 end%nat.
(* strconv.ParseInt/ParseUint(text, 10, bits) with bits = 8 * width (so MEDIUMINT is parsed as a 32 bit number),
   then uintN(val): two's complement *)
Definition int_bin (t : ity) (txt : bytes) : option bytes :=
  let w := ity_width t in
  let bits := 8 * Z.of_nat w in
  match parse_int txt with
  | Some z =>
      let '(lo, hi) := if ity_signed t then (- 2 ^ (bits - 1), 2 ^ (bits - 1) - 1) else (0, 2 ^ bits - 1) in
      if (lo <=? z) && (z <=? hi) then Some (le_bytes w (z mod 2 ^ bits)) else None
  | None => None
  end.
(* the client: width bytes, sign-extended for signed types *)
Definition int_bin_decode (t : ity) (s : bytes) : Z :=
  let u := le_decode s in
  let bits := 8 * Z.of_nat (ity_width t) in
  if ity_signed t && (2 ^ (bits - 1) <=? u) then u - 2 ^ bits else u.
(* YEAR travels as a 16 bit integer *)
Definition year_bin (txt : bytes) : option bytes :=
  match parse_int txt with
  | Some z => if (- 32768 <=? z) && (z <=? 32767) then Some (le_bytes 2 (z mod 65536)) else None
  | None => None
  end.

(* ---------- DATE / DATETIME / TIMESTAMP ---------- *)
Definition byte_ok (v : Z) : bool := (0 <=? v) && (v <? 256).
Definition ob (v : option Z) : option Z := match v with Some z => if byte_ok z then Some z else None | None => None end.
(* the first six fraction characters, right-padded with '0' *)
Fixpoint pad6 (k : nat) (s : bytes) : bytes :=
  match k with
  | O => []
  | S k' => match s with [] => 48%N :: pad6 k' [] | c :: r => c :: pad6 k' r end
  end.
Definition datetime_bin (s : bytes) : option bytes :=
  let l := length s in
  if (19 <? l)%nat then
    match s with
    | y1 :: y2 :: y3 :: y4 :: _ :: m1 :: m2 :: _ :: e1 :: e2 :: _ :: h1 :: h2 :: _ :: i1 :: i2 :: _ :: s1 :: s2 :: _ :: fr =>
        match d4 y1 y2 y3 y4, d2 m1 m2, d2 e1 e2, d2 h1 h2, d2 i1 i2, d2 s1 s2, parse_uint (pad6 6 fr) with
        | Some y, Some m, Some d, Some h, Some mi, Some se, Some us =>
            Some (11%N :: le_bytes 2 y ++ [Z.to_N m; Z.to_N d; Z.to_N h; Z.to_N mi; Z.to_N se] ++ le_bytes 4 us)
        | _, _, _, _, _, _, _ => None
        end
    | _ => None
    end
  else if (10 <? l)%nat then
    match s with
    | y1 :: y2 :: y3 :: y4 :: _ :: m1 :: m2 :: _ :: e1 :: e2 :: _ :: h1 :: h2 :: _ :: i1 :: i2 :: _ :: rest =>
        match d4 y1 y2 y3 y4, d2 m1 m2, d2 e1 e2, d2 h1 h2, d2 i1 i2, ob (parse_uint rest) with
        | Some y, Some m, Some d, Some h, Some mi, Some se =>
            Some (7%N :: le_bytes 2 y ++ [Z.to_N m; Z.to_N d; Z.to_N h; Z.to_N mi; Z.to_N se])
        | _, _, _, _, _, _ => None
        end
    | _ => None      (* shorter texts make the slice expressions panic: outside the model *)
    end
  else if (0 <? l)%nat then
    match s with
    | y1 :: y2 :: y3 :: y4 :: _ :: m1 :: m2 :: _ :: rest =>
        match d4 y1 y2 y3 y4, d2 m1 m2, ob (parse_uint rest) with
        | Some y, Some m, Some d => Some (4%N :: le_bytes 2 y ++ [Z.to_N m; Z.to_N d])
        | _, _, _ => None
        end
    | _ => None
    end
  else Some [0%N].

(* the client: civil fields -> instant; all-zero date fields denote the zero date *)
Definition datetime_bin_decode (b : bytes) : option Z :=
  match b with
  | [n] => if (n =? 0)%N then Some zero_time_us else None
  | n :: y0 :: y1 :: m :: d :: rest =>
      let y := le_decode [y0; y1] in
      let base := if (y =? 0) && (m =? 0)%N && (d =? 0)%N then zero_time_us
                  else days_from_civil (y, Z.of_N m, Z.of_N d) * us_per_day in
      match rest with
      | [] => if (n =? 4)%N then Some base else None
      | [h; mi; se] =>
          if (n =? 7)%N then Some (base + Z.of_N h * 3600000000 + Z.of_N mi * 60000000 + Z.of_N se * us_per_sec) else None
      | [h; mi; se; u0; u1; u2; u3] =>
          if (n =? 11)%N then Some (base + Z.of_N h * 3600000000 + Z.of_N mi * 60000000 + Z.of_N se * us_per_sec +
                                    le_decode [u0; u1; u2; u3]) else None
      | _ => None
      end
  | _ => None
  end.

(* ---------- TIME ---------- *)
Fixpoint split_at (c : N) (s : bytes) : bytes * option bytes :=
  match s with
  | [] => ([], None)
  | x :: r => if (x =? c)%N then ([], Some r) else let '(a, b) := split_at c r in (x :: a, b)
  end.
Definition time_bin (s : bytes) : option bytes :=
  if beqb s [48; 48; 58; 48; 48; 58; 48; 48]%N then Some [0%N]
  else
    (* strings.Split(raw, ":") must give exactly three parts *)
    match split_at 58 s with
    | (p0, Some r1) =>
        match split_at 58 r1 with
        | (p1, Some p2) =>
            match split_at 58 p2 with
            | (_, Some _) => None
            | (_, None) =>
                let '(neg, hs) := match p0 with c :: r => if (c =? 45)%N then (1%N, r) else (0%N, p0) | [] => (0%N, p0) end in
                match parse_uint hs, ob (parse_uint p1) with
                | Some h, Some mi =>
                    if h <? 2 ^ 32 then
                      match split_at 46 p2 with
                      | (sec, Some fr) =>
                          (* strings.Split(sub1[2], ".") must give exactly two parts *)
                          match split_at 46 fr with
                          | (_, Some _) => None
                          | (_, None) =>
                              match ob (parse_uint sec), parse_uint (pad6 6 fr) with
                              | Some se, Some us =>
                                  Some (12%N :: neg :: le_bytes 4 (h / 24) ++ [Z.to_N (h mod 24); Z.to_N mi; Z.to_N se] ++ le_bytes 4 us)
                              | _, _ => None
                              end
                          end
                      | (sec, None) =>
                          match ob (parse_uint sec) with
                          | Some se => Some (8%N :: neg :: le_bytes 4 (h / 24) ++ [Z.to_N (h mod 24); Z.to_N mi; Z.to_N se])
                          | None => None
                          end
                      end
                    else None
                | _, _ => None
                end
            end
        | _ => None
        end
    | _ => None
    end.
Definition time_bin_decode (b : bytes) : option Z :=
  match b with
  | [n] => if (n =? 0)%N then Some 0 else None
  | n :: neg :: d0 :: d1 :: d2' :: d3 :: h :: mi :: se :: rest =>
      let secs := ((le_decode [d0; d1; d2'; d3] * 24 + Z.of_N h) * 60 + Z.of_N mi) * 60 + Z.of_N se in
      let sgn := if (neg =? 0)%N then 1 else -1 in
      match rest with
      | [] => if (n =? 8)%N then Some (sgn * (secs * us_per_sec)) else None
      | [u0; u1; u2; u3] => if (n =? 12)%N then Some (sgn * (secs * us_per_sec + le_decode [u0; u1; u2; u3])) else None
      | _ => None
      end
  | _ => None
  end.

(* ---------- length-encoded strings (DECIMAL, CHAR/VARCHAR/TEXT/BLOB, BIT, ENUM, SET, JSON) ---------- *)
Definition lenenc_int (l : Z) : bytes :=
  if l <? 251 then [Z.to_N l]
  else if l <? 2 ^ 16 then 252%N :: le_bytes 2 l
  else if l <? 2 ^ 24 then 253%N :: le_bytes 3 l
  else 254%N :: le_bytes 8 l.
Definition lenenc_str (s : bytes) : bytes := lenenc_int (Z.of_nat (length s)) ++ s.
Definition lenenc_decode (b : bytes) : option bytes :=
  match b with
  | [] => None
  | c :: r =>
      let '(l, body) :=
        if (c <? 251)%N then (Z.of_N c, r)
        else if (c =? 252)%N then (le_decode (firstn 2 r), skipn 2 r)
        else if (c =? 253)%N then (le_decode (firstn 3 r), skipn 3 r)
        else (le_decode (firstn 8 r), skipn 8 r) in
      if Z.of_nat (length body) =? l then Some body else None
  end.
