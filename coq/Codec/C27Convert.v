(* C27 — model of sql.Type.Convert for the integer types and DECIMAL as go-mysql-server computes it.
   Mirrors sql/types/number.go (NumberTypeImpl_.Convert per width, convertToInt64, convertToUint64, incl. the
   Overflow / Underflow clamps and the unsigned wrap-with-flag case) and sql/types/decimal.go
   (DecimalType_.Convert = ConvertToDecimal + BoundsCheck).  Go conversions uint8(x) etc. are Z reduced mod 2^k. *)
From Coq Require Import ZArith Bool List.
Import ListNotations.
From GMS Require Import Codec.C25Arith.
Open Scope Z_scope.

(* a source / stored value: a signed Go integer (int8..int64, int), an unsigned one (uint8..uint64), a Go [uint]
   (convertToInt64 converts it with int64(v), without the range check the uint64 case has), a decimal m*10^-s *)
Inductive value := SI (z : Z) | SU (z : Z) | SW (z : Z) | SD (m s : Z).
Inductive flag := InRange | Overflow | Underflow.
(* target type: an integer type, or DECIMAL(p, s) (col = created by CreateColumnDecimalType) *)
Inductive target := TInt (t : ity) | TDec (p s : Z) (col : bool).
Inductive outcome := CErr | COk (v : value) (f : flag).

Definition mk (t : ity) (z : Z) : value := if unsigned t then SU z else SI z.

(* decimal (m, s0) re-expressed at scale s: padded, or rounded half away from zero (sql.DecimalRound) *)
Definition round_to (m s0 s : Z) : Z :=
  if s0 <=? s then m * 10 ^ (s - s0) else rha m (10 ^ (s0 - s)).

(* convertToInt64 *)
Definition to_i64 (v : value) : Z * flag :=
  match v with
  | SI z => (z, InRange)
  | SU z => if z >? max_i64 then (max_i64, Overflow) else (z, InRange)
  | SW z => (wrap_i64 z, InRange)
  | SD m s =>
      if m >? max_i64 * 10 ^ s then (max_i64, Overflow)
      else if m <? min_i64 * 10 ^ s then (min_i64, Underflow)
      else (round_to m s 0, InRange)
  end.

(* convertToUint64 *)
Definition to_u64 (v : value) : Z * flag :=
  match v with
  | SI z => if z <? 0 then (two64 + z, Underflow) else (z, InRange)
  | SU z | SW z => (z, InRange)
  | SD m s =>
      if m >? max_u64 * 10 ^ s then (max_u64, Overflow)
      else if m <? 0 then ((round_to (max_u64 * 10 ^ s - m) s 0) mod two64, Underflow)
      else ((round_to m s 0) mod two64, InRange)
  end.

(* the modulus of the Go conversion applied in the unsigned underflow branch, and the constant added before it:
   uint8(MaxUint8 + num + 1), uint16(MaxUint16 + num + 1), uint32(1<<24 + num), uint32(MaxUint32 + num + 1) *)
Definition uwrap_mod (t : ity) : Z :=
  match t with U8 => 256 | U16 => 65536 | U24 | U32 => 4294967296 | _ => two64 end.
Definition uwrap_add (t : ity) : Z :=
  match t with U8 => 256 | U16 => 65536 | U24 => 16777216 | U32 => 4294967296 | _ => 0 end.

(* NumberTypeImpl_.Convert for the narrow types: convertToInt64 (its flag is dropped), then range check *)
Definition narrow (t : ity) (num : Z) : outcome :=
  if num >? ity_max t then COk (mk t (ity_max t)) Overflow
  else if num <? ity_min t then
    (if unsigned t then COk (SU ((uwrap_add t + num) mod uwrap_mod t)) Underflow
     else COk (SI (ity_min t)) Underflow)
  else COk (mk t num) InRange.

Definition conv_int (t : ity) (v : value) : outcome :=
  match t with
  | I64 => let '(n, f) := to_i64 v in COk (SI n) f
  | U64 => let '(n, f) := to_u64 v in COk (SU n) f
  | _ => narrow t (fst (to_i64 v))
  end.

Definition to_dec (v : value) : Z * Z :=
  match v with SI z | SU z | SW z => (z, 0) | SD m s => (m, s) end.

(* DecimalType_.Convert: ConvertToDecimal (a column type quantizes to its scale), BoundsCheck (round when the
   value has more fraction digits than the type; error when |value| >= 10^(p-s)) *)
Definition conv_dec (p s : Z) (col : bool) (v : value) : outcome :=
  let '(m0, s0) := to_dec v in
  let '(m1, s1) := if col && negb ((s0 =? 0) && (s =? 0)) then (round_to m0 s0 s, s) else (m0, s0) in
  let '(m2, s2) := if s1 >? s then (round_to m1 s1 s, s) else (m1, s1) in
  if Z.abs m2 >=? 10 ^ (p - s + s2) then CErr else COk (SD m2 s2) InRange.

Definition convert (t : target) (v : value) : outcome :=
  match t with
  | TInt it => conv_int it v
  | TDec p s col => conv_dec p s col v
  end.

(* ---- executable equality for the correspondence ---- *)
Definition value_eqb (a b : value) : bool :=
  match a, b with
  | SI x, SI y | SU x, SU y | SW x, SW y => x =? y
  | SD m s, SD n k => (m =? n) && (s =? k)
  | _, _ => false
  end.
Definition flag_eqb (a b : flag) : bool :=
  match a, b with InRange, InRange | Overflow, Overflow | Underflow, Underflow => true | _, _ => false end.
Definition outcome_eqb (a b : outcome) : bool :=
  match a, b with
  | CErr, CErr => true
  | COk v f, COk w g => value_eqb v w && flag_eqb f g
  | _, _ => false
  end.
