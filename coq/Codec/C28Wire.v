(* C28 -- wire text model: what sql.Type.SQL produces for a stored value and what Type.Convert makes of that text.
   Mirrors (sql/types): number.go SQLInt8..SQLUint64 (strconv.AppendInt/AppendUint + per-width clamps) and the
   string branch of convertToInt64/convertToUint64 (strconv.ParseInt/ParseUint); decimal.go SQL /
   AppendStringFixedDecimal (sql.DecimalRound = apd Quantize, apd Text('f') = fmtF) and ConvertToDecimal(string)
   (apd setString) + BoundsCheck; year.go SQL/Convert; bit.go SQL/Convert; datetime.go appendDateFormat /
   appendDatetimeFormat / ConvertToTime / parseDatetime (time.Parse of the fixed layouts); time.go
   Timespan.AppendBytes / stringToTimespan; enum.go At/IndexOf; set.go convertBitFieldToString /
   convertStringToBitField; and MaxTextResponseByteLength of each type.
   Bytes are N, numbers are Z.  A datetime value is its number of microseconds since 1970-01-01 00:00:00 UTC. *)
From Coq Require Import List NArith ZArith Bool Lia.
Import ListNotations.
From GMS Require Import Codec.C28Date.
Open Scope Z_scope.

Definition bytes := list N.

(* ---------- decimal digits: strconv.AppendUint / AppendInt, strconv.ParseInt ---------- *)
Definition digit_char (d : Z) : N := Z.to_N (48 + d).
Definition digit_val (c : N) : option Z :=
  if (48 <=? c)%N && (c <=? 57)%N then Some (Z.of_N c - 48) else None.

(* the digits of z >= 0, most significant first; the fuel S (log2 z) always suffices (proved) *)
Fixpoint udigits (fuel : nat) (z : Z) : bytes :=
  match fuel with
  | O => []
  | S f => if z <? 10 then [digit_char z] else udigits f (z / 10) ++ [digit_char (z mod 10)]
  end.
Definition format_uint (z : Z) : bytes := udigits (S (Z.to_nat (Z.log2 z))) z.
Definition format_int (z : Z) : bytes := if z <? 0 then 45%N :: format_uint (- z) else format_uint z.

Fixpoint parse_digits (acc : Z) (s : bytes) : option Z :=
  match s with
  | [] => Some acc
  | c :: r => match digit_val c with Some d => parse_digits (acc * 10 + d) r | None => None end
  end.
Definition parse_uint (s : bytes) : option Z := match s with [] => None | _ => parse_digits 0 s end.
(* optional sign, then at least one digit *)
Definition parse_int (s : bytes) : option Z :=
  match s with
  | c :: r => if (c =? 45)%N then option_map Z.opp (parse_uint r)
              else if (c =? 43)%N then parse_uint r else parse_uint s
  | [] => None
  end.

(* ---------- integer column types ---------- *)
Inductive ity := I8 | U8 | I16 | U16 | I24 | U24 | I32 | U32 | I64 | U64.
Definition ity_signed (t : ity) : bool :=
  match t with I8 | I16 | I24 | I32 | I64 => true | _ => false end.
Definition ity_bits (t : ity) : Z :=
  match t with I8 | U8 => 8 | I16 | U16 => 16 | I24 | U24 => 24 | I32 | U32 => 32 | I64 | U64 => 64 end.
Definition ity_min (t : ity) : Z := if ity_signed t then - 2 ^ (ity_bits t - 1) else 0.
Definition ity_max (t : ity) : Z := if ity_signed t then 2 ^ (ity_bits t - 1) - 1 else 2 ^ ity_bits t - 1.
(* upper clamp applied by SQLxxx: SQLUint24 clamps at 1<<24, one more than the largest MEDIUMINT UNSIGNED *)
Definition ity_sql_hi (t : ity) : Z := match t with U24 => 2 ^ 24 | _ => ity_max t end.
Definition ity_announced (t : ity) : Z :=
  match t with U8 => 3 | I8 => 4 | U16 => 5 | I16 => 6 | U24 => 8 | I24 => 9 | U32 => 10 | I32 => 11 | U64 => 20 | I64 => 20 end.
Definition clamp (lo hi v : Z) : Z := if hi <? v then hi else if v <? lo then lo else v.

(* v: the int64 (signed types) / uint64 (unsigned types) the value converts to *)
Definition int_sql_text (t : ity) (v : Z) : bytes := format_int (clamp (ity_min t) (ity_sql_hi t) v).
(* Convert(text): ParseInt (64 bit), then the clamp of the type (negative texts for unsigned types wrap in the
   code: outside the model) *)
Definition int_convert_text (t : ity) (s : bytes) : option Z :=
  match parse_int s with
  | Some z => if ity_max t <? z then Some (ity_max t)
              else if z <? ity_min t then (if ity_signed t then Some (ity_min t) else None)
              else Some z
  | None => None
  end.

(* ---------- DECIMAL(p,s) ---------- *)
Record dec := mkdec { dneg : bool; dcoef : Z; dexp : Z }.   (* (-1)^neg * coef * 10^exp, coef >= 0 *)

(* sql.DecimalRound(v, s) = apd Quantize to exponent -s, rounding half up on the magnitude *)
Definition quantize (s : Z) (d : dec) : dec :=
  if - s <=? dexp d then mkdec (dneg d) (dcoef d * 10 ^ (dexp d + s)) (- s)
  else let k := - s - dexp d in mkdec (dneg d) ((dcoef d + 5 * 10 ^ (k - 1)) / 10 ^ k) (- s).

(* ConvertToDecimal(apd.Decimal) and AppendStringFixedDecimal: a column type re-scales unless scale == Exponent
   (sic: the code compares the scale with the exponent, not with its negation) *)
Definition dec_rescale (col : bool) (s : Z) (d : dec) : dec :=
  if col && negb (s =? dexp d) then quantize s d else d.

(* apd fmtF *)
Definition fmt_f (d : dec) : bytes :=
  let digs := format_uint (dcoef d) in
  (if dneg d then [45%N] else []) ++
  (if dexp d <? 0 then
     let left := - dexp d - Z.of_nat (length digs) in
     if 0 <=? left then [48%N; 46%N] ++ repeat 48%N (Z.to_nat left) ++ digs
     else firstn (Z.to_nat (- left)) digs ++ [46%N] ++ skipn (Z.to_nat (- left)) digs
   else digs ++ repeat 48%N (Z.to_nat (dexp d))).
Definition dec_sql_text (col : bool) (s : Z) (d : dec) : bytes := fmt_f (dec_rescale col s d).

(* apd setString on plain texts: sign, digits with at most one '.', (no exponent part in the model) *)
Fixpoint split_dot (s : bytes) : bytes * option bytes :=
  match s with
  | [] => ([], None)
  | c :: r => if (c =? 46)%N then ([], Some r) else let '(a, b) := split_dot r in (c :: a, b)
  end.
Definition parse_dec (s : bytes) : option dec :=
  let '(neg, r) := match s with
                   | c :: r => if (c =? 45)%N then (true, r) else if (c =? 43)%N then (false, r) else (false, s)
                   | [] => (false, s) end in
  let '(ip, fo) := split_dot r in
  let fp := match fo with Some f => f | None => [] end in
  match parse_uint (ip ++ fp) with
  | Some c => Some (mkdec neg c (- Z.of_nat (length fp)))
  | None => None
  end.

(* value * 10^s as an integer, for decimals with at most s fraction digits *)
Definition scaled (s : Z) (d : dec) : Z := (if dneg d then -1 else 1) * dcoef d * 10 ^ (dexp d + s).

(* Convert(text) of DECIMAL(p,s): parse, re-scale (column types), BoundsCheck (round when too many fraction
   digits, then |v| < 10^(p-s)) *)
Definition dec_convert_text (col : bool) (p s : Z) (txt : bytes) : option dec :=
  match parse_dec txt with
  | None => None
  | Some d =>
      let d1 := dec_rescale col s d in
      let d2 := if s <? - dexp d1 then quantize s d1 else d1 in
      if Z.abs (scaled s d2) <? 10 ^ p then Some d2 else None
  end.
Definition dec_announced (p s : Z) : Z := if s =? 0 then p + 1 else p + 2.
(* Compare = 0 (apd Cmp) for two decimals *)
Definition dec_eqv (a b : dec) : bool :=
  let m := Z.min (dexp a) (dexp b) in scaled (- m) a =? scaled (- m) b.

(* ---------- YEAR ---------- *)
Definition year_sql_text (y : Z) : bytes := format_int y.
Definition year_of_int (i : Z) : option Z :=
  if i =? 0 then Some 0
  else if (1 <=? i) && (i <=? 69) then Some (i + 2000)
  else if (70 <=? i) && (i <=? 99) then Some (i + 1900)
  else if (1901 <=? i) && (i <=? 2155) then Some i else None.
Definition year_convert_text (s : bytes) : option Z :=
  let l := length s in
  if (Nat.eqb l 1 || Nat.eqb l 2 || Nat.eqb l 4)%bool then
    match parse_int s with
    | Some i => if i =? 0 then Some 2000 else year_of_int i     (* the text "0" becomes the year 2000 *)
    | None => None
    end
  else None.   (* other lengths go through ParseFloat: outside the model *)

(* ---------- BIT(n) ---------- *)
Fixpoint be_bytes (k : nat) (v : Z) : bytes :=
  match k with O => [] | S k' => be_bytes k' (v / 256) ++ [Z.to_N (v mod 256)] end.
Definition bit_nbytes (n : Z) : nat := Z.to_nat ((n + 7) / 8).
Definition bit_sql_text (n : Z) (v : Z) : bytes := be_bytes (bit_nbytes n) v.
Definition be_decode (s : bytes) : Z := fold_left (fun acc b => acc * 256 + Z.of_N b) s 0.
Definition bit_convert_text (n : Z) (s : bytes) : option Z :=
  if (8 <? length s)%nat then None
  else let v := be_decode s in if 2 ^ n - 1 <? v then None else Some v.

(* ---------- DATE / DATETIME(n) ---------- *)
Definition us_per_sec : Z := 1000000.
Definition us_per_day : Z := 86400000000.
(* types.ZeroTime = time.Date(0,0,0,0,0,0,0,UTC) = -0001-11-30 00:00:00 *)
Definition zero_time_us : Z := days_from_civil (-1, 11, 30) * us_per_day.

Definition pad2 (z : Z) : bytes := [digit_char (z / 10); digit_char (z mod 10)].
Fixpoint padn (n : nat) (z : Z) : bytes :=
  match n with O => [] | S k => padn k (z / 10) ++ [digit_char (z mod 10)] end.
(* appendDateFormat: year 0 is written 0000, every other year by strconv.AppendInt (no padding) *)
Definition year_text (y : Z) : bytes := if y =? 0 then [48; 48; 48; 48]%N else format_int y.
Definition civil_text (dt : date) : bytes :=
  let '(y, m, d) := dt in year_text y ++ [45%N] ++ pad2 m ++ [45%N] ++ pad2 d.
Definition zero_date_text : bytes := [48; 48; 48; 48; 45; 48; 48; 45; 48; 48]%N.
(* appendMicroseconds *)
Definition frac_unit (n : nat) : Z := 10 ^ (6 - Z.of_nat n).
Definition frac_text (n : nat) (us : Z) : bytes :=
  match n with O => [] | _ => 46%N :: padn n (us / frac_unit n) end.
(* appendTimeFormat *)
Definition clock_text (h m s : Z) : bytes :=
  (if h <? 10 then [48%N] else []) ++ format_int h ++ [58%N] ++ pad2 m ++ [58%N] ++ pad2 s.

Definition year_of_us (x : Z) : Z := let '(y, _, _) := civil_from_days (x / us_per_day) in y.
(* time.Time.Round to the precision of the column: half up on the floor remainder *)
Definition round_us (n : nat) (x : Z) : Z := let q := frac_unit n in ((x + q / 2) / q) * q.

(* DATE: ConvertToTime truncates to the day, appendDateFormat *)
Definition date_sql_text (x : Z) : option bytes :=
  let day := x / us_per_day in
  if day * us_per_day =? zero_time_us then Some zero_date_text     (* truncated to the day first, then ZeroTime? *)
  else let '(y, m, d) := civil_from_days day in
       if (y <? 0) || (9999 <? y) then None else Some (civil_text (y, m, d)).
(* ConvertToTime range check: year 0..9999; but a DATETIME(6) type is == DatetimeMaxRange and is checked by
   ValidateTime instead: ZeroTime <= t <= 9999-12-31 23:59:59.999999 (which lets in the last month of year -1) *)
Definition max_time_us : Z := days_from_civil (9999, 12, 31) * us_per_day + (us_per_day - 1).
Definition datetime_range_ok (n : nat) (x : Z) : bool :=
  if Nat.eqb n 6 then (zero_time_us <=? x) && (x <=? max_time_us)
  else let y := year_of_us x in (0 <=? y) && (y <=? 9999).
Definition datetime_sql_text (n : nat) (x : Z) : option bytes :=
  if x =? zero_time_us then Some (zero_date_text ++ [32; 48; 48; 58; 48; 48; 58; 48; 48]%N ++ frac_text n 0)
  else let x' := round_us n x in
       let day := x' / us_per_day in
       let tod := x' mod us_per_day in
       let '(y, m, d) := civil_from_days day in
       if negb (datetime_range_ok n x') then None
       else Some (civil_text (y, m, d) ++ [32%N] ++
                  clock_text (tod / 3600000000) (tod / 60000000 mod 60) (tod / us_per_sec mod 60) ++
                  frac_text n (tod mod us_per_sec)).

(* time.Parse with "2006-01-02" / "2006-01-02 15:04:05.999999999" on texts of exactly that shape (4-digit year);
   any other shape is rejected by every layout of parseDatetime that could apply to an emitted text *)
Definition d2 (a b : N) : option Z :=
  match digit_val a, digit_val b with Some x, Some y => Some (x * 10 + y) | _, _ => None end.
Definition d4 (a b c d : N) : option Z :=
  match d2 a b, d2 c d with Some x, Some y => Some (x * 100 + y) | _, _ => None end.
(* fraction digits after the '.', 1..9 of them; value in microseconds (digits beyond the sixth are dropped by the
   later rounding only when non-zero; emitted texts have at most six) *)
Definition parse_frac (s : bytes) : option Z :=
  let l := Z.of_nat (length s) in
  if (l =? 0) || (9 <? l) then None
  else match parse_digits 0 s with
       | Some v => if l <=? 6 then Some (v * 10 ^ (6 - l)) else Some (v / 10 ^ (l - 6))
       | None => None end.
Definition parse_clock (s : bytes) : option Z :=      (* " HH:MM:SS[.frac]" -> microseconds of the day *)
  match s with
  | sp :: h1 :: h2 :: c1 :: m1 :: m2 :: c2 :: s1 :: s2 :: rest =>
      if (sp =? 32)%N && (c1 =? 58)%N && (c2 =? 58)%N then
        match d2 h1 h2, d2 m1 m2, d2 s1 s2 with
        | Some h, Some mi, Some se =>
            if (h <? 24) && (mi <? 60) && (se <? 60) then
              let base := h * 3600000000 + mi * 60000000 + se * us_per_sec in
              match rest with
              | [] => Some base
              | dot :: fr => if (dot =? 46)%N then option_map (Z.add base) (parse_frac fr) else None
              end
            else None
        | _, _, _ => None
        end
      else None
  | _ => None
  end.
Fixpoint beqb (a b : bytes) : bool :=
  match a, b with
  | [], [] => true
  | x :: a', y :: b' => (x =? y)%N && beqb a' b'
  | _, _ => false
  end.
(* strings.HasPrefix(full, r) *)
Fixpoint is_prefix (r full : bytes) : bool :=
  match r, full with
  | [], _ => true
  | x :: r', y :: f' => (x =? y)%N && is_prefix r' f'
  | _ :: _, [] => false
  end.
(* IsZeroTimestampStr on emitted texts: the zero date followed by nothing, or by ' ' / '.' and a prefix of
   "00:00:00.000000" *)
Definition is_zero_text (s : bytes) : bool :=
  beqb (firstn 10 s) zero_date_text &&
  match skipn 10 s with
  | [] => true
  | sp :: r => ((sp =? 32)%N || (sp =? 46)%N) &&
               is_prefix r [48; 48; 58; 48; 48; 58; 48; 48; 46; 48; 48; 48; 48; 48; 48]%N
  end.

(* the instant (microseconds) denoted by an emitted text, before the per-type rounding / range checks *)
Definition parse_datetime_text (s : bytes) : option Z :=
  if is_zero_text s then Some zero_time_us
  else match s with
  | y1 :: y2 :: y3 :: y4 :: c1 :: m1 :: m2 :: c2 :: e1 :: e2 :: rest =>
      if (c1 =? 45)%N && (c2 =? 45)%N then
        match d4 y1 y2 y3 y4, d2 m1 m2, d2 e1 e2 with
        | Some y, Some m, Some d =>
            if valid_date (y, m, d) then
              let base := days_from_civil (y, m, d) * us_per_day in
              match rest with
              | [] => Some base
              | _ => option_map (Z.add base) (parse_clock rest)
              end
            else None
        | _, _, _ => None
        end
      else None
  | _ => None
  end.

Definition date_convert_text (s : bytes) : option Z :=
  match parse_datetime_text s with
  | Some x => if x =? zero_time_us then Some x
              else let x' := (x / us_per_day) * us_per_day in
                   let y := year_of_us x' in if (y <? 0) || (9999 <? y) then None else Some x'
  | None => None
  end.
Definition datetime_convert_text (n : nat) (s : bytes) : option Z :=
  match parse_datetime_text s with
  | Some x => if x =? zero_time_us then Some x
              else let x' := round_us n x in if datetime_range_ok n x' then Some x' else None
  | None => None
  end.
Definition date_announced : Z := 10.
Definition datetime_announced : Z := 26.

(* ---------- TIME: Timespan.AppendBytes (always 6 fraction digits) / stringToTimespan ---------- *)
Definition time_max_us : Z := 3020399000000.
Definition time_sql_text (x : Z) : bytes :=
  let a := Z.abs x in
  (if x <? 0 then [45%N] else []) ++
  clock_text (a / 3600000000) (a / 60000000 mod 60) (a / us_per_sec mod 60) ++ frac_text 6 (a mod us_per_sec).
(* texts of the shape [-]H{2,3}:MM:SS[.F{6}] (the only shape emitted); others are outside the model *)
Definition time_units (neg : bool) (h mi se us : Z) : option Z :=
  if (60 <=? mi) || (60 <=? se) then None
  else
    let '(h, mi, se) := if 838 <? h then (838, 59, 59) else (h, mi, se) in
    let us := if (h =? 838) && (mi =? 59) && (se =? 59) then 0 else us in
    Some ((if neg then -1 else 1) * (us + se * us_per_sec + mi * 60000000 + h * 3600000000)).
Definition parse_time_tail (neg : bool) (h : Z) (s : bytes) : option Z :=   (* "MM:SS[.ffffff]" *)
  match s with
  | m1 :: m2 :: c2 :: s1 :: s2 :: rest =>
      if (c2 =? 58)%N then
        match d2 m1 m2, d2 s1 s2 with
        | Some mi, Some se =>
            match rest with
            | [] => time_units neg h mi se 0
            | dot :: fr =>
                if (dot =? 46)%N && (Nat.eqb (length fr) 6) then
                  match parse_digits 0 fr with Some us => time_units neg h mi se us | None => None end
                else None
            end
        | _, _ => None
        end
      else None
  | _ => None
  end.
Definition time_convert_text (s : bytes) : option Z :=
  let '(neg, r) := match s with c :: r => if (c =? 45)%N then (true, r) else (false, s) | [] => (false, s) end in
  match r with
  | a :: b :: c :: rest =>
      if (c =? 58)%N then match d2 a b with Some h => parse_time_tail neg h rest | None => None end
      else match rest with
           | d :: rest' =>
               if (d =? 58)%N then
                 match digit_val a, d2 b c with
                 | Some x, Some y => parse_time_tail neg (x * 100 + y) rest'
                 | _, _ => None end
               else None
           | [] => None
           end
  | _ => None
  end.
Definition time_announced : Z := 17.

(* ---------- ENUM / SET by name ---------- *)
Fixpoint index_of (s : bytes) (names : list bytes) (i : Z) : option Z :=
  match names with
  | [] => None
  | n :: r => if beqb s n then Some i else index_of s r (i + 1)
  end.
(* EnumType.At *)
Definition enum_sql_text (names : list bytes) (i : Z) : bytes :=
  if i =? 0 then [] else nth (Z.to_nat (i - 1)) names [].
(* EnumType.IndexOf: exact member, (collation-hash lookup: not modelled, it only adds matches), numeric index *)
Definition enum_convert_text (names : list bytes) (s : bytes) : option Z :=
  match index_of s names 1 with
  | Some i => Some i
  | None => match parse_int s with
            | Some k => if (0 <=? k) && (k <=? Z.of_nat (length names)) then Some k else None
            | None => None end
  end.

(* convertBitFieldToString: names of the set bits, lowest bit first, joined by ',' *)
Fixpoint set_members (names : list bytes) (b : Z) : list bytes :=
  match names with
  | [] => []
  | n :: r => (if Z.odd b then [n] else []) ++ set_members r (b / 2)
  end.
Fixpoint join_comma (l : list bytes) : bytes :=
  match l with
  | [] => []
  | [x] => x
  | x :: r => x ++ 44%N :: join_comma r
  end.
Definition set_sql_text (names : list bytes) (b : Z) : bytes := join_comma (set_members names b).
(* strings split on ',' *)
Fixpoint split_comma (cur : bytes) (s : bytes) : list bytes :=
  match s with
  | [] => [rev cur]
  | c :: r => if (c =? 44)%N then rev cur :: split_comma [] r else split_comma (c :: cur) r
  end.
(* convertStringToBitField for sets without an empty member: empty pieces are skipped, each piece must be a member
   (hash / numeric fallbacks are not modelled: pieces emitted by the engine are exact members) *)
Fixpoint set_bits_of (names : list bytes) (pieces : list bytes) : option Z :=
  match pieces with
  | [] => Some 0
  | p :: r =>
      match set_bits_of names r with
      | None => None
      | Some acc =>
          match p with
          | [] => Some acc
          | _ => match index_of p names 0 with Some i => Some (Z.lor acc (2 ^ i)) | None => None end
          end
      end
  end.
Definition set_convert_text (names : list bytes) (s : bytes) : option Z :=
  match s with [] => Some 0 | _ => set_bits_of names (split_comma [] s) end.
