(* C27/C26 — ENUM, SET and BIT: Convert of numbers (sql/types/enum.go, set.go, bit.go) and the keys Compare orders by.
   An ENUM / SET type is given by its number of members n; BIT by its width w.  Integers are Go int64 / uint64 values;
   uint64(v) of a negative int64 is v + 2^64. *)
From Coq Require Import ZArith Bool List.
Import ListNotations.
From GMS Require Import Codec.C25Arith Codec.C27Convert.
Open Scope Z_scope.

Inductive eres := EErr | EOk (z : Z).

Definition as_u64 (v : value) : Z := match v with SI z => z mod two64 | SU z | SW z => z | SD m _ => m end.

(* EnumType.Convert on an integer (non-strict context): a valid index 0..n is kept (0 is the empty value), anything
   else is an error; a decimal is rounded first (DecimalRoundedIntPart) *)
Definition conv_enum (n : Z) (v : value) : eres :=
  let z := match v with SI z | SU z | SW z => z | SD m s => rha m (10 ^ s) end in
  if (0 <=? z) && (z <=? n) then EOk z else EErr.

(* SetType.Convert on an integer: uint64(v) must not exceed the all-members bit field 2^n - 1 *)
Definition conv_set (n : Z) (v : value) : eres :=
  match v with
  | SD m s => let u := (Z.abs (rha m (10 ^ s))) mod two64 in if u <=? 2 ^ n - 1 then EOk u else EErr
  | _ => let u := as_u64 v in if u <=? 2 ^ n - 1 then EOk u else EErr
  end.

(* BitType_.Convert: uint64(v) (a decimal is rounded, range-checked against [MinInt64, MaxUint64], and then its
   MAGNITUDE is taken: Coeff.Uint64()) must fit the width *)
Definition conv_bit (w : Z) (v : value) : eres :=
  match v with
  | SD m s =>
      let r := rha m (10 ^ s) in
      if (r >? max_u64) || (r <? min_i64) then EErr
      else let u := Z.abs r in if u >? 2 ^ w - 1 then EErr else EOk u
  | _ => let u := as_u64 v in if u >? 2 ^ w - 1 then EErr else EOk u
  end.

(* keys of Compare: ENUM orders by index with invalid values (Convert error -> nil) first; SET and BIT by value *)
Definition key_enum (n : Z) (v : value) : Z := match conv_enum n v with EOk z => z | EErr => -1 end.
Definition key_set (n : Z) (v : value) : Z := match conv_set n v with EOk z => z | EErr => -1 end.
Definition key_bit (w : Z) (v : value) : Z := match conv_bit w v with EOk z => z | EErr => -1 end.
