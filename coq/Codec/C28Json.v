(* COPY for C28 of Codec/C32Json.v (the JSON document model of C32; do not edit -- re-copy instead). C32: model of JSON documents (sql/types/json_value.go, json_encode.go) for integers and strings:
   - [json]: null, booleans, exact integers, byte strings, arrays, objects as association lists (JsonObject is a Go map;
     obj_get reads the first binding, so the first occurrence of a key is the one that counts);
   - [print]: writeMarshalledValue (json_encode.go): ", " and ": " separators, object keys in the order "shorter first,
     then bytewise" (sortKeys), strings escaped with the escapeSeq table (the table of internal/strings.Quote, model
     [esc], without Quote's U+FFFD substitution), integers in decimal;
   - [parse_raw]/[parse]: a recursive-descent parser for the printed language (the model's own; encoding/json is not modelled);
   - [canon]: canonical form (objects sorted by the print order, first binding of a key wins);
   - [cmp_json]: CompareJSON (type precedence BOOLEAN > ARRAY > OBJECT > STRING > number > null, arrays elementwise,
     objects by bytewise-sorted keys with the inverted key comparison, strings bytewise, integers exactly);
   - paths as lists of legs (.key / [n]; the text syntax of paths is not modelled); [lookup] = LookupJSONValue for such paths
     (JSON_EXTRACT, JSON_CONTAINS_PATH); [upd] = walkPathAndUpdate / updateObject / updateArray /
     updateObjectTreatAsArray with their quirks (a missing member is walked into as JSON null; an index leg on a
     non-array or past the end ignores the rest of the path). *)
From Coq Require Import List NArith ZArith Bool Arith Lia DecimalZ.
Import ListNotations.
From GMS Require Import Codec.Charset Codec.JsonQuote.
Open Scope N_scope.

Inductive json : Type :=
| JNull | JBool (b : bool) | JInt (z : Z) | JStr (s : list N)
| JArr (l : list json) | JObj (m : list (list N * json)).

(* ---------- keys ---------- *)
Fixpoint bytes_cmp (a b : list N) : comparison :=          (* strings.Compare *)
  match a, b with
  | [], [] => Eq
  | [], _ :: _ => Lt
  | _ :: _, [] => Gt
  | x :: a', y :: b' => match x ?= y with Eq => bytes_cmp a' b' | c => c end
  end.

(* sortKeys: shorter keys first, then bytewise *)
Definition key_cmp (a b : list N) : comparison :=
  match Nat.compare (length a) (length b) with Eq => bytes_cmp a b | c => c end.

Definition key_eqb (a b : list N) : bool := match bytes_cmp a b with Eq => true | _ => false end.

Fixpoint obj_get (k : list N) (m : list (list N * json)) : option json :=
  match m with
  | [] => None
  | (k', v) :: m' => if key_eqb k k' then Some v else obj_get k m'
  end.

(* doc[name] = val: replace the binding that counts, or add one *)
Fixpoint obj_set (k : list N) (v : json) (m : list (list N * json)) : list (list N * json) :=
  match m with
  | [] => [(k, v)]
  | (k', v') :: m' => if key_eqb k k' then (k', v) :: m' else (k', v') :: obj_set k v m'
  end.

(* delete(doc, name) *)
Fixpoint obj_remove (k : list N) (m : list (list N * json)) : list (list N * json) :=
  match m with
  | [] => []
  | (k', v') :: m' => if key_eqb k k' then obj_remove k m' else (k', v') :: obj_remove k m'
  end.

(* ---------- canonical form ---------- *)
(* insert into a list sorted by ord; an existing equal key is replaced *)
Fixpoint kv_insert (ord : list N -> list N -> comparison) (k : list N) (v : json) (m : list (list N * json)) :=
  match m with
  | [] => [(k, v)]
  | (k', v') :: m' =>
      match ord k k' with
      | Lt => (k, v) :: m
      | Eq => (k, v) :: m'
      | Gt => (k', v') :: kv_insert ord k v m'
      end
  end.
Definition kv_sort (ord : list N -> list N -> comparison) (m : list (list N * json)) :=
  fold_right (fun kv acc => kv_insert ord (fst kv) (snd kv) acc) [] m.

Fixpoint canon (j : json) : json :=
  match j with
  | JArr l => JArr (map canon l)
  | JObj m => JObj (kv_sort key_cmp (map (fun kv => (fst kv, canon (snd kv))) m))
  | _ => j
  end.

(* ---------- printer ---------- *)
Definition pstr (s : list N) : list N := 34 :: flat_map esc s ++ [34].

Fixpoint uint_digits (u : Decimal.uint) : list N :=
  match u with
  | Decimal.Nil => []
  | Decimal.D0 u' => 48 :: uint_digits u' | Decimal.D1 u' => 49 :: uint_digits u'
  | Decimal.D2 u' => 50 :: uint_digits u' | Decimal.D3 u' => 51 :: uint_digits u'
  | Decimal.D4 u' => 52 :: uint_digits u' | Decimal.D5 u' => 53 :: uint_digits u'
  | Decimal.D6 u' => 54 :: uint_digits u' | Decimal.D7 u' => 55 :: uint_digits u'
  | Decimal.D8 u' => 56 :: uint_digits u' | Decimal.D9 u' => 57 :: uint_digits u'
  end.
Definition pint (z : Z) : list N :=              (* strconv.FormatInt(z, 10) *)
  match Z.to_int z with
  | Decimal.Pos u => uint_digits u
  | Decimal.Neg u => 45 :: uint_digits u
  end.

Fixpoint join (sep : list N) (l : list (list N)) : list N :=
  match l with
  | [] => []
  | [x] => x
  | x :: l' => x ++ sep ++ join sep l'
  end.

Fixpoint print_raw (j : json) : list N :=
  match j with
  | JNull => [110; 117; 108; 108]
  | JBool true => [116; 114; 117; 101]
  | JBool false => [102; 97; 108; 115; 101]
  | JInt z => pint z
  | JStr s => pstr s
  | JArr l => 91 :: join [44; 32] (map print_raw l) ++ [93]
  | JObj m => 123 :: join [44; 32] (map (fun kv => pstr (fst kv) ++ [58; 32] ++ print_raw (snd kv)) m) ++ [125]
  end.

Definition print (j : json) : list N := print_raw (canon j).

(* ---------- CompareJSON ---------- *)
Definition rank (j : json) : nat :=
  match j with JNull => 0 | JInt _ => 1 | JStr _ => 2 | JObj _ => 3 | JArr _ => 4 | JBool _ => 5 end%nat.

Fixpoint cmp_json (a b : json) {struct a} : comparison :=
  match a, b with
  | JNull, JNull => Eq
  | JBool x, JBool y => match x, y with true, false => Gt | false, true => Lt | _, _ => Eq end
  | JInt x, JInt y => (x ?= y)%Z
  | JStr x, JStr y => bytes_cmp x y
  | JArr x, JArr y =>
      (fix go (x y : list json) {struct x} : comparison :=
         match x, y with
         | [], [] => Eq
         | [], _ :: _ => Lt
         | _ :: _, [] => Gt
         | u :: x', v :: y' => match cmp_json u v with Eq => go x' y' | c => c end
         end) x y
  | JObj x, JObj y =>
      (* both key-sorted bytewise (the caller sorts); keys compared with the inverted sign *)
      (fix go (x y : list (list N * json)) {struct x} : comparison :=
         match x, y with
         | [], [] => Eq
         | [], _ :: _ => Lt
         | _ :: _, [] => Gt
         | (k1, u) :: x', (k2, v) :: y' =>
             match bytes_cmp k1 k2 with
             | Lt => Gt | Gt => Lt
             | Eq => match cmp_json u v with Eq => go x' y' | c => c end
             end
         end) x y
  | _, _ => Nat.compare (rank a) (rank b)
  end.

(* objects are brought into bytewise key order (slices.Sorted(maps.Keys(..))) at every level before comparing *)
Fixpoint sort_bytewise (j : json) : json :=
  match j with
  | JArr l => JArr (map sort_bytewise l)
  | JObj m => JObj (kv_sort bytes_cmp (map (fun kv => (fst kv, sort_bytewise (snd kv))) m))
  | _ => j
  end.
Definition compare_json (a b : json) : comparison := cmp_json (sort_bytewise a) (sort_bytewise b).

(* ---------- paths ---------- *)
Inductive leg : Type := LKey (k : list N) | LIdx (n : nat).

Fixpoint lookup (p : list leg) (j : json) : option json :=
  match p with
  | [] => Some j
  | LKey k :: p' =>
      match j with
      | JObj m => match obj_get k m with Some v => lookup p' v | None => None end
      | _ => None
      end
  | LIdx n :: p' =>
      match j with
      | JArr l => match nth_error l n with Some v => lookup p' v | None => None end
      | _ => None
      end
  end.

Definition contains_path (p : list leg) (j : json) : bool := match lookup p j with Some _ => true | None => false end.

Inductive mode : Type := SET | INSERT | REPLACE | REMOVE | APPEND.

Fixpoint replace_nth (n : nat) (v : json) (l : list json) : list json :=
  match l, n with
  | [], _ => []
  | _ :: l', O => v :: l'
  | x :: l', S n' => x :: replace_nth n' v l'
  end.
Fixpoint remove_nth (n : nat) (l : list json) : list json :=
  match l, n with
  | [], _ => []
  | _ :: l', O => l'
  | x :: l', S n' => x :: remove_nth n' l'
  end.

Definition append_to (doc v : json) : json :=
  match doc with JArr l => JArr (l ++ [v]) | _ => JArr [doc; v] end.

(* walkPathAndUpdate; the result is (document, changed).  REMOVE with the empty path is an error in the code and
   is not used. *)
Fixpoint upd (md : mode) (p : list leg) (doc v : json) : json * bool :=
  match p with
  | [] =>
      match md with
      | SET | REPLACE => (v, true)
      | INSERT | REMOVE => (doc, false)
      | APPEND => (append_to doc v, true)
      end
  | LKey k :: p' =>
      match doc with
      | JObj m =>
          match p' with
          | [] =>
              match md with
              | APPEND =>
                  match obj_get k m with
                  | None => (doc, false)
                  | Some c => (JObj (obj_set k (append_to c v) m), true)
                  end
              | SET => (JObj (obj_set k v m), true)
              | INSERT => match obj_get k m with None => (JObj (obj_set k v m), true) | Some _ => (doc, false) end
              | REPLACE => match obj_get k m with Some _ => (JObj (obj_set k v m), true) | None => (doc, false) end
              | REMOVE => match obj_get k m with Some _ => (JObj (obj_remove k m), true) | None => (doc, false) end
              end
          | _ :: _ =>
              (* doc[name] of a missing member is nil, i.e. JSON null, and the walk goes on *)
              let c := match obj_get k m with Some c => c | None => JNull end in
              let '(c', ch) := upd md p' c v in
              if ch then (JObj (obj_set k c' m), true) else (doc, false)
          end
      | _ => (doc, false)
      end
  | LIdx n :: p' =>
      match doc with
      | JArr l =>
          match nth_error l n with
          | Some c =>
              match p', md with
              | [], SET | [], REPLACE => (JArr (replace_nth n v l), true)
              | [], REMOVE => (JArr (remove_nth n l), true)
              | [], INSERT => (doc, false)
              | _, _ =>
                  let '(c', ch) := upd md p' c v in
                  if ch then (JArr (replace_nth n c' l), true) else (doc, false)
              end
          | None =>            (* past the end: SET and INSERT append, whatever the rest of the path is *)
              match md with
              | SET | INSERT => (JArr (l ++ [v]), true)
              | _ => (doc, false)
              end
          end
      | _ =>                   (* updateObjectTreatAsArray: the rest of the path is ignored *)
          match n with
          | O => match md with
                 | SET | REPLACE => (v, true)
                 | APPEND => (JArr [doc; v], true)
                 | _ => (doc, false)
                 end
          | S _ => match md with
                   | SET | INSERT => (JArr [doc; v], true)
                   | _ => (doc, false)
                   end
          end
      end
  end.
