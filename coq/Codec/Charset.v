(* Model of sql/encodings/rangemap.go (RangeMap: Decode, Encode, EncodeReplaceUnknown, DecodeRune, EncodeRune,
   rangeBounds.contains) as small total functions, line by line, quirks included:
   - byte arithmetic wraps modulo 256 (r[i]-lo, lo+byte(diff));
   - an index past the end of a mults/bounds/data slice, a division by a zero multiplier and a slice
     expression past the capacity (str[:n]) or past the length (str[n:]) are the explicit outcome [Panic];
   - Encode had no "n > len(str)" guard until commit 014a463e8; it now has the same guard as Decode.
   Go's int arithmetic is modelled in N without wrap (on well-formed tables every intermediate value is below
   256^4; the translator rejects negative multipliers). *)
From Coq Require Import List NArith Bool Arith.
Import ListNotations.
Open Scope N_scope.

Inductive res (A : Type) : Type := Ok (a : A) | Fail | Panic.
Arguments Ok {A} a.
Arguments Fail {A}.
Arguments Panic {A}.

Definition bounds := list (N * N).            (* rangeBounds: (min, max) per byte position *)
Record entry := mkE { inR : bounds; outR : bounds; inM : list N; outM : list N }.
Record rangemap := mkMap { inE : list (list entry); outE : list (list entry) }.

Definition flip (e : entry) : entry := mkE (outR e) (inR e) (outM e) (inM e).

(* rangeBounds.contains; None = index out of range on data[i] *)
Fixpoint contains (b : bounds) (d : list N) : option bool :=
  match b with
  | [] => Some true
  | (lo, hi) :: b' =>
      match d with
      | [] => None
      | x :: d' => if (x <? lo) || (hi <? x) then Some false else contains b' d'
      end
  end.

(* increase += int(r[i]-lo_i) * mults[i]   for i over the positions of the range; None = index out of range *)
Fixpoint increase (b : bounds) (d m : list N) : option N :=
  match b, d, m with
  | [], _, _ => Some 0
  | (lo, _) :: b', x :: d', k :: m' =>
      match increase b' d' m' with
      | Some r => Some (((x + 256 - lo) mod 256) * k + r)
      | None => None
      end
  | _, _, _ => None
  end.

(* diff := increase / mults[i]; out[i] = lo_i + byte(diff); increase -= diff*mults[i] *)
Fixpoint emit (b : bounds) (m : list N) (inc : N) : option (list N) :=
  match b with
  | [] => Some []
  | (lo, _) :: b' =>
      match m with
      | [] => None
      | k :: m' =>
          if k =? 0 then None else
          let diff := inc / k in
          match emit b' m' (inc - diff * k) with
          | Some o => Some (((lo + diff) mod 256) :: o)
          | None => None
          end
      end
  end.

(* body of DecodeRune for one matching entry (EncodeRune is the same on the flipped entry) *)
Definition xlate_entry (e : entry) (r : list N) : res (list N) :=
  match increase (inR e) r (inM e) with
  | None => Panic
  | Some inc => match emit (outR e) (outM e) inc with None => Panic | Some o => Ok o end
  end.

Fixpoint first_match (es : list entry) (r : list N) : res (list N) :=
  match es with
  | [] => Fail
  | e :: es' =>
      match contains (inR e) r with
      | None => Panic
      | Some true => xlate_entry e r
      | Some false => first_match es' r
      end
  end.

(* DecodeRune over rm.inputEntries; EncodeRune is the same over the flipped rm.outputEntries *)
Definition rune_lookup (groups : list (list entry)) (r : list N) : res (list N) :=
  match r with
  | [] => Panic                                    (* groups[len(r)-1] with len(r) = 0 *)
  | _ :: r' => if (length groups <? length r)%nat then Fail else first_match (nth (length r') groups []) r
  end.

Definition in_groups (rm : rangemap) := inE rm.
Definition out_groups (rm : rangemap) := map (map flip) (outE rm).
Definition decode_rune (rm : rangemap) := rune_lookup (in_groups rm).
Definition encode_rune (rm : rangemap) := rune_lookup (out_groups rm).

(* the outer "for len(str) > 0" loop shared by the three string functions; [step] yields the consumed length
   and the produced bytes.  Fuel = len(str) always suffices (every step consumes at least one byte); running out
   of fuel is reported as Panic so that the no-panic theorems also show it cannot happen. *)
Fixpoint loop (fuel : nat) (step : list N -> res (nat * list N)) (str : list N) : res (list N) :=
  match str with
  | [] => Ok []
  | _ :: _ =>
      match fuel with
      | O => Panic
      | S f =>
          match step str with
          | Ok (L, r) =>
              match loop f step (skipn L str) with
              | Ok rest => Ok (r ++ rest)
              | Fail => Fail
              | Panic => Panic
              end
          | Fail => Fail
          | Panic => Panic
          end
      end
  end.

(* Decode: for L := 1; L <= len(inputEntries); L++ { if L > len(str) {return nil,false}; DecodeRune(str[:L]) } *)
Fixpoint dec_try (G : list (list entry)) (str : list N) (k L : nat) : res (nat * list N) :=
  match k with
  | O => Fail
  | S k' =>
      if (length str <? L)%nat then Fail else
      match rune_lookup G (firstn L str) with
      | Ok r => Ok (L, r)
      | Fail => dec_try G str k' (S L)
      | Panic => Panic
      end
  end.

Definition decode_step (rm : rangemap) (str : list N) := dec_try (in_groups rm) str (length (inE rm)) 1.
Definition decode (rm : rangemap) (str : list N) : res (list N) := loop (length str) (decode_step rm) str.

(* Encode: for L := 1; L <= len(inputEntries); L++ { if L > len(str) {return nil,false}; EncodeRune(str[:L]) }
   -- since commit 014a463e8 the scan has the same length guard as Decode, so str[:L] never reaches past the length
   (the hidden capacity [hid] of the argument slice is therefore irrelevant; the parameter is kept for the cases) and
   str = str[L:] is always in range.  The scan is dec_try over the flipped output entries. *)
Definition encode_step (rm : rangemap) (hid str : list N) : res (nat * list N) :=
  dec_try (out_groups rm) str (length (inE rm)) 1.
Definition encode (rm : rangemap) (str hid : list N) : res (list N) := loop (length str) (encode_step rm hid) str.

(* size result of unicode/utf8.DecodeRune (the rune itself is not used by EncodeReplaceUnknown) *)
Definition cont (b : N) : bool := (128 <=? b) && (b <=? 191).
Definition utf8_width (p : list N) : nat :=
  match p with
  | [] => 0
  | p0 :: t =>
      if p0 <? 128 then 1
      else if (p0 <? 194) || (244 <? p0) then 1
      else
        let sz : nat := if p0 <? 224 then 2%nat else if p0 <? 240 then 3%nat else 4%nat in
        let lo := if p0 =? 224 then 160 else if p0 =? 240 then 144 else 128 in
        let hi := if p0 =? 237 then 159 else if p0 =? 244 then 143 else 191 in
        if (length p <? sz)%nat then 1 else
        match t with
        | b1 :: t1 =>
            if (b1 <? lo) || (hi <? b1) then 1 else
            if (sz <=? 2)%nat then 2 else
            match t1 with
            | b2 :: t2 =>
                if negb (cont b2) then 1 else
                if (sz <=? 3)%nat then 3 else
                match t2 with
                | b3 :: _ => if negb (cont b3) then 1 else 4
                | [] => 1
                end
            | [] => 1
            end
        | [] => 1
        end
  end.

(* EncodeReplaceUnknown: for L := 1; L <= len(inputEntries) && L <= len(str); L++ { EncodeRune(str[:L]) };
   the result is the final L and the last encodedRune ([] stands for nil) *)
Fixpoint eru_try (G' : list (list entry)) (str : list N) (k L : nat) : res (nat * list N) :=
  match k with
  | O => Ok (L, [])
  | S k' =>
      if (length str <? L)%nat then Ok (L, []) else
      match rune_lookup G' (firstn L str) with
      | Ok r => Ok (L, r)
      | Fail => eru_try G' str k' (S L)
      | Panic => Panic
      end
  end.

Definition eru_step (rm : rangemap) (str : list N) : res (nat * list N) :=
  match eru_try (out_groups rm) str (length (inE rm)) 1 with
  | Ok (L, r) =>
      let '(L1, r1) :=
        if (length (inE rm) <? L)%nat
        then ((match utf8_width str with O => 1 | w => w end)%nat, [63])
        else (L, r) in
      let L2 := if (length str <=? L1)%nat then length str else L1 in
      let r2 := match r1 with [] => [63] | _ => r1 end in
      Ok (L2, r2)
  | x => x
  end.
Definition encode_replace_unknown (rm : rangemap) (str : list N) : res (list N) :=
  loop (length str) (eru_step rm) str.

(* ---------- well-formedness of a table (boolean, decided by vm_compute on each translated table) ---------- *)
Definition bounds_ok (b : bounds) : bool := forallb (fun p => (fst p <=? snd p) && (snd p <? 256)) b.
Definition sizes (b : bounds) : list N := map (fun p => snd p - fst p + 1) b.
Fixpoint prod (l : list N) : N := match l with [] => 1 | x :: l' => x * prod l' end.
Fixpoint weights (l : list N) : list N := match l with [] => [] | _ :: l' => prod l' :: weights l' end.

Fixpoint ns_eqb (a b : list N) : bool :=
  match a, b with
  | [], [] => true
  | x :: a', y :: b' => (x =? y) && ns_eqb a' b'
  | _, _ => false
  end.
Fixpoint bounds_eqb (a b : bounds) : bool :=
  match a, b with
  | [], [] => true
  | (x1, x2) :: a', (y1, y2) :: b' => (x1 =? y1) && (x2 =? y2) && bounds_eqb a' b'
  | _, _ => false
  end.
Definition entry_eqb (a b : entry) : bool :=
  bounds_eqb (inR a) (inR b) && bounds_eqb (outR a) (outR b) && ns_eqb (inM a) (inM b) && ns_eqb (outM a) (outM b).

(* ranges non-empty and within a byte, multipliers are the mixed-radix weights of their own side *)
Definition wf_entry (e : entry) : bool :=
  bounds_ok (inR e) && bounds_ok (outR e) &&
  ns_eqb (inM e) (weights (sizes (inR e))) && ns_eqb (outM e) (weights (sizes (outR e))).

(* two ranges that differ at some common position: no member of one is equal to, or a prefix of, a member of the other *)
Fixpoint disjointb (a b : bounds) : bool :=
  match a, b with
  | (l1, h1) :: a', (l2, h2) :: b' => (h1 <? l2) || (h2 <? l1) || disjointb a' b'
  | _, _ => false
  end.
Fixpoint pairwise {A} (f : A -> A -> bool) (l : list A) : bool :=
  match l with [] => true | x :: l' => forallb (f x) l' && pairwise f l' end.

Fixpoint groups_ok (k : nat) (G : list (list entry)) : bool :=
  match G with
  | [] => true
  | g :: G' => forallb (fun e => Nat.eqb (length (inR e)) k) g && groups_ok (S k) G'
  end.

(* one direction: group k holds the entries whose input side is k bytes wide, entries are well-formed, input
   ranges are pairwise disjoint and prefix-free, and each entry also occurs (flipped) in the group of the other
   direction that its output width selects *)
Definition wf_struct (G G' : list (list entry)) : bool :=
  groups_ok 1 G && forallb wf_entry (concat G) &&
  pairwise (fun a b => disjointb (inR a) (inR b)) (concat G) &&
  forallb (fun e => Nat.leb 1 (length (outR e)) &&
                    existsb (entry_eqb (flip e)) (nth (Nat.sub (length (outR e)) 1) G' [])) (concat G).

(* the input side of every entry has at most as many elements as its output side (so translating never
   leaves the output range) *)
Definition card_le (G : list (list entry)) : bool :=
  forallb (fun e => prod (sizes (inR e)) <=? prod (sizes (outR e))) (concat G).

(* wf_map: what every translated table satisfies.  wf_exact: additionally both sides of every entry have the
   same number of elements (true of 10 of the 12 tables; Utf16 and Utf32 have UTF-8 side ranges that also
   cover encoded surrogates / values above U+10FFFF). *)
Definition wf_map (rm : rangemap) : bool :=
  wf_struct (in_groups rm) (out_groups rm) && wf_struct (out_groups rm) (in_groups rm) &&
  Nat.eqb (length (inE rm)) (length (outE rm)) && card_le (in_groups rm).
Definition wf_exact (rm : rangemap) : bool := wf_map rm && card_le (out_groups rm).

Fixpoint groups_eqb (a b : list (list entry)) : bool :=
  match a, b with
  | [], [] => true
  | x :: a', y :: b' =>
      (fix go (u v : list entry) : bool :=
         match u, v with
         | [], [] => true
         | e :: u', f :: v' => entry_eqb e f && go u' v'
         | _, _ => false
         end) x y && groups_eqb a' b'
  | _, _ => false
  end.
Definition map_eqb (a b : rangemap) : bool := groups_eqb (inE a) (inE b) && groups_eqb (outE a) (outE b).
