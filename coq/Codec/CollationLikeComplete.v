(* Completeness of the LIKE backtracking machine (Codec/CollationLike.v): on a string without malformed runes the machine,
   given enough fuel to finish, returns exactly the declarative meaning of the pattern.  The proof carries the
   depth-first-search history: below every '%' entry of the stack all shorter consumptions have been refuted. *)
From Coq Require Import List NArith ZArith Bool Arith Lia.
Import ListNotations.
From GMS Require Import Codec.Charset Codec.Collation Codec.CollationProofs Codec.CollationLike.
Open Scope Z_scope.

Definition sfx (u v : list item) : Prop := exists p, v = p ++ u.
Definition psfx (u v : list item) : Prop := exists x p, v = (x :: p) ++ u.

Lemma sfx_refl u : sfx u u.
Proof. exists []. reflexivity. Qed.
Lemma sfx_cons x u v : sfx u v -> sfx u (x :: v).
Proof. intros [p ->]. exists (x :: p). reflexivity. Qed.
Lemma sfx_trans a b c : sfx a b -> sfx b c -> sfx a c.
Proof. intros [p ->] [q ->]. exists (q ++ p). now rewrite app_assoc. Qed.
Lemma sfx_nil_inv u : sfx u [] -> u = [].
Proof. intros [p H]. symmetry in H. apply app_eq_nil in H. tauto. Qed.
Lemma sfx_cons_inv u x v : sfx u (x :: v) -> u = x :: v \/ sfx u v.
Proof.
  intros [p H]. destruct p as [|y p]; cbn in H; [left; now subst|]. injection H as -> ->. right. exists p. reflexivity.
Qed.
Lemma psfx_sfx u v : psfx u v -> sfx u v.
Proof. intros (x & p & ->). exists (x :: p). reflexivity. Qed.
Lemma sfx_tail x u : psfx u (x :: u).
Proof. exists x, []. reflexivity. Qed.

(* two suffixes of one list are comparable *)
Lemma sfx_compare a b : forall v, sfx a v -> sfx b v -> sfx a b \/ psfx b a.
Proof.
  induction v as [|x v IH]; intros Ha Hb.
  - apply sfx_nil_inv in Ha. apply sfx_nil_inv in Hb. subst. left. apply sfx_refl.
  - apply sfx_cons_inv in Ha. apply sfx_cons_inv in Hb. destruct Ha as [->|Ha], Hb as [->|Hb].
    + left. apply sfx_refl.
    + right. destruct Hb as [p ->]. exists x, p. reflexivity.
    + left. apply sfx_cons. exact Ha.
    + apply IH; assumption.
Qed.

Definition cond (so w : Z) : bool := (so <? 0) || (w =? so).

(* '%' followed by ns matches s iff ns matches some suffix of s *)
Lemma dlike_any_false ns : forall s, (forall u, sfx u s -> dlike ns u = false) -> dlike (NAny :: ns) s = false.
Proof.
  induction s as [|x s IH]; intros H; rewrite dlike_any.
  - rewrite (H [] (sfx_refl _)). reflexivity.
  - rewrite (H (x :: s) (sfx_refl _)). cbn [orb]. apply IH. intros u Hu. apply H. apply sfx_cons. exact Hu.
Qed.

Lemma dlike_any_suffix ns : forall s u, sfx u s -> dlike ns u = true -> dlike (NAny :: ns) s = true.
Proof.
  induction s as [|x s IH]; intros u Hu Hd; rewrite dlike_any.
  - apply sfx_nil_inv in Hu. subst. now rewrite Hd.
  - apply sfx_cons_inv in Hu. destruct Hu as [->|Hu]; [now rewrite Hd|]. rewrite (IH u Hu Hd). apply orb_true_r.
Qed.

Lemma dlike_nil_all_any todo : dlike todo [] = forallb is_any todo.
Proof.
  induction todo as [|n todo IH]; [reflexivity|]. destruct n; [reflexivity|]. rewrite dlike_any, IH. cbn. now rewrite orb_false_r.
Qed.

Definition prev (s0 : list item) (done : list (node * list item)) : list item :=
  match done with [] => s0 | (_, ps) :: _ => ps end.

(* the stack is consistent with the string and records the refuted shorter consumptions of every '%' *)
Fixpoint Inv (s0 : list item) (done : list (node * list item)) (todo : list node) : Prop :=
  match done with
  | [] => True
  | (n, suf) :: done' =>
      Inv s0 done' (n :: todo) /\
      match n with
      | NRune so => exists w, prev s0 done' = Good w :: suf /\ cond so w = true
      | NAny => sfx suf (prev s0 done') /\
                forall t, sfx t (prev s0 done') -> psfx suf t -> dlike todo t = false
      end
  end.

(* if nothing after the stack can match any suffix of what is left, no backtracking alternative can succeed *)
Lemma no_alternative s0 : forall done todo, Inv s0 done todo ->
  (forall u, sfx u (prev s0 done) -> dlike todo u = false) -> alts done todo = false.
Proof.
  induction done as [|[n suf] done IH]; intros todo HI F; [reflexivity|].
  cbn [Inv] in HI. destruct HI as [HI Hn]. cbn [prev] in F. cbn [alts].
  assert (P1 : (is_any n && match suf with [] => false | _ :: suf' => dlike (NAny :: todo) suf' end) = false).
  { destruct suf as [|x suf']; [apply andb_false_r|]. rewrite dlike_any_false; [apply andb_false_r|].
    intros u Hu. apply F. apply sfx_cons. exact Hu. }
  rewrite P1. cbn [orb]. apply IH; [exact HI|]. intros u Hu.
  destruct n as [so|].
  - destruct Hn as (w & Hp & Hc). rewrite Hp in Hu.
    destruct u as [|x u']; [reflexivity|]. cbn [dlike]. destruct x as [w'|]; [|reflexivity].
    assert (Hu' : sfx u' suf).
    { apply sfx_cons_inv in Hu. destruct Hu as [E|Hu]; [injection E as _ ->; apply sfx_refl|].
      eapply sfx_trans; [|exact Hu]. apply psfx_sfx. apply sfx_tail. }
    rewrite (F u' Hu'). apply andb_false_r.
  - destruct Hn as (Hs & Hh). apply dlike_any_false. intros u2 Hu2.
    assert (Hu2' : sfx u2 (prev s0 done)) by (eapply sfx_trans; eassumption).
    destruct (sfx_compare u2 suf _ Hu2' Hs) as [A|B]; [apply F; exact A|apply Hh; assumption].
Qed.

(* backtracking resumes at the most recent '%': what it can still reach is unchanged ... *)
Lemma backtrack_eq : forall done todo d t r, backtrack done todo = Some (d, t, r) ->
  alts done todo = dlike t r || alts d t.
Proof.
  induction done as [|[n suf] done IH]; intros todo d t r H; [discriminate|].
  cbn [backtrack] in H. destruct suf as [|[w|] suf']; try discriminate. cbn [alts].
  destruct (is_any n) eqn:A.
  - injection H as <- <- <-. destruct n; [discriminate|]. cbn [alts is_any andb].
    rewrite (dlike_any todo suf'). now rewrite orb_assoc.
  - cbn [andb orb]. apply IH. exact H.
Qed.

Definition all_good (s : list item) : Prop := Forall (fun x => x <> Bad) s.
Lemma all_good_sfx u v : sfx u v -> all_good v -> all_good u.
Proof. intros [p ->] H. unfold all_good in *. rewrite Forall_app in H. tauto. Qed.

(* ... and the invariant is kept, given that the current continuation has just failed *)
Lemma backtrack_inv s0 : all_good s0 -> forall done todo,
  Inv s0 done todo -> prev s0 done <> [] -> sfx (prev s0 done) s0 -> dlike todo (prev s0 done) = false ->
  match backtrack done todo with
  | Some (d, t, r) => Inv s0 d t /\ r = prev s0 d /\ sfx r s0
  | None => alts done todo = false
  end.
Proof.
  intros Hg. induction done as [|[n suf] done IH]; intros todo HI Hne Hsf F; [reflexivity|].
  cbn [Inv] in HI. destruct HI as [HI Hn]. cbn [prev] in *. cbn [backtrack].
  destruct suf as [|x suf']; [congruence|].
  assert (Hx : x <> Bad).
  { pose proof (all_good_sfx _ _ Hsf Hg) as G. inversion G; assumption. }
  destruct x as [w|]; [|congruence].
  destruct n as [so|]; cbn [is_any].
  - destruct Hn as (w0 & Hp & Hc).
    assert (F' : dlike (NRune so :: todo) (prev s0 done) = false).
    { rewrite Hp. cbn [dlike]. rewrite F. apply andb_false_r. }
    assert (Hsf' : sfx (prev s0 done) s0).
    { destruct done as [|[n2 s2] done2]; [apply sfx_refl|]. cbn [prev] in *.
      (* the older entry's suffix contains the newer one *)
      clear -HI Hg. revert HI. generalize (NRune so :: todo). intros td HI. cbn [Inv] in HI. destruct HI as [HI Hn2].
      revert n2 s2 td HI Hn2. induction done2 as [|[n3 s3] done3 IHd]; intros n2 s2 td HI Hn2; cbn [prev] in *.
      - destruct n2; [destruct Hn2 as (w & -> & _); exists [Good w]; reflexivity|destruct Hn2 as [A _]; exact A].
      - cbn [Inv] in HI. destruct HI as [HI3 Hn3]. specialize (IHd n3 s3 (n2 :: td) HI3 Hn3).
        eapply sfx_trans; [|exact IHd].
        destruct n2; [destruct Hn2 as (w & -> & _); exists [Good w]; reflexivity|destruct Hn2 as [A _]; exact A]. }
    assert (Hne' : prev s0 done <> []) by (rewrite Hp; discriminate).
    specialize (IH (NRune so :: todo) HI Hne' Hsf' F').
    destruct (backtrack done (NRune so :: todo)) as [[[d t] r]|]; [exact IH|].
    cbn [alts is_any andb orb]. exact IH.
  - destruct Hn as (Hs & Hh). split; [|split; [reflexivity|]].
    + cbn [Inv]. split; [exact HI|]. split.
      * eapply sfx_trans; [|exact Hs]. apply psfx_sfx. apply sfx_tail.
      * intros t Ht Hpt. destruct (sfx_compare t (Good w :: suf') _ Ht Hs) as [A|B].
        -- (* t is a suffix of the old suffix and strictly longer than its tail: t is the old suffix *)
           apply sfx_cons_inv in A. destruct A as [->|A]; [exact F|].
           exfalso. destruct A as [p Hp]. destruct Hpt as (y & q & Hq).
           pose proof (f_equal (@length item) Hp) as L1. pose proof (f_equal (@length item) Hq) as L2.
           rewrite app_length in L1, L2. cbn [length] in L2. lia.
        -- apply Hh; assumption.
    + eapply sfx_trans; [|exact Hsf]. apply psfx_sfx. apply sfx_tail.
Qed.

Lemma Inv_prev_sfx s0 : forall done todo, Inv s0 done todo -> sfx (prev s0 done) s0.
Proof.
  induction done as [|[n suf] done IH]; intros todo HI; [apply sfx_refl|].
  cbn [Inv] in HI. destruct HI as [HI Hn]. cbn [prev]. eapply sfx_trans; [|exact (IH _ HI)].
  destruct n; [destruct Hn as (w & -> & _); exists [Good w]; reflexivity|destruct Hn as [A _]; exact A].
Qed.

Lemma sfx_psfx_absurd (t u : list item) : sfx t u -> psfx u t -> False.
Proof.
  intros [p Hp] (y & q & Hq).
  pose proof (f_equal (@length item) Hp) as L1. pose proof (f_equal (@length item) Hq) as L2.
  rewrite app_length in L1, L2. cbn [length] in L2. lia.
Qed.

Theorem run_correct s0 : all_good s0 -> forall fuel done todo rest r,
  Inv s0 done todo -> rest = prev s0 done -> run fuel done todo rest = Some r ->
  r = dlike todo rest || alts done todo.
Proof.
  intros Hg. induction fuel as [|f IH]; intros done todo rest r HI Hrest H; [discriminate|].
  pose proof (Inv_prev_sfx s0 done todo HI) as Hsf. rewrite <- Hrest in Hsf.
  assert (Hback : forall td, Inv s0 done td -> rest <> [] -> dlike td rest = false ->
            match backtrack done td with
            | None => Some false
            | Some (d, t, r0) => run f d t r0
            end = Some r -> r = alts done td).
  { intros td HItd Hne F Hr. subst rest.
    pose proof (backtrack_inv s0 Hg done td HItd Hne Hsf F) as B.
    destruct (backtrack done td) as [[[d t] r0]|] eqn:E.
    - destruct B as (B1 & B2 & B3). rewrite (backtrack_eq _ _ _ _ _ E). apply (IH d t r0 r B1 B2 Hr).
    - injection Hr as <-. symmetry. exact B. }
  cbn [run] in H. destruct todo as [|n todo']; destruct rest as [|x rest'].
  - injection H as <-. reflexivity.
  - cbn [dlike orb]. apply (Hback [] HI); [discriminate|reflexivity|exact H].
  - injection H as <-. clear Hback. change (is_any n && forallb is_any todo') with (forallb is_any (n :: todo')).
    rewrite dlike_nil_all_any.
    destruct (forallb is_any (n :: todo')) eqn:A; [reflexivity|]. symmetry. cbn [orb].
    apply (no_alternative s0 done (n :: todo') HI). intros u Hu. rewrite <- Hrest in Hu. apply sfx_nil_inv in Hu. subst u.
    rewrite dlike_nil_all_any. exact A.
  - assert (Hx : x <> Bad) by (pose proof (all_good_sfx _ _ Hsf Hg) as G; inversion G; assumption).
    destruct x as [w|]; [|congruence]. destruct n as [so|].
    + fold (cond so w) in H. destruct (cond so w) eqn:C.
      * assert (HI' : Inv s0 ((NRune so, rest') :: done) todo').
        { cbn [Inv]. split; [exact HI|]. exists w. split; [symmetry; exact Hrest|exact C]. }
        rewrite (IH _ _ _ _ HI' eq_refl H). cbn [alts is_any andb orb dlike]. fold (cond so w). rewrite C. reflexivity.
      * assert (F : dlike (NRune so :: todo') (Good w :: rest') = false) by (cbn [dlike]; fold (cond so w); now rewrite C).
        rewrite F. cbn [orb]. apply (Hback _ HI); [discriminate|exact F|exact H].
    + assert (HI' : Inv s0 ((NAny, Good w :: rest') :: done) todo').
      { cbn [Inv]. split; [exact HI|]. rewrite <- Hrest. split; [apply sfx_refl|].
        intros t Ht Hpt. exfalso. eapply sfx_psfx_absurd; eassumption. }
      rewrite (IH _ _ _ _ HI' eq_refl H). cbn [alts is_any andb]. rewrite (dlike_any todo' (Good w :: rest')).
      now rewrite orb_assoc.
Qed.

(* LIKE with wildcards: whenever the machine finishes within its fuel on a string without malformed runes, its answer
   is the declarative meaning of the pattern ('%' any sequence, '_' one rune, literals by equal weight) *)
Theorem like_match_correct fuel nodes ws r :
  like_match fuel nodes (map Good ws) = Some r -> r = dlike nodes (map Good ws).
Proof.
  unfold like_match. destruct nodes as [|n nodes].
  - intros H. injection H as <-. destruct ws; reflexivity.
  - intros H.
    assert (Hg : all_good (map Good ws)) by (unfold all_good; rewrite Forall_map; apply Forall_forall; intros; discriminate).
    rewrite (run_correct _ Hg fuel [] (n :: nodes) (map Good ws) r I eq_refl H). cbn [alts]. apply orb_false_r.
Qed.
