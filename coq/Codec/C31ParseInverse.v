(* C31 -- STR_TO_DATE (DATE_FORMAT d fmt) fmt = d for complete, separated formats (part 2: tokens and the theorem). *)
From Coq Require Import List NArith ZArith Bool Lia Arith.
Import ListNotations.
From GMS Require Import Codec.C31Date Codec.C31DateProofs Codec.C31Format Codec.C31Parse Codec.C31ParseProofs.
Open Scope Z_scope.

(* ---------- the guard ---------- *)
(* specifiers without the %y / AM-PM quirks *)
Definition allowed (c : N) : bool := existsb (N.eqb c) [89; 109; 99; 100; 101; 72; 107; 105; 115; 83; 102; 84; 37]%N.
(* consumers that take all following digits *)
Definition greedy (c : N) : bool := existsb (N.eqb c) [99; 101; 72; 107; 105; 115; 83; 102]%N.
(* literal bytes: ASCII, not a digit, not '%', no whitespace other than the space *)
Definition lit_char_ok (c : N) : bool :=
  (c <? 128)%N && negb (is_digit c) && negb (c =? 37)%N && (negb (is_ws c) || (c =? 32)%N).

Fixpoint separated (toks : list tok) : bool :=
  match toks with
  | [] => true
  | TLit c :: r => lit_char_ok c && separated r
  | TSpec c :: r =>
      allowed c &&
      (if greedy c then match r with [] => true | TLit _ :: _ => true | TSpec _ :: _ => false end else true) &&
      separated r
  end.

Definition ends_ok (toks : list tok) : bool :=
  match last toks (TLit 0) with TLit c => negb (c =? 32)%N | TSpec _ => true end.

Definition complete (toks : list tok) : bool :=
  has_spec 89 toks && (has_spec 109 toks || has_spec 99 toks) && (has_spec 100 toks || has_spec 101 toks) &&
  (has_spec 72 toks || has_spec 107 toks || has_spec 84 toks) && (has_spec 105 toks || has_spec 84 toks) &&
  (has_spec 115 toks || has_spec 83 toks || has_spec 84 toks).

Definition valid_moment (t : moment) : Prop :=
  0 <= yr t <= 9999 /\ valid_date (yr t, mo t, dy t) = true /\ 0 <= hh t < 24 /\ 0 <= mi t < 60 /\ 0 <= ss t < 60 /\
  0 <= us t < 1000000.

(* ---------- rendering by tokens ---------- *)
Definition render_tok (t : tok) (m : moment) : option (list N) :=
  match t with TLit c => Some [c] | TSpec c => render_spec c m end.
Fixpoint render_toks (toks : list tok) (m : moment) : option (list N) :=
  match toks with
  | [] => Some []
  | t :: r => match render_tok t m, render_toks r m with Some a, Some b => Some (a ++ b) | _, _ => None end
  end.

Lemma render_tokens_len n : forall fmt toks m, (length fmt <= n)%nat -> tokens fmt = FOk toks -> render fmt m = render_toks toks m.
Proof.
  induction n as [|n IH]; intros fmt toks m Hl Ht.
  - destruct fmt; [|cbn in Hl; lia]. cbn in Ht. injection Ht as <-. reflexivity.
  - destruct fmt as [|c r]; [cbn in Ht; injection Ht as <-; reflexivity|].
    destruct (N.eq_dec c 37) as [->|Hc].
    + destruct r as [|c2 r2]; [cbn in Ht; discriminate|].
      cbn [tokens] in Ht. destruct (modelled c2) eqn:Em.
      * destruct (tokens r2) as [t2| |] eqn:E2; try discriminate. injection Ht as <-.
        cbn [render render_toks render_tok]. rewrite (IH r2 t2 m ltac:(cbn in Hl; lia) E2). reflexivity.
      * destruct (other_valid c2); [destruct (tokens r2); discriminate|discriminate].
    + assert (Ht' : match tokens r with FOk t => FOk (TLit c :: t) | o => o end = FOk toks).
      { destruct c as [|p]; [exact Ht|]. cbn [tokens] in Ht.
        repeat (destruct p as [p|p|]; try exact Ht); congruence. }
      destruct (tokens r) as [t2| |] eqn:E2; try discriminate. injection Ht' as <-.
      assert (Hr : render (c :: r) m = match render r m with Some b => Some (c :: b) | None => None end).
      { destruct c as [|p]; [reflexivity|]. cbn [render].
        repeat (destruct p as [p|p|]; try reflexivity); congruence. }
      rewrite Hr. cbn [render_toks render_tok]. rewrite (IH r t2 m ltac:(cbn in Hl; lia) E2).
      destruct (render_toks t2 m); reflexivity.
Qed.
Lemma render_tokens fmt toks m : tokens fmt = FOk toks -> render fmt m = render_toks toks m.
Proof. apply (render_tokens_len (length fmt)). lia. Qed.

(* ---------- what each token contributes ---------- *)
Definition apply_tok (t : tok) (m : moment) (st : pst) : pst :=
  match t with
  | TLit _ => st
  | TSpec c =>
      match c with
      | 89%N => set_y (yr m) st
      | 109%N | 99%N => set_mo (mo m) st
      | 100%N | 101%N => set_d (dy m) st
      | 72%N | 107%N => set_h (hh m) st
      | 105%N => set_mi (mi m) st
      | 115%N | 83%N => set_s (ss m) st
      | 102%N => set_us (us m) st
      | 84%N => set_s (ss m) (set_mi (mi m) (set_h (hh m) st))
      | _ => st
      end
  end.
Fixpoint apply_toks (toks : list tok) (m : moment) (st : pst) : pst :=
  match toks with [] => st | t :: r => apply_toks r m (apply_tok t m st) end.

Lemma allowed_cases c : allowed c = true ->
  c = 89%N \/ c = 109%N \/ c = 99%N \/ c = 100%N \/ c = 101%N \/ c = 72%N \/ c = 107%N \/ c = 105%N \/ c = 115%N \/
  c = 83%N \/ c = 102%N \/ c = 84%N \/ c = 37%N.
Proof.
  unfold allowed. cbn [existsb]. intros H.
  repeat (apply orb_prop in H; destruct H as [H|H]; [apply N.eqb_eq in H; subst; tauto|]). discriminate.
Qed.

Lemma valid_bounds m : valid_moment m ->
  1 <= mo m <= 12 /\ 1 <= dy m <= 31.
Proof.
  intros (_ & Hv & _). unfold valid_date in Hv.
  repeat (apply andb_prop in Hv; destruct Hv as [Hv ?]).
  repeat match goal with H : (_ <=? _) = true |- _ => apply Z.leb_le in H end.
  assert (days_in_month (yr m) (mo m) <= 31) by (unfold days_in_month; repeat destruct (_ =? _); try destruct (is_leap _); cbn; lia).
  lia.
Qed.

(* a token other than the space literal: its text starts with a non-space character, and the consumer takes exactly
   that text off the front and records the moment's value *)
Lemma step_ok t m st R' :
  valid_moment m ->
  separated [t] = true -> t <> TLit 32%N ->
  (match t with TSpec c => if greedy c then no_digit_head R' else True | TLit _ => True end) ->
  exists x a, render_tok t m = Some (x :: a) /\ is_sp x = false /\
              step t st ((x :: a) ++ R') = Some (apply_tok t m st, R').
Proof.
  intros Hm Hs Hne Hg. pose proof (valid_bounds m Hm) as (Hmo & Hdy).
  destruct Hm as (Hy & Hv & Hh & Hi & Hse & Hu).
  destruct t as [c|c].
  - (* literal *)
    cbn [separated] in Hs. rewrite andb_true_r in Hs. unfold lit_char_ok in Hs.
    assert (Hc : (c =? 32)%N = false) by (apply N.eqb_neq; intros ->; apply Hne; reflexivity).
    exists c, []. cbn [render_tok app step apply_tok]. split; [reflexivity|]. split; [exact Hc|].
    rewrite (lit_ok c R' Hc). reflexivity.
  - cbn [separated] in Hs. rewrite andb_true_r in Hs. apply andb_prop in Hs. destruct Hs as [Ha _].
    assert (H32 : forall v, 0 <= v <= 9999 -> 0 <= v < 2 ^ 32) by (intros; lia).
    (* helper for the shapes *)
    assert (Hhead : forall w s v, rendered w s v -> exists x a, s = x :: a /\ is_sp x = false).
    { intros w s v [Hd Hn _ _]. destruct s as [|x a]; [congruence|]. exists x, a. split; [reflexivity|].
      inversion Hd; subst. apply digit_not_space. assumption. }
    destruct (allowed_cases c Ha) as [->|[->|[->|[->|[->|[->|[->|[->|[->|[->|[->|[->| ->]]]]]]]]]]]];
      cbn [greedy existsb N.eqb Pos.eqb orb] in Hg; cbn [render_tok render_spec].
    + (* %Y *)
      pose proof (pad4_r (yr m) ltac:(lia)) as R. destruct (Hhead _ _ _ R) as (x & a & E & Hx). rewrite E in *.
      exists x, a. split; [reflexivity|]. split; [exact Hx|]. cbn [step parse_spec].
      assert (Hl : (length ((x :: a) ++ R') <? 4)%nat = false).
      { apply Nat.ltb_ge. rewrite app_length. destruct R as [_ _ _ Hw]. cbn in Hw. rewrite Hw. lia. }
      rewrite Hl. rewrite (take_at_most_ok 4 _ (yr m) R' R) by lia. reflexivity.
    + (* %m *)
      pose proof (pad2_r (mo m) ltac:(lia)) as R. destruct (Hhead _ _ _ R) as (x & a & E & Hx). rewrite E in *.
      exists x, a. split; [reflexivity|]. split; [exact Hx|]. cbn [step parse_spec].
      rewrite (take_at_most_ok 2 _ (mo m) R' R) by lia. unfold num_field.
      replace (mo m <? 1) with false by (symmetry; apply Z.ltb_ge; lia).
      replace (12 <? mo m) with false by (symmetry; apply Z.ltb_ge; lia). reflexivity.
    + (* %c *)
      pose proof (dec_r (mo m) ltac:(lia)) as R. destruct (Hhead _ _ _ R) as (x & a & E & Hx). rewrite E in *.
      exists x, a. split; [reflexivity|]. split; [exact Hx|]. cbn [step parse_spec].
      rewrite (take_number_ok _ _ (mo m) R' R) by (lia || exact Hg). reflexivity.
    + (* %d *)
      pose proof (pad2_r (dy m) ltac:(lia)) as R. destruct (Hhead _ _ _ R) as (x & a & E & Hx). rewrite E in *.
      exists x, a. split; [reflexivity|]. split; [exact Hx|]. cbn [step parse_spec].
      rewrite (take_at_most_ok 2 _ (dy m) R' R) by lia. unfold num_field.
      replace (dy m <? 1) with false by (symmetry; apply Z.ltb_ge; lia).
      replace (31 <? dy m) with false by (symmetry; apply Z.ltb_ge; lia). reflexivity.
    + (* %e *)
      pose proof (dec_r (dy m) ltac:(lia)) as R. destruct (Hhead _ _ _ R) as (x & a & E & Hx). rewrite E in *.
      exists x, a. split; [reflexivity|]. split; [exact Hx|]. cbn [step parse_spec].
      rewrite (take_number_ok _ _ (dy m) R' R) by (lia || exact Hg). reflexivity.
    + (* %H *)
      pose proof (pad2_r (hh m) ltac:(lia)) as R. destruct (Hhead _ _ _ R) as (x & a & E & Hx). rewrite E in *.
      exists x, a. split; [reflexivity|]. split; [exact Hx|]. cbn [step parse_spec].
      rewrite (take_number_ok _ _ (hh m) R' R) by (lia || exact Hg). reflexivity.
    + (* %k *)
      pose proof (dec_r (hh m) ltac:(lia)) as R. destruct (Hhead _ _ _ R) as (x & a & E & Hx). rewrite E in *.
      exists x, a. split; [reflexivity|]. split; [exact Hx|]. cbn [step parse_spec].
      rewrite (take_number_ok _ _ (hh m) R' R) by (lia || exact Hg). reflexivity.
    + (* %i *)
      pose proof (pad2_r (mi m) ltac:(lia)) as R. destruct (Hhead _ _ _ R) as (x & a & E & Hx). rewrite E in *.
      exists x, a. split; [reflexivity|]. split; [exact Hx|]. cbn [step parse_spec].
      rewrite (take_number_ok _ _ (mi m) R' R) by (lia || exact Hg). reflexivity.
    + (* %s *)
      pose proof (pad2_r (ss m) ltac:(lia)) as R. destruct (Hhead _ _ _ R) as (x & a & E & Hx). rewrite E in *.
      exists x, a. split; [reflexivity|]. split; [exact Hx|]. cbn [step parse_spec].
      rewrite (take_number_ok _ _ (ss m) R' R) by (lia || exact Hg). reflexivity.
    + (* %S *)
      pose proof (pad2_r (ss m) ltac:(lia)) as R. destruct (Hhead _ _ _ R) as (x & a & E & Hx). rewrite E in *.
      exists x, a. split; [reflexivity|]. split; [exact Hx|]. cbn [step parse_spec].
      rewrite (take_number_ok _ _ (ss m) R' R) by (lia || exact Hg). reflexivity.
    + (* %f *)
      pose proof (padw_r 6 (us m) ltac:(lia)) as R. destruct (Hhead _ _ _ R) as (x & a & E & Hx). rewrite E in *.
      exists x, a. split; [reflexivity|]. split; [exact Hx|]. cbn [step parse_spec].
      rewrite (take_number_ok _ _ (us m) R' R) by (lia || exact Hg). reflexivity.
    + (* %T *)
      pose proof (pad2_r (hh m) ltac:(lia)) as Rh. pose proof (pad2_r (mi m) ltac:(lia)) as Ri.
      pose proof (pad2_r (ss m) ltac:(lia)) as Rs.
      destruct (Hhead _ _ _ Rh) as (x & a & E & Hx).
      exists x, (a ++ 58%N :: padw 2 (mi m) ++ 58%N :: padw 2 (ss m)).
      split; [rewrite E; cbn [app]; reflexivity|]. split; [exact Hx|].
      cbn [step parse_spec]. unfold hms.
      replace ((x :: a ++ 58%N :: padw 2 (mi m) ++ 58%N :: padw 2 (ss m)) ++ R')
        with (padw 2 (hh m) ++ 58%N :: padw 2 (mi m) ++ 58%N :: padw 2 (ss m) ++ R')
        by (rewrite E; cbn [app]; rewrite <- !app_assoc; cbn [app]; rewrite <- !app_assoc; reflexivity).
      rewrite (take_at_most_ok 2 _ (hh m) _ Rh) by lia.
      rewrite (lit_ok 58 _ eq_refl).
      rewrite (take_at_most_ok 2 _ (mi m) _ Ri) by lia.
      rewrite (lit_ok 58 _ eq_refl).
      rewrite (take_at_most_ok 2 _ (ss m) _ Rs) by lia. reflexivity.
    + (* %% *)
      exists 37%N, []. split; [reflexivity|]. split; [reflexivity|]. cbn [step parse_spec app].
      rewrite (lit_ok 37 R' eq_refl). reflexivity.
Qed.
