(* C31 -- STR_TO_DATE (DATE_FORMAT d fmt) fmt = d for complete, separated formats (part 2: tokens and the theorem). *)
From Coq Require Import List NArith ZArith Bool Lia Arith.
Import ListNotations.
From GMS Require Import Codec.C31Date Codec.C31DateProofs Codec.C31Format Codec.C31Parse Codec.C31ParseProofs.
Open Scope Z_scope.

(* ---------- the guard ---------- *)
(* specifiers without the %y / AM-PM quirks *)
Definition allowed (c : N) : bool := existsb (N.eqb c) [89; 109; 99; 100; 101; 72; 107; 105; 115; 83; 102; 84; 37]%N.
(* consumers that take all following digits *)
Definition greedy (c : N) : bool := existsb (N.eqb c) [99; 101; 72; 107; 105; 115; 83; 102]%N.
(* literal bytes: ASCII, not a digit, not '%', no whitespace other than the space *)
Definition lit_char_ok (c : N) : bool :=
  (c <? 128)%N && negb (is_digit c) && negb (c =? 37)%N && (negb (is_ws c) || (c =? 32)%N).

Fixpoint separated (toks : list tok) : bool :=
  match toks with
  | [] => true
  | TLit c :: r => lit_char_ok c && separated r
  | TSpec c :: r =>
      allowed c &&
      (if greedy c then match r with [] => true | TLit _ :: _ => true | TSpec _ :: _ => false end else true) &&
      separated r
  end.

Definition ends_ok (toks : list tok) : bool :=
  match last toks (TLit 0) with TLit c => negb (c =? 32)%N | TSpec _ => true end.

Definition complete (toks : list tok) : bool :=
  has_spec 89 toks && (has_spec 109 toks || has_spec 99 toks) && (has_spec 100 toks || has_spec 101 toks) &&
  (has_spec 72 toks || has_spec 107 toks || has_spec 84 toks) && (has_spec 105 toks || has_spec 84 toks) &&
  (has_spec 115 toks || has_spec 83 toks || has_spec 84 toks).

Definition valid_moment (t : moment) : Prop :=
  0 <= yr t <= 9999 /\ valid_date (yr t, mo t, dy t) = true /\ 0 <= hh t < 24 /\ 0 <= mi t < 60 /\ 0 <= ss t < 60 /\
  0 <= us t < 1000000.

(* ---------- rendering by tokens ---------- *)
Definition render_tok (t : tok) (m : moment) : option (list N) :=
  match t with TLit c => Some [c] | TSpec c => render_spec c m end.
Fixpoint render_toks (toks : list tok) (m : moment) : option (list N) :=
  match toks with
  | [] => Some []
  | t :: r => match render_tok t m, render_toks r m with Some a, Some b => Some (a ++ b) | _, _ => None end
  end.

Lemma render_tokens_len n : forall fmt toks m, (length fmt <= n)%nat -> tokens fmt = FOk toks -> render fmt m = render_toks toks m.
Proof.
  induction n as [|n IH]; intros fmt toks m Hl Ht.
  - destruct fmt; [|cbn in Hl; lia]. cbn in Ht. injection Ht as <-. reflexivity.
  - destruct fmt as [|c r]; [cbn in Ht; injection Ht as <-; reflexivity|].
    destruct (N.eq_dec c 37) as [->|Hc].
    + destruct r as [|c2 r2]; [cbn in Ht; discriminate|].
      cbn [tokens] in Ht. destruct (modelled c2) eqn:Em.
      * destruct (tokens r2) as [t2| |] eqn:E2; try discriminate. injection Ht as <-.
        cbn [render render_toks render_tok]. rewrite (IH r2 t2 m ltac:(cbn in Hl; lia) E2). reflexivity.
      * destruct (other_valid c2); [destruct (tokens r2); discriminate|discriminate].
    + assert (Ht' : match tokens r with FOk t => FOk (TLit c :: t) | o => o end = FOk toks).
      { destruct c as [|p]; [exact Ht|]. cbn [tokens] in Ht.
        repeat (destruct p as [p|p|]; try exact Ht); congruence. }
      destruct (tokens r) as [t2| |] eqn:E2; try discriminate. injection Ht' as <-.
      assert (Hr : render (c :: r) m = match render r m with Some b => Some (c :: b) | None => None end).
      { destruct c as [|p]; [reflexivity|]. cbn [render].
        repeat (destruct p as [p|p|]; try reflexivity); congruence. }
      rewrite Hr. cbn [render_toks render_tok]. rewrite (IH r t2 m ltac:(cbn in Hl; lia) E2).
      destruct (render_toks t2 m); reflexivity.
Qed.
Lemma render_tokens fmt toks m : tokens fmt = FOk toks -> render fmt m = render_toks toks m.
Proof. apply (render_tokens_len (length fmt)). lia. Qed.

(* ---------- what each token contributes ---------- *)
Definition apply_tok (t : tok) (m : moment) (st : pst) : pst :=
  match t with
  | TLit _ => st
  | TSpec c =>
      match c with
      | 89%N => set_y (yr m) st
      | 109%N | 99%N => set_mo (mo m) st
      | 100%N | 101%N => set_d (dy m) st
      | 72%N | 107%N => set_h (hh m) st
      | 105%N => set_mi (mi m) st
      | 115%N | 83%N => set_s (ss m) st
      | 102%N => set_us (us m) st
      | 84%N => set_s (ss m) (set_mi (mi m) (set_h (hh m) st))
      | _ => st
      end
  end.
Fixpoint apply_toks (toks : list tok) (m : moment) (st : pst) : pst :=
  match toks with [] => st | t :: r => apply_toks r m (apply_tok t m st) end.

Lemma allowed_cases c : allowed c = true ->
  c = 89%N \/ c = 109%N \/ c = 99%N \/ c = 100%N \/ c = 101%N \/ c = 72%N \/ c = 107%N \/ c = 105%N \/ c = 115%N \/
  c = 83%N \/ c = 102%N \/ c = 84%N \/ c = 37%N.
Proof.
  unfold allowed. cbn [existsb]. intros H.
  repeat (apply orb_prop in H; destruct H as [H|H]; [apply N.eqb_eq in H; subst; tauto|]). discriminate.
Qed.

Lemma valid_bounds m : valid_moment m ->
  1 <= mo m <= 12 /\ 1 <= dy m <= 31.
Proof.
  intros (_ & Hv & _). unfold valid_date in Hv.
  repeat (apply andb_prop in Hv; destruct Hv as [Hv ?]).
  repeat match goal with H : (_ <=? _) = true |- _ => apply Z.leb_le in H end.
  assert (days_in_month (yr m) (mo m) <= 31) by (unfold days_in_month; repeat destruct (_ =? _); try destruct (is_leap _); cbn; lia).
  lia.
Qed.

(* a token other than the space literal: its text starts with a non-space character, and the consumer takes exactly
   that text off the front and records the moment's value *)
Lemma step_ok t m st R' :
  valid_moment m ->
  separated [t] = true -> t <> TLit 32%N ->
  (match t with TSpec c => if greedy c then no_digit_head R' else True | TLit _ => True end) ->
  exists x a, render_tok t m = Some (x :: a) /\ is_sp x = false /\
              step t st ((x :: a) ++ R') = Some (apply_tok t m st, R').
Proof.
  intros Hm Hs Hne Hg. pose proof (valid_bounds m Hm) as (Hmo & Hdy).
  destruct Hm as (Hy & Hv & Hh & Hi & Hse & Hu).
  destruct t as [c|c].
  - (* literal *)
    cbn [separated] in Hs. rewrite andb_true_r in Hs. unfold lit_char_ok in Hs.
    assert (Hc : (c =? 32)%N = false) by (apply N.eqb_neq; intros ->; apply Hne; reflexivity).
    exists c, []. cbn [render_tok app step apply_tok]. split; [reflexivity|]. split; [exact Hc|].
    rewrite (lit_ok c R' Hc). reflexivity.
  - cbn [separated] in Hs. rewrite andb_true_r in Hs. apply andb_prop in Hs. destruct Hs as [Ha _].
    assert (H32 : forall v, 0 <= v <= 9999 -> 0 <= v < 2 ^ 32) by (intros; lia).
    (* helper for the shapes *)
    assert (Hhead : forall w s v, rendered w s v -> exists x a, s = x :: a /\ is_sp x = false).
    { intros w s v [Hd Hn _ _]. destruct s as [|x a]; [congruence|]. exists x, a. split; [reflexivity|].
      inversion Hd; subst. apply digit_not_space. assumption. }
    destruct (allowed_cases c Ha) as [->|[->|[->|[->|[->|[->|[->|[->|[->|[->|[->|[->| ->]]]]]]]]]]]];
      cbn [greedy existsb N.eqb Pos.eqb orb] in Hg; cbn [render_tok render_spec].
    + (* %Y *)
      pose proof (pad4_r (yr m) ltac:(lia)) as R. destruct (Hhead _ _ _ R) as (x & a & E & Hx). rewrite E in *.
      exists x, a. split; [reflexivity|]. split; [exact Hx|]. cbn [step parse_spec].
      assert (Hl : (length ((x :: a) ++ R') <? 4)%nat = false).
      { apply Nat.ltb_ge. rewrite app_length. pose proof (r_width _ _ _ R) as Hw. cbv beta iota in Hw. lia. }
      rewrite Hl. rewrite (take_at_most_ok 4 _ (yr m) R' R) by lia. reflexivity.
    + (* %m *)
      pose proof (pad2_r (mo m) ltac:(lia)) as R. destruct (Hhead _ _ _ R) as (x & a & E & Hx). rewrite E in *.
      exists x, a. split; [reflexivity|]. split; [exact Hx|]. cbn [step parse_spec].
      rewrite (take_at_most_ok 2 _ (mo m) R' R) by lia. unfold num_field.
      replace (mo m <? 1) with false by (symmetry; apply Z.ltb_ge; lia).
      replace (12 <? mo m) with false by (symmetry; apply Z.ltb_ge; lia). reflexivity.
    + (* %c *)
      pose proof (dec_r (mo m) ltac:(lia)) as R. destruct (Hhead _ _ _ R) as (x & a & E & Hx). rewrite E in *.
      exists x, a. split; [reflexivity|]. split; [exact Hx|]. cbn [step parse_spec].
      rewrite (take_number_ok _ _ (mo m) R' R) by (lia || exact Hg). reflexivity.
    + (* %d *)
      pose proof (pad2_r (dy m) ltac:(lia)) as R. destruct (Hhead _ _ _ R) as (x & a & E & Hx). rewrite E in *.
      exists x, a. split; [reflexivity|]. split; [exact Hx|]. cbn [step parse_spec].
      rewrite (take_at_most_ok 2 _ (dy m) R' R) by lia. unfold num_field.
      replace (dy m <? 1) with false by (symmetry; apply Z.ltb_ge; lia).
      replace (31 <? dy m) with false by (symmetry; apply Z.ltb_ge; lia). reflexivity.
    + (* %e *)
      pose proof (dec_r (dy m) ltac:(lia)) as R. destruct (Hhead _ _ _ R) as (x & a & E & Hx). rewrite E in *.
      exists x, a. split; [reflexivity|]. split; [exact Hx|]. cbn [step parse_spec].
      rewrite (take_number_ok _ _ (dy m) R' R) by (lia || exact Hg). reflexivity.
    + (* %H *)
      pose proof (pad2_r (hh m) ltac:(lia)) as R. destruct (Hhead _ _ _ R) as (x & a & E & Hx). rewrite E in *.
      exists x, a. split; [reflexivity|]. split; [exact Hx|]. cbn [step parse_spec].
      rewrite (take_number_ok _ _ (hh m) R' R) by (lia || exact Hg). reflexivity.
    + (* %k *)
      pose proof (dec_r (hh m) ltac:(lia)) as R. destruct (Hhead _ _ _ R) as (x & a & E & Hx). rewrite E in *.
      exists x, a. split; [reflexivity|]. split; [exact Hx|]. cbn [step parse_spec].
      rewrite (take_number_ok _ _ (hh m) R' R) by (lia || exact Hg). reflexivity.
    + (* %i *)
      pose proof (pad2_r (mi m) ltac:(lia)) as R. destruct (Hhead _ _ _ R) as (x & a & E & Hx). rewrite E in *.
      exists x, a. split; [reflexivity|]. split; [exact Hx|]. cbn [step parse_spec].
      rewrite (take_number_ok _ _ (mi m) R' R) by (lia || exact Hg). reflexivity.
    + (* %s *)
      pose proof (pad2_r (ss m) ltac:(lia)) as R. destruct (Hhead _ _ _ R) as (x & a & E & Hx). rewrite E in *.
      exists x, a. split; [reflexivity|]. split; [exact Hx|]. cbn [step parse_spec].
      rewrite (take_number_ok _ _ (ss m) R' R) by (lia || exact Hg). reflexivity.
    + (* %S *)
      pose proof (pad2_r (ss m) ltac:(lia)) as R. destruct (Hhead _ _ _ R) as (x & a & E & Hx). rewrite E in *.
      exists x, a. split; [reflexivity|]. split; [exact Hx|]. cbn [step parse_spec].
      rewrite (take_number_ok _ _ (ss m) R' R) by (lia || exact Hg). reflexivity.
    + (* %f *)
      pose proof (padw_r 6 (us m) ltac:(lia)) as R. destruct (Hhead _ _ _ R) as (x & a & E & Hx). rewrite E in *.
      exists x, a. split; [reflexivity|]. split; [exact Hx|]. cbn [step parse_spec].
      rewrite (take_number_ok _ _ (us m) R' R) by (lia || exact Hg). reflexivity.
    + (* %T *)
      pose proof (pad2_r (hh m) ltac:(lia)) as Rh. pose proof (pad2_r (mi m) ltac:(lia)) as Ri.
      pose proof (pad2_r (ss m) ltac:(lia)) as Rs.
      destruct (Hhead _ _ _ Rh) as (x & a & E & Hx).
      exists x, (a ++ 58%N :: padw 2 (mi m) ++ 58%N :: padw 2 (ss m)).
      split; [rewrite E; cbn [app]; reflexivity|]. split; [exact Hx|].
      cbn [step parse_spec]. unfold hms.
      replace ((x :: a ++ 58%N :: padw 2 (mi m) ++ 58%N :: padw 2 (ss m)) ++ R')
        with (padw 2 (hh m) ++ 58%N :: padw 2 (mi m) ++ 58%N :: padw 2 (ss m) ++ R')
        by (rewrite E; cbn [app]; rewrite <- !app_assoc; cbn [app]; rewrite <- !app_assoc; reflexivity).
      rewrite (take_at_most_ok 2 _ (hh m) _ Rh) by lia.
      rewrite (lit_ok 58 _ eq_refl).
      rewrite (take_at_most_ok 2 _ (mi m) _ Ri) by lia.
      rewrite (lit_ok 58 _ eq_refl).
      rewrite (take_at_most_ok 2 _ (ss m) _ Rs) by lia. reflexivity.
    + (* %% *)
      exists 37%N, []. split; [reflexivity|]. split; [reflexivity|]. cbn [step parse_spec app].
      rewrite (lit_ok 37 R' eq_refl). reflexivity.
Qed.

(* ---------- the whole token sequence ---------- *)
Lemma tok_eq_dec_space (t : tok) : {t = TLit 32%N} + {t <> TLit 32%N}.
Proof.
  destruct t as [c|c]; [|right; discriminate]. destruct (N.eq_dec c 32) as [->|H]; [left; reflexivity|right; congruence].
Qed.

Lemma separated_head t r : separated (t :: r) = true -> separated [t] = true /\ separated r = true.
Proof.
  destruct t as [c|c]; cbn [separated]; intros H.
  - apply andb_prop in H. destruct H as [H1 H2]. rewrite H1. auto.
  - apply andb_prop in H. destruct H as [H H3]. apply andb_prop in H. destruct H as [H1 H2]. rewrite H1.
    split; [|exact H3]. destruct (greedy c); reflexivity.
Qed.

Lemma render_toks_head_lit c r m R' : render_toks (TLit c :: r) m = Some R' -> exists b, R' = c :: b.
Proof. cbn [render_toks render_tok]. destruct (render_toks r m); [|discriminate]. intros H. injection H as <-. eauto. Qed.

Lemma run_ok m : valid_moment m -> forall toks st target R,
  separated toks = true -> render_toks toks m = Some R -> ltrim target = ltrim R ->
  run toks st target = Some (apply_toks toks m st).
Proof.
  intros Hm toks. induction toks as [|t r IH]; intros st target R Hs HR Ht; [reflexivity|].
  destruct (separated_head t r Hs) as [Hs1 Hs2].
  cbn [render_toks] in HR. destruct (render_tok t m) as [a|] eqn:Ea; [|discriminate].
  destruct (render_toks r m) as [R'|] eqn:ER; [|discriminate]. injection HR as <-.
  cbn [run apply_toks]. rewrite Ht.
  destruct (tok_eq_dec_space t) as [->|Hne].
  - (* the space literal accepts anything and strips spaces *)
    cbn [render_tok] in Ea. injection Ea as <-. cbn [app]. rewrite ltrim_space. cbn [step]. rewrite lit_space.
    cbn [apply_tok]. rewrite ltrim_idem. apply (IH st (ltrim R') R' Hs2 eq_refl). apply ltrim_idem.
  - assert (Hg : match t with TSpec c => if greedy c then no_digit_head R' else True | TLit _ => True end).
    { destruct t as [c|c]; [exact I|]. destruct (greedy c) eqn:Eg; [|exact I].
      cbn [separated] in Hs. rewrite Eg in Hs. destruct r as [|[c2|c2] r2].
      - cbn in ER. injection ER as <-. exact I.
      - destruct (render_toks_head_lit c2 r2 m R' ER) as (b & ->). cbn [no_digit_head].
        cbn [separated] in Hs2. apply andb_prop in Hs2. destruct Hs2 as [Hl _]. unfold lit_char_ok in Hl.
        apply andb_prop in Hl. destruct Hl as [Hl _]. apply andb_prop in Hl. destruct Hl as [Hl _].
        apply andb_prop in Hl. destruct Hl as [_ Hl]. apply negb_true_iff in Hl. exact Hl.
      - apply andb_prop in Hs. destruct Hs as [Hs _]. apply andb_prop in Hs. destruct Hs as [_ Hs]. discriminate. }
    destruct (step_ok t m st R' Hm Hs1 Hne Hg) as (x & a' & E1 & Hx & E2).
    rewrite Ea in E1. injection E1 as ->. cbn [app]. rewrite (ltrim_nonspace x (a' ++ R') Hx).
    change (x :: a' ++ R') with ((x :: a') ++ R'). rewrite E2. apply (IH _ R' R' Hs2 eq_refl eq_refl).
Qed.

(* ---------- which fields end up set ---------- *)
Lemma apply_fields m toks : separated toks = true -> forall st,
  py (apply_toks toks m st) = (if has_spec 89 toks then Some (yr m) else py st) /\
  pmo (apply_toks toks m st) = (if has_spec 109 toks || has_spec 99 toks then Some (mo m) else pmo st) /\
  pd (apply_toks toks m st) = (if has_spec 100 toks || has_spec 101 toks then Some (dy m) else pd st) /\
  ph (apply_toks toks m st) = (if has_spec 72 toks || has_spec 107 toks || has_spec 84 toks then Some (hh m) else ph st) /\
  pmi (apply_toks toks m st) = (if has_spec 105 toks || has_spec 84 toks then Some (mi m) else pmi st) /\
  psec (apply_toks toks m st) = (if has_spec 115 toks || has_spec 83 toks || has_spec 84 toks then Some (ss m) else psec st) /\
  pus (apply_toks toks m st) = (if has_spec 102 toks then Some (us m) else pus st) /\
  pam (apply_toks toks m st) = pam st /\ has_spec 112 toks = false /\ pdoy (apply_toks toks m st) = pdoy st.
Proof.
  induction toks as [|t r IH]; intros Hs st; [cbn; repeat split; reflexivity|].
  destruct (separated_head t r Hs) as [Hs1 Hs2]. specialize (IH Hs2).
  destruct t as [c|c].
  - cbn [apply_toks apply_tok]. destruct (IH st) as (I1 & I2 & I3 & I4 & I5 & I6 & I7 & I8 & I9 & I10).
    unfold has_spec in *. cbn [existsb orb]. repeat split; assumption.
  - cbn [separated] in Hs1. rewrite andb_true_r in Hs1. apply andb_prop in Hs1. destruct Hs1 as [Ha _].
    cbn [apply_toks].
    destruct (IH (apply_tok (TSpec c) m st)) as (I1 & I2 & I3 & I4 & I5 & I6 & I7 & I8 & I9 & I10).
    rewrite I1, I2, I3, I4, I5, I6, I7, I8, I10. unfold has_spec in *. cbn [existsb].
    destruct (allowed_cases c Ha) as [->|[->|[->|[->|[->|[->|[->|[->|[->|[->|[->|[->| ->]]]]]]]]]]]];
      cbn [apply_tok N.eqb Pos.eqb orb py pmo pd ph pmi psec pus pam pdoy set_y set_mo set_d set_h set_mi set_s set_us];
      repeat split; try assumption;
      repeat match goal with |- context [existsb ?f r] => destruct (existsb f r) end; reflexivity.
Qed.

(* ---------- the characters of a rendering ---------- *)
Definition nonws (s : list N) : Prop := Forall (fun x => is_ws x = false) s.
Lemma rendered_nonws w s v : rendered w s v -> nonws s /\ s <> [].
Proof.
  intros [Hd Hn _ _]. split; [|exact Hn]. unfold nonws. eapply Forall_impl; [|exact Hd]. intros a. apply digit_not_ws.
Qed.

Lemma render_spec_text c m : allowed c = true -> valid_moment m ->
  exists a, render_spec c m = Some a /\ nonws a /\ a <> [].
Proof.
  intros Ha Hm. pose proof (valid_bounds m Hm) as (Hmo & Hdy). destruct Hm as (Hy & Hv & Hh & Hi & Hse & Hu).
  destruct (allowed_cases c Ha) as [->|[->|[->|[->|[->|[->|[->|[->|[->|[->|[->|[->| ->]]]]]]]]]]]]; cbn [render_spec];
    eexists; (split; [reflexivity|]).
  - apply (rendered_nonws _ _ _ (pad4_r (yr m) ltac:(lia))).
  - apply (rendered_nonws _ _ _ (pad2_r (mo m) ltac:(lia))).
  - apply (rendered_nonws _ _ _ (dec_r (mo m) ltac:(lia))).
  - apply (rendered_nonws _ _ _ (pad2_r (dy m) ltac:(lia))).
  - apply (rendered_nonws _ _ _ (dec_r (dy m) ltac:(lia))).
  - apply (rendered_nonws _ _ _ (pad2_r (hh m) ltac:(lia))).
  - apply (rendered_nonws _ _ _ (dec_r (hh m) ltac:(lia))).
  - apply (rendered_nonws _ _ _ (pad2_r (mi m) ltac:(lia))).
  - apply (rendered_nonws _ _ _ (pad2_r (ss m) ltac:(lia))).
  - apply (rendered_nonws _ _ _ (pad2_r (ss m) ltac:(lia))).
  - apply (rendered_nonws _ _ _ (padw_r 6 (us m) ltac:(lia))).
  - destruct (rendered_nonws _ _ _ (pad2_r (hh m) ltac:(lia))) as [N1 E1].
    destruct (rendered_nonws _ _ _ (pad2_r (mi m) ltac:(lia))) as [N2 _].
    destruct (rendered_nonws _ _ _ (pad2_r (ss m) ltac:(lia))) as [N3 _]. split.
    + unfold nonws in *. apply Forall_app. split; [exact N1|]. constructor; [reflexivity|].
      apply Forall_app. split; [exact N2|]. constructor; [reflexivity|exact N3].
    + destruct (padw 2 (hh m)); [congruence|discriminate].
  - split; [constructor; [reflexivity|constructor]|discriminate].
Qed.

Definition txt_ok (s : list N) : Prop := Forall (fun x => is_ws x = false \/ x = 32%N) s.
Definition ends_nonws (s : list N) : Prop := exists p z, s = p ++ [z] /\ is_ws z = false.

Lemma nonws_txt a : nonws a -> txt_ok a.
Proof. unfold nonws, txt_ok. intros H. eapply Forall_impl; [|exact H]. intros x Hx. now left. Qed.
Lemma nonws_ends a : nonws a -> a <> [] -> ends_nonws a.
Proof.
  intros H Hn. destruct (exists_last Hn) as (p & z & ->). exists p, z. split; [reflexivity|].
  unfold nonws in H. apply Forall_app in H. destruct H as [_ H]. inversion H; assumption.
Qed.
Lemma ends_app a b : ends_nonws b -> ends_nonws (a ++ b).
Proof. intros (p & z & -> & Hz). exists (a ++ p), z. split; [now rewrite app_assoc|exact Hz]. Qed.

Lemma render_text m : valid_moment m -> forall toks, separated toks = true ->
  exists R, render_toks toks m = Some R /\ txt_ok R /\ (toks <> [] -> ends_ok toks = true -> ends_nonws R).
Proof.
  intros Hm toks. induction toks as [|t r IH]; intros Hs.
  - exists []. split; [reflexivity|]. split; [constructor|]. congruence.
  - destruct (separated_head t r Hs) as [Hs1 Hs2]. destruct (IH Hs2) as (R' & ER & TR & EndR).
    assert (Ht : exists a, render_tok t m = Some a /\ txt_ok a /\ a <> [] /\ (t <> TLit 32%N -> nonws a)).
    { destruct t as [c|c].
      - exists [c]. cbn [render_tok]. split; [reflexivity|]. cbn [separated] in Hs1. rewrite andb_true_r in Hs1.
        unfold lit_char_ok in Hs1. apply andb_prop in Hs1. destruct Hs1 as [_ Hw]. apply orb_prop in Hw.
        split; [|split; [discriminate|]].
        + constructor; [|constructor]. destruct Hw as [Hw|Hw]; [left; now apply negb_true_iff in Hw|right; now apply N.eqb_eq in Hw].
        + intros Hne. constructor; [|constructor]. destruct Hw as [Hw|Hw]; [now apply negb_true_iff in Hw|].
          apply N.eqb_eq in Hw. subst. congruence.
      - cbn [separated] in Hs1. rewrite andb_true_r in Hs1. apply andb_prop in Hs1. destruct Hs1 as [Ha _].
        destruct (render_spec_text c m Ha Hm) as (a & E & Na & Ne). exists a. cbn [render_tok].
        split; [exact E|]. split; [apply nonws_txt; exact Na|]. split; [exact Ne|]. intros _. exact Na. }
    destruct Ht as (a & Ea & Ta & Nea & Nwa).
    exists (a ++ R'). cbn [render_toks]. rewrite Ea, ER. split; [reflexivity|]. split.
    + unfold txt_ok in *. apply Forall_app. split; assumption.
    + intros _ He. destruct r as [|t2 r2].
      * cbn in ER. injection ER as <-. rewrite app_nil_r. apply nonws_ends; [|exact Nea]. apply Nwa.
        unfold ends_ok in He. cbn [last] in He. intros ->. cbn in He. discriminate.
      * apply ends_app. apply EndR; [discriminate|]. unfold ends_ok in *. cbn [last] in *. exact He.
Qed.

Lemma ltrim_ws_txt R : txt_ok R -> ltrim_ws R = ltrim R.
Proof.
  induction 1 as [|c r Hc _ IH]; [reflexivity|]. cbn [ltrim_ws ltrim]. destruct Hc as [Hc| ->].
  - rewrite Hc. assert (Hs : is_sp c = false).
    { unfold is_ws in Hc. apply orb_false_iff in Hc. destruct Hc as [_ Hc]. exact Hc. }
    rewrite Hs. reflexivity.
  - change (is_ws 32) with true. change (is_sp 32) with true. exact IH.
Qed.

Lemma ltrim_keeps_end p z : is_ws z = false -> exists p', ltrim (p ++ [z]) = p' ++ [z].
Proof.
  intros Hz. induction p as [|c p IH].
  - exists []. cbn [app ltrim]. assert (Hs : is_sp z = false).
    { unfold is_ws in Hz. apply orb_false_iff in Hz. destruct Hz as [_ Hz]. exact Hz. }
    rewrite Hs. reflexivity.
  - cbn [app ltrim]. destruct (is_sp c); [exact IH|]. exists (c :: p). reflexivity.
Qed.

Lemma trim_ws_text R : txt_ok R -> ends_nonws R -> trim_ws R = ltrim R.
Proof.
  intros HT (p & z & -> & Hz). unfold trim_ws. rewrite (ltrim_ws_txt _ HT).
  destruct (ltrim_keeps_end p z Hz) as (p' & E). rewrite E. rewrite rev_app_distr. cbn [rev app ltrim_ws].
  rewrite Hz. change (z :: rev p') with ([z] ++ rev p'). rewrite rev_app_distr, rev_involutive. reflexivity.
Qed.

(* ---------- the theorem ---------- *)
Theorem format_parse_inverse fmt toks m :
  tokens fmt = FOk toks -> separated toks = true -> ends_ok toks = true -> complete toks = true ->
  valid_moment m -> (has_spec 102 toks = true \/ us m = 0) ->
  exists s, render fmt m = Some s /\
            str_to_date s fmt = SVal (yr m, mo m, dy m) (((hh m * 60 + mi m) * 60 + ss m) * 1000000 + us m).
Proof.
  intros Ht Hs He Hc Hm Hf.
  destruct (render_text m Hm toks Hs) as (R & ER & TR & EndR).
  assert (Hne : toks <> []). { intros ->. cbn in Hc. discriminate. }
  specialize (EndR Hne He).
  exists R. split; [rewrite (render_tokens fmt toks m Ht); exact ER|].
  unfold str_to_date. rewrite Ht.
  destruct (apply_fields m toks Hs pst0) as (F1 & F2 & F3 & F4 & F5 & F6 & F7 & F8 & F9 & F10).
  assert (Hconf : ampm_conflict toks = false).
  { unfold ampm_conflict. destruct (first_time_spec toks); [|reflexivity]. rewrite F9. apply andb_false_r. }
  rewrite Hconf.
  rewrite (run_ok m Hm toks pst0 (trim_ws R) R Hs ER) by (rewrite (trim_ws_text R TR EndR); apply ltrim_idem).
  unfold complete in Hc.
  apply andb_prop in Hc. destruct Hc as [Hc C6]. apply andb_prop in Hc. destruct Hc as [Hc C5].
  apply andb_prop in Hc. destruct Hc as [Hc C4]. apply andb_prop in Hc. destruct Hc as [Hc C3].
  apply andb_prop in Hc. destruct Hc as [C1 C2].
  rewrite C1 in F1. rewrite C2 in F2. rewrite C3 in F3. rewrite C4 in F4. rewrite C5 in F5. rewrite C6 in F6.
  set (st := apply_toks toks m pst0) in *.
  assert (Hemp : is_empty st = false) by (unfold is_empty; rewrite F1; reflexivity).
  rewrite Hemp. unfold eval. rewrite F10. cbn [pdoy pst0]. rewrite F1, F2, F3, F4, F5, F6, F7. cbn [dflt].
  assert (Hus : dflt (if has_spec 102 toks then Some (us m) else pus pst0) = us m).
  { destruct Hf as [Hf|Hf]; [rewrite Hf; reflexivity|]. destruct (has_spec 102 toks); cbn; lia. }
  rewrite Hus. destruct Hm as (Hy & Hv & Hh & Hi & Hse & Hu).
  rewrite (go_date_valid_id _ _ _ Hv).
  set (tod := ((hh m * 60 + mi m) * 60 + ss m) * 1000000 + us m).
  assert (Htod : 0 <= tod < usday) by (unfold tod, usday; lia).
  unfold add_us. replace (days_from_civil (yr m, mo m, dy m) * usday + 0 + tod) with (tod + days_from_civil (yr m, mo m, dy m) * usday) by lia.
  assert (Hu0 : usday <> 0) by (unfold usday; lia).
  rewrite Z.div_add, Z.mod_add by exact Hu0. rewrite Z.div_small, Z.mod_small by exact Htod.
  rewrite Z.add_0_l, (civil_days_civil _ Hv). reflexivity.
Qed.

(* non-vacuity and the necessity of the guards *)
Example canonical_is_guarded :
  exists toks, tokens canonical_fmt = FOk toks /\ separated toks = true /\ ends_ok toks = true /\ complete toks = true.
Proof. eexists. split; [vm_compute; reflexivity|]. repeat split; vm_compute; reflexivity. Qed.

(* adjacent greedy fields: '%Y%m%d%H%i%s' renders 20320228235849, which STR_TO_DATE cannot read back *)
Lemma greedy_adjacent_fails :
  let fmt := [37;89;37;109;37;100;37;72;37;105;37;115]%N in
  let m := {| yr := 2032; mo := 2; dy := 28; hh := 23; mi := 58; ss := 49; us := 0 |} in
  exists s, render fmt m = Some s /\ str_to_date s fmt = SNull.
Proof. eexists. split; [vm_compute; reflexivity|]. vm_compute. reflexivity. Qed.

(* the AM/PM flag is parsed and ignored: '%Y-%m-%d %r' of 15:04:05 reads back as 03:04:05 *)
Lemma ampm_ignored :
  let fmt := [37;89;45;37;109;45;37;100;32;37;114]%N in
  let m := {| yr := 2024; mo := 1; dy := 2; hh := 15; mi := 4; ss := 5; us := 0 |} in
  exists s, render fmt m = Some s /\ str_to_date s fmt = SVal (2024, 1, 2) (((3 * 60 + 4) * 60 + 5) * 1000000).
Proof. eexists. split; [vm_compute; reflexivity|]. vm_compute. reflexivity. Qed.
