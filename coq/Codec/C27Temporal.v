(* C27 — temporal types.  DATE / DATETIME(p) / TIMESTAMP(p): the strict text grammar
   YYYY-MM-DD[ HH:MM:SS[.f{1,6}]] as a recogniser over bytes and the value Convert must produce for it (the instant,
   truncated to the day for DATE, rounded half up to the precision otherwise); everything else is rejected.
   YEAR: YearType_.Convert on integers and digit strings.  TIME: types.stringToTimespan mirrored for the colon form
   (sign, H:M:S, fraction with its "last byte of the remainder >= '5'" rounding, carries, silent clamp at 838:59:59). *)
From Coq Require Import ZArith Bool List.
Import ListNotations.
From GMS Require Import Codec.C25Arith Codec.C27Convert Codec.C27Strings Codec.C26Compare.
Open Scope Z_scope.

Definition all_digitsb (l : list Z) : bool := forallb is_digit l.
Definition num (l : list Z) : Z := horner l.

(* ---------- the strict grammar ---------- *)
Definition leapb (y : Z) : bool := (y mod 4 =? 0) && (negb (y mod 100 =? 0) || (y mod 400 =? 0)).
Definition month_len (y m : Z) : Z :=
  if m =? 2 then (if leapb y then 29 else 28)
  else if (m =? 4) || (m =? 6) || (m =? 9) || (m =? 11) then 30 else 31.

Record civil := Civil { cy : Z; cm : Z; cd : Z; ch : Z; cmi : Z; cs : Z; cus : Z }.

Definition valid_civil (c : civil) : bool :=
  (1 <=? cm c) && (cm c <=? 12) && (1 <=? cd c) && (cd c <=? month_len (cy c) (cm c)) &&
  (ch c <=? 23) && (cmi c <=? 59) && (cs c <=? 59).

(* pad a fraction of 1..6 digits to microseconds *)
Definition frac_us (f : list Z) : Z := num f * 10 ^ (6 - Z.of_nat (length f)).

Definition parse_date (l : list Z) : option (Z * Z * Z * list Z) :=
  match l with
  | y1 :: y2 :: y3 :: y4 :: 45 :: m1 :: m2 :: 45 :: d1 :: d2 :: rest =>
      if all_digitsb [y1; y2; y3; y4; m1; m2; d1; d2]
      then Some (num [y1; y2; y3; y4], num [m1; m2], num [d1; d2], rest) else None
  | _ => None
  end.

Definition parse_tod (l : list Z) : option (Z * Z * Z * Z) :=
  match l with
  | 32 :: h1 :: h2 :: 58 :: n1 :: n2 :: 58 :: s1 :: s2 :: rest =>
      if all_digitsb [h1; h2; n1; n2; s1; s2] then
        match rest with
        | [] => Some (num [h1; h2], num [n1; n2], num [s1; s2], 0)
        | 46 :: f => if all_digitsb f && (1 <=? Z.of_nat (length f)) && (Z.of_nat (length f) <=? 6)
                     then Some (num [h1; h2], num [n1; n2], num [s1; s2], frac_us f) else None
        | _ => None
        end
      else None
  | _ => None
  end.

Definition parse_strict (l : list Z) : option civil :=
  match parse_date l with
  | Some (y, m, d, rest) =>
      let c := match rest with
               | [] => Some (Civil y m d 0 0 0 0)
               | _ => match parse_tod rest with Some (h, mi, s, us) => Some (Civil y m d h mi s us) | None => None end
               end in
      match c with Some c' => if valid_civil c' then Some c' else None | None => None end
  | None => None
  end.

Inductive tkind := KDate | KDatetime | KTimestamp.
Inductive dres := DErr | DOk (us : Z).     (* microseconds since 1970-01-01 00:00:00 UTC *)

Definition us_of_civil (c : civil) : Z := us_of (cy c) (cm c) (cd c) (ch c) (cmi c) (cs c) (cus c).

(* Convert of text: well-formed text gives its instant (DATE: the day; otherwise rounded half up to p digits),
   anything else is rejected *)
Definition conv_dt (k : tkind) (p : Z) (bs : list Z) : dres :=
  match parse_strict bs with
  | Some c => match k with KDate => DOk (trunc_day (us_of_civil c)) | _ => DOk (round_us p (us_of_civil c)) end
  | None => DErr
  end.

(* ---------- YEAR ---------- *)
Inductive yres := YErr | YOk (y : Z).
Definition conv_year_int (z : Z) : yres :=
  if z =? 0 then YOk 0
  else if (1 <=? z) && (z <=? 69) then YOk (z + 2000)
  else if (70 <=? z) && (z <=? 99) then YOk (z + 1900)
  else if (1901 <=? z) && (z <=? 2155) then YOk z else YErr.
(* a string of 1, 2 or 4 digits: "0".."0000" mean 2000, otherwise as the integer *)
Definition conv_year_str (bs : list Z) : yres :=
  let n := Z.of_nat (length bs) in
  if all_digitsb bs && ((n =? 1) || (n =? 2) || (n =? 4))
  then (if num bs =? 0 then YOk 2000 else conv_year_int (num bs)) else YErr.

(* ---------- TIME: stringToTimespan, colon form ---------- *)
Fixpoint split_first (c : Z) (l : list Z) : list Z * option (list Z) :=
  match l with
  | [] => ([], None)
  | b :: l' => if b =? c then ([], Some l')
               else let '(p, r) := split_first c l' in (b :: p, r)
  end.

Definition last_ge_5 (l : list Z) : bool := match rev l with b :: _ => 53 <=? b | [] => false end.

Definition pad6 (f : list Z) : list Z := f ++ repeat 48 (6 - length f).

Definition micro_of (fr : option (list Z)) : option Z :=
  match fr with
  | None => Some 0
  | Some f => let f6 := firstn 6 (pad6 f) in let rem := skipn 6 f in
              if all_digitsb f6 then Some (num f6 + (if last_ge_5 rem then 1 else 0)) else None
  end.

Inductive tres := TmErr | TmOk (us : Z).

(* the arithmetic core after parsing: minute / second validation, carries, clamp *)
Definition time_core (neg : bool) (h m s micro : Z) : tres :=
  if (60 <=? m) || (60 <=? s) then TmErr else
  let '(s1, micro1) := if micro =? 1000000 then (s + 1, 0) else (s, micro) in
  let '(m1, s2) := if s1 =? 60 then (m + 1, 0) else (m, s1) in
  let '(h1, m2) := if m1 =? 60 then (h + 1, 0) else (h, m1) in
  let '(h2, m3, s3) := if h1 >? 838 then (838, 59, 59) else (h1, m2, s2) in
  let micro2 := if (h2 =? 838) && (m3 =? 59) && (s3 =? 59) then 0 else micro1 in
  let v := h2 * 3600000000 + m3 * 60000000 + s3 * 1000000 + micro2 in
  TmOk (if neg then - v else v).

Definition digits_or_empty (l : list Z) : bool := all_digitsb l.

Definition string_to_timespan (bs : list Z) : tres :=
  let '(neg, s1) := match bs with 45 :: r => (true, r) | _ => (false, bs) end in
  let '(hms, fr) := split_first 46 s1 in
  match micro_of fr with
  | None => TmErr
  | Some micro =>
      let '(hh, r1) := split_first 58 hms in
      match r1 with
      | None => TmErr                              (* the compact HHMMSS form is not modelled *)
      | Some r1' =>
          let '(mm, r2) := split_first 58 r1' in
          let ss := match r2 with Some x => x | None => [] end in
          if (3 <? Z.of_nat (length hh)) || (2 <? Z.of_nat (length mm)) || (2 <? Z.of_nat (length ss)) then TmErr
          else if digits_or_empty hh && digits_or_empty mm && digits_or_empty ss
               then time_core neg (num hh) (num mm) (num ss) micro else TmErr
      end
  end.
