(* C27 — strings: StringType.Convert (length limit; the rune count is an oracle input) and the string -> integer
   prefix parsing of sql/types/number.go (TruncateStringToInt + strconv.ParseInt in convertToInt64, as used by
   NumberTypeImpl_.Convert for the narrow integer types and BIGINT). Strings are byte lists. *)
From Coq Require Import ZArith Bool List Lia.
Import ListNotations.
From GMS Require Import Codec.C25Arith Codec.C27Convert.
Open Scope Z_scope.

(* ---------- StringType.Convert / ConvertToBytes for VARCHAR / CHAR (utf8mb4, valid UTF-8) and VARBINARY ----------
   [nchars] is len([]rune(string(val))), supplied by the oracle (Go's UTF-8 decoder); it is only consulted when the
   byte length exceeds the limit, exactly as the code does *)
Inductive souts := TErr | TOk (bs : list Z).

Definition conv_text (binary : bool) (maxlen : Z) (bs : list Z) (nchars : Z) : souts :=
  let n := Z.of_nat (length bs) in
  if binary then (if n >? maxlen then TErr else TOk bs)
  else if n >? maxlen then (if nchars >? maxlen then TErr else TOk bs) else TOk bs.

(* ---------- string -> int64 ---------- *)
Definition is_digit (b : Z) : bool := (48 <=? b) && (b <=? 57).
Definition is_cut (b : Z) : bool := (b =? 32) || (b =? 9).          (* IntCutSet = " \t" *)
Definition is_sign (b : Z) : bool := (b =? 45) || (b =? 43).

Fixpoint drop_cut (l : list Z) : list Z :=
  match l with b :: l' => if is_cut b then drop_cut l' else l | [] => [] end.
Definition trim (l : list Z) : list Z := rev (drop_cut (rev (drop_cut l))).

(* the scan loop of TruncateStringToInt: consumed prefix, seenDigit, unconsumed rest *)
Fixpoint scan (first : bool) (l : list Z) : list Z * bool * list Z :=
  match l with
  | [] => ([], false, [])
  | b :: l' =>
      if is_digit b then let '(p, _, r) := scan false l' in (b :: p, true, r)
      else if first && is_sign b then let '(p, s, r) := scan false l' in (b :: p, s, r)
      else ([], false, l)
  end.

Definition horner (ds : list Z) : Z := fold_left (fun acc b => acc * 10 + (b - 48)) ds 0.

(* strconv.ParseInt of sign? digits+ *)
Definition parse_signed (p : list Z) : Z :=
  match p with
  | b :: ds => if b =? 45 then - horner ds else if b =? 43 then horner ds else horner p
  | [] => 0
  end.

Inductive sres := SErr | SOk (z : Z) (truncated : bool).

Definition is_nil (l : list Z) : bool := match l with [] => true | _ => false end.

Definition str_to_i64 (bs : list Z) : sres :=
  let '(p, seen, rest) := scan true (trim bs) in
  let tr := negb (is_nil rest) in
  if negb seen then SOk 0 tr          (* no digit: the text "0", truncated iff something was left over *)
  else let z := parse_signed p in
       if (min_i64 <=? z) && (z <=? max_i64) then SOk z tr else SErr.

(* NumberTypeImpl_.Convert of a string for the narrow types and BIGINT: a truncation is returned as an error
   (ErrTruncatedIncorrect) unless the range check flags the value first *)
Definition conv_int_str (t : ity) (bs : list Z) : outcome :=
  match str_to_i64 bs with
  | SErr => CErr
  | SOk z tr =>
      match t with
      | I64 => if tr then CErr else COk (SI z) InRange
      | _ => match narrow t z with
             | COk v InRange => if tr then CErr else COk v InRange
             | o => o
             end
      end
  end.
