(* Proofs about the collation comparison model (Codec/Collation.v), for every weight function w. *)
From Coq Require Import List NArith ZArith Bool Arith Lia.
Import ListNotations.
From GMS Require Import Codec.Charset Codec.Collation.
Open Scope Z_scope.

Ltac Zify.zify_post_hook ::= Z.to_euclidean_division_equations.

(* ---------- lexcmp is a total order on weight lists ---------- *)
Lemma lexcmp_refl a : lexcmp a a = Eq.
Proof. induction a as [|x a IH]; cbn; [reflexivity|]. rewrite Z.ltb_irrefl. exact IH. Qed.

Lemma lexcmp_opp a : forall b, lexcmp b a = CompOpp (lexcmp a b).
Proof.
  induction a as [|x a IH]; intros [|y b]; cbn; try reflexivity.
  destruct (x <? y) eqn:E1, (y <? x) eqn:E2; cbn; try reflexivity.
  - apply Z.ltb_lt in E1. apply Z.ltb_lt in E2. lia.
  - apply IH.
Qed.

Lemma lexcmp_eq_iff a : forall b, lexcmp a b = Eq <-> a = b.
Proof.
  induction a as [|x a IH]; intros [|y b]; cbn; split; intros H; try reflexivity; try discriminate.
  - destruct (x <? y) eqn:E1; [discriminate|]. destruct (y <? x) eqn:E2; [discriminate|].
    apply Z.ltb_ge in E1. apply Z.ltb_ge in E2. apply IH in H. f_equal; [lia|exact H].
  - injection H as -> ->. rewrite Z.ltb_irrefl. apply IH. reflexivity.
Qed.

Lemma lexcmp_trans a : forall b c, lexcmp a b <> Gt -> lexcmp b c <> Gt -> lexcmp a c <> Gt.
Proof.
  induction a as [|x a IH]; intros [|y b] [|z c]; cbn; intros H1 H2; try congruence.
  destruct (x <? y) eqn:E1; destruct (y <? z) eqn:E3;
    repeat match goal with H : (_ <? _) = true |- _ => apply Z.ltb_lt in H
                         | H : (_ <? _) = false |- _ => apply Z.ltb_ge in H end.
  - replace (x <? z) with true by (symmetry; apply Z.ltb_lt; lia). discriminate.
  - destruct (z <? y) eqn:E4; [congruence|]. apply Z.ltb_ge in E4.
    replace (x <? z) with true by (symmetry; apply Z.ltb_lt; lia). discriminate.
  - destruct (y <? x) eqn:E2; [congruence|]. apply Z.ltb_ge in E2.
    replace (x <? z) with true by (symmetry; apply Z.ltb_lt; lia). discriminate.
  - destruct (y <? x) eqn:E2; [congruence|]. destruct (z <? y) eqn:E4; [congruence|].
    apply Z.ltb_ge in E2. apply Z.ltb_ge in E4.
    replace (x <? z) with false by (symmetry; apply Z.ltb_ge; lia).
    replace (z <? x) with false by (symmetry; apply Z.ltb_ge; lia).
    eapply IH; eassumption.
Qed.

(* strictly monotone weights do not change the order of the rune lists *)
Lemma lexcmp_mono (f : N -> Z) : (forall r1 r2, (r1 < r2)%N -> f r1 < f r2) ->
  forall a b, lexcmp (map f a) (map f b) = lexcmp (map Z.of_N a) (map Z.of_N b).
Proof.
  intros Hm. induction a as [|x a IH]; intros [|y b]; cbn; try reflexivity.
  destruct (N.lt_total x y) as [L|[->|L]].
  - pose proof (Hm _ _ L). replace (f x <? f y) with true by (symmetry; apply Z.ltb_lt; lia).
    replace (Z.of_N x <? Z.of_N y) with true by (symmetry; apply Z.ltb_lt; lia). reflexivity.
  - rewrite !Z.ltb_irrefl. apply IH.
  - pose proof (Hm _ _ L).
    replace (f x <? f y) with false by (symmetry; apply Z.ltb_ge; lia).
    replace (f y <? f x) with true by (symmetry; apply Z.ltb_lt; lia).
    replace (Z.of_N x <? Z.of_N y) with false by (symmetry; apply Z.ltb_ge; lia).
    replace (Z.of_N y <? Z.of_N x) with true by (symmetry; apply Z.ltb_lt; lia). reflexivity.
Qed.

(* ---------- the 4-byte little-endian weight encoding is injective on int32 ---------- *)
Definition int32 (z : Z) : Prop := -2147483648 <= z < 2147483648.

Lemma le32_inj x y : int32 x -> int32 y -> le32 x = le32 y -> x = y.
Proof.
  unfold int32, le32. intros Hx Hy H. injection H as H0 H1 H2 H3.
  apply Z2N.inj in H0, H1, H2, H3; try (apply Z.mod_pos_bound; lia).
  set (u := x mod 4294967296) in *. set (v := y mod 4294967296) in *.
  assert (Hu : 0 <= u < 4294967296) by (apply Z.mod_pos_bound; lia).
  assert (Hv : 0 <= v < 4294967296) by (apply Z.mod_pos_bound; lia).
  assert (u = v) by lia.
  subst u v. lia.
Qed.

Lemma flat_le32_inj (f : N -> Z) : (forall r, int32 (f r)) ->
  forall a b, flat_map (fun r => le32 (f r)) a = flat_map (fun r => le32 (f r)) b -> map f a = map f b.
Proof.
  intros Hr. induction a as [|x a IH]; intros [|y b] H; cbn in *; try reflexivity; try discriminate.
  injection H as H0 H1 H2 H3 H.
  assert (E : le32 (f x) = le32 (f y)) by (unfold le32; congruence).
  apply le32_inj in E; [|apply Hr|apply Hr]. rewrite E. f_equal. apply IH. exact H.
Qed.

Section Facts.
  Variable w : N -> Z.

  Theorem compare_refl bin a : compare w bin a a = Eq.
  Proof. apply lexcmp_refl. Qed.

  Theorem compare_opp bin a b : compare w bin b a = CompOpp (compare w bin a b).
  Proof. apply lexcmp_opp. Qed.

  Theorem compare_trans bin a b c :
    compare w bin a b <> Gt -> compare w bin b c <> Gt -> compare w bin a c <> Gt.
  Proof. apply lexcmp_trans. Qed.

  Theorem compare_eq_iff_weights bin a b : compare w bin a b = Eq <-> weights w bin a = weights w bin b.
  Proof. apply lexcmp_eq_iff. Qed.

  (* non-binary collations: equal exactly when the weight strings (what is hashed) are equal *)
  Theorem compare_eq_iff_weight_string a b : (forall r, int32 (w r)) ->
    (compare w false a b = Eq <-> weight_string w false a = weight_string w false b).
  Proof.
    intros Hr. rewrite compare_eq_iff_weights. unfold weights, weight_string. split.
    - intros H. rewrite !flat_map_concat_map. rewrite <- (map_map w le32), <- (map_map w le32 (runes false b)).
      rewrite H. reflexivity.
    - apply flat_le32_inj. exact Hr.
  Qed.

  (* the binary collation: the weight string is the byte string itself *)
  Theorem compare_eq_iff_weight_string_binary a b : (forall x y, w x = w y -> x = y) ->
    (compare w true a b = Eq <-> weight_string w true a = weight_string w true b).
  Proof.
    intros Hinj. rewrite compare_eq_iff_weights. unfold weights, weight_string, runes. split.
    - revert b. induction a as [|x a IH]; intros [|y b] H; cbn in *; try reflexivity; try discriminate.
      injection H as H1 H2. f_equal; [apply Hinj; exact H1|apply IH; exact H2].
    - intros ->. reflexivity.
  Qed.

  Theorem equal_strings_hash_equal {H : Type} (hash : list N -> H) bin a b :
    weight_string w bin a = weight_string w bin b -> hash (weight_string w bin a) = hash (weight_string w bin b).
  Proof. intros ->. reflexivity. Qed.

  (* _bin collations: strictly monotone weights order strings by code point *)
  Theorem monotone_orders_by_code_point bin a b : (forall r1 r2, (r1 < r2)%N -> w r1 < w r2) ->
    compare w bin a b = lexcmp (map Z.of_N (runes bin a)) (map Z.of_N (runes bin b)).
  Proof. intros Hm. apply lexcmp_mono. exact Hm. Qed.

  (* _ci collations: if the weight ignores a case mapping of runes, strings that differ only by that mapping are equal *)
  Theorem case_mapping_equated (lower : N -> N) rs : (forall r, w (lower r) = w r) ->
    lexcmp (map w (map lower rs)) (map w rs) = Eq.
  Proof.
    intros Hl. apply lexcmp_eq_iff. rewrite map_map. apply map_ext. exact Hl.
  Qed.
End Facts.

(* decoding facts used for non-vacuity *)
Local Open Scope N_scope.
Lemma runes_examples :
  runes false [97; 195; 169; 230; 151; 165; 240; 159; 152; 128; 255; 65] = [97; 233; 26085; 128512; 65533; 65] /\
  runes true [97; 195; 169] = [97; 195; 169] /\
  le32 (-2)%Z = [254; 255; 255; 255] /\ le32 513%Z = [1; 2; 0; 0].
Proof. repeat split; vm_compute; reflexivity. Qed.

Definition ascii_ci_weight (r : N) : Z := if (97 <=? r) && (r <=? 122) then (Z.of_N r - 32)%Z else Z.of_N r.

Lemma ci_example :
  compare ascii_ci_weight false [97; 66; 99] [65; 98; 67] = Eq /\ compare ascii_ci_weight false [97] [97; 97] = Lt /\
  compare ascii_ci_weight false [98] [65; 65] = Gt /\
  weight_string ascii_ci_weight false [97; 66] = [65; 0; 0; 0; 66; 0; 0; 0].
Proof. repeat split; vm_compute; reflexivity. Qed.
