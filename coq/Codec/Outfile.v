(* C50 - model of SELECT ... INTO OUTFILE (sql/rowexec/rel.go buildInto) and LOAD DATA INFILE
   (sql/plan/load_data.go SplitLines, sql/rowexec/ddl_iters.go loadDataIter.parseLinePrefix / parseFields and the
   post-pass on "" and "NULL"), byte for byte, for tables whose columns are BIGINT or TEXT.
   Bytes are [N]; strings are byte lists, indexed by byte as Go does. *)
From Coq Require Import List NArith ZArith Bool Lia.
Import ListNotations.
Open Scope N_scope.

Definition bytes := list N.

Definition is_nil {A} (l : list A) : bool := match l with [] => true | _ => false end.

Fixpoint bytes_eq (a b : bytes) : bool :=
  match a, b with
  | [], [] => true
  | x :: a', y :: b' => (x =? y) && bytes_eq a' b'
  | _, _ => false
  end.

(* strings.HasPrefix(l, p) *)
Fixpoint is_prefix (p l : bytes) : bool :=
  match p, l with
  | [], _ => true
  | a :: p', b :: l' => (a =? b) && is_prefix p' l'
  | _ :: _, [] => false
  end.

(* bytes.Index / strings.Index: first position at which p occurs *)
Fixpoint index_of (p l : bytes) : option nat :=
  if is_prefix p l then Some O
  else match l with
       | [] => None
       | _ :: tl => match index_of p tl with Some i => Some (S i) | None => None end
       end.

(* ---------- options (plan.Into / plan.LoadData fields after planbuilder defaults) ---------- *)
Record opts := mkOpts {
  ft : bytes;        (* FIELDS TERMINATED BY; planbuilder replaces '' by the default tab, so never empty *)
  enc : bytes;       (* FIELDS [OPTIONALLY] ENCLOSED BY; planbuilder rejects length > 1 *)
  enc_opt : bool;    (* OPTIONALLY *)
  esc : bytes;       (* FIELDS ESCAPED BY; planbuilder rejects length > 1 *)
  ls : bytes;        (* LINES STARTING BY *)
  lt : bytes         (* LINES TERMINATED BY *)
}.

(* VRaw txt: any other Go value (decimal, time.Time, []byte ...), given by what fmt's %v prints for it (Codec/C50Fmt.v
   computes that text for DECIMAL, DATE, DATETIME and BLOB values) *)
Inductive val := VNull | VInt (z : Z) | VStr (s : bytes) | VRaw (txt : bytes).
(* BIGINT / TEXT / any other column type, with the answer of types.IsText for it *)
Inductive colty := TInt | TText | TOther (textlike : bool).

Definition is_text (t : colty) : bool := match t with TText => true | TInt => false | TOther b => b end.

(* ---------- fmt "%v" of an int64 ---------- *)
Fixpoint to_digits_aux (fuel : nat) (n : N) (acc : bytes) : bytes :=
  match fuel with
  | O => acc
  | S f => let acc' := (48 + n mod 10) :: acc in
           if n <? 10 then acc' else to_digits_aux f (n / 10) acc'
  end.
Definition render_N (n : N) : bytes := to_digits_aux 20 n [].   (* uint64 has at most 20 digits *)
Definition render_Z (z : Z) : bytes :=
  match z with
  | Zneg p => 45 :: render_N (Npos p)
  | _ => render_N (Z.to_N z)
  end.

(* ---------- writer: buildInto, the Outfile branch ---------- *)

(* strings.Replace(s, old, new, -1) for non-empty old: leftmost non-overlapping occurrences *)
Fixpoint replace_go (old new s : bytes) (skip : nat) : bytes :=
  match s with
  | [] => []
  | c :: tl =>
    match skip with
    | S k => replace_go old new tl k
    | O => if is_prefix old s then new ++ replace_go old new tl (pred (length old))
           else c :: replace_go old new tl O
    end
  end.

Definition str_N : bytes := [78].                 (* "N" *)
Definition str_NULL : bytes := [78; 85; 76; 76].  (* "NULL" *)

Definition null_marker (o : opts) : bytes :=
  if is_nil (esc o) then str_NULL else esc o ++ str_N.

(* what is printed between the enclosures *)
Definition content (o : opts) (v : val) : bytes :=
  match v with
  | VNull => []
  | VInt z => render_Z z
  | VStr s => if is_nil (lt o) then s else replace_go (lt o) (esc o ++ lt o) s O
  | VRaw t => t                                  (* not a Go string: no replacement *)
  end.

(* "%v" of the value in the un-enclosed branch: no replacement at all *)
Definition plain (v : val) : bytes :=
  match v with VNull => [] | VInt z => render_Z z | VStr s => s | VRaw t => t end.

Definition field (o : opts) (t : colty) (v : val) : bytes :=
  match v with
  | VNull => null_marker o
  | _ => if negb (enc_opt o) || is_text t then enc o ++ content o v ++ enc o else plain v
  end.

Fixpoint dump_fields (o : opts) (tys : list colty) (vals : list val) (first : bool) : bytes :=
  match vals with
  | [] => []
  | v :: vs => (if first then [] else ft o) ++ field o (hd TInt tys) v ++ dump_fields o (tl tys) vs false
  end.

Definition dump_row (o : opts) (tys : list colty) (r : list val) : bytes :=
  ls o ++ dump_fields o tys r true ++ lt o.

Definition dump (o : opts) (tys : list colty) (rows : list (list val)) : bytes :=
  concat (map (dump_row o tys) rows).

(* ---------- reader ---------- *)

(* bufio.Scanner driven by LoadData.SplitLines: every token keeps its terminator; a last unterminated piece is a
   token too.  With an empty terminator SplitLines returns (0, empty token) for ever: the scanner never advances
   and loadDataIter.Next spins (no termination) - [load] reports that as [NoTermination]. *)
Fixpoint split_lines (fuel : nat) (lterm data : bytes) : list bytes :=
  match fuel with
  | O => []
  | S f =>
    match data with
    | [] => []
    | _ => match index_of lterm data with
           | Some i => firstn (i + length lterm) data :: split_lines f lterm (skipn (i + length lterm) data)
           | None => [data]
           end
    end
  end.

(* parseLinePrefix *)
Definition parse_line_prefix (o : opts) (line : bytes) : bytes :=
  if is_nil (ls o) then line
  else match index_of (ls o) line with
       | None => []
       | Some i => skipn (i + length (ls o)) line
       end.

Definition has_suffix (s line : bytes) : bool := is_prefix (rev s) (rev line).

(* the escape switch of parseFields *)
Definition unescape (c : N) : bytes :=
  if c =? 78 then str_NULL            (* \N *)
  else if c =? 90 then [26]           (* \Z *)
  else if c =? 48 then [0]            (* \0 *)
  else if c =? 110 then [10]          (* \n *)
  else if c =? 116 then [9]           (* \t *)
  else if c =? 114 then [13]          (* \r *)
  else if c =? 98 then [8]            (* \b *)
  else [c].

Section ParseFields.
  Variable o : opts.
  Variable normalLineTerm : bool.

  Definition hasEnc := negb (is_nil (enc o)).
  Definition hasEsc := negb (is_nil (esc o)).
  Definition encb := hd 0 (enc o).
  Definition escb := hd 0 (esc o).
  Definition encEqEsc := hasEnc && hasEsc && bytes_eq (enc o) (esc o).

  (* the byte loop of parseFields.  [skip] = bytes already consumed by an "i++" / "i += termLen-1" of an earlier
     iteration; [cur] = currentField reversed; [acc] = fields reversed. *)
  Fixpoint pf (l : bytes) (skip : nat) (inEnc : bool) (cur : bytes) (acc : list bytes) : list bytes :=
    match l with
    | [] => let last := rev cur in
            rev ((if inEnc then encb :: last else last) :: acc)
    | ch :: tl =>
      match skip with
      | S k => pf tl k inEnc cur acc
      | O =>
        let isEnc := hasEnc && (ch =? encb) in
        let isEsc := hasEsc && negb encEqEsc && (ch =? escb) in
        if isEnc && negb inEnc && is_nil cur then pf tl O true cur acc
        else if isEnc && inEnc && encEqEsc && (match tl with c2 :: _ => c2 =? encb | [] => false end)
             then pf tl 1%nat inEnc (encb :: cur) acc
        else if isEnc && inEnc then
               if is_prefix (ft o) tl || (is_nil tl && normalLineTerm) then pf tl O false cur acc
               else pf tl O inEnc (ch :: cur) acc
        else if isEsc && negb (is_nil tl) then pf tl 1%nat inEnc (rev (unescape (hd 0 tl)) ++ cur) acc
        else if negb inEnc && is_prefix (ft o) (ch :: tl)
             then pf tl (pred (length (ft o))) inEnc [] (rev cur :: acc)
        else pf tl O inEnc (ch :: cur) acc
      end
    end.
End ParseFields.

(* parseFields up to the field list; None = the line is skipped *)
Definition parse_fields (o : opts) (token : bytes) : option (list bytes) :=
  let line := parse_line_prefix o token in
  if is_nil line then None
  else
    let hasTerm := has_suffix (lt o) line in
    let line' := if hasTerm then firstn (length line - length (lt o)) line else line in
    Some (pf o (hasTerm || negb (encEqEsc o)) line' O false [] []).

(* canonical decimal int64 text -> value; anything else is outside the modelled part of the BIGINT conversion *)
Definition is_digit (c : N) : bool := (48 <=? c) && (c <=? 57).
Definition parse_N (ds : bytes) : N := fold_left (fun a d => 10 * a + (d - 48)) ds 0.
Definition in_int64 (z : Z) : bool := ((-9223372036854775808 <=? z) && (z <=? 9223372036854775807))%Z.
Definition parse_int (s : bytes) : option Z :=
  let '(neg, ds) := match s with 45 :: r => (true, r) | _ => (false, s) end in
  match ds with
  | [] => None
  | d0 :: r =>
    if forallb is_digit ds && (negb (d0 =? 48) || (is_nil r && negb neg)) then
      let z := if neg then (- Z.of_N (parse_N ds))%Z else Z.of_N (parse_N ds) in
      if in_int64 z then Some z else None
    else None
  end.

(* the post-pass of parseFields + the insert conversion.  Outer None = outside the modelled conversion. *)
Definition to_val (t : colty) (f : option bytes) : option val :=
  match f with
  | None => Some VNull                                   (* too few fields: nullable column without default *)
  | Some s =>
    if is_nil s then (match t with TOther _ => None | _ => Some (if is_text t then VStr [] else VNull) end)
    else if bytes_eq s str_NULL then Some VNull
    else match t with
         | TText => Some (VStr s)
         | TInt => match parse_int s with Some z => Some (VInt z) | None => None end
         | TOther _ => None                      (* conversion to the other column types is not modelled *)
         end
  end.

Fixpoint build_row (tys : list colty) (fields : list bytes) : option (list val) :=
  match tys with
  | [] => Some []
  | t :: ts =>
    match to_val t (hd_error fields), build_row ts (tl fields) with
    | Some v, Some r => Some (v :: r)
    | _, _ => None
    end
  end.

Inductive outcome :=
| Loaded (rows : list (list val))
| NoTermination          (* empty LINES TERMINATED BY on non-empty input *)
| ConvOutside.           (* some BIGINT field is not canonical decimal: conversion not modelled *)

Fixpoint load_tokens (o : opts) (tys : list colty) (toks : list bytes) : option (list (list val)) :=
  match toks with
  | [] => Some []
  | t :: ts =>
    match parse_fields o t with
    | None => load_tokens o tys ts
    | Some fs =>
      match build_row tys fs, load_tokens o tys ts with
      | Some r, Some rs => Some (r :: rs)
      | _, _ => None
      end
    end
  end.

(* IGNORE n LINES: loadDataIter.Next drops the first n scanner tokens before anything else looks at them *)
Definition load_ignore (n : nat) (o : opts) (tys : list colty) (data : bytes) : outcome :=
  if is_nil (lt o) && negb (is_nil data) then NoTermination
  else match load_tokens o tys (skipn n (split_lines (S (length data)) (lt o) data)) with
       | Some rows => Loaded rows
       | None => ConvOutside
       end.

Definition load (o : opts) (tys : list colty) (data : bytes) : outcome := load_ignore 0 o tys data.

(* LOAD DATA ... (col list): the i-th field goes to table column [nth i cols]; columns that are not listed get their
   default (NULL for the generated tables); buildLoadData's fieldToColMap + inputPreprocessor without user variables *)
Fixpoint index_in (j : nat) (cols : list nat) (i : nat) : option nat :=
  match cols with
  | [] => None
  | c :: cs => if Nat.eqb c j then Some i else index_in j cs (S i)
  end.

Fixpoint build_row_cols (tys : list colty) (j : nat) (cols : list nat) (fields : list bytes) : option (list val) :=
  match tys with
  | [] => Some []
  | t :: ts =>
    let v := match index_in j cols 0 with
             | None => Some VNull
             | Some i => to_val t (nth_error fields i)
             end in
    match v, build_row_cols ts (S j) cols fields with
    | Some v', Some r => Some (v' :: r)
    | _, _ => None
    end
  end.

Fixpoint load_tokens_cols (o : opts) (tys : list colty) (cols : list nat) (toks : list bytes) : option (list (list val)) :=
  match toks with
  | [] => Some []
  | t :: ts =>
    match parse_fields o t with
    | None => load_tokens_cols o tys cols ts
    | Some fs =>
      match build_row_cols tys 0 cols fs, load_tokens_cols o tys cols ts with
      | Some r, Some rs => Some (r :: rs)
      | _, _ => None
      end
    end
  end.

Definition load_cols (n : nat) (o : opts) (tys : list colty) (cols : list nat) (data : bytes) : outcome :=
  if is_nil (lt o) && negb (is_nil data) then NoTermination
  else match load_tokens_cols o tys cols (skipn n (split_lines (S (length data)) (lt o) data)) with
       | Some rows => Loaded rows
       | None => ConvOutside
       end.

(* ---------- well-formedness of options and the guard on rows ---------- *)

Definition mem (c : N) (l : bytes) : bool := existsb (N.eqb c) l.

(* a byte that can stand inside a field without being taken for syntax *)
Definition safe (o : opts) (c : N) : bool :=
  negb (c =? hd 0 (ft o)) && negb (c =? hd 0 (lt o)) && negb (mem c (enc o)) && negb (mem c (esc o)).

Definition wf_opts (o : opts) : bool :=
  negb (is_nil (ft o)) && negb (is_nil (lt o))
  && (length (enc o) <=? 1)%nat && (length (esc o) <=? 1)%nat
  && negb (encEqEsc o)
  && negb (mem (hd 0 (lt o)) (ls o ++ ft o ++ enc o ++ esc o))
  && negb (mem (hd 0 (ft o)) (enc o ++ esc o))
  && (if is_nil (esc o) then forallb (safe o) str_NULL else negb (78 =? hd 0 (lt o))).

Definition val_ok (o : opts) (t : colty) (v : val) : bool :=
  match v, t with
  | VNull, _ => true
  | VInt z, TInt => in_int64 z && forallb (safe o) (render_Z z)
  | VStr s, TText => forallb (safe o) s && negb (bytes_eq s str_NULL)
  | _, _ => false
  end.

Fixpoint row_ok (o : opts) (tys : list colty) (r : list val) : bool :=
  match tys, r with
  | [], [] => true
  | t :: ts, v :: vs => val_ok o t v && row_ok o ts vs
  | _, _ => false
  end.

(* typing alone (what SQL guarantees for any table): used in the refutations *)
Definition val_typed (t : colty) (v : val) : bool :=
  match v, t with
  | VNull, _ => true
  | VInt z, TInt => in_int64 z
  | VStr _, TText => true
  | VRaw _, TOther _ => true
  | _, _ => false
  end.
Fixpoint row_typed (tys : list colty) (r : list val) : bool :=
  match tys, r with
  | [], [] => true
  | t :: ts, v :: vs => val_typed t v && row_typed ts vs
  | _, _ => false
  end.
