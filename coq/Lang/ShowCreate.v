(* C22 -- model of SHOW CREATE TABLE.

   Mirrors (go-mysql-server):
     sql/rowexec/show_iters.go  showCreateTablesIter.produceCreateTableStatement, convertColumnDefaultToString
     sql/parser.go              MySqlSchemaFormatter.GenerateCreateTable{Statement,ColumnDefinition,PrimaryKeyDefinition,
                                IndexDefinition,ForiegnKeyDefinition,CheckConstraintClause}, QuoteIdentifier,
                                EscapeSpecialCharactersInComment
     sql/types/*.go             String()/StringWithTableCollation of the column types
     sql/expression/literal.go  Literal.String (string literals: ' -> '', \ -> \\)
     sql/columndefault.go       ColumnDefaultValue.String (NOW(p) -> CURRENT_TIMESTAMP(p))
   plus a model parser for exactly the printed sublanguage.

   Strings are byte lists (list N).  Numbers that the formatter prints with %v/%d (lengths, precisions,
   AUTO_INCREMENT) are kept in the schema AST as decimal numerals (digit lists), so the printer copies them. *)
From Coq Require Import List NArith Bool Arith Ascii String.
Import ListNotations.
Open Scope N_scope.

Definition str := list N.

Definition s2l (s : string) : str := map N_of_ascii (list_ascii_of_string s).

Fixpoint str_eqb (a b : str) : bool :=
  match a, b with
  | [], [] => true
  | x :: a', y :: b' => N.eqb x y && str_eqb a' b'
  | _, _ => false
  end.

Notation K s := (ltac:(let v := eval vm_compute in (s2l s) in exact v)) (only parsing).

(* ---------- printing helpers ---------- *)

(* strings.Join *)
Fixpoint joins (sep : str) (l : list str) : str :=
  match l with
  | [] => []
  | [x] => x
  | x :: l' => x ++ sep ++ joins sep l'
  end.

(* strings.ReplaceAll with a one-byte pattern *)
Definition replace1 (a : N) (r : str) (s : str) : str := flat_map (fun c => if c =? a then r else [c]) s.

(* QuoteIdentifier: "`" + ReplaceAll(id, "`", "``") + "`" *)
Definition quote_id (s : str) : str := 96 :: replace1 96 [96; 96] s ++ [96].

(* EscapeSpecialCharactersInComment: six ReplaceAll calls in this order *)
Definition esc_comment (s : str) : str :=
  replace1 0 [92; 48] (replace1 13 [92; 114] (replace1 10 [92; 110] (replace1 34 [92; 34]
    (replace1 92 [92; 92] (replace1 39 [39; 39] s))))).

(* Literal.String for string values: ' -> '' then \ -> \\ *)
Definition esc_lit (s : str) : str := replace1 92 [92; 92] (replace1 39 [39; 39] s).

(* enum/set values: only ' -> '' *)
Definition esc_enum (s : str) : str := replace1 39 [39; 39] s.

(* ---------- the schema AST ---------- *)

Inductive charset := CS_utf8mb4 | CS_latin1 | CS_ascii | CS_utf8mb3.
Inductive coll :=
| C_utf8mb4_0900_bin | C_utf8mb4_0900_ai_ci | C_utf8mb4_general_ci | C_utf8mb4_bin | C_utf8mb4_unicode_ci
| C_latin1_swedish_ci | C_latin1_bin | C_ascii_general_ci | C_ascii_bin | C_utf8mb3_general_ci.

Definition all_colls : list coll :=
  [C_utf8mb4_0900_bin; C_utf8mb4_0900_ai_ci; C_utf8mb4_general_ci; C_utf8mb4_bin; C_utf8mb4_unicode_ci;
   C_latin1_swedish_ci; C_latin1_bin; C_ascii_general_ci; C_ascii_bin; C_utf8mb3_general_ci].

Definition cs_name (c : charset) : str :=
  match c with
  | CS_utf8mb4 => K "utf8mb4"
  | CS_latin1 => K "latin1"
  | CS_ascii => K "ascii"
  | CS_utf8mb3 => K "utf8mb3"
  end.

Definition coll_name (c : coll) : str :=
  match c with
  | C_utf8mb4_0900_bin => K "utf8mb4_0900_bin"
  | C_utf8mb4_0900_ai_ci => K "utf8mb4_0900_ai_ci"
  | C_utf8mb4_general_ci => K "utf8mb4_general_ci"
  | C_utf8mb4_bin => K "utf8mb4_bin"
  | C_utf8mb4_unicode_ci => K "utf8mb4_unicode_ci"
  | C_latin1_swedish_ci => K "latin1_swedish_ci"
  | C_latin1_bin => K "latin1_bin"
  | C_ascii_general_ci => K "ascii_general_ci"
  | C_ascii_bin => K "ascii_bin"
  | C_utf8mb3_general_ci => K "utf8mb3_general_ci"
  end.

Definition coll_cs (c : coll) : charset :=
  match c with
  | C_utf8mb4_0900_bin | C_utf8mb4_0900_ai_ci | C_utf8mb4_general_ci | C_utf8mb4_bin | C_utf8mb4_unicode_ci => CS_utf8mb4
  | C_latin1_swedish_ci | C_latin1_bin => CS_latin1
  | C_ascii_general_ci | C_ascii_bin => CS_ascii
  | C_utf8mb3_general_ci => CS_utf8mb3
  end.

Definition coll_eqb (a b : coll) : bool := str_eqb (coll_name a) (coll_name b).
Definition cs_eqb (a b : charset) : bool := str_eqb (cs_name a) (cs_name b).

Inductive ikind := ITiny | ISmall | IMedium | IInt | IBig.
Inductive tkind := KTiny | KNorm | KMedium | KLong.

(* A column collation is kept relative to the table collation: None = the table's collation (nothing is
   printed), Some c = a different collation c (StringWithTableCollation prints it). *)
Inductive ctype :=
| TyInt (k : ikind) (uns : bool)
| TyBool                              (* tinyint(1) *)
| TyDecimal (p s : str)
| TyFloat | TyDouble
| TyChar (n : str) (c : option coll)
| TyVarchar (n : str) (c : option coll)
| TyText (k : tkind) (c : option coll)
| TyBinary (n : str)
| TyVarbinary (n : str)
| TyBlob (k : tkind)
| TyDate
| TyDatetime (p : N)
| TyTimestamp (p : N)
| TyTime
| TyYear
| TyEnum (vs : list str) (c : option coll)
| TySet (vs : list str) (c : option coll)
| TyBit (n : str)
| TyJson.

(* column DEFAULT as SHOW CREATE sees it *)
Inductive dflt :=
| DNull                (* DEFAULT NULL *)
| DQuoted (s : str)    (* a literal; s is the value converted to the column type, printed with %v *)
| DNow (p : N)         (* CURRENT_TIMESTAMP[(p)] *)
| DExpr (e : str)      (* (expr): the expression text is opaque, parenthesis-balanced *)
| DBit (bits : str)    (* b'101'  (fmt %b of the converted value) *)
| DHex (h : str).      (* 0x616263 (fmt %X of the literal bytes) *)

(* cgen = Some (e, stored): GENERATED ALWAYS AS (e) [STORED]; e is opaque, parenthesis-balanced *)
Record column := mkcol {
  cname : str; cty : ctype; cnull : bool; cauto : bool; cgen : option (str * bool); cdef : option dflt;
  conupd : option N; ccomment : str }.

Record index := mkidx { iuniq : bool; iname : str; icols : list (str * option str); icomment : str }.

Inductive action := ACascade | ASetNull | ASetDefault | ARestrict | ANoAction.

Record fkey := mkfk {
  fname : str; fcols : list str; fptable : str; fpcols : list str; fondel : option action; fonupd : option action }.

Record check := mkchk { kname : str; kexpr : str; kenforced : bool }.

Record table := mktable {
  ttemp : bool; tname : str; tcols : list column; tpk : list str; tidx : list index; tfks : list fkey;
  tchecks : list check; tautoinc : option str; tcoll : coll; tcomment : str }.

(* ---------- keywords ---------- *)

Definition kw_unsigned : str := K " unsigned".
Definition kw_charset : str := K " CHARACTER SET ".
Definition kw_collate : str := K " COLLATE ".
Definition kw_notnull : str := K " NOT NULL".
Definition kw_autoinc : str := K " AUTO_INCREMENT".
Definition kw_default : str := K " DEFAULT ".
Definition kw_onupdate : str := K " ON UPDATE ".
Definition kw_comment : str := K " COMMENT '".
Definition kw_null : str := K "NULL".
Definition kw_now : str := K "CURRENT_TIMESTAMP".
Definition kw_pk : str := K "PRIMARY KEY (".
Definition kw_unique : str := K "UNIQUE ".
Definition kw_key : str := K "KEY ".
Definition kw_constraint : str := K "CONSTRAINT ".
Definition kw_fk : str := K " FOREIGN KEY (".
Definition kw_references : str := K ") REFERENCES ".
Definition kw_ondelete : str := K " ON DELETE ".
Definition kw_create : str := K "CREATE".
Definition kw_temporary : str := K " TEMPORARY".
Definition kw_table : str := K " TABLE ".
Definition kw_generated : str := K " GENERATED ALWAYS AS (".
Definition kw_stored : str := K " STORED".
Definition kw_check : str := K " CHECK (".
Definition kw_notenforced : str := K " /*!80016 NOT ENFORCED */".
Definition kw_bit : str := K "b'".
Definition kw_hex : str := K "0x".
Definition kw_open : str := [32; 40; 10].               (* " (\n" *)
Definition kw_itemsep : str := [44; 10].                (* ",\n" *)
Definition kw_engine : str := 10 :: K ") ENGINE=InnoDB".
Definition kw_tautoinc : str := K " AUTO_INCREMENT=".
Definition kw_tcharset : str := K " DEFAULT CHARSET=".
Definition kw_tcollate : str := K " COLLATE=".
Definition kw_tcomment : str := K " COMMENT='".

Definition ikind_name (k : ikind) : str :=
  match k with
  | ITiny => K "tinyint" | ISmall => K "smallint" | IMedium => K "mediumint" | IInt => K "int" | IBig => K "bigint"
  end.
Definition text_name (k : tkind) : str :=
  match k with KTiny => K "tinytext" | KNorm => K "text" | KMedium => K "mediumtext" | KLong => K "longtext" end.
Definition blob_name (k : tkind) : str :=
  match k with KTiny => K "tinyblob" | KNorm => K "blob" | KMedium => K "mediumblob" | KLong => K "longblob" end.
Definition action_name (a : action) : str :=
  match a with
  | ACascade => K "CASCADE" | ASetNull => K "SET NULL" | ASetDefault => K "SET DEFAULT"
  | ARestrict => K "RESTRICT" | ANoAction => K "NO ACTION"
  end.

(* ---------- decimal printing (only for enum defaults, which print the member index) ---------- *)
Fixpoint dec_fuel (fuel : nat) (n : N) (acc : str) : str :=
  match fuel with
  | O => acc
  | S f => let acc' := (48 + n mod 10) :: acc in if n / 10 =? 0 then acc' else dec_fuel f (n / 10) acc'
  end.
Definition print_dec (n : N) : str := dec_fuel 40 n [].

Fixpoint index_of (v : str) (vs : list str) (i : N) : option N :=
  match vs with
  | [] => None
  | x :: vs' => if str_eqb x v then Some i else index_of v vs' (i + 1)
  end.

(* ---------- the printer ---------- *)

Definition paren (s : str) : str := 40 :: s ++ [41].

(* StringWithTableCollation suffix *)
Definition print_collsfx (tc : coll) (oc : option coll) : str :=
  match oc with
  | None => []
  | Some c =>
    (if cs_eqb (coll_cs c) (coll_cs tc) then [] else kw_charset ++ cs_name (coll_cs c)) ++
    (if coll_eqb c tc then [] else kw_collate ++ coll_name c)
  end.

Definition print_prec (p : N) : str := if p =? 0 then [] else paren [48 + p].

Definition quote_with (e : str -> str) (s : str) : str := 39 :: e s ++ [39].

Definition print_type (tc : coll) (t : ctype) : str :=
  match t with
  | TyInt k u => ikind_name k ++ (if u then kw_unsigned else [])
  | TyBool => K "tinyint(1)"
  | TyDecimal p s => K "decimal" ++ paren (p ++ 44 :: s)
  | TyFloat => K "float"
  | TyDouble => K "double"
  | TyChar n c => K "char" ++ paren n ++ print_collsfx tc c
  | TyVarchar n c => K "varchar" ++ paren n ++ print_collsfx tc c
  | TyText k c => text_name k ++ print_collsfx tc c
  | TyBinary n => K "binary" ++ paren n
  | TyVarbinary n => K "varbinary" ++ paren n
  | TyBlob k => blob_name k
  | TyDate => K "date"
  | TyDatetime p => K "datetime" ++ print_prec p
  | TyTimestamp p => K "timestamp" ++ print_prec p
  | TyTime => K "time(6)"
  | TyYear => K "year"
  | TyEnum vs c => K "enum" ++ paren (joins [44] (map (quote_with esc_enum) vs)) ++ print_collsfx tc c
  | TySet vs c => K "set" ++ paren (joins [44] (map (quote_with esc_enum) vs)) ++ print_collsfx tc c
  | TyBit n => K "bit" ++ paren n
  | TyJson => K "json"
  end.

(* types.IsText || types.IsTime: the literal's own String() is used (escaped); otherwise '%v' of the value *)
Definition lit_is_escaped (t : ctype) : bool :=
  match t with
  | TyChar _ _ | TyVarchar _ _ | TyText _ _ | TyBinary _ | TyVarbinary _ | TyBlob _
  | TyDate | TyDatetime _ | TyTimestamp _ => true
  | _ => false
  end.

Definition print_now (p : N) : str := kw_now ++ print_prec p.

(* convertColumnDefaultToString *)
Definition print_def (t : ctype) (d : dflt) : str :=
  match d with
  | DNull => kw_null
  | DNow p => print_now p
  | DExpr e => paren e
  | DBit b => kw_bit ++ b ++ [39]
  | DHex h => kw_hex ++ h
  | DQuoted s =>
    match t with
    | TyEnum vs _ =>      (* Eval converts to the member index, printed with %v *)
      match index_of s vs 1 with Some i => quote_with (fun x => x) (print_dec i) | None => quote_with (fun x => x) s end
    | _ => if lit_is_escaped t then quote_with esc_lit s else quote_with (fun x => x) s
    end
  end.

(* GenerateCreateTableColumnDefinition *)
Definition print_col (tc : coll) (c : column) : str :=
  [32; 32] ++ quote_id (cname c) ++ [32] ++ print_type tc (cty c) ++
  (if cnull c then [] else kw_notnull) ++
  (if cauto c then kw_autoinc else []) ++
  (match cgen c with None => [] | Some (e, st) => kw_generated ++ e ++ [41] ++ (if st then kw_stored else []) end) ++
  (match cgen c, cdef c with None, Some d => kw_default ++ print_def (cty c) d | _, _ => [] end) ++
  (match conupd c with None => [] | Some p => kw_onupdate ++ print_now p end) ++
  (match ccomment c with [] => [] | cm => kw_comment ++ esc_comment cm ++ [39] end).

Definition print_pk (cols : list str) : str := [32; 32] ++ kw_pk ++ joins [44] (map quote_id cols) ++ [41].

Definition print_icol (c : str * option str) : str :=
  quote_id (fst c) ++ match snd c with None => [] | Some n => paren n end.

(* GenerateCreateTableIndexDefinition: the comment is NOT escaped *)
Definition print_idx (i : index) : str :=
  [32; 32] ++ (if iuniq i then kw_unique else []) ++ kw_key ++ quote_id (iname i) ++ [32] ++
  paren (joins [44] (map print_icol (icols i))) ++
  (match icomment i with [] => [] | cm => kw_comment ++ cm ++ [39] end).

Definition print_fk (f : fkey) : str :=
  [32; 32] ++ kw_constraint ++ quote_id (fname f) ++ kw_fk ++ joins [44] (map quote_id (fcols f)) ++
  kw_references ++ quote_id (fptable f) ++ [32] ++ paren (joins [44] (map quote_id (fpcols f))) ++
  (match fondel f with None => [] | Some a => kw_ondelete ++ action_name a end) ++
  (match fonupd f with None => [] | Some a => kw_onupdate ++ action_name a end).

(* GenerateCreateTableCheckConstraintClause *)
Definition print_check (k : check) : str :=
  [32; 32] ++ kw_constraint ++ quote_id (kname k) ++ kw_check ++ kexpr k ++ [41] ++
  (if kenforced k then [] else kw_notenforced).

Inductive item := ICol (c : column) | IPk (cols : list str) | IIdx (i : index) | IFk (f : fkey) | ICheck (k : check).

Definition print_item (tc : coll) (it : item) : str :=
  match it with
  | ICol c => print_col tc c
  | IPk cols => print_pk cols
  | IIdx i => print_idx i
  | IFk f => print_fk f
  | ICheck k => print_check k
  end.

Definition is_virtual (c : column) : bool := match cgen c with Some (_, false) => true | _ => false end.

(* produceCreateTableStatement: columns, primary key (if any), indexes, foreign keys, checks.
   Quirk mirrored: when the table has a VIRTUAL generated column the plan node is not a bare ResolvedTable and
   ShowCreateTable.Checks() is empty, so no CHECK constraint is printed. *)
Definition shown_checks (t : table) : list check := if existsb is_virtual (tcols t) then [] else tchecks t.

(* same quirk: the wrapped table is not a sql.CommentedTable, so the table comment is not printed either *)
Definition shown_comment (t : table) : str := if existsb is_virtual (tcols t) then [] else tcomment t.

(* same quirk: the primary-key schema of the wrapped table is empty, so the key columns are printed in column order *)
Definition shown_pk (t : table) : list str :=
  if existsb is_virtual (tcols t)
  then map cname (filter (fun c => existsb (str_eqb (cname c)) (tpk t)) (tcols t))
  else tpk t.

Fixpoint strs_eqb (a b : list str) : bool :=
  match a, b with
  | [], [] => true
  | x :: a', y :: b' => str_eqb x y && strs_eqb a' b'
  | _, _ => false
  end.

Definition items_of (t : table) : list item :=
  map ICol (tcols t) ++ (match shown_pk t with [] => [] | pk => [IPk pk] end) ++ map IIdx (tidx t) ++ map IFk (tfks t) ++
  map ICheck (shown_checks t).

(* GenerateCreateTableStatement *)
Definition print_table (t : table) : str :=
  kw_create ++ (if ttemp t then kw_temporary else []) ++ kw_table ++ quote_id (tname t) ++ kw_open ++
  joins kw_itemsep (map (print_item (tcoll t)) (items_of t)) ++
  kw_engine ++
  (match tautoinc t with None => [] | Some n => kw_tautoinc ++ n end) ++
  kw_tcharset ++ cs_name (coll_cs (tcoll t)) ++ kw_tcollate ++ coll_name (tcoll t) ++
  (match shown_comment t with [] => [] | cm => kw_tcomment ++ esc_comment cm ++ [39] end).

(* ---------- the model parser ---------- *)

Fixpoint strip (kw inp : str) : option str :=
  match kw with
  | [] => Some inp
  | k :: kw' => match inp with
                | c :: inp' => if N.eqb k c then strip kw' inp' else None
                | [] => None
                end
  end.

Fixpoint span (P : N -> bool) (inp : str) : str * str :=
  match inp with
  | c :: r => if P c then let '(a, b) := span P r in (c :: a, b) else ([], inp)
  | [] => ([], [])
  end.

Definition digitch (c : N) : bool := (48 <=? c) && (c <=? 57).
Definition wordch (c : N) : bool := ((97 <=? c) && (c <=? 122)) || digitch c || (c =? 95).

Definition cons_fst (c : N) (r : option (str * str)) : option (str * str) :=
  match r with Some (s, r') => Some (c :: s, r') | None => None end.

(* scan q f inp: inp follows an opening quote q.  q q stands for q; a single q ends the string.  With f = Some g a
   backslash followed by x stands for g x. *)
Fixpoint scan (q : N) (f : option (N -> option N)) (inp : str) : option (str * str) :=
  match inp with
  | [] => None
  | c :: r =>
    if c =? q then
      match r with
      | c2 :: r2 => if c2 =? q then cons_fst q (scan q f r2) else Some ([], r)
      | [] => Some ([], [])
      end
    else
      match f with
      | Some g =>
        if c =? 92 then
          match r with
          | c2 :: r2 => match g c2 with Some d => cons_fst d (scan q f r2) | None => None end
          | [] => None
          end
        else cons_fst c (scan q f r)
      | None => cons_fst c (scan q f r)
      end
  end.

Definition unesc_lit (x : N) : option N := if x =? 92 then Some 92 else None.
Definition unesc_comment (x : N) : option N :=
  if x =? 92 then Some 92 else if x =? 34 then Some 34 else if x =? 110 then Some 10
  else if x =? 114 then Some 13 else if x =? 48 then Some 0 else None.

(* `ident` *)
Definition p_qid (inp : str) : option (str * str) :=
  match inp with
  | c :: r => if c =? 96 then scan 96 None r else None
  | [] => None
  end.

(* 'string' with the given backslash table *)
Definition p_qstr (f : option (N -> option N)) (inp : str) : option (str * str) :=
  match inp with
  | c :: r => if c =? 39 then scan 39 f r else None
  | [] => None
  end.

(* raw text up to the next quote (index comments are printed unescaped) *)
Fixpoint scan_raw (inp : str) : option (str * str) :=
  match inp with
  | [] => None
  | c :: r => if c =? 39 then Some ([], r) else cons_fst c (scan_raw r)
  end.

(* text up to the parenthesis that closes depth d (expressions are opaque) *)
Fixpoint scan_bal (d : nat) (inp : str) : option (str * str) :=
  match inp with
  | [] => None
  | c :: r =>
    if c =? 41 then match d with O => Some ([], r) | S d' => cons_fst c (scan_bal d' r) end
    else if c =? 40 then cons_fst c (scan_bal (S d) r)
    else cons_fst c (scan_bal d r)
  end.

(* depth after reading e from depth d; None if a closing parenthesis has no partner *)
Fixpoint bal (d : nat) (e : str) : option nat :=
  match e with
  | [] => Some d
  | c :: r =>
    if c =? 41 then match d with O => None | S d' => bal d' r end
    else if c =? 40 then bal (S d) r
    else bal d r
  end.

Definition bitch (c : N) : bool := (c =? 48) || (c =? 49).
Definition hexch (c : N) : bool := ((48 <=? c) && (c <=? 57)) || ((65 <=? c) && (c <=? 70)).

Definition p_digits (inp : str) : option (str * str) :=
  match span digitch inp with
  | ([], _) => None
  | (d, r) => Some (d, r)
  end.

(* "(" digits ")" *)
Definition p_pnum (inp : str) : option (str * str) :=
  match strip [40] inp with
  | Some r => match p_digits r with
              | Some (d, r1) => match strip [41] r1 with Some r' => Some (d, r') | None => None end
              | None => None
              end
  | None => None
  end.

(* sep_list: p (sep p)*  *)
Section SepList.
  Context {A : Type} (p : str -> option (A * str)) (sep : str).
  Fixpoint sep_list (fuel : nat) (inp : str) : option (list A * str) :=
    match fuel with
    | O => None
    | S f =>
      match p inp with
      | None => None
      | Some (x, r) =>
        match strip sep r with
        | Some r' => match sep_list f r' with
                     | Some (xs, r'') => Some (x :: xs, r'')
                     | None => None
                     end
        | None => Some ([x], r)
        end
      end
    end.
End SepList.

Definition find_coll (w : str) : option coll := find (fun c => str_eqb (coll_name c) w) all_colls.

(* [ CHARACTER SET cs] [ COLLATE coll] *)
Definition p_collsfx (inp : str) : option (option coll * str) :=
  let r1 := match strip kw_charset inp with
            | Some r => Some (true, snd (span wordch r))
            | None => Some (false, inp)
            end in
  match r1 with
  | Some (hadcs, r) =>
    match strip kw_collate r with
    | Some r' => let '(w, r'') := span wordch r' in
                 match find_coll w with Some c => Some (Some c, r'') | None => None end
    | None => if hadcs then None else Some (None, r)
    end
  | None => None
  end.

Definition p_prec (inp : str) : option (N * str) :=
  match strip [40] inp with
  | Some (d :: r1) =>
    match strip [41] r1 with
    | Some r => if (49 <=? d) && (d <=? 54) then Some (d - 48, r) else None
    | None => None
    end
  | Some [] => None
  | None => Some (0, inp)
  end.

Definition p_values (inp : str) : option (list str * str) :=
  match strip [40] inp with
  | Some r => match sep_list (p_qstr None) [44] (List.length r) r with
              | Some (vs, r1) => match strip [41] r1 with Some r' => Some (vs, r') | None => None end
              | None => None
              end
  | None => None
  end.

(* "(" digits "," digits ")" *)
Definition p_pnum2 (inp : str) : option (str * str * str) :=
  match strip [40] inp with
  | Some r =>
    match p_digits r with
    | Some (p, r1) =>
      match strip [44] r1 with
      | Some r2 =>
        match p_digits r2 with
        | Some (s, r3) => match strip [41] r3 with Some r' => Some (p, s, r') | None => None end
        | None => None
        end
      | None => None
      end
    | None => None
    end
  | None => None
  end.

Definition with_coll (mk : option coll -> ctype) (r : option (option coll * str)) : option (ctype * str) :=
  match r with Some (c, r') => Some (mk c, r') | None => None end.

Definition p_int (k : ikind) (r : str) : option (ctype * str) :=
  match strip kw_unsigned r with
  | Some r' => Some (TyInt k true, r')
  | None => Some (TyInt k false, r)
  end.

Definition p_type (inp : str) : option (ctype * str) :=
  let '(w, r) := span wordch inp in
  if str_eqb w (K "tinyint") then
    match strip (K "(1)") r with Some r' => Some (TyBool, r') | None => p_int ITiny r end
  else if str_eqb w (K "smallint") then p_int ISmall r
  else if str_eqb w (K "mediumint") then p_int IMedium r
  else if str_eqb w (K "int") then p_int IInt r
  else if str_eqb w (K "bigint") then p_int IBig r
  else if str_eqb w (K "decimal") then
    match p_pnum2 r with Some (p, s, r') => Some (TyDecimal p s, r') | None => None end
  else if str_eqb w (K "float") then Some (TyFloat, r)
  else if str_eqb w (K "double") then Some (TyDouble, r)
  else if str_eqb w (K "char") then
    match p_pnum r with Some (n, r') => with_coll (TyChar n) (p_collsfx r') | None => None end
  else if str_eqb w (K "varchar") then
    match p_pnum r with Some (n, r') => with_coll (TyVarchar n) (p_collsfx r') | None => None end
  else if str_eqb w (K "tinytext") then with_coll (TyText KTiny) (p_collsfx r)
  else if str_eqb w (K "text") then with_coll (TyText KNorm) (p_collsfx r)
  else if str_eqb w (K "mediumtext") then with_coll (TyText KMedium) (p_collsfx r)
  else if str_eqb w (K "longtext") then with_coll (TyText KLong) (p_collsfx r)
  else if str_eqb w (K "binary") then
    match p_pnum r with Some (n, r') => Some (TyBinary n, r') | None => None end
  else if str_eqb w (K "varbinary") then
    match p_pnum r with Some (n, r') => Some (TyVarbinary n, r') | None => None end
  else if str_eqb w (K "tinyblob") then Some (TyBlob KTiny, r)
  else if str_eqb w (K "blob") then Some (TyBlob KNorm, r)
  else if str_eqb w (K "mediumblob") then Some (TyBlob KMedium, r)
  else if str_eqb w (K "longblob") then Some (TyBlob KLong, r)
  else if str_eqb w (K "date") then Some (TyDate, r)
  else if str_eqb w (K "datetime") then
    match p_prec r with Some (p, r') => Some (TyDatetime p, r') | None => None end
  else if str_eqb w (K "timestamp") then
    match p_prec r with Some (p, r') => Some (TyTimestamp p, r') | None => None end
  else if str_eqb w (K "time") then
    match strip (K "(6)") r with Some r' => Some (TyTime, r') | None => None end
  else if str_eqb w (K "year") then Some (TyYear, r)
  else if str_eqb w (K "enum") then
    match p_values r with Some (vs, r') => with_coll (TyEnum vs) (p_collsfx r') | None => None end
  else if str_eqb w (K "set") then
    match p_values r with Some (vs, r') => with_coll (TySet vs) (p_collsfx r') | None => None end
  else if str_eqb w (K "bit") then
    match p_pnum r with Some (n, r') => Some (TyBit n, r') | None => None end
  else if str_eqb w (K "json") then Some (TyJson, r)
  else None.

Definition p_now (inp : str) : option (N * str) :=
  match strip kw_now inp with
  | Some r => p_prec r
  | None => None
  end.

Definition p_def (inp : str) : option (dflt * str) :=
  match strip kw_null inp with
  | Some r => Some (DNull, r)
  | None =>
    match p_now inp with
    | Some (p, r) => Some (DNow p, r)
    | None => match p_qstr (Some unesc_lit) inp with
              | Some (s, r) => Some (DQuoted s, r)
              | None =>
                match strip [40] inp with
                | Some r => match scan_bal 0 r with Some (e, r') => Some (DExpr e, r') | None => None end
                | None =>
                  match strip kw_bit inp with
                  | Some r => let '(b, r1) := span bitch r in
                              match strip [39] r1 with Some r' => Some (DBit b, r') | None => None end
                  | None =>
                    match strip kw_hex inp with
                    | Some r => let '(h, r') := span hexch r in Some (DHex h, r')
                    | None => None
                    end
                  end
                end
              end
    end
  end.

Definition p_flag (kw inp : str) : bool * str :=
  match strip kw inp with Some r => (true, r) | None => (false, inp) end.

Definition p_optdef (r3 : str) : option (option dflt * str) :=
  match strip kw_default r3 with
  | Some r => match p_def r with Some (d, r') => Some (Some d, r') | None => None end
  | None => Some (None, r3)
  end.

Definition p_optupd (r4 : str) : option (option N * str) :=
  match strip kw_onupdate r4 with
  | Some r => match p_now r with Some (p, r') => Some (Some p, r') | None => None end
  | None => Some (None, r4)
  end.

Definition p_optgen (r3 : str) : option (option (str * bool) * str) :=
  match strip kw_generated r3 with
  | Some r => match scan_bal 0 r with
              | Some (e, r') => let '(st, r'') := p_flag kw_stored r' in Some (Some (e, st), r'')
              | None => None
              end
  | None => Some (None, r3)
  end.

Definition p_optcomment (r5 : str) : option (str * str) :=
  match strip kw_comment r5 with
  | Some r => scan 39 (Some unesc_comment) r
  | None => Some ([], r5)
  end.

(* a column line, after the two leading blanks *)
Definition p_col (inp : str) : option (column * str) :=
  match p_qid inp with
  | Some (name, rq) =>
   match strip [32] rq with
   | Some r0 =>
    match p_type r0 with
    | Some (ty, r1) =>
      let '(nn, r2) := p_flag kw_notnull r1 in
      let '(ai, r3) := p_flag kw_autoinc r2 in
      match p_optgen r3 with
      | Some (gn, r3') =>
      match p_optdef r3' with
      | Some (df, r4) =>
        match p_optupd r4 with
        | Some (ou, r5) =>
          match p_optcomment r5 with
          | Some (cm, r6) => Some (mkcol name ty (negb nn) ai gn df ou cm, r6)
          | None => None
          end
        | None => None
        end
      | None => None
      end
      | None => None
      end
    | None => None
    end
   | None => None
   end
  | None => None
  end.

(* `a`,`b`,...`z`)  *)
Definition p_idlist (inp : str) : option (list str * str) :=
  match sep_list p_qid [44] (List.length inp) inp with
  | Some (ids, r1) => match strip [41] r1 with Some r => Some (ids, r) | None => None end
  | None => None
  end.

Definition p_icol (inp : str) : option ((str * option str) * str) :=
  match p_qid inp with
  | Some (c, r) =>
    match strip [40] r with
    | Some _ => match p_pnum r with Some (n, r') => Some ((c, Some n), r') | None => None end
    | None => Some ((c, None), r)
    end
  | None => None
  end.

Definition p_idx (uniq : bool) (inp : str) : option (index * str) :=
  match p_qid inp with
  | Some (name, rq) =>
   match strip [32; 40] rq with
   | Some r =>
    match sep_list p_icol [44] (List.length r) r with
    | Some (cols, rc) =>
     match strip [41] rc with
     | Some r1 =>
      match strip kw_comment r1 with
      | Some r2 => match scan_raw r2 with
                   | Some (cm, r3) => Some (mkidx uniq name cols cm, r3)
                   | None => None
                   end
      | None => Some (mkidx uniq name cols [], r1)
      end
     | None => None
     end
    | None => None
    end
   | None => None
   end
  | None => None
  end.

Definition p_action (inp : str) : option (action * str) :=
  match strip (action_name ACascade) inp with Some r => Some (ACascade, r) | None =>
  match strip (action_name ASetNull) inp with Some r => Some (ASetNull, r) | None =>
  match strip (action_name ASetDefault) inp with Some r => Some (ASetDefault, r) | None =>
  match strip (action_name ARestrict) inp with Some r => Some (ARestrict, r) | None =>
  match strip (action_name ANoAction) inp with Some r => Some (ANoAction, r) | None => None
  end end end end end.

Definition p_optaction (kw inp : str) : option (option action * str) :=
  match strip kw inp with
  | Some r => match p_action r with Some (a, r') => Some (Some a, r') | None => None end
  | None => Some (None, inp)
  end.

Definition p_fk (inp : str) : option (fkey * str) :=
  match p_qid inp with
  | Some (name, r0) =>
    match strip kw_fk r0 with
    | Some r1 =>
      match sep_list p_qid [44] (List.length r1) r1 with
      | Some (cols, r2) =>
        match strip kw_references r2 with
        | Some r3 =>
          match p_qid r3 with
          | Some (pt, rq) =>
           match strip [32; 40] rq with
           | Some r4 =>
            match p_idlist r4 with
            | Some (pcols, r5) =>
              match p_optaction kw_ondelete r5 with
              | Some (od, r6) =>
                match p_optaction kw_onupdate r6 with
                | Some (ou, r7) => Some (mkfk name cols pt pcols od ou, r7)
                | None => None
                end
              | None => None
              end
            | None => None
            end
           | None => None
           end
          | None => None
          end
        | None => None
        end
      | None => None
      end
    | None => None
    end
  | None => None
  end.

Definition p_check (inp : str) : option (check * str) :=
  match p_qid inp with
  | Some (name, r0) =>
    match strip kw_check r0 with
    | Some r => match scan_bal 0 r with
                | Some (e, r') => let '(ne, r'') := p_flag kw_notenforced r' in Some (mkchk name e (negb ne), r'')
                | None => None
                end
    | None => None
    end
  | None => None
  end.

Definition p_item (inp : str) : option (item * str) :=
  match strip [32; 32] inp with
  | Some r =>
    match strip [96] r with
    | Some _ => match p_col r with Some (c, r') => Some (ICol c, r') | None => None end
    | None =>
      match strip kw_pk r with
      | Some r1 => match p_idlist r1 with Some (ids, r') => Some (IPk ids, r') | None => None end
      | None =>
        match strip kw_unique r with
        | Some r1 => match strip kw_key r1 with
                     | Some r2 => match p_idx true r2 with Some (i, r') => Some (IIdx i, r') | None => None end
                     | None => None
                     end
        | None =>
          match strip kw_key r with
          | Some r1 => match p_idx false r1 with Some (i, r') => Some (IIdx i, r') | None => None end
          | None =>
            match strip kw_constraint r with
            | Some r1 => match p_fk r1 with
                         | Some (f, r') => Some (IFk f, r')
                         | None => match p_check r1 with Some (k, r') => Some (ICheck k, r') | None => None end
                         end
            | None => None
            end
          end
        end
      end
    end
  | None => None
  end.

Definition cols_of (l : list item) : list column :=
  flat_map (fun it => match it with ICol c => [c] | _ => [] end) l.
Definition pk_of (l : list item) : list str :=
  flat_map (fun it => match it with IPk p => p | _ => [] end) l.
Definition idx_of (l : list item) : list index :=
  flat_map (fun it => match it with IIdx i => [i] | _ => [] end) l.
Definition fks_of (l : list item) : list fkey :=
  flat_map (fun it => match it with IFk f => [f] | _ => [] end) l.
Definition checks_of (l : list item) : list check :=
  flat_map (fun it => match it with ICheck k => [k] | _ => [] end) l.

Definition parse_table (inp : str) : option table :=
  match strip kw_create inp with
  | Some r00 =>
   let '(tmp, r01) := p_flag kw_temporary r00 in
   match strip kw_table r01 with
   | Some r0 =>
    match p_qid r0 with
    | Some (name, r1) =>
      match strip kw_open r1 with
      | Some r2 =>
        match sep_list p_item kw_itemsep (List.length r2) r2 with
        | Some (its, r3) =>
          match strip kw_engine r3 with
          | Some r4 =>
            let ai := match strip kw_tautoinc r4 with
                      | Some r => match p_digits r with Some (n, r') => Some (Some n, r') | None => None end
                      | None => Some (None, r4)
                      end in
            match ai with
            | Some (oai, r5) =>
              match strip kw_tcharset r5 with
              | Some r6 =>
                let r7 := snd (span wordch r6) in
                match strip kw_tcollate r7 with
                | Some r8 =>
                  let '(w, r9) := span wordch r8 in
                  match find_coll w with
                  | Some tc =>
                    match strip kw_tcomment r9 with
                    | Some r10 =>
                      match scan 39 (Some unesc_comment) r10 with
                      | Some (cm, []) => Some (mktable tmp name (cols_of its) (pk_of its) (idx_of its) (fks_of its) (checks_of its) oai tc cm)
                      | _ => None
                      end
                    | None =>
                      match r9 with
                      | [] => Some (mktable tmp name (cols_of its) (pk_of its) (idx_of its) (fks_of its) (checks_of its) oai tc [])
                      | _ => None
                      end
                    end
                  | None => None
                  end
                | None => None
                end
              | None => None
              end
            | None => None
            end
          | None => None
          end
        | None => None
        end
      | None => None
      end
    | None => None
    end
   | None => None
   end
  | None => None
  end.

(* ---------- well-formed schemas (boolean, so that the correspondence can evaluate it) ---------- *)

Definition is_num (s : str) : bool := match s with [] => false | _ => forallb digitch s end.
Definition prec_ok (p : N) : bool := p <=? 6.
Definition no_quote_bs (s : str) : bool := forallb (fun c => negb (c =? 39) && negb (c =? 92)) s.
Definition no_quote (s : str) : bool := forallb (fun c => negb (c =? 39)) s.
Definition nonempty {A} (l : list A) : bool := match l with [] => false | _ => true end.

Definition wf_collsfx (tc : coll) (oc : option coll) : bool :=
  match oc with None => true | Some c => negb (coll_eqb c tc) end.

Definition wf_type (tc : coll) (t : ctype) : bool :=
  match t with
  | TyDecimal p s => is_num p && is_num s
  | TyChar n c | TyVarchar n c => is_num n && wf_collsfx tc c
  | TyText _ c => wf_collsfx tc c
  | TyBinary n | TyVarbinary n | TyBit n => is_num n
  | TyDatetime p | TyTimestamp p => prec_ok p
  | TyEnum vs c | TySet vs c => nonempty vs && wf_collsfx tc c
  | _ => true
  end.

Definition is_enum_or_set (t : ctype) : bool := match t with TyEnum _ _ | TySet _ _ => true | _ => false end.

Definition is_binary (t : ctype) : bool := match t with TyBinary _ | TyVarbinary _ | TyBlob _ => true | _ => false end.
Definition wf_expr (e : str) : bool := match bal 0 e with Some O => true | _ => false end.

Definition wf_def (t : ctype) (d : dflt) : bool :=
  match d with
  | DNull => true
  | DNow p => prec_ok p
  | DQuoted s => negb (is_enum_or_set t) && negb (is_binary t) && (lit_is_escaped t || no_quote_bs s)
  | DExpr e => wf_expr e
  | DBit b => nonempty b && forallb bitch b
  | DHex h => forallb hexch h
  end.

Definition wf_col (tc : coll) (c : column) : bool :=
  wf_type tc (cty c) &&
  (match cdef c with None => true | Some d => wf_def (cty c) d end) &&
  (match cgen c with None => true | Some (e, _) => wf_expr e && match cdef c with None => true | Some _ => false end end) &&
  (match conupd c with None => true | Some p => prec_ok p end).

Definition wf_icol (c : str * option str) : bool := match snd c with None => true | Some n => is_num n end.
Definition wf_idx (i : index) : bool := nonempty (icols i) && forallb wf_icol (icols i) && no_quote (icomment i).
Definition wf_fk (f : fkey) : bool := nonempty (fcols f) && nonempty (fpcols f).

Definition wf_check (k : check) : bool := wf_expr (kexpr k).

(* with a VIRTUAL generated column neither the checks nor the table comment are printed: such a schema is well-formed
   only without them *)
Definition wf_table (t : table) : bool :=
  nonempty (tcols t) && forallb (wf_col (tcoll t)) (tcols t) && forallb wf_idx (tidx t) && forallb wf_fk (tfks t) &&
  forallb wf_check (tchecks t) && (negb (existsb is_virtual (tcols t)) || negb (nonempty (tchecks t))) &&
  (negb (existsb is_virtual (tcols t)) || negb (nonempty (tcomment t))) && strs_eqb (shown_pk t) (tpk t) &&
  (match tautoinc t with None => true | Some n => is_num n end).
