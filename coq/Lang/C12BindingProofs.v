(* C12: the literal built for a typed binding and the literal parsed from the printed text denote the same value. *)
From Coq Require Import List ZArith NArith Bool String Ascii Decimal DecimalString DecimalZ DecimalPos Lia.
Import ListNotations.
From GMS Require Import Lang.C12Prepared Lang.C12PreparedProofs Lang.C12Binding.
Open Scope string_scope.
Open Scope Z_scope.

(* ---------- digits ---------- *)
Lemma to_int_nonnil z : int_digits (Z.to_int z) <> Nil.
Proof.
  destruct z as [|p|p]; cbn.
  - discriminate.
  - apply Unsigned.to_uint_nonnil.
  - apply Unsigned.to_uint_nonnil.
Qed.

Lemma parse_print_Z z : parse_Z (print_Z z) = Some z.
Proof.
  unfold parse_Z, print_Z. rewrite NilEmpty.isi.
  pose proof (to_int_nonnil z) as H. pose proof (DecimalZ.of_to z) as E.
  destruct (Z.to_int z) as [d|d]; cbn in H; destruct d; try congruence; rewrite <- E; reflexivity.
Qed.

(* a digit string starts with a digit and contains nothing but digits *)
Definition digit (c : ascii) : bool :=
  match NilEmpty.uint_of_string (String c EmptyString) with Some _ => true | None => false end.

Lemma digits_head d : d <> Nil -> exists c r, NilEmpty.string_of_uint d = String c r /\ digit c = true.
Proof. destruct d; intros H; try congruence; cbn; eexists; eexists; split; reflexivity. Qed.

Lemma has_e_digits d : has_e (NilEmpty.string_of_uint d) = false.
Proof. induction d; cbn; auto. Qed.

Lemma has_e_app a b : has_e (a ++ b) = has_e a || has_e b.
Proof. induction a as [|c a IH]; cbn; [reflexivity|]. rewrite IH. now rewrite !orb_assoc. Qed.

Lemma split_dot_digits d t :
  split_dot (NilEmpty.string_of_uint d ++ String "." t) = Some (NilEmpty.string_of_uint d, t).
Proof. induction d; cbn; try rewrite IHd; reflexivity. Qed.

Lemma split_dot_digits_none d : split_dot (NilEmpty.string_of_uint d) = None.
Proof. induction d; cbn; try rewrite IHd; reflexivity. Qed.

Lemma uint_of_string_dot d t : NilEmpty.uint_of_string (NilEmpty.string_of_uint d ++ String "." t) = None.
Proof.
  induction d; cbn [NilEmpty.string_of_uint append NilEmpty.uint_of_string]; try (rewrite IHd; reflexivity).
  destruct (NilEmpty.uint_of_string t); reflexivity.
Qed.

(* ---------- integers ---------- *)
Lemma scan_num_digits d : d <> Nil -> scan_num (NilEmpty.string_of_uint d) = Some (SInt (NilEmpty.string_of_uint d)).
Proof. intros H. unfold scan_num. rewrite NilEmpty.usu. destruct d; congruence. Qed.

Lemma scan_digits d : d <> Nil -> scan (NilEmpty.string_of_uint d) = Some (TE (SInt (NilEmpty.string_of_uint d))).
Proof.
  intros H. pose proof (scan_num_digits d H) as S.
  destruct d; try congruence; cbn [NilEmpty.string_of_uint] in *; unfold scan; cbn [Ascii.eqb Bool.eqb]; rewrite S; reflexivity.
Qed.

Lemma scan_print_Z z : scan (print_Z z) = Some (TE (SInt (print_Z z))).
Proof.
  unfold print_Z. pose proof (to_int_nonnil z) as H.
  destruct (Z.to_int z) as [d|d]; cbn [int_digits NilEmpty.string_of_int] in *.
  - apply scan_digits; assumption.
  - unfold scan. cbn [Ascii.eqb Bool.eqb]. rewrite scan_num_digits by assumption. reflexivity.
Qed.

Lemma convert_int_signed z : - two63 <= z < two63 -> denote_opt (convert_int (print_Z z)) = Some (VInt z).
Proof.
  intros H. unfold convert_int. rewrite parse_print_Z.
  destruct (- two63 <=? z) eqn:A; [|apply Z.leb_gt in A; lia].
  destruct (z <? two63) eqn:B; [|apply Z.ltb_ge in B; lia]. reflexivity.
Qed.

Lemma convert_int_unsigned z : 0 <= z < two64 -> denote_opt (convert_int (print_Z z)) = Some (VInt z).
Proof.
  intros H. unfold convert_int. rewrite parse_print_Z.
  destruct ((- two63 <=? z) && (z <? two63)); [reflexivity|].
  destruct (0 <=? z) eqn:A; [|apply Z.leb_gt in A; lia].
  destruct (z <? two64) eqn:B; [|apply Z.ltb_ge in B; lia]. reflexivity.
Qed.

(* ---------- decimals ---------- *)
Lemma dec_of_string_print i f :
  dec_of_string (print_dec i f) = Some (Z.of_int (app_int i f), N.of_nat (nb_digits f)).
Proof.
  unfold dec_of_string, print_dec. destruct i as [d|d]; cbn [NilEmpty.string_of_int append].
  - rewrite split_dot_digits. change (NilEmpty.string_of_uint d) with (NilEmpty.string_of_int (Pos d)).
    rewrite NilEmpty.isi, NilEmpty.usu. reflexivity.
  - cbn [split_dot Ascii.eqb Bool.eqb]. rewrite split_dot_digits.
    change (String "-" (NilEmpty.string_of_uint d)) with (NilEmpty.string_of_int (Neg d)).
    rewrite NilEmpty.isi, NilEmpty.usu. reflexivity.
Qed.

Lemma has_e_print_dec i f : has_e (print_dec i f) = false.
Proof.
  unfold print_dec. rewrite has_e_app. cbn [has_e Ascii.eqb Bool.eqb orb]. rewrite has_e_digits.
  destruct i; cbn [NilEmpty.string_of_int has_e Ascii.eqb Bool.eqb orb]; rewrite has_e_digits; reflexivity.
Qed.

Lemma convert_val_dec i f :
  convert_val (SFloat (print_dec i f)) = Some (LDec (Z.of_int (app_int i f)) (N.of_nat (nb_digits f)), TDecimalLit).
Proof.
  unfold convert_val. rewrite has_e_print_dec, dec_of_string_print.
  unfold print_dec. destruct i as [d|d]; cbn [NilEmpty.string_of_int append split_dot Ascii.eqb Bool.eqb];
    rewrite split_dot_digits, split_dot_digits_none; reflexivity.
Qed.

Lemma scan_num_dec d f : d <> Nil ->
  scan_num (print_dec (Pos d) f) = Some (SFloat (print_dec (Pos d) f)).
Proof.
  intros H. unfold scan_num, print_dec. cbn [NilEmpty.string_of_int].
  rewrite uint_of_string_dot, split_dot_digits, !NilEmpty.usu. destruct d; try congruence; reflexivity.
Qed.

Lemma of_int_neg d f : Z.of_int (app_int (Neg d) f) = - Z.of_int (app_int (Pos d) f).
Proof. reflexivity. Qed.

Lemma scan_digit_head c r : digit c = true -> scan (String c r) = option_map TE (scan_num (String c r)).
Proof.
  intros D. unfold scan.
  assert (N1 : Ascii.eqb c "N" = false) by (destruct (Ascii.eqb_spec c "N") as [->|]; [discriminate D|reflexivity]).
  assert (N2 : Ascii.eqb c "'" = false) by (destruct (Ascii.eqb_spec c "'") as [->|]; [discriminate D|reflexivity]).
  assert (N3 : Ascii.eqb c "-" = false) by (destruct (Ascii.eqb_spec c "-") as [->|]; [discriminate D|reflexivity]).
  rewrite N1, N2, N3. reflexivity.
Qed.

Lemma print_dec_head d f : d <> Nil -> exists c r, print_dec (Pos d) f = String c r /\ digit c = true.
Proof.
  intros H. destruct (digits_head d H) as [c [r [E D]]]. unfold print_dec. cbn [NilEmpty.string_of_int].
  rewrite E. cbn [append]. eexists; eexists; split; [reflexivity|exact D].
Qed.

Lemma scan_pos_dec d f : d <> Nil -> scan (print_dec (Pos d) f) = Some (TE (SFloat (print_dec (Pos d) f))).
Proof.
  intros H. destruct (print_dec_head d f H) as [c [r [E D]]].
  pose proof (scan_num_dec d f H) as S. rewrite E in *. rewrite scan_digit_head by exact D. rewrite S. reflexivity.
Qed.

Lemma scan_dec i f : int_digits i <> Nil ->
  denote_text (scan (print_dec i f)) = Some (VDec (Z.of_int (app_int i f)) (N.of_nat (nb_digits f))).
Proof.
  intros H. destruct i as [d|d]; cbn [int_digits] in H.
  - rewrite scan_pos_dec by exact H. cbn [denote_text]. rewrite convert_val_dec. reflexivity.
  - pose proof (scan_num_dec d f H) as S.
    unfold scan. unfold print_dec at 1. cbn [NilEmpty.string_of_int append Ascii.eqb Bool.eqb].
    change (NilEmpty.string_of_uint d ++ String "." (NilEmpty.string_of_uint f)) with (print_dec (Pos d) f).
    rewrite S. cbn [denote_text]. rewrite convert_val_dec. reflexivity.
Qed.

(* ---------- strings ---------- *)
Lemma unquote_esc s : unquote (esc s ++ "'") = Some s.
Proof.
  induction s as [|c s IH]; [reflexivity|].
  cbn [esc]. destruct (Ascii.eqb_spec c "'") as [->|N1].
  - cbn [append unquote Ascii.eqb Bool.eqb]. rewrite IH. reflexivity.
  - destruct (Ascii.eqb_spec c "\") as [->|N2].
    + cbn [append unquote Ascii.eqb Bool.eqb]. rewrite IH. reflexivity.
    + cbn [append unquote]. apply Ascii.eqb_neq in N1. apply Ascii.eqb_neq in N2. rewrite N1, N2, IH. reflexivity.
Qed.

Lemma scan_quoted s : scan (String "'" (esc s ++ "'")) = Some (TE (SStr s)).
Proof. unfold scan. cbn [Ascii.eqb Bool.eqb]. rewrite unquote_esc. reflexivity. Qed.

(* ---------- the three constructions agree ---------- *)
Theorem literal_of_binding_denotes (t : wtype) (p : pval) :
  compat t p = true -> wf p ->
  denote_opt (handler_lit (binding_of t p)) = Some (value_of p)
  /\ denote_text (scan (print p)) = Some (value_of p)
  /\ denote_opt (engine_lit (binding_of t p)) = Some (value_of p).
Proof.
  intros C W. destruct p as [|z|z|i f|s|s]; cbn [compat wf value_of print payload] in *.
  - destruct t; try discriminate C. repeat split; reflexivity.
  - split; [|split].
    + destruct t; try discriminate C; unfold handler_lit, binding_of, handler_ast; cbn [b_type b_val payload is_signed is_unsigned orb convert_val];
        apply convert_int_signed; assumption.
    + rewrite scan_print_Z. cbn [denote_text convert_val]. apply convert_int_signed; assumption.
    + destruct t; try discriminate C; unfold engine_lit, binding_of; cbn [b_type b_val payload is_signed];
        rewrite parse_print_Z;
        (destruct (- two63 <=? z) eqn:A; [|apply Z.leb_gt in A; lia]);
        (destruct (z <? two63) eqn:B; [|apply Z.ltb_ge in B; lia]); reflexivity.
  - split; [|split].
    + destruct t; try discriminate C; unfold handler_lit, binding_of, handler_ast; cbn [b_type b_val payload is_signed is_unsigned orb convert_val];
        apply convert_int_unsigned; assumption.
    + rewrite scan_print_Z. cbn [denote_text convert_val]. apply convert_int_unsigned; assumption.
    + destruct t; try discriminate C; unfold engine_lit, binding_of; cbn [b_type b_val payload is_signed is_unsigned];
        rewrite parse_print_Z;
        (destruct (0 <=? z) eqn:A; [|apply Z.leb_gt in A; lia]);
        (destruct (z <? two64) eqn:B; [|apply Z.ltb_ge in B; lia]); reflexivity.
  - destruct W as [Hi [Hf [Hs Hb]]]. destruct t; try discriminate C. split; [|split].
    + unfold handler_lit, binding_of, handler_ast. cbn [b_type b_val payload is_signed is_unsigned is_float orb].
      rewrite convert_val_dec. reflexivity.
    + apply scan_dec; assumption.
    + unfold engine_lit, binding_of. cbn [b_type b_val payload]. rewrite dec_of_string_print.
      destruct (N.of_nat (nb_digits f) <=? 30)%N eqn:A; [|apply N.leb_gt in A; lia].
      destruct (Z.abs (Z.of_int (app_int i f)) <? ten35 * pow10 (N.of_nat (nb_digits f))) eqn:B; [reflexivity|].
      apply Z.ltb_ge in B. lia.
  - split; [|split].
    + destruct t; try discriminate C; reflexivity.
    + rewrite scan_quoted. reflexivity.
    + destruct t; try discriminate C; reflexivity.
  - split; [|split].
    + destruct t; try discriminate C; reflexivity.
    + rewrite scan_quoted. reflexivity.
    + destruct t; try discriminate C; reflexivity.
Qed.

(* on the live path the binding IS the token the parser produces for the printed text (same bytes, same kind),
   except that a negative decimal is parsed as unary minus applied to the positive token *)
Definition neg_dec (p : pval) : bool := match p with PDec (Neg _) _ => true | _ => false end.

Theorem binding_ast_is_parsed_text (t : wtype) (p : pval) :
  compat t p = true -> wf p -> neg_dec p = false ->
  option_map TE (handler_ast (binding_of t p)) = scan (print p).
Proof.
  intros C W Ng. destruct p as [|z|z|i f|s|s]; cbn [compat wf print payload] in *.
  - destruct t; try discriminate C. reflexivity.
  - rewrite scan_print_Z. destruct t; try discriminate C; reflexivity.
  - rewrite scan_print_Z. destruct t; try discriminate C; reflexivity.
  - destruct i as [d|d]; [|discriminate Ng]. destruct W as [Hi _]. cbn [int_digits] in Hi.
    destruct t; try discriminate C. unfold handler_ast, binding_of. cbn [b_type b_val payload is_signed is_unsigned is_float orb option_map].
    rewrite scan_pos_dec by exact Hi. reflexivity.
  - rewrite scan_quoted. destruct t; try discriminate C; reflexivity.
  - rewrite scan_quoted. destruct t; try discriminate C; reflexivity.
Qed.

(* date / time / enum / json ... bindings reach the engine as the string literal of their text *)
Theorem quoted_binding_is_string_literal (t : wtype) (s : string) :
  is_quoted t = true -> handler_lit {| b_type := t; b_val := s |} = Some (LS s, TLongText).
Proof. destruct t; intros H; try discriminate H; reflexivity. Qed.

(* Bit and Expression bindings are rejected by the live path ("cannot convert value to AST") *)
Theorem unconvertible_bindings (s : string) :
  handler_lit {| b_type := WBit; b_val := s |} = None /\ handler_lit {| b_type := WExpression; b_val := s |} = None.
Proof. split; reflexivity. Qed.

(* ---------- lifted to evaluation ---------- *)
Definition typed := (wtype * pval)%type.
Definition typed_ok (tp : typed) : Prop := compat (fst tp) (snd tp) = true /\ wf (snd tp).

Lemma bound_values_eq tps :
  Forall typed_ok tps ->
  map (fun tp => bound_value (fst tp) (snd tp)) tps = map (fun tp => text_value (snd tp)) tps.
Proof.
  induction 1 as [|[t p] l [C W] _ IH]; [reflexivity|]. cbn [map fst snd] in *. f_equal; [|exact IH].
  destruct (literal_of_binding_denotes t p C W) as [A [B _]]. unfold bound_value, text_value. rewrite A, B. reflexivity.
Qed.

Theorem eval_typed_bindings_eq_eval_inlined_text tps r e :
  Forall typed_ok tps ->
  eval (map (fun tp => bound_value (fst tp) (snd tp)) tps) r e
  = eval [] r (subst (map (fun tp => text_value (snd tp)) tps) e).
Proof. intros H. rewrite <- (bound_values_eq tps H). apply eval_subst. Qed.

Theorem exec_typed_bindings_eq_exec_inlined_text tps s d :
  Forall typed_ok tps ->
  exec (map (fun tp => bound_value (fst tp) (snd tp)) tps) s d
  = exec [] (subst_stmt (map (fun tp => text_value (snd tp)) tps) s) d.
Proof. intros H. rewrite <- (bound_values_eq tps H). apply exec_subst. Qed.

Example binding_nonvacuous :
  let tps := [(WInt64, PInt (-5)); (WUint64, PUint 18446744073709551615); (WDecimal, PDec (Neg (D1 Nil)) (D2 (D5 Nil)));
              (WVarChar, PStr "a'b\c"); (WNull, PNull); (WInt8, PInt 7)] in
  Forall typed_ok tps
  /\ map (fun tp => print (snd tp)) tps = ["-5"; "18446744073709551615"; "-1.25"; "'a''b\\c'"; "NULL"; "7"]
  /\ map (fun tp => handler_lit (binding_of (fst tp) (snd tp))) tps
     = [Some (LZ (-5), TInt8); Some (LZ 18446744073709551615, TUint64); Some (LDec (-125) 2, TDecimalLit);
        Some (LS "a'b\c", TLongText); Some (LNil, TNull); Some (LZ 7, TInt8)]
  /\ map (fun tp => engine_lit (binding_of (fst tp) (snd tp))) tps
     = [Some (LZ (-5), TInt64); Some (LZ 18446744073709551615, TUint64); Some (LDec (-125) 2, TDecimalInternal);
        Some (LS "a'b\c", TString WVarChar 5); Some (LNil, TNull); Some (LZ 7, TInt64)]
  /\ map (fun tp => text_value (snd tp)) tps
     = [VInt (-5); VInt 18446744073709551615; VDec (-125) 2; VStr "a'b\c"; VNull; VInt 7].
Proof.
  cbv zeta. split; [|repeat split; vm_compute; reflexivity].
  repeat constructor; cbn; try (unfold two63, two64; lia); try discriminate; vm_compute; try reflexivity; intros; discriminate.
Qed.
