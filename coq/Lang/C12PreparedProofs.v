(* C12: the substitution lemma and its lifting to statements and histories. *)
From Coq Require Import List ZArith Bool.
Import ListNotations.
From GMS Require Import Lang.C12Prepared.

Lemma eval_atom_subst bs a : eval_atom bs a = eval_atom [] (subst_atom bs a).
Proof.
  destruct a as [v|k]; cbn; [reflexivity|].
  destruct (nth_error bs k) eqn:E; cbn; [reflexivity|]. destruct k; reflexivity.
Qed.

Lemma eval_atoms_subst bs l : eval_atoms bs l = eval_atoms [] (map (subst_atom bs) l).
Proof. induction l as [|a l IH]; cbn; [reflexivity|]. rewrite <- eval_atom_subst, <- IH. reflexivity. Qed.

Lemma nth_error_nil_none {A} k : @nth_error A [] k = None.
Proof. destruct k; reflexivity. Qed.

Theorem eval_subst bs r e : eval bs r e = eval [] r (subst bs e).
Proof.
  induction e; cbn [eval subst];
    try (rewrite <- ?IHe, <- ?IHe1, <- ?IHe2, <- ?IHe3; reflexivity).
  - (* Bind *) destruct (nth_error bs k) eqn:E; cbn; [reflexivity|]. rewrite nth_error_nil_none. reflexivity.
  - (* InList *) rewrite <- IHe, <- eval_atoms_subst. reflexivity.
Qed.

Lemma eval_list_subst bs r es : eval_list bs r es = eval_list [] r (map (subst bs) es).
Proof. induction es as [|e es IH]; cbn; [reflexivity|]. rewrite <- eval_subst, <- IH. reflexivity. Qed.

Lemma select_rows_subst bs proj w d :
  select_rows bs proj w d = select_rows [] (map (subst bs) proj) (subst bs w) d.
Proof.
  induction d as [|r d IH]; cbn; [reflexivity|].
  rewrite <- eval_subst, <- IH, <- eval_list_subst. reflexivity.
Qed.

Lemma update_rows_subst bs c e w d : update_rows bs c e w d = update_rows [] c (subst bs e) (subst bs w) d.
Proof. induction d as [|r d IH]; cbn; [reflexivity|]. rewrite <- !eval_subst, <- IH. reflexivity. Qed.

Lemma delete_rows_subst bs w d : delete_rows bs w d = delete_rows [] (subst bs w) d.
Proof. induction d as [|r d IH]; cbn; [reflexivity|]. rewrite <- eval_subst, <- IH. reflexivity. Qed.

Theorem exec_subst bs s d : exec bs s d = exec [] (subst_stmt bs s) d.
Proof.
  destruct s; cbn [exec subst_stmt].
  - rewrite <- select_rows_subst. reflexivity.
  - rewrite <- eval_list_subst. reflexivity.
  - rewrite <- update_rows_subst. reflexivity.
  - rewrite <- delete_rows_subst. reflexivity.
Qed.

Theorem history_subst q h d : run_prepared q h d = run_text (map (inline_step q) h) d.
Proof.
  revert d. induction h as [|st h IH]; intros d; cbn [run_prepared run_text map]; [reflexivity|].
  destruct st as [bs|s]; cbn [inline_step].
  - rewrite <- exec_subst. destruct (exec bs q d) as [[rs d']|]; rewrite IH; reflexivity.
  - destruct (exec [] s d) as [[rs d']|]; rewrite IH; reflexivity.
Qed.

(* a statement whose holes are all filled has no holes left: the inlined text is ordinary SQL *)
Fixpoint closed (e : expr) : bool :=
  match e with
  | Lit _ | Col _ => true
  | Bind _ => false
  | Add a b | Sub a b | Eq a b | Lt a b | Le a b | NsEq a b | And a b | Or a b => closed a && closed b
  | Not a | IsNull a => closed a
  | InList a l => closed a && forallb (fun x => match x with ALit _ => true | ABind _ => false end) l
  | Between a lo hi => closed a && closed lo && closed hi
  end.

Fixpoint holes_below (n : nat) (e : expr) : bool :=
  match e with
  | Lit _ | Col _ => true
  | Bind k => Nat.ltb k n
  | Add a b | Sub a b | Eq a b | Lt a b | Le a b | NsEq a b | And a b | Or a b => holes_below n a && holes_below n b
  | Not a | IsNull a => holes_below n a
  | InList a l => holes_below n a && forallb (fun x => match x with ALit _ => true | ABind k => Nat.ltb k n end) l
  | Between a lo hi => holes_below n a && holes_below n lo && holes_below n hi
  end.

Theorem subst_closed bs e : holes_below (length bs) e = true -> closed (subst bs e) = true.
Proof.
  induction e; cbn [holes_below subst closed]; intros H;
    repeat match goal with H : _ && _ = true |- _ => apply andb_prop in H; destruct H end;
    try (rewrite ?IHe, ?IHe1, ?IHe2, ?IHe3 by assumption; reflexivity).
  - apply Nat.ltb_lt in H. destruct (nth_error bs k) eqn:E; [reflexivity|].
    apply nth_error_None in E. exfalso. apply (Nat.lt_irrefl k). eapply Nat.lt_le_trans; eassumption.
  - rewrite IHe by assumption. cbn. rewrite forallb_forall in *. intros x Hx. apply in_map_iff in Hx.
    destruct Hx as [y [<- Hy]]. specialize (H0 y Hy). destruct y as [v|k]; cbn; [reflexivity|].
    apply Nat.ltb_lt in H0. destruct (nth_error bs k) eqn:E; [reflexivity|].
    apply nth_error_None in E. exfalso. apply (Nat.lt_irrefl k). eapply Nat.lt_le_trans; eassumption.
Qed.

Example nonvacuous_example :
  let q := Select [Col 0; Add (Col 1) (Bind 1)] (Or (Eq (Col 1) (Bind 0)) (InList (Col 0) [ABind 1; ALit VNull])) in
  let d := [[VInt 1; VInt 5]; [VInt 2; VNull]; [VInt 3; VInt 7]] in
  exec [VInt 5; VInt 3] q d = Some ([[VInt 1; VInt 8]; [VInt 3; VInt 10]], d)
  /\ subst_stmt [VInt 5; VInt 3] q =
     Select [Col 0; Add (Col 1) (Lit (VInt 3))] (Or (Eq (Col 1) (Lit (VInt 5))) (InList (Col 0) [ALit (VInt 3); ALit VNull])).
Proof. split; vm_compute; reflexivity. Qed.
