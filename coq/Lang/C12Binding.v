(* C12: from a typed wire binding to the literal the engine evaluates, next to the literal the parser builds for the
   text the inlining printer writes for the same value.

   Live path of this pin (binary protocol and API):
     vitess Conn.parseStmtArgs    : protocol type + binary value  ->  querypb.BindVariable{Type, Value = text}
                                    (all signed widths become Int64 text, all unsigned widths Uint64 text)
     server/handler.go bindingsToExprs : sqltypes.BindVariableToValue ; sqlparser.ExprFromValue   [handler_ast]
     planbuilder Builder.SetBindings   : buildScalar -> ConvertVal / convertInt                   [convert_val]
   engine.go bindingsToExprs (wire type => typed literal; only its unit test calls it in this pin)  [engine_lit]
   Text path: the printer of the driver (param.literal: digits, decimal text, quoted string with \ and ' escaped,
   NULL), the tokenizer's classification of one literal (scanNumber / scanString, unary minus folded into an
   integer token by the grammar) [scan], then the same ConvertVal. *)
From Coq Require Import List ZArith NArith Bool String Ascii Decimal DecimalString DecimalZ DecimalPos Lia.
Import ListNotations.
From GMS Require Import Lang.C12Prepared.
Open Scope string_scope.
Open Scope Z_scope.

(* ---------- wire types (querypb.Type) and their flags (sqltypes/type.go) ---------- *)
Inductive wtype :=
| WNull | WInt8 | WInt16 | WInt24 | WInt32 | WInt64 | WUint8 | WUint16 | WUint24 | WUint32 | WUint64
| WFloat32 | WFloat64 | WDecimal | WChar | WVarChar | WText | WBinary | WVarBinary | WBlob
| WDate | WDatetime | WTimestamp | WTime | WYear | WBit | WEnum | WSet | WJSON | WGeometry | WExpression.

Definition is_signed (t : wtype) : bool :=
  match t with WInt8 | WInt16 | WInt24 | WInt32 | WInt64 => true | _ => false end.
(* Type_YEAR carries ISINTEGRAL|ISUNSIGNED *)
Definition is_unsigned (t : wtype) : bool :=
  match t with WUint8 | WUint16 | WUint24 | WUint32 | WUint64 | WYear => true | _ => false end.
Definition is_float (t : wtype) : bool := match t with WFloat32 | WFloat64 => true | _ => false end.
(* ISQUOTED and not Bit *)
Definition is_quoted (t : wtype) : bool :=
  match t with
  | WChar | WVarChar | WText | WBinary | WVarBinary | WBlob | WDate | WDatetime | WTimestamp | WTime
  | WEnum | WSet | WJSON | WGeometry => true
  | _ => false
  end.

Record binding := { b_type : wtype; b_val : string }.

(* ---------- sqlparser.SQLVal / NullVal ---------- *)
Inductive sqlval :=
| SNull | SInt (s : string) | SFloat (s : string)
| SFloatE (s : string)   (* a FloatVal re-serialised in exponent notation; its value is not interpreted here *)
| SStr (s : string).

(* server/handler.go bindingsToExprs = ExprFromValue (BindVariableToValue bv); None = "cannot convert value to AST" *)
Definition handler_ast (b : binding) : option sqlval :=
  let t := b_type b in
  if match t with WNull => true | _ => false end then Some SNull
  else if is_signed t || is_unsigned t then Some (SInt (b_val b))
  else if is_float t then Some (SFloatE (b_val b))
  else if match t with WDecimal => true | _ => false end then Some (SFloat (b_val b))
  else if is_quoted t then Some (SStr (b_val b))
  else None.

(* ---------- literals of the engine ---------- *)
Inductive ltype :=
| TInt8 | TUint8 | TInt16 | TUint16 | TInt32 | TUint32 | TInt64 | TUint64 | TFloat64
| TDecimalInternal | TDecimalLit | TLongText
| TString (w : wtype) (len : N) | TBinary (w : wtype) (len : N)
| TDatetime (w : wtype) (precision : N) | TTime | TYear | TBit64 | TNull.

Inductive lval := LNil | LZ (z : Z) | LDec (u : Z) (s : N) | LS (s : string) | LOpaque (s : string).
Definition lit : Type := (lval * ltype)%type.

(* strconv.ParseInt / ParseUint on decimal text: an optional '-' and at least one digit *)
Definition parse_Z (s : string) : option Z :=
  match NilEmpty.int_of_string s with
  | Some (Pos Nil) | Some (Neg Nil) | None => None
  | Some d => Some (Z.of_int d)
  end.

Definition two63 : Z := 9223372036854775808.
Definition two64 : Z := 18446744073709551616.
Definition ten35 : Z := 100000000000000000000000000000000000.

(* Builder.convertInt: the smallest of int8, uint8, int16, uint16, int32, uint32, int64, then uint64, then DECIMAL(65,30) *)
Definition smallest_int (z : Z) : ltype :=
  if z <? 0 then
    if -128 <=? z then TInt8 else if -32768 <=? z then TInt16 else if -2147483648 <=? z then TInt32 else TInt64
  else
    if z <? 128 then TInt8 else if z <? 256 then TUint8 else if z <? 32768 then TInt16 else if z <? 65536 then TUint16
    else if z <? 2147483648 then TInt32 else if z <? 4294967296 then TUint32 else TInt64.

Definition convert_int (s : string) : option lit :=
  match parse_Z s with
  | None => None
  | Some z =>
      if (- two63 <=? z) && (z <? two63) then Some (LZ z, smallest_int z)
      else if (0 <=? z) && (z <? two64) then Some (LZ z, TUint64)   (* >= 2^63: the narrower masks never match *)
      else if Z.abs z <? ten35 then Some (LDec z 0, TDecimalInternal) else None
  end.

Fixpoint has_e (s : string) : bool :=
  match s with
  | EmptyString => false
  | String c r => Ascii.eqb c "e" || Ascii.eqb c "E" || has_e r
  end.

(* the text before and after the first '.' *)
Fixpoint split_dot (s : string) : option (string * string) :=
  match s with
  | EmptyString => None
  | String c r =>
      if Ascii.eqb c "." then Some (EmptyString, r)
      else match split_dot r with Some (a, b) => Some (String c a, b) | None => None end
  end.

(* apd.NewFromString on sign, digits, one '.', digits: coefficient and scale as written *)
Definition dec_of_string (s : string) : option (Z * N) :=
  match split_dot s with
  | Some (i, f) =>
      match NilEmpty.int_of_string i, NilEmpty.uint_of_string f with
      | Some di, Some df => Some (Z.of_int (app_int di df), N.of_nat (nb_digits df))
      | _, _ => None
      end
  | None => None
  end.

(* Builder.ConvertVal (StrVal, IntVal, FloatVal) and buildScalar on NullVal *)
Definition convert_val (v : sqlval) : option lit :=
  match v with
  | SNull => Some (LNil, TNull)
  | SStr s => Some (LS s, TLongText)
  | SInt s => convert_int s
  | SFloatE s => Some (LOpaque s, TFloat64)
  | SFloat s =>
      if has_e s then Some (LOpaque s, TFloat64)
      else match split_dot s with
           | Some (_, f) =>
               match split_dot f with
               | Some _ => convert_int s                      (* more than one '.': len(ps) <> 2 *)
               | None => match dec_of_string s with
                         | Some (u, sc) => Some (LDec u sc, TDecimalLit)
                         | None => Some (LS s, TLongText)
                         end
               end
           | None => convert_int s
           end
  end.

Definition handler_lit (b : binding) : option lit :=
  match handler_ast b with Some v => convert_val v | None => None end.

(* types.CreateString on TEXT / BLOB: the byte length selects TINY / plain / MEDIUM / LONG, the character length is
   that class divided by the widest character of the character set (4 for utf8mb4, 1 for binary) *)
Definition text_class (n cs : N) : N :=
  (if n <=? 255 then 255 / cs else if n <=? 65535 then 65535 / cs
   else if n <=? 16777215 then 16777215 / cs else 4294967295 / cs)%N.

(* engine.go bindingsToExprs; None = an error (ParseInt / ParseUint range, unsupported type).  ParseInt is called
   with base 0 there (0x.., 0b.., underscores are accepted too); payloads written by vitess are plain decimal. *)
Definition engine_lit (b : binding) : option lit :=
  let t := b_type b in let s := b_val b in
  match t with
  | WYear => Some (LOpaque s, TYear)
  | WNull => Some (LNil, TNull)
  | WDecimal =>
      match dec_of_string s with
      | Some (u, sc) =>
          if (sc <=? 30)%N then (if Z.abs u <? ten35 * pow10 sc then Some (LDec u sc, TDecimalInternal) else None)
          else Some (LOpaque s, TDecimalInternal)               (* rounded to 30 places: not interpreted here *)
      | None => None
      end
  | WBit => Some (LOpaque s, TBit64)
  | WBlob => Some (LS s, TBinary t (text_class (N.of_nat (String.length s)) 1))
  | WVarBinary | WBinary => Some (LS s, TBinary t (N.of_nat (String.length s)))
  | WText => Some (LS s, TString t (text_class (N.of_nat (String.length s)) 4))
  | WVarChar | WChar => Some (LS s, TString t (N.of_nat (String.length s)))
  | WDate => Some (LOpaque s, TDatetime t 0)
  | WDatetime | WTimestamp => Some (LOpaque s, TDatetime t 6)
  | WTime => Some (LOpaque s, TTime)
  | _ =>
      if is_signed t then
        match parse_Z s with
        | Some z => if (- two63 <=? z) && (z <? two63) then Some (LZ z, TInt64) else None
        | None => None
        end
      else if is_unsigned t then
        match parse_Z s with
        | Some z => if (0 <=? z) && (z <? two64) then Some (LZ z, TUint64) else None
        | None => None
        end
      else if is_float t then Some (LOpaque s, TFloat64)
      else None
  end.

(* the value a literal evaluates to (Literal.Eval returns its value); None = a kind this model does not interpret *)
Definition denote (l : lit) : option val :=
  match fst l with
  | LNil => Some VNull
  | LZ z => Some (VInt z)
  | LDec u s => Some (VDec u s)
  | LS s => Some (VStr s)
  | LOpaque _ => None
  end.

Definition denote_opt (l : option lit) : option val := match l with Some x => denote x | None => None end.

(* ---------- the text path ---------- *)
(* a literal as the parser hands it to the planbuilder: a value token, or unary minus applied to one *)
Inductive texpr := TE (v : sqlval) | TENeg (v : sqlval).

(* Tokenizer.scanString with delimiter ': decoded escape of \c *)
Definition unescape (c : ascii) : string :=
  if Ascii.eqb c "n" then String (ascii_of_nat 10) EmptyString
  else if Ascii.eqb c "t" then String (ascii_of_nat 9) EmptyString
  else if Ascii.eqb c "r" then String (ascii_of_nat 13) EmptyString
  else if Ascii.eqb c "0" then String (ascii_of_nat 0) EmptyString
  else if Ascii.eqb c "b" then String (ascii_of_nat 8) EmptyString
  else if Ascii.eqb c "Z" then String (ascii_of_nat 26) EmptyString
  else if Ascii.eqb c "%" || Ascii.eqb c "_" then String "\" (String c EmptyString)
  else String c EmptyString.

(* the text after the opening quote, up to and including the closing quote *)
Fixpoint unquote (r : string) : option string :=
  match r with
  | EmptyString => None
  | String c r1 =>
      if Ascii.eqb c "'" then
        match r1 with
        | EmptyString => Some EmptyString
        | String c2 r2 => if Ascii.eqb c2 "'" then option_map (String "'") (unquote r2) else None
        end
      else if Ascii.eqb c "\" then
        match r1 with
        | EmptyString => None
        | String c2 r2 => option_map (append (unescape c2)) (unquote r2)
        end
      else option_map (String c) (unquote r1)
  end.

(* Tokenizer.scanNumber on a whole token: digits, or digits '.' digits *)
Definition scan_num (s : string) : option sqlval :=
  match NilEmpty.uint_of_string s with
  | Some Nil => None
  | Some _ => Some (SInt s)
  | None =>
      match split_dot s with
      | Some (i, f) =>
          match NilEmpty.uint_of_string i, NilEmpty.uint_of_string f with
          | Some Nil, Some Nil => None
          | Some _, Some _ => Some (SFloat s)
          | _, _ => None
          end
      | None => None
      end
  end.

(* one literal: NULL, a quoted string, a number, '-' number (sql.y: "'-' value_expression" folds the sign into an
   IntVal token and wraps every other operand in UnaryExpr) *)
Definition scan (s : string) : option texpr :=
  match s with
  | EmptyString => None
  | String c r =>
      if Ascii.eqb c "N" then (if String.eqb s "NULL" then Some (TE SNull) else None)
      else if Ascii.eqb c "'" then option_map (fun x => TE (SStr x)) (unquote r)
      else if Ascii.eqb c "-" then
        match scan_num r with
        | Some (SInt d) => Some (TE (SInt (String "-" d)))
        | Some v => Some (TENeg v)
        | None => None
        end
      else option_map TE (scan_num s)
  end.

(* -x on a literal: expression.UnaryMinus.Eval *)
Definition neg_val (v : val) : option val :=
  match v with
  | VNull => Some VNull
  | VInt z => Some (VInt (- z))
  | VDec u s => Some (VDec (- u) s)
  | VStr _ => None
  end.

Definition denote_text (t : option texpr) : option val :=
  match t with
  | Some (TE v) => denote_opt (convert_val v)
  | Some (TENeg v) => match denote_opt (convert_val v) with Some x => neg_val x | None => None end
  | None => None
  end.

(* ---------- parameter values and the inlining printer ---------- *)
Inductive pval :=
| PNull
| PInt (z : Z)                               (* a signed integer argument *)
| PUint (z : Z)                              (* an unsigned integer argument *)
| PDec (i : Decimal.int) (f : Decimal.uint)  (* decimal text: sign and integer digits, fraction digits as written *)
| PStr (s : string)
| PBytes (s : string).

Definition print_Z (z : Z) : string := NilEmpty.string_of_int (Z.to_int z).
Definition print_dec (i : Decimal.int) (f : Decimal.uint) : string :=
  NilEmpty.string_of_int i ++ String "." (NilEmpty.string_of_uint f).

Fixpoint esc (s : string) : string :=
  match s with
  | EmptyString => EmptyString
  | String c r =>
      if Ascii.eqb c "'" then String "'" (String "'" (esc r))
      else if Ascii.eqb c "\" then String "\" (String "\" (esc r))
      else String c (esc r)
  end.

(* the text written into the statement (harness param.literal) *)
Definition print (p : pval) : string :=
  match p with
  | PNull => "NULL"
  | PInt z | PUint z => print_Z z
  | PDec i f => print_dec i f
  | PStr s | PBytes s => String "'" (esc s ++ "'")
  end.

(* the payload of the BindVariable (vitess writes integers with strconv.AppendInt / AppendUint, other kinds verbatim) *)
Definition payload (p : pval) : string :=
  match p with
  | PNull => EmptyString
  | PInt z | PUint z => print_Z z
  | PDec i f => print_dec i f
  | PStr s | PBytes s => s
  end.

Definition binding_of (t : wtype) (p : pval) : binding := {| b_type := t; b_val := payload p |}.

(* which wire types may carry which argument *)
Definition compat (t : wtype) (p : pval) : bool :=
  match p with
  | PNull => match t with WNull => true | _ => false end
  | PInt _ => is_signed t
  | PUint _ => match t with WUint8 | WUint16 | WUint24 | WUint32 | WUint64 => true | _ => false end
  | PDec _ _ => match t with WDecimal => true | _ => false end
  | PStr _ => match t with WChar | WVarChar | WText => true | _ => false end
  | PBytes _ => match t with WBinary | WVarBinary | WBlob => true | _ => false end
  end.

Definition int_digits (i : Decimal.int) : Decimal.uint := match i with Pos d | Neg d => d end.

Definition wf (p : pval) : Prop :=
  match p with
  | PInt z => (- two63 <= z < two63)%Z
  | PUint z => (0 <= z < two64)%Z
  | PDec i f =>
      int_digits i <> Nil /\ f <> Nil /\ (N.of_nat (nb_digits f) <= 30)%N /\
      (Z.abs (Z.of_int (app_int i f)) < ten35 * pow10 (N.of_nat (nb_digits f)))%Z
  | _ => True
  end.

Definition value_of (p : pval) : val :=
  match p with
  | PNull => VNull
  | PInt z | PUint z => VInt z
  | PDec i f => VDec (Z.of_int (app_int i f)) (N.of_nat (nb_digits f))
  | PStr s | PBytes s => VStr s
  end.

(* what the statement evaluates with, on either side *)
Definition bound_value (t : wtype) (p : pval) : val :=
  match denote_opt (handler_lit (binding_of t p)) with Some v => v | None => VNull end.
Definition text_value (p : pval) : val :=
  match denote_text (scan (print p)) with Some v => v | None => VNull end.
