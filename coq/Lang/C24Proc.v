(* C24 -- stored procedures: source AST with a structured big-step semantics (the definition), [compile] mirroring
   procedures.ConvertStmt / resolveGoToIndexes (sql/procedures/parse.go) in its results, and the machine mirroring
   procedures.Call / execOp (sql/procedures/interpreter_logic.go): counter pre-increment, If jumping to Index-1,
   Goto walking over intervening ScopeBegin/ScopeEnd to push/pop scopes. *)
From Coq Require Import List ZArith NArith Bool Lia.
Import ListNotations.
Open Scope Z_scope.

Definition val := option Z.            (* None = SQL NULL *)
Definition label := N.                 (* 0 = no label *)

Inductive binop := Add | Sub | Mul | Lt | Le | Eq | Ne.

Inductive expr :=
| EConst (z : Z) | ENull
| EVar (x : N)            (* local variable or parameter *)
| EUser (u : N)           (* @user variable *)
| EBin (o : binop) (a b : expr)
| ENot (a : expr)
| EIsNull (a : expr).

Inductive hkind := HExit | HContinue.
(* the statement of a handler: only single assignments are modelled *)
Inductive hstmt := HSet (x : N) (e : expr) | HSetUser (u : N) (e : expr).

Inductive stmt :=
| SHandler (k : hkind) (h : hstmt)      (* DECLARE EXIT|CONTINUE HANDLER FOR SQLEXCEPTION h *)
| SRaise (dup : bool)                   (* SIGNAL SQLSTATE '45000'  /  a duplicate-key INSERT *)
| SSkip
| SSeq (a b : stmt)
| SDeclare (x : N) (v : val)            (* DECLARE x INT DEFAULT v *)
| SSet (x : N) (e : expr)               (* SET x = e *)
| SSetUser (u : N) (e : expr)           (* SET @u = e *)
| SBlock (l : label) (body : stmt)      (* [l:] BEGIN body END *)
| SIf (c : expr) (th el : stmt)
| SWhile (l : label) (c : expr) (body : stmt)
| SRepeat (l : label) (body : stmt) (c : expr)
| SLoop (l : label) (body : stmt)
| SLeave (l : label)
| SIterate (l : label).

(* ---------- state ---------- *)
Definition scope := list (N * val).
(* a registered handler; the number is the operation counter of its DECLARE in the machine and the depth of its
   declaring block in the definition *)
Definition handler := (hkind * hstmt * Z)%type.
Record state := mkState { scopes : list scope; hscopes : list (list handler); params : scope; users : scope }.

Fixpoint assocN (k : N) (l : scope) : option val :=
  match l with [] => None | (k', v) :: r => if N.eqb k k' then Some v else assocN k r end.

Fixpoint setN (k : N) (v : val) (l : scope) : scope :=
  match l with [] => [(k, v)] | (k', v') :: r => if N.eqb k k' then (k, v) :: r else (k', v') :: setN k v r end.

Fixpoint lookup_scopes (k : N) (ss : list scope) : option val :=
  match ss with [] => None | s :: r => match assocN k s with Some v => Some v | None => lookup_scopes k r end end.

Fixpoint set_scopes (k : N) (v : val) (ss : list scope) : option (list scope) :=
  match ss with
  | [] => None
  | s :: r => match assocN k s with
              | Some _ => Some (setN k v s :: r)
              | None => match set_scopes k v r with Some r' => Some (s :: r') | None => None end
              end
  end.

(* GetVariable, then the session's stored-procedure parameters *)
Definition get_var (st : state) (x : N) : option val :=
  match lookup_scopes x (scopes st) with Some v => Some v | None => assocN x (params st) end.

Definition set_var (st : state) (x : N) (v : val) : option state :=
  match set_scopes x v (scopes st) with
  | Some ss => Some (mkState ss (hscopes st) (params st) (users st))
  | None => match assocN x (params st) with
            | Some _ => Some (mkState (scopes st) (hscopes st) (setN x v (params st)) (users st))
            | None => None
            end
  end.

Definition declare_var (st : state) (x : N) (v : val) : state :=
  match scopes st with
  | s :: r => mkState (setN x v s :: r) (hscopes st) (params st) (users st)
  | [] => st
  end.

(* NewHandler appends to the handlers of the current scope *)
Definition declare_handler (st : state) (h : handler) : state :=
  match hscopes st with
  | s :: r => mkState (scopes st) ((s ++ [h]) :: r) (params st) (users st)
  | [] => st
  end.

Definition push_scope (st : state) : state := mkState ([] :: scopes st) ([] :: hscopes st) (params st) (users st).
Definition pop_scope (st : state) : state := mkState (tl (scopes st)) (tl (hscopes st)) (params st) (users st).
Definition set_user (st : state) (u : N) (v : val) : state :=
  mkState (scopes st) (hscopes st) (params st) (setN u v (users st)).

Definition b2v (b : bool) : val := Some (if b then 1 else 0).

Definition eval_bin (o : binop) (a b : val) : val :=
  match a, b with
  | Some x, Some y =>
      match o with
      | Add => Some (x + y) | Sub => Some (x - y) | Mul => Some (x * y)
      | Lt => b2v (x <? y) | Le => b2v (x <=? y) | Eq => b2v (x =? y) | Ne => b2v (negb (x =? y))
      end
  | _, _ => None
  end.

(* None = error (unknown variable) *)
Fixpoint eval (st : state) (e : expr) : option val :=
  match e with
  | EConst z => Some (Some z)
  | ENull => Some None
  | EVar x => get_var st x
  | EUser u => Some (match assocN u (users st) with Some v => v | None => None end)
  | EBin o a b => match eval st a, eval st b with Some x, Some y => Some (eval_bin o x y) | _, _ => None end
  | ENot a => match eval st a with
              | Some (Some z) => Some (b2v (z =? 0)) | Some None => Some None | None => None end
  | EIsNull a => match eval st a with Some (Some _) => Some (b2v false) | Some None => Some (b2v true) | None => None end
  end.

(* a condition holds iff it is neither NULL nor 0 *)
Definition truthy (v : val) : bool := match v with Some z => negb (z =? 0) | None => false end.

(* ---------- structured semantics (the definition) ---------- *)
Inductive outcome := ONormal | OLeave (l : label) | OIter (l : label) | OExit (depth : Z) | OErr | ONoFuel.

Definition run_hstmt (st : state) (h : hstmt) : option state :=
  match h with
  | HSet x e => match eval st e with Some v => set_var st x v | None => None end
  | HSetUser u e => match eval st e with Some v => Some (set_user st u v) | None => None end
  end.

(* the most local handler: the last one declared in the innermost block that has any *)
Fixpoint nearest_handler (hs : list (list handler)) : option handler :=
  match hs with
  | [] => None
  | s :: r => match rev s with h :: _ => Some h | [] => nearest_handler r end
  end.

Definition depth_of (st : state) : Z := Z.of_nat (length (scopes st)).

Definition raise (st : state) : outcome * state :=
  match nearest_handler (hscopes st) with
  | None => (OErr, st)
  | Some (k, h, d) =>
      match run_hstmt st h with
      | None => (OErr, st)
      | Some st' => match k with HContinue => (ONormal, st') | HExit => (OExit d, st') end
      end
  end.

Definition lbl_match (l l' : label) : bool := negb (N.eqb l 0) && N.eqb l l'.

Fixpoint exec (fuel : nat) (s : stmt) (st : state) : outcome * state :=
  match fuel with
  | O => (ONoFuel, st)
  | S f =>
    match s with
    | SHandler k h => (ONormal, declare_handler st (k, h, depth_of st))
    | SRaise _ => raise st
    | SSkip => (ONormal, st)
    | SSeq a b => match exec f a st with (ONormal, st1) => exec f b st1 | r => r end
    | SDeclare x v => (ONormal, declare_var st x v)
    | SSet x e => match eval st e with
                  | Some v => match set_var st x v with Some st' => (ONormal, st') | None => (OErr, st) end
                  | None => (OErr, st)
                  end
    | SSetUser u e => match eval st e with Some v => (ONormal, set_user st u v) | None => (OErr, st) end
    | SBlock l body =>
        match exec f body (push_scope st) with
        | (OLeave l', st1) => if lbl_match l l' then (ONormal, pop_scope st1) else (OLeave l', pop_scope st1)
        | (OExit d, st1) => (* an EXIT handler declared in this block ends the block *)
            if d =? depth_of (push_scope st) then (ONormal, pop_scope st1) else (OExit d, pop_scope st1)
        | (o, st1) => (o, pop_scope st1)
        end
    | SIf c th el => match eval st c with
                     | Some v => if truthy v then exec f th st else exec f el st
                     | None => (OErr, st)
                     end
    | SWhile l c body =>
        match eval st c with
        | None => (OErr, st)
        | Some v =>
          if truthy v then
            match exec f body st with
            | (ONormal, st1) => exec f (SWhile l c body) st1
            | (OIter l', st1) => if lbl_match l l' then exec f (SWhile l c body) st1 else (OIter l', st1)
            | (OLeave l', st1) => if lbl_match l l' then (ONormal, st1) else (OLeave l', st1)
            | r => r
            end
          else (ONormal, st)
        end
    | SRepeat l body c =>
        let after st1 :=
          match eval st1 c with
          | None => (OErr, st1)
          | Some v => if truthy v then (ONormal, st1) else exec f (SRepeat l body c) st1
          end in
        match exec f body st with
        | (ONormal, st1) => after st1
        | (OIter l', st1) => if lbl_match l l' then after st1 else (OIter l', st1)
        | (OLeave l', st1) => if lbl_match l l' then (ONormal, st1) else (OLeave l', st1)
        | r => r
        end
    | SLoop l body =>
        match exec f body st with
        | (ONormal, st1) => exec f (SLoop l body) st1
        | (OIter l', st1) => if lbl_match l l' then exec f (SLoop l body) st1 else (OIter l', st1)
        | (OLeave l', st1) => if lbl_match l l' then (ONormal, st1) else (OLeave l', st1)
        | r => r
        end
    | SLeave l => (OLeave l, st)
    | SIterate l => (OIter l, st)
    end
  end.

(* ---------- operations ---------- *)
Inductive op :=
| OpHandler (k : hkind) (h : hstmt)         (* OpCode_Declare with a handler *)
| OpRaise (dup : bool)                      (* OpCode_Signal / OpCode_Execute of the failing INSERT *)
| OpSet (x : N) (e : expr)
| OpExecUser (u : N) (e : expr)             (* OpCode_Execute of SET @u = e *)
| OpDeclare (x : N) (v : val)
| OpIf (c : expr) (idx : Z)
| OpGoto (target : label) (idx : Z)
| OpScopeBegin (l : label) (idx : Z)
| OpScopeEnd (l : label) (idx : Z).

(* ---------- compile: ConvertStmt ---------- *)
(* the compile-time InterpreterStack: BEGIN pushes a scope that is NEVER popped; REPEAT/LOOP register their label in
   the top scope; ITERATE reads it through the whole stack (so labels of finished loops stay visible) *)
Definition lstack := list (list (label * Z)).

Fixpoint assocL (k : label) (l : list (label * Z)) : option Z :=
  match l with [] => None | (k', v) :: r => if N.eqb k k' then Some v else assocL k r end.

Fixpoint get_label (k : label) (ls : lstack) : Z :=
  match ls with [] => -1 | s :: r => match assocL k s with Some i => i | None => get_label k r end end.

Definition new_label (k : label) (i : Z) (ls : lstack) : lstack :=
  match ls with
  | s :: r => ((k, i) :: s) :: r
  | [] => []
  end.

(* resolveGoToIndexes on a code fragment *)
Definition resolve (l : label) (loop_start loop_end : Z) (code : list op) : list op :=
  if N.eqb l 0 then code else
  map (fun o => match o with
                | OpGoto t idx =>
                    if N.eqb t l then
                      if idx =? -1 then OpGoto t loop_start
                      else if idx =? -2 then OpGoto t loop_end else o
                    else o
                | _ => o
                end) code.

Definition zlen {A} (l : list A) : Z := Z.of_nat (length l).

(* [compile ls base s] = the operations ConvertStmt appends for [s] when the op list has length base, and the label stack after *)
Fixpoint compile (ls : lstack) (base : Z) (s : stmt) : list op * lstack :=
  match s with
  | SHandler k h => ([OpHandler k h], ls)
  | SRaise d => ([OpRaise d], ls)
  | SSkip => ([], ls)
  | SSeq a b => let '(ca, ls1) := compile ls base a in
                let '(cb, ls2) := compile ls1 (base + zlen ca) b in (ca ++ cb, ls2)
  | SDeclare x v => ([OpDeclare x v], ls)
  | SSet x e => ([OpSet x e], ls)
  | SSetUser u e => ([OpExecUser u e], ls)
  | SBlock l body =>
      let '(cb, ls1) := compile ([] :: ls) (base + 1) body in
      let start_idx := base + 1 in
      let end_idx := base + 1 + zlen cb + 1 in
      (* the resolved range [startOp.Index, endOp.Index) holds the body and the ScopeEnd *)
      (OpScopeBegin l start_idx :: resolve l start_idx end_idx (cb ++ [OpScopeEnd l end_idx]), ls1)
  | SIf c th el =>
      let '(ct, ls1) := compile ls (base + 1) th in
      let else_start := base + 1 + zlen ct + 1 in
      let '(ce, ls2) := compile ls1 else_start el in
      (OpIf c else_start :: ct ++ [OpGoto 0%N (else_start + zlen ce)] ++ ce, ls2)
  | SWhile l c body =>
      let '(cb, ls1) := compile ls (base + 1) body in
      let loop_end := base + 1 + zlen cb + 1 in
      (resolve l base loop_end (OpIf c loop_end :: cb ++ [OpGoto 0%N base]), ls1)
  | SRepeat l body c =>
      let '(c1, ls1) := compile ls base body in
      let loop_start := base + zlen c1 in
      let ls2 := if N.eqb l 0 then ls1 else new_label l loop_start ls1 in
      let '(c2, ls3) := compile ls2 (loop_start + 1) body in
      let loop_end := loop_start + 1 + zlen c2 + 1 in
      (resolve l loop_start loop_end (c1 ++ OpIf (ENot c) loop_end :: c2 ++ [OpGoto 0%N loop_start]), ls3)
  | SLoop l body =>
      let ls1 := if N.eqb l 0 then ls else new_label l base ls in
      let '(cb, ls2) := compile ls1 base body in
      let loop_end := base + zlen cb + 1 in
      (resolve l base loop_end (cb ++ [OpGoto l base]), ls2)
  | SIterate l => ([OpGoto l (get_label l ls)], ls)
  | SLeave l => ([OpGoto l (-2)], ls)
  end.

(* procedures.Parse: a fresh InterpreterStack has one scope *)
Definition parse (s : stmt) : list op := fst (compile [[]] 0 s).

(* ---------- the machine: Call / execOp ---------- *)
(* MStale: an operation read a variable that is not in scope.  replaceVariablesInExpr then leaves the ColName node as it
   is, still carrying the value an EARLIER evaluation of the same AST node stored in it (or fails with "column not found"
   if there was none): the run has left the modelled territory; it only happens after a jump to a wrong place. *)
Inductive mres := MDone (st : state) | MErr | MPanic | MNoFuel | MStale.

Definition scope_effect_fwd (o : option op) (st : state) : state :=
  match o with
  | Some (OpScopeBegin _ _) => push_scope st
  | Some (OpScopeEnd _ _) => pop_scope st
  | _ => st
  end.

Definition scope_effect_bwd (o : option op) (st : state) : state :=
  match o with
  | Some (OpScopeBegin _ _) => pop_scope st
  | Some (OpScopeEnd _ _) => push_scope st
  | _ => st
  end.

Definition nth_op (ops : list op) (i : Z) : option op :=
  if i <? 0 then None else nth_error ops (Z.to_nat i).

(* for ; counter < target; counter++ { effect(statements[counter]) } -- [n] bounds the number of iterations *)
Fixpoint walk_fwd (ops : list op) (n : nat) (counter target : Z) (st : state) : option (Z * state) :=
  if counter <? target then
    match n with
    | O => None
    | S n' => match nth_op ops counter with
              | None => None                                   (* index out of range: Go panics *)
              | Some o => walk_fwd ops n' (counter + 1) target (scope_effect_fwd (Some o) st)
              end
    end
  else Some (counter, st).

(* for ; counter > target; counter-- { effect(statements[counter]) } *)
Fixpoint walk_bwd (ops : list op) (n : nat) (counter target : Z) (st : state) : option (Z * state) :=
  if counter >? target then
    match n with
    | O => None
    | S n' => match nth_op ops counter with
              | None => None
              | Some o => walk_bwd ops n' (counter - 1) target (scope_effect_bwd (Some o) st)
              end
    end
  else Some (counter, st).

Inductive sres := SOk (counter : Z) (st : state) | SErr | SPanic | SStale.

(* execOp: returns the new counter (the caller increments it) *)
Definition exec_op (ops : list op) (counter : Z) (o : op) (st : state) : sres :=
  match o with
  | OpHandler k h => SOk counter (declare_handler st (k, h, counter))
  | OpRaise _ => SErr
  | OpSet x e => match eval st e with
                 | Some v => match set_var st x v with Some st' => SOk counter st' | None => SErr end
                 | None => SStale
                 end
  | OpExecUser u e => match eval st e with Some v => SOk counter (set_user st u v) | None => SStale end
  | OpDeclare x v => SOk counter (declare_var st x v)
  | OpIf c idx => match eval st c with
                  | Some v => if truthy v then SOk counter st else SOk (idx - 1) st
                  | None => SStale
                  end
  | OpGoto _ idx =>
      let n := S (length ops + Z.to_nat (Z.abs idx) + Z.to_nat (Z.abs counter)) in
      if counter <=? idx
      then match walk_fwd ops n counter (idx - 1) st with Some (c, st') => SOk c st' | None => SPanic end
      else match walk_bwd ops n counter (idx - 1) st with Some (c, st') => SOk c st' | None => SPanic end
  | OpScopeBegin _ _ => SOk counter (push_scope st)
  | OpScopeEnd _ _ => SOk counter (pop_scope st)
  end.

(* handleError.  ListHandlers lists the scopes from the top, each in declaration order; the loop keeps the LAST
   SQLEXCEPTION handler (the [break] only leaves the switch), i.e. the outermost one.  Only the first operation of the
   handler statement is executed; if it returns a row iterator (OpCode_Execute: SET @u) draining it ends with io.EOF,
   which handleError returns together with counter -1: the procedure restarts.  EXIT: scan forward from the handler's
   DECLARE for the ScopeEnd of its block and continue after it (the ScopeEnd itself is skipped). *)
Inductive hres := HNone | HFail | HPanic | HGo (counter : Z) (st : state).

Fixpoint exit_scan (ops : list op) (n : nat) (pos remaining : Z) : option Z :=
  if (remaining =? 0) || (zlen ops <=? pos) then Some pos else
  match n with
  | O => None
  | S n' => match nth_op ops pos with
            | None => None
            | Some (OpScopeBegin _ _) => exit_scan ops n' (pos + 1) (remaining + 1)
            | Some (OpScopeEnd _ _) => exit_scan ops n' (pos + 1) (remaining - 1)
            | Some _ => exit_scan ops n' (pos + 1) remaining
            end
  end.

Definition handle_error (ops : list op) (counter : Z) (st : state) : hres :=
  match rev (concat (hscopes st)) with
  | [] => HNone
  | (k, h, hc) :: _ =>
      match h with
      | HSetUser u e => match eval st e with
                        | Some v => HGo (-1) (set_user st u v)
                        | None => HFail
                        end
      | HSet x e =>
          match run_hstmt st (HSet x e) with
          | None => HFail
          | Some st' =>
              match k with
              | HContinue => HGo counter st'
              | HExit => match exit_scan ops (S (length ops)) hc 1 with
                         | Some nc => HGo (nc - 1) st'
                         | None => HPanic
                         end
              end
          end
      end
  end.

(* the loop of Call: counter++; counter < 0 => panic; counter >= len => done *)
Fixpoint run (ops : list op) (fuel : nat) (counter : Z) (st : state) : mres :=
  match fuel with
  | O => MNoFuel
  | S f =>
    let c := counter + 1 in
    if c <? 0 then MPanic
    else match nth_op ops c with
         | None => MDone st
         | Some o => match exec_op ops c o st with
                     | SOk c' st' => run ops f c' st'
                     | SErr => match handle_error ops c st with
                               | HGo c' st' => run ops f c' st'
                               | HNone | HFail => MErr
                               | HPanic => MPanic
                               end
                     | SPanic => MPanic
                     | SStale => MStale
                     end
         end
  end.

Definition init_state (ps : scope) (us : scope) : state := mkState [[]] [[]] ps us.

Definition call (s : stmt) (fuel : nat) (ps us : scope) : mres := run (parse s) fuel (-1) (init_state ps us).
